(** Lemmas about the store model. Part 3: what [iter] does in one formula, histories and
    filled cells, and the store part of [Font::save] over the abstract target. *)
Require Import Norad.Model.Base Norad.Model.Store Norad.Proofs.StoreP Norad.Proofs.StoreInvP.
Open Scope N_scope.

(** * [iter] forces every cell, each against the same key set *)

Definition force (k : kind) (d : disk) (its0 : items) (tc : str * cell) : str * cell :=
  (fst tc, match snd tc with NotLoaded => load_item k d (fst tc) its0 | c => c end).

Lemma load_item_keys_only k d raw its its' : keys its = keys its' -> load_item k d raw its = load_item k d raw its'.
Proof.
  intros E. unfold load_item. destruct (os_read d raw); [|reflexivity].
  rewrite (validate_keys_only k raw its its' b E). reflexivity.
Qed.
Lemma force_keys_only k d its its' tc : keys its = keys its' -> force k d its tc = force k d its' tc.
Proof. intros E. unfold force. destruct (snd tc); try reflexivity. rewrite (load_item_keys_only k d _ its its' E). reflexivity. Qed.

Lemma set_cell_at t c c' pre suf :
  ~ In (components t) (kp pre) -> set_cell t c' (pre ++ (t, c) :: suf) = pre ++ (t, c') :: suf.
Proof.
  induction pre as [|[t0 c0] r IH]; simpl; intros H.
  - rewrite (proj2 (key_eqb_spec t t) eq_refl). reflexivity.
  - destruct (key_eqb t0 t) eqn:E.
    + apply key_eqb_spec in E. exfalso. apply H. left. exact E.
    + rewrite IH; [reflexivity|]. intros X. apply H. right. exact X.
Qed.

Lemma keys_app a b : keys (a ++ b) = keys a ++ keys b.
Proof. unfold keys. apply map_app. Qed.
Lemma keys_map_force k d its0 l : keys (map (force k d its0) l) = keys l.
Proof. unfold keys. rewrite map_map. reflexivity. Qed.

Lemma NoDup_app_notin {A} (a b : list A) x : NoDup (a ++ x :: b) -> ~ In x a.
Proof.
  induction a as [|y a IH]; simpl; intros H; [intros []|].
  inversion H as [|? ? Hn Hr]; subst. intros [E|X].
  - subst y. apply Hn. apply in_or_app. right. left. reflexivity.
  - exact (IH Hr X).
Qed.

Lemma iter_keys_spec k d : forall suf pre,
  NoDup (kp (pre ++ suf)) ->
  iter_keys k d (keys suf) (pre ++ suf) =
  (map (fun tc => (fst tc, cell_res (snd (force k d (pre ++ suf) tc)))) suf,
   pre ++ map (force k d (pre ++ suf)) suf).
Proof.
  induction suf as [|[t c] suf IH]; intros pre Hnd.
  - simpl. rewrite app_nil_r. reflexivity.
  - assert (Hnotin : ~ In (components t) (kp pre)).
    { rewrite kp_app in Hnd. simpl in Hnd. eapply NoDup_app_notin. exact Hnd. }
    assert (Hfind : find_key t (pre ++ (t, c) :: suf) = Some (t, c)).
    { apply find_key_in; [exact Hnd|]. apply in_or_app. right. left. reflexivity. }
    set (its := pre ++ (t, c) :: suf) in *.
    set (c2 := snd (force k d its (t, c))).
    assert (Eg : get k d t its = (Some (cell_res c2), pre ++ (t, c2) :: suf)).
    { unfold get. rewrite Hfind. unfold c2, force. simpl. destruct c.
      - unfold its. rewrite set_cell_at by exact Hnotin. reflexivity.
      - reflexivity.
      - reflexivity. }
    change (keys ((t, c) :: suf)) with (t :: keys suf). simpl iter_keys. rewrite Eg.
    assert (Ekeys : keys ((pre ++ [(t, c2)]) ++ suf) = keys its).
    { unfold its. rewrite !keys_app. rewrite <- app_assoc. reflexivity. }
    assert (Eapp : pre ++ (t, c2) :: suf = (pre ++ [(t, c2)]) ++ suf) by (rewrite <- app_assoc; reflexivity).
    rewrite Eapp. rewrite IH.
    2:{ rewrite kp_keys, Ekeys, <- kp_keys. exact Hnd. }
    f_equal.
    + cbn [map]. f_equal. apply map_ext. intros tc. rewrite (force_keys_only k d _ its tc Ekeys). reflexivity.
    + rewrite <- app_assoc. cbn [map app]. f_equal. f_equal.
      apply map_ext. intros tc. apply (force_keys_only k d _ its tc Ekeys).
Qed.

Lemma iter_spec k d its :
  NoDup (kp its) ->
  iter k d its = (map (fun tc => (fst tc, cell_res (snd (force k d its tc)))) its, map (force k d its) its).
Proof. intros H. unfold iter. apply (iter_keys_spec k d its [] H). Qed.

Lemma load_item_filled k d raw its : load_item k d raw its <> NotLoaded.
Proof. unfold load_item. destruct (os_read d raw); [destruct (validate k raw its b)|]; discriminate. Qed.

Lemma force_filled k d its0 tc : snd (force k d its0 tc) <> NotLoaded.
Proof. unfold force. simpl. destruct (snd tc); [apply load_item_filled | discriminate | discriminate]. Qed.

Lemma force_idem k d d' its0 its1 tc : force k d' its1 (force k d its0 tc) = force k d its0 tc.
Proof.
  pose proof (force_filled k d its0 tc) as H. unfold force in *. simpl in *.
  destruct (snd tc); simpl; try reflexivity.
  destruct (load_item k d (fst tc) its0); [congruence | reflexivity | reflexivity].
Qed.

(** a second pass finds every cell filled and reads nothing *)
Lemma iter_again k d d' its :
  NoDup (kp its) ->
  iter k d' (snd (iter k d its)) = (fst (iter k d its), snd (iter k d its)).
Proof.
  intros H. rewrite (iter_spec k d its H). simpl.
  set (its1 := map (force k d its) its).
  assert (H1 : NoDup (kp its1)). { unfold its1. rewrite kp_keys, keys_map_force, <- kp_keys. exact H. }
  rewrite (iter_spec k d' its1 H1). unfold its1. rewrite !map_map. f_equal.
  - apply map_ext. intros tc. rewrite force_idem. reflexivity.
  - apply map_ext. intros tc. apply force_idem.
Qed.

Lemma iter_reports_error k d its t e :
  NoDup (kp its) -> In (t, Error e) its -> In (t, GErr e) (fst (iter k d its)).
Proof.
  intros H Hin. rewrite (iter_spec k d its H). simpl. apply in_map_iff. exists (t, Error e). split; [reflexivity | exact Hin].
Qed.
Lemma iter_reports_unreadable k d its t :
  NoDup (kp its) -> In (t, NotLoaded) its -> os_read d t = None -> In (t, GErr Io) (fst (iter k d its)).
Proof.
  intros H Hin Hr. rewrite (iter_spec k d its H). simpl. apply in_map_iff. exists (t, NotLoaded).
  split; [|exact Hin]. unfold force, load_item. simpl. rewrite Hr. reflexivity.
Qed.
Lemma iter_reports_loaded k d its t b :
  NoDup (kp its) -> In (t, Loaded b) its -> In (t, GOk b) (fst (iter k d its)).
Proof.
  intros H Hin. rewrite (iter_spec k d its H). simpl. apply in_map_iff. exists (t, Loaded b). split; [reflexivity | exact Hin].
Qed.
Lemma iter_result_keys k d its : NoDup (kp its) -> map fst (fst (iter k d its)) = keys its.
Proof. intros H. rewrite (iter_spec k d its H). simpl. rewrite map_map. reflexivity. Qed.

(** * Histories keep filled cells *)

Lemma iter_keys_keeps_filled k d ks raw c : forall its,
  cell_of raw its = Some c -> c <> NotLoaded -> cell_of raw (snd (iter_keys k d ks its)) = Some c.
Proof.
  induction ks as [|t r IH]; intros its H Hc; simpl; [exact H|].
  destruct (get k d t its) as [g its1] eqn:Eg. destruct (iter_keys k d r its1) as [l its2] eqn:Ei. simpl.
  replace its2 with (snd (iter_keys k d r its1)) by (rewrite Ei; reflexivity). apply IH; [|exact Hc].
  replace its1 with (snd (get k d t its)) by (rewrite Eg; reflexivity). apply get_keeps_filled; assumption.
Qed.

Lemma validate_none_basic k raw its data :
  validate k raw its data = None -> raw <> [] /\ is_absolute raw = false /\ all_normal (components raw) = true.
Proof.
  unfold validate. destruct raw as [|x r]; [intros X; discriminate X|]. simpl is_nil. cbv iota.
  destruct (is_absolute (x :: r)); [intros X; discriminate X|].
  destruct (all_normal (components (x :: r))); cbn [negb]; [|intros X; discriminate X].
  intros _. split; [discriminate|]. split; reflexivity.
Qed.

Lemma step_keeps_filled k o raw its c :
  touches raw o = false -> cell_of raw its = Some c -> c <> NotLoaded -> cell_of raw (step k its o) = Some c.
Proof.
  intros Ht H Hc. destruct o; simpl in *.
  - apply key_eqb_false in Ht. unfold insert. destruct (validate k raw0 its data) eqn:Ev; [exact H|]. simpl.
    destruct (validate_none_basic _ _ _ _ Ev) as [V1 [V2 V3]].
    unfold cell_of. rewrite find_key_put_other; [exact H|].
    rewrite components_rebuild; [exact Ht | apply components_nonempty; exact V1 | apply components_plain; exact V3].
  - apply key_eqb_false in Ht. unfold remove, cell_of. rewrite find_key_del_other by exact Ht. exact H.
  - apply get_keeps_filled; assumption.
  - discriminate.
  - unfold iter. apply iter_keys_keeps_filled; assumption.
  - exact H.
Qed.

Lemma run_keeps_filled k ops raw c : forall its,
  Forall (fun o => touches raw o = false) ops ->
  cell_of raw its = Some c -> c <> NotLoaded -> cell_of raw (run k ops its) = Some c.
Proof.
  unfold run. induction ops as [|o r IH]; intros its Hf H Hc; simpl; [exact H|].
  inversion Hf as [|? ? H1 H2]; subst. apply IH; [exact H2 | | exact Hc]. apply step_keeps_filled; assumption.
Qed.

Lemma cell_of_ext raw raw' its : components raw = components raw' -> cell_of raw its = cell_of raw' its.
Proof. intros E. unfold cell_of. rewrite (find_key_ext raw raw' its E). reflexivity. Qed.

(** the lazy-read theorem *)
Lemma lazy_get k d raw its r its1 :
  cell_of raw its = Some NotLoaded -> get k d raw its = (Some r, its1) ->
  (forall b, r = GOk b -> os_read d raw = Some b) /\
  (os_read d raw = None -> r = GErr Io) /\
  (forall b, os_read d raw = Some b -> validate k raw its b = None -> r = GOk b) /\
  forall ops d' raw',
    components raw' = components raw -> Forall (fun o => touches raw o = false) ops ->
    fst (get k d' raw' (run k ops its1)) = Some r.
Proof.
  intros H Hg. destruct (get_first k d raw its H) as [E1 [E2 E3]].
  assert (Er : r = cell_res (load_item k d raw its)) by (rewrite Hg in E1; congruence).
  rewrite Hg in E2. simpl in E2.
  split; [|split; [|split]].
  - intros b Eb. rewrite Er in Eb. unfold load_item in Eb. destruct (os_read d raw) as [b'|]; [|discriminate Eb].
    destruct (validate k raw its b'); [discriminate Eb|]. simpl in Eb. congruence.
  - intros Hr. rewrite Er. unfold load_item. rewrite Hr. reflexivity.
  - intros b Hr Hv. rewrite Er. unfold load_item. rewrite Hr, Hv. reflexivity.
  - intros ops d' raw' Ec Hf.
    assert (X : cell_of raw' (run k ops its1) = Some (load_item k d raw its)).
    { rewrite (cell_of_ext raw' raw _ Ec). apply run_keeps_filled; [exact Hf | exact E2 | exact E3]. }
    rewrite (get_filled k d' raw' _ _ X E3). rewrite Er. reflexivity.
Qed.

(** for a key of a store that satisfies the invariant, validation at load time can only fail
    on the image signature *)
Lemma validate_existing k its t c b :
  C16_inv k its -> In (t, c) its -> (k = KImage -> starts_with PNG_SIG b = true) -> validate k t its b = None.
Proof.
  intros Hinv Hin Hs. apply validate_none_iff; [eapply inv_keys_nonempty; exact Hinv|].
  destruct Hinv as [Hnd [Hk [Hp Hi]]]. destruct (Hk t c Hin) as [K1 [K2 [K3 K4]]].
  unfold insert_legal. split; [exact K1|]. split; [exact K2|]. split; [exact K3|]. destruct k.
  - intros t' c' Hin'. split; [eapply Hp; eassumption | eapply Hp; eassumption].
  - destruct (Hi eq_refl t c Hin) as [Hl _]. split; [exact Hl | apply Hs; reflexivity].
Qed.

Lemma lazy_get_complete k d its t b :
  C16_inv k its -> In (t, NotLoaded) its -> os_read d t = Some b ->
  (k = KImage -> starts_with PNG_SIG b = true) ->
  fst (get k d t its) = Some (GOk b).
Proof.
  intros Hinv Hin Hr Hs. unfold get. rewrite (find_key_in its t NotLoaded (inv_nodup k its Hinv) Hin). simpl.
  unfold load_item. rewrite Hr. rewrite (validate_existing k its t NotLoaded b Hinv Hin Hs). reflexivity.
Qed.

(** * The abstract target directory *)

Lemma fs_lookup_cons p e fs q : fs_lookup ((p, e) :: fs) q = if names_eqb p q then e else fs_lookup fs q.
Proof. reflexivity. Qed.
Lemma fs_lookup_cons_same p e fs : fs_lookup ((p, e) :: fs) p = e.
Proof. rewrite fs_lookup_cons, names_eqb_refl. reflexivity. Qed.
Lemma fs_lookup_cons_other p e fs q : p <> q -> fs_lookup ((p, e) :: fs) q = fs_lookup fs q.
Proof. intros H. rewrite fs_lookup_cons. apply names_eqb_neq in H. rewrite H. reflexivity. Qed.

(** [q] lies on the way from [pre] down to [pre ++ rest] *)
Definition on_way (pre rest q : list str) : Prop := exists a b, rest = a ++ b /\ q = pre ++ a.

Lemma mkdir_all_aux_spec : forall rest pre fs,
  (forall q b, on_way pre rest q -> fs_lookup fs q <> Some (AFile b)) ->
  exists fs', fs_mkdir_all_aux fs pre rest = inl fs' /\
    (forall q x, fs_lookup fs q = Some x -> fs_lookup fs' q = Some x) /\
    (forall q x, fs_lookup fs' q = Some x -> fs_lookup fs q = Some x \/ (x = ADir /\ on_way pre rest q)) /\
    fs_lookup fs' (pre ++ rest) = Some ADir.
Proof.
  induction rest as [|n r IH]; intros pre fs Hfile.
  - simpl. assert (Hpre : on_way pre [] pre) by (exists [], []; split; [reflexivity | symmetry; apply app_nil_r]).
    rewrite app_nil_r. destruct (fs_lookup fs pre) as [[b|]|] eqn:E.
    + exfalso. exact (Hfile pre b Hpre E).
    + exists fs. split; [reflexivity|]. split; [intros q x H; exact H|]. split; [intros q x H; left; exact H | exact E].
    + exists ((pre, Some ADir) :: fs). split; [reflexivity|]. split; [|split].
      * intros q x H. rewrite fs_lookup_cons_other; [exact H|]. intros X. subst q. congruence.
      * intros q x H. rewrite fs_lookup_cons in H. destruct (names_eqb pre q) eqn:Eq.
        -- apply names_eqb_eq in Eq. subst q. inversion H; subst. right. split; [reflexivity | exact Hpre].
        -- left. exact H.
      * apply fs_lookup_cons_same.
  - simpl.
    assert (Hpre : on_way pre (n :: r) pre) by (exists [], (n :: r); split; [reflexivity | symmetry; apply app_nil_r]).
    assert (Hway : forall q, on_way (pre ++ [n]) r q -> on_way pre (n :: r) q).
    { intros q [a [b [E1 E2]]]. exists (n :: a), b. split; [simpl; rewrite E1; reflexivity|].
      rewrite E2, <- app_assoc. reflexivity. }
    assert (Hlonger : forall q, on_way (pre ++ [n]) r q -> q <> pre).
    { intros q [a [b [E1 E2]]] X. subst q. rewrite <- app_assoc in X.
      rewrite <- (app_nil_r pre) in X at 2. apply app_inv_head in X. discriminate. }
    replace (pre ++ n :: r) with ((pre ++ [n]) ++ r) by (rewrite <- app_assoc; reflexivity).
    destruct (fs_lookup fs pre) as [[b|]|] eqn:E.
    + exfalso. exact (Hfile pre b Hpre E).
    + destruct (IH (pre ++ [n]) fs) as [fs' [R0 [R1 [R2 R3]]]].
      { intros q b Hq. apply Hfile. apply Hway. exact Hq. }
      exists fs'. split; [exact R0|]. split; [exact R1|]. split; [|exact R3].
      intros q x H. destruct (R2 q x H) as [X|[X1 X2]]; [left; exact X | right; split; [exact X1 | apply Hway; exact X2]].
    + destruct (IH (pre ++ [n]) ((pre, Some ADir) :: fs)) as [fs' [R0 [R1 [R2 R3]]]].
      { intros q b Hq. rewrite fs_lookup_cons_other; [apply Hfile; apply Hway; exact Hq|].
        intros X. apply (Hlonger q Hq). symmetry. exact X. }
      exists fs'. split; [exact R0|]. split; [|split; [|exact R3]].
      * intros q x H. apply R1. rewrite fs_lookup_cons_other; [exact H|]. intros X. subst q. congruence.
      * intros q x H. destruct (R2 q x H) as [X|[X1 X2]].
        -- rewrite fs_lookup_cons in X. destruct (names_eqb pre q) eqn:Eq.
           ++ apply names_eqb_eq in Eq. subst q. inversion X; subst. right. split; [reflexivity | exact Hpre].
           ++ left. exact X.
        -- right. split; [exact X1 | apply Hway; exact X2].
Qed.

Lemma mkdir_all_spec fs p :
  (forall q b, on_way [] p q -> fs_lookup fs q <> Some (AFile b)) ->
  exists fs', fs_mkdir_all fs p = inl fs' /\
    (forall q x, fs_lookup fs q = Some x -> fs_lookup fs' q = Some x) /\
    (forall q x, fs_lookup fs' q = Some x -> fs_lookup fs q = Some x \/ (x = ADir /\ on_way [] p q)) /\
    fs_lookup fs' p = Some ADir.
Proof. intros H. apply (mkdir_all_aux_spec p [] fs H). Qed.

(** * Writing data/ *)

Definition nm (t : str) : list str := names (components t).
Definition strict_prefix (q p : list str) : Prop := exists c, c <> [] /\ p = q ++ c.

(** what the entries to be written must satisfy *)
Definition entries_ok (l : list (str * gres)) : Prop :=
  (forall t g, In (t, g) l -> (exists b, g = GOk b) /\ plain (components t) /\ components t <> []) /\
  (forall t1 g1 t2 g2, In (t1, g1) l -> In (t2, g2) l -> ~ proper_prefix (components t1) (components t2)) /\
  NoDup (map (fun tg => components (fst tg)) l).

Lemma nm_inj t1 t2 : plain (components t1) -> plain (components t2) -> nm t1 = nm t2 -> components t1 = components t2.
Proof. intros H1 H2 E. rewrite <- (plain_names _ H1), <- (plain_names _ H2). unfold nm in E. rewrite E. reflexivity. Qed.

Lemma nm_strict_prefix t1 t2 :
  plain (components t1) -> plain (components t2) -> strict_prefix (nm t1) (nm t2) ->
  proper_prefix (components t1) (components t2).
Proof.
  intros H1 H2 [c [Hc E]]. apply proper_prefix_app. exists (map Normal c). split; [destruct c; [congruence | discriminate]|].
  rewrite <- (plain_names _ H2), <- (plain_names _ H1). unfold nm in E. rewrite E, map_app. reflexivity.
Qed.

Lemma nm_nonempty t : components t <> [] -> nm t <> [].
Proof. unfold nm, names. destruct (components t); [congruence | discriminate]. Qed.

Definition data_inv (fs : afs) (done : list (str * gres)) : Prop :=
  fs_lookup fs [] = Some ADir /\
  (forall t b, In (t, GOk b) done -> fs_lookup fs (DATA_DIR :: nm t) = Some (AFile b)) /\
  (forall q x, fs_lookup fs q = Some x ->
     q = [] \/ exists t g, In (t, g) done /\
       match x with
       | AFile b => q = DATA_DIR :: nm t /\ g = GOk b
       | ADir => strict_prefix q (DATA_DIR :: nm t)
       end).

Lemma removelast_cons_ne {A} (x : A) l : l <> [] -> removelast (x :: l) = x :: removelast l.
Proof. destruct l; [congruence | reflexivity]. Qed.

Lemma on_way_removelast (q p : list str) : p <> [] -> on_way [] (removelast p) q -> strict_prefix q p.
Proof.
  intros Hp [a [b [E1 E2]]]. simpl in E2. subst q. destruct (exists_last Hp) as [p' [z Ep]]. subst p.
  rewrite removelast_last in E1. subst p'. exists (b ++ [z]). split; [destruct b; discriminate|].
  rewrite app_assoc. reflexivity.
Qed.

Lemma strict_prefix_trans_l (a b c : list str) : strict_prefix a b -> strict_prefix b c -> strict_prefix a c.
Proof.
  intros [x [Hx E1]] [y [Hy E2]]. subst b c. exists (x ++ y). split; [destruct x; [congruence | discriminate]|].
  rewrite app_assoc. reflexivity.
Qed.
Lemma strict_prefix_irrefl (a : list str) : ~ strict_prefix a a.
Proof.
  intros [c [Hc E]]. rewrite <- (app_nil_r a) in E at 1. apply app_inv_head in E. congruence.
Qed.
Lemma strict_prefix_cons (x : str) a b : strict_prefix (x :: a) (x :: b) -> strict_prefix a b.
Proof. intros [c [Hc E]]. simpl in E. injection E as E'. exists c. split; [exact Hc | exact E']. Qed.
Lemma strict_prefix_cons_head (x y : str) a b : strict_prefix (x :: a) (y :: b) -> x = y.
Proof. intros [c [Hc E]]. simpl in E. injection E as E1 E2. symmetry. exact E1. Qed.

Lemma fs_write_ok fs p b :
  fs_lookup fs (parent_of p) = Some ADir -> fs_lookup fs p <> Some ADir ->
  fs_write fs p b = inl ((p, Some (AFile b)) :: fs).
Proof.
  intros H1 H2. unfold fs_write. rewrite H1.
  destruct (fs_lookup fs p) as [[b1|]|]; [reflexivity | congruence | reflexivity].
Qed.

Lemma write_data_cons fs t b r :
  write_data fs ((t, GOk b) :: r) =
  match fs_mkdir_all fs (parent_of (DATA_DIR :: nm t)) with
  | inr e => inr (SaveFsError e)
  | inl fs1 => match fs_write fs1 (DATA_DIR :: nm t) b with
               | inr e => inr (SaveFsError e)
               | inl fs2 => write_data fs2 r
               end
  end.
Proof. reflexivity. Qed.

Lemma write_data_ok : forall l done fs,
  entries_ok (done ++ l) -> data_inv fs done ->
  exists fs', write_data fs l = inl fs' /\ data_inv fs' (done ++ l).
Proof.
  induction l as [|[t g] l IH]; intros done fs Hok Hinv.
  - exists fs. rewrite app_nil_r. split; [reflexivity | exact Hinv].
  - destruct Hok as [O1 [O2 O3]].
    assert (Hin_t : In (t, g) (done ++ (t, g) :: l)) by (apply in_or_app; right; left; reflexivity).
    destruct (O1 t g Hin_t) as [[b Eg] [Hpl Hne]]. subst g.
    assert (Hdone : forall t' g', In (t', g') done -> In (t', g') (done ++ (t, GOk b) :: l))
      by (intros; apply in_or_app; left; assumption).
    assert (Hdiff : forall t' g', In (t', g') done -> components t' <> components t).
    { intros t' g' Hin E. rewrite map_app in O3. simpl in O3. apply NoDup_app_notin in O3.
      apply O3. rewrite <- E. apply in_map_iff. exists (t', g'). split; [reflexivity | exact Hin]. }
    destruct Hinv as [I1 [I2 I3]].
    set (dest := DATA_DIR :: nm t).
    assert (Hnm : nm t <> []) by (apply nm_nonempty; exact Hne).
    assert (Epar : parent_of dest = DATA_DIR :: removelast (nm t)) by (apply removelast_cons_ne; exact Hnm).
    assert (Hdest : dest <> []) by discriminate.
    (* no file on the way to the parent *)
    destruct (mkdir_all_spec fs (parent_of dest)) as [fs1 [M0 [M1 [M2 M3]]]].
    { intros q b0 Hq Hf. apply (on_way_removelast q dest Hdest) in Hq.
      destruct (I3 q _ Hf) as [Eq|[t' [g' [Hin' [Eq Eg']]]]].
      - subst q. rewrite I1 in Hf. discriminate.
      - subst q g'. apply strict_prefix_cons in Hq.
        destruct (O1 t' _ (Hdone _ _ Hin')) as [_ [Hpl' _]].
        apply (O2 t' (GOk b0) t (GOk b) (Hdone _ _ Hin') Hin_t). apply nm_strict_prefix; assumption. }
    rewrite write_data_cons. fold dest. rewrite M0.
    (* the destination is not a directory *)
    assert (Hnodir : fs_lookup fs1 dest <> Some ADir).
    { intros Hd. destruct (M2 dest ADir Hd) as [Hold|[_ Hq]].
      - destruct (I3 dest _ Hold) as [Eq|[t' [g' [Hin' Hsp]]]]; [discriminate|].
        apply strict_prefix_cons in Hsp. destruct (O1 t' _ (Hdone _ _ Hin')) as [_ [Hpl' _]].
        apply (O2 t (GOk b) t' g' Hin_t (Hdone _ _ Hin')). apply nm_strict_prefix; assumption.
      - apply (on_way_removelast dest dest Hdest) in Hq. exact (strict_prefix_irrefl dest Hq). }
    rewrite (fs_write_ok fs1 dest b M3 Hnodir). set (fs2 := (dest, Some (AFile b)) :: fs1).
    replace (done ++ (t, GOk b) :: l) with ((done ++ [(t, GOk b)]) ++ l) by (rewrite <- app_assoc; reflexivity).
    apply IH.
    + replace ((done ++ [(t, GOk b)]) ++ l) with (done ++ (t, GOk b) :: l) by (rewrite <- app_assoc; reflexivity).
      split; [exact O1 | split; [exact O2 | exact O3]].
    + unfold data_inv. split; [|split].
      * unfold fs2. rewrite fs_lookup_cons_other by exact Hdest. apply M1. exact I1.
      * intros t' b' Hin'. apply in_app_or in Hin'. destruct Hin' as [Hin'|[E|[]]].
        -- unfold fs2. rewrite fs_lookup_cons_other.
           ++ apply M1. apply I2. exact Hin'.
           ++ unfold dest. intros X. inversion X as [X']. destruct (O1 t' _ (Hdone _ _ Hin')) as [_ [Hpl' _]].
              apply (Hdiff t' _ Hin'). apply nm_inj; [exact Hpl' | exact Hpl | symmetry; exact X'].
        -- inversion E; subst t' b'. unfold fs2. apply fs_lookup_cons_same.
      * intros q x Hq. unfold fs2 in Hq. rewrite fs_lookup_cons in Hq. destruct (names_eqb dest q) eqn:Eq.
        -- apply names_eqb_eq in Eq. subst q. inversion Hq; subst x. right. exists t, (GOk b).
           split; [apply in_or_app; right; left; reflexivity | split; reflexivity].
        -- destruct (M2 q x Hq) as [Hold|[Ex Hway]].
           ++ destruct (I3 q x Hold) as [E0|[t' [g' [Hin' Hx]]]]; [left; exact E0|].
              right. exists t', g'. split; [apply in_or_app; left; exact Hin' | exact Hx].
           ++ subst x. apply (on_way_removelast q dest Hdest) in Hway. right. exists t, (GOk b).
              split; [apply in_or_app; right; left; reflexivity | exact Hway].
Qed.

(** * Writing images/ *)

Definition img_entries_ok (l : list (str * gres)) : Prop :=
  (forall t g, In (t, g) l -> (exists b, g = GOk b) /\ plain (components t) /\ length (components t) = 1%nat) /\
  NoDup (map (fun tg => components (fst tg)) l).

Definition img_inv (fs0 fs : afs) (done : list (str * gres)) : Prop :=
  (forall q x, fs_lookup fs0 q = Some x -> fs_lookup fs q = Some x) /\
  fs_lookup fs [IMAGES_DIR] = Some ADir /\
  (forall t b, In (t, GOk b) done -> fs_lookup fs (IMAGES_DIR :: nm t) = Some (AFile b)) /\
  (forall q x, fs_lookup fs q = Some x ->
     fs_lookup fs0 q = Some x \/ exists t b, In (t, GOk b) done /\ q = IMAGES_DIR :: nm t /\ x = AFile b).

Lemma write_images_cons fs t b r :
  write_images fs ((t, GOk b) :: r) =
  match fs_write fs (IMAGES_DIR :: nm t) b with
  | inr e => inr (SaveFsError e)
  | inl fs2 => write_images fs2 r
  end.
Proof. reflexivity. Qed.

Lemma nm_single t : plain (components t) -> length (components t) = 1%nat -> exists n, nm t = [n].
Proof.
  intros _ Hl. unfold nm. destruct (components t) as [|c [|c2 r]]; try discriminate. simpl. eexists. reflexivity.
Qed.

Lemma write_images_ok fs0 : forall l done fs,
  (forall q x, fs_lookup fs0 (IMAGES_DIR :: q) = Some x -> q = []) ->
  img_entries_ok (done ++ l) -> img_inv fs0 fs done ->
  exists fs', write_images fs l = inl fs' /\ img_inv fs0 fs' (done ++ l).
Proof.
  intros l. induction l as [|[t g] l IH]; intros done fs Hfs0 Hok Hinv.
  - exists fs. rewrite app_nil_r. split; [reflexivity | exact Hinv].
  - destruct Hok as [O1 O3].
    assert (Hin_t : In (t, g) (done ++ (t, g) :: l)) by (apply in_or_app; right; left; reflexivity).
    destruct (O1 t g Hin_t) as [[b Eg] [Hpl Hlen]]. subst g.
    assert (Hdone : forall t' g', In (t', g') done -> In (t', g') (done ++ (t, GOk b) :: l))
      by (intros; apply in_or_app; left; assumption).
    assert (Hdiff : forall t' g', In (t', g') done -> components t' <> components t).
    { intros t' g' Hin E. rewrite map_app in O3. simpl in O3. apply NoDup_app_notin in O3.
      apply O3. rewrite <- E. apply in_map_iff. exists (t', g'). split; [reflexivity | exact Hin]. }
    destruct Hinv as [I0 [I1 [I2 I3]]].
    destruct (nm_single t Hpl Hlen) as [n En].
    set (dest := IMAGES_DIR :: nm t).
    assert (Epar : parent_of dest = [IMAGES_DIR]) by (unfold dest; rewrite En; reflexivity).
    assert (Hnodir : fs_lookup fs dest <> Some ADir).
    { intros Hd. destruct (I3 dest ADir Hd) as [Hold|[t' [b' [_ [_ X]]]]]; [|discriminate].
      unfold dest in Hold. apply Hfs0 in Hold. rewrite En in Hold. discriminate. }
    rewrite write_images_cons. fold dest. rewrite (fs_write_ok fs dest b); [|rewrite Epar; exact I1 | exact Hnodir].
    replace (done ++ (t, GOk b) :: l) with ((done ++ [(t, GOk b)]) ++ l) by (rewrite <- app_assoc; reflexivity).
    apply IH; [exact Hfs0 | |].
    + replace ((done ++ [(t, GOk b)]) ++ l) with (done ++ (t, GOk b) :: l) by (rewrite <- app_assoc; reflexivity).
      split; assumption.
    + unfold img_inv. split; [|split; [|split]].
      * intros q x Hq. rewrite fs_lookup_cons_other; [apply I0; exact Hq|].
        intros X. subst q. unfold dest in Hq. apply Hfs0 in Hq. rewrite En in Hq. discriminate.
      * rewrite fs_lookup_cons_other; [exact I1|]. unfold dest. rewrite En. discriminate.
      * intros t' b' Hin'. apply in_app_or in Hin'. destruct Hin' as [Hin'|[E|[]]].
        -- rewrite fs_lookup_cons_other; [apply I2; exact Hin'|].
           unfold dest. intros X. inversion X as [X']. destruct (O1 t' _ (Hdone _ _ Hin')) as [_ [Hpl' _]].
           apply (Hdiff t' _ Hin'). apply nm_inj; [exact Hpl' | exact Hpl | symmetry; exact X'].
        -- inversion E; subst t' b'. apply fs_lookup_cons_same.
      * intros q x Hq. rewrite fs_lookup_cons in Hq. destruct (names_eqb dest q) eqn:Eq.
        -- apply names_eqb_eq in Eq. subst q. inversion Hq; subst x. right. exists t, b.
           split; [apply in_or_app; right; left; reflexivity | split; reflexivity].
        -- destruct (I3 q x Hq) as [Hold|[t' [b' [Hin' Hx]]]]; [left; exact Hold|].
           right. exists t', b'. split; [apply in_or_app; left; exact Hin' | exact Hx].
Qed.

(** * The save theorems *)

Lemma first_error_none l : first_error l = None <-> forall t e, ~ In (t, GErr e) l.
Proof.
  unfold first_error.
  set (f := fun x : str * gres => match snd x with GErr _ => true | _ => false end).
  destruct (filter f l) as [|[t' g'] r] eqn:Ef.
  - split; [|reflexivity]. intros _ t e Hin.
    assert (X : In (t, GErr e) (filter f l)) by (apply filter_In; split; [exact Hin | reflexivity]).
    rewrite Ef in X. exact X.
  - assert (X : In (t', g') (filter f l)) by (rewrite Ef; left; reflexivity).
    apply filter_In in X. destruct X as [X1 X2]. unfold f in X2. simpl in X2.
    destruct g'; try discriminate. split; [discriminate|]. intros H. exfalso. exact (H t' e X1).
Qed.

Lemma first_error_some l t e : first_error l = Some (t, e) -> In (t, GErr e) l.
Proof.
  unfold first_error.
  set (f := fun x : str * gres => match snd x with GErr _ => true | _ => false end).
  destruct (filter f l) as [|[t' g'] r] eqn:Ef; [discriminate|].
  assert (X : In (t', g') (filter f l)) by (rewrite Ef; left; reflexivity).
  apply filter_In in X. destruct X as [X1 _]. destruct g'; try discriminate. intros E. inversion E; subst. exact X1.
Qed.

Lemma first_error_exists l : (exists t e, In (t, GErr e) l) -> exists t e, first_error l = Some (t, e).
Proof.
  intros [t [e H]]. destruct (first_error l) as [[t' e']|] eqn:E; [exists t', e'; reflexivity|].
  exfalso. rewrite first_error_none in E. exact (E t e H).
Qed.

(** an entry in error makes save refuse with the target exactly as it was *)
Lemma save_precheck dd di data imgs target :
  (exists t e, In (t, GErr e) (fst (iter KData dd data))) \/
  (exists t e, In (t, GErr e) (fst (iter KImage di imgs))) ->
  exists t e data' imgs', save dd di data imgs target = (SaveInvalidEntry t e, target, data', imgs').
Proof.
  intros H. unfold save. destruct (iter KData dd data) as [ld data1] eqn:Ed. simpl in H.
  destruct (first_error ld) as [[t e]|] eqn:E1.
  - exists t, e, data1, imgs. reflexivity.
  - destruct (iter KImage di imgs) as [li imgs1] eqn:Ei. simpl in H.
    destruct H as [H|H].
    + exfalso. destruct H as [t [e H]]. rewrite first_error_none in E1. exact (E1 t e H).
    + destruct (first_error_exists li H) as [t [e E2]]. rewrite E2. exists t, e, data1, imgs1. reflexivity.
Qed.

Lemma cell_res_filled c : c <> NotLoaded -> (exists b, cell_res c = GOk b) \/ (exists e, cell_res c = GErr e).
Proof. destruct c; [congruence | left; eexists; reflexivity | right; eexists; reflexivity]. Qed.

Lemma iter_entry k d its t g :
  NoDup (kp its) -> In (t, g) (fst (iter k d its)) ->
  (exists c, In (t, c) its) /\ ((exists b, g = GOk b) \/ (exists e, g = GErr e)).
Proof.
  intros Hnd H. rewrite (iter_spec k d its Hnd) in H. simpl in H. apply in_map_iff in H.
  destruct H as [[t' c] [E Hin]]. simpl in E. inversion E; subst. split; [exists c; exact Hin|].
  apply cell_res_filled. apply (force_filled k d its (t, c)).
Qed.

Lemma iter_comps k d its : NoDup (kp its) -> map (fun tg => components (fst tg)) (fst (iter k d its)) = kp its.
Proof. intros Hnd. rewrite (iter_spec k d its Hnd). simpl. rewrite map_map. reflexivity. Qed.

Lemma key_ok_plain t : key_ok t -> plain (components t) /\ components t <> [].
Proof.
  intros [K1 [K2 [K3 K4]]]. split; [apply components_plain; exact K3 | apply components_nonempty; exact K1].
Qed.

Lemma data_entries_ok dd data :
  C16_inv KData data -> (forall t e, ~ In (t, GErr e) (fst (iter KData dd data))) ->
  entries_ok (fst (iter KData dd data)).
Proof.
  intros Hinv Hne. pose proof (inv_nodup _ _ Hinv) as Hnd. destruct Hinv as [_ [Hk [Hp _]]].
  unfold entries_ok. split; [|split].
  - intros t g Hin. destruct (iter_entry _ _ _ _ _ Hnd Hin) as [[c Hc] [Hg|[e Hg]]].
    + split; [exact Hg|]. apply key_ok_plain. eapply Hk. exact Hc.
    + subst g. exfalso. exact (Hne t e Hin).
  - intros t1 g1 t2 g2 H1 H2. destruct (iter_entry _ _ _ _ _ Hnd H1) as [[c1 Hc1] _].
    destruct (iter_entry _ _ _ _ _ Hnd H2) as [[c2 Hc2] _]. eapply Hp; eassumption.
  - rewrite iter_comps by exact Hnd. exact Hnd.
Qed.

Lemma img_entries_ok_of di imgs :
  C16_inv KImage imgs -> (forall t e, ~ In (t, GErr e) (fst (iter KImage di imgs))) ->
  img_entries_ok (fst (iter KImage di imgs)).
Proof.
  intros Hinv Hne. pose proof (inv_nodup _ _ Hinv) as Hnd. destruct Hinv as [_ [Hk [_ Hi]]].
  unfold img_entries_ok. split.
  - intros t g Hin. destruct (iter_entry _ _ _ _ _ Hnd Hin) as [[c Hc] [Hg|[e Hg]]].
    + split; [exact Hg|]. split; [apply key_ok_plain; eapply Hk; exact Hc | apply (Hi eq_refl t c Hc)].
    + subst g. exfalso. exact (Hne t e Hin).
  - rewrite iter_comps by exact Hnd. exact Hnd.
Qed.

Lemma iter_nil k d its : NoDup (kp its) -> is_nil (snd (iter k d its)) = is_nil its /\ (its = [] -> fst (iter k d its) = []).
Proof.
  intros Hnd. rewrite (iter_spec k d its Hnd). simpl. split; [destruct its; reflexivity | intros E; subst; reflexivity].
Qed.

Lemma dirs_differ : DATA_DIR <> IMAGES_DIR.
Proof. discriminate. Qed.

(** what the target holds after a successful save, as far as the stores are concerned *)
Definition saved_exactly (fs : afs) (ld li : list (str * gres)) : Prop :=
  (forall t b, In (t, GOk b) ld -> fs_lookup fs (DATA_DIR :: nm t) = Some (AFile b)) /\
  (forall t b, In (t, GOk b) li -> fs_lookup fs (IMAGES_DIR :: nm t) = Some (AFile b)) /\
  (forall q b, fs_lookup fs q = Some (AFile b) ->
     (exists t, In (t, GOk b) ld /\ q = DATA_DIR :: nm t) \/
     (exists t, In (t, GOk b) li /\ q = IMAGES_DIR :: nm t)).

Lemma save_verbatim dd di data imgs target :
  C16_inv KData data -> C16_inv KImage imgs ->
  (forall t e, ~ In (t, GErr e) (fst (iter KData dd data))) ->
  (forall t e, ~ In (t, GErr e) (fst (iter KImage di imgs))) ->
  exists fs,
    save dd di data imgs target = (SaveOk, Some fs, snd (iter KData dd data), snd (iter KImage di imgs)) /\
    saved_exactly fs (fst (iter KData dd data)) (fst (iter KImage di imgs)).
Proof.
  intros Hd Hi Hnd Hni.
  pose proof (inv_nodup _ _ Hd) as Nd. pose proof (inv_nodup _ _ Hi) as Ni.
  pose proof (data_entries_ok dd data Hd Hnd) as Okd. pose proof (img_entries_ok_of di imgs Hi Hni) as Oki.
  pose proof (iter_again KData dd dd data Nd) as Ad. pose proof (iter_again KImage di di imgs Ni) as Ai.
  destruct (iter_nil KData dd data Nd) as [Nild Nild']. destruct (iter_nil KImage di imgs Ni) as [Nili Nili'].
  unfold save.
  destruct (iter KData dd data) as [ld data1] eqn:Ed. simpl in *.
  rewrite (proj2 (first_error_none ld) Hnd).
  destruct (iter KImage di imgs) as [li imgs1] eqn:Ei. simpl in *.
  rewrite (proj2 (first_error_none li) Hni).
  rewrite Ad. rewrite Ai.
  set (fs0 := [([], Some ADir)] : afs).
  assert (Inv0 : data_inv fs0 []).
  { unfold data_inv, fs0. split; [reflexivity|]. split; [intros t b []|]. intros q x H. simpl in H.
    destruct (names_eqb [] q) eqn:E; [|discriminate]. apply names_eqb_eq in E. left. symmetry. exact E. }
  assert (Hdata : exists fs1, (if is_nil data1 then inl fs0 else write_data fs0 ld) = inl fs1 /\ data_inv fs1 ld).
  { destruct (is_nil data1) eqn:En.
    - exists fs0. split; [reflexivity|]. rewrite Nild in En. destruct data; [|discriminate]. rewrite Nild' by reflexivity. exact Inv0.
    - apply (write_data_ok ld [] fs0 Okd Inv0). }
  destruct Hdata as [fs1 [E1 Inv1]]. rewrite E1.
  destruct Inv1 as [J1 [J2 J3]].
  destruct (is_nil imgs1) eqn:En.
  - exists fs1. split; [reflexivity|]. rewrite Nili in En. destruct imgs; [|discriminate]. rewrite Nili' by reflexivity.
    unfold saved_exactly. split; [exact J2|]. split; [intros t b []|].
    intros q b H. destruct (J3 q _ H) as [E0|[t [g [Hin [Eq Eg]]]]].
    + subst q. rewrite J1 in H. discriminate.
    + subst g. left. exists t. split; assumption.
  - (* images/ is created, then filled *)
    assert (Hnone : fs_lookup fs1 [IMAGES_DIR] = None).
    { destruct (fs_lookup fs1 [IMAGES_DIR]) as [x|] eqn:E; [|reflexivity]. exfalso.
      destruct (J3 _ _ E) as [E0|[t [g [Hin Hx]]]]; [discriminate|]. destruct x.
      - destruct Hx as [Hx _]. assert (X1 : IMAGES_DIR = DATA_DIR) by congruence. exact (dirs_differ (eq_sym X1)).
      - apply strict_prefix_cons_head in Hx. exact (dirs_differ (eq_sym Hx)). }
    unfold fs_mkdir. rewrite Hnone. simpl parent_of. rewrite J1.
    set (fs2 := ([IMAGES_DIR], Some ADir) :: fs1).
    assert (Hfs2 : forall q x, fs_lookup fs2 (IMAGES_DIR :: q) = Some x -> q = []).
    { intros q x H. unfold fs2 in H. rewrite fs_lookup_cons in H. destruct (names_eqb [IMAGES_DIR] (IMAGES_DIR :: q)) eqn:E.
      - apply names_eqb_eq in E. inversion E. reflexivity.
      - exfalso. destruct (J3 _ _ H) as [E0|[t [g [Hin Hx]]]]; [discriminate|]. destruct x.
        + destruct Hx as [Hx _]. assert (X1 : IMAGES_DIR = DATA_DIR) by congruence. exact (dirs_differ (eq_sym X1)).
        + apply strict_prefix_cons_head in Hx. exact (dirs_differ (eq_sym Hx)). }
    assert (Inv2 : img_inv fs2 fs2 []).
    { unfold img_inv. split; [intros q x H; exact H|]. split; [unfold fs2; apply fs_lookup_cons_same|].
      split; [intros t b []|]. intros q x H. left. exact H. }
    destruct (write_images_ok fs2 li [] fs2 Hfs2 Oki Inv2) as [fs3 [E3 [K0 [K1 [K2 K3]]]]].
    rewrite E3. exists fs3. split; [reflexivity|]. change ([] ++ li) with li in K2, K3.
    assert (Hold : forall q x, fs_lookup fs1 q = Some x -> fs_lookup fs3 q = Some x).
    { intros q x H. apply K0. unfold fs2. rewrite fs_lookup_cons_other; [exact H|]. intros X. subst q. congruence. }
    unfold saved_exactly. split; [|split].
    + intros t b Hin. apply Hold. apply J2. exact Hin.
    + exact K2.
    + intros q b H. destruct (K3 q _ H) as [H2|[t [b' [Hin [Eq Ex]]]]].
      * unfold fs2 in H2. rewrite fs_lookup_cons in H2. destruct (names_eqb [IMAGES_DIR] q); [discriminate|].
        destruct (J3 q _ H2) as [E0|[t [g [Hin [Eq Eg]]]]].
        -- subst q. rewrite J1 in H2. discriminate.
        -- subst g. left. exists t. split; assumption.
      * inversion Ex; subst b'. right. exists t. split; assumption.
Qed.

(** * Statements in the form used by Props/C16.v *)

Lemma find_key_put_same t c raw its :
  components t = components raw -> exists t0, find_key raw (put t c its) = Some (t0, c).
Proof.
  intros E. induction its as [|[t' c'] r IH]; simpl.
  - rewrite (proj2 (key_eqb_spec t raw) E). exists t. reflexivity.
  - assert (Ek : key_eqb t' t = key_eqb t' raw) by (unfold key_eqb; rewrite E; reflexivity).
    rewrite Ek. destruct (key_eqb t' raw) eqn:E2; simpl; rewrite E2; [exists t'; reflexivity | exact IH].
Qed.

Lemma insert_accepts_iff_legal k raw data its :
  C16_inv k its -> (fst (insert k raw data its) = None <-> insert_legal k raw data its).
Proof.
  intros Hinv. rewrite <- (validate_none_iff k raw its data (inv_keys_nonempty k its Hinv)).
  unfold insert. destruct (validate k raw its data); simpl; split; intros H; try reflexivity; discriminate.
Qed.

Lemma rejected_noop k raw data its e its' : insert k raw data its = (Some e, its') -> its' = its.
Proof. unfold insert. destruct (validate k raw its data); congruence. Qed.

Lemma insert_stores k raw data its its' :
  insert k raw data its = (None, its') ->
  cell_of raw its' = Some (Loaded data) /\
  (forall raw', components raw' <> components raw -> cell_of raw' its' = cell_of raw' its) /\
  (forall t, In t (keys its') -> In t (keys its) \/ t = rebuild (components raw)).
Proof.
  unfold insert. destruct (validate k raw its data) eqn:Ev; [discriminate|]. intros E. inversion E; subst its'. clear E.
  destruct (validate_none_basic _ _ _ _ Ev) as [V1 [V2 V3]].
  assert (Et : components (rebuild (components raw)) = components raw).
  { apply components_rebuild; [apply components_nonempty; exact V1 | apply components_plain; exact V3]. }
  split; [|split].
  - destruct (find_key_put_same (rebuild (components raw)) (Loaded data) raw its Et) as [t0 H].
    unfold cell_of. rewrite H. reflexivity.
  - intros raw' Hne. unfold cell_of. rewrite find_key_put_other; [reflexivity|]. rewrite Et. congruence.
  - intros t Hin. unfold keys in Hin. apply in_map_iff in Hin. destruct Hin as [[t' c'] [E Hin]]. simpl in E. subst t'.
    destruct (put_in _ _ _ _ _ Hin) as [H|[[H _]|[c0 [H _]]]].
    + left. apply in_map_iff. exists (t, c'). split; [reflexivity | exact H].
    + right. exact H.
    + left. apply in_map_iff. exists (t, c0). split; [reflexivity | exact H].
Qed.

Lemma inv_clauses k its :
  C16_inv k its -> forall t c, In (t, c) its ->
  t <> [] /\ is_absolute t = false /\ all_normal (components t) = true /\ rebuild (components t) = t /\
  (forall t' c', In (t', c') its ->
     ~ proper_prefix (components t) (components t') /\ ~ proper_prefix (components t') (components t)) /\
  (k = KImage -> length (components t) = 1%nat /\ forall b, c = Loaded b -> starts_with PNG_SIG b = true).
Proof.
  intros [_ [Hk [Hp Hi]]] t c Hin. destruct (Hk t c Hin) as [K1 [K2 [K3 K4]]].
  split; [exact K1|]. split; [exact K2|]. split; [exact K3|]. split; [exact K4|]. split.
  - intros t' c' Hin'. split; eapply Hp; eassumption.
  - intros Ek. apply (Hi Ek t c Hin).
Qed.

Lemma error_entries_are_found k d its t :
  C16_inv k its ->
  (forall e, In (t, Error e) its -> In (t, GErr e) (fst (iter k d its))) /\
  (In (t, NotLoaded) its -> os_read d t = None -> In (t, GErr Io) (fst (iter k d its))) /\
  (forall b, In (t, Loaded b) its -> In (t, GOk b) (fst (iter k d its))) /\
  (forall b, In (t, NotLoaded) its -> os_read d t = Some b -> (k = KImage -> starts_with PNG_SIG b = true) ->
             In (t, GOk b) (fst (iter k d its))).
Proof.
  intros Hinv. pose proof (inv_nodup _ _ Hinv) as Hnd. split; [|split; [|split]].
  - intros e. apply iter_reports_error. exact Hnd.
  - apply iter_reports_unreadable. exact Hnd.
  - intros b. apply iter_reports_loaded. exact Hnd.
  - intros b Hin Hr Hs. rewrite (iter_spec k d its Hnd). simpl. apply in_map_iff. exists (t, NotLoaded).
    split; [|exact Hin]. unfold force, load_item. simpl. rewrite Hr.
    rewrite (validate_existing k its t NotLoaded b Hinv Hin Hs). reflexivity.
Qed.

(** * A key in plain form is read under exactly its names *)

Lemma trailing_dirish_snoc (l : str) x :
  trailing_dirish (l ++ [x]) =
  (x =? SEP) || ((x =? DOT) && match rev l with c2 :: _ => c2 =? SEP | [] => false end).
Proof. unfold trailing_dirish. rewrite rev_app_distr. reflexivity. Qed.

Lemma trailing_dirish_app_name (pre n : str) : name_ok n = true -> trailing_dirish (pre ++ n) = false.
Proof.
  intros H. apply name_ok_spec in H. destruct H as [H1 [H2 [H3 H4]]].
  destruct (exists_last H1) as [n' [x E]]. subst n.
  assert (Hx : x <> SEP). { intros X. apply H2. apply in_or_app. right. left. exact X. }
  rewrite app_assoc, trailing_dirish_snoc.
  apply N.eqb_neq in Hx. rewrite Hx. simpl orb.
  destruct (x =? DOT) eqn:Ed; [|reflexivity]. simpl andb. apply N.eqb_eq in Ed. subst x.
  rewrite rev_app_distr. destruct (rev n') as [|c2 r] eqn:Er.
  - assert (n' = []) by (rewrite <- (rev_involutive n'), Er; reflexivity). subst n'. simpl in H3. congruence.
  - simpl. apply N.eqb_neq. intros X. subst c2. apply H2. apply in_or_app. left.
    apply in_rev. rewrite Er. left. reflexivity.
Qed.

Lemma join_last_name (ns : list str) : ns <> [] -> exists pre n, join ns = pre ++ n /\ In n ns.
Proof.
  intros Hne. destruct (exists_last Hne) as [r [n E]]. subst ns. destruct r as [|m r'].
  - exists [], n. split; [reflexivity | left; reflexivity].
  - rewrite join_snoc by discriminate. exists (join (m :: r') ++ [SEP]), n. split.
    + rewrite <- app_assoc. reflexivity.
    + apply in_or_app. right. left. reflexivity.
Qed.

(** a key in plain form is read under exactly its names *)
Lemma os_read_plain d t : key_ok t -> os_read d t = disk_read d (names (components t)).
Proof.
  intros [K1 [K2 [K3 K4]]]. pose proof (components_plain t K3) as Hpl.
  pose proof (components_nonempty t K1) as Hne.
  assert (Et : t = join (names (components t))).
  { rewrite <- K4 at 1. rewrite <- (plain_names _ Hpl) at 1. apply rebuild_normals. apply plain_names_ok. exact Hpl. }
  unfold os_read. rewrite K3.
  assert (Hn : names (components t) <> []) by (destruct (components t); [congruence | discriminate]).
  destruct (join_last_name _ Hn) as [pre [n [E Hin]]].
  assert (X : trailing_dirish t = false).
  { rewrite Et, E. apply trailing_dirish_app_name.
    pose proof (plain_names_ok _ Hpl) as Hok. rewrite Forall_forall in Hok. apply Hok. exact Hin. }
  rewrite X. reflexivity.
Qed.
