(** Completeness side of the glif reader model: on attribute lists that obey the rules the
    attribute loops succeed, and what they return is the denotation of the attributes. *)
Require Import Norad.Model.GlifSpec Norad.Proofs.ContourP Norad.Proofs.GlifParseP.
Open Scope N_scope.

Section C.
Variable pf : str -> option fl.

(** the value an attribute denotes (what [parse_val] returns when it succeeds) *)
Definition den_val (ty : aty) (v : str) : option aval :=
  match ty with
  | ANum => option_map VNum (pf v)
  | AAngle => option_map VAngle (pf v)
  | AName | ABase => Some (VName v)
  | AColor => option_map VColor (parse_color pf v)
  | AIdent => Some (VIdent v)
  | APType => option_map VPType (ptype_of v)
  | ASmooth => Some (VBool (str_eqb v (s2l "yes")))
  | AFile => Some (VFile v)
  | AHex => option_map VHex (parse_hex v)
  | AU32 => option_map VN (parse_u32 v)
  end.

Lemma color_ok_parse v : color_ok pf v -> exists c, parse_color pf v = Some c.
Proof.
  intros (a & b & c & d & r & g & bl & al & ES & Ea & Eb & Ec & Ed & U1 & U2 & U3 & U4).
  unfold parse_color. rewrite ES, Ea, Eb, Ec, Ed, U1, U2, U3, U4. eexists; reflexivity.
Qed.

Lemma parse_val_complete ver seen ty v :
  val_ok pf ver ty v -> (ty = AIdent -> ~ In v seen) ->
  exists x, den_val ty v = Some x /\
    parse_val pf ver seen ty v = Ok (x, match ty with AIdent => v :: seen | _ => seen end).
Proof.
  intros VO NI. destruct ty; cbn [val_ok den_val parse_val] in *.
  - destruct (pf v) as [x|]; [|congruence]. eexists; split; reflexivity.
  - destruct VO as (x & -> & R1 & R2). rewrite R1, R2. eexists; split; reflexivity.
  - rewrite VO. eexists; split; reflexivity.
  - destruct v as [|c v]; [discriminate|]. rewrite VO. eexists; split; reflexivity.
  - destruct (color_ok_parse v VO) as [c ->]. eexists; split; reflexivity.
  - destruct VO as [-> IV]. rewrite IV. cbn [N.eqb negb].
    destruct (mem_str v seen) eqn:E; [apply mem_str_In in E; exfalso; exact (NI eq_refl E)|].
    eexists; split; reflexivity.
  - destruct (ptype_of v) as [t|]; [|congruence]. eexists; split; reflexivity.
  - eexists; split; reflexivity.
  - eexists; split; reflexivity.
  - destruct (parse_hex v) as [c|]; [|congruence]. eexists; split; reflexivity.
  - destruct (parse_u32 v) as [n|]; [|congruence]. eexists; split; reflexivity.
Qed.

Lemma den_val_rel ver ty v x :
  val_ok pf ver ty v -> den_val ty v = Some x -> pv_rel pf ver ty v x.
Proof.
  intros VO D. destruct ty; cbn [val_ok den_val pv_rel] in *.
  - destruct (pf v) as [y|]; inversion D; subst. eexists; split; reflexivity.
  - destruct VO as (y & E & R1 & R2). rewrite E in D. inversion D; subst. exists y; auto.
  - inversion D; subst. auto.
  - inversion D; subst. auto.
  - destruct (parse_color pf v) as [c|]; inversion D; subst. eexists; split; reflexivity.
  - inversion D; subst. destruct VO as [-> IV]. repeat split; auto. discriminate.
  - destruct (ptype_of v) as [t|]; inversion D; subst. eexists; split; reflexivity.
  - inversion D; subst. reflexivity.
  - inversion D; subst. reflexivity.
  - destruct (parse_hex v) as [c|]; inversion D; subst. eexists; split; reflexivity.
  - destruct (parse_u32 v) as [n|]; inversion D; subst. eexists; split; reflexivity.
Qed.

(** the attribute loop succeeds on rule-obeying attributes whose identifiers are fresh *)
Lemma attr_loop_complete ver k gate : forall a seen acc,
  (forall key v, In (key, v) a -> exists ty, lookup key (arms k) = Some ty /\ val_ok pf ver ty v) ->
  NoDup (map fst a) ->
  (forall key, In key (map fst a) -> ~ In key (map fst acc)) ->
  (forall i, In i (ids_in k a) -> ~ In i seen) -> NoDup (ids_in k a) ->
  (gate = true -> ver = 1 -> a = []) ->
  exists parsed,
    attr_loop pf ver k gate seen acc a = Ok (acc ++ parsed, rev (ids_in k a) ++ seen) /\
    Forall2 (attr_rel pf ver k) a parsed.
Proof.
  induction a as [|[key v] a IH]; intros seen acc HV ND HA HF NDi HG.
  - exists []. rewrite app_nil_r. split; [reflexivity|constructor].
  - cbn [attr_loop].
    assert (G : gate && (ver =? 1) = false).
    { destruct gate; [|reflexivity]. destruct (ver =? 1) eqn:E; [|reflexivity].
      apply N.eqb_eq in E. specialize (HG eq_refl E). discriminate. }
    rewrite G.
    assert (HK : has_key key acc = false).
    { destruct (has_key key acc) eqn:E; [|reflexivity]. apply has_key_In in E.
      exfalso. apply (HA key); [left; reflexivity|exact E]. }
    rewrite HK. destruct (HV key v (or_introl eq_refl)) as (ty & L & VO). rewrite L.
    inversion ND as [|? ? Hn ND']; subst.
    cbn [ids_in flat_map fst snd] in HF, NDi |- *. rewrite L in HF, NDi |- *. fold (ids_in k a) in *.
    assert (NI : ty = AIdent -> ~ In v seen).
    { intros ->. apply HF. left; reflexivity. }
    destruct (parse_val_complete ver seen ty v VO NI) as (x & D & ->). cbn [bind].
    set (seen1 := match ty with AIdent => v :: seen | _ => seen end).
    assert (HF1 : forall i, In i (ids_in k a) -> ~ In i seen1).
    { intros i Hi. subst seen1. destruct ty; try (apply HF; apply in_app_iff; right; exact Hi).
      cbn [app] in *. intros [<-|Hs].
      - inversion NDi; subst. contradiction.
      - apply (HF i); [right; exact Hi|exact Hs]. }
    assert (NDi1 : NoDup (ids_in k a)).
    { destruct ty; try exact NDi. inversion NDi; assumption. }
    destruct (IH seen1 (acc ++ [(key, x)])) as (parsed & E & F2).
    + intros key' v' Hin. apply HV. right; exact Hin.
    + exact ND'.
    + intros key' Hin. rewrite map_app, in_app_iff. intros [Hacc|[<-|[]]].
      * apply (HA key'); [right; exact Hin|exact Hacc].
      * contradiction.
    + exact HF1.
    + exact NDi1.
    + intros Hg Hv1. rewrite Hg, Hv1 in G. discriminate.
    + exists ((key, x) :: parsed). rewrite E, <- app_assoc. cbn [app]. split.
      * f_equal. f_equal. subst seen1. destruct ty; cbn [app rev]; rewrite <- ?app_assoc; reflexivity.
      * constructor; [|exact F2]. split; [reflexivity|]. exists ty. split; [exact L|].
        eapply den_val_rel; eauto.
Qed.

(** from the rules of an element to the hypotheses of the loop *)
Lemma attrs_ok_loop ver k a seen :
  attrs_ok pf ver k a -> (forall i, In i (ids_in k a) -> ~ In i seen) -> NoDup (ids_in k a) ->
  (k = KContour -> ver = 1 -> a = []) ->
  exists parsed,
    attr_loop pf ver k (match k with KContour => true | _ => false end) seen [] a
      = Ok (parsed, rev (ids_in k a) ++ seen) /\
    Forall2 (attr_rel pf ver k) a parsed.
Proof.
  intros (ND & HV & _) HF NDi HG.
  assert (HV' : forall key v, In (key, v) a -> exists ty, lookup key (arms k) = Some ty /\ val_ok pf ver ty v).
  { intros key v Hin. destruct (HV key v Hin) as (ty & L & VO). rewrite schema_arms in L. eauto. }
  assert (HG' : match k with KContour => true | _ => false end = true -> ver = 1 -> a = []).
  { destruct k; try discriminate. auto. }
  destruct (attr_loop_complete ver k (match k with KContour => true | _ => false end) a seen []
              HV' ND (fun _ _ H => H) HF NDi HG') as (parsed & E & F2).
  exists parsed. auto.
Qed.
End C.

Require Import Norad.Model.GlifDen Norad.Proofs.GlifSpecP.

Section E.
Variable pf : str -> option fl.

(* ---------- the typed getters return the denotation ---------- *)
Lemma get_num_den ver k a parsed key :
  Forall2 (attr_rel pf ver k) a parsed ->
  (lookup key (arms k) = Some ANum \/ lookup key (arms k) = Some AAngle \/ lookup key (arms k) = None) ->
  get_num key parsed = num_at pf key a.
Proof.
  intros F2 HT. unfold get_num, num_at. pose proof (store_lookup pf ver k a parsed key F2) as H.
  destruct (lookup key parsed) as [x|].
  - destruct H as (v & ty & La & Lt & PR). rewrite La.
    destruct HT as [HT|[HT|HT]]; rewrite HT in Lt; inversion Lt; subst ty.
    + destruct PR as (y & -> & ->). reflexivity.
    + destruct PR as (y & -> & -> & _). reflexivity.
  - rewrite H. reflexivity.
Qed.
Lemma get_name_den ver k a parsed key :
  Forall2 (attr_rel pf ver k) a parsed ->
  (lookup key (arms k) = Some AName \/ lookup key (arms k) = Some ABase) ->
  get_name key parsed = lookup key a.
Proof.
  intros F2 HT. unfold get_name. pose proof (store_lookup pf ver k a parsed key F2) as H.
  destruct (lookup key parsed) as [x|].
  - destruct H as (v & ty & La & Lt & PR). rewrite La.
    destruct HT as [HT|HT]; rewrite HT in Lt; inversion Lt; subst ty; destruct PR as (-> & _); reflexivity.
  - rewrite H. reflexivity.
Qed.
Lemma get_ident_den ver k a parsed :
  Forall2 (attr_rel pf ver k) a parsed -> lookup k_identifier (arms k) = Some AIdent ->
  get_ident parsed = lookup k_identifier a.
Proof.
  intros F2 HT. unfold get_ident. pose proof (store_lookup pf ver k a parsed k_identifier F2) as H.
  destruct (lookup k_identifier parsed) as [x|].
  - destruct H as (v & ty & La & Lt & PR). rewrite La. rewrite HT in Lt. inversion Lt; subst ty.
    destruct PR as (-> & _). reflexivity.
  - rewrite H. reflexivity.
Qed.
Lemma get_color_den ver k a parsed :
  Forall2 (attr_rel pf ver k) a parsed -> lookup k_color (arms k) = Some AColor ->
  get_color parsed = color_at pf a.
Proof.
  intros F2 HT. unfold get_color, color_at. pose proof (store_lookup pf ver k a parsed k_color F2) as H.
  destruct (lookup k_color parsed) as [x|].
  - destruct H as (v & ty & La & Lt & PR). rewrite La. rewrite HT in Lt. inversion Lt; subst ty.
    destruct PR as (c & -> & ->). reflexivity.
  - rewrite H. reflexivity.
Qed.
Lemma get_transform_den ver k a parsed :
  Forall2 (attr_rel pf ver k) a parsed ->
  (forall key, In key [k_xScale; k_xyScale; k_yxScale; k_yScale; k_xOffset; k_yOffset] ->
               lookup key (arms k) = Some ANum) ->
  get_transform parsed = transform_at pf a.
Proof.
  intros F2 HT. unfold get_transform, transform_at, num_or, num_or_at.
  rewrite !(get_num_den ver k a parsed) by (auto; left; apply HT; cbn; tauto). reflexivity.
Qed.

Lemma attr_ident_fresh a seen :
  (forall i, In i (attr_ident a) -> ~ In i seen) <->
  match lookup k_identifier a with Some v => ~ In v seen | None => True end.
Proof.
  unfold attr_ident. fold k_identifier. destruct (lookup k_identifier a) as [v|].
  - split; [intros H; apply H; left; reflexivity|intros H i [<-|[]]; exact H].
  - split; [auto|intros _ i []].
Qed.
Lemma attr_ident_nodup a : NoDup (attr_ident a).
Proof. unfold attr_ident. destruct (lookup _ a); repeat constructor. intros []. Qed.

Lemma required_num ver k a key :
  attrs_ok pf ver k a -> In key (required k) ->
  (lookup key (schema k) = Some ANum) -> exists x, num_at pf key a = Some x.
Proof.
  intros (ND & HV & HR) Hin HT. specialize (HR key Hin).
  apply in_map_iff in HR as ([key' v] & E & Hkv). cbn [fst] in E. subst key'.
  unfold num_at. rewrite (lookup_NoDup _ _ _ ND Hkv).
  destruct (HV key v Hkv) as (ty & L & VO). rewrite HT in L. inversion L; subst ty.
  cbn [val_ok] in VO. destruct (pf v) as [x|]; [eauto|congruence].
Qed.

Ltac loop_for K :=
  match goal with
  | AO : attrs_ok _ ?ver K ?a, HF : forall i, In i (attr_ident ?a) -> ~ In i ?seen |- _ =>
      let parsed := fresh "parsed" in let L := fresh "L" in let F2 := fresh "F2" in
      destruct (attrs_ok_loop pf ver K a seen AO) as (parsed & L & F2);
      [ rewrite (ids_in_ident K a (ident_kind_cases K) (proj1 AO)); exact HF
      | rewrite (ids_in_ident K a (ident_kind_cases K) (proj1 AO)); apply attr_ident_nodup
      | try discriminate
      | rewrite (ids_in_ident K a (ident_kind_cases K) (proj1 AO)) in L ]
  end.

Lemma parse_anchor_complete ver seen a :
  attrs_ok pf ver KAnchor a -> (forall i, In i (attr_ident a) -> ~ In i seen) ->
  exists x, anchor_den pf a = Some x /\
    parse_anchor pf ver seen a = Ok (x, rev (attr_ident a) ++ seen).
Proof.
  intros AO HF. loop_for KAnchor. unfold parse_anchor. rewrite L. cbn [bind].
  rewrite !(get_num_den ver KAnchor a parsed) by (auto; left; reflexivity).
  rewrite (get_name_den ver KAnchor a parsed k_name F2 (or_introl eq_refl)),
          (get_color_den ver KAnchor a parsed F2 eq_refl), (get_ident_den ver KAnchor a parsed F2 eq_refl).
  destruct (required_num ver KAnchor a k_x AO (or_introl eq_refl) eq_refl) as [x Ex].
  destruct (required_num ver KAnchor a k_y AO (or_intror (or_introl eq_refl)) eq_refl) as [y Ey].
  unfold anchor_den. rewrite Ex, Ey. eexists; split; reflexivity.
Qed.

Lemma parse_component_complete ver seen a :
  attrs_ok pf ver KComponent a -> (forall i, In i (attr_ident a) -> ~ In i seen) ->
  exists x, component_den pf a = Some x /\
    parse_component pf ver seen a = Ok (x, rev (attr_ident a) ++ seen).
Proof.
  intros AO HF. loop_for KComponent. unfold parse_component. rewrite L. cbn [bind].
  rewrite (get_name_den ver KComponent a parsed k_base F2 (or_intror eq_refl)),
          (get_ident_den ver KComponent a parsed F2 eq_refl),
          (get_transform_den ver KComponent a parsed F2)
    by (intros key [<-|[<-|[<-|[<-|[<-|[<-|[]]]]]]]; reflexivity).
  destruct AO as (ND & HV & HR). specialize (HR k_base (or_introl eq_refl)).
  apply in_map_iff in HR as ([key' v] & E & Hkv). cbn [fst] in E. subst key'.
  unfold component_den. rewrite (lookup_NoDup _ _ _ ND Hkv). eexists; split; reflexivity.
Qed.

Lemma parse_point_complete ver seen a :
  attrs_ok pf ver KPoint a -> (forall i, In i (attr_ident a) -> ~ In i seen) ->
  exists p, point_den pf a = Some p /\
    parse_point pf ver seen a = Ok (p, rev (attr_ident a) ++ seen).
Proof.
  intros AO HF. loop_for KPoint. unfold parse_point. rewrite L. cbn [bind].
  rewrite !(get_num_den ver KPoint a parsed) by (auto; left; reflexivity).
  rewrite (get_name_den ver KPoint a parsed k_name F2 (or_introl eq_refl)),
          (get_ident_den ver KPoint a parsed F2 eq_refl).
  destruct (required_num ver KPoint a k_x AO (or_introl eq_refl) eq_refl) as [x Ex].
  destruct (required_num ver KPoint a k_y AO (or_intror (or_introl eq_refl)) eq_refl) as [y Ey].
  unfold point_den. rewrite Ex, Ey. eexists; split; [reflexivity|]. f_equal. f_equal.
  unfold spec_pt. fold k_type k_smooth. cbn [fst snd]. f_equal.
  - pose proof (store_lookup pf ver KPoint a parsed k_type F2) as H.
    destruct (lookup k_type parsed) as [z|].
    + destruct H as (v & ty & La & Lt & PR). vm_compute in Lt. inversion Lt; subst ty.
      destruct PR as (t & -> & E). rewrite La, E. reflexivity.
    + rewrite H. reflexivity.
  - pose proof (store_lookup pf ver KPoint a parsed k_smooth F2) as H.
    destruct (lookup k_smooth parsed) as [z|].
    + destruct H as (v & ty & La & Lt & PR). vm_compute in Lt. inversion Lt; subst ty.
      cbn [pv_rel] in PR. subst z. rewrite La. reflexivity.
    + rewrite H. reflexivity.
Qed.

Lemma parse_guideline_complete ver seen a :
  attrs_ok pf ver KGuideline a -> guideline_shape a ->
  (forall i, In i (attr_ident a) -> ~ In i seen) ->
  exists x, guideline_den pf a = Some x /\
    parse_guideline pf ver seen a = Ok (x, rev (attr_ident a) ++ seen).
Proof.
  intros AO SH HF. loop_for KGuideline. unfold parse_guideline. rewrite L. cbn [bind].
  rewrite !(get_num_den ver KGuideline a parsed) by (auto; first [left; reflexivity|right; left; reflexivity]).
  rewrite (get_name_den ver KGuideline a parsed k_name F2 (or_introl eq_refl)),
          (get_color_den ver KGuideline a parsed F2 eq_refl), (get_ident_den ver KGuideline a parsed F2 eq_refl).
  destruct AO as (ND & HV & HR).
  assert (HN : forall key ty, lookup key (schema KGuideline) = Some ty -> (ty = ANum \/ ty = AAngle) ->
               has_key key a = true -> exists x, num_at pf key a = Some x).
  { intros key ty HT Hty HK. unfold has_key in HK. unfold num_at.
    destruct (lookup key a) as [v|] eqn:La; [|discriminate].
    apply lookup_In in La. destruct (HV key v La) as (ty' & L' & VO). rewrite HT in L'. inversion L'; subst ty'.
    destruct Hty as [-> | ->]; cbn [val_ok] in VO.
    - destruct (pf v); [eauto|congruence].
    - destruct VO as (x & -> & _). eauto. }
  assert (HZ : forall key, has_key key a = false -> num_at pf key a = None).
  { intros key HK. unfold has_key in HK. unfold num_at. destruct (lookup key a); [discriminate|reflexivity]. }
  unfold guideline_den. unfold guideline_shape in SH. fold k_x k_y k_angle in SH.
  destruct SH as [(Hx & Hy & Ha)|[(Hx & Hy & Ha)|(Hx & Hy & Ha)]].
  - destruct (HN k_x ANum eq_refl (or_introl eq_refl) Hx) as [x ->]. rewrite (HZ _ Hy), (HZ _ Ha).
    eexists; split; reflexivity.
  - destruct (HN k_y ANum eq_refl (or_introl eq_refl) Hy) as [y ->]. rewrite (HZ _ Hx), (HZ _ Ha).
    eexists; split; reflexivity.
  - destruct (HN k_x ANum eq_refl (or_introl eq_refl) Hx) as [x ->].
    destruct (HN k_y ANum eq_refl (or_introl eq_refl) Hy) as [y ->].
    destruct (HN k_angle AAngle eq_refl (or_intror eq_refl) Ha) as [d ->].
    eexists; split; reflexivity.
Qed.
End E.

(* ---------- points and contours ---------- *)
Section F.
Variable pf : str -> option fl.

Definition point_node (ver : N) (n : node) : Prop :=
  exists name a, n = Empty name a /\ ekind_of name = Some KPoint /\ attrs_ok pf ver KPoint a.

Lemma parse_points_complete ver : forall l seen bst acc bst',
  Forall (point_node ver) l ->
  run bst (map (fun n => spec_pt (attrs_of n)) l) = inr bst' ->
  NoDup (npids l) -> (forall i, In i (npids l) -> ~ In i seen) ->
  exists new,
    parse_points pf ver seen bst acc l = Ok (acc ++ new, bst', rev (npids l) ++ seen) /\
    Forall2 (fun n p => point_den pf (attrs_of n) = Some p) l new.
Proof.
  induction l as [|n l IH]; intros seen bst acc bst' HP HR ND HF.
  - cbn [map run] in HR. inversion HR; subst. exists []. rewrite app_nil_r. split; [reflexivity|constructor].
  - inversion HP as [|? ? (name & a & -> & EK & AO) HP']; subst.
    change (npids (Empty name a :: l)) with (attr_ident a ++ npids l) in *.
    change (map (fun n => spec_pt (attrs_of n)) (Empty name a :: l))
      with (spec_pt a :: map (fun n => spec_pt (attrs_of n)) l) in HR.
    cbn [run] in HR.
    destruct (step bst (spec_pt a)) as [e|bst1] eqn:ST; [discriminate|].
    apply NoDup_app_inv in ND as (ND1 & ND2 & ND3).
    destruct (parse_point_complete pf ver seen a AO) as (p & D & PP).
    { intros i Hi. apply HF. apply in_app_iff. left; exact Hi. }
    assert (PT : pt_of p = spec_pt a).
    { unfold point_den in D. destruct (num_at pf k_x a), (num_at pf k_y a); inversion D; subst.
      unfold pt_of; cbn [ptyp psmooth]. symmetry. apply surjective_pairing. }
    destruct (IH (rev (attr_ident a) ++ seen) bst1 (acc ++ [p]) bst' HP' HR ND2) as (new & E & F2).
    { intros i Hi Hin. apply in_app_iff in Hin as [Hin|Hin].
      - apply in_rev in Hin. exact (ND3 i Hin Hi).
      - apply (HF i); [apply in_app_iff; right; exact Hi|exact Hin]. }
    exists (p :: new). cbn [parse_points]. rewrite EK, PP. cbn [bind]. rewrite PT, ST, E.
    rewrite <- !app_assoc. cbn [app]. rewrite rev_app_distr, <- app_assoc. split; [reflexivity|].
    constructor; [unfold attrs_of; cbn [as_elem]; exact D|exact F2].
Qed.

Lemma run_of_build pts r :
  build pts = inr r -> exists bst, run (true, 0) pts = inr bst /\ end_path bst pts = None.
Proof.
  unfold build, end_path. destruct (run (true, 0) pts) as [e|[b cnt]]; [discriminate|]. cbn [snd].
  intros H. exists (b, cnt). split; [reflexivity|]. cbn [snd].
  destruct (0 <? cnt); [|reflexivity]. destruct (is_closed pts); [|discriminate].
  destruct (wrap cnt pts); [discriminate|reflexivity].
Qed.

Lemma Forall2_pt l new :
  Forall2 (fun n p => point_den pf (attrs_of n) = Some p) l new ->
  map pt_of new = map (fun n => spec_pt (attrs_of n)) l.
Proof.
  induction 1 as [|n p l new D F IH]; [reflexivity|]. cbn [map]. rewrite IH. f_equal.
  unfold point_den in D. destruct (num_at pf k_x (attrs_of n)), (num_at pf k_y (attrs_of n)); inversion D; subst.
  unfold pt_of; cbn [ptyp psmooth]. symmetry. apply surjective_pairing.
Qed.

Lemma parse_contour_complete ver seen a kids :
  attrs_ok pf ver KContour a -> (ver = 1 -> a = []) ->
  Forall (point_node ver) (tview kids) ->
  legal (map (fun n => spec_pt (attrs_of n)) (tview kids)) ->
  NoDup (attr_ident a ++ npids (tview kids)) ->
  (forall i, In i (attr_ident a ++ npids (tview kids)) -> ~ In i seen) ->
  exists pts,
    Forall2 (fun n p => point_den pf (attrs_of n) = Some p) (tview kids) pts /\
    parse_contour pf ver seen a kids
    = Ok (match pts with [] => None | _ => Some (mkContour pts (lookup k_identifier a) None) end,
          rev (attr_ident a ++ npids (tview kids)) ++ seen).
Proof.
  intros AO HG HP LG ND HF. unfold parse_contour.
  apply NoDup_app_inv in ND as (ND1 & ND2 & ND3).
  destruct (attrs_ok_loop pf ver KContour a seen AO) as (parsed & L & F2).
  { rewrite (ids_in_ident KContour a (ident_kind_cases KContour) (proj1 AO)).
    intros i Hi. apply HF. apply in_app_iff. left; exact Hi. }
  { rewrite (ids_in_ident KContour a (ident_kind_cases KContour) (proj1 AO)). exact ND1. }
  { intros _. exact HG. }
  rewrite (ids_in_ident KContour a (ident_kind_cases KContour) (proj1 AO)) in L.
  rewrite L. cbn [bind].
  apply accepts_iff_legal in LG as [r LG]. apply run_of_build in LG as (bst & RN & EP).
  destruct (parse_points_complete ver (tview kids) (rev (attr_ident a) ++ seen) (true, 0) [] bst HP RN ND2)
    as (pts & E & FP).
  { intros i Hi Hin. apply in_app_iff in Hin as [Hin|Hin].
    - apply in_rev in Hin. exact (ND3 i Hin Hi).
    - apply (HF i); [apply in_app_iff; right; exact Hi|exact Hin]. }
  cbn [app] in E. rewrite E. cbn [bind]. rewrite (Forall2_pt _ _ FP), EP.
  rewrite (get_ident_den pf ver KContour a parsed F2 eq_refl).
  exists pts. split; [exact FP|]. rewrite rev_app_distr, <- app_assoc. reflexivity.
Qed.
End F.

(* ---------- outline ---------- *)
Section G.
Variable pf : str -> option fl.

(** the forms the reader insists on (outside F14) *)
Definition outline_node (ver : N) (n : node) : Prop :=
  match n with
  | Elem name a kids =>
      ekind_of name = Some KContour /\ attrs_ok pf ver KContour a /\ (ver = 1 -> a = []) /\
      Forall (point_node pf ver) (tview kids) /\
      legal (map (fun p => spec_pt (attrs_of p)) (tview kids))
  | Empty name a =>
      (ekind_of name = Some KContour /\ attrs_ok pf ver KContour a /\ (ver = 1 -> a = [])) \/
      (ekind_of name = Some KComponent /\ attrs_ok pf ver KComponent a)
  | _ => False
  end.
(** identifiers the reader registers for an outline child *)
Definition onode_ids (n : node) : list str :=
  match n with
  | Elem name a kids => attr_ident a ++ npids (tview kids)
  | Empty name a => attr_ident a
  | _ => []
  end.

Lemma parse_outline_kids_complete ver : forall l seen cs ks,
  Forall (outline_node ver) l ->
  NoDup (flat_map onode_ids l) -> (forall i, In i (flat_map onode_ids l) -> ~ In i seen) ->
  exists cs' ks',
    parse_outline_kids pf ver seen cs ks l = Ok (cs', ks', rev (flat_map onode_ids l) ++ seen).
Proof.
  induction l as [|n l IH]; intros seen cs ks HN ND HF.
  - eexists; eexists; reflexivity.
  - inversion HN as [|? ? Hn HN']; subst. cbn [flat_map] in ND, HF.
    apply NoDup_app_inv in ND as (ND1 & ND2 & ND3).
    assert (HF2 : forall s1, (forall i, In i s1 -> In i (rev (onode_ids n)) \/ In i seen) ->
                  forall i, In i (flat_map onode_ids l) -> ~ In i s1).
    { intros s1 Hs i Hi Hin. apply Hs in Hin as [Hin|Hin].
      - apply in_rev in Hin. exact (ND3 i Hin Hi).
      - apply (HF i); [apply in_app_iff; right; exact Hi|exact Hin]. }
    destruct n as [name a|name a kids| | | | | |]; try contradiction; cbn [parse_outline_kids flat_map].
    + destruct Hn as [(EK & AO & HG)|[EK AO]]; rewrite EK.
      * cbn [onode_ids] in *.
        destruct (attrs_ok_loop pf ver KContour a seen AO) as (parsed & L & F2).
        { rewrite (ids_in_ident KContour a (ident_kind_cases KContour) (proj1 AO)).
          intros i Hi. apply HF. apply in_app_iff. left; exact Hi. }
        { rewrite (ids_in_ident KContour a (ident_kind_cases KContour) (proj1 AO)). exact ND1. }
        { intros _. exact HG. }
        rewrite (ids_in_ident KContour a (ident_kind_cases KContour) (proj1 AO)) in L.
        rewrite L. cbn [bind].
        destruct (IH (rev (attr_ident a) ++ seen) cs ks HN' ND2) as (cs' & ks' & E).
        { apply HF2. intros i Hi. apply in_app_iff in Hi. exact Hi. }
        rewrite E. rewrite rev_app_distr, <- app_assoc. eexists; eexists; reflexivity.
      * destruct (parse_component_complete pf ver seen a AO) as (c & D & P).
        { intros i Hi. apply HF. apply in_app_iff. left; exact Hi. }
        rewrite P. cbn [bind onode_ids].
        destruct (IH (rev (attr_ident a) ++ seen) cs (ks ++ [c]) HN' ND2) as (cs' & ks' & E).
        { apply HF2. intros i Hi. apply in_app_iff in Hi. exact Hi. }
        rewrite E. rewrite rev_app_distr, <- app_assoc. eexists; eexists; reflexivity.
    + destruct Hn as (EK & AO & HG & HP & LG). rewrite EK. cbn [onode_ids] in *.
      destruct (parse_contour_complete pf ver seen a kids AO HG HP LG ND1) as (pts & FP & P).
      { intros i Hi. apply HF. apply in_app_iff. left; exact Hi. }
      rewrite P. cbn [bind].
      match goal with |- context [parse_outline_kids pf ver ?s ?c ks l] =>
        destruct (IH s c ks HN' ND2) as (cs' & ks' & E) end.
      { apply HF2. intros i Hi. apply in_app_iff in Hi. exact Hi. }
      rewrite E. rewrite !rev_app_distr, <- !app_assoc. eexists; eexists; reflexivity.
Qed.
End G.

(* ---------- the glyph body ---------- *)
Section H.
Variable pf : str -> option fl.

Lemma loop_noid ver k a seen :
  attrs_ok pf ver k a -> (forall key, lookup key (arms k) <> Some AIdent) -> k <> KContour ->
  exists parsed, attr_loop pf ver k false seen [] a = Ok (parsed, seen) /\
                 Forall2 (attr_rel pf ver k) a parsed.
Proof.
  intros AO HN HK.
  assert (Z : ids_in k a = []) by (apply ids_in_nil; intros kv _; apply HN).
  destruct (attrs_ok_loop pf ver k a seen AO) as (parsed & L & F2).
  - rewrite Z. intros i [].
  - rewrite Z. constructor.
  - intros ->. contradiction.
  - rewrite Z in L. cbn [rev app] in L. exists parsed. split; [|exact F2].
    destruct k; try exact L. contradiction.
Qed.

Lemma parse_image_complete ver seen a :
  attrs_ok pf ver KImage a -> exists i, parse_image pf ver seen a = Ok i.
Proof.
  intros AO. destruct (loop_noid ver KImage a seen AO (no_ident_arm KImage)) as (parsed & L & F2); [discriminate|].
  unfold parse_image. rewrite L. cbn [bind].
  destruct AO as (ND & HV & HR). specialize (HR k_fileName (or_introl eq_refl)).
  apply in_map_iff in HR as ([key' v] & E & Hkv). cbn [fst] in E. subst key'.
  destruct (HV _ _ Hkv) as (ty & Lt & VO). vm_compute in Lt. inversion Lt; subst ty. cbn [val_ok] in VO.
  pose proof (store_lookup pf ver KImage a parsed k_fileName F2) as H.
  rewrite (lookup_NoDup _ _ _ ND Hkv) in H.
  destruct (lookup k_fileName parsed) as [x|]; [|discriminate].
  destruct H as (v' & ty & La & Lt' & PR). inversion La; subst v'. vm_compute in Lt'. inversion Lt'; subst ty.
  cbn [pv_rel] in PR. subst x. rewrite VO. eexists; reflexivity.
Qed.
Lemma parse_advance_complete ver seen a :
  attrs_ok pf ver KAdvance a -> exists w h, parse_advance pf ver seen a = Ok (w, h).
Proof.
  intros AO. destruct (loop_noid ver KAdvance a seen AO (no_ident_arm KAdvance)) as (parsed & L & F2); [discriminate|].
  unfold parse_advance. rewrite L. cbn [bind]. eexists; eexists; reflexivity.
Qed.
Lemma parse_unicode_complete ver seen a cps :
  attrs_ok pf ver KUnicode a -> exists cps', parse_unicode pf ver seen a cps = Ok cps'.
Proof.
  intros AO. destruct (loop_noid ver KUnicode a seen AO (no_ident_arm KUnicode)) as (parsed & L & F2); [discriminate|].
  unfold parse_unicode. rewrite L. cbn [bind].
  destruct AO as (ND & HV & HR). specialize (HR k_hex (or_introl eq_refl)).
  apply in_map_iff in HR as ([key' v] & E & Hkv). cbn [fst] in E. subst key'.
  pose proof (store_lookup pf ver KUnicode a parsed k_hex F2) as H.
  rewrite (lookup_NoDup _ _ _ ND Hkv) in H.
  destruct (lookup k_hex parsed) as [x|]; [|discriminate].
  destruct H as (v' & ty & La & Lt & PR). vm_compute in Lt. inversion Lt; subst ty.
  destruct PR as (c & -> & _). eexists; reflexivity.
Qed.

(** a child of <glyph> as the reader wants it: rule-obeying, leaf elements self-closing, lib and
    note with start and end tag *)
Definition child_node (ver : N) (n : node) : Prop :=
  match n with
  | Empty name a =>
      match ekind_of name with
      | Some KAdvance => attrs_ok pf ver KAdvance a
      | Some KUnicode => attrs_ok pf ver KUnicode a
      | Some KImage => ver = 2 /\ attrs_ok pf ver KImage a
      | Some KAnchor => ver = 2 /\ attrs_ok pf ver KAnchor a
      | Some KGuideline => ver = 2 /\ attrs_ok pf ver KGuideline a /\ guideline_shape a
      | Some KOutline => a = []
      | _ => False
      end
  | Elem name a kids =>
      match ekind_of name with
      | Some KOutline => a = [] /\ Forall (outline_node pf ver) (tview kids)
      | Some KLib => a = [] /\ lib_dict pf n <> None
      | Some KNote => a = [] /\ ver = 2
      | _ => False
      end
  | _ => False
  end.
(** identifiers the reader registers for a child *)
Definition child_pids (n : node) : list str :=
  match n with
  | Empty name a =>
      match ekind_of name with Some KAnchor | Some KGuideline => attr_ident a | _ => [] end
  | Elem name a kids =>
      match ekind_of name with Some KOutline => flat_map onode_ids (tview kids) | _ => [] end
  | _ => []
  end.

Definition flags_ok (st : pst) (l : list node) : Prop :=
  ((st_adv st = true -> count_kind KAdvance l = 0%nat) /\ (count_kind KAdvance l <= 1)%nat) /\
  ((st_out st = true -> count_kind KOutline l = 0%nat) /\ (count_kind KOutline l <= 1)%nat) /\
  ((st_lib st = true -> count_kind KLib l = 0%nat) /\ (count_kind KLib l <= 1)%nat) /\
  ((gimage (st_g st) <> None -> count_kind KImage l = 0%nat) /\ (count_kind KImage l <= 1)%nat) /\
  ((st_note st = true -> count_kind KNote l = 0%nat) /\ (count_kind KNote l <= 1)%nat).

Lemma count_kind_cons k n l :
  count_kind k (n :: l) = ((if is_kind k n then 1 else 0) + count_kind k l)%nat.
Proof. unfold count_kind. cbn [filter]. destruct (is_kind k n); reflexivity. Qed.

Ltac gsimpl :=
  cbn [st_g st_seen st_adv st_lib st_out st_note set_adv set_cps set_note set_image set_guides set_anchors
       set_outline set_lib gname gwidth gheight gcps gnote gimage gguides ganchors gcomps gcontours
       glib] in *.
Ltac kind_simpl EK :=
  unfold is_kind, kind_of, attrs_of, kids_of; cbn [as_elem]; rewrite ?EK; cbn [andb orb negb].

Lemma flag_step (b b' : bool) (isk : bool) c :
  ((b = true -> ((if isk then 1 else 0) + c = 0)%nat) /\ ((if isk then 1 else 0) + c <= 1)%nat) ->
  (b' = true -> b = true \/ isk = true) ->
  (b' = true -> c = 0%nat) /\ (c <= 1)%nat.
Proof.
  intros [H1 H2] H3. split; [|destruct isk; lia].
  intros Hb. destruct (H3 Hb) as [Hb0|Hi]; [specialize (H1 Hb0); destruct isk; lia|subst; lia].
Qed.

Lemma parse_child_complete ver st n l :
  (ver = 1 \/ ver = 2) -> child_node ver n -> flags_ok st (n :: l) ->
  NoDup (child_pids n) -> (forall i, In i (child_pids n) -> ~ In i (st_seen st)) ->
  exists st', parse_child pf ver st n = Ok st' /\
    st_seen st' = rev (child_pids n) ++ st_seen st /\ flags_ok st' l.
Proof.
  intros Hv CN FL ND HF. unfold flags_ok in FL. rewrite !count_kind_cons in FL.
  destruct FL as (FA & FO & FLb & FI & FN).
  destruct n as [name a|name a kids| | | | | |]; try contradiction; cbn [child_node child_pids] in *.
  - destruct (ekind_of name) as [k|] eqn:EK; [|contradiction].
    destruct k; try contradiction; unfold parse_child; rewrite EK.
    + (* advance *)
      assert (SA : st_adv st = false).
      { destruct (st_adv st); [|reflexivity]. destruct FA as [FA _]. specialize (FA eq_refl).
        revert FA. kind_simpl EK. discriminate. }
      rewrite SA. destruct (parse_advance_complete ver (st_seen st) a CN) as (w & h & ->). cbn [bind].
      eexists. split; [reflexivity|]. split; [reflexivity|]. unfold flags_ok; gsimpl.
      revert FA FO FLb FI FN. kind_simpl EK. intros. repeat split; try tauto; lia.
    + (* unicode *)
      destruct (parse_unicode_complete ver (st_seen st) a (gcps (st_g st)) CN) as (c & ->). cbn [bind].
      eexists. split; [reflexivity|]. split; [reflexivity|]. unfold flags_ok; gsimpl.
      revert FA FO FLb FI FN. kind_simpl EK. intros. repeat split; try tauto; lia.
    + (* image *)
      destruct CN as [-> AO]. cbn [N.eqb].
      assert (GI : gimage (st_g st) = None).
      { destruct (gimage (st_g st)) eqn:E; [|reflexivity]. destruct FI as [FI _].
        assert (X : Some i <> None) by discriminate. specialize (FI X). revert FI. kind_simpl EK. discriminate. }
      rewrite GI. destruct (parse_image_complete 2 (st_seen st) a AO) as (i & ->). cbn [bind].
      eexists. split; [reflexivity|]. split; [reflexivity|]. unfold flags_ok; gsimpl.
      revert FA FO FLb FI FN. kind_simpl EK. intros. repeat split; try tauto; try lia; try (intros _; lia).
    + (* anchor *)
      destruct CN as [-> AO]. cbn [N.eqb].
      destruct (parse_anchor_complete pf 2 (st_seen st) a AO HF) as (x & _ & ->). cbn [bind].
      eexists. split; [reflexivity|]. split; [reflexivity|]. unfold flags_ok; gsimpl.
      revert FA FO FLb FI FN. kind_simpl EK. intros. repeat split; try tauto; lia.
    + (* guideline *)
      destruct CN as (-> & AO & SH). cbn [N.eqb].
      destruct (parse_guideline_complete pf 2 (st_seen st) a AO SH HF) as (x & _ & ->). cbn [bind].
      eexists. split; [reflexivity|]. split; [reflexivity|]. unfold flags_ok; gsimpl.
      revert FA FO FLb FI FN. kind_simpl EK. intros. repeat split; try tauto; lia.
    + (* <outline/> *)
      assert (SO : st_out st = false).
      { destruct (st_out st); [|reflexivity]. destruct FO as [FO _]. specialize (FO eq_refl).
        revert FO. kind_simpl EK. discriminate. }
      rewrite SO. subst a. cbn [no_attrs]. eexists. split; [reflexivity|]. split; [reflexivity|]. unfold flags_ok; gsimpl.
      revert FA FO FLb FI FN. kind_simpl EK. intros. repeat split; try tauto; lia.
  - destruct (ekind_of name) as [k|] eqn:EK; [|contradiction].
    destruct k; try contradiction; unfold parse_child; rewrite EK.
    + (* outline *)
      assert (SO : st_out st = false).
      { destruct (st_out st); [|reflexivity]. destruct FO as [FO _]. specialize (FO eq_refl).
        revert FO. kind_simpl EK. discriminate. }
      rewrite SO. destruct CN as [-> CN]. cbn [no_attrs]. unfold parse_outline.
      destruct (parse_outline_kids_complete pf ver (tview kids) (st_seen st) [] [] CN ND HF) as (cs & ks & ->).
      cbn [bind]. destruct (if ver =? 1 then v1_split cs else ([], cs)) as [an cs'].
      eexists. split; [reflexivity|]. split; [reflexivity|]. unfold flags_ok; gsimpl.
      revert FA FO FLb FI FN. kind_simpl EK. intros. repeat split; try tauto; lia.
    + (* lib *)
      assert (SL : st_lib st = false).
      { destruct (st_lib st); [|reflexivity]. destruct FLb as [FLb _]. specialize (FLb eq_refl).
        revert FLb. kind_simpl EK. discriminate. }
      rewrite SL. destruct CN as [-> CN]. cbn [no_attrs negb]. unfold lib_dict, kids_of in CN; cbn [as_elem] in CN.
      destruct (plist_of_nodes pf kids) as [[]|]; try congruence.
      eexists. split; [reflexivity|]. split; [reflexivity|]. unfold flags_ok; gsimpl.
      revert FA FO FLb FI FN. kind_simpl EK. intros. repeat split; try tauto; lia.
    + (* note *)
      destruct CN as [-> ->]. cbn [N.eqb no_attrs negb].
      assert (GN : st_note st = false).
      { destruct (st_note st); [|reflexivity]. destruct FN as [FN _]. specialize (FN eq_refl).
        revert FN. kind_simpl EK. discriminate. }
      rewrite GN. eexists. split; [reflexivity|]. split; [reflexivity|]. unfold flags_ok; gsimpl.
      revert FA FO FLb FI FN. kind_simpl EK. intros. repeat split; try tauto; try lia; try (intros _; lia).
Qed.

Lemma parse_children_complete ver :
  (ver = 1 \/ ver = 2) ->
  forall l st,
  Forall (child_node ver) l -> flags_ok st l ->
  NoDup (flat_map child_pids l) -> (forall i, In i (flat_map child_pids l) -> ~ In i (st_seen st)) ->
  exists st', parse_children pf ver st l = Ok st'.
Proof.
  intros Hv. induction l as [|n l IH]; intros st HC FL ND HF; cbn [parse_children].
  - eexists; reflexivity.
  - inversion HC as [|? ? Hn HC']; subst. cbn [flat_map] in ND, HF.
    apply NoDup_app_inv in ND as (ND1 & ND2 & ND3).
    destruct (parse_child_complete ver st n l Hv Hn FL ND1) as (st1 & -> & ES & FL1).
    { intros i Hi. apply HF. apply in_app_iff. left; exact Hi. }
    cbn [bind]. apply IH; auto. rewrite ES. intros i Hi Hin. apply in_app_iff in Hin as [Hin|Hin].
    + apply in_rev in Hin. exact (ND3 i Hin Hi).
    + apply (HF i); [apply in_app_iff; right; exact Hi|exact Hin].
Qed.
End H.

(* ---------- load_object_libs succeeds when the entries of the objects are dictionaries ---------- *)
Section L.
Variable ids : list str.
Definition good (ol : dict) : Prop := forall i x, In i ids -> lookup i ol = Some x -> is_dict x.

Lemma good_remove k ol : good ol -> good (remove_key k ol).
Proof.
  intros G i x Hi L. rewrite lookup_remove_key in L. destruct (str_eqb i k); [discriminate|]. eauto.
Qed.
Lemma transfer_complete id ol :
  good ol -> (forall i, id = Some i -> In i ids) ->
  exists d ol1, transfer id ol = Ok (d, ol1) /\ good ol1.
Proof.
  intros G HI. unfold transfer. destruct id as [i|]; [|eexists; eexists; split; [reflexivity|exact G]].
  destruct (lookup i ol) as [x|] eqn:L; [|eexists; eexists; split; [reflexivity|exact G]].
  destruct (G i x (HI i eq_refl) L) as [d ->]. eexists; eexists. split; [reflexivity|apply good_remove; exact G].
Qed.
Lemma transfer_list_complete {A} (idof : A -> option str) setlib : forall l ol,
  good ol -> (forall x i, In x l -> idof x = Some i -> In i ids) ->
  exists l' ol', transfer_list idof setlib l ol = Ok (l', ol') /\ good ol'.
Proof.
  induction l as [|x l IH]; intros ol G HI; cbn [transfer_list].
  - eexists; eexists; split; [reflexivity|exact G].
  - destruct (transfer_complete (idof x) ol G) as (d & ol1 & -> & G1).
    { intros i E. eapply HI; [left; reflexivity|exact E]. }
    cbn [bind]. destruct (IH ol1 G1) as (l' & ol' & -> & G2).
    { intros y i Hy. apply HI. right; exact Hy. }
    cbn [bind]. eexists; eexists; split; [reflexivity|exact G2].
Qed.
Lemma transfer_contours_complete : forall l ol,
  good ol -> (forall i, In i (flat_map gcids l) -> In i ids) ->
  exists l' ol', transfer_contours l ol = Ok (l', ol') /\ good ol'.
Proof.
  induction l as [|c l IH]; intros ol G HI; cbn [transfer_contours].
  - eexists; eexists; split; [reflexivity|exact G].
  - cbn [flat_map] in HI. unfold gcids at 1 in HI.
    destruct (transfer_complete (cid c) ol G) as (d & ol1 & -> & G1).
    { intros i E. apply HI. rewrite E. left; reflexivity. }
    cbn [bind].
    destruct (transfer_list_complete pid point_setlib (cpoints c) ol1 G1) as (pts & ol2 & -> & G2).
    { intros p i Hp E. apply HI. apply in_app_iff. left. apply in_app_iff. right.
      unfold gpids. apply in_flat_map. exists p. split; [exact Hp|rewrite E; left; reflexivity]. }
    cbn [bind]. destruct (IH ol2 G2) as (l' & ol3 & -> & G3).
    { intros i Hi. apply HI. apply in_app_iff. right; exact Hi. }
    cbn [bind]. eexists; eexists; split; [reflexivity|exact G3].
Qed.

Lemma load_object_libs_complete g :
  (forall i, In i (glyph_ids g) -> In i ids) -> objlibs_ok ids (glib g) ->
  exists g', load_object_libs g = Ok g'.
Proof.
  intros HI OL. unfold load_object_libs. destruct (lookup objlibs_key (glib g)) as [v|] eqn:LK; [|eexists; reflexivity].
  destruct (OL v LK) as (od & -> & G). rewrite glyph_ids_eq in HI.
  destruct (transfer_list_complete aid anchor_setlib (ganchors g) od G) as (an & ol1 & -> & G1).
  { intros a i Ha E. apply HI. apply in_app_iff. left. unfold gaids. apply in_flat_map.
    exists a. split; [exact Ha|rewrite E; left; reflexivity]. }
  cbn [bind].
  destruct (transfer_list_complete guid guide_setlib (gguides g) ol1 G1) as (gu & ol2 & -> & G2).
  { intros a i Ha E. apply HI. apply in_app_iff. right. apply in_app_iff. left. unfold ggids. apply in_flat_map.
    exists a. split; [exact Ha|rewrite E; left; reflexivity]. }
  cbn [bind].
  destruct (transfer_contours_complete (gcontours g) ol2 G2) as (cs & ol3 & -> & G3).
  { intros i Hi. apply HI. apply in_app_iff. right. apply in_app_iff. right. apply in_app_iff. left; exact Hi. }
  cbn [bind].
  destruct (transfer_list_complete coid comp_setlib (gcomps g) ol3 G3) as (ks & ol4 & -> & G4).
  { intros a i Ha E. apply HI. apply in_app_iff. right. apply in_app_iff. right. apply in_app_iff. right.
    unfold gkids. apply in_flat_map. exists a. split; [exact Ha|rewrite E; left; reflexivity]. }
  cbn [bind]. eexists; reflexivity.
Qed.
End L.

(* ---------- from the rule predicate to what the reader wants (outside F14, F16, F17) ---------- *)
Section T.
Variable pf : str -> option fl.

Lemma kind_elem n k : kind_of n = Some k -> is_element n = true.
Proof. destruct n; cbn; try discriminate; reflexivity. Qed.

Lemma tview_sig_kids l :
  existsb is_comment l = false -> Forall (fun n => is_element n = true) (sig_kids l) ->
  tview l = sig_kids l.
Proof.
  induction l as [|n l IH]; [reflexivity|]. cbn [existsb]. intros HC HE.
  apply orb_false_iff in HC as [HC1 HC2].
  destruct n; cbn [is_comment] in HC1; try discriminate;
    cbn [tview sig_kids filter insig negb] in *; fold (sig_kids l) in *;
    try (inversion HE; subst; rewrite IH by assumption; reflexivity);
    try (inversion HE as [|? ? H1 _]; discriminate).
  destruct (blank s); cbn [negb] in *; [apply IH; assumption|].
  inversion HE as [|? ? H1 _]; discriminate.
Qed.

Lemma f14_elem d name a kids :
  f14_node (S d) (Elem name a kids) = false ->
  (is_kind KGlyph (Elem name a kids) || is_kind KOutline (Elem name a kids)
   || is_kind KContour (Elem name a kids)) = true ->
  existsb is_comment kids = false /\ Forall (fun k => f14_node d k = false) kids.
Proof.
  cbn [f14_node]. intros H K. apply orb_false_iff in H as [_ H]. rewrite K in H. cbn [andb] in H. clear K.
  induction kids as [|k kids IH]; [split; [reflexivity|constructor]|].
  cbn [existsb] in H |- *. apply orb_false_iff in H as [H1 H2]. apply orb_false_iff in H1 as [H1 H1'].
  destruct (IH H2) as [I1 I2]. rewrite H1, I1. split; [reflexivity|constructor; assumption].
Qed.
Lemma f14_not_leaf d n : f14_node d n = false -> f14_leaf n = false.
Proof. destruct d; cbn [f14_node]; intros H; apply orb_false_iff in H; apply H. Qed.

(** a leaf element outside F14 is self-closing *)
Lemma leaf_empty ver k n :
  leaf_ok pf ver k n -> f14_leaf n = false ->
  In k [KAdvance; KUnicode; KImage; KAnchor; KGuideline; KComponent; KPoint] ->
  exists name a, n = Empty name a /\ ekind_of name = Some k /\ attrs_ok pf ver k a.
Proof.
  intros (HK & _ & AO) HL Hin. destruct n as [name a|name a kids| | | | | |]; try discriminate.
  - exists name, a. auto.
  - exfalso. revert HL. unfold f14_leaf, is_kind. rewrite HK.
    destruct Hin as [<-|[<-|[<-|[<-|[<-|[<-|[<-|[]]]]]]]]; cbn; discriminate.
Qed.

Lemma outline_child_convert ver k :
  outline_child_ok pf ver k -> f14_node 1 k = false ->
  outline_node pf ver k /\ onode_ids k = outline_child_ids k.
Proof.
  intros OK H14. destruct OK as [(HK & AO & HP & LG)|LO].
  - destruct k as [name a|name a kids| | | | | |]; try discriminate.
    + unfold kind_of, attrs_of in *; cbn [as_elem] in *.
      split; [left; split; [exact HK|split; [exact AO|intros ->; eapply contour_v1_no_attrs; eauto]]|].
      cbn [onode_ids]. unfold outline_child_ids, contour_ids, is_kind, kind_of, attrs_of, kids_of; cbn [as_elem].
      rewrite HK. cbn [sig_kids filter flat_map]. rewrite app_nil_r. reflexivity.
    + unfold kind_of, attrs_of, kids_of in *; cbn [as_elem] in *.
      assert (KC : is_kind KContour (Elem name a kids) = true) by (apply is_kind_spec; exact HK).
      destruct (f14_elem 0 name a kids H14) as [NC FK]; [rewrite KC, orb_true_r; reflexivity|].
      assert (SK : tview kids = sig_kids kids).
      { apply tview_sig_kids; [exact NC|]. eapply Forall_impl; [|exact HP].
        intros p (HKp & _). eapply kind_elem; eauto. }
      rewrite Forall_forall in FK.
      split.
      * cbn [outline_node]. split; [exact HK|]. split; [exact AO|].
        split; [intros ->; eapply contour_v1_no_attrs; eauto|]. rewrite SK. split; [|exact LG].
        rewrite Forall_forall in *. intros p Hp.
        assert (Hin : In p kids) by (apply filter_In in Hp; apply Hp).
        apply (leaf_empty ver KPoint p (HP p Hp)); [apply (f14_not_leaf 0); apply (FK p Hin)|cbn; tauto].
      * cbn [onode_ids]. unfold outline_child_ids, contour_ids. rewrite KC.
        unfold attrs_of, kids_of; cbn [as_elem]. rewrite SK. reflexivity.
  - destruct (leaf_empty ver KComponent k LO (f14_not_leaf 1 k H14)) as (name & a & -> & EK & AO); [cbn; tauto|].
    split; [right; auto|].
    cbn [onode_ids]. unfold outline_child_ids, is_kind, kind_of, attrs_of; cbn [as_elem]. rewrite EK. reflexivity.
Qed.

Lemma child_convert ver n :
  child_ok pf ver n -> f14_node 2 n = false ->
  (is_kind KNote n = true -> ver = 2) ->
  child_node pf ver n /\ child_pids n = child_ids n.
Proof.
  intros CO H14 HN. unfold child_ok in CO. destruct (kind_of n) as [k|] eqn:HK; [|contradiction].
  assert (LE : forall k', k = k' -> leaf_ok pf ver k' n ->
               In k' [KAdvance; KUnicode; KImage; KAnchor; KGuideline; KComponent; KPoint] ->
               exists name a, n = Empty name a /\ ekind_of name = Some k' /\ attrs_ok pf ver k' a).
  { intros k' _ LO Hin. eapply leaf_empty; eauto. eapply f14_not_leaf; eauto. }
  destruct k; try contradiction.
  - destruct (LE _ eq_refl CO) as (name & a & -> & EK & AO); [cbn; tauto|].
    cbn [child_node child_pids]. rewrite EK. split; [exact AO|].
    unfold child_ids, is_kind, kind_of; cbn [as_elem]. rewrite EK. reflexivity.
  - destruct (LE _ eq_refl CO) as (name & a & -> & EK & AO); [cbn; tauto|].
    cbn [child_node child_pids]. rewrite EK. split; [exact AO|].
    unfold child_ids, is_kind, kind_of; cbn [as_elem]. rewrite EK. reflexivity.
  - destruct CO as [Hv CO]. destruct (LE _ eq_refl CO) as (name & a & -> & EK & AO); [cbn; tauto|].
    cbn [child_node child_pids]. rewrite EK. split; [auto|].
    unfold child_ids, is_kind, kind_of; cbn [as_elem]. rewrite EK. reflexivity.
  - destruct CO as [Hv CO]. destruct (LE _ eq_refl CO) as (name & a & -> & EK & AO); [cbn; tauto|].
    cbn [child_node child_pids]. rewrite EK. split; [auto|].
    unfold child_ids, is_kind, kind_of, attrs_of; cbn [as_elem]. rewrite EK. reflexivity.
  - destruct CO as (Hv & CO & SH). destruct (LE _ eq_refl CO) as (name & a & -> & EK & AO); [cbn; tauto|].
    cbn [child_node child_pids]. rewrite EK. split; [auto|].
    unfold child_ids, is_kind, kind_of, attrs_of; cbn [as_elem]. rewrite EK. reflexivity.
  - (* outline *)
    destruct CO as [HA CO]. destruct n as [name a|name a kids| | | | | |]; try discriminate.
    + unfold kind_of, attrs_of in *; cbn [as_elem] in *. cbn [child_node child_pids]. rewrite HK. split; [exact HA|].
      unfold child_ids, is_kind, kind_of, kids_of; cbn [as_elem]. rewrite HK. reflexivity.
    + unfold kind_of, attrs_of, kids_of in *; cbn [as_elem] in *.
      assert (KO : is_kind KOutline (Elem name a kids) = true) by (apply is_kind_spec; exact HK).
      destruct (f14_elem 1 name a kids H14) as [NC FK]; [rewrite KO, orb_true_r; reflexivity|].
      assert (SK : tview kids = sig_kids kids).
      { apply tview_sig_kids; [exact NC|]. eapply Forall_impl; [|exact CO].
        intros p [(HKp & _)|(HKp & _)]; eapply kind_elem; eauto. }
      assert (CV : forall k, In k (sig_kids kids) -> outline_node pf ver k /\ onode_ids k = outline_child_ids k).
      { intros k Hk. rewrite Forall_forall in CO, FK. apply outline_child_convert; [apply CO; exact Hk|].
        apply FK. apply filter_In in Hk. apply Hk. }
      cbn [child_node child_pids]. rewrite HK, SK. split.
      * split; [exact HA|]. apply Forall_forall. intros k Hk. apply CV. exact Hk.
      * unfold child_ids. rewrite KO. unfold is_kind, kind_of, kids_of; cbn [as_elem]. rewrite HK. cbn [orb].
        clear - CV. induction (sig_kids kids) as [|k l IH]; [reflexivity|]. cbn [flat_map].
        rewrite (proj2 (CV k (or_introl eq_refl))), IH; [reflexivity|]. intros; apply CV; right; assumption.
  - (* lib *)
    destruct CO as [HA CO]. destruct n as [name a|name a kids| | | | | |]; try discriminate.
    + exfalso. apply CO. unfold lib_dict, kids_of; cbn [as_elem]. reflexivity.
    + unfold kind_of, attrs_of in *; cbn [as_elem] in *. cbn [child_node child_pids]. rewrite HK. split; [split; [exact HA|exact CO]|].
      unfold child_ids, is_kind, kind_of; cbn [as_elem]. rewrite HK. reflexivity.
  - (* note *)
    destruct CO as [HA CO]. destruct n as [name a|name a kids| | | | | |]; try discriminate.
    + exfalso. revert H14. cbn [f14_node f14_leaf]. unfold is_kind. rewrite HK. cbn. discriminate.
    + pose proof HK as HK'. unfold kind_of, attrs_of in HK, HA; cbn [as_elem] in HK, HA. cbn [child_node child_pids]. rewrite HK.
      split; [split; [exact HA|apply HN; apply is_kind_spec; exact HK']|].
      unfold child_ids, is_kind, kind_of; cbn [as_elem]. rewrite HK. reflexivity.
Qed.

Lemma find_root_complete pre name a kids post :
  forallb prolog_node pre = true ->
  existsb (fun n => match n with DocType _ | PI _ => true | _ => false end) pre = false ->
  ekind_of name = Some KGlyph ->
  find_root (tview (pre ++ Elem name a kids :: post)) = Ok (a, kids).
Proof.
  intros HP HD EK. induction pre as [|n pre IH]; cbn [app tview].
  - cbn [find_root]. rewrite EK. reflexivity.
  - cbn [forallb existsb] in HP, HD. apply andb_true_iff in HP as [HP1 HP2].
    apply orb_false_iff in HD as [HD1 HD2].
    destruct n; cbn [prolog_node] in HP1; try discriminate; cbn [tview find_root]; auto.
    rewrite HP1. auto.
Qed.

Lemma parse_start_complete a ver :
  attrs_ok pf 2 KGlyph a -> version_of a = Some ver ->
  exists name, parse_start pf a = Ok (name, ver).
Proof.
  intros AO VO. destruct (loop_noid pf 2 KGlyph a [] AO (no_ident_arm KGlyph)) as (parsed & L & F2); [discriminate|].
  unfold parse_start. rewrite L. cbn [bind].
  rewrite (get_name_den pf 2 KGlyph a parsed k_name F2 (or_introl eq_refl)).
  destruct AO as (ND & HV & HR). pose proof (HR k_name (or_introl eq_refl)) as HRn.
  apply in_map_iff in HRn as ([key' nm] & E & Hkv). cbn [fst] in E. subst key'.
  rewrite (lookup_NoDup _ _ _ ND Hkv).
  unfold version_of in VO. fold k_format k_formatMinor in VO.
  destruct (lookup k_format a) as [vf|] eqn:LF; [|discriminate].
  destruct (parse_u32 vf) as [major|] eqn:PF; [|discriminate].
  pose proof (store_lookup pf 2 KGlyph a parsed k_format F2) as HF. rewrite LF in HF.
  destruct (lookup k_format parsed) as [x|]; [|discriminate].
  destruct HF as (v & ty & La & Lt & PR). inversion La; subst v. vm_compute in Lt. inversion Lt; subst ty.
  destruct PR as (n & -> & E). rewrite PF in E. inversion E; subst n.
  pose proof (store_lookup pf 2 KGlyph a parsed k_formatMinor F2) as HM.
  assert (MZ : match lookup k_formatMinor parsed with Some (VN n) => n | _ => 0 end = 0 \/
               ((major =? 1) || (major =? 2)) && match lookup k_formatMinor a with
                  | None => true | Some m => match parse_u32 m with Some 0 => true | _ => false end end = false).
  { destruct (lookup k_formatMinor parsed) as [y|].
    - destruct HM as (v & ty & La' & Lt' & PR'). vm_compute in Lt'. inversion Lt'; subst ty.
      destruct PR' as (n & -> & E'). rewrite La', E'. destruct n; [left; reflexivity|right; apply andb_false_r].
    - left; reflexivity. }
  destruct MZ as [MZ|MZ]; [|rewrite MZ in VO; discriminate].
  rewrite MZ. cbn [N.eqb].
  destruct ((major =? 1) || (major =? 2)) eqn:EM; cbn [andb] in VO |- *.
  - destruct (match lookup k_formatMinor a with None => true | Some m => _ end); inversion VO; subst.
    eexists; reflexivity.
  - discriminate.
Qed.
End T.

Section Final.
Variable pf : str -> option fl.

Lemma count_le_flags l :
  (count_kind KAdvance l <= 1)%nat -> (count_kind KOutline l <= 1)%nat -> (count_kind KLib l <= 1)%nat ->
  (count_kind KNote l <= 1)%nat -> (count_kind KImage l <= 1)%nat ->
  forall name, flags_ok (mkPst (glyph_new name) [] false false false false) l.
Proof.
  intros C1 C2 C3 C4 C5 name. unfold flags_ok, glyph_new; cbn [st_adv st_out st_lib st_note st_g gimage gnote].
  repeat split; auto; try discriminate; intros H; exfalso; apply H; reflexivity.
Qed.

(** COMPLETENESS: a rule-obeying document outside the surface classes F14, F17 is accepted. *)
Theorem parse_complete d :
  glif_ok pf d -> ~ F14 d -> ~ F17 d -> exists g, parse_glif pf d = Ok g.
Proof.
  intros (pre & root & post & ver & -> & HP & KR & AO & VO & CH & OL & C1 & C2 & C3 & C4 & C5 & ND) N14 N17.
  assert (RO : root_of (pre ++ root :: post) = Some root).
  { apply root_of_app; [exact HP|]. destruct root; try discriminate; reflexivity. }
  (* the root is an element with start and end tag *)
  destruct root as [rname a|rname a kids| | | | | |]; try discriminate.
  { exfalso. apply N17. right; right. exists (Empty rname a). split; [exact RO|left; eauto]. }
  unfold kind_of, attrs_of, kids_of in *; cbn [as_elem] in *. cbn zeta in *.
  assert (Hv : ver = 1 \/ ver = 2).
  { unfold version_of in VO. destruct (lookup (s2l "format") a); [|discriminate].
    destruct (parse_u32 s) as [m|]; [|discriminate].
    destruct ((m =? 1) || (m =? 2)) eqn:E; cbn [andb] in VO; [|discriminate].
    destruct (match lookup (s2l "formatMinor") a with None => true | Some m0 => _ end); inversion VO; subst.
    apply orb_true_iff in E as [E|E]; apply N.eqb_eq in E; auto. }
  unfold parse_glif.
  rewrite find_root_complete; [|exact HP| |exact KR].
  2:{ destruct (existsb _ pre) eqn:E; [|reflexivity]. exfalso. apply existsb_exists in E as (n & Hin & Hn).
      apply N17. destruct n; try discriminate; [right; left|left]; exists s; apply in_app_iff; left; exact Hin. }
  cbn [bind]. destruct (parse_start_complete pf a ver AO VO) as (name & PS). rewrite PS. cbn [bind].
  (* outside F14: no comments among the children, every child in the form the reader wants *)
  assert (F14r : f14_node 3 (Elem rname a kids) = false).
  { destruct (f14_node 3 (Elem rname a kids)) eqn:E; [|reflexivity]. exfalso. apply N14. eexists; eauto. }
  assert (KG : is_kind KGlyph (Elem rname a kids) = true) by (apply is_kind_spec; exact KR).
  destruct (f14_elem 2 rname a kids F14r) as [NC FK]; [rewrite KG; reflexivity|].
  assert (SK : tview kids = sig_kids kids).
  { apply tview_sig_kids; [exact NC|]. eapply Forall_impl; [|exact CH].
    intros n Hn. unfold child_ok in Hn. destruct (kind_of n) eqn:E; [eapply kind_elem; eauto|contradiction]. }
  assert (NV : forall n, In n (sig_kids kids) -> is_kind KNote n = true -> ver = 2).
  { intros n Hin Hn. destruct Hv as [-> | ->]; [|reflexivity]. exfalso. apply N17. right; right.
    exists (Elem rname a kids). split; [exact RO|right]. split; [exact VO|].
    apply existsb_exists. exists n. auto. }
  assert (CV : forall n, In n (sig_kids kids) -> child_node pf ver n /\ child_pids n = child_ids n).
  { intros n Hin. rewrite Forall_forall in CH, FK. apply child_convert.
    - apply CH; exact Hin.
    - apply FK. apply filter_In in Hin. apply Hin.
    - apply NV; exact Hin. }
  assert (PIDS : flat_map child_pids (sig_kids kids) = doc_ids (sig_kids kids)).
  { unfold doc_ids. clear - CV. induction (sig_kids kids) as [|n l IH]; [reflexivity|]. cbn [flat_map].
    rewrite (proj2 (CV n (or_introl eq_refl))), IH; [reflexivity|]. intros; apply CV; right; assumption. }
  rewrite SK.
  destruct (parse_children_complete pf ver Hv (sig_kids kids) (mkPst (glyph_new name) [] false false false false))
    as (st & PC).
  - apply Forall_forall. intros n Hn. apply CV; exact Hn.
  - apply count_le_flags; assumption.
  - rewrite PIDS. exact ND.
  - intros i _ [].
  - rewrite PC. cbn [bind].
    (* the invariant of the soundness proof tells what the final glyph is *)
    assert (NVn : name_valid name = true).
    { apply parse_start_spec in PS. apply PS. }
    rewrite <- SK in PC.
    pose proof (parse_children_inv pf ver Hv (tview kids) [] _ st (inv_init pf name NVn ver) PC) as I.
    cbn [app] in I. rewrite SK in I.
    apply (load_object_libs_complete (doc_obj_ids (sig_kids kids))).
    + intros i Hi. eapply Permutation_in; [apply (i_perm _ _ _ _ I)|exact Hi].
    + pose proof (i_libd _ _ _ _ I) as LD. destruct (st_lib st) eqn:SL.
      * destruct (filter (is_kind KLib) (sig_kids kids)) as [|n [|? ?]] eqn:EF; try discriminate.
        cbn [map] in LD. inversion LD as [LDn].
        assert (Hin : In n (sig_kids kids) /\ is_kind KLib n = true).
        { apply filter_In. rewrite EF. left; reflexivity. }
        eapply OL; [apply Hin|apply Hin|exact LDn].
      * rewrite (i_lib0 _ _ _ _ I SL). intros o Ho. discriminate.
Qed.
End Final.
