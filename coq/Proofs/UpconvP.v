(** Proofs about Model/Upconv.v and Model/SpecTables.v. *)
Require Import Norad.Model.Upconv Norad.Proofs.NumP.
Require Norad.Proofs.FontInfoP.
From Coq Require Import Ascii.
Open Scope string_scope.
Open Scope Z_scope.

(** * 1. the struct literals are the specification's tables *)

(** what a table row does with the legacy value, if any *)
Definition entry_val (kd : kind) (o : option val) : result (option val) cerr :=
  match o with None => Ok None | Some v => apply_kind kd v end.
Definition entry (r : kv) (rw : row) : string * result (option val) cerr :=
  let '(lk, k, kd) := rw in (k, entry_val kd (get r lk)).

Lemma build_table : forall t r, build (map (entry r) t) = table_convert t r.
Proof.
  induction t as [|[[lk k] kd] t IH]; intros r; [reflexivity|].
  cbn [map entry build table_convert]. unfold entry_val.
  destruct (get r lk) as [v|]; [|apply IH].
  destruct (apply_kind kd v) as [[v'|]|e|s]; try reflexivity; rewrite IH; reflexivity.
Qed.

(** ** each conversion expression is the prescribed conversion *)
Lemma copy_eq : forall o, copy o = entry_val KCopy o.
Proof. intros [v|]; reflexivity. Qed.
Lemma map_round_i32_eq : forall o, map_round_i32 o = entry_val KRoundI32 o.
Proof. intros [[]|]; reflexivity. Qed.
Lemma map_round_abs_u32_eq : forall o, map_round_abs_u32 o = entry_val KRoundAbsU32 o.
Proof. intros [[]|]; reflexivity. Qed.
Lemma map_abs_num_eq : forall o, map_abs_num o = entry_val KAbsNum o.
Proof.
  intros [[x| | | | |]|]; try reflexivity.
  cbn [map_abs_num entry_val apply_kind]. rewrite f_abs_sign_positive. reflexivity.
Qed.
Lemma map_unsigned_abs_eq : forall o, map_unsigned_abs o = entry_val KAbsInt o.
Proof. intros [[]|]; reflexivity. Qed.
Lemma map_panose_from_eq : forall o, map_panose_from o = entry_val KAbsInts o.
Proof. intros [[]|]; reflexivity. Qed.
Lemma weight_value_eq : forall o, weight_value o = entry_val KWeight o.
Proof.
  intros [[x|z|s|b|l|l]|]; try reflexivity.
  destruct z as [|p|p]; try reflexivity. destruct p; reflexivity.
Qed.

(** the two integer tables, for ALL integers: every code outside the table is an error *)
Ltac split_pos p :=
  do 9 (try (destruct p as [p|p|]; try reflexivity)).

Lemma font_style_all : forall z,
  font_style (Some (VInt z)) = entry_val KFontStyle (Some (VInt z)).
Proof. intros [|p|p]; try reflexivity. split_pos p. Qed.

Lemma ms_char_set_all : forall z,
  ms_char_set (Some (VInt z)) = entry_val KCharSet (Some (VInt z)).
Proof. intros [|p|p]; try reflexivity. split_pos p. Qed.

Lemma font_style_eq : forall o, font_style o = entry_val KFontStyle o.
Proof. intros [[x|z|s|b|l|l]|]; try reflexivity. apply font_style_all. Qed.
Lemma ms_char_set_eq : forall o, ms_char_set o = entry_val KCharSet o.
Proof. intros [[x|z|s|b|l|l]|]; try reflexivity. apply ms_char_set_all. Qed.

(** the width names, for ALL strings *)
Lemma width_name_all : forall s,
  width_name (Some (VStr s)) = entry_val KWidthName (Some (VStr s)).
Proof.
  intros s. cbn [width_name entry_val apply_kind width_name_table get].
  repeat match goal with
  | |- context [String.eqb s ?lit] =>
      let E := fresh "E" in
      destruct (String.eqb s lit) eqn:E;
      [ apply String.eqb_eq in E; subst s; reflexivity | ]
  end.
  reflexivity.
Qed.
Lemma width_name_eq : forall o, width_name o = entry_val KWidthName o.
Proof. intros [[x|z|s|b|l|l]|]; try reflexivity. apply width_name_all. Qed.

(** out-of-table codes, stated directly *)
Lemma font_style_unknown : forall z, ~ In z (map fst font_style_table) ->
  font_style (Some (VInt z)) = Err (UnknownFontStyle z).
Proof.
  intros z H. rewrite font_style_all. cbn [entry_val apply_kind].
  assert (L : zlookup font_style_table z = None).
  { unfold font_style_table in *. cbn [zlookup map fst In] in *.
    repeat match goal with
    | |- context [Z.eqb z ?c] =>
        let E := fresh "E" in destruct (Z.eqb z c) eqn:E; [apply Z.eqb_eq in E; exfalso; apply H; auto 10|]
    end. reflexivity. }
  rewrite L. reflexivity.
Qed.

Lemma ms_char_set_unknown : forall z, ~ In z (map fst ms_char_set_table) ->
  ms_char_set (Some (VInt z)) = Err (UnknownMsCharSet z).
Proof.
  intros z H. rewrite ms_char_set_all. cbn [entry_val apply_kind].
  assert (L : zlookup ms_char_set_table z = None).
  { unfold ms_char_set_table in *. cbn [zlookup map fst In] in *.
    repeat match goal with
    | |- context [Z.eqb z ?c] =>
        let E := fresh "E" in destruct (Z.eqb z c) eqn:E; [apply Z.eqb_eq in E; exfalso; apply H; auto 30|]
    end. reflexivity. }
  rewrite L. reflexivity.
Qed.

Lemma width_name_unknown : forall s, ~ In s (map fst width_name_table) ->
  width_name (Some (VStr s)) = Err (UnknownWidthClass s).
Proof.
  intros s H. rewrite width_name_all. cbn [entry_val apply_kind].
  assert (L : get width_name_table s = None).
  { unfold width_name_table in *. cbn [get map fst In] in *.
    repeat match goal with
    | |- context [String.eqb s ?c] =>
        let E := fresh "E" in destruct (String.eqb s c) eqn:E; [apply String.eqb_eq in E; exfalso; apply H; auto 20|]
    end. reflexivity. }
  rewrite L. reflexivity.
Qed.

(** ** the two converters *)
Ltac to_entries :=
  rewrite ?copy_eq, ?map_round_i32_eq, ?map_round_abs_u32_eq, ?map_abs_num_eq,
          ?map_unsigned_abs_eq, ?map_panose_from_eq, ?weight_value_eq, ?width_name_eq,
          ?ms_char_set_eq, ?font_style_eq.

Theorem conv_v1_refines_spec : forall r, conv_v1 r = table_convert spec_v1_table r.
Proof.
  intros r. rewrite <- build_table. unfold conv_v1. to_entries. reflexivity.
Qed.

Theorem conv_v2_refines_spec : forall r, conv_v2 r = table_convert spec_v2_table r.
Proof.
  intros r. rewrite <- build_table. unfold conv_v2. to_entries.
  let t := eval vm_compute in spec_v2_table in change spec_v2_table with t.
  reflexivity.
Qed.

Lemma conv_code_spec : forall v r, conv_code v r = conv_spec v r.
Proof.
  intros v r. unfold conv_code, conv_spec. destruct (v =? 1).
  - apply conv_v1_refines_spec.
  - apply conv_v2_refines_spec.
Qed.

(** * 2. the tables are complete and injective *)
Definition legacy_of (rw : row) : string := fst (fst rw).
Definition target_of (rw : row) : string := snd (fst rw).
Definition kind_of (rw : row) : kind := snd rw.

Lemma mem_In : forall k l, mem k l = true <-> In k l.
Proof.
  intros k l. unfold mem. rewrite existsb_exists. split.
  - intros [x [H1 H2]]. apply String.eqb_eq in H2. subst. exact H1.
  - intros H. exists k. split; [exact H|apply String.eqb_refl].
Qed.

Fixpoint nodupb (l : list string) : bool :=
  match l with [] => true | k :: l' => negb (mem k l') && nodupb l' end.
Lemma nodupb_NoDup : forall l, nodupb l = true -> NoDup l.
Proof.
  induction l as [|k l IH]; intros H; [constructor|].
  cbn [nodupb] in H. apply andb_true_iff in H. destruct H as [H1 H2].
  constructor; [|apply IH; exact H2].
  intros C. apply mem_In in C. rewrite C in H1. discriminate.
Qed.

Lemma every_v1_key_mapped :
  forall k, In k (ufo1_attributes ++ ufo1_reference_extras) -> In k (map legacy_of spec_v1_table).
Proof.
  assert (H : forallb (fun k => mem k (map legacy_of spec_v1_table))
                      (ufo1_attributes ++ ufo1_reference_extras) = true) by (vm_compute; reflexivity).
  intros k Hk. rewrite forallb_forall in H. apply mem_In. apply H. exact Hk.
Qed.
Lemma every_v2_key_mapped :
  forall k, In k ufo2_attributes -> In k (map legacy_of spec_v2_table).
Proof.
  assert (H : forallb (fun k => mem k (map legacy_of spec_v2_table)) ufo2_attributes = true)
    by (vm_compute; reflexivity).
  intros k Hk. rewrite forallb_forall in H. apply mem_In. apply H. exact Hk.
Qed.
(** and nothing else is read *)
Lemma only_v1_keys_mapped :
  forall k, In k (map legacy_of spec_v1_table) -> In k (ufo1_attributes ++ ufo1_reference_extras).
Proof.
  assert (H : forallb (fun k => mem k (ufo1_attributes ++ ufo1_reference_extras))
                      (map legacy_of spec_v1_table) = true) by (vm_compute; reflexivity).
  intros k Hk. rewrite forallb_forall in H. apply mem_In. apply H. exact Hk.
Qed.
Lemma only_v2_keys_mapped :
  forall k, In k (map legacy_of spec_v2_table) -> In k ufo2_attributes.
Proof.
  assert (H : forallb (fun k => mem k ufo2_attributes) (map legacy_of spec_v2_table) = true)
    by (vm_compute; reflexivity).
  intros k Hk. rewrite forallb_forall in H. apply mem_In. apply H. exact Hk.
Qed.

Lemma v1_targets_distinct : NoDup (map target_of spec_v1_table).
Proof. apply nodupb_NoDup. vm_compute. reflexivity. Qed.
Lemma v2_targets_distinct : NoDup (map target_of spec_v2_table).
Proof. apply nodupb_NoDup. vm_compute. reflexivity. Qed.
Lemma v1_sources_distinct : NoDup (map legacy_of spec_v1_table).
Proof. apply nodupb_NoDup. vm_compute. reflexivity. Qed.
Lemma v2_sources_distinct : NoDup (map legacy_of spec_v2_table).
Proof. apply nodupb_NoDup. vm_compute. reflexivity. Qed.

(** ** what a table conversion does to one attribute *)
Lemma get_cons_ne : forall (i : kv) k k' v, k <> k' -> get ((k', v) :: i) k = get i k.
Proof.
  intros. cbn [get]. destruct (String.eqb k k') eqn:E; [apply String.eqb_eq in E; congruence|reflexivity].
Qed.
Lemma get_cons_eq : forall (i : kv) k v, get ((k, v) :: i) k = Some v.
Proof. intros. cbn [get]. rewrite String.eqb_refl. reflexivity. Qed.

Lemma table_convert_keys : forall t r i k v,
  table_convert t r = Ok i -> In (k, v) i -> In k (map target_of t).
Proof.
  induction t as [|[[lk k0] kd] t IH]; intros r i k v H Hin; cbn [table_convert] in H.
  - inversion H; subst. destruct Hin.
  - cbn [map target_of fst snd].
    destruct (get r lk) as [v0|]; [|right; eapply IH; eauto].
    destruct (apply_kind kd v0) as [[v'|]|e|s]; try discriminate; [|right; eapply IH; eauto].
    destruct (table_convert t r) as [i'|e|s] eqn:E; try discriminate.
    inversion H; subst. destruct Hin as [Hin|Hin].
    + inversion Hin; subst. left. reflexivity.
    + right. eapply IH; eauto.
Qed.

(** the attribute of a row lands under the row's target with the row's conversion *)
Lemma table_convert_row : forall t r i lk k kd,
  NoDup (map target_of t) -> In (lk, k, kd) t -> table_convert t r = Ok i ->
  match get r lk with
  | None => get i k = None
  | Some v => exists o, apply_kind kd v = Ok o /\ get i k = o
  end.
Proof.
  induction t as [|[[lk0 k0] kd0] t IH]; intros r i lk k kd Hnd Hin H; [destruct Hin|].
  cbn [map target_of fst snd] in Hnd. inversion Hnd as [|? ? Hnot Hnd']; subst.
  cbn [table_convert] in H.
  assert (Hfresh : forall i', table_convert t r = Ok i' -> get i' k0 = None).
  { intros i' E. destruct (get i' k0) as [v|] eqn:G; [|reflexivity]. exfalso. apply Hnot.
    assert (In (k0, v) i').
    { clear - G. induction i' as [|[k' v'] i' IH]; [discriminate|].
      cbn [get] in G. destruct (String.eqb k0 k') eqn:E.
      - apply String.eqb_eq in E. inversion G; subst. left. reflexivity.
      - right. apply IH. exact G. }
    eapply table_convert_keys; eauto. }
  destruct Hin as [Hin|Hin].
  - inversion Hin; subst lk0 k0 kd0. clear Hin.
    destruct (get r lk) as [v0|].
    + destruct (apply_kind kd v0) as [[v'|]|e|s]; try discriminate.
      * destruct (table_convert t r) as [i'|e|s] eqn:E; try discriminate.
        inversion H; subst. exists (Some v'). split; [reflexivity|apply get_cons_eq].
      * exists None. split; [reflexivity|]. apply Hfresh. exact H.
    + apply Hfresh. exact H.
  - assert (Hne : k <> k0).
    { intros C. subst. apply Hnot. change k0 with (target_of (lk, k0, kd)). apply in_map. exact Hin. }
    destruct (get r lk0) as [v0|].
    + destruct (apply_kind kd0 v0) as [[v'|]|e|s]; try discriminate.
      * destruct (table_convert t r) as [i'|e|s] eqn:E; try discriminate.
        inversion H; subst. specialize (IH r i' lk k kd Hnd' Hin E).
        rewrite get_cons_ne by exact Hne. exact IH.
      * eapply IH; eauto.
    + eapply IH; eauto.
Qed.

Lemma apply_kind_no_panic : forall kd v s, apply_kind kd v <> Panic s.
Proof.
  intros kd v s. destruct kd, v; cbn [apply_kind]; try discriminate.
  - destruct (z =? -1); discriminate.
  - destruct (zlookup font_style_table z); discriminate.
  - destruct (zlookup ms_char_set_table z); discriminate.
  - destruct (get width_name_table s0); discriminate.
Qed.

(** an unknown enumeration value makes the conversion fail *)
Lemma table_convert_error : forall t r lk k kd v e,
  In (lk, k, kd) t -> get r lk = Some v -> apply_kind kd v = Err e ->
  exists e', table_convert t r = Err e'.
Proof.
  induction t as [|[[lk0 k0] kd0] t IH]; intros r lk k kd v e Hin Hg Ha; [destruct Hin|].
  cbn [table_convert]. destruct Hin as [Hin|Hin].
  - inversion Hin; subst. rewrite Hg, Ha. eauto.
  - destruct (IH r lk k kd v e Hin Hg Ha) as [e' E].
    destruct (get r lk0) as [v0|]; [|eauto].
    destruct (apply_kind kd0 v0) as [[v'|]|e0|s] eqn:A; eauto.
    + rewrite E. eauto.
    + exfalso. eapply apply_kind_no_panic; eauto.
Qed.

Lemma table_convert_no_panic : forall t r s, table_convert t r <> Panic s.
Proof.
  induction t as [|[[lk k] kd] t IH]; intros r s; cbn [table_convert]; [discriminate|].
  destruct (get r lk) as [v|]; [|apply IH].
  destruct (apply_kind kd v) as [[v'|]|e|s'] eqn:E; try discriminate; try apply IH.
  - destruct (table_convert t r) eqn:E2; try discriminate. exfalso. eapply IH; eauto.
  - exfalso. eapply apply_kind_no_panic; eauto.
Qed.

(** * 3. types: a well-typed legacy record converts to a well-typed format-3 info *)
Definition typed (schema : list (string * vty)) (r : kv) : Prop :=
  forall k v, In (k, v) r -> exists t, get schema k = Some t /\ has_ty t v = true.

Lemma forallb_map_abs_u32 : forall l, forallb in_i32 l = true ->
  forallb in_u32 (map unsigned_abs l) = true.
Proof.
  induction l as [|z l IH]; intros H; [reflexivity|].
  cbn [forallb map] in *. apply andb_true_iff in H. destruct H as [H1 H2].
  rewrite unsigned_abs_u32 by exact H1. apply IH. exact H2.
Qed.

Lemma zlookup_In : forall A (t : list (Z * A)) z a, zlookup t z = Some a -> In (z, a) t.
Proof.
  induction t as [|[k v] t IH]; intros z a H; [discriminate|]. cbn [zlookup] in H.
  destruct (Z.eqb z k) eqn:E.
  - apply Z.eqb_eq in E. inversion H; subst. left. reflexivity.
  - right. apply IH. exact H.
Qed.
Lemma get_In : forall A (t : list (string * A)) k a, get t k = Some a -> In (k, a) t.
Proof.
  induction t as [|[k' v] t IH]; intros k a H; [discriminate|]. cbn [get] in H.
  destruct (String.eqb k k') eqn:E.
  - apply String.eqb_eq in E. inversion H; subst. left. reflexivity.
  - right. apply IH. exact H.
Qed.

Lemma apply_kind_typed : forall kd t t' v v',
  kind_ty kd t = Some t' -> has_ty t v = true -> apply_kind kd v = Ok (Some v') ->
  has_ty t' v' = true.
Proof.
  intros kd t t' v v' Hk Ht Ha.
  destruct kd; destruct t; cbn [kind_ty] in Hk; try discriminate; inversion Hk; subst t'; clear Hk;
    destruct v; cbn [has_ty] in Ht; try discriminate; cbn [apply_kind] in Ha;
    try (inversion Ha; subst; exact Ht).
  - (* round -> i32 *)
    inversion Ha; subst. cbn [has_ty]. unfold in_i32.
    pose proof (sat_i32_bounds (f_round x)). apply andb_true_iff. split; apply Z.leb_le; lia.
  - inversion Ha; subst. cbn [has_ty]. unfold in_u32.
    pose proof (sat_u32_bounds (f_abs (f_round x))). apply andb_true_iff. split; apply Z.leb_le; lia.
  - inversion Ha; subst. cbn [has_ty]. apply f_abs_sign_positive.
  - inversion Ha; subst. cbn [has_ty]. apply unsigned_abs_u32. exact Ht.
  - inversion Ha; subst. cbn [has_ty]. apply andb_true_iff in Ht. destruct Ht as [H1 H2].
    rewrite map_length, H1. apply forallb_map_abs_u32. exact H2.
  - destruct (z =? -1); inversion Ha; subst. cbn [has_ty]. apply unsigned_abs_u32. exact Ht.
  - destruct (zlookup font_style_table z) as [s|] eqn:E; inversion Ha; subst.
    apply zlookup_In in E. cbn [has_ty].
    unfold font_style_table in E. cbn [In] in E.
    repeat (destruct E as [E|E]; [inversion E; subst; reflexivity|]). destruct E.
  - destruct (zlookup ms_char_set_table z) as [c|] eqn:E; inversion Ha; subst.
    apply zlookup_In in E. cbn [has_ty].
    unfold ms_char_set_table in E. cbn [In] in E.
    repeat (destruct E as [E|E]; [inversion E; subst; reflexivity|]). destruct E.
  - destruct (get width_name_table s) as [c|] eqn:E; inversion Ha; subst.
    apply get_In in E. cbn [has_ty].
    unfold width_name_table in E. cbn [In] in E.
    repeat (destruct E as [E|E]; [inversion E; subst; reflexivity|]). destruct E.
Qed.

(** every row of a table goes from the legacy type of its source to the format-3 type of its
    target (checked by computation over the table) *)
Definition row_typed (src : list (string * vty)) (rw : row) : bool :=
  let '(lk, k, kd) := rw in
  match get src lk, get ufo3_schema k with
  | Some t, Some t' =>
      match kind_ty kd t with
      | Some t'' => match t', t'' with
                    | TNum, TNum | TNonNegNum, TNonNegNum | TI32, TI32 | TU32, TU32 | TStr, TStr
                    | TBool, TBool | TNums, TNums | TBits, TBits | TFamilyClass, TFamilyClass
                    | TPanose, TPanose | TStyle, TStyle | TWidth, TWidth | TCharSet, TCharSet => true
                    | _, _ => false
                    end
      | None => false
      end
  | _, _ => false
  end.

Lemma row_typed_spec : forall src lk k kd, row_typed src (lk, k, kd) = true ->
  exists t t', get src lk = Some t /\ get ufo3_schema k = Some t' /\ kind_ty kd t = Some t'.
Proof.
  intros src lk k kd H. unfold row_typed in H.
  destruct (get src lk) as [t|]; [|discriminate].
  destruct (get ufo3_schema k) as [t'|]; [|discriminate].
  destruct (kind_ty kd t) as [t''|] eqn:K; [|discriminate].
  exists t, t'. repeat split. destruct t', t''; try discriminate; exact K.
Qed.

Lemma v1_rows_typed : forallb (row_typed ufo1_schema) spec_v1_table = true.
Proof. vm_compute. reflexivity. Qed.
Lemma v2_rows_typed : forallb (row_typed ufo2_schema) spec_v2_table = true.
Proof. vm_compute. reflexivity. Qed.

Lemma In_get_typed : forall schema r k v, typed schema r -> get r k = Some v ->
  exists t, get schema k = Some t /\ has_ty t v = true.
Proof. intros schema r k v H G. apply H. apply get_In. exact G. Qed.

Lemma table_convert_typed : forall src t r i,
  forallb (row_typed src) t = true -> typed src r -> table_convert t r = Ok i ->
  typed ufo3_schema i.
Proof.
  induction t as [|[[lk k] kd] t IH]; intros r i Hrows Hr H; cbn [table_convert] in H.
  - inversion H; subst. intros k v [].
  - cbn [forallb] in Hrows. apply andb_true_iff in Hrows. destruct Hrows as [Hrow Hrows].
    destruct (get r lk) as [v0|] eqn:G; [|eapply IH; eauto].
    destruct (apply_kind kd v0) as [[v'|]|e|s] eqn:A; try discriminate; [|eapply IH; eauto].
    destruct (table_convert t r) as [i'|e|s] eqn:E; try discriminate.
    inversion H; subst. intros k1 v1 [Hin|Hin].
    + inversion Hin; subst.
      destruct (row_typed_spec _ _ _ _ Hrow) as (t0 & t' & S1 & S2 & S3).
      destruct (In_get_typed _ _ _ _ Hr G) as (t1 & S4 & S5).
      rewrite S1 in S4. inversion S4; subst t1.
      exists t'. split; [exact S2|]. eapply apply_kind_typed; eauto.
    + eapply IH; eauto.
Qed.

(** the typed reader produces a record of the schema's types *)
Lemma all_some_forall : forall A (P : A -> bool) (f : pval -> option A) l r,
  (forall p a, f p = Some a -> P a = true) -> all_some (map f l) = Some r -> forallb P r = true.
Proof.
  induction l as [|p l IH]; intros r Hf H; cbn [map all_some] in H.
  - inversion H; subst. reflexivity.
  - destruct (f p) as [a|] eqn:E; [|discriminate].
    destruct (all_some (map f l)) as [r'|] eqn:E2; [|discriminate].
    inversion H; subst. cbn [forallb]. rewrite (Hf _ _ E). apply IH; auto.
Qed.

Lemma p_int_ok : forall ok p z, p_int ok p = Some z -> ok z = true.
Proof.
  intros ok p z H. destruct p as [z'| | | | | |]; cbn [p_int] in H; try discriminate.
  destruct (ok z') eqn:E; inversion H; subst. exact E.
Qed.

Lemma p_list_n_spec : forall A n (f : pval -> option A) p l,
  p_list_n n f p = Some l -> p_list f p = Some l /\ Nat.eqb (List.length l) n = true.
Proof.
  intros A n f p l H. unfold p_list_n in H. destruct (p_list f p) as [l'|]; [|discriminate].
  destruct (Nat.eqb (List.length l') n) eqn:E; inversion H; subst. auto.
Qed.

Lemma p_list_forall : forall A (P : A -> bool) (f : pval -> option A) p l,
  (forall p a, f p = Some a -> P a = true) -> p_list f p = Some l -> forallb P l = true.
Proof.
  intros A P f p l Hf H. destruct p as [| | | | |l0|]; cbn [p_list] in H; try discriminate.
  eapply all_some_forall; eauto.
Qed.

Lemma decode_ty_typed : forall t p v, decode_ty t p = Some v -> has_ty t v = true.
Proof.
  intros t p v H. destruct t; cbn [decode_ty] in H.
  - destruct (p_num p); inversion H; reflexivity.
  - destruct (p_num p) as [x|]; [|discriminate]. destruct (f_sign_positive x) eqn:E; inversion H; subst. exact E.
  - destruct (p_int in_i32 p) as [z|] eqn:E; inversion H; subst. eapply p_int_ok; eauto.
  - destruct (p_int in_u32 p) as [z|] eqn:E; inversion H; subst. eapply p_int_ok; eauto.
  - destruct (p_str p); inversion H; reflexivity.
  - destruct p; inversion H; reflexivity.
  - destruct (p_list p_num p); inversion H; reflexivity.
  - destruct (p_list (p_int in_u8) p) as [l|] eqn:E; inversion H; subst. cbn [has_ty].
    eapply p_list_forall; eauto. intros; eapply p_int_ok; eauto.
  - destruct (p_list_n 2 (p_int in_u8) p) as [l|] eqn:E; inversion H; subst. cbn [has_ty].
    apply p_list_n_spec in E. destruct E as [E1 E2]. rewrite E2.
    eapply p_list_forall; eauto. intros; eapply p_int_ok; eauto.
  - destruct (p_list_n 10 (p_int in_u32) p) as [l|] eqn:E; inversion H; subst. cbn [has_ty].
    apply p_list_n_spec in E. destruct E as [E1 E2]. rewrite E2.
    eapply p_list_forall; eauto. intros; eapply p_int_ok; eauto.
  - destruct (p_list_n 10 (p_int in_i32) p) as [l|] eqn:E; inversion H; subst. cbn [has_ty].
    apply p_list_n_spec in E. destruct E as [E1 E2]. rewrite E2.
    eapply p_list_forall; eauto. intros; eapply p_int_ok; eauto.
  - destruct (p_str p) as [s|]; [|discriminate]. destruct (mem s style_names) eqn:E; inversion H; subst. exact E.
  - destruct (p_int _ p) as [z|] eqn:E; inversion H; subst. apply p_int_ok in E. exact E.
  - destruct (p_int _ p) as [z|] eqn:E; inversion H; subst. apply p_int_ok in E. exact E.
  - discriminate.
Qed.

Lemma decode_fields_aux_typed : forall schema raw r,
  decode_fields_aux schema raw = Some r -> typed schema r.
Proof.
  induction raw as [|[k p] raw IH]; intros r H; cbn [decode_fields_aux] in H.
  - inversion H; subst. intros k v [].
  - destruct (get schema k) as [t|] eqn:G; [|discriminate].
    destruct (decode_ty t p) as [v|] eqn:D; [|discriminate].
    destruct (decode_fields_aux schema raw) as [r'|] eqn:E; [|discriminate].
    inversion H; subst. intros k1 v1 [Hin|Hin].
    + inversion Hin; subst. exists t. split; [exact G|]. eapply decode_ty_typed; eauto.
    + eapply IH; eauto.
Qed.

Lemma decode_fields_typed : forall schema raw r,
  decode_fields schema raw = Some r -> typed schema r.
Proof.
  intros schema raw r H. unfold decode_fields in H. destruct (nodup_keys raw); [|discriminate].
  eapply decode_fields_aux_typed; eauto.
Qed.

(** * 4. the hint data of the format-1 lib *)
Lemma apply_hints_is_table : forall h i, apply_hints h i = apply_hint_table spec_hint_table h i.
Proof. intros h i. reflexivity. Qed.

Lemma get_remove_key_eq : forall A (i : list (string * A)) k, get (remove_key k i) k = None.
Proof.
  induction i as [|[k' v] i IH]; intros k; [reflexivity|]. cbn [remove_key filter fst].
  destruct (String.eqb k k') eqn:E; cbn [negb].
  - apply IH.
  - cbn [get]. rewrite E. apply IH.
Qed.
Lemma get_remove_key_ne : forall A (i : list (string * A)) k k', k <> k' ->
  get (remove_key k' i) k = get i k.
Proof.
  induction i as [|[k0 v] i IH]; intros k k' Hne; [reflexivity|].
  unfold remove_key in *. cbn [filter fst].
  destruct (String.eqb k' k0) eqn:E; cbn [negb get].
  - apply String.eqb_eq in E. subst k0.
    destruct (String.eqb k k') eqn:E2; [apply String.eqb_eq in E2; congruence|].
    apply IH. exact Hne.
  - destruct (String.eqb k k0); [reflexivity|]. apply IH. exact Hne.
Qed.

Lemma get_assign_eq : forall k o i, get (assign k o i) k = o.
Proof.
  intros k [v|] i; cbn [assign]; [apply get_cons_eq|apply get_remove_key_eq].
Qed.
Lemma get_assign_ne : forall k k' o i, k <> k' -> get (assign k' o i) k = get i k.
Proof.
  intros k k' [v|] i Hne; cbn [assign].
  - rewrite get_cons_ne by exact Hne. apply get_remove_key_ne. exact Hne.
  - apply get_remove_key_ne. exact Hne.
Qed.
Lemma get_assign_some_eq : forall k v i, get (assign_some k (Some v) i) k = Some v.
Proof. intros. cbn [assign_some]. apply get_assign_eq. Qed.
Lemma get_assign_some_ne : forall k k' o i, k <> k' -> get (assign_some k' o i) k = get i k.
Proof. intros k k' [v|] i Hne; cbn [assign_some]; [apply get_assign_ne; exact Hne|reflexivity]. Qed.

Lemma get_assign_some_full : forall k o i,
  get (assign_some k o i) k = match o with Some v => Some v | None => get i k end.
Proof. intros k [v|] i; [apply get_assign_some_eq|reflexivity]. Qed.

(** after the hint block every row of the hint table holds: plain values are assigned (also
    when absent: the attribute is then cleared), flattened lists only when present *)
Lemma apply_hints_row : forall h i k hk s,
  In (k, hk, s) spec_hint_table ->
  get (apply_hints h i) k =
    match s, hint_value h hk s with
    | HFlatten, None => get i k
    | _, o => o
    end.
Proof.
  intros h i k hk s Hin. unfold spec_hint_table in Hin. cbn [In] in Hin.
  unfold apply_hints.
  repeat (destruct Hin as [Hin|Hin];
    [ inversion Hin; subst; clear Hin;
      repeat first
        [ rewrite get_assign_eq
        | rewrite get_assign_some_full
        | rewrite get_assign_ne by (intros C; discriminate C)
        | rewrite get_assign_some_ne by (intros C; discriminate C) ];
      try reflexivity | ]).
  all: try (exfalso; exact Hin).
Qed.

(** attributes that are not PostScript hint attributes are untouched *)
Lemma apply_hints_frame : forall h i k,
  ~ In k (map (fun r => fst (fst r)) spec_hint_table) -> get (apply_hints h i) k = get i k.
Proof.
  intros h i k Hn. unfold spec_hint_table in Hn. cbn [map fst In] in Hn.
  unfold apply_hints.
  repeat first
    [ rewrite get_assign_ne by (intros C; apply Hn; subst; auto 12)
    | rewrite get_assign_some_ne by (intros C; apply Hn; subst; auto 12) ].
  reflexivity.
Qed.

(** the four lib keys are gone, everything else in the lib is kept in order *)
Lemma remove_keys_get_removed : forall A ks (l : list (string * A)) k,
  In k ks -> get (remove_keys ks l) k = None.
Proof.
  induction l as [|[k' v] l IH]; intros k Hin; [reflexivity|]. cbn [remove_keys filter fst].
  destruct (mem k' ks) eqn:E; cbn [negb].
  - apply IH. exact Hin.
  - cbn [get]. destruct (String.eqb k k') eqn:E2.
    + apply String.eqb_eq in E2. subst. apply mem_In in Hin. congruence.
    + apply IH. exact Hin.
Qed.
Lemma remove_keys_spec : forall A ks (l : list (string * A)),
  remove_keys ks l = filter (fun kv => negb (mem (fst kv) ks)) l.
Proof. reflexivity. Qed.
Lemma remove_keys_In : forall A ks (l : list (string * A)) k v,
  In (k, v) (remove_keys ks l) <-> In (k, v) l /\ ~ In k ks.
Proof.
  intros. unfold remove_keys. rewrite filter_In. cbn [fst]. split; intros [H1 H2]; split; auto.
  - intros C. apply mem_In in C. rewrite C in H2. discriminate.
  - destruct (mem k ks) eqn:E; [|reflexivity]. apply mem_In in E. contradiction.
Qed.

(** * 5. the load pipeline *)
Lemma load_model_is_spec : forall q u, load_model q u = load_spec q u.
Proof.
  intros q u. unfold load_model, load_spec, load_with.
  destruct (negb _); [reflexivity|].
  assert (F : forall v raw, from_file_with conv_code v raw = from_file_with conv_spec v raw).
  { intros v raw. unfold from_file_with. destruct (decode_fields _ raw); [|reflexivity].
    rewrite conv_code_spec. reflexivity. }
  destruct (u_fontinfo u); [rewrite F|]; reflexivity.
Qed.

Lemma validate_nil : validate [] = Ok tt.
Proof. reflexivity. Qed.

(** the validator of this model is C13's, so C13's characterisation applies *)
Lemma validate_ok_spec : forall i, validate i = Ok tt <-> FontInfo.fi_spec (project i).
Proof.
  intros i. rewrite <- FontInfoP.validate_iff_spec. unfold validate.
  destruct (FontInfo.fi_validate (project i)) as [[]|e|s]; split; intros H; try discriminate; reflexivity.
Qed.

Lemma validate_no_panic : forall i s, validate i <> Panic s.
Proof.
  intros i s. unfold validate.
  destruct (FontInfo.fi_validate (project i)) as [[]|e|s'] eqn:E; try discriminate.
  exfalso. eapply FontInfoP.validate_no_panic; eauto.
Qed.

Lemma from_file_valid : forall conv v raw i,
  from_file_with conv v raw = Ok i -> validate i = Ok tt.
Proof.
  intros conv v raw i H. unfold from_file_with in H.
  destruct (decode_fields _ raw); [|discriminate].
  destruct (conv v k) as [i'|e|s]; try discriminate.
  destruct (validate i') as [[]|e|s] eqn:E; try discriminate. inversion H; subst. exact E.
Qed.

Theorem load_result_valid : forall q u l,
  load_model q u = Ok l -> l_version l = 3 /\ validate (l_info l) = Ok tt.
Proof.
  intros q u l H. unfold load_model, load_with in H.
  destruct (negb _); [discriminate|].
  destruct (match u_fontinfo u with Some raw => _ | None => _ end) as [info|e|s] eqn:E; try discriminate.
  assert (V : validate info = Ok tt).
  { destruct (u_fontinfo u); [eapply from_file_valid; eauto|]. inversion E; subst. reflexivity. }
  destruct (if u_version u =? 1 then u_lib u else None) as [libfile|].
  - unfold robofab_with in H. destruct (decode_libdata libfile) as [ld|]; [|discriminate].
    destruct (ld_hint ld) as [h|].
    + destruct (validate (apply_hints h info)) as [[]|e|s] eqn:E2; try discriminate.
      inversion H; subst. cbn. auto.
    + inversion H; subst. cbn. auto.
  - inversion H; subst. cbn. auto.
Qed.

Theorem load_no_panic : forall q u s, load_model q u <> Panic s.
Proof.
  intros q u s H. unfold load_model, load_with in H.
  destruct (negb _); [discriminate|].
  destruct (match u_fontinfo u with Some raw => _ | None => _ end) as [info|e|s'] eqn:E; try discriminate.
  - destruct (if u_version u =? 1 then u_lib u else None) as [libfile|]; [|discriminate].
    unfold robofab_with in H. destruct (decode_libdata libfile) as [ld|]; [|discriminate].
    destruct (ld_hint ld) as [h|]; [|discriminate].
    destruct (validate (apply_hints h info)) as [[]|e|s'] eqn:E2; try discriminate.
    eapply validate_no_panic; eauto.
  - destruct (u_fontinfo u) as [raw|]; [|discriminate].
    unfold from_file_with in E. destruct (decode_fields _ raw) as [r|]; [|discriminate].
    rewrite conv_code_spec in E. unfold conv_spec in E.
    destruct (table_convert _ r) as [i|e|s''] eqn:T; try discriminate.
    + destruct (validate i) as [[]|e|s''] eqn:V; try discriminate. eapply validate_no_panic; eauto.
    + eapply table_convert_no_panic; eauto.
Qed.

(** * 6. the projection onto C13's record is exact on loaded legacy infos *)
Definition complex_keys : list string :=
  flat_map (fun kt : string * vty => match snd kt with TComplex => [fst kt] | _ => [] end) ufo3_schema.
Definition hint_targets : list string := map (fun r : string * string * hshape => fst (fst r)) spec_hint_table.

Lemma complex_not_target : forall k, In k complex_keys ->
  ~ In k (map target_of spec_v1_table) /\ ~ In k (map target_of spec_v2_table) /\ ~ In k hint_targets.
Proof.
  assert (H : forallb (fun k => negb (mem k (map target_of spec_v1_table)) &&
                                negb (mem k (map target_of spec_v2_table)) &&
                                negb (mem k hint_targets)) complex_keys = true) by (vm_compute; reflexivity).
  intros k Hk. rewrite forallb_forall in H. specialize (H k Hk).
  apply andb_true_iff in H. destruct H as [H H3]. apply andb_true_iff in H. destruct H as [H1 H2].
  repeat split; intros C; apply mem_In in C; rewrite C in *; discriminate.
Qed.

Definition table_of (v : Z) : list row := if v =? 1 then spec_v1_table else spec_v2_table.
Definition schema_of (v : Z) : list (string * vty) := if v =? 1 then v1_schema else v2_schema.

Lemma rows_typed_of : forall v, forallb (row_typed (schema_of v)) (table_of v) = true.
Proof.
  intros v. unfold schema_of, table_of. destruct (v =? 1); [exact v1_rows_typed|exact v2_rows_typed].
Qed.
Lemma table_of_cases : forall v k, In k (map target_of (table_of v)) ->
  In k (map target_of spec_v1_table) \/ In k (map target_of spec_v2_table).
Proof. intros v k H. unfold table_of in H. destruct (v =? 1); [left|right]; exact H. Qed.

(** [from_file] for a legacy version, opened up *)
Lemma from_file_inv : forall v raw i,
  from_file_with conv_code v raw = Ok i ->
  exists r, decode_fields (schema_of v) raw = Some r /\ table_convert (table_of v) r = Ok i /\
            validate i = Ok tt.
Proof.
  intros v raw i H. unfold from_file_with in H. fold (schema_of v) in H.
  destruct (decode_fields (schema_of v) raw) as [r|] eqn:D; [|discriminate].
  rewrite conv_code_spec in H. unfold conv_spec in H. fold (table_of v) in H.
  destruct (table_convert (table_of v) r) as [i'|e|s] eqn:T; try discriminate.
  destruct (validate i') as [[]|e|s] eqn:V; try discriminate. inversion H; subst i'.
  exists r. auto.
Qed.

Lemma from_file_keys : forall v raw i k x,
  from_file_with conv_code v raw = Ok i -> get i k = Some x -> In k (map target_of (table_of v)).
Proof.
  intros v raw i k x H G. destruct (from_file_inv _ _ _ H) as (r & _ & T & _).
  eapply table_convert_keys; [exact T|]. apply get_In. exact G.
Qed.

Lemma from_file_typed : forall v raw i,
  from_file_with conv_code v raw = Ok i -> typed ufo3_schema i.
Proof.
  intros v raw i H. destruct (from_file_inv _ _ _ H) as (r & D & T & _).
  apply decode_fields_typed in D.
  exact (table_convert_typed (schema_of v) (table_of v) r i (rows_typed_of v) D T).
Qed.

Lemma load_info_shape : forall q u l,
  load_model q u = Ok l ->
  exists info, (forall k x, get info k = Some x ->
                  In k (map target_of spec_v1_table) \/ In k (map target_of spec_v2_table)) /\
               typed ufo3_schema info /\
               (l_info l = info \/ exists h, l_info l = apply_hints h info).
Proof.
  intros q u l H. unfold load_model, load_with in H.
  destruct (negb _); [discriminate|].
  destruct (match u_fontinfo u with Some raw => _ | None => _ end) as [info|e|s] eqn:E; try discriminate.
  exists info. split; [|split].
  - intros k x G. destruct (u_fontinfo u) as [raw|].
    + eapply table_of_cases. eapply from_file_keys; [exact E|exact G].
    + inversion E; subst info. discriminate G.
  - destruct (u_fontinfo u) as [raw|].
    + eapply from_file_typed. exact E.
    + inversion E; subst info. intros k v [].
  - destruct (if u_version u =? 1 then u_lib u else None) as [libfile|].
    + unfold robofab_with in H. destruct (decode_libdata libfile) as [ld|]; [|discriminate].
      destruct (ld_hint ld) as [h|].
      * destruct (validate (apply_hints h info)) as [[]|e|s]; try discriminate.
        inversion H; subst l. right. exists h. reflexivity.
      * inversion H; subst l. left. reflexivity.
    + inversion H; subst l. left. reflexivity.
Qed.

(** the structured format-3 attributes (guidelines, gasp and name records, WOFF data) are absent
    from every loaded legacy info: the [None]s of the projection are exact *)
Lemma load_complex_absent : forall q u l k,
  load_model q u = Ok l -> In k complex_keys -> get (l_info l) k = None.
Proof.
  intros q u l k H Hk. destruct (complex_not_target k Hk) as (N1 & N2 & N3).
  destruct (load_info_shape q u l H) as (info & Hkeys & _ & Hshape).
  assert (G : get info k = None).
  { destruct (get info k) as [x|] eqn:G; [|reflexivity]. exfalso.
    destruct (Hkeys k x G); contradiction. }
  destruct Hshape as [E|[h E]]; rewrite E; [exact G|].
  rewrite apply_hints_frame; [exact G|exact N3].
Qed.

Lemma typed_remove_key : forall S k (i : kv), typed S i -> typed S (remove_key k i).
Proof.
  intros S k i H k' v Hin. apply H. unfold remove_key in Hin. apply filter_In in Hin. tauto.
Qed.
Lemma typed_assign : forall S k o (i : kv), typed S i ->
  (forall v, o = Some v -> exists t, get S k = Some t /\ has_ty t v = true) ->
  typed S (assign k o i).
Proof.
  intros S k [v|] i H Ho; cbn [assign].
  - intros k' v' [Hin|Hin].
    + inversion Hin; subst. apply Ho. reflexivity.
    + eapply typed_remove_key; eauto.
  - apply typed_remove_key. exact H.
Qed.
Lemma typed_assign_some : forall S k o (i : kv), typed S i ->
  (forall v, o = Some v -> exists t, get S k = Some t /\ has_ty t v = true) ->
  typed S (assign_some k o i).
Proof.
  intros S k [v|] i H Ho; cbn [assign_some]; [apply typed_assign; assumption|exact H].
Qed.

Lemma apply_hints_typed : forall h i, typed ufo3_schema i -> typed ufo3_schema (apply_hints h i).
Proof.
  intros h i H. unfold apply_hints.
  repeat first [apply typed_assign | apply typed_assign_some]; try exact H;
    intros v Hv;
    unfold h_num, h_bool, h_nums, h_flat in Hv;
    match type of Hv with
    | match get h ?k with _ => _ end = _ => destruct (get h k) as [[x|b|l|l]|]; try discriminate
    end; inversion Hv; subst;
    eexists; (split; [vm_compute; reflexivity|reflexivity]).
Qed.

Lemma load_typed : forall q u l, load_model q u = Ok l -> typed ufo3_schema (l_info l).
Proof.
  intros q u l H. destruct (load_info_shape q u l H) as (info & _ & Ht & [E|[h E]]); rewrite E.
  - exact Ht.
  - apply apply_hints_typed. exact Ht.
Qed.

Lemma map_to_N_exact : forall l, forallb in_u8 l = true -> map Z.of_N (map Z.to_N l) = l.
Proof.
  induction l as [|z l IH]; intros H; [reflexivity|]. cbn [forallb map] in *.
  apply andb_true_iff in H. destruct H as [H1 H2]. unfold in_u8 in H1.
  apply andb_true_iff in H1. destruct H1 as [H1 _]. apply Z.leb_le in H1.
  rewrite Z2N.id by exact H1. f_equal. apply IH. exact H2.
Qed.

(** on a typed info the unsigned projections lose nothing *)
Lemma project_exact : forall i, typed ufo3_schema i ->
  (forall l, get i "openTypeOS2Selection" = Some (VInts l) ->
     FontInfo.i_selection (project i) = Some (map Z.to_N l) /\ map Z.of_N (map Z.to_N l) = l) /\
  (forall v, get i "openTypeOS2FamilyClass" = Some v ->
     exists a b, v = VInts [a; b] /\ FontInfo.i_class (project i) = Some (Z.to_N a, Z.to_N b) /\
                 Z.of_N (Z.to_N a) = a /\ Z.of_N (Z.to_N b) = b) /\
  (forall s, get i "openTypeHeadCreated" = Some (VStr s) ->
     FontInfo.i_date (project i) = Some (bytes_of s)) /\
  (forall l, get i "postscriptBlueValues" = Some (VNums l) ->
     option_map (@List.length Z) (FontInfo.i_blue (project i)) = Some (List.length l)).
Proof.
  intros i Ht. repeat split.
  - unfold project. cbn [FontInfo.i_selection]. rewrite H. reflexivity.
  - destruct (In_get_typed _ _ _ _ Ht H) as (t & S1 & S2).
    vm_compute in S1. inversion S1; subst t. cbn [has_ty] in S2. apply map_to_N_exact. exact S2.
  - intros v G. destruct (In_get_typed _ _ _ _ Ht G) as (t & S1 & S2).
    vm_compute in S1. inversion S1; subst t.
    destruct v as [x|z|s|b|l|l]; cbn [has_ty] in S2; try discriminate.
    apply andb_true_iff in S2. destruct S2 as [L F].
    destruct l as [|a [|b [|c l]]]; try discriminate.
    exists a, b. split; [reflexivity|]. split.
    + unfold project. cbn [FontInfo.i_class]. rewrite G. reflexivity.
    + cbn [forallb] in F. apply andb_true_iff in F. destruct F as [Fa F].
      apply andb_true_iff in F. destruct F as [Fb _]. unfold in_u8 in *.
      apply andb_true_iff in Fa, Fb. destruct Fa as [Fa _]. destruct Fb as [Fb _].
      apply Z.leb_le in Fa, Fb. rewrite !Z2N.id by assumption. auto.
  - intros s G. unfold project. cbn [FontInfo.i_date]. rewrite G. reflexivity.
  - intros l G. unfold project, proj_list. cbn [FontInfo.i_blue]. rewrite G.
    cbn [option_map]. rewrite map_length. reflexivity.
Qed.

(** * 7. what the request does and does not influence *)
Definition res_info (r : result loaded lerr) : result kv lerr :=
  match r with Ok l => Ok (l_info l) | Err e => Err e | Panic s => Panic s end.

(** whether the load succeeds, with which error, and the resulting font info (converted
    attributes AND the hint data of the format-1 lib) do not depend on the request *)
Theorem info_independent_of_request : forall q q' u,
  res_info (load_model q u) = res_info (load_model q' u).
Proof.
  intros q q' u. unfold load_model, load_with.
  destruct (negb _); [reflexivity|].
  destruct (match u_fontinfo u with Some raw => _ | None => _ end) as [info|e|s]; try reflexivity.
  destruct (if u_version u =? 1 then u_lib u else None) as [libfile|]; [|reflexivity].
  unfold robofab_with. destruct (decode_libdata libfile) as [ld|]; [|reflexivity].
  destruct (ld_hint ld) as [h|]; [|reflexivity].
  destruct (validate (apply_hints h info)) as [[]|e|s]; reflexivity.
Qed.

(** the feature text of the format-1 lib reaches the font whatever the request; the request
    only decides whether features.fea is read when the lib has no feature text *)
Theorem robofab_features_independent_of_request : forall q u l ld,
  load_model q u = Ok l -> u_version u = 1 -> u_lib u = Some ld ->
  forall d, decode_libdata ld = Some d -> feature_text d <> "" -> l_features l = feature_text d.
Proof.
  intros q u l ld H V L d D F. unfold load_model, load_with in H.
  rewrite V, L in H. change (1 =? 1) with true in H. cbv iota in H.
  destruct (negb _); [discriminate|].
  destruct (match u_fontinfo u with Some raw => _ | None => _ end) as [info|e|s]; try discriminate.
  unfold robofab_with in H. rewrite D in H.
  assert (E : String.eqb (feature_text d) "" = false).
  { destruct (String.eqb (feature_text d) "") eqn:E; [|reflexivity].
    apply String.eqb_eq in E. contradiction. }
  destruct (ld_hint d) as [h|].
  - destruct (validate (apply_hints h info)) as [[]|e|s]; try discriminate.
    rewrite E in H. inversion H; subst l. cbn [l_features]. rewrite E. reflexivity.
  - rewrite E in H. inversion H; subst l. cbn [l_features]. rewrite E. reflexivity.
Qed.

(** the lib of the font: nothing when it was not requested; otherwise the file's entries minus
    [public.objectLibs] and (format 1) minus the four RoboFab keys *)
Theorem lib_of_request : forall q u l,
  load_model q u = Ok l ->
  (q_lib q = false -> l_lib l = []) /\
  (forall k v, In (k, v) (l_lib l) -> k <> PUBLIC_OBJECT_LIBS_KEY /\
     exists d, u_lib u = Some d /\ In (k, v) d).
Proof.
  intros q u l H. unfold load_model, load_with in H.
  destruct (negb _); [discriminate|].
  destruct (match u_fontinfo u with Some raw => _ | None => _ end) as [info|e|s]; try discriminate.
  set (lib0 := match (if q_lib q then u_lib u else None) with Some l0 => l0 | None => [] end) in *.
  assert (L : l_lib l = remove_key PUBLIC_OBJECT_LIBS_KEY lib0 \/
              l_lib l = remove_keys robofab_lib_keys (remove_key PUBLIC_OBJECT_LIBS_KEY lib0)).
  { destruct (if u_version u =? 1 then u_lib u else None) as [libfile|].
    - unfold robofab_with in H. destruct (decode_libdata libfile) as [ld|]; [|discriminate].
      destruct (ld_hint ld) as [h|].
      + destruct (validate (apply_hints h info)) as [[]|e|s]; try discriminate.
        inversion H; subst l. right. reflexivity.
      + inversion H; subst l. right. reflexivity.
    - inversion H; subst l. left. reflexivity. }
  assert (In0 : forall k v, In (k, v) (l_lib l) -> In (k, v) lib0 /\ k <> PUBLIC_OBJECT_LIBS_KEY).
  { intros k v Hin. assert (Hin' : In (k, v) (remove_key PUBLIC_OBJECT_LIBS_KEY lib0)).
    { destruct L as [L|L]; rewrite L in Hin; [exact Hin|]. apply remove_keys_In in Hin. tauto. }
    unfold remove_key in Hin'. apply filter_In in Hin'. destruct Hin' as [H1 H2]. split; [exact H1|].
    cbn [fst] in H2. intros C. subst k. rewrite String.eqb_refl in H2. discriminate. }
  split.
  - intros Q. subst lib0. rewrite Q in *. destruct (l_lib l) as [|[k v] r] eqn:E; [reflexivity|].
    exfalso. destruct (In0 k v (or_introl eq_refl)) as [[] _].
  - intros k v Hin. destruct (In0 k v Hin) as [H1 H2]. split; [exact H2|].
    subst lib0. destruct (q_lib q); [|destruct H1].
    destruct (u_lib u) as [d|]; [|destruct H1]. exists d. auto.
Qed.
