(** What the plist reader ([pv_of], Model/Plist.v) returns is a value the plist writer represents
    ([pv_good]: integers within i64 / u64, bytes below 256, well-shaped dates, no repeated key) —
    except that a <real> may be non-finite ([f64::from_str] accepts inf and NaN). *)
Require Import Norad.Model.GlifSpec Norad.Model.GlifEncode.
Require Import Norad.Proofs.GlifParseP Norad.Proofs.GlifLibsP.
Require Import Norad.Model.FontRT Norad.Model.FontReal Norad.Model.FontRealFiles Norad.Proofs.FontRTP.
Open Scope N_scope.

(** [pv_good 0] without the condition on reals *)
Fixpoint good_nr (v : pv) : bool :=
  match v with
  | PInt z => int_ok z
  | PData b => bytes_ok b
  | PDate s => date_shape s
  | PArr l => forallb good_nr l
  | PDict d => nodup_keys (map fst d) && forallb (fun kx : str * pv => good_nr (snd kx)) d
  | _ => true
  end.

Lemma good_split : forall v, good_nr v = true -> reals_finite v = true -> pv_good 0 v = true.
Proof.
  intros v. induction v as [s|z|x|b|b|s|l IHl|d IHd] using pv_ind2; cbn [good_nr reals_finite pv_good]; intros G R; try exact G.
  - destruct x; try discriminate. reflexivity.
  - induction IHl as [|v l Hv _ IH]; [reflexivity|]. cbn [forallb] in *.
    apply andb_true_iff in G. destruct G as [G1 G2]. apply andb_true_iff in R. destruct R as [R1 R2].
    rewrite (Hv G1 R1), (IH G2 R2). reflexivity.
  - apply andb_true_iff in G. destruct G as [GN G]. rewrite GN. cbn [andb]. clear GN.
    induction IHd as [|[k x] d Hx _ IH]; [reflexivity|]. cbn [forallb snd] in *.
    apply andb_true_iff in G. destruct G as [G1 G2]. apply andb_true_iff in R. destruct R as [R1 R2].
    rewrite (Hx G1 R1), (IH G2 R2). reflexivity.
Qed.

(** ** integers *)
Lemma int_ok_nonneg : forall n, n < 2 ^ 64 -> int_ok (Z.of_N n) = true.
Proof.
  intros n H. unfold int_ok. apply andb_true_iff. split; [apply Z.leb_le|apply Z.ltb_lt].
  - change (2 ^ 63)%Z with 9223372036854775808%Z. lia.
  - change (2 ^ 64)%Z with 18446744073709551616%Z. change (2 ^ 64) with 18446744073709551616 in H. lia.
Qed.
Lemma int_ok_neg : forall n, n <= 2 ^ 63 -> int_ok (- Z.of_N n) = true.
Proof.
  intros n H. unfold int_ok. apply andb_true_iff. split; [apply Z.leb_le|apply Z.ltb_lt].
  - change (2 ^ 63)%Z with 9223372036854775808%Z. change (2 ^ 63) with 9223372036854775808 in H. lia.
  - change (2 ^ 64)%Z with 18446744073709551616%Z. lia.
Qed.
Lemma unsigned_range : forall (o : option N) z,
  match o with Some n => if n <? 2 ^ 64 then Some (Z.of_N n) else None | None => None end = Some z ->
  int_ok z = true.
Proof.
  intros [n|] z H; [|discriminate]. destruct (n <? 2 ^ 64) eqn:E; [|discriminate].
  inversion H; subst. apply int_ok_nonneg. apply N.ltb_lt. exact E.
Qed.
Ltac unsigned_case H :=
  match type of H with
  | match ?o with Some _ => _ | None => _ end = Some _ =>
      let n := fresh "n" in let En := fresh "En" in
      destruct o as [n|]; [|discriminate H];
      destruct (n <? 2 ^ 64) eqn:En; [|discriminate H];
      inversion H; subst; apply int_ok_nonneg; apply N.ltb_lt; exact En
  end.
Lemma plist_int_range : forall s z, plist_int s = Some z -> int_ok z = true.
Proof.
  intros s z H. unfold plist_int in H. destruct (starts_0x s); [unsigned_case H|].
  destruct s as [|c [|c2 r]]; [unsigned_case H|unsigned_case H|].
  destruct (c =? 45); [|unsigned_case H].
  destruct (dec_val 0 (c2 :: r)) as [n|]; [|discriminate].
  destruct (n <=? 2 ^ 63) eqn:E; [|discriminate]. inversion H; subst. apply int_ok_neg. apply N.leb_le. exact E.
Qed.

(** ** base64 *)
Lemma b64_digit_lt : forall c d, b64_digit c = Some d -> d < 64.
Proof.
  intros c d H. unfold b64_digit, is_digit in H.
  destruct ((65 <=? c) && (c <=? 90)) eqn:E1.
  { apply andb_true_iff in E1. destruct E1 as [A B]. apply N.leb_le in A. apply N.leb_le in B. inversion H; subst. lia. }
  destruct ((97 <=? c) && (c <=? 122)) eqn:E2.
  { apply andb_true_iff in E2. destruct E2 as [A B]. apply N.leb_le in A. apply N.leb_le in B. inversion H; subst. lia. }
  destruct ((48 <=? c) && (c <=? 57)) eqn:E3.
  { apply andb_true_iff in E3. destruct E3 as [A B]. apply N.leb_le in A. apply N.leb_le in B. inversion H; subst. lia. }
  destruct (c =? 43); [inversion H; subst; lia|]. destruct (c =? 47); [inversion H; subst; lia|discriminate].
Qed.
Lemma b64_quad_ok : forall a b c d last l, b64_quad a b c d last = Some l -> bytes_ok l = true.
Proof.
  intros a b c d last l H. unfold b64_quad in H.
  destruct (b64_digit a) as [x|] eqn:Ea; [|discriminate]. destruct (b64_digit b) as [y|] eqn:Eb; [|discriminate].
  apply b64_digit_lt in Ea. apply b64_digit_lt in Eb.
  assert (Y1 : y / 16 < 4) by (apply N.div_lt_upper_bound; lia).
  assert (Y2 : y mod 16 < 16) by (apply N.mod_lt; lia).
  destruct ((c =? 61) && (d =? 61)).
  { destruct (last && (y mod 16 =? 0)); [|discriminate]. inversion H; subst. cbn [bytes_ok forallb].
    rewrite andb_true_r. apply N.ltb_lt. lia. }
  destruct (b64_digit c) as [z|] eqn:Ec; [|discriminate]. apply b64_digit_lt in Ec.
  assert (Z1 : z / 4 < 16) by (apply N.div_lt_upper_bound; lia).
  assert (Z2 : z mod 4 < 4) by (apply N.mod_lt; lia).
  destruct (d =? 61).
  { destruct (last && (z mod 4 =? 0)); [|discriminate]. inversion H; subst. cbn [bytes_ok forallb].
    rewrite andb_true_r. apply andb_true_iff. split; apply N.ltb_lt; lia. }
  destruct (b64_digit d) as [w|] eqn:Ed; [|discriminate]. apply b64_digit_lt in Ed.
  inversion H; subst. cbn [bytes_ok forallb]. rewrite andb_true_r.
  apply andb_true_iff. split; [apply N.ltb_lt; lia|]. apply andb_true_iff. split; apply N.ltb_lt; lia.
Qed.
Lemma b64_decode_ok : forall fuel s l, b64_decode fuel s = Some l -> bytes_ok l = true.
Proof.
  induction fuel as [|f IH]; intros s l H; [discriminate|]. cbn [b64_decode] in H.
  destruct s as [|a [|b [|c [|d r]]]]; try discriminate; [inversion H; reflexivity|].
  destruct (b64_quad a b c d (match r with [] => true | _ => false end)) as [x|] eqn:Eq; [|discriminate].
  destruct (b64_decode f r) as [t|] eqn:Et; [|discriminate]. inversion H; subst.
  pose proof (b64_quad_ok _ _ _ _ _ _ Eq) as Q. pose proof (IH _ _ Et) as T.
  unfold bytes_ok in *. rewrite forallb_app, Q, T. reflexivity.
Qed.

(** ** leaves *)
Section Read.
Variable pf : str -> option fl.

Lemma leaf_good : forall name kids v, leaf_value pf name kids = Some v -> good_nr v = true.
Proof.
  intros name kids v H. unfold leaf_value in H.
  destruct (str_eqb name n_string || str_eqb name n_key).
  { destruct (content kids); inversion H; reflexivity. }
  destruct (str_eqb name n_integer).
  { destruct (content kids) as [s|]; [|discriminate]. destruct (plist_int s) as [z|] eqn:E; inversion H; subst.
    cbn [good_nr]. eapply plist_int_range; eauto. }
  destruct (str_eqb name n_real).
  { destruct (content kids) as [s|]; [|discriminate]. destruct (pf s); inversion H; reflexivity. }
  destruct (str_eqb name n_data).
  { destruct (content kids) as [s|]; [|discriminate].
    destruct (b64_decode _ _) as [b|] eqn:E; inversion H; subst. cbn [good_nr]. eapply b64_decode_ok; eauto. }
  destruct (str_eqb name n_date); [|discriminate].
  destruct (content kids) as [s|]; [|discriminate]. destruct (date_shape s) eqn:E; inversion H; subst. exact E.
Qed.

(** ** dictionaries: [Dictionary::insert] keeps the keys distinct *)
Lemma dict_insert_keys : forall k v (d : dict) k', In k' (map fst (dict_insert k v d)) <-> k' = k \/ In k' (map fst d).
Proof.
  intros k v d k'. induction d as [|[a x] d IH]; cbn [dict_insert map fst In].
  - intuition (subst; auto).
  - destruct (str_eqb k a) eqn:E; cbn [map fst In].
    + apply list_eqb_N_eq in E. subst a. intuition (subst; auto).
    + rewrite IH. intuition (subst; auto).
Qed.
Lemma dict_insert_good : forall k v (d : dict),
  good_nr (PDict d) = true -> good_nr v = true -> good_nr (PDict (dict_insert k v d)) = true.
Proof.
  intros k v d H Hv. cbn [good_nr] in *. apply andb_true_iff in H. destruct H as [HN HE].
  apply nodup_keys_spec in HN. apply andb_true_iff. split.
  - apply nodup_keys_spec. induction d as [|[a x] d IH]; cbn [dict_insert map fst]; [constructor; [intros []|constructor]|].
    cbn [map fst] in HN. inversion HN as [|? ? Hn Hd]; subst. cbn [forallb] in HE. apply andb_true_iff in HE. destruct HE as [_ HE].
    destruct (str_eqb k a) eqn:E; cbn [map fst].
    + apply list_eqb_N_eq in E. subst a. constructor; assumption.
    + constructor; [|apply IH; assumption]. intros Hin. apply dict_insert_keys in Hin. destruct Hin as [->|Hin]; [|contradiction].
      rewrite str_eqb_refl in E. discriminate.
  - clear HN. induction d as [|[a x] d IH]; cbn [dict_insert forallb snd]; [rewrite Hv; reflexivity|].
    cbn [forallb snd] in HE. apply andb_true_iff in HE. destruct HE as [H1 H2].
    destruct (str_eqb k a); cbn [forallb snd]; [rewrite Hv, H2; reflexivity|rewrite H1, (IH H2); reflexivity].
Qed.

(** ** every value the reader returns *)
Lemma pv_of_good_nr : forall n v, pv_of pf n = Some v -> good_nr v = true.
Proof.
  fix IH 1. intros [name a|name a kids|s|s|s| |s|s] v H; cbn [pv_of] in H; try discriminate.
  - destruct (str_eqb name n_array); [inversion H; reflexivity|].
    destruct (str_eqb name n_dict); [inversion H; reflexivity|].
    destruct (str_eqb name n_true); [inversion H; reflexivity|].
    destruct (str_eqb name n_false); [inversion H; reflexivity|]. eapply leaf_good; eauto.
  - destruct (str_eqb name n_array).
    { destruct (arr_of (pv_of pf) kids) as [l|] eqn:E; inversion H; subst. cbn [good_nr]. clear H.
      revert l E. induction kids as [|k kids IHk]; intros l E; cbn [arr_of] in E.
      - inversion E; reflexivity.
      - pose proof (IH k) as Hk.
        destruct k as [nm at_|nm at_ ks|t|t|t| |t|t]; try (apply IHk; exact E).
        + destruct (pv_of pf (Empty nm at_)) as [x|] eqn:Ex; [|discriminate].
          destruct (arr_of (pv_of pf) kids) as [xs|] eqn:Exs; [|discriminate]. inversion E; subst.
          cbn [forallb]. rewrite (Hk _ eq_refl), (IHk _ eq_refl). reflexivity.
        + destruct (pv_of pf (Elem nm at_ ks)) as [x|] eqn:Ex; [|discriminate].
          destruct (arr_of (pv_of pf) kids) as [xs|] eqn:Exs; [|discriminate]. inversion E; subst.
          cbn [forallb]. rewrite (Hk _ eq_refl), (IHk _ eq_refl). reflexivity.
        + destruct (blank t); [apply IHk; exact E|discriminate]. }
    destruct (str_eqb name n_dict).
    { destruct (dic_of (pv_of pf) kids None []) as [d|] eqn:E; inversion H; subst. clear H.
      assert (G0 : good_nr (PDict []) = true) by reflexivity.
      revert E G0. generalize (@nil (str * pv)) as acc. generalize (@None str) as pending.
      induction kids as [|k kids IHk]; intros pending acc E G; cbn [dic_of] in E.
      - destruct pending; [discriminate|]. inversion E; subst. exact G.
      - pose proof (IH k) as Hk.
        destruct k as [nm at_|nm at_ ks|t|t|t| |t|t]; try (eapply IHk; eauto; fail).
        + destruct (pv_of pf (Empty nm at_)) as [x|] eqn:Ex; [|discriminate]. pose proof (Hk _ eq_refl) as Gx.
          destruct pending as [key|].
          * eapply IHk; [exact E|]. apply dict_insert_good; assumption.
          * destruct x; try discriminate. eapply IHk; eauto.
        + destruct (pv_of pf (Elem nm at_ ks)) as [x|] eqn:Ex; [|discriminate]. pose proof (Hk _ eq_refl) as Gx.
          destruct pending as [key|].
          * eapply IHk; [exact E|]. apply dict_insert_good; assumption.
          * destruct x; try discriminate. eapply IHk; eauto.
        + destruct (blank t); [eapply IHk; eauto|discriminate]. }
    destruct (str_eqb name n_true); [inversion H; reflexivity|].
    destruct (str_eqb name n_false); [inversion H; reflexivity|]. eapply leaf_good; eauto.
Qed.

Theorem pv_of_good : forall n v, pv_of pf n = Some v -> reals_finite v = true -> pv_good 0 v = true.
Proof. intros n v H R. apply good_split; [eapply pv_of_good_nr; eauto|exact R]. Qed.
End Read.
