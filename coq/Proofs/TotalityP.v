(** C03 — proofs about the site models of Model/Totality.v: for every site class, the site is
    unreachable for ALL inputs / states / histories of its model (or a witness shows it is
    reachable, and the positive lemma carries the exact extra hypothesis). *)
From Coq Require Import FinFun.
Require Import Norad.Model.Base Norad.Model.Totality.
Open Scope N_scope.

(* ========================================================================================== *)

Lemma utf8_len_pos c : 1 <= utf8_len c.
Proof. unfold utf8_len. destruct (c <? 128), (c <? 2048), (c <? 65536); lia. Qed.

Lemma is_cb_0 s : is_cb s 0 = true.
Proof. destruct s; reflexivity. Qed.

Lemma is_cb_unfold c r i :
  is_cb (c :: r) i = (i =? 0) || ((utf8_len c <=? i) && is_cb r (i - utf8_len c)).
Proof. reflexivity. Qed.

Lemma blen_app a b : blen (a ++ b) = blen a + blen b.
Proof. induction a as [|c a IH]; cbn [app blen]; lia. Qed.

Lemma is_cb_app a : forall b, is_cb (a ++ b) (blen a) = true.
Proof.
  induction a as [|c a IH]; intros b.
  - cbn [app blen]. apply is_cb_0.
  - cbn [app blen]. rewrite is_cb_unfold.
    replace (utf8_len c + blen a - utf8_len c) with (blen a) by lia.
    rewrite IH. replace (utf8_len c <=? utf8_len c + blen a) with true by (symmetry; apply N.leb_le; lia).
    apply orb_true_r.
Qed.

Lemma is_cb_blen s : is_cb s (blen s) = true.
Proof. rewrite <- (app_nil_r s) at 1. apply is_cb_app. Qed.

Lemma is_cb_le s : forall i, is_cb s i = true -> i <= blen s.
Proof.
  induction s as [|c r IH]; intros i H.
  - cbn in H. rewrite orb_false_r in H. apply N.eqb_eq in H. subst. cbn. lia.
  - rewrite is_cb_unfold in H. apply orb_true_iff in H. destruct H as [H|H].
    + apply N.eqb_eq in H. subst. lia.
    + apply andb_true_iff in H. destruct H as [H1 H2]. apply N.leb_le in H1.
      apply IH in H2. cbn [blen]. lia.
Qed.

Lemma backoff_ok : forall fuel s b, (N.to_nat b < fuel)%nat ->
  exists b', backoff fuel s b = Ok b' /\ b' <= b /\ is_cb s b' = true.
Proof.
  induction fuel as [|f IH]; intros s b Hf; [lia|].
  cbn [backoff]. destruct (is_cb s b) eqn:E.
  - exists b. repeat split; [lia|assumption].
  - destruct (b =? 0) eqn:E0.
    + apply N.eqb_eq in E0. subst. rewrite is_cb_0 in E. discriminate.
    + apply N.eqb_neq in E0. destruct (IH s (b - 1)) as [b' [H1 [H2 H3]]]; [lia|].
      exists b'. repeat split; [assumption|lia|assumption].
Qed.

Lemma backoff_fuel_ok s b :
  exists b', backoff (backoff_fuel b) s b = Ok b' /\ b' <= b /\ is_cb s b' = true.
Proof. apply backoff_ok. unfold backoff_fuel. lia. Qed.

Lemma truncate_cb s n : is_cb s n = true -> exists r, truncate s n = Ok r.
Proof.
  intros H. unfold truncate. destruct (blen s <? n); [eauto|]. rewrite H. eauto.
Qed.

Lemma truncate_no_backoff_panic s b :
  exists r, bind (backoff (backoff_fuel b) s b) (fun b' => truncate s b') = Ok r.
Proof.
  destruct (backoff_fuel_ok s b) as [b' [H1 [_ H3]]]. rewrite H1. cbn [bind]. apply truncate_cb. assumption.
Qed.

(* ========================================================================================== *)

Lemma trail_cb : forall rc post plen bnd,
  is_cb (rev rc ++ post) bnd = true ->
  is_cb (rev rc ++ post) (trail_boundary rc (blen (rev rc)) plen bnd) = true.
Proof.
  induction rc as [|c r IH]; intros post plen bnd Hb.
  - exact Hb.
  - cbn [trail_boundary rev]. rewrite blen_app. cbn [blen].
    replace (blen (rev r) + (utf8_len c + 0) - utf8_len c) with (blen (rev r)) by lia.
    destruct ((blen (rev r) <? plen) || negb (is_ds c)); [exact Hb|].
    rewrite <- app_assoc. cbn [app]. apply IH. apply is_cb_app.
Qed.

Section U.
  Variable is_upper : N -> bool.
  Variable lower : str -> str.
  Variable accept : nat -> str -> bool.

  Lemma u2f_base_ok name prefix suffix :
    exists r3, u2f_base is_upper name prefix suffix = Ok (r3 ++ suffix).
  Proof.
    unfold u2f_base.
    set (r0 := prefix ++ escape is_upper (isnil prefix) name).
    set (hit := existsb (str_eqb (stem r0)) reserved).
    set (r1 := if hit then USCORE :: r0 else r0).
    set (pl := if hit then blen prefix + 1 else blen prefix).
    assert (H2 : exists r2, (if MAX_LEN <? blen r1 + blen suffix
          then bind (backoff (backoff_fuel (MAX_LEN - blen suffix)) r1 (MAX_LEN - blen suffix))
                    (fun b => truncate r1 b) else Ok r1) = @Ok str unit r2).
    { destruct (MAX_LEN <? blen r1 + blen suffix); [apply truncate_no_backoff_panic|eauto]. }
    destruct H2 as [r2 H2]. rewrite H2. cbn [bind].
    destruct (isnil suffix && ends_ds r2).
    - set (b := trail_boundary (rev r2) (blen r2) pl (blen r2)).
      assert (Hcb : is_cb r2 b = true).
      { unfold b. pose proof (trail_cb (rev r2) [] pl (blen r2)) as T.
        rewrite rev_involutive, app_nil_r in T. apply T. apply is_cb_blen. }
      pose proof (is_cb_le _ _ Hcb) as Hle.
      replace (blen r2 <? b) with false by (symmetry; apply N.ltb_ge; lia).
      rewrite Hcb. cbn [bind]. eauto.
    - cbn [bind]. eauto.
  Qed.

  Lemma two_digits_len n : n < 100 -> blen (two_digits n) = 2.
  Proof.
    intros H. unfold two_digits. cbn [blen]. unfold utf8_len.
    assert (n / 10 < 10) by (apply N.div_lt_upper_bound; lia).
    assert (n mod 10 < 10) by (apply N.mod_lt; lia).
    replace (48 + n / 10 <? 128) with true by (symmetry; apply N.ltb_lt; lia).
    replace (48 + n mod 10 <? 128) with true by (symmetry; apply N.ltb_lt; lia). lia.
  Qed.

  Lemma clash_loop_only_99 : forall fuel counter k st suffix s,
    counter + N.of_nat fuel <= 100 ->
    clash_loop lower accept fuel counter k st suffix = Panic s -> s = SITE_U2F_99.
  Proof.
    induction fuel as [|f IH]; intros counter k st suffix s Hc H.
    - cbn in H. congruence.
    - cbn [clash_loop] in H.
      destruct (accept k (lower (st ++ two_digits counter ++ suffix))); [discriminate|].
      rewrite !blen_app, two_digits_len in H by lia.
      replace (blen st + (2 + blen suffix) - blen suffix) with (blen st + 2) in H by lia.
      unfold NUMBER_LEN in H.
      replace (blen st + 2 <? 2) with false in H by (symmetry; apply N.ltb_ge; lia).
      replace (blen st + 2 - 2) with (blen st) in H by lia.
      destruct (truncate_cb (st ++ two_digits counter ++ suffix) (blen st) (is_cb_app st _)) as [st' Ht].
      rewrite Ht in H. cbn [bind] in H. eapply IH; [|exact H]. lia.
  Qed.

  Theorem u2f_only_documented_panic name prefix suffix s :
    u2f is_upper lower accept name prefix suffix = Panic s -> s = SITE_U2F_99.
  Proof.
    unfold u2f. destruct (u2f_base_ok name prefix suffix) as [r3 Hb]. rewrite Hb. cbn [bind].
    destruct (accept 0%nat (lower (r3 ++ suffix))); [discriminate|].
    assert (Hst : exists st, (if MAX_LEN <? blen (r3 ++ suffix) - blen suffix + NUMBER_LEN
       then bind (backoff (backoff_fuel (MAX_LEN - blen suffix - NUMBER_LEN)) (r3 ++ suffix) (MAX_LEN - blen suffix - NUMBER_LEN))
                 (fun b => truncate (r3 ++ suffix) b)
       else truncate (r3 ++ suffix) (blen (r3 ++ suffix) - blen suffix)) = @Ok str unit st).
    { destruct (MAX_LEN <? blen (r3 ++ suffix) - blen suffix + NUMBER_LEN).
      - apply truncate_no_backoff_panic.
      - apply truncate_cb. rewrite blen_app. replace (blen r3 + blen suffix - blen suffix) with (blen r3) by lia.
        apply is_cb_app. }
    destruct Hst as [st Hst]. rewrite Hst. cbn [bind].
    apply clash_loop_only_99. cbn. lia.
  Qed.
End U.

(* ========================================================================================== *)

(* ---------- parse_lib ---------- *)
Lemma last_indep {A} : forall (l : list A) d d', l <> [] -> last l d = last l d'.
Proof.
  induction l as [|x l IH]; intros d d' H; [congruence|].
  destruct l as [|y l']; [reflexivity|]. cbn [last] in *. apply IH. discriminate.
Qed.

Lemma last_mono len : forall later start, start <= len -> mono_bounded len start later ->
  start <= last later start /\ last later start <= len.
Proof.
  induction later as [|p r IH]; intros start Hs Hm.
  - cbn. lia.
  - cbn [mono_bounded] in Hm. destruct Hm as [H1 [H2 H3]].
    destruct r as [|q r'].
    + cbn. lia.
    + specialize (IH p H2 H3).
      replace (last (p :: q :: r') start) with (last (q :: r') p); [lia|].
      change (last (p :: q :: r') start) with (last (q :: r') start).
      apply last_indep. discriminate.
Qed.

Theorem parse_lib_slice_ok len start later :
  start <= len -> mono_bounded len start later ->
  exists e, parse_lib_slice len start later = Ok (start, e) /\ start <= e <= len.
Proof.
  intros Hs Hm. destruct (last_mono len later start Hs Hm) as [H1 H2].
  unfold parse_lib_slice. exists (last later start).
  replace (start <=? last later start) with true by (symmetry; apply N.leb_le; lia).
  replace (last later start <=? len) with true by (symmetry; apply N.leb_le; lia).
  split; [reflexivity|lia].
Qed.

(* ---------- date slices ---------- *)
Lemma ascii_all_cb : forall s, forallb (fun c => c <? 128) s = true ->
  forall i, i <= blen s -> is_cb s i = true.
Proof.
  induction s as [|c r IH]; intros Ha i Hi.
  - cbn in Hi. assert (i = 0) by lia. subst. reflexivity.
  - cbn [forallb] in Ha. apply andb_true_iff in Ha. destruct Ha as [Hc Hr].
    rewrite is_cb_unfold. destruct (i =? 0) eqn:E0; [reflexivity|]. apply N.eqb_neq in E0.
    assert (Hl : utf8_len c = 1) by (unfold utf8_len; rewrite Hc; reflexivity).
    cbn [blen] in Hi. rewrite Hl in *. cbn [orb].
    replace (1 <=? i) with true by (symmetry; apply N.leb_le; lia). cbn [andb].
    apply IH; [assumption|lia].
Qed.

Lemma date_char_ascii c : date_char c = true -> (c <? 128) = true.
Proof.
  unfold date_char. intros H. apply N.ltb_lt.
  repeat (apply orb_true_iff in H; destruct H as [H|H]);
    repeat (apply andb_true_iff in H; destruct H as [H ?]);
    repeat match goal with
           | X : (_ <=? _) = true |- _ => apply N.leb_le in X
           | X : (_ =? _) = true |- _ => apply N.eqb_eq in X
           end; lia.
Qed.

Lemma forallb_impl {A} (p q : A -> bool) l : (forall x, p x = true -> q x = true) ->
  forallb p l = true -> forallb q l = true.
Proof.
  intros H. induction l as [|x l IH]; [reflexivity|]. cbn [forallb]. intros E.
  apply andb_true_iff in E. destruct E as [E1 E2]. rewrite (H _ E1), (IH E2). reflexivity.
Qed.

Lemma str_slice_ok s a b : forallb (fun c => c <? 128) s = true -> a <= b -> b <= blen s ->
  exists r, str_slice s a b = Ok r.
Proof.
  intros Ha H1 H2. unfold str_slice.
  replace (a <=? b) with true by (symmetry; apply N.leb_le; lia).
  replace (b <=? blen s) with true by (symmetry; apply N.leb_le; lia).
  rewrite !ascii_all_cb by (assumption || lia). cbn [andb]. eauto.
Qed.

Theorem date_slices_ok v l : date_slices v = Some l ->
  Forall (fun r => exists x, r = Ok x) l.
Proof.
  unfold date_slices. destruct (blen v =? DATE_LENGTH) eqn:E1; [|discriminate]. cbn [negb].
  destruct (forallb date_char v) eqn:E2; [|discriminate]. cbn [negb]. intros H.
  assert (Hl : l = map (fun ab => str_slice v (fst ab) (snd ab)) date_ranges) by congruence. clear H.
  subst l. apply N.eqb_eq in E1. unfold DATE_LENGTH in E1.
  assert (Ha : forallb (fun c => c <? 128) v = true) by (eapply forallb_impl; [apply date_char_ascii|exact E2]).
  unfold date_ranges. cbn [map fst snd].
  repeat (constructor; [apply str_slice_ok; [exact Ha|lia|lia]|]). constructor.
Qed.

(* ---------- gasp ---------- *)
Theorem gasp_first_ok v : exists r, gasp_first v = Ok r.
Proof.
  unfold gasp_first. destruct (1 <? length v)%nat eqn:E; [|eauto].
  destruct v; [cbn in E; discriminate|eauto].
Qed.

(* ---------- indexing after a length guard ---------- *)
Lemma index_site_ok {A} (l : list A) i : (i < length l)%nat -> exists x, index_site l i = Ok x.
Proof.
  intros H. unfold index_site. destruct (nth_error l i) eqn:E; [eauto|].
  apply nth_error_None in E. lia.
Qed.

Theorem deser_fixed_ok {A} n (l : list A) rs : deser_fixed n l = Some rs ->
  Forall (fun r => exists x, r = Ok x) rs.
Proof.
  unfold deser_fixed. destruct (length l =? n)%nat eqn:E; [|discriminate]. cbn [negb].
  intros H. assert (Hr : rs = map (index_site l) (seq 0 n)) by congruence. subst rs. clear H.
  apply Nat.eqb_eq in E. apply Forall_forall. intros r Hin. apply in_map_iff in Hin.
  destruct Hin as [i [Hi Hs]]. apply in_seq in Hs. subst r. apply index_site_ok. lia.
Qed.

Theorem single_point_ok {A} (l : list A) : Forall (fun r => exists x, r = Ok x) (single_point_sites l).
Proof.
  unfold single_point_sites. destruct (length l =? 1)%nat eqn:E; [|constructor].
  apply Nat.eqb_eq in E. repeat constructor; apply index_site_ok; lia.
Qed.

(* ---------- to_kurbo ---------- *)
Theorem kurbo_offcurve_ok {A} (pts : list A) rs : kurbo_offcurve_sites pts = Some rs ->
  Forall (fun r => exists x, r = Ok x) rs.
Proof.
  destruct pts as [|p ps]; [discriminate|]. unfold kurbo_offcurve_sites.
  set (l := p :: ps). intros H.
  assert (Hn : (0 < length l)%nat) by (cbn; lia).
  assert (Hr : rs = bind (checked_sub (length l) 1) (fun i => index_site l i)
            :: index_site l 0 :: map (fun i => index_site l (Nat.modulo (i + 1) (length l))) (seq 0 (length l)))
    by congruence. subst rs. clear H.
  constructor.
  - unfold checked_sub. replace (1 <=? length l)%nat with true by (symmetry; apply Nat.leb_le; lia).
    cbn [bind]. apply index_site_ok. lia.
  - constructor; [apply index_site_ok; lia|].
    apply Forall_forall. intros r Hin. apply in_map_iff in Hin. destruct Hin as [i [Hi _]]. subst r.
    apply index_site_ok. apply Nat.mod_upper_bound. lia.
Qed.

Lemma position_lt {A} (p : A -> bool) : forall l i, position p l = Some i -> (i < length l)%nat.
Proof.
  induction l as [|x l IH]; intros i H; [discriminate|]. cbn [position] in H.
  destruct (p x).
  - assert (i = O) by congruence. subst. cbn. lia.
  - destruct (position p l) as [j|] eqn:E; [|discriminate]. cbn in H.
    assert (i = S j) by congruence. subst. specialize (IH j eq_refl). cbn. lia.
Qed.

Theorem kurbo_rotate_ok {A} (p : A -> bool) pts : exists r, kurbo_rotate p pts = Ok r.
Proof.
  unfold kurbo_rotate. destruct (position p (rev pts)) as [idx|] eqn:E; [|eauto].
  apply position_lt in E. rewrite rev_length in E. unfold checked_sub.
  replace (1 <=? length pts)%nat with true by (symmetry; apply Nat.leb_le; lia). cbn [bind].
  replace (idx <=? length pts - 1)%nat with true by (symmetry; apply Nat.leb_le; lia). cbn [bind]. eauto.
Qed.

(* ---------- serde_xml_plist / parse_advance / uuid ---------- *)
Theorem serialize_within_no_panic k s : serialize_within k <> Panic s.
Proof. destruct k; cbn; discriminate. Qed.

Theorem advance_inner_no_panic key s : advance_inner key <> Panic s.
Proof.
  unfold advance_inner. destruct (key =? 1) eqn:E1; cbn [orb]; [discriminate|].
  destruct (key =? 2) eqn:E2; discriminate.
Qed.

Lemma uuid_char_printable c : uuid_char c = true -> ((32 <=? c) && (c <=? 126)) = true.
Proof.
  unfold uuid_char. intros H. apply andb_true_iff. rewrite !N.leb_le.
  repeat (apply orb_true_iff in H; destruct H as [H|H]);
    repeat (apply andb_true_iff in H; destruct H as [H ?]);
    repeat match goal with
           | X : (_ <=? _) = true |- _ => apply N.leb_le in X
           | X : (_ =? _) = true |- _ => apply N.eqb_eq in X
           end; lia.
Qed.

Theorem from_uuid_ok s : length s = 36%nat -> forallb uuid_char s = true -> from_uuid s = Ok s.
Proof.
  intros Hl Hc. unfold from_uuid, ident_valid. rewrite Hl. cbn [Nat.leb andb].
  rewrite (forallb_impl _ _ _ uuid_char_printable Hc). reflexivity.
Qed.

(* ========================================================================================== *)

(* ================= LayerContents ================= *)
Lemma str_eqb_refl s : str_eqb s s = true.
Proof. unfold str_eqb. induction s as [|c s IH]; [reflexivity|]. cbn. rewrite N.eqb_refl, IH. reflexivity. Qed.
Lemma str_eqb_eq a : forall b, str_eqb a b = true -> a = b.
Proof.
  unfold str_eqb. induction a as [|x a IH]; intros [|y b] H; try discriminate; [reflexivity|].
  cbn in H. apply andb_true_iff in H. destruct H as [H1 H2]. apply N.eqb_eq in H1. rewrite (IH b H2). congruence.
Qed.

Lemma position_existsb {A} (p : A -> bool) : forall l, existsb p l = true -> exists i, position p l = Some i.
Proof.
  induction l as [|x l IH]; intros H; [discriminate|]. cbn [existsb] in H. cbn [position].
  destruct (p x); [eauto|]. cbn [orb] in H. destruct (IH H) as [i Hi]. rewrite Hi. cbn. eauto.
Qed.

Lemma existsb_remove_first old new : forall l, str_eqb old new = false ->
  existsb (has_name old) l = true -> existsb (has_name old) (remove_first new l) = true.
Proof.
  induction l as [|x l IH]; intros Hne H; [discriminate|]. cbn [remove_first].
  cbn [existsb] in H. destruct (has_name new x) eqn:En.
  - destruct (has_name old x) eqn:Eo; [|exact H].
    unfold has_name in *. apply str_eqb_eq in En. apply str_eqb_eq in Eo.
    rewrite <- Eo, En in Hne. rewrite str_eqb_refl in Hne. discriminate.
  - cbn [existsb]. destruct (has_name old x); [reflexivity|]. cbn [orb] in *. apply IH; assumption.
Qed.

Lemma existsb_lc_remove old new s : str_eqb old new = false ->
  existsb (has_name old) s = true -> existsb (has_name old) (lc_remove new s) = true.
Proof.
  intros Hne H. destruct s as [|d r]; [discriminate|]. cbn [lc_remove existsb] in *.
  destruct (has_name old d); [reflexivity|]. cbn [orb] in *. apply existsb_remove_first; assumption.
Qed.

Section L.
  Variable name_ok : str -> bool.
  Variable fresh_dir : str -> lc -> str.

  (** rename_layer never panics, in any state (not even on an empty layer list: the look-up of
      [old] fails first), whatever the names: no uniqueness of layer names is needed *)
  Theorem rename_layer_no_panic s old new ow site :
    rename_layer name_ok fresh_dir s old new ow <> Panic site.
  Proof.
    unfold rename_layer.
    destruct (negb ow && existsb (has_name new) s); [discriminate|].
    destruct (existsb (has_name old) s) eqn:Eo; cbn [negb]; [|discriminate].
    destruct s as [|l0 r]; [discriminate|]. cbn [layer0 bind].
    destruct (str_eqb new DEFAULT_LAYER_NAME && negb (has_name old l0)); [discriminate|].
    destruct (str_eqb old new) eqn:En; [discriminate|].
    destruct (has_name new l0); [discriminate|].
    destruct (negb (name_ok new)); [discriminate|].
    set (s1 := if ow then lc_remove new (l0 :: r) else l0 :: r).
    assert (H1 : existsb (has_name old) s1 = true).
    { unfold s1. destruct ow; [apply existsb_lc_remove; assumption|assumption]. }
    destruct (position_existsb _ _ H1) as [i Hi]. rewrite Hi. destruct i; discriminate.
  Qed.

  Lemma set_nth_inv i f s : (i <> O \/ forall l, lpath (f l) = lpath l) -> lc_inv s -> lc_inv (set_nth i f s).
  Proof.
    intros Hf [d [r [Hs Hd]]]. subst s. destruct i as [|j]; cbn [set_nth].
    - exists (f d), r. split; [reflexivity|]. destruct Hf as [Hf|Hf]; [congruence|].
      unfold is_default in *. rewrite Hf. exact Hd.
    - exists d, (set_nth j f r). split; [reflexivity|exact Hd].
  Qed.

  Lemma lc_remove_inv n s : lc_inv s -> lc_inv (lc_remove n s).
  Proof. intros [d [r [Hs Hd]]]. subst s. cbn [lc_remove]. exists d, (remove_first n r). auto. Qed.

  Lemma new_layer_inv s n s' : lc_inv s -> new_layer name_ok fresh_dir s n = Ok s' -> lc_inv s'.
  Proof.
    intros [d [r [Hs Hd]]]. subst s. unfold new_layer.
    destruct (str_eqb n DEFAULT_LAYER_NAME); [discriminate|].
    destruct (existsb (has_name n) (d :: r)); [discriminate|].
    destruct (negb (name_ok n)); [discriminate|]. cbn [app].
    intros H. assert (E : s' = d :: r ++ [{| lname := n; lpath := fresh_dir n (d :: r) |}]) by congruence.
    subst s'. exists d, (r ++ [{| lname := n; lpath := fresh_dir n (d :: r) |}]). auto.
  Qed.
  Lemma new_layer_no_panic s n site : new_layer name_ok fresh_dir s n <> Panic site.
  Proof.
    unfold new_layer. destruct (str_eqb n DEFAULT_LAYER_NAME); [discriminate|].
    destruct (existsb (has_name n) s); [discriminate|]. destruct (negb (name_ok n)); [discriminate|].
    destruct s; cbn [app]; discriminate.
  Qed.

  Lemma rename_layer_inv s a b ow s' : lc_inv s -> rename_layer name_ok fresh_dir s a b ow = Ok s' -> lc_inv s'.
  Proof.
    intros Hi. unfold rename_layer.
    destruct (negb ow && existsb (has_name b) s); [discriminate|].
    destruct (negb (existsb (has_name a) s)); [discriminate|].
    destruct Hi as [d [r [Hs Hd]]]. subst s. cbn [layer0 bind].
    destruct (str_eqb b DEFAULT_LAYER_NAME && negb (has_name a d)); [discriminate|].
    destruct (str_eqb a b).
    { intros H. assert (s' = d :: r) by congruence. subst. exists d, r. auto. }
    destruct (has_name b d); [discriminate|]. destruct (negb (name_ok b)); [discriminate|].
    set (s1 := if ow then lc_remove b (d :: r) else d :: r).
    assert (I1 : lc_inv s1).
    { unfold s1. destruct ow; [apply lc_remove_inv|]; exists d, r; auto. }
    destruct (position (has_name a) s1) as [[|p]|]; [| |discriminate]; intros H.
    - assert (E : s' = set_nth 0 (fun l => {| lname := b; lpath := lpath l |}) s1) by congruence. subst s'.
      apply set_nth_inv; [right; reflexivity|exact I1].
    - assert (E : s' = set_nth (S p) (fun l => {| lname := b; lpath := fresh_dir b s1 |}) s1) by congruence. subst s'.
      apply set_nth_inv; [left; discriminate|exact I1].
  Qed.

  Lemma lstep_inv s o s' : no_assign o -> lc_inv s -> lstep name_ok fresh_dir s o = Ok s' -> lc_inv s'.
  Proof.
    intros Hn Hi. destruct o; cbn [lstep]; try contradiction.
    - destruct (new_layer name_ok fresh_dir s n) eqn:E; try discriminate.
      + intros H. assert (a = s') by congruence. subst. eapply new_layer_inv; eauto.
      + intros H. assert (s = s') by congruence. subst. exact Hi.
    - intros H. assert (E : s' = lc_remove n s) by congruence. subst. apply lc_remove_inv. exact Hi.
    - destruct (rename_layer name_ok fresh_dir s old new ow) eqn:E; try discriminate.
      + intros H. assert (a = s') by congruence. subst. eapply rename_layer_inv; eauto.
      + intros H. assert (s = s') by congruence. subst. exact Hi.
    - destruct (position (has_name n) s) as [i|].
      + destruct (nth_error s i); [|discriminate]. intros H. assert (s = s') by congruence. subst. exact Hi.
      + destruct (new_layer name_ok fresh_dir s n) eqn:E; try discriminate.
        * intros H. assert (a = s') by congruence. subst. eapply new_layer_inv; eauto.
        * intros H. assert (s = s') by congruence. subst. exact Hi.
    - intros H. assert (E : s' = filter (fun l => is_default l || p l) s) by congruence. subst.
      destruct Hi as [d [r [Hs Hd]]]. subst s. cbn [filter]. rewrite Hd. cbn [orb].
      exists d, (filter (fun l => is_default l || p l) r). auto.
    - destruct Hi as [d [r [Hs Hd]]]. subst s. cbn [layer0 bind]. intros H.
      assert (d :: r = s') by congruence. subst. exists d, r. auto.
  Qed.

  Lemma lstep_no_panic s o site : no_assign o -> lc_inv s -> lstep name_ok fresh_dir s o <> Panic site.
  Proof.
    intros Hn Hi. destruct o; cbn [lstep]; try contradiction.
    - pose proof (new_layer_no_panic s n site). destruct (new_layer name_ok fresh_dir s n); congruence.
    - discriminate.
    - pose proof (rename_layer_no_panic s old new ow site).
      destruct (rename_layer name_ok fresh_dir s old new ow); congruence.
    - destruct (position (has_name n) s) as [i|] eqn:E.
      + apply position_lt in E. destruct (nth_error s i) eqn:E2; [discriminate|].
        apply nth_error_None in E2. lia.
      + pose proof (new_layer_no_panic s n site). destruct (new_layer name_ok fresh_dir s n); congruence.
    - discriminate.
    - destruct Hi as [d [r [Hs Hd]]]. subst s. discriminate.
  Qed.

  (** no layer / glyph / store operation of the API (whole-value assignment through a [&mut Layer]
      excepted) can make [layers[0]], the position-unwrap or [last_mut().unwrap()] panic *)
  Theorem lrun_no_panic : forall ops s site, Forall (@no_assign) ops -> lc_inv s ->
    lrun name_ok fresh_dir s ops <> Panic site.
  Proof.
    induction ops as [|o r IH]; intros s site Hf Hi; [discriminate|].
    inversion Hf as [|? ? Ho Hr]; subst. cbn [lrun].
    destruct (lstep name_ok fresh_dir s o) eqn:E; cbn [bind].
    - apply IH; [assumption|]. eapply lstep_inv; eauto.
    - discriminate.
    - exfalso. eapply lstep_no_panic; eauto.
  Qed.
End L.

Lemma lc_default_inv : lc_inv lc_default.
Proof. eexists _, []. split; [reflexivity|]. reflexivity. Qed.

(** ... and with it, it can: the default slot overwritten by a non-default layer, then retain *)
Theorem lrun_assign_refuted : exists ops,
  lrun (fun _ => true) (fun n _ => [103;46] ++ n) lc_default ops = Panic SITE_INDEX.
Proof.
  exists [LNew [120]; LAssign 0 {| lname := [120]; lpath := [103;46;120] |}; LRetain (fun _ => false); LDefaultLayer].
  vm_compute. reflexivity.
Qed.

(* ========================================================================================== *)

(* ================= Layer: glyph map / contents index ================= *)
Lemma smem_sadd n m l : smem n (sadd m l) = str_eqb n m || smem n l.
Proof.
  unfold sadd. destruct (smem m l) eqn:E.
  - destruct (str_eqb n m) eqn:E2; [|reflexivity]. apply str_eqb_eq in E2. subst. rewrite E. reflexivity.
  - reflexivity.
Qed.
Lemma smem_filter n p l : smem n (filter p l) = true -> smem n l = true.
Proof.
  unfold smem. induction l as [|x l IH]; [discriminate|]. cbn [filter]. destruct (p x); cbn [existsb].
  - destruct (str_eqb n x); [reflexivity|]. exact IH.
  - intros H. rewrite (IH H). apply orb_true_r.
Qed.
Lemma smem_sdel n m l : smem n (sdel m l) = smem n l && negb (str_eqb m n).
Proof.
  unfold smem, sdel. induction l as [|x l IH]; [reflexivity|]. cbn [filter existsb].
  destruct (str_eqb m x) eqn:E; cbn [negb existsb].
  - rewrite IH. apply str_eqb_eq in E. subst x. destruct (str_eqb n m) eqn:E2.
    + apply str_eqb_eq in E2. subst. rewrite str_eqb_refl. cbn. rewrite andb_false_r. reflexivity.
    + reflexivity.
  - rewrite IH. destruct (str_eqb n x) eqn:E2; [|reflexivity]. apply str_eqb_eq in E2. subst x.
    rewrite E. reflexivity.
Qed.

Section G.
  Variable name_ok : str -> bool.

  Lemma insert_inv s n : lay_inv s -> lay_inv (insert_glyph s n).
  Proof.
    unfold lay_inv, insert_glyph. cbn [glyphs contents]. intros H m. rewrite !smem_sadd. intros E.
    apply orb_true_iff in E. destruct E as [E|E]; [rewrite E; reflexivity|]. rewrite (H m E). apply orb_true_r.
  Qed.
  Lemma remove_inv s n : lay_inv s -> lay_inv (fst (remove_glyph s n)).
  Proof.
    unfold lay_inv, remove_glyph. cbn [glyphs contents fst]. intros H m. rewrite !smem_sdel. intros E.
    apply andb_true_iff in E. destruct E as [E1 E2]. rewrite (H m E1), E2. reflexivity.
  Qed.

  (** rename_glyph's [remove_glyph(old).unwrap()] cannot fail, in any state *)
  Theorem rename_glyph_no_panic s a b ow site : rename_glyph name_ok s a b ow <> Panic site.
  Proof.
    unfold rename_glyph. destruct (negb ow && smem b (glyphs s)); [discriminate|].
    destruct (smem a (glyphs s)) eqn:E; cbn [negb]; [|discriminate].
    destruct (negb (name_ok b)); [discriminate|]. unfold remove_glyph. rewrite E. discriminate.
  Qed.

  Lemma gstep_inv s o s' : no_entry_remove o -> lay_inv s -> gstep name_ok s o = Ok s' -> lay_inv s'.
  Proof.
    intros Hn Hi. destruct o; cbn [gstep]; try contradiction; intros H.
    - assert (E : s' = insert_glyph s n) by congruence. subst. apply insert_inv. exact Hi.
    - assert (E : s' = fst (remove_glyph s n)) by congruence. subst. apply remove_inv. exact Hi.
    - unfold rename_glyph in H.
      destruct (negb ow && smem new (glyphs s)). { assert (s = s') by congruence. subst. exact Hi. }
      destruct (negb (smem old (glyphs s))). { assert (s = s') by congruence. subst. exact Hi. }
      destruct (negb (name_ok new)). { assert (s = s') by congruence. subst. exact Hi. }
      destruct (remove_glyph s old) as [s1 found] eqn:E. destruct found; [|discriminate].
      assert (E2 : s' = insert_glyph s1 new) by congruence. subst. apply insert_inv.
      replace s1 with (fst (remove_glyph s old)) by (rewrite E; reflexivity). apply remove_inv. exact Hi.
    - assert (E : s' = {| glyphs := []; contents := [] |}) by congruence. subst. intros m. cbn. discriminate.
    - assert (E : s' = {| glyphs := filter p (glyphs s); contents := filter (fun n => smem n (filter p (glyphs s))) (contents s) |}) by congruence.
      subst. intros m. cbn [glyphs contents]. unfold smem at 1. intros Hm.
      apply existsb_exists in Hm. destruct Hm as [x [Hx Hm]]. apply filter_In in Hx. destruct Hx as [_ Hx].
      apply str_eqb_eq in Hm. subst x. exact Hx.
    - assert (E : s' = {| glyphs := sadd n (glyphs s); contents := contents s |}) by congruence. subst.
      intros m. cbn [glyphs contents]. intros Hm. rewrite smem_sadd, (Hi m Hm). apply orb_true_r.
  Qed.

  Lemma lay_save_ok s : lay_inv s -> lay_save s = Ok tt.
  Proof.
    intros Hi. unfold lay_save. replace (forallb (fun n => smem n (glyphs s)) (contents s)) with true; [reflexivity|].
    symmetry. apply forallb_forall. intros x Hx. apply Hi. unfold smem. apply existsb_exists. exists x.
    split; [exact Hx|apply str_eqb_refl].
  Qed.

  (** Layer::save's expect holds after every history of glyph operations that does not remove a
      glyph through the raw map entry *)
  Theorem grun_save_no_panic : forall ops s, Forall no_entry_remove ops -> lay_inv s ->
    forall site, bind (grun name_ok s ops) lay_save <> Panic site.
  Proof.
    induction ops as [|o r IH]; intros s Hf Hi site.
    - cbn. rewrite lay_save_ok by assumption. discriminate.
    - inversion Hf as [|? ? Ho Hr]; subst. cbn [grun].
      destruct (gstep name_ok s o) eqn:E; cbn [bind].
      + apply IH; [assumption|]. eapply gstep_inv; eauto.
      + discriminate.
      + exfalso. destruct o; cbn [gstep] in E; try discriminate.
        pose proof (rename_glyph_no_panic s old new ow site0).
        destruct (rename_glyph name_ok s old new ow); congruence.
  Qed.
End G.

Lemma lay_loaded_inv keys : lay_inv (lay_loaded keys).
Proof. intros n H. exact H. Qed.
Lemma lay_empty_inv : lay_inv {| glyphs := []; contents := [] |}.
Proof. intros n H. exact H. Qed.

Theorem grun_entry_remove_refuted : exists ops,
  bind (grun (fun _ => true) {| glyphs := []; contents := [] |} ops) lay_save = Panic SITE_UNWRAP.
Proof. exists [GInsert [97]; GEntryRemove [97]]. vm_compute. reflexivity. Qed.

(* ================= stores ================= *)
Section S.
  Variable read : N -> N + N.

  Lemma force_loaded c : snd (force read c) <> NotLoaded.
  Proof.
    unfold force. destruct c as [k it]. cbn. destruct it; cbn; try discriminate.
    unfold load_item. destruct (read k); discriminate.
  Qed.
  Lemma force_idem c : force read (force read c) = force read c.
  Proof.
    pose proof (force_loaded c) as H. unfold force at 1. destruct (snd (force read c)); [congruence|reflexivity|reflexivity].
  Qed.

  (** Store::get's [unreachable!()] *)
  Theorem get_cell_no_panic c site : snd (get_cell read c) <> Panic site.
  Proof.
    unfold get_cell. cbn. pose proof (force_loaded c). destruct (snd (force read c)); [congruence|discriminate|discriminate].
  Qed.

  Lemma get_cell_ok c : exists v, snd (get_cell read c) = Ok v.
  Proof.
    unfold get_cell. cbn. pose proof (force_loaded c). destruct (snd (force read c)); [congruence|eauto|eauto].
  Qed.

  Lemma find_none_all {A} (p : A -> bool) l : find p l = None -> forall x, In x l -> p x = false.
  Proof. intros H x Hx. eapply find_none; eauto. Qed.

  (** Font::save_impl: after the pre-check found no error, both [expect]s succeed *)
  Theorem save_stores_no_panic s site : save_stores read s <> Panic site.
  Proof.
    unfold save_stores, iter_store.
    destruct (find (is_err) (map (fun c => snd (get_cell read c)) s)) as [r|] eqn:E.
    - apply find_some in E. destruct E as [Hin He]. apply in_map_iff in Hin. destruct Hin as [c [Hc _]].
      destruct (get_cell_ok c) as [v Hv]. rewrite Hv in Hc. subst r.
      destruct v as [d|e]; [discriminate He|discriminate].
    - pose proof (find_none_all _ _ E) as Hall. clear E.
      induction s as [|c s IH]; [cbn; discriminate|].
      cbn [map fold_right].
      assert (Hrest : forall x, In x (map (fun c0 => snd (get_cell read c0)) s) -> is_err x = false).
      { intros x Hx. apply Hall. cbn [map]. right. exact Hx. }
      specialize (IH Hrest).
      destruct (fold_right _ _ _) as [l| |] eqn:EF; cbn [bind]; try congruence.
      assert (Hc : is_err (snd (get_cell read c)) = false) by (apply Hall; cbn [map]; left; reflexivity).
      unfold get_cell in *. cbn [fst snd] in *. rewrite force_idem.
      destruct (snd (force read c)); cbn in Hc; try discriminate.
  Qed.
End S.

(* ================= paths ================= *)
Theorem data_destination_parent_ok data_dir k : key_ok k = true ->
  exists p, data_destination_parent data_dir k = Ok p.
Proof.
  unfold key_ok, data_destination_parent, parent, join. intros H. apply andb_true_iff in H. destruct H as [H1 H2].
  destruct k as [|c k]; [discriminate|]. clear H1.
  assert (Hl : exists x r, rev (data_dir ++ c :: k) = x :: r /\ is_normal x = true).
  { rewrite rev_app_distr. destruct (rev (c :: k)) as [|x r] eqn:E.
    - apply (f_equal (@length comp)) in E. rewrite rev_length in E. discriminate.
    - exists x, (r ++ rev data_dir). split; [reflexivity|].
      assert (In x (c :: k)) by (apply in_rev; rewrite E; left; reflexivity).
      rewrite forallb_forall in H2. auto. }
  destruct Hl as [x [r [E Hn]]]. rewrite E. destruct x; try discriminate. eauto.
Qed.

Theorem layer_dir_name_ok base dir n : (exists pre, dir = pre ++ [Normal n]) ->
  layer_dir_name base dir = Ok n.
Proof.
  intros [pre ->]. unfold layer_dir_name, file_name, join. rewrite app_assoc, rev_app_distr. reflexivity.
Qed.
Theorem layer_dir_name_refuted : exists base dir, layer_dir_name base dir = Panic SITE_UNWRAP.
Proof. exists [Normal 1], [ParentDir]. reflexivity. Qed.

Lemma strip_prefix_app root : forall rest, strip_prefix root (root ++ rest) = Some rest.
Proof.
  induction root as [|c r IH]; intros rest; [reflexivity|].
  cbn [app strip_prefix]. destruct c; try apply IH. rewrite N.eqb_refl. apply IH.
Qed.

Section W.
  Variable ls : path -> list (N * N).
  (** the directory walk: every queued directory lies under the root, so [strip_prefix(..).unwrap()]
      cannot fail, whatever the file system contains *)
  Theorem walk_no_panic : forall fuel root queue acc site,
    Forall (fun d => exists rest, d = root ++ rest) queue ->
    walk ls fuel root queue acc <> Panic site.
  Proof.
    induction fuel as [|f IH]; intros root queue acc site Hq; [discriminate|].
    cbn [walk]. destruct queue as [|d q]; [discriminate|].
    inversion Hq as [|? ? [rest Hd] Hq']; subst.
    match goal with |- context [(?F : list (N * N) -> _) (ls (root ++ rest)) q acc] => set (step := F) end.
    assert (Hstep : forall es q0 acc0, Forall (fun d => exists rest, d = root ++ rest) q0 ->
              (forall site', step es q0 acc0 <> Panic site') /\
              (forall q1 acc1, step es q0 acc0 = Ok (q1, acc1) -> Forall (fun d => exists rest, d = root ++ rest) q1)).
    { induction es as [|[name kind] es IHes]; intros q0 acc0 H0.
      - split; [discriminate|]. intros q1 acc1 H. cbn in H. assert (q1 = q0) by congruence. subst. exact H0.
      - cbn. unfold join. rewrite <- app_assoc, strip_prefix_app.
        destruct (kind =? 0).
        + apply IHes. exact H0.
        + destruct (kind =? 1).
          * apply IHes. constructor; [|exact H0]. exists (rest ++ [Normal name]). first [reflexivity | apply app_assoc | symmetry; apply app_assoc].
          * split; [discriminate|discriminate]. }
    destruct (Hstep (ls (root ++ rest)) q acc Hq') as [Hnp Hinv].
    destruct (step (ls (root ++ rest)) q acc) as [[q1 acc1]| |] eqn:E.
    - apply IH. eapply Hinv. reflexivity.
    - discriminate.
    - exfalso. eapply Hnp. reflexivity.
  Qed.
End W.

(* ================= object libs ================= *)
Definition obj_inv (o : obj) : Prop := olib o <> None -> oid o <> None.
Lemma onew_inv id : obj_inv (onew id).
Proof. intros H. cbn in H. congruence. Qed.
Lemma ostep_inv o p : obj_inv o -> obj_inv (ostep o p).
Proof.
  unfold obj_inv. destruct p; cbn.
  - intros _ _. destruct (oid o); discriminate.
  - intros _ H. congruence.
  - intros _ _. discriminate.
  - destruct (oid o) eqn:E; cbn; [intros _ _; try rewrite E; discriminate|rewrite ?E; auto].
Qed.
(** dump_object_libs' [id.unwrap()] for every object reachable through the constructors and
    the lib / identifier methods *)
Theorem odump_no_panic id ops site : odump (fold_left ostep ops (onew id)) <> Panic site.
Proof.
  assert (H : obj_inv (fold_left ostep ops (onew id))).
  { generalize (onew_inv id). generalize (onew id). induction ops as [|p r IH]; intros o Ho; [exact Ho|].
    cbn. apply IH. apply ostep_inv. exact Ho. }
  unfold odump. destruct (olib _) eqn:E; [|discriminate].
  destruct (oid _) eqn:E2; [discriminate|]. exfalso. apply H; congruence.
Qed.

(* ========================================================================================== *)
Open Scope N_scope.

Definition clean (s : str) : bool := forallb (fun c => negb (is_ctrl c)) s.

Lemma clean_app a b : clean (a ++ b) = clean a && clean b.
Proof. unfold clean. apply forallb_app. Qed.
Lemma clean_skipn n : forall s, clean s = true -> clean (skipn n s) = true.
Proof.
  induction n as [|n IH]; intros s H; [exact H|]. destruct s as [|c s]; [exact H|].
  cbn [skipn]. apply IH. unfold clean in *. cbn [forallb] in H. apply andb_true_iff in H. tauto.
Qed.
Lemma remove_all_clean pat : forall fuel s, clean s = true -> clean (remove_all fuel pat s) = true.
Proof.
  induction fuel as [|f IH]; intros s H; [exact H|]. cbn [remove_all].
  destruct s as [|c r]; [reflexivity|].
  destruct (prefixb pat (c :: r)).
  - apply IH. apply clean_skipn. exact H.
  - unfold clean in *. cbn [forallb] in *. apply andb_true_iff in H. destruct H as [H1 H2].
    rewrite H1. cbn [andb]. apply IH. exact H2.
Qed.

(** [Name::new(&format!("public.kern1.{}", first.replace("@MMK_L_", ""))).unwrap()]: a non-empty
    clean literal followed by what is left of a valid name *)
Theorem new_name_prefixed_ok prefix pat first fuel :
  name_valid prefix = true -> name_valid first = true ->
  new_name (prefix ++ remove_all fuel pat first) = Ok (prefix ++ remove_all fuel pat first).
Proof.
  unfold new_name, name_valid. intros Hp Hf.
  apply andb_true_iff in Hp. destruct Hp as [Hp1 Hp2]. apply andb_true_iff in Hf. destruct Hf as [_ Hf2].
  fold (clean prefix) in Hp2. fold (clean first) in Hf2. fold (clean (prefix ++ remove_all fuel pat first)).
  rewrite clean_app, Hp2, remove_all_clean by assumption.
  destruct prefix; [discriminate|]. reflexivity.
Qed.

(** [groups_new.get(first).unwrap()]: [groups_new] only grows *)
Theorem upconv_side_no_panic mk : forall firsts groups_new site,
  (forall f, In f firsts -> smem f groups_new = true) ->
  upconv_side mk firsts groups_new <> Panic site.
Proof.
  induction firsts as [|f r IH]; intros g site H; [discriminate|].
  cbn [upconv_side]. rewrite (H f) by (left; reflexivity).
  apply IH. intros x Hx. unfold smem. cbn [existsb]. fold (smem x g). rewrite (H x) by (right; exact Hx).
  apply orb_true_r.
Qed.

Section Q.
  Variable render : N -> str.
  Hypothesis render_inj : forall a b, render a = render b -> a = b.
  Hypothesis render_clean : forall a, clean (render a) = true.

  Lemma smem_In n l : smem n l = true <-> In n l.
  Proof.
    unfold smem. rewrite existsb_exists. split.
    - intros [x [Hx E]]. apply str_eqb_eq in E. subst. exact Hx.
    - intros H. exists n. split; [exact H|apply str_eqb_refl].
  Qed.

  (** candidates [name ++ render c], [c = from .. from+k-1] *)
  Definition cands (name : str) (from : N) (k : nat) : list str :=
    map (fun i => name ++ render (from + N.of_nat i)) (seq 0 k).

  Lemma cands_nodup name from k : NoDup (cands name from k).
  Proof.
    unfold cands. apply FinFun.Injective_map_NoDup; [|apply seq_NoDup].
    intros a b H. apply app_inv_head in H. apply render_inj in H. lia.
  Qed.

  (** pigeonhole: among [length existing + 1] distinct candidates one is not taken *)
  Lemma some_free name from existing :
    exists i, (i <= length existing)%nat /\ smem (name ++ render (from + N.of_nat i)) existing = false.
  Proof.
    destruct (forallb (fun c => smem c existing) (cands name from (S (length existing)))) eqn:E.
    - exfalso. rewrite forallb_forall in E.
      assert (Hincl : incl (cands name from (S (length existing))) existing).
      { intros x Hx. apply smem_In. apply E. exact Hx. }
      pose proof (NoDup_incl_length (cands_nodup name from (S (length existing))) Hincl) as HL.
      unfold cands in HL. rewrite map_length, seq_length in HL. lia.
    - assert (Hex : exists x, In x (cands name from (S (length existing))) /\ smem x existing = false).
      { clear -E. induction (cands name from (S (length existing))) as [|x l IH]; [discriminate|].
        cbn [forallb] in E. destruct (smem x existing) eqn:Ex.
        - cbn [andb] in E. destruct (IH E) as [y [Hy1 Hy2]]. exists y. split; [right; exact Hy1|exact Hy2].
        - exists x. split; [left; reflexivity|exact Ex]. }
      destruct Hex as [x [Hx1 Hx2]]. unfold cands in Hx1. apply in_map_iff in Hx1.
      destruct Hx1 as [i [Hi1 Hi2]]. apply in_seq in Hi2. exists i. split; [lia|]. rewrite Hi1. exact Hx2.
  Qed.

  Lemma unique_loop_ok name existing : name_valid name = true ->
    forall fuel cur counter site,
    (exists i, (i < fuel)%nat /\ smem (name ++ render (counter + N.of_nat i)) existing = false) ->
    unique_loop render fuel name existing cur counter <> Panic site.
  Proof.
    intros Hn. induction fuel as [|f IH]; intros cur counter site [i [Hi Hfree]]; [lia|].
    cbn [unique_loop]. destruct (smem cur existing); cbn [negb]; [|discriminate].
    assert (Hv : new_name (name ++ render counter) = Ok (name ++ render counter)).
    { unfold new_name, name_valid in *. apply andb_true_iff in Hn. destruct Hn as [Hn1 Hn2].
      fold (clean name) in Hn2. fold (clean (name ++ render counter)).
      rewrite clean_app, Hn2, render_clean. destruct name; [discriminate|]. reflexivity. }
    rewrite Hv. cbn [bind].
    destruct i as [|j].
    - (* the next candidate itself is free: the recursive call returns at once *)
      replace (counter + N.of_nat 0) with counter in Hfree by lia.
      destruct f; cbn [unique_loop]; rewrite Hfree; discriminate.
    - apply IH. exists j. split; [lia|]. replace (counter + 1 + N.of_nat j) with (counter + N.of_nat (S j)) by lia. exact Hfree.
  Qed.

  (** make_unique_group_name terminates (fuel [len+1] is never exhausted) and its [unwrap] holds *)
  Theorem make_unique_no_panic name existing site : name_valid name = true ->
    make_unique render name existing <> Panic site.
  Proof.
    intros Hn. unfold make_unique. apply unique_loop_ok; [exact Hn|].
    destruct (some_free name 1 existing) as [i [Hi Hf]]. exists i. split; [lia|exact Hf].
  Qed.
End Q.

(* ========================================================================================== *)
(** Image: the constructor does not look at the encoding of the file name *)
Theorem image_non_utf8_refuted : exists p, image_new p = Ok p /\ image_to_event p = Panic SITE_UNWRAP.
Proof.
  exists {| os_utf8 := false; os_empty := false; os_absolute := false; os_has_parent := false |}.
  split; reflexivity.
Qed.
Theorem image_utf8_ok p site : os_utf8 p = true -> image_to_event p <> Panic site.
Proof. unfold image_to_event. intros ->. discriminate. Qed.

Definition C03_full_stmt : Prop :=
  (forall name_ok fresh ops s site, lc_inv s -> lrun name_ok fresh s ops <> Panic site) /\
  (forall name_ok ops s site, lay_inv s -> bind (grun name_ok s ops) lay_save <> Panic site) /\
  (forall base dir site, layer_dir_name base dir <> Panic site) /\
  (forall p site, image_new p = Ok p -> image_to_event p <> Panic site).
Theorem C03_full_refuted : ~ C03_full_stmt.
Proof.
  intros [_ [_ [H _]]]. destruct layer_dir_name_refuted as [b [d E]]. exact (H b d _ E).
Qed.
