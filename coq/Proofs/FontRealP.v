(** The laws of the signature for the real part models (Model/FontReal.v). *)
Require Import Norad.Model.GlifSpec Norad.Model.GlifDen Norad.Model.GlifEncode.
Require Import Norad.Proofs.GlifParseP Norad.Proofs.GlifEncodeP Norad.Proofs.GlifRoundtripP.
Require Import Norad.Model.FontRT Norad.Model.FontRealInfo Norad.Model.FontReal Norad.Proofs.FontRTP
               Norad.Proofs.FontRealInfoP.
Open Scope N_scope.

Section RealP.
Variable pf : str -> option fl.
Variables ff ff3 : fl -> str.
Variable fi : Z -> str.
Variable fh : N -> str.
Variable B : sig.
Variable PG : part (T_content B) (T_opts B) GR.groups.
Variable PK : part (T_content B) (T_opts B) GR.kerning.
Hypothesis L1 : L1_glif pf ff ff3 fh.

Local Notation close3 := (fun x y : fl => pf (chan ff3 x) = Some y).

Lemma lift_ok {X} (p : part (T_content B) (T_opts B) X) : part_ok p -> part_ok (lift B p).
Proof.
  intros [R Sy T RT OI]. constructor; simpl; auto.
  - intros o x Hw. destruct (RT (snd o) x Hw) as [c [x' [H1 [H2 H3]]]].
    exists (RBase B c), x'. rewrite H1. simpl. auto.
  - intros o1 o2 x c1 c2 Hw H1 H2.
    destruct (enc p (snd o1) x) as [a|] eqn:E1; simpl in H1; [|discriminate].
    destruct (enc p (snd o2) x) as [b|] eqn:E2; simpl in H2; [|discriminate].
    inversion H1; inversion H2; subst. simpl. eapply OI; eauto.
Qed.

Lemma Forall2_eq_in {A} (R : A -> A -> Prop) l l' :
  Forall2 R l l' -> (forall a a', In a l -> R a a' -> a' = a) -> l' = l.
Proof.
  intros F. induction F as [|a a' l l' H F IH]; intros Hx; [reflexivity|].
  rewrite (Hx a a' (or_introl eq_refl) H). f_equal. apply IH. intros; apply Hx; simpl; auto.
Qed.

Lemma color_fixed_eq : forall c c', color_fixed pf ff3 c -> color_close close3 c c' -> c' = c.
Proof.
  intros [[[r g] b] a] [[[r' g'] b'] a'] (H1 & H2 & H3 & H4) (C1 & C2 & C3 & C4).
  unfold chan_fixed in *. congruence.
Qed.
Lemma ocolor_fixed_eq : forall c c', ocolor_fixed pf ff3 c -> ocolor_close close3 c c' -> c' = c.
Proof.
  intros [c|] [c'|]; simpl; intros H1 H2; try tauto.
  destruct H2 as [H2 _]. f_equal. apply color_fixed_eq; assumption.
Qed.

Lemma point_written_id : forall p, plib p = None -> point_written p = p.
Proof. intros [x y t s n i l] H. simpl in H. subst. reflexivity. Qed.
Lemma contour_written_id : forall c,
  clib c = None /\ Forall (fun p => plib p = None) (cpoints c) -> contour_written c = c.
Proof.
  intros [ps i l] [H1 H2]. simpl in *. subst. unfold contour_written. simpl. f_equal.
  induction H2 as [|p ps Hp F IH]; [reflexivity|]. simpl. rewrite point_written_id by assumption. f_equal. exact IH.
Qed.
Lemma map_id_in {A} (f : A -> A) l : (forall a, In a l -> f a = a) -> map f l = l.
Proof. induction l; simpl; intros H; [reflexivity|]. rewrite H by auto. f_equal. auto. Qed.

(** the real glif codec: exact round trip on [wf_glyph] *)
Lemma glif_rt : forall o g, wf_glyph pf ff3 g ->
  exists c g', enc (P_glif_real pf ff ff3 fi fh B) o g = Some c /\
               dec (P_glif_real pf ff ff3 fi fh B) c = Some g' /\ g = g'.
Proof.
  intros o g (GR & GF & LF & NS & CW & CH & CI & CG & CA & CK).
  destruct L1 as (H_ff & H_ff3 & H_fh).
  destruct (roundtrip_libfree pf ff ff3 fi fh (fst o) close3 H_ff) with (g := g)
    as (t & g' & E1 & E2 & R1 & R2 & R3 & R4 & R5 & R6 & R7 & R8 & R9 & R10 & R11); auto.
  { intros x Hx. destruct (H_ff3 x Hx) as [A [y [Hy Hu]]]. split; [exact A|]. exists y. auto. }
  simpl. rewrite E1. eexists. exists g'. split; [reflexivity|]. simpl. rewrite E2. split; [reflexivity|].
  pose proof LF as (LB & LA & LG & LC & LK).
  destruct g as [n w h cps note img gs as_ ks cs lib]. destruct g' as [n' w' h' cps' note' img' gs' as' ks' cs' lib'].
  simpl in *. subst. f_equal.
  - symmetry. exact CW.
  - symmetry. exact CH.
  - destruct img as [i|]; destruct img' as [i'|]; simpl in R6; try tauto.
    destruct R6 as (I1 & I2 & I3). destruct CI as [CI1 CI2].
    destruct i as [f c tr]. destruct i' as [f' c' tr']. simpl in *. subst. f_equal. f_equal.
    + symmetry. apply ocolor_fixed_eq; assumption.
    + symmetry. exact CI1.
  - symmetry. apply (Forall2_eq_in _ _ _ R7). intros a a' Ha (G1 & G2 & G3 & G4 & G5).
    rewrite Forall_forall in CG, LG. specialize (CG a Ha). specialize (LG a Ha). simpl in *.
    destruct a as [l nm c i lb]. destruct a' as [l' nm' c' i' lb']. simpl in *. subst. f_equal.
    apply ocolor_fixed_eq; assumption.
  - symmetry. apply (Forall2_eq_in _ _ _ R8). intros a a' Ha (A1 & A2 & A3 & A4 & A5 & A6).
    rewrite Forall_forall in CA, LA. specialize (CA a Ha). specialize (LA a Ha). simpl in *.
    destruct a as [x y nm c i lb]. destruct a' as [x' y' nm' c' i' lb']. simpl in *. subst. f_equal.
    apply ocolor_fixed_eq; assumption.
  - symmetry. apply map_id_in. intros c Hc. rewrite Forall_forall in CK, LK.
    specialize (CK c Hc). specialize (LK c Hc). destruct c as [b tr i lb]. unfold comp_written. simpl in *.
    subst. rewrite CK. reflexivity.
  - symmetry. apply map_id_in. intros c Hc. rewrite Forall_forall in LC. apply contour_written_id. apply LC. exact Hc.
Qed.

Lemma glif_opts : forall o1 o2 g c1 c2, wf_glyph pf ff3 g ->
  enc (P_glif_real pf ff ff3 fi fh B) o1 g = Some c1 -> enc (P_glif_real pf ff ff3 fi fh B) o2 g = Some c2 ->
  dec (P_glif_real pf ff ff3 fi fh B) c1 = dec (P_glif_real pf ff ff3 fi fh B) c2.
Proof.
  intros o1 o2 g c1 c2 (_ & _ & LF & _) H1 H2. simpl in H1, H2.
  rewrite (encode_options_irrelevant ff fi ff3 fh (fst o1) (fst o2) g) in H1.
  - rewrite H1 in H2. inversion H2. reflexivity.
  - intros lib Hl. unfold written_lib in Hl. rewrite (dump_lib_free g LF) in Hl. destruct LF as [LB _].
    rewrite LB in Hl. simpl in Hl. inversion Hl. reflexivity.
Qed.

Lemma glif_real_ok : part_ok (P_glif_real pf ff ff3 fi fh B).
Proof.
  constructor.
  - reflexivity.
  - intros x y H. symmetry. exact H.
  - intros x y z H1 H2. congruence.
  - exact glif_rt.
  - exact glif_opts.
Qed.

(** the laws of the signature for [real_sig]: the glif laws are proved, the others are those of the
    base signature *)
Theorem real_sig_ok : base_laws B PG PK -> sig_ok (real_sig pf ff ff3 fi fh B PG PK).
Proof.
  intros H. pose proof H as HH. destruct H. constructor; simpl in *;
    try (apply lift_ok; assumption); try assumption.
  - (* the real font-info codec *) apply info_real_ok. reflexivity.
  - exact glif_real_ok.
  - (* info_eq_ids *) intros a b ->. destruct (snd b) as [l|]; simpl; [|exact I]. apply Forall2_refl_in. reflexivity.
  - (* irest_dflt_spec *) exact info_is_none_spec.
  - (* info_dflt_wf *)
    unfold wf_sinfo. simpl. split; [reflexivity|]. split; [|split; vm_compute; reflexivity].
    unfold FI.info_wt. simpl. repeat split; intros; discriminate.
  - (* info_dflt_ok *) vm_compute. reflexivity.
  - (* groups_empty_spec *) intros [|x g] Hg; [apply (peq_refl _ b_groups)|discriminate].
  - (* groups_dflt_wf *) split; [assumption|reflexivity].
  - (* kerning_empty_spec *) intros [|x k] Hk; [apply (peq_refl _ b_kerning)|discriminate].
  - (* groups_ok_eq *) intros a b Hab. rewrite (b_groups_exact a b Hab). reflexivity.
  - (* info_ok_stripped *) intros a b Hs. unfold info_ok_real. unfold stripped in Hs. simpl in Hs.
    unfold strip_g in Hs. inversion Hs as [[H1 H2]]. rewrite H1, H2. reflexivity.
  - intros [n w h cps note img gs as_ ks cs lib]. reflexivity.
  - intros n a b ->. reflexivity.
  - intros n g. reflexivity.
Qed.

(** ** the font-level theorems for the real signature *)
Local Notation RS := (real_sig pf ff ff3 fi fh B PG PK).

Theorem roundtrip_real : base_laws B PG PK -> forall o (f : font RS),
  font_valid RS f ->
  exists t, save RS o f = Ok t /\ spec_write RS norad_choices o f = Some t /\
            exists f', load RS t = Ok f' /\ font_equiv RS f f'.
Proof. intros HB o f Hv. exact (save_load_roundtrip RS (real_sig_ok HB) o f Hv). Qed.

(** with the real glif codec the glyphs come back EXACTLY *)
Lemma glyph_entries_exact : forall (a b : list (str * str * glyph)),
  Forall2 (glyph_entry_eq RS) a b -> a = b.
Proof.
  intros a b F. induction F as [|x y a b [H1 H2] F IH]; [reflexivity|]. simpl in H2.
  destruct x as [k g]. destruct y as [k' g']. simpl in *. subst. reflexivity.
Qed.
Theorem roundtrip_real_glyphs_exact : forall (f f' : font RS),
  font_equiv RS f f' -> map l_glyphs (f_layers RS f) = map l_glyphs (f_layers RS f').
Proof.
  intros f f' (_ & _ & _ & _ & _ & _ & _ & Hl & _).
  induction Hl as [|l l' ls ls' (_ & _ & _ & _ & Hg) F IH]; [reflexivity|].
  simpl. f_equal; [apply glyph_entries_exact; exact Hg|exact IH].
Qed.

Theorem reads_spec_real : base_laws B PG PK -> forall c o (f : font RS),
  font_valid RS f ->
  exists t, spec_write RS c o f = Some t /\ exists f', load RS t = Ok f' /\ font_equiv RS f f'.
Proof. intros HB. exact (load_spec_write RS (real_sig_ok HB)). Qed.

Theorem spec_reader_real : base_laws B PG PK -> forall c o (f : font RS),
  font_valid RS f ->
  exists t, spec_write RS c o f = Some t /\ exists f', spec_read RS t = Some f' /\ font_equiv RS f f'.
Proof. intros HB. exact (spec_read_spec_write RS (real_sig_ok HB)). Qed.

(** ** what the real glif reader guarantees for every loaded glyph *)
Ltac binv H :=
  repeat match type of H with
         | bind ?x _ = Ok _ =>
             let E := fresh "E" in destruct x eqn:E; cbn [bind] in H; [|discriminate H|discriminate H]
         end.

Definition parsed_entry (e : str * str * glyph) : Prop :=
  exists g, glyph_rules g /\ lookup objlibs_key (glib g) = None /\ snd e = set_gname (fst (fst e)) g.

Lemma load_glyph_parsed : forall (d : ldir RS) ce e, load_glyph RS d ce = Ok e -> parsed_entry e.
Proof.
  intros d ce e H. unfold load_glyph in H.
  destruct (alookup (snd ce) (ld_glifs RS d)) as [c|]; [|discriminate].
  simpl in H. destruct c as [c|doc|r]; try discriminate.
  destruct (parse_glif pf doc) as [g| |] eqn:Ep; try discriminate. inversion H; subst e.
  destruct (parse_rules pf doc g Ep) as [R1 R2]. exists g. simpl. auto.
Qed.

Lemma load_layer_parsed : forall (t : tree RS) e (l : layer (T_color B) (T_dict B) glyph),
  load_layer RS t e = Ok l -> Forall parsed_entry (l_glyphs l).
Proof.
  intros t e l H. unfold load_layer in H.
  destruct (alookup (snd e) (t_dirs RS t)) as [d|]; [|discriminate].
  destruct (ld_contents RS d) as [cc|]; [|discriminate].
  destruct (dec (P_contents RS) cc) as [cl|]; [|discriminate].
  destruct (negb (nodupb (map (fun e0 : str * str => lower RS (snd e0)) cl))); [discriminate|].
  binv H. inversion H; subst l. simpl. apply mapM_Forall2 in E.
  apply Forall_forall. intros x Hx. apply Forall2_flip in E.
  destruct (Forall2_in_l _ _ _ _ E Hx) as [ce [_ Hce]]. eapply load_glyph_parsed; eauto.
Qed.

Theorem loaded_glyphs_rules_real : forall (t : tree RS) (f : font RS),
  load RS t = Ok f -> Forall (fun l => Forall parsed_entry (l_glyphs l)) (f_layers RS f).
Proof.
  intros t f H.
  destruct (load_elim RS t f H) as (mc & m & olib & il & og & ok & ls & _ & _ & _ & _ & _ & _ & _ & E8 & _ & F2 & _).
  rewrite F2. unfold load_layers in E8. binv E8.
  destruct (lc_precheck RS [] [] a); [discriminate|]. binv E8.
  destruct (find_idx (is_default_dir RS) a0) as [i|]; [|discriminate]. inversion E8; subst ls.
  apply Forall_forall. intros l Hl. apply in_move_to_front in Hl.
  apply mapM_Forall2 in E0. apply Forall2_flip in E0.
  destruct (Forall2_in_l _ _ _ _ E0 Hl) as [e [_ He]]. eapply load_layer_parsed; eauto.
Qed.

End RealP.

Lemma real_sample_wf : forall pf ff3, wf_glyph pf ff3 g_real_sample.
Proof.
  intros pf ff3. unfold wf_glyph. split; [|split; [|split; [|split; [reflexivity|]]]].
  - unfold glyph_rules, g_real_sample; cbn [gname gcps gimage gguides ganchors gcomps gcontours].
    split; [reflexivity|]. split; [repeat constructor; cbn; intuition discriminate|].
    split; [repeat constructor|]. split; [exact I|]. split; [constructor|].
    split; [constructor; [|constructor]; unfold anchor_rules, lib_needs_id; cbn; repeat split; congruence|].
    split; [constructor; [|constructor]; unfold comp_rules, lib_needs_id; cbn; repeat split; congruence|].
    split.
    + constructor; [|constructor]. unfold contour_rules, lib_needs_id; cbn [cpoints cid clib].
      split; [discriminate|]. split; [apply Norad.Proofs.ContourP.legalb_spec; vm_compute; reflexivity|].
      split; [repeat constructor; cbn; congruence|]. split; [reflexivity|congruence].
    + apply Norad.Proofs.GlifSpecP.nodupb_spec. vm_compute. reflexivity.
  - unfold glyph_finite, g_real_sample, contour_finite, transform_finite; cbn. repeat split; repeat constructor.
  - unfold lib_free, g_real_sample; cbn. repeat split; repeat constructor.
  - unfold glyph_canon, g_real_sample; cbn. repeat split; repeat constructor.
Qed.

(** every lawful signature gives the base laws (so the hypothesis [base_laws] is satisfiable whenever
    [sig_ok] is) *)

(** ** the remaining hypotheses are jointly satisfiable: the toy base with groups / kerning codecs
    that write the real maps as nested dictionaries *)
Require Import Norad.Model.FontToy Norad.Proofs.FontToyP.

Definition toy_enc_groups (g : GR.groups) : tdict :=
  map (fun e => (fst e, TDict (map (fun n => (n, TLeaf 0)) (snd e)))) g.
Definition toy_dec_groups (d : tdict) : option GR.groups :=
  omapM (fun e : str * tpv => match snd e with TDict l => Some (fst e, map fst l) | TLeaf _ => None end) d.
Definition toy_enc_kerning (k : GR.kerning) : tdict :=
  map (fun e => (fst e, TDict (map (fun p => (fst p, TLeaf (snd p))) (snd e)))) k.
Definition toy_dec_kerning (d : tdict) : option GR.kerning :=
  omapM (fun e : str * tpv =>
           match snd e with
           | TDict l => option_map (fun row => (fst e, row))
                          (omapM (fun p : str * tpv => match snd p with TLeaf n => Some (fst p, n) | TDict _ => None end) l)
           | TLeaf _ => None
           end) d.
Definition toy_PG : part tcontent N GR.groups :=
  mkpart (fun g => CDict (toy_enc_groups g)) (fun c => match c with CDict d => toy_dec_groups d | _ => None end) eq.
Definition toy_PK : part tcontent N GR.kerning :=
  mkpart (fun k => CDict (toy_enc_kerning k)) (fun c => match c with CDict d => toy_dec_kerning d | _ => None end) eq.

Lemma toy_groups_rt : forall g, toy_dec_groups (toy_enc_groups g) = Some g.
Proof.
  induction g as [|[n ms] g IH]; [reflexivity|]. unfold toy_dec_groups, toy_enc_groups in *. simpl.
  rewrite IH. simpl. rewrite map_map. simpl. rewrite map_id. reflexivity.
Qed.
Lemma toy_row_rt : forall row : list (str * N),
  omapM (fun p : str * tpv => match snd p with TLeaf n => Some (fst p, n) | TDict _ => None end)
        (map (fun p : str * N => (fst p, TLeaf (snd p))) row) = Some row.
Proof. induction row as [|[a v] r IH]; [reflexivity|]. simpl. rewrite IH. reflexivity. Qed.
Lemma toy_kerning_rt : forall k, toy_dec_kerning (toy_enc_kerning k) = Some k.
Proof.
  induction k as [|[n row] k IH]; [reflexivity|]. unfold toy_dec_kerning, toy_enc_kerning in *. simpl.
  rewrite toy_row_rt. simpl. rewrite IH. reflexivity.
Qed.

Theorem toy_base_laws : base_laws toy_sig toy_PG toy_PK.
Proof.
  pose proof toy_ok as H. destruct H. constructor; try assumption.
  - apply mkpart_ok; try congruence; try reflexivity. intros. apply toy_groups_rt.
  - apply mkpart_ok; try congruence; try reflexivity. intros. apply toy_kerning_rt.
  - intros a b H. exact H.
Qed.
