(** The laws of the signature for the real part models (Model/FontReal.v). *)
Require Import Norad.Model.GlifSpec Norad.Model.GlifDen Norad.Model.GlifEncode.
Require Import Norad.Proofs.GlifParseP Norad.Proofs.GlifEncodeP Norad.Proofs.GlifRoundtripP Norad.Proofs.GlifFullP.
Require Import Norad.Model.FontRT Norad.Model.FontRealInfo Norad.Model.FontReal Norad.Proofs.FontRTP
               Norad.Proofs.FontRealInfoP Norad.Proofs.PlistNfP.
Open Scope N_scope.

Section RealP.
Variable pf : str -> option fl.
Variables ff ff3 : fl -> str.
Variable fi : Z -> str.
Variable fh : N -> str.
Variable K : codecs.
Hypothesis L1 : L1_glif pf ff ff3 fi fh.

Local Notation close3 := (fun x y : fl => pf (chan ff3 x) = Some y).

Lemma lift_ok {X} (p : part (K_content K) (K_opts K) X) : part_ok p -> part_ok (lift K p).
Proof.
  intros [R Sy T RT OI]. constructor; simpl; auto.
  - intros o x Hw. destruct (RT (snd o) x Hw) as [c [x' [H1 [H2 H3]]]].
    exists (RBase K c), x'. rewrite H1. simpl. auto.
  - intros o1 o2 x c1 c2 Hw H1 H2.
    destruct (enc p (snd o1) x) as [a|] eqn:E1; simpl in H1; [|discriminate].
    destruct (enc p (snd o2) x) as [b|] eqn:E2; simpl in H2; [|discriminate].
    inversion H1; inversion H2; subst. simpl. eapply OI; eauto.
Qed.

Lemma Forall2_eq_in {A} (R : A -> A -> Prop) l l' :
  Forall2 R l l' -> (forall a a', In a l -> R a a' -> a' = a) -> l' = l.
Proof.
  intros F. induction F as [|a a' l l' H F IH]; intros Hx; [reflexivity|].
  rewrite (Hx a a' (or_introl eq_refl) H). f_equal. apply IH. intros; apply Hx; simpl; auto.
Qed.

Lemma color_fixed_eq : forall c c', color_fixed pf ff3 c -> color_close close3 c c' -> c' = c.
Proof.
  intros [[[r g] b] a] [[[r' g'] b'] a'] (H1 & H2 & H3 & H4) (C1 & C2 & C3 & C4).
  unfold chan_fixed in *. congruence.
Qed.
Lemma ocolor_fixed_eq : forall c c', ocolor_fixed pf ff3 c -> ocolor_close close3 c c' -> c' = c.
Proof.
  intros [c|] [c'|]; simpl; intros H1 H2; try tauto.
  destruct H2 as [H2 _]. f_equal. apply color_fixed_eq; assumption.
Qed.

Lemma point_rt_id : forall p, slib (plib p) = plib p -> point_rt p = p.
Proof. intros [x y t s n i l] H. simpl in H. unfold point_rt. simpl. rewrite H. reflexivity. Qed.
Lemma contour_rt_id : forall c,
  slib (clib c) = clib c /\ Forall (fun p => slib (plib p) = plib p) (cpoints c) -> contour_rt c = c.
Proof.
  intros [ps i l] [H1 H2]. simpl in *. unfold contour_rt. simpl. rewrite H1. f_equal.
  induction H2 as [|p ps Hp F IH]; [reflexivity|]. simpl. rewrite point_rt_id by assumption. f_equal. exact IH.
Qed.
Lemma map_id_in {A} (f : A -> A) l : (forall a, In a l -> f a = a) -> map f l = l.
Proof. induction l; simpl; intros H; [reflexivity|]. rewrite H by auto. f_equal. auto. Qed.

(** the real glif codec: exact round trip on [wf_glyph] (from C02_roundtrip) *)
Lemma glif_rt : forall o g, wf_glyph pf ff3 g ->
  exists c g', enc (P_glif_real pf ff ff3 fi fh K) o g = Some c /\
               dec (P_glif_real pf ff ff3 fi fh K) c = Some g' /\ g = g'.
Proof.
  intros o g (GR & GF & LV & LP & NS & CW & CH & CI & CG & CA & CK & CC & CL).
  destruct L1 as (H_ff & H_ff3 & H_fh & H_fi).
  assert (F3 : c02_f3 (fst o) g = false).
  { unfold c02_f3. rewrite LP, NS. simpl. rewrite andb_false_r. reflexivity. }
  destruct (roundtrip_full pf ff ff3 fi fh (fst o) close3 H_ff) with (g := g)
    as (t & g' & E1 & E2 & R1 & R2 & R3 & R4 & R5 & R6 & R7 & R8 & R9 & R10 & R11); auto.
  { intros x Hx. destruct (H_ff3 x Hx) as [A [y [Hy Hu]]]. split; [exact A|]. exists y. auto. }
  simpl. rewrite E1. eexists. exists g'. split; [reflexivity|]. simpl. rewrite E2. split; [reflexivity|].
  destruct g as [n w h cps note img gs as_ ks cs lib]. destruct g' as [n' w' h' cps' note' img' gs' as' ks' cs' lib'].
  simpl in *. subst. f_equal.
  - symmetry. exact CW.
  - symmetry. exact CH.
  - destruct img as [i|]; destruct img' as [i'|]; simpl in R6; try tauto.
    destruct R6 as (I1 & I2 & I3). destruct CI as [CI1 CI2].
    destruct i as [f c tr]. destruct i' as [f' c' tr']. simpl in *. subst. f_equal. f_equal.
    + symmetry. apply ocolor_fixed_eq; assumption.
    + symmetry. exact CI1.
  - symmetry. apply (Forall2_eq_in _ _ _ R7). intros a a' Ha (G1 & G2 & G3 & G4 & G5).
    rewrite Forall_forall in CG. destruct (CG a Ha) as [C1 C2].
    destruct a as [l nm c i lb]. destruct a' as [l' nm' c' i' lb']. simpl in *. subst. f_equal; [|exact C2].
    apply ocolor_fixed_eq; assumption.
  - symmetry. apply (Forall2_eq_in _ _ _ R8). intros a a' Ha (A1 & A2 & A3 & A4 & A5 & A6).
    rewrite Forall_forall in CA. destruct (CA a Ha) as [C1 C2].
    destruct a as [x y nm c i lb]. destruct a' as [x' y' nm' c' i' lb']. simpl in *. subst. f_equal; [|exact C2].
    apply ocolor_fixed_eq; assumption.
  - symmetry. apply map_id_in. intros c Hc. rewrite Forall_forall in CK.
    destruct (CK c Hc) as [C1 C2]. destruct c as [b tr i lb]. unfold comp_rt. simpl in *. rewrite C1, C2. reflexivity.
  - symmetry. apply map_id_in. intros c Hc. rewrite Forall_forall in CC. apply contour_rt_id. apply CC. exact Hc.
  - symmetry. exact CL.
Qed.

(** with an exact round trip the write options cannot matter: both outputs read back as [g] *)
Lemma glif_opts : forall o1 o2 g c1 c2, wf_glyph pf ff3 g ->
  enc (P_glif_real pf ff ff3 fi fh K) o1 g = Some c1 -> enc (P_glif_real pf ff ff3 fi fh K) o2 g = Some c2 ->
  dec (P_glif_real pf ff ff3 fi fh K) c1 = dec (P_glif_real pf ff ff3 fi fh K) c2.
Proof.
  intros o1 o2 g c1 c2 Hw H1 H2.
  destruct (glif_rt o1 g Hw) as (d1 & g1 & A1 & B1 & E1). destruct (glif_rt o2 g Hw) as (d2 & g2 & A2 & B2 & E2).
  rewrite H1 in A1. rewrite H2 in A2. inversion A1; inversion A2; subst. congruence.
Qed.

Lemma glif_real_ok : part_ok (P_glif_real pf ff ff3 fi fh K).
Proof.
  constructor.
  - reflexivity.
  - intros x y H. symmetry. exact H.
  - intros x y z H1 H2. congruence.
  - exact glif_rt.
  - exact glif_opts.
Qed.

(** the laws of the signature for [real_sig]: the glif laws are proved, the others are those of the
    base signature *)
(** the dictionary algebra of the signature, for the real plist dictionaries *)
Lemma pd_get_set : forall k k' v (d : dict),
  alookup k (dict_insert k' v d) = if str_eqb k k' then Some v else alookup k d.
Proof.
  intros k k' v d. induction d as [|[a x] d IH]; simpl.
  - destruct (str_eqb k k'); reflexivity.
  - destruct (str_eqb k' a) eqn:E; simpl.
    + apply list_eqb_N_eq in E. subst a. destruct (str_eqb k k'); reflexivity.
    + destruct (str_eqb k a) eqn:E2.
      * apply list_eqb_N_eq in E2. subst a. rewrite str_eqb_sym, E. reflexivity.
      * exact IH.
Qed.
Lemma pd_get_del : forall k k' (d : dict),
  alookup k (pd_del k' d) = if str_eqb k k' then None else alookup k d.
Proof.
  intros k k' d. induction d as [|[a x] d IH]; simpl.
  - destruct (str_eqb k k'); reflexivity.
  - destruct (str_eqb a k') eqn:E; simpl.
    + rewrite IH. destruct (str_eqb k k') eqn:E2; [reflexivity|].
      apply list_eqb_N_eq in E. subst a. rewrite E2. reflexivity.
    + rewrite IH. destruct (str_eqb k a) eqn:E3; [|reflexivity].
      apply list_eqb_N_eq in E3. subst a. rewrite E. reflexivity.
Qed.
Lemma orel_eq_iff' {A} (a b : option A) : orel eq a b <-> a = b.
Proof. destruct a, b; simpl; split; intros H; try congruence; try tauto; try discriminate. Qed.

Theorem real_sig_ok : codecs_ok K -> sig_ok (real_sig pf ff ff3 fi fh K).
Proof.
  intros H. destruct H. constructor; simpl in *;
    try (apply lift_ok; assumption); try assumption; try (intros; congruence).
  - (* the real font-info codec *) apply info_real_ok. reflexivity.
  - exact glif_real_ok.
  - (* info_eq_ids *) intros a b ->. destruct (snd b) as [l|]; simpl; [|exact I]. apply Forall2_refl_in. reflexivity.
  - (* get_set *) exact pd_get_set.
  - (* get_del *) exact pd_get_del.
  - (* is_empty_get *) intros d. split.
    + destruct d; [reflexivity|discriminate].
    + destruct d as [|[k v] d]; [reflexivity|]. intros Hk. specialize (Hk k). simpl in Hk.
      rewrite str_eqb_refl in Hk. discriminate.
  - (* deq_get *) exact pd_eq_orel.
  - (* as_mk *) reflexivity.
  - (* as_dict_veq *) intros v w Hvw. destruct v, w; simpl; try exact I; try (unfold pv_eqv in Hvw; simpl in Hvw; discriminate).
    apply pv_eqv_dicts. exact Hvw.
  - (* wf_as *) intros v d Hv Hd. destruct v; try discriminate. inversion Hd; subst. apply k_wf_as. exact Hv.
  - (* irest_dflt_spec *) exact info_is_none_spec.
  - (* info_dflt_wf *)
    unfold wf_sinfo. simpl. split; [reflexivity|]. split; [|split; vm_compute; reflexivity].
    unfold FI.info_wt. simpl. repeat split; intros; discriminate.
  - (* info_dflt_ok *) vm_compute. reflexivity.
  - (* groups_empty_spec *) intros [|x g] Hg; [apply (peq_refl _ k_groups)|discriminate].
  - (* groups_dflt_wf *) split; [assumption|reflexivity].
  - (* kerning_empty_spec *) intros [|x k] Hk; [apply (peq_refl _ k_kerning)|discriminate].
  - (* groups_ok_eq *) intros a b Hab. rewrite (k_groups_exact a b Hab). reflexivity.
  - (* info_ok_stripped *) intros a b Hs. unfold info_ok_real. unfold stripped in Hs. simpl in Hs.
    unfold strip_g in Hs. inversion Hs as [[H1 H2]]. rewrite H1, H2. reflexivity.
  - intros [n w h cps note img gs as_ ks cs lib]. reflexivity.
Qed.

(** ** the font-level theorems for the real signature *)
Local Notation RS := (real_sig pf ff ff3 fi fh K).

Theorem roundtrip_real : codecs_ok K -> forall o (f : font RS),
  font_valid RS f ->
  exists t, save RS o f = Ok t /\ spec_write RS norad_choices o f = Some t /\
            exists f', load RS t = Ok f' /\ font_equiv RS f f'.
Proof. intros HB o f Hv. exact (save_load_roundtrip RS (real_sig_ok HB) o f Hv). Qed.

(** with the real glif codec the glyphs come back EXACTLY *)
Lemma glyph_entries_exact : forall (a b : list (str * str * glyph)),
  Forall2 (glyph_entry_eq RS) a b -> a = b.
Proof.
  intros a b F. induction F as [|x y a b [H1 H2] F IH]; [reflexivity|]. simpl in H2.
  destruct x as [k g]. destruct y as [k' g']. simpl in *. subst. reflexivity.
Qed.
Theorem roundtrip_real_glyphs_exact : forall (f f' : font RS),
  font_equiv RS f f' -> map l_glyphs (f_layers RS f) = map l_glyphs (f_layers RS f').
Proof.
  intros f f' (_ & _ & _ & _ & _ & _ & _ & Hl & _).
  induction Hl as [|l l' ls ls' (_ & _ & _ & _ & Hg) F IH]; [reflexivity|].
  simpl. f_equal; [apply glyph_entries_exact; exact Hg|exact IH].
Qed.

Theorem reads_spec_real : codecs_ok K -> forall c o (f : font RS),
  font_valid RS f ->
  exists t, spec_write RS c o f = Some t /\ exists f', load RS t = Ok f' /\ font_equiv RS f f'.
Proof. intros HB. exact (load_spec_write RS (real_sig_ok HB)). Qed.

Theorem spec_reader_real : codecs_ok K -> forall c o (f : font RS),
  font_valid RS f ->
  exists t, spec_write RS c o f = Some t /\ exists f', spec_read RS t = Some f' /\ font_equiv RS f f'.
Proof. intros HB. exact (spec_read_spec_write RS (real_sig_ok HB)). Qed.

(** ** what the real glif reader guarantees for every loaded glyph *)
Ltac binv H :=
  repeat match type of H with
         | bind ?x _ = Ok _ =>
             let E := fresh "E" in destruct x eqn:E; cbn [bind] in H; [|discriminate H|discriminate H]
         end.

Definition parsed_entry (e : str * str * glyph) : Prop :=
  exists g, glyph_rules g /\ lookup objlibs_key (glib g) = None /\ snd e = set_gname (fst (fst e)) g.

Lemma load_glyph_parsed : forall (d : ldir RS) ce e, load_glyph RS d ce = Ok e -> parsed_entry e.
Proof.
  intros d ce e H. unfold load_glyph in H.
  destruct (alookup (snd ce) (ld_glifs RS d)) as [c|]; [|discriminate].
  simpl in H. destruct c as [c|doc|r]; try discriminate.
  destruct (parse_glif pf doc) as [g| |] eqn:Ep; try discriminate. inversion H; subst e.
  destruct (parse_rules pf doc g Ep) as [R1 R2]. exists g. simpl. auto.
Qed.

Lemma load_layer_parsed : forall (t : tree RS) e (l : layer (K_color K) dict glyph),
  load_layer RS t e = Ok l -> Forall parsed_entry (l_glyphs l).
Proof.
  intros t e l H. unfold load_layer in H.
  destruct (alookup (snd e) (t_dirs RS t)) as [d|]; [|discriminate].
  destruct (ld_contents RS d) as [cc|]; [|discriminate].
  destruct (dec (P_contents RS) cc) as [cl|]; [|discriminate].
  destruct (negb (nodupb (map (fun e0 : str * str => lower RS (snd e0)) cl))); [discriminate|].
  binv H. inversion H; subst l. simpl. apply mapM_Forall2 in E.
  apply Forall_forall. intros x Hx. apply Forall2_flip in E.
  destruct (Forall2_in_l _ _ _ _ E Hx) as [ce [_ Hce]]. eapply load_glyph_parsed; eauto.
Qed.

Theorem loaded_glyphs_rules_real : forall (t : tree RS) (f : font RS),
  load RS t = Ok f -> Forall (fun l => Forall parsed_entry (l_glyphs l)) (f_layers RS f).
Proof.
  intros t f H.
  destruct (load_elim RS t f H) as (mc & m & olib & il & og & ok & ls & _ & _ & _ & _ & _ & _ & _ & E8 & _ & F2 & _).
  rewrite F2. unfold load_layers in E8. binv E8.
  destruct (lc_precheck RS [] [] a); [discriminate|]. binv E8.
  destruct (find_idx (is_default_dir RS) a0) as [i|]; [|discriminate]. inversion E8; subst ls.
  apply Forall_forall. intros l Hl. apply in_move_to_front in Hl.
  apply mapM_Forall2 in E0. apply Forall2_flip in E0.
  destruct (Forall2_in_l _ _ _ _ E0 Hl) as [e [_ He]]. eapply load_layer_parsed; eauto.
Qed.

(** ** C04 for the real signature: closedness of everything but the glyph domain *)
Hypothesis HK : codecs_ok K.
Hypothesis CK : codecs_closed K.

Lemma lift_closed {X} (p : part (K_content K) (K_opts K) X) : part_closed p -> part_closed (lift K p).
Proof. intros H c x Hd. simpl in Hd. destruct c; try discriminate. exact (H _ _ Hd). Qed.

Lemma real_closed0 : sig_closed0 RS.
Proof.
  destruct CK. constructor; simpl; try (apply lift_closed; assumption).
  - apply info_real_closed.
  - intros c m Hd. destruct c as [c|d|r]; try discriminate. exact (kc_meta_norad c m Hd).
  - (* identifiers of the guidelines the info reader returns *)
    intros c si Hd g Hg id Hid. destruct c as [c|d|r]; try discriminate.
    destruct (FI.fi_load r) as [i| |] eqn:El; try discriminate. inversion Hd; subst si. clear Hd.
    unfold of_info in Hg. simpl in Hg. destruct (FI.i_guides i) as [gs|] eqn:Eg; [|contradiction].
    simpl in Hg. apply in_map_iff in Hg. destruct Hg as [x [Ex Hx]]. subst g. simpl in Hid.
    pose proof (kc_info_ids r i El gs Eg) as F. rewrite Forall_forall in F. exact (F x Hx id Hid).
  - intros i Hi. apply (info_ok_real_nodup _ i Hi).
Qed.

Lemma glyph_rules_set_gname : forall n g, name_valid n = true -> glyph_rules g -> glyph_rules (set_gname n g).
Proof. intros n g Hn (R1 & R). split; [exact Hn|exact R]. Qed.

(** the names under which glyphs are loaded are valid names *)
Lemma loaded_glyph_names_valid0 :
  (forall c l, dec (K_contents K) c = Some l -> Forall (fun e => name_valid (fst e) = true) l) ->
  forall (t : tree RS) (f : font RS),
  load RS t = Ok f ->
  Forall (fun l => Forall (fun e : str * str * glyph => name_valid (fst (fst e)) = true) (l_glyphs l)) (f_layers RS f).
Proof.
  intros Hcn t f H.
  destruct (load_elim RS t f H) as (mc & m & olib & il & og & ok & ls & _ & _ & _ & _ & _ & _ & _ & E8 & _ & F2 & _).
  rewrite F2. unfold load_layers in E8. binv E8.
  destruct (lc_precheck RS [] [] a); [discriminate|]. binv E8.
  destruct (find_idx (is_default_dir RS) a0) as [i|]; [|discriminate]. inversion E8; subst ls.
  apply Forall_forall. intros l Hl. apply in_move_to_front in Hl.
  apply mapM_Forall2 in E0. apply Forall2_flip in E0.
  destruct (Forall2_in_l _ _ _ _ E0 Hl) as [e [_ He]]. cbv beta in He. unfold load_layer in He.
  destruct (alookup (snd e) (t_dirs RS t)) as [d|]; [|discriminate].
  destruct (ld_contents RS d) as [cc|]; [|discriminate].
  destruct (dec (P_contents RS) cc) as [cl|] eqn:Ecl; [|discriminate].
  destruct (negb (nodupb (map (fun e0 : str * str => lower RS (snd e0)) cl))); [discriminate|].
  binv He. inversion He; subst l. simpl.
  assert (Hn : Forall (fun e0 : str * str => name_valid (fst e0) = true) cl).
  { simpl in Ecl. destruct cc as [cb|?|?]; try discriminate. exact (Hcn cb cl Ecl). }
  apply mapM_Forall2 in E1. apply Forall_forall. intros x Hx. apply Forall2_flip in E1.
  destruct (Forall2_in_l _ _ _ _ E1 Hx) as [ce [Hce Hld]]. cbv beta in Hld. unfold load_glyph in Hld.
  destruct (alookup (snd ce) (ld_glifs RS d)); [|discriminate]. destruct (dec (P_glif RS) t0); [|discriminate].
  inversion Hld; subst x. simpl. rewrite Forall_forall in Hn. exact (Hn ce Hce).
Qed.

Lemma loaded_glyph_names_valid : forall (t : tree RS) (f : font RS),
  load RS t = Ok f ->
  Forall (fun l => Forall (fun e : str * str * glyph => name_valid (fst (fst e)) = true) (l_glyphs l)) (f_layers RS f).
Proof. apply loaded_glyph_names_valid0. destruct CK. assumption. Qed.

(** the loaded glyphs are in the domain of the glif codec when they are in [glyph_rt_domain] *)
Lemma loaded_glyph_entries_real :
  (forall c l, dec (K_contents K) c = Some l -> Forall (fun e => name_valid (fst e) = true) l) ->
  forall (t : tree RS) (f : font RS), load RS t = Ok f ->
  Forall (fun l => Forall (fun e : str * str * glyph => glyph_rt_domain pf ff3 (snd e)) (l_glyphs l)) (f_layers RS f) ->
  Forall (fun l => Forall (glyph_entry_ok RS) (l_glyphs l)) (f_layers RS f).
Proof.
  intros Hcn t f H HD.
  pose proof (loaded_glyphs_rules_real t f H) as HR. pose proof (loaded_glyph_names_valid0 Hcn t f H) as HN.
  rewrite Forall_forall in *. intros l Hl. specialize (HR l Hl). specialize (HN l Hl). specialize (HD l Hl).
  rewrite Forall_forall in *. intros e He.
  destruct (HR e He) as (g & G1 & G2 & G3). destruct (HD e He) as (D1 & D2 & D3 & D4 & D5).
  split; simpl.
  - unfold wf_glyph. split; [rewrite G3; apply glyph_rules_set_gname; [exact (HN e He)|exact G1]|]. auto.
  - rewrite G3. reflexivity.
Qed.

(** closedness at one tree, and the fixed point for a tree whose lib / kerning / layerinfo files are
    read as values of their writers' domains *)
Lemma real_closed_at : codecs_closed_base K ->
  forall t : tree RS, files_in_domain pf ff ff3 fi fh K t -> sig_closed_at RS t.
Proof.
  intros CB t (D1 & D2 & D3). destruct CB. constructor; simpl; try (apply lift_closed; assumption).
  - apply info_real_closed.
  - intros c x Ht Hd. destruct c as [c|d|r]; try discriminate. exact (D1 c x Ht Hd).
  - intros c x Ht Hd. destruct c as [c|d|r]; try discriminate. exact (D2 c x Ht Hd).
  - intros dn d c x Hl Hi Hd. destruct c as [c|d0|r]; try discriminate. exact (D3 dn d c x Hl Hi Hd).
  - intros c m Hd. destruct c as [c|d|r]; try discriminate. exact (kb_meta_norad c m Hd).
  - intros c si Hd g Hg id Hid. destruct c as [c|d|r]; try discriminate.
    destruct (FI.fi_load r) as [i| |] eqn:El; try discriminate. inversion Hd; subst si. clear Hd.
    unfold of_info in Hg. simpl in Hg. destruct (FI.i_guides i) as [gs|] eqn:Eg; [|contradiction].
    simpl in Hg. apply in_map_iff in Hg. destruct Hg as [x [Ex Hx]]. subst g. simpl in Hid.
    pose proof (kb_info_ids r i El gs Eg) as F. rewrite Forall_forall in F. exact (F x Hx id Hid).
  - intros i Hi. apply (info_ok_real_nodup _ i Hi).
Qed.

Theorem fixed_point_real_at : codecs_closed_base K ->
  forall o (t : tree RS) (f : font RS) mc m,
  load RS t = Ok f -> t_meta RS t = Some mc -> dec (P_meta RS) mc = Some m -> m_version m = 3 ->
  files_in_domain pf ff ff3 fi fh K t ->
  Forall (fun l => Forall (fun e : str * str * glyph => glyph_rt_domain pf ff3 (snd e)) (l_glyphs l)) (f_layers RS f) ->
  exists t', save RS o f = Ok t' /\ exists f', load RS t' = Ok f' /\ font_equiv RS f f'.
Proof.
  intros CB o t f mc m H Hm1 Hm2 Hv HF HD.
  apply (fixed_point_at RS (real_sig_ok HK) t (real_closed_at CB t HF) o f mc m H Hm1 Hm2 Hv).
  apply (loaded_glyph_entries_real (kb_contents_names K CB) t f H HD).
Qed.

(** the fixed point for every format-3 tree the real reader loads, assuming of the loaded glyphs only
    what the reader does not guarantee ([glyph_rt_domain]) *)
Theorem fixed_point_real : forall o (t : tree RS) (f : font RS) mc m,
  load RS t = Ok f -> t_meta RS t = Some mc -> dec (P_meta RS) mc = Some m -> m_version m = 3 ->
  Forall (fun l => Forall (fun e : str * str * glyph => glyph_rt_domain pf ff3 (snd e)) (l_glyphs l)) (f_layers RS f) ->
  exists t', save RS o f = Ok t' /\ exists f', load RS t' = Ok f' /\ font_equiv RS f f'.
Proof.
  intros o t f mc m H Hm1 Hm2 Hv HD.
  apply (fixed_point0 RS (real_sig_ok HK) real_closed0 o t f mc m H Hm1 Hm2 Hv).
  pose proof (loaded_glyphs_rules_real t f H) as HR. pose proof (loaded_glyph_names_valid t f H) as HN.
  rewrite Forall_forall in *. intros l Hl. specialize (HR l Hl). specialize (HN l Hl). specialize (HD l Hl).
  rewrite Forall_forall in *. intros e He.
  destruct (HR e He) as (g & G1 & G2 & G3). destruct (HD e He) as (D1 & D2 & D3 & D4 & D5).
  split; simpl.
  - unfold wf_glyph. split; [rewrite G3; apply glyph_rules_set_gname; [exact (HN e He)|exact G1]|]. auto.
  - rewrite G3. reflexivity.
Qed.

End RealP.

Lemma real_sample_wf : forall pf ff3, wf_glyph pf ff3 g_real_sample.
Proof.
  intros pf ff3. unfold wf_glyph.
  split; [|split; [|split; [vm_compute; reflexivity|split; [vm_compute; reflexivity|split; [reflexivity|]]]]].
  - unfold glyph_rules, g_real_sample; cbn [gname gcps gimage gguides ganchors gcomps gcontours].
    split; [reflexivity|]. split; [repeat constructor; cbn; intuition discriminate|].
    split; [repeat constructor|]. split; [exact I|]. split; [constructor|].
    split; [constructor; [|constructor]; unfold anchor_rules, lib_needs_id; cbn; repeat split; congruence|].
    split; [constructor; [|constructor]; unfold comp_rules, lib_needs_id; cbn; repeat split; congruence|].
    split.
    + constructor; [|constructor]. unfold contour_rules, lib_needs_id; cbn [cpoints cid clib].
      split; [discriminate|]. split; [apply Norad.Proofs.ContourP.legalb_spec; vm_compute; reflexivity|].
      split; [repeat constructor; cbn; congruence|]. split; [reflexivity|congruence].
    + apply Norad.Proofs.GlifSpecP.nodupb_spec. vm_compute. reflexivity.
  - unfold glyph_finite, g_real_sample, contour_finite, transform_finite; cbn. repeat split; repeat constructor.
  - unfold glyph_canon, g_real_sample; cbn. repeat split; repeat constructor; vm_compute; reflexivity.
Qed.

(** ** the remaining hypotheses are jointly satisfiable: codecs that keep the values as they are *)
Inductive kcontent : Type :=
| KMeta (m : meta) | KDict (d : dict) | KGroups (g : GR.groups) | KKerning (k : GR.kerning)
| KPairs (l : list (str * str)) | KLi (v : option N * option dict).
Definition kpart {X} (inj : X -> kcontent) (prj : kcontent -> option X) (e : X -> X -> Prop) : part kcontent N X :=
  {| enc := fun _ x => Some (inj x); dec := prj; wf := fun _ => True; peq := e |}.
Definition id_codecs : codecs := {|
  K_content := kcontent; K_opts := N; K_color := N;
  K_meta := kpart KMeta (fun c => match c with KMeta m => Some m | _ => None end) eq;
  K_lib := kpart KDict (fun c => match c with KDict m => Some m | _ => None end) pd_eq;
  K_groups := kpart KGroups (fun c => match c with KGroups m => Some m | _ => None end) eq;
  K_kerning := kpart KKerning (fun c => match c with KKerning m => Some m | _ => None end) eq;
  K_lc := kpart KPairs (fun c => match c with KPairs m => Some m | _ => None end) eq;
  K_contents := {| enc := fun _ l => Some (KPairs l);
                   dec := fun c => match c with
                                   | KPairs m => if forallb (fun e => name_valid (fst e)) m then Some m else None
                                   | _ => None
                                   end;
                   wf := fun l => forallb (fun e : str * str => name_valid (fst e)) l = true; peq := eq |};
  K_li := kpart KLi (fun c => match c with KLi m => Some m | _ => None end)
                (fun a b => orel eq (fst a) (fst b) /\ orel pd_eq (snd a) (snd b));
  K_ceq := eq; K_wf_color := fun _ => True; K_lc_entry_wf := fun _ => True;
  K_wf_key := fun _ => True; K_wf_pv := fun _ => True; K_lower := fun x => x |}.

Lemma kpart_ok {X} inj prj (e : X -> X -> Prop) :
  (forall x, e x x) -> (forall x y, e x y -> e y x) -> (forall x y z, e x y -> e y z -> e x z) ->
  (forall x, prj (inj x) = Some x) -> part_ok (kpart inj prj e).
Proof.
  intros R Sy T P. constructor; simpl; auto.
  - intros o x _. exists (inj x), x. auto.
  - intros o1 o2 x c1 c2 _ H1 H2. congruence.
Qed.

Lemma id_contents_ok : part_ok (K_contents id_codecs).
Proof.
  constructor; simpl.
  - reflexivity.
  - intros x y H. symmetry. exact H.
  - intros x y z H1 H2. congruence.
  - intros o x Hw. exists (KPairs x), x. rewrite Hw. auto.
  - intros o1 o2 x c1 c2 _ H1 H2. inversion H1; inversion H2; subst. reflexivity.
Qed.

Theorem id_codecs_ok : codecs_ok id_codecs.
Proof.
  constructor; simpl; try exact id_contents_ok;
    try (apply kpart_ok; intros; solve [congruence | reflexivity | eauto using pd_eq_refl, pd_eq_sym, pd_eq_trans]);
    try (intros; tauto); try exact I; try (intros; exact I).
  - apply kpart_ok.
    + intros [c l]. simpl. split; [apply orel_refl; reflexivity|apply orel_refl; apply pd_eq_refl].
    + intros x y [H1 H2]. split; [apply orel_sym with (R := eq); [congruence|exact H1]|apply (orel_sym _ pd_eq_sym); exact H2].
    + intros x y z [H1 H2] [H3 H4]. split.
      * eapply (orel_trans eq); [intros; congruence| |]; eassumption.
      * eapply (orel_trans _ pd_eq_trans); eassumption.
    + reflexivity.
  - intros l. split; intros _; [|exact I]. apply Forall_forall. intros; exact I.
  - intros c ol. unfold real_wf_dict. simpl. split; intros; [split; intros; auto|exact I].
  - intros d. unfold real_wf_dict. simpl. split; intros; auto.
  - intros d _. unfold real_wf_dict. simpl. auto.
Qed.

Theorem id_codecs_closed : codecs_closed id_codecs.
Proof.
  constructor; simpl; try (intros c x _; exact I); try (intros; exact I).
  - intros c x H. destruct c; try discriminate. simpl in H. destruct (forallb _ l) eqn:E; [|discriminate]. inversion H; subst. exact E.
  - intros c l H. destruct c; try discriminate. simpl in H. destruct (forallb _ l0) eqn:E; [|discriminate]. inversion H; subst.
    apply Forall_forall. intros e He. rewrite forallb_forall in E. exact (E e He).
  - intros r i _ gs _. apply Forall_forall. intros; exact I.
Qed.

(** ** metainfo / layercontents / contents from the tree-level plist codec: [codecs_ok] and
    [codecs_closed] of [with_plist_files] follow from the laws of the four remaining files *)
Require Import Norad.Model.FontRealPlist Norad.Proofs.FontRealPlistP.

Section WithPlistFilesP.
Variable pf : str -> option fl.
Variables ff : fl -> str.
Variable fi : Z -> str.
Variable K4 : codecs4.
Hypothesis H_ff : forall x, fl_finite x = true -> pf (ff x) = Some x.
Hypothesis H_fi : forall z, int_ok z = true -> plist_int (fi z) = Some z.

Lemma lift_l_ok {X} (p : part (K4_content K4) (K4_opts K4) X) : part_ok p -> part_ok (lift_l K4 p).
Proof.
  intros [R Sy T RT OI]. constructor; simpl; auto.
  - intros o x Hw. destruct (RT o x Hw) as [c [x' [H1 [H2 H3]]]]. exists (inl c), x'. rewrite H1. simpl. auto.
  - intros o1 o2 x c1 c2 Hw H1 H2.
    destruct (enc p o1 x) as [a|] eqn:E1; simpl in H1; [|discriminate].
    destruct (enc p o2 x) as [b|] eqn:E2; simpl in H2; [|discriminate].
    inversion H1; inversion H2; subst. simpl. eapply OI; eauto.
Qed.
Lemma lift_r_ok {X} (p : part node (K4_opts K4) X) : part_ok p -> part_ok (lift_r K4 p).
Proof.
  intros [R Sy T RT OI]. constructor; simpl; auto.
  - intros o x Hw. destruct (RT o x Hw) as [c [x' [H1 [H2 H3]]]]. exists (inr c), x'. rewrite H1. simpl. auto.
  - intros o1 o2 x c1 c2 Hw H1 H2.
    destruct (enc p o1 x) as [a|] eqn:E1; simpl in H1; [|discriminate].
    destruct (enc p o2 x) as [b|] eqn:E2; simpl in H2; [|discriminate].
    inversion H1; inversion H2; subst. simpl. eapply OI; eauto.
Qed.

Theorem with_plist_files_ok : codecs4_ok K4 -> codecs_ok (with_plist_files pf ff fi K4).
Proof.
  intros H. destruct H. constructor; simpl;
    try (apply lift_l_ok; assumption); try assumption; try (intros; congruence).
  - apply lift_r_ok. apply meta_part_ok; assumption.
  - apply lift_r_ok. apply lc_part_ok; assumption.
  - apply lift_r_ok. apply ct_part_ok; assumption.
  - intros l. unfold wf_lc. tauto.
Qed.

Theorem with_plist_files_closed : codecs4_closed K4 -> codecs_closed (with_plist_files pf ff fi K4).
Proof.
  intros H. destruct H as [Clib Cgr Cke Cli Cids]. constructor; simpl; try assumption.
  - intros c x Hd. destruct c; [exact (Clib _ _ Hd)|discriminate].
  - intros c x Hd. destruct c; [exact (Cgr _ _ Hd)|discriminate].
  - intros c x Hd. destruct c; [exact (Cke _ _ Hd)|discriminate].
  - intros c x Hd. destruct c as [c|n]; [discriminate|]. simpl in Hd.
    destruct (plist_value pf n) as [v|]; [|discriminate]. exact (pv_lc_names v x Hd).
  - intros c x Hd. destruct c as [c|n]; [discriminate|]. simpl in Hd.
    destruct (plist_value pf n) as [v|]; [|discriminate]. exact (pv_ct_wf v x Hd).
  - intros c x Hd. destruct c; [exact (Cli _ _ Hd)|discriminate].
  - (* norad's metainfo with the minor version of a decoded one *)
    intros c m Hd. destruct c as [c|n]; [discriminate|]. simpl in Hd.
    destruct (plist_value pf n) as [v|]; [|discriminate]. simpl in Hd.
    destruct v; try discriminate. unfold pv_meta in Hd.
    destruct (match alookup k_creator d with None => Some None | Some (PStr c) => Some (Some c) | Some _ => None end); [|discriminate].
    destruct (alookup k_fv d) as [[| z | | | | | |]|]; try discriminate.
    destruct ((z =? 1) || (z =? 2) || (z =? 3))%Z; [|discriminate].
    destruct (alookup k_fvm d) as [[| z2 | | | | | |]|]; try discriminate.
    + destruct ((0 <=? z2) && (z2 <? 2 ^ 32))%Z eqn:E; [|discriminate]. inversion Hd; subst m. simpl.
      split; [auto|]. apply andb_true_iff in E. destruct E as [E1 E2]. apply Z.leb_le in E1. apply Z.ltb_lt in E2.
      change (2 ^ 32)%Z with 4294967296%Z in E2. change (2 ^ 32) with 4294967296. cbn [m_minor]. lia.
    + inversion Hd; subst m. simpl. split; [auto|]. reflexivity.
  - intros c l Hd. destruct c as [c|n]; [discriminate|]. simpl in Hd.
    destruct (plist_value pf n) as [v|]; [|discriminate]. destruct (pv_ct_wf v l Hd) as [_ Hn]. exact Hn.
Qed.

End WithPlistFilesP.

(** the reduced hypotheses are satisfiable as well *)
Definition id_codecs4 : codecs4 := {|
  K4_content := kcontent; K4_opts := N; K4_color := N;
  K4_lib := K_lib id_codecs; K4_groups := K_groups id_codecs; K4_kerning := K_kerning id_codecs;
  K4_li := K_li id_codecs;
  K4_ceq := eq; K4_wf_color := fun _ => True;
  K4_wf_key := fun _ => True; K4_wf_pv := fun _ => True; K4_lower := fun x => x |}.
Theorem id_codecs4_ok : codecs4_ok id_codecs4.
Proof.
  destruct id_codecs_ok. constructor; assumption.
Qed.
Theorem id_codecs4_closed : codecs4_closed id_codecs4.
Proof. destruct id_codecs_closed. constructor; assumption. Qed.

Section RealPlistFiles.
Variable pf : str -> option fl.
Variables ff ff3 : fl -> str.
Variable fi : Z -> str.
Variable fh : N -> str.
Variable K4 : codecs4.
Hypothesis L1 : L1_glif pf ff ff3 fi fh.
Let K := with_plist_files pf ff fi K4.

Lemma plist_files_lawful : codecs4_ok K4 -> codecs_ok K.
Proof. destruct L1 as [Hff [_ [_ Hfi]]]. apply with_plist_files_ok; assumption. Qed.
Lemma plist_files_closed : codecs4_closed K4 -> codecs_closed K.
Proof. intros H. destruct L1 as [_ [_ [_ Hfi]]]. apply with_plist_files_closed; assumption. Qed.

Theorem roundtrip_real_plist : codecs4_ok K4 ->
  forall o (f : font (real_sig pf ff ff3 fi fh K)),
  font_valid (real_sig pf ff ff3 fi fh K) f ->
  exists t, save (real_sig pf ff ff3 fi fh K) o f = Ok t /\
            spec_write (real_sig pf ff ff3 fi fh K) norad_choices o f = Some t /\
            exists f', load (real_sig pf ff ff3 fi fh K) t = Ok f' /\ font_equiv (real_sig pf ff ff3 fi fh K) f f'.
Proof. intros H4. apply roundtrip_real; [exact L1|apply plist_files_lawful; exact H4]. Qed.

Theorem fixed_point_real_plist : codecs4_ok K4 -> codecs4_closed K4 ->
  forall o (t : tree (real_sig pf ff ff3 fi fh K)) (f : font (real_sig pf ff ff3 fi fh K)) mc m,
  load (real_sig pf ff ff3 fi fh K) t = Ok f ->
  t_meta _ t = Some mc -> dec (P_meta (real_sig pf ff ff3 fi fh K)) mc = Some m -> m_version m = 3 ->
  Forall (fun l => Forall (fun e : str * str * glyph => glyph_rt_domain pf ff3 (snd e)) (l_glyphs l)) (f_layers _ f) ->
  exists t', save (real_sig pf ff ff3 fi fh K) o f = Ok t' /\
             exists f', load (real_sig pf ff ff3 fi fh K) t' = Ok f' /\ font_equiv (real_sig pf ff ff3 fi fh K) f f'.
Proof.
  intros H4 C4. apply fixed_point_real;
    [exact L1|apply plist_files_lawful; exact H4|apply plist_files_closed; exact C4].
Qed.
End RealPlistFiles.

(** the domains of the three real file codecs are inhabited *)
Example plist_files_domains_inhabited :
  wf_meta {| m_creator := Some NORAD_CREATOR; m_version := 3; m_minor := 0 |} /\
  wf_lc [([102;111;114;101], [103;108;121;112;104;115])] /\
  wf_ct [([65], [65;95;46;103;108;105;102]); ([97], [97;46;103;108;105;102])].
Proof.
  split; [split; [simpl; auto|reflexivity]|]. split.
  - constructor; [vm_compute; reflexivity|constructor].
  - split.
    + simpl. split; [|split; [intros k []|exact I]]. intros k [<-|[]]. vm_compute. reflexivity.
    + constructor; [vm_compute; reflexivity|]. constructor; [vm_compute; reflexivity|constructor].
Qed.
