(** Lemmas about the store model (Model/Store.v). Part 1: equality tests, prefixes, parsing of
    path texts, the key map. *)
Require Import Norad.Model.Base Norad.Model.Store.
Open Scope N_scope.

(** * Boolean equalities *)

Lemma list_eqb_eq {A} (eqb : A -> A -> bool) :
  (forall x y, eqb x y = true <-> x = y) ->
  forall a b, list_eqb eqb a b = true <-> a = b.
Proof.
  intros H a. induction a as [|x a IH]; intros [|y b]; simpl; split; intros E;
    try reflexivity; try discriminate.
  - apply andb_true_iff in E. destruct E as [E1 E2]. apply H in E1. apply IH in E2. congruence.
  - inversion E; subst. apply andb_true_iff. split; [apply H; reflexivity | apply IH; reflexivity].
Qed.

Lemma str_eqb_eq a b : str_eqb a b = true <-> a = b.
Proof. apply list_eqb_eq. intros x y. apply N.eqb_eq. Qed.
Lemma str_eqb_refl a : str_eqb a a = true.
Proof. apply str_eqb_eq. reflexivity. Qed.
Lemma str_eqb_neq a b : str_eqb a b = false <-> a <> b.
Proof.
  split.
  - intros E H. apply str_eqb_eq in H. congruence.
  - intros H. destruct (str_eqb a b) eqn:E; [|reflexivity]. apply str_eqb_eq in E. contradiction.
Qed.

Lemma comp_eqb_eq a b : comp_eqb a b = true <-> a = b.
Proof.
  destruct a, b; simpl; split; intros E; try reflexivity; try discriminate.
  - apply str_eqb_eq in E. congruence.
  - inversion E. apply str_eqb_refl.
Qed.
Lemma path_eqb_eq a b : path_eqb a b = true <-> a = b.
Proof. apply list_eqb_eq. apply comp_eqb_eq. Qed.
Lemma path_eqb_refl a : path_eqb a a = true.
Proof. apply path_eqb_eq. reflexivity. Qed.
Lemma path_eqb_neq a b : path_eqb a b = false <-> a <> b.
Proof.
  split.
  - intros E H. apply path_eqb_eq in H. congruence.
  - intros H. destruct (path_eqb a b) eqn:E; [|reflexivity]. apply path_eqb_eq in E. contradiction.
Qed.
Lemma names_eqb_eq a b : names_eqb a b = true <-> a = b.
Proof. apply list_eqb_eq. apply str_eqb_eq. Qed.
Lemma names_eqb_refl a : names_eqb a a = true.
Proof. apply names_eqb_eq. reflexivity. Qed.
Lemma names_eqb_neq a b : names_eqb a b = false <-> a <> b.
Proof.
  split.
  - intros E H. apply names_eqb_eq in H. congruence.
  - intros H. destruct (names_eqb a b) eqn:E; [|reflexivity]. apply names_eqb_eq in E. contradiction.
Qed.

Lemma key_eqb_spec a b : key_eqb a b = true <-> components a = components b.
Proof. unfold key_eqb. apply path_eqb_eq. Qed.
Lemma key_eqb_false a b : key_eqb a b = false <-> components a <> components b.
Proof. unfold key_eqb. apply path_eqb_neq. Qed.

(** * Prefixes *)

Lemma is_prefix_spec a b : is_prefix a b = true <-> exists c, b = a ++ c.
Proof.
  revert b. induction a as [|x a IH]; intros b; simpl.
  - split; [intros _; exists b; reflexivity | reflexivity].
  - destruct b as [|y b].
    + split; [discriminate | intros [c E]; discriminate].
    + rewrite andb_true_iff, comp_eqb_eq, IH. split.
      * intros [E [c Ec]]. exists c. subst. reflexivity.
      * intros [c Ec]. inversion Ec; subst. split; [reflexivity | exists c; reflexivity].
Qed.
Lemma is_prefix_refl a : is_prefix a a = true.
Proof. apply is_prefix_spec. exists []. symmetry. apply app_nil_r. Qed.

Lemma proper_prefixes_spec p q :
  In q (proper_prefixes p) <-> q <> [] /\ exists c, c <> [] /\ p = q ++ c.
Proof.
  revert q. induction p as [|x r IH]; intros q; simpl.
  - split; [contradiction | intros [Hq [c [Hc E]]]].
    destruct q; [congruence | discriminate].
  - destruct r as [|y r'].
    + simpl. split; [contradiction|]. intros [Hq [c [Hc E]]].
      destruct q as [|z q]; [congruence|]. inversion E as [[E1 E2]].
      destruct q; [destruct c; [congruence | discriminate] | discriminate].
    + split.
      * intros [E | HIn].
        -- subst q. split; [discriminate|]. exists (y :: r'). split; [discriminate | reflexivity].
        -- apply in_map_iff in HIn. destruct HIn as [q' [E HIn]]. subst q.
           apply IH in HIn. destruct HIn as [_ [c [Hc E]]].
           split; [discriminate|]. exists c. split; [exact Hc|]. simpl. rewrite <- E. reflexivity.
      * intros [Hq [c [Hc E]]]. destruct q as [|z q]; [congruence|].
        inversion E as [[E1 E2]]. subst z. destruct q as [|z' q'].
        -- left. reflexivity.
        -- right. apply in_map. apply IH. split; [discriminate|]. exists c. split; assumption.
Qed.

(** * Segments and components *)

Definition no_sep (s : str) : Prop := ~ In SEP s.

Lemma existsb_sep_false s : existsb (N.eqb SEP) s = false <-> no_sep s.
Proof.
  unfold no_sep. split.
  - intros E H. assert (X : existsb (N.eqb SEP) s = true).
    { apply existsb_exists. exists SEP. split; [exact H | apply N.eqb_refl]. }
    congruence.
  - intros H. destruct (existsb (N.eqb SEP) s) eqn:E; [|reflexivity].
    apply existsb_exists in E. destruct E as [x [Hx E]]. apply N.eqb_eq in E. subst x. contradiction.
Qed.

Lemma segments_nonempty s : segments s <> [].
Proof.
  induction s as [|c r IH]; simpl; [discriminate|].
  destruct (c =? SEP); [discriminate|]. destruct (segments r); [contradiction|discriminate].
Qed.

Lemma segments_no_sep s : Forall no_sep (segments s).
Proof.
  induction s as [|c r IH]; simpl.
  - constructor; [intros H; exact H | constructor].
  - destruct (c =? SEP) eqn:E.
    + constructor; [intros H; exact H | exact IH].
    + destruct (segments r) as [|seg rest]; [constructor; [|constructor]|].
      * intros [H|H]; [|exact H]. subst c. rewrite N.eqb_refl in E. discriminate.
      * inversion IH as [|? ? H1 H2]; subst. constructor; [|exact H2].
        intros [H|H]; [|exact (H1 H)]. subst c. rewrite N.eqb_refl in E. discriminate.
Qed.

Lemma segments_plain s : no_sep s -> segments s = [s].
Proof.
  induction s as [|c r IH]; intros H; simpl; [reflexivity|].
  destruct (c =? SEP) eqn:E.
  - apply N.eqb_eq in E. exfalso. apply H. left. exact E.
  - rewrite IH; [reflexivity|]. intros X. apply H. right. exact X.
Qed.

Lemma segments_app_sep s t : no_sep s -> segments (s ++ SEP :: t) = s :: segments t.
Proof.
  induction s as [|c r IH]; intros H; simpl.
  - reflexivity.
  - destruct (c =? SEP) eqn:E.
    + apply N.eqb_eq in E. exfalso. apply H. left. exact E.
    + rewrite IH; [reflexivity|]. intros X. apply H. right. exact X.
Qed.

Lemma segments_join ns : ns <> [] -> Forall no_sep ns -> segments (join ns) = ns.
Proof.
  induction ns as [|n r IH]; intros Hne H; [congruence|].
  inversion H as [|? ? H1 H2]; subst. destruct r as [|n2 r'].
  - simpl. apply segments_plain. exact H1.
  - change (join (n :: n2 :: r')) with (n ++ SEP :: join (n2 :: r')).
    rewrite segments_app_sep by exact H1. rewrite IH; [reflexivity | discriminate | exact H2].
Qed.

Lemma name_ok_spec s :
  name_ok s = true <-> s <> [] /\ no_sep s /\ s <> [DOT] /\ s <> [DOT; DOT].
Proof.
  unfold name_ok, is_dot, is_dotdot. rewrite !andb_true_iff, !negb_true_iff.
  rewrite existsb_sep_false, !str_eqb_neq. destruct s; simpl; intuition congruence.
Qed.

Lemma seg_comp_ok s : name_ok s = true -> seg_comp s = [Normal s].
Proof.
  intros H. apply name_ok_spec in H. destruct H as [H1 [H2 [H3 H4]]].
  unfold seg_comp, is_dot, is_dotdot. destruct s; [congruence|]. simpl is_nil. cbv iota.
  apply str_eqb_neq in H3. apply str_eqb_neq in H4. rewrite H3, H4. reflexivity.
Qed.
Lemma first_comp_ok s : name_ok s = true -> first_comp s = [Normal s].
Proof.
  intros H. apply name_ok_spec in H. destruct H as [H1 [H2 [H3 H4]]].
  unfold first_comp, is_dot, is_dotdot. destruct s; [congruence|]. simpl is_nil. cbv iota.
  apply str_eqb_neq in H3. apply str_eqb_neq in H4. rewrite H3, H4. reflexivity.
Qed.

(** every [Normal] component that [seg_comp]/[first_comp] produce from a separator-free piece
    is a valid name *)
Lemma seg_comp_normal s c : no_sep s -> In c (seg_comp s) -> is_normal c = true -> c = Normal s /\ name_ok s = true.
Proof.
  intros Hs. unfold seg_comp. destruct (is_nil s) eqn:E1; [contradiction|].
  destruct (is_dot s) eqn:E2; [contradiction|]. destruct (is_dotdot s) eqn:E3.
  - intros [H|[]] Hn. subst c. discriminate.
  - intros [H|[]] _. subst c. split; [reflexivity|]. unfold name_ok. rewrite E1, E2, E3.
    apply existsb_sep_false in Hs. rewrite Hs. reflexivity.
Qed.
Lemma first_comp_normal s c : no_sep s -> In c (first_comp s) -> is_normal c = true -> c = Normal s /\ name_ok s = true.
Proof.
  intros Hs. unfold first_comp. destruct (is_nil s) eqn:E1; [contradiction|].
  destruct (is_dot s) eqn:E2; [intros [H|[]] Hn; subst c; discriminate|]. destruct (is_dotdot s) eqn:E3.
  - intros [H|[]] Hn. subst c. discriminate.
  - intros [H|[]] _. subst c. split; [reflexivity|]. unfold name_ok. rewrite E1, E2, E3.
    apply existsb_sep_false in Hs. rewrite Hs. reflexivity.
Qed.

Definition normal_ok (c : comp) : Prop := match c with Normal s => name_ok s = true | _ => False end.

Lemma flat_map_seg_comp_normal l c :
  Forall no_sep l -> In c (flat_map seg_comp l) -> is_normal c = true -> normal_ok c.
Proof.
  intros Hl HIn Hn. apply in_flat_map in HIn. destruct HIn as [s [Hs HIn]].
  rewrite Forall_forall in Hl. destruct (seg_comp_normal s c (Hl s Hs) HIn Hn) as [E1 E2].
  subst c. exact E2.
Qed.

Lemma components_normal_ok raw c : In c (components raw) -> is_normal c = true -> normal_ok c.
Proof.
  unfold components. destruct raw as [|x r]; [contradiction|].
  pose proof (segments_no_sep (x :: r)) as Hs.
  destruct (is_absolute (x :: r)).
  - intros [H|H] Hn; [subst c; discriminate|]. eapply flat_map_seg_comp_normal; eassumption.
  - destruct (segments (x :: r)) as [|f rest]; [contradiction|].
    inversion Hs as [|? ? H1 H2]; subst. intros H Hn. apply in_app_or in H. destruct H as [H|H].
    + destruct (first_comp_normal f c H1 H Hn) as [E1 E2]. subst c. exact E2.
    + eapply flat_map_seg_comp_normal; eassumption.
Qed.

Lemma all_normal_spec p : all_normal p = true <-> forall c, In c p -> is_normal c = true.
Proof. unfold all_normal. apply forallb_forall. Qed.

(** a path of valid normal components *)
Definition plain (p : path) : Prop := Forall normal_ok p.

Lemma components_plain raw : all_normal (components raw) = true -> plain (components raw).
Proof.
  intros H. unfold plain. apply Forall_forall. intros c Hc. apply components_normal_ok with (raw := raw); [exact Hc|].
  rewrite all_normal_spec in H. apply H. exact Hc.
Qed.

Lemma plain_names p : plain p -> map Normal (names p) = p.
Proof.
  induction p as [|c r IH]; intros H; [reflexivity|]. inversion H as [|? ? H1 H2]; subst.
  simpl. rewrite IH by exact H2. destruct c; simpl in H1; try contradiction. reflexivity.
Qed.
Lemma plain_names_ok p : plain p -> Forall (fun n => name_ok n = true) (names p).
Proof.
  induction p as [|c r IH]; intros H; [constructor|]. inversion H as [|? ? H1 H2]; subst.
  simpl. constructor; [|apply IH; exact H2]. destruct c; simpl in H1; try contradiction. exact H1.
Qed.
Lemma plain_all_normal p : plain p -> all_normal p = true.
Proof.
  intros H. apply all_normal_spec. intros c Hc. unfold plain in H. rewrite Forall_forall in H. specialize (H c Hc).
  destruct c; simpl in H; try contradiction. reflexivity.
Qed.
Lemma plain_map_normal ns : Forall (fun n => name_ok n = true) ns -> plain (map Normal ns).
Proof. induction 1; constructor; assumption. Qed.
Lemma names_map_normal ns : names (map Normal ns) = ns.
Proof. induction ns as [|n r IH]; [reflexivity|]. simpl. rewrite IH. reflexivity. Qed.

Lemma names_ok_no_sep ns : Forall (fun n => name_ok n = true) ns -> Forall no_sep ns.
Proof.
  intros H. eapply Forall_impl; [|exact H]. intros n Hn. apply name_ok_spec in Hn. tauto.
Qed.

Lemma join_head (n : str) (r : list str) : n <> [] -> exists x t, join (n :: r) = x :: t /\ hd 0 n = x.
Proof.
  intros Hn. destruct n as [|x n']; [congruence|]. destruct r as [|m r'].
  - exists x, n'. split; reflexivity.
  - exists x, (n' ++ SEP :: join (m :: r')). split; reflexivity.
Qed.

Lemma components_relative raw :
  raw <> [] -> is_absolute raw = false ->
  components raw = match segments raw with
                   | f :: r => first_comp f ++ flat_map seg_comp r
                   | [] => []
                   end.
Proof.
  intros Hne Habs. destruct raw as [|x r]; [congruence|]. unfold components. rewrite Habs. reflexivity.
Qed.

(** the text built from valid names parses back to exactly these names *)
Lemma components_join ns :
  ns <> [] -> Forall (fun n => name_ok n = true) ns -> components (join ns) = map Normal ns.
Proof.
  intros Hne H. pose proof (names_ok_no_sep ns H) as Hs.
  destruct ns as [|n r]; [congruence|]. inversion H as [|? ? H1 H2]; subst.
  pose proof H1 as H1'. apply name_ok_spec in H1'. destruct H1' as [Hn1 [Hn2 _]].
  destruct (join_head n r Hn1) as [x [t [E Ex]]].
  assert (Habs : is_absolute (join (n :: r)) = false).
  { rewrite E. simpl. destruct n as [|y n']; [congruence|]. simpl in Ex. subst y.
    apply N.eqb_neq. intros X. apply Hn2. left. exact X. }
  rewrite components_relative; [|rewrite E; discriminate | exact Habs].
  rewrite segments_join by (try discriminate; exact Hs).
  rewrite first_comp_ok by exact H1. simpl. f_equal.
  clear -H2. induction H2 as [|m r' Hm _ IH]; [reflexivity|].
  simpl. rewrite seg_comp_ok by exact Hm. simpl. rewrite IH. reflexivity.
Qed.

(** [PathBuf::push] of valid names is [join] *)
Lemma last_app_cons {A} (l : list A) x d : last (l ++ [x]) d = x.
Proof. induction l as [|y l IH]; [reflexivity|]. simpl. destruct (l ++ [x]) eqn:E; [destruct l; discriminate|]. exact IH. Qed.

Lemma join_snoc ns n : ns <> [] -> join (ns ++ [n]) = join ns ++ SEP :: n.
Proof.
  induction ns as [|m r IH]; intros H; [congruence|]. destruct r as [|m2 r'].
  - reflexivity.
  - change (join ((m :: m2 :: r') ++ [n])) with (m ++ SEP :: join ((m2 :: r') ++ [n])).
    rewrite IH by discriminate. change (join (m :: m2 :: r')) with (m ++ SEP :: join (m2 :: r')).
    rewrite <- app_assoc. reflexivity.
Qed.

Lemma join_last_not_sep ns : ns <> [] -> Forall (fun n => name_ok n = true) ns ->
  join ns <> [] /\ last (join ns) 0 <> SEP.
Proof.
  intros Hne H. destruct (exists_last Hne) as [r [n E]]. subst ns.
  apply Forall_app in H. destruct H as [_ H]. inversion H as [|? ? Hn _]; subst.
  apply name_ok_spec in Hn. destruct Hn as [Hn1 [Hn2 _]].
  destruct (exists_last Hn1) as [n' [x Ex]]. subst n.
  assert (Hx : x <> SEP). { intros X. apply Hn2. apply in_or_app. right. left. exact X. }
  destruct r as [|m r'].
  - simpl. split; [destruct n'; discriminate|]. rewrite last_app_cons. exact Hx.
  - rewrite join_snoc by discriminate. split; [destruct (join (m :: r')); discriminate|].
    replace (join (m :: r') ++ SEP :: n' ++ [x]) with ((join (m :: r') ++ SEP :: n') ++ [x])
      by (rewrite <- app_assoc; reflexivity).
    rewrite last_app_cons. exact Hx.
Qed.

Lemma push_sep (buf t : str) :
  buf <> [] -> is_absolute t = false -> last buf 0 <> SEP -> push buf t = buf ++ SEP :: t.
Proof.
  intros Hb Ht Hl. unfold push. rewrite Ht. destruct buf as [|x b]; [congruence|].
  apply N.eqb_neq in Hl. rewrite Hl. reflexivity.
Qed.

Lemma rebuild_aux_join pre ns :
  pre <> [] -> Forall (fun n => name_ok n = true) (pre ++ ns) ->
  fold_left (fun buf c => push buf (comp_text c)) (map Normal ns) (join pre) = join (pre ++ ns).
Proof.
  revert pre. induction ns as [|n r IH]; intros pre Hpre H.
  - rewrite app_nil_r. reflexivity.
  - simpl. replace (pre ++ n :: r) with ((pre ++ [n]) ++ r) by (rewrite <- app_assoc; reflexivity).
    replace (pre ++ n :: r) with ((pre ++ [n]) ++ r) in H by (rewrite <- app_assoc; reflexivity).
    rewrite <- IH; [|destruct pre; discriminate | exact H]. f_equal.
    apply Forall_app in H. destruct H as [H _]. apply Forall_app in H. destruct H as [Hp Hn].
    inversion Hn as [|? ? Hn1 _]; subst. apply name_ok_spec in Hn1. destruct Hn1 as [Hn1 [Hn2 _]].
    destruct (join_last_not_sep pre Hpre Hp) as [J1 J2].
    assert (Habs : is_absolute n = false).
    { destruct n as [|x n']; [reflexivity|]. simpl. apply N.eqb_neq. intros X. apply Hn2. left. exact X. }
    simpl comp_text. rewrite push_sep by assumption. rewrite join_snoc by exact Hpre. reflexivity.
Qed.

Lemma rebuild_normals ns :
  Forall (fun n => name_ok n = true) ns -> rebuild (map Normal ns) = join ns.
Proof.
  intros H. destruct ns as [|n r]; [reflexivity|]. unfold rebuild. simpl.
  inversion H as [|? ? H1 H2]; subst. pose proof H1 as H1'. apply name_ok_spec in H1'.
  destruct H1' as [Hn1 [Hn2 _]].
  assert (E : push [] n = join [n]).
  { unfold push. destruct n as [|x n']; [congruence|]. simpl.
    assert (X : x =? SEP = false) by (apply N.eqb_neq; intros X; apply Hn2; left; exact X).
    rewrite X. reflexivity. }
  rewrite E. apply (rebuild_aux_join [n] r); [discriminate | exact H].
Qed.

(** the stored key of an accepted insertion names the same path and is in plain form *)
Lemma components_rebuild p : p <> [] -> plain p -> components (rebuild p) = p.
Proof.
  intros Hne H. rewrite <- (plain_names p H) at 1. rewrite rebuild_normals by (apply plain_names_ok; exact H).
  rewrite components_join; [apply plain_names; exact H | | apply plain_names_ok; exact H].
  destruct p; [congruence | discriminate].
Qed.

Lemma rebuild_plain_text p : p <> [] -> plain p ->
  rebuild p <> [] /\ is_absolute (rebuild p) = false.
Proof.
  intros Hne H. rewrite <- (plain_names p H). rewrite rebuild_normals by (apply plain_names_ok; exact H).
  pose proof (plain_names_ok p H) as Hn. destruct p as [|c r]; [congruence|]. simpl names in *.
  inversion Hn as [|? ? H1 H2]; subst. apply name_ok_spec in H1. destruct H1 as [Hn1 [Hn2 _]].
  destruct (join_head _ (names r) Hn1) as [x [t [E Ex]]]. rewrite E. split; [discriminate|].
  simpl. apply N.eqb_neq. intros X. apply Hn2. subst x.
  destruct (match c with Normal s => s | _ => [] end); [congruence|]. simpl in X. left. exact X.
Qed.

(** only the empty text has no components; an absolute text starts with the root *)
Lemma components_nil raw : components raw = [] -> all_normal (components raw) = true -> is_absolute raw = false -> raw = [].
Proof.
  destruct raw as [|x r]; [reflexivity|]. intros E _ Habs. exfalso. revert E. unfold components. rewrite Habs.
  pose proof (segments_nonempty (x :: r)) as Hs. destruct (segments (x :: r)) as [|f rest] eqn:Es; [congruence|].
  assert (Hf : f <> []).
  { simpl in Es. simpl in Habs. rewrite Habs in Es. destruct (segments r); inversion Es; discriminate. }
  unfold first_comp. destruct f; [congruence|]. simpl is_nil. cbv iota.
  destruct (is_dot (n :: f)); [discriminate|]. destruct (is_dotdot (n :: f)); discriminate.
Qed.

Lemma components_nonempty raw : raw <> [] -> components raw <> [].
Proof.
  destruct raw as [|x r]; [congruence|]. intros _. unfold components.
  destruct (is_absolute (x :: r)) eqn:Habs; [discriminate|].
  pose proof (segments_nonempty (x :: r)) as Hs. destruct (segments (x :: r)) as [|f rest] eqn:Es; [congruence|].
  assert (Hf : f <> []).
  { simpl in Es. simpl in Habs. rewrite Habs in Es. destruct (segments r); inversion Es; discriminate. }
  unfold first_comp. destruct f; [congruence|]. simpl is_nil. cbv iota.
  destruct (is_dot (n :: f)); [discriminate|]. destruct (is_dotdot (n :: f)); discriminate.
Qed.

Lemma absolute_not_normal raw : is_absolute raw = true -> all_normal (components raw) = false.
Proof.
  intros H. unfold components. destruct raw; [discriminate|]. rewrite H. reflexivity.
Qed.
