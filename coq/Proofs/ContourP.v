(** Lemmas about the contour model: the builder accepts exactly the legal sequences. *)
Require Import Norad.Model.Base Norad.Model.Contour.
From Coq Require Import ZifyBool ZifyN ZifyNat.
Open Scope N_scope.

(* ---------- proofs ---------- *)
Lemma MAXU_big : 2 < MAXU. Proof. unfold MAXU; lia. Qed.
Opaque MAXU.

Lemma trail_snoc l p : trail (l ++ [p]) = if is_off p then 1 + trail l else 0.
Proof. unfold trail. rewrite rev_app_distr. reflexivity. Qed.

Lemma run_snoc l p : forall st,
  run st (l ++ [p]) = match run st l with inl e => inl e | inr st' => step st' p end.
Proof.
  induction l as [|q l IH]; intros st; cbn [run app].
  - destruct (step st p) as [e|st']; reflexivity.
  - destruct (step st q) as [e|st']; [reflexivity|apply IH].
Qed.

(* the condition a point must meet given what precedes it linearly *)
Definition cond (isfirst : bool) (t : N) (p : pt) : Prop :=
  (fst p = Move -> isfirst = true) /\
  (fst p = Off -> snd p = false) /\
  (fst p = Line -> t = 0) /\
  (fst p = Curve -> t <= 2).

Definition isnil (l : list pt) : bool := match l with [] => true | _ => false end.

Lemma step_ok l p :
  (exists st', step (isnil l, N.min (trail l) MAXU) p = inr st') <-> cond (isnil l) (trail l) p.
Proof.
  pose proof MAXU_big as HM. unfold step, cond. destruct p as [ty sm]; cbn [fst snd].
  destruct ty.
  - destruct (isnil l); split; intros H.
    + repeat split; intros; congruence.
    + eexists; reflexivity.
    + destruct H as [? H]; discriminate.
    + destruct H as [H _]. specialize (H eq_refl). discriminate.
  - destruct (0 <? N.min (trail l) MAXU) eqn:E; split; intros H.
    + destruct H as [? H]; discriminate.
    + destruct H as (_ & _ & H & _). specialize (H eq_refl). lia.
    + repeat split; intros; try congruence. lia.
    + eexists; reflexivity.
  - destruct sm; split; intros H.
    + destruct H as [? H]; discriminate.
    + destruct H as (_ & H & _). specialize (H eq_refl). discriminate.
    + repeat split; intros; congruence.
    + eexists; reflexivity.
  - destruct (2 <? N.min (trail l) MAXU) eqn:E; split; intros H.
    + destruct H as [? H]; discriminate.
    + destruct H as (_ & _ & _ & H). specialize (H eq_refl). lia.
    + repeat split; intros; try congruence. lia.
    + eexists; reflexivity.
  - split; intros _; [repeat split; intros; congruence | eexists; reflexivity].
Qed.

Lemma step_state l p st' :
  step (isnil l, N.min (trail l) MAXU) p = inr st' ->
  st' = (isnil (l ++ [p]), N.min (trail (l ++ [p])) MAXU).
Proof.
  pose proof MAXU_big as HM.
  assert (Hn : isnil (l ++ [p]) = false) by (destruct l; reflexivity).
  rewrite Hn, trail_snoc. unfold step, is_off, sat_succ. destruct p as [ty sm]; cbn [fst snd].
  destruct ty.
  - destruct (isnil l) eqn:E; [|discriminate]. intros H; inversion H; subst.
    destruct l; [|discriminate]. reflexivity.
  - destruct (0 <? _) eqn:E; [discriminate|]. intros H; inversion H; subst. f_equal. lia.
  - destruct sm; [discriminate|]. intros H; inversion H; subst. f_equal. lia.
  - destruct (2 <? _); [discriminate|]. intros H; inversion H; reflexivity.
  - intros H; inversion H; reflexivity.
Qed.

(* linear legality: every point meets [cond] w.r.t. its prefix *)
Definition lin_ok (pts : list pt) : Prop :=
  forall i p, nth_error pts i = Some p ->
    cond (isnil (firstn i pts)) (trail (firstn i pts)) p.

Lemma lin_ok_snoc l p : lin_ok (l ++ [p]) <-> lin_ok l /\ cond (isnil l) (trail l) p.
Proof.
  unfold lin_ok; split.
  - intros H; split.
    + intros i q Hq. assert (Hi : (i < length l)%nat) by (apply nth_error_Some; congruence).
      specialize (H i q). rewrite nth_error_app1 in H by assumption.
      rewrite firstn_app in H. replace (i - length l)%nat with 0%nat in H by lia.
      cbn [firstn] in H. rewrite app_nil_r in H. auto.
    + specialize (H (length l) p). rewrite nth_error_app2 in H by lia.
      rewrite Nat.sub_diag in H. cbn [nth_error] in H.
      rewrite firstn_app, firstn_all, Nat.sub_diag in H. cbn [firstn] in H.
      rewrite app_nil_r in H. auto.
  - intros [Hl Hp] i q Hq.
    destruct (Nat.lt_ge_cases i (length l)) as [Hi|Hi].
    + rewrite nth_error_app1 in Hq by assumption.
      rewrite firstn_app. replace (i - length l)%nat with 0%nat by lia.
      cbn [firstn]. rewrite app_nil_r. auto.
    + assert (i = length l).
      { assert (i < length (l ++ [p]))%nat by (apply nth_error_Some; congruence).
        rewrite app_length in *. cbn in *. lia. }
      subst i. rewrite nth_error_app2 in Hq by lia. rewrite Nat.sub_diag in Hq.
      cbn in Hq. inversion Hq; subst q.
      rewrite firstn_app, firstn_all, Nat.sub_diag. cbn [firstn]. rewrite app_nil_r. auto.
Qed.

Lemma run_inv pts :
  (lin_ok pts -> run (true, 0) pts = inr (isnil pts, N.min (trail pts) MAXU)) /\
  ((exists st, run (true, 0) pts = inr st) -> lin_ok pts).
Proof.
  induction pts as [|p l IH] using rev_ind.
  - split; [reflexivity|]. intros _ i p H. destruct i; discriminate.
  - destruct IH as [IH1 IH2]. rewrite run_snoc. split.
    + intros H. apply lin_ok_snoc in H. destruct H as [Hl Hp].
      rewrite (IH1 Hl). apply step_ok in Hp. destruct Hp as [st' Hst].
      rewrite Hst. f_equal. eapply step_state; eauto.
    + intros [st Hst]. destruct (run (true, 0) l) as [e|st0] eqn:E; [discriminate|].
      assert (Hl : lin_ok l) by (apply IH2; eauto).
      specialize (IH1 Hl). injection IH1 as ->.
      apply lin_ok_snoc. split; [assumption|]. apply step_ok. eauto.
Qed.

(* ---------- wrap-around ---------- *)
Fixpoint first_on (l : list pt) : option pt :=
  match l with [] => None | p :: r => if is_off p then first_on r else Some p end.

Definition wrap_ok (t : N) (pts : list pt) : Prop :=
  match first_on pts with
  | None => True
  | Some p => fst p <> Line /\ fst p <> Move /\ (fst p = Curve -> t + lead pts <= 2)
  end.

Lemma wrap_spec pts : forall c, c <= MAXU ->
  (wrap c pts = None <-> wrap_ok c pts).
Proof.
  pose proof MAXU_big as HM. unfold wrap_ok.
  induction pts as [|p r IH]; intros c Hc; cbn [wrap first_on lead].
  - tauto.
  - unfold is_off. destruct p as [ty sm]; cbn [fst]. destruct ty.
    + split; [discriminate | intros (_ & H & _); exfalso; apply H; reflexivity].
    + split; [discriminate | intros [H _]; exfalso; apply H; reflexivity].
    + specialize (IH (sat_succ c)). rewrite IH by (unfold sat_succ; lia).
      destruct (first_on r) as [q|]; [|tauto].
      unfold sat_succ. split; intros (H1 & H1' & H2); (split; [assumption|split; [assumption|]]);
        intros H; specialize (H2 H); lia.
    + destruct (2 <? c) eqn:E; split.
      * discriminate.
      * intros (_ & _ & H). specialize (H eq_refl). lia.
      * intros _. split; [discriminate|]. split; [discriminate|]. intros _. lia.
      * reflexivity.
    + split; [intros _; split; [discriminate|split; [discriminate|intros X; discriminate X]] | reflexivity].
Qed.

Definition all_off (l : list pt) : bool := forallb is_off l.

Lemma trail_le_len l : trail l <= len l.
Proof.
  unfold len. induction l as [|p l IH] using rev_ind; [cbn; lia|].
  rewrite trail_snoc, app_length. cbn [length]. destruct (is_off p); lia.
Qed.

Lemma trail_full l : trail l = len l <-> all_off l = true.
Proof.
  unfold all_off, len. induction l as [|p l IH] using rev_ind; [cbn; tauto|].
  rewrite trail_snoc, app_length, forallb_app. cbn [length forallb].
  pose proof (trail_le_len l) as Hle. unfold len in Hle.
  destruct (is_off p); rewrite ?andb_true_r, ?andb_false_r.
  - rewrite <- IH. split; lia.
  - split; [lia | discriminate].
Qed.

Lemma first_on_at pts : forall i p,
  all_off (firstn i pts) = true -> nth_error pts i = Some p -> is_off p = false ->
  first_on pts = Some p /\ lead pts = N.of_nat i.
Proof.
  unfold all_off. induction pts as [|q r IH]; intros i p Ha Hn Hp.
  - destruct i; discriminate.
  - destruct i as [|i].
    + cbn in Hn. inversion Hn; subst q. cbn [first_on lead]. rewrite Hp. split; reflexivity.
    + cbn [firstn forallb nth_error] in *. apply andb_prop in Ha. destruct Ha as [Hq Ha].
      cbn [first_on lead]. rewrite Hq.
      destruct (IH i p Ha Hn Hp) as [H1 H2]. split; [assumption|]. rewrite H2. lia.
Qed.

Lemma first_on_nth pts p : first_on pts = Some p ->
  nth_error pts (N.to_nat (lead pts)) = Some p /\
  all_off (firstn (N.to_nat (lead pts)) pts) = true /\ is_off p = false.
Proof.
  unfold all_off. induction pts as [|q r IH]; cbn [first_on lead]; [discriminate|].
  destruct (is_off q) eqn:E; intros H.
  - destruct (IH H) as (H1 & H2 & H3).
    replace (N.to_nat (1 + lead r)) with (S (N.to_nat (lead r))) by lia.
    cbn [nth_error firstn forallb]. rewrite E. auto.
  - inversion H; subst q. cbn. auto.
Qed.

Lemma first_on_none pts : first_on pts = None -> all_off pts = true.
Proof.
  unfold all_off. induction pts as [|q r IH]; cbn; [reflexivity|].
  destruct (is_off q); [auto|discriminate].
Qed.

Lemma all_off_nth l : all_off l = true -> forall i p, nth_error l i = Some p -> is_off p = true.
Proof.
  unfold all_off. intros H i p Hn. rewrite forallb_forall in H. apply H. eapply nth_error_In; eauto.
Qed.

Definition legal' (pts : list pt) : Prop :=
  (forall i p, nth_error pts i = Some p -> cond (isnil (firstn i pts)) (cyc_run pts i) p) /\
  (is_closed pts = false -> trail pts = 0).

Lemma isnil_firstn pts i p : nth_error pts i = Some p -> (isnil (firstn i pts) = true <-> i = 0%nat).
Proof.
  intros H. destruct i; [cbn; tauto|]. destruct pts; [discriminate|]. cbn. split; discriminate.
Qed.

Lemma legal_legal' pts : legal pts <-> legal' pts.
Proof.
  unfold legal, legal', cond. split; intros [H1 H2]; (split; [|assumption]); intros i p Hn;
    specialize (H1 i p Hn); pose proof (isnil_firstn pts i p Hn) as Hi; tauto.
Qed.

Lemma first_closed pts p : first_on pts = Some p -> is_closed pts = true -> lin_ok pts -> fst p <> Move.
Proof.
  intros Hf Hc Hl Hm. destruct (first_on_nth pts p Hf) as (Hn & Ha & Ho).
  specialize (Hl _ _ Hn). destruct Hl as [Hl _]. specialize (Hl Hm).
  apply (isnil_firstn pts _ p Hn) in Hl.
  destruct pts as [|q r]; [discriminate|]. rewrite Hl in Hn. cbn in Hn. inversion Hn; subst q.
  destruct p as [ty sm]. cbn in Hm. subst ty. discriminate.
Qed.

Theorem accepts_iff_legal pts : (exists r, build pts = inr r) <-> legal pts.
Proof.
  pose proof MAXU_big as HM. rewrite legal_legal'. unfold build, legal'.
  destruct (run_inv pts) as [R1 R2].
  destruct (N.eq_dec (trail pts) 0) as [Ht|Ht].
  - (* no trailing off-curves: cyclic = linear *)
    assert (Hc : forall i, cyc_run pts i = trail (firstn i pts)).
    { intros i. unfold cyc_run. destruct (_ && _); lia. }
    split.
    + intros [r Hr]. destruct (run (true, 0) pts) as [e|[b cnt]] eqn:E; [discriminate|].
      split; [|auto]. intros i p Hn. rewrite Hc. apply R2; eauto.
    + intros [Hl _]. assert (Hl' : lin_ok pts) by (intros i p Hn; rewrite <- Hc; auto).
      rewrite (R1 Hl'), Ht. replace (0 <? N.min 0 MAXU) with false by lia. eauto.
  - destruct (is_closed pts) eqn:Hcl.
    + (* closed, trailing off-curves: wrap-around *)
      assert (Hw : wrap (N.min (trail pts) MAXU) pts = None <-> wrap_ok (trail pts) pts).
      { rewrite wrap_spec by lia. unfold wrap_ok. destruct (first_on pts); [|tauto].
        split; intros (A & A' & B); (split; [assumption|split; [assumption|]]); intros C; specialize (B C); lia. }
      split.
      * intros [r Hr]. destruct (run (true, 0) pts) as [e|[b cnt]] eqn:E; [discriminate|].
        assert (Hl : lin_ok pts) by (apply R2; eauto).
        specialize (R1 Hl). injection R1 as -> ->.
        replace (0 <? N.min (trail pts) MAXU) with true in Hr by lia.
        assert (EW : wrap (N.min (trail pts) MAXU) pts = None).
        { destruct (wrap (N.min (trail pts) MAXU) pts); [discriminate Hr | reflexivity]. }
        apply Hw in EW.
        split; [|discriminate]. intros i p Hn. specialize (Hl i p Hn).
        unfold cyc_run. rewrite Hcl. cbn [andb]. destruct (trail (firstn i pts) =? N.of_nat i) eqn:Ei; [|assumption].
        assert (Ha : all_off (firstn i pts) = true).
        { apply trail_full. unfold len. rewrite firstn_length_le; [lia|].
          apply Nat.lt_le_incl, nth_error_Some. congruence. }
        destruct (is_off p) eqn:Ep.
        { unfold cond in *. unfold is_off in Ep. destruct p as [ty sm]; cbn [fst snd] in *.
          destruct ty; try discriminate. repeat split; intros; try congruence. tauto. }
        destruct (first_on_at pts i p Ha Hn Ep) as [Hf Hlead].
        unfold wrap_ok in EW. rewrite Hf in EW. destruct EW as (W1 & W1' & W2).
        unfold cond in *. destruct Hl as (L1 & L2 & L3 & L4).
        repeat split; auto; [intros; contradiction|]. intros Hcv. specialize (W2 Hcv). lia.
      * intros [Hl _].
        assert (Hle : forall i, trail (firstn i pts) <= cyc_run pts i).
        { intros i. unfold cyc_run. destruct (_ && _); lia. }
        assert (Hl' : lin_ok pts).
        { intros i p Hn. specialize (Hl i p Hn). specialize (Hle i). unfold cond in *.
          destruct Hl as (L1 & L2 & L3 & L4). repeat split; auto; intros H; [specialize (L3 H)|specialize (L4 H)]; lia. }
        rewrite (R1 Hl'). replace (0 <? N.min (trail pts) MAXU) with true by lia.
        assert (EW : wrap_ok (trail pts) pts).
        { unfold wrap_ok. destruct (first_on pts) as [p|] eqn:Hf; [|exact I].
          destruct (first_on_nth pts p Hf) as (Hn & Ha & Ho).
          specialize (Hl _ _ Hn). unfold cyc_run in Hl. rewrite Hcl in Hl. cbn [andb] in Hl.
          apply trail_full in Ha. unfold len in Ha. rewrite firstn_length_le in Ha
            by (apply Nat.lt_le_incl, nth_error_Some; congruence).
          replace (trail (firstn (N.to_nat (lead pts)) pts) =? N.of_nat (N.to_nat (lead pts))) with true in Hl by lia.
          pose proof (first_closed pts p Hf Hcl Hl') as Hmv.
          destruct Hl as (L1 & L2 & L3 & L4). split; [|split].
          - intros H. specialize (L3 H). lia.
          - exact Hmv.
          - intros H. specialize (L4 H). lia. }
        apply Hw in EW. rewrite EW. eauto.
    + (* open with trailing off-curves: rejected, and illegal *)
      split.
      * intros [r Hr]. destruct (run (true, 0) pts) as [e|[b cnt]] eqn:E; [discriminate|].
        assert (Hl : lin_ok pts) by (apply R2; eauto).
        specialize (R1 Hl). injection R1 as -> ->.
        replace (0 <? N.min (trail pts) MAXU) with true in Hr by lia. discriminate.
      * intros [_ H]. specialize (H eq_refl). contradiction.
Qed.

Theorem points_unchanged pts r : build pts = inr r -> r = pts.
Proof.
  unfold build. destruct (run _ pts) as [e|[b c]]; [discriminate|].
  destruct (0 <? c); [|congruence]. destruct (is_closed pts); [|discriminate].
  destruct (wrap c pts); [discriminate|congruence].
Qed.


(** The [unreachable!()] arm of [end_path] is never taken (C03 site builder.rs/end_path). *)
Lemma wrap_unreachable_first c pts : wrap c pts = Some UnreachableMove ->
  exists p, first_on pts = Some p /\ fst p = Move.
Proof.
  revert c. induction pts as [|q r IH]; intros c; cbn [wrap first_on]; [discriminate|].
  unfold is_off. destruct q as [ty sm]; cbn [fst]. destruct ty; try discriminate.
  - intros _. eexists; split; reflexivity.
  - apply IH.
  - destruct (2 <? c); discriminate.
Qed.

Lemma run_not_unreachable pts : forall st, run st pts <> inl UnreachableMove.
Proof.
  induction pts as [|p r IH]; intros st; cbn [run]; [discriminate|].
  destruct (step st p) as [e|st'] eqn:E; [|apply IH].
  unfold step in E. destruct st as [em c]. destruct p as [ty sm]; cbn [fst snd] in E.
  destruct ty.
  - destruct em; inversion E; discriminate.
  - destruct (0 <? c); inversion E; discriminate.
  - destruct sm; inversion E; discriminate.
  - destruct (2 <? c); inversion E; discriminate.
  - discriminate.
Qed.

Theorem build_no_unreachable pts : build pts <> inl UnreachableMove.
Proof.
  unfold build. destruct (run_inv pts) as [R1 R2].
  destruct (run (true, 0) pts) as [e|[b cnt]] eqn:E.
  - intros H. inversion H; subst. exact (run_not_unreachable pts _ E).
  - destruct (0 <? cnt); [|discriminate].
    destruct (is_closed pts) eqn:Hcl; [|discriminate].
    destruct (wrap cnt pts) as [e|] eqn:W; [|discriminate].
    intros H. inversion H; subst e.
    destruct (wrap_unreachable_first _ _ W) as (p & Hf & Hm).
    assert (Hl : lin_ok pts) by (apply R2; eauto).
    exact (first_closed pts p Hf Hcl Hl Hm).
Qed.

(** [legalb] decides [legal]. *)
Lemma legal_pt_spec pts i p :
  legal_pt pts i p = true <->
  ((fst p = Move -> i = 0%nat) /\ (fst p = Off -> snd p = false) /\
   (fst p = Line -> cyc_run pts i = 0) /\ (fst p = Curve -> cyc_run pts i <= 2)).
Proof.
  unfold legal_pt. destruct p as [ty sm]; cbn [fst snd]. destruct ty.
  - rewrite Nat.eqb_eq. split; [intros H; repeat split; intros; try discriminate; assumption|intros (H & _); auto].
  - rewrite N.eqb_eq. split; [intros H; repeat split; intros; try discriminate; assumption|intros (_ & _ & H & _); auto].
  - destruct sm; cbn [negb]; split; try discriminate.
    + intros (_ & H & _). specialize (H eq_refl). discriminate.
    + intros _. repeat split; intros; try discriminate; reflexivity.
    + reflexivity.
  - rewrite N.leb_le. split; [intros H; repeat split; intros; try discriminate; assumption|intros (_ & _ & _ & H); auto].
  - split; [intros _; repeat split; intros; discriminate|reflexivity].
Qed.

Lemma legal_from_spec pts : forall rest i,
  legal_from pts i rest = true <->
  (forall j p, nth_error rest j = Some p -> legal_pt pts (i + j) p = true).
Proof.
  induction rest as [|q r IH]; intros i; cbn [legal_from].
  - split; [intros _ j p H; destruct j; discriminate|reflexivity].
  - rewrite andb_true_iff, IH. split.
    + intros [Hq Hr] j p Hn. destruct j as [|j]; cbn [nth_error] in Hn.
      * inversion Hn; subst. rewrite Nat.add_0_r. exact Hq.
      * replace (i + S j)%nat with (S i + j)%nat by lia. apply Hr; assumption.
    + intros H. split.
      * specialize (H 0%nat q eq_refl). rewrite Nat.add_0_r in H. exact H.
      * intros j p Hn. replace (S i + j)%nat with (i + S j)%nat by lia. apply H. exact Hn.
Qed.

Theorem legalb_spec pts : legalb pts = true <-> legal pts.
Proof.
  unfold legalb, legal. rewrite andb_true_iff, legal_from_spec, orb_true_iff, N.eqb_eq.
  split.
  - intros [H1 H2]. split.
    + intros i p Hn. apply legal_pt_spec. apply (H1 i p Hn).
    + intros Hc. destruct H2 as [H2|H2]; [congruence|assumption].
  - intros [H1 H2]. split.
    + intros j p Hn. cbn [Nat.add]. apply legal_pt_spec. apply H1; assumption.
    + destruct (is_closed pts); [left; reflexivity|right; apply H2; reflexivity].
Qed.

Theorem build_iff_legalb pts : (exists r, build pts = inr r) <-> legalb pts = true.
Proof. rewrite legalb_spec. apply accepts_iff_legal. Qed.
