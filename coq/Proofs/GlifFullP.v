(** Composite encode-then-parse theorem for glyphs with a glyph lib and object libs, outside the
    F3 class: the run of the reader over the written tree (Proofs/GlifRoundtripP.v) joined with
    the dictionary algebra of the lib (Proofs/GlifLibsP.v). *)
Require Import Norad.Model.GlifSpec Norad.Model.GlifDen Norad.Model.GlifEncode.
Require Import Norad.Proofs.ContourP Norad.Proofs.GlifParseP Norad.Proofs.GlifSpecP
        Norad.Proofs.GlifCompleteP Norad.Proofs.GlifEncodeP Norad.Proofs.GlifLibsP
        Norad.Proofs.GlifRoundtripP.
Open Scope N_scope.

(* ---------- the objects of a glyph among its lib-carrying positions ---------- *)
Section InObjs.
  Variable g : glyph.
  Hypothesis HP : Forall (fun c => has_points c = true) (gcontours g).
  Lemma in_gobjs_anchor a : In a (ganchors g) -> In (aid a, alib a) (gobjs g).
  Proof. intros Ha. unfold gobjs. apply in_app_iff. left. apply in_map_iff. exists a. auto. Qed.
  Lemma in_gobjs_guide a : In a (gguides g) -> In (guid a, gulib a) (gobjs g).
  Proof. intros Ha. unfold gobjs. apply in_app_iff. right. apply in_app_iff. left. apply in_map_iff. exists a. auto. Qed.
  Lemma in_gobjs_comp a : In a (gcomps g) -> In (coid a, colib a) (gobjs g).
  Proof. intros Ha. unfold gobjs. rewrite !in_app_iff. right; right; right. apply in_map_iff. exists a. auto. Qed.
  Lemma in_gobjs_contour c : In c (gcontours g) -> In (cid c, clib c) (gobjs g).
  Proof.
    intros Hc. unfold gobjs. rewrite (filter_all _ _ HP). rewrite !in_app_iff. right; right; left.
    unfold cobjs. apply in_flat_map. exists c. split; [exact Hc|left; reflexivity].
  Qed.
  Lemma in_gobjs_point c p : In c (gcontours g) -> In p (cpoints c) -> In (pid p, plib p) (gobjs g).
  Proof.
    intros Hc Hp. unfold gobjs. rewrite (filter_all _ _ HP). rewrite !in_app_iff. right; right; left.
    unfold cobjs. apply in_flat_map. exists c. split; [exact Hc|right; apply in_map_iff; exists p; auto].
  Qed.
End InObjs.

Lemma Forall2_map_r_in {A B} (R R' : A -> B -> Prop) (f : B -> B) l l' :
  Forall2 R l l' -> (forall x y, In x l -> R x y -> R' x (f y)) -> Forall2 R' l (map f l').
Proof.
  intros H. induction H as [|x y l l' Hxy _ IH]; intros HF; [constructor|]. cbn [map]. constructor.
  - apply HF; [left; reflexivity|exact Hxy].
  - apply IH. intros x0 y0 Hin. apply HF. right; exact Hin.
Qed.
Lemma keep_none_r {A} (x : option A) : keep x None = x.
Proof. destruct x; reflexivity. Qed.

Section Full.
  Variable pf : str -> option fl.
  Variable ff ff3 : fl -> str.
  Variable fi : Z -> str.
  Variable fh : N -> str.
  Variable o : wopts.
  Variable close3 : fl -> fl -> Prop.
  (** L1: the library readers invert the library writers *)
  Hypothesis H_ff : forall x, fl_finite x = true -> pf (ff x) = Some x.
  Hypothesis H_ff3 : forall x, unit_range x = true ->
    ~ In 44 (ff3 x) /\ exists y, pf (chan ff3 x) = Some y /\ unit_range y = true /\ close3 x y.
  Hypothesis H_fh : forall c, is_scalar c = true -> parse_hex (fh c) = Some c.
  Hypothesis H_fi : forall z, int_ok z = true -> plist_int (fi z) = Some z.

  Let W := o_count o.

  (** the dictionary handed to the property-list writer *)
  Definition wlib (g : glyph) : dict :=
    match olibs g with [] => glib g | _ => glib g ++ [(objlibs_key, PDict (olibs g))] end.

  Lemma wlib_cases g :
    (olibs g = [] /\ wlib g = glib g) \/ wlib g = glib g ++ [(objlibs_key, PDict (olibs g))].
  Proof. unfold wlib. destruct (olibs g); [left; split; reflexivity|right; reflexivity]. Qed.

  Lemma valid_no_key g : libs_valid g = true -> lookup objlibs_key (glib g) = None.
  Proof.
    unfold libs_valid. intros H. apply andb_true_iff in H as [H _]. apply andb_true_iff in H as [H _].
    apply negb_true_iff in H. apply lookup_None. intros Hin. apply has_key_In in Hin. rewrite Hin in H. discriminate.
  Qed.

  Lemma written_lib_spec g : glyph_rules g -> libs_valid g = true -> written_lib g = Ok (wlib g).
  Proof.
    intros R LV. pose proof R as (_ & _ & _ & _ & _ & _ & _ & _ & ND). unfold written_lib.
    rewrite (dump_spec g (rules_have_ids g R) (rules_have_points g R) ND). cbn [bind]. unfold wlib.
    destruct (olibs g); [reflexivity|]. rewrite dict_insert_fresh; [reflexivity|].
    apply lookup_None. apply valid_no_key. exact LV.
  Qed.

  (** outside F3 every text of the libs is written as it is *)
  Lemma f3_cases g : c02_f3 o g = false ->
    note_survives (gnote g) = true /\ (W = 0%nat \/ libs_plain g = true).
  Proof.
    unfold c02_f3. intros H. apply orb_false_iff in H as [H1 H2]. apply negb_false_iff in H2. split; [exact H2|].
    fold W in H1. destruct (Nat.eqb W 0) eqn:E; [left; apply Nat.eqb_eq; exact E|right].
    cbn [negb andb] in H1. apply negb_false_iff in H1. exact H1.
  Qed.

  Lemma libs_good g :
    glyph_rules g -> libs_valid g = true -> (W = 0%nat \/ libs_plain g = true) ->
    pv_good W (PDict (glib g)) = true /\ pv_good W (PDict (olibs g)) = true.
  Proof.
    intros R LV HPl. pose proof (rules_have_points g R) as HP.
    pose proof R as (_ & _ & _ & _ & _ & _ & _ & _ & ND).
    unfold libs_valid in LV. apply andb_true_iff in LV as [LV LO]. apply andb_true_iff in LV as [_ LG].
    split.
    - apply pv_good_of_valid; [exact LG|]. destruct HPl as [HPl|HPl]; [left; exact HPl|right].
      unfold libs_plain in HPl. apply andb_true_iff in HPl. apply HPl.
    - cbn [pv_good]. apply andb_true_iff. split.
      + apply nodup_keys_spec. unfold olibs. apply (entries_nodup (A:=obj) fst snd (gobjs g)). unfold obj. rewrite (ids_gobjs g HP). exact ND.
      + apply forallb_forall. intros [k x] Hin. unfold olibs, entries in Hin. apply in_flat_map in Hin as (ob & Hob & Hin).
        unfold entry in Hin. destruct ob as [[i|] [d|]]; cbn [fst snd In] in Hin; try contradiction.
        destruct Hin as [E|[]]. injection E as <- <-. apply andb_true_iff. split.
        * pose proof (rules_ident_objs g R) as RI. rewrite Forall_forall in RI. specialize (RI _ Hob). cbn [fst opt_ok] in RI.
          unfold text_ok. rewrite (ident_no_newline i RI). apply orb_true_r.
        * rewrite libs_all_objs in LO. rewrite forallb_forall in LO. specialize (LO _ Hob). cbn [snd olib_valid] in LO.
          apply pv_good_of_valid; [exact LO|]. destruct HPl as [HPl|HPl]; [left; exact HPl|right].
          unfold libs_plain in HPl. apply andb_true_iff in HPl as [_ HPl]. rewrite libs_all_objs in HPl.
          rewrite forallb_forall in HPl. exact (HPl _ Hob).
  Qed.

  Lemma wlib_good g :
    glyph_rules g -> libs_valid g = true -> (W = 0%nat \/ libs_plain g = true) ->
    pv_good W (PDict (wlib g)) = true.
  Proof.
    intros R LV HPl. destruct (libs_good g R LV HPl) as [GG GO]. unfold wlib.
    destruct (olibs g) as [|e ol] eqn:EO; [exact GG|]. rewrite <- EO in *. clear EO e ol.
    cbn [pv_good] in *. apply andb_true_iff in GG as [GN GF]. apply andb_true_iff. split.
    - apply nodup_keys_spec. rewrite map_app. cbn [map fst].
      eapply Permutation_NoDup; [apply Permutation_cons_append|]. constructor.
      + apply lookup_None. apply valid_no_key. exact LV.
      + apply nodup_keys_spec. exact GN.
    - rewrite forallb_app. rewrite GF. cbn [forallb andb]. rewrite andb_true_r. apply andb_true_iff. split.
      + unfold text_ok. replace (no_newline objlibs_key) with true by (vm_compute; reflexivity). apply orb_true_r.
      + cbn [pv_good]. exact GO.
  Qed.

  (** the lib element *)
  Definition libn (g : glyph) : list node :=
    match wlib g with
    | [] => []
    | _ => [Elem (s2l "lib") [] [pv_node ff fi o (PDict (sort_keys_rec (wlib g)))]]
    end.
  Lemma enc_lib_spec g : glyph_rules g -> libs_valid g = true -> enc_lib ff fi o g = Ok (libn g).
  Proof.
    intros R LV. unfold enc_lib. rewrite (written_lib_spec g R LV). cbn [bind]. unfold libn.
    destruct (wlib g); reflexivity.
  Qed.
  Lemma libn_elements g : forallb is_element (libn g) = true.
  Proof. unfold libn. destruct (wlib g); reflexivity. Qed.

  Lemma step_lib g :
    glyph_rules g -> libs_valid g = true -> (W = 0%nat \/ libs_plain g = true) ->
    forall st, st_lib st = false -> glib (st_g st) = [] ->
    exists b, parse_children pf 2 st (libn g)
              = Ok (mkPst (set_lib (st_g st) (sort_keys_rec (wlib g))) (st_seen st) (st_adv st) b (st_out st) (st_note st)).
  Proof.
    intros R LV HPl st SL GL. pose proof (wlib_good g R LV HPl) as WG. unfold libn.
    destruct (wlib g) as [|e l] eqn:EW.
    - exists (st_lib st). cbn [parse_children]. destruct st as [g0 s a b c d]. cbn [st_g st_seen st_adv st_lib st_out st_note] in *.
      destruct g0 as [n0 w0 h0 cp0 nt0 im0 gu0 an0 co0 ct0 lb0]. cbn [glib] in GL. subst. reflexivity.
    - rewrite <- EW in *. clear EW e l. exists true. cbn [parse_children]. unfold parse_child.
      change (ekind_of (s2l "lib")) with (Some KLib). cbv iota. rewrite SL. cbn [no_attrs negb].
      rewrite (plist_single pf _ (PDict (sort_keys_rec (wlib g))) (pv_node_element ff fi o _)).
      + reflexivity.
      + apply (pv_read_back pf ff fi o H_ff H_fi).
        change (PDict (sort_keys_rec (wlib g))) with (sort_keys_rec_pv (PDict (wlib g))).
        apply pv_good_sorted. exact WG.
  Qed.

  (* ---------- what comes back ---------- *)
  Definition slib (l : option dict) : option dict := option_map sort_keys_rec l.
  Definition point_rt (p : point) : point :=
    mkPoint (px p) (py p) (ptyp p) (psmooth p) (pname p) (pid p) (slib (plib p)).
  Definition contour_rt (c : contour) : contour :=
    mkContour (map point_rt (cpoints c)) (cid c) (slib (clib c)).
  Definition comp_rt (c : component) : component :=
    mkComp (cbase c) (transform_written (ctrans c)) (coid c) (slib (colib c)).
  Definition anchor_rt (a a' : anchor) : Prop :=
    ax a' = ax a /\ ay a' = ay a /\ aname a' = aname a /\ aid a' = aid a /\ alib a' = slib (alib a) /\
    ocolor_close close3 (acolor a) (acolor a').
  Definition guide_rt (x x' : guideline) : Prop :=
    gline x' = gline x /\ guname x' = guname x /\ guid x' = guid x /\ gulib x' = slib (gulib x) /\
    ocolor_close close3 (gcolor x) (gcolor x').
  (** the re-read glyph: equal up to the number text of advance/transform (zero_norm,
      transform_written), colours within 3 decimals, and recursively sorted lib keys *)
  Definition rt_rel (g g' : glyph) : Prop :=
    gname g' = gname g /\ gwidth g' = zero_norm (gwidth g) /\ gheight g' = zero_norm (gheight g) /\
    gcps g' = gcps g /\ gnote g' = gnote g /\ oimage_rel close3 (gimage g) (gimage g') /\
    Forall2 guide_rt (gguides g) (gguides g') /\ Forall2 anchor_rt (ganchors g) (ganchors g') /\
    gcomps g' = map comp_rt (gcomps g) /\ gcontours g' = map contour_rt (gcontours g) /\
    glib g' = sort_keys_rec (glib g).

  Lemma rel_aids l l' : Forall2 (anchor_rel close3) l l' -> gaids l' = gaids l.
  Proof.
    intros H. induction H as [|a a' l l' (_ & _ & _ & E & _) _ IH]; [reflexivity|].
    unfold gaids in *. cbn [flat_map]. rewrite E, IH. reflexivity.
  Qed.
  Lemma rel_gids l l' : Forall2 (guide_rel close3) l l' -> ggids l' = ggids l.
  Proof.
    intros H. induction H as [|a a' l l' (_ & _ & E & _) _ IH]; [reflexivity|].
    unfold ggids in *. cbn [flat_map]. rewrite E, IH. reflexivity.
  Qed.
  Lemma written_kids l : gkids (map comp_written l) = gkids l.
  Proof. unfold gkids. induction l as [|c l IH]; [reflexivity|]. cbn [map flat_map comp_written coid]. rewrite IH. reflexivity. Qed.
  Lemma written_cids l : flat_map gcids (map contour_written l) = flat_map gcids l.
  Proof.
    induction l as [|c l IH]; [reflexivity|]. cbn [map flat_map]. rewrite IH. f_equal.
    unfold gcids, contour_written. cbn [cid cpoints]. f_equal. unfold gpids.
    induction (cpoints c) as [|p ps IHp]; [reflexivity|]. cbn [map flat_map point_written pid]. rewrite IHp. reflexivity.
  Qed.

  Theorem roundtrip_full g :
    glyph_rules g -> glyph_finite g -> libs_valid g = true -> c02_f3 o g = false ->
    exists t g',
      encode_glif ff ff3 fi fh o g = Ok t /\ parse_glif pf (written_doc t) = Ok g' /\ rt_rel g g'.
  Proof.
    intros R GF LV F3. destruct (f3_cases g F3) as [NS HPl].
    pose proof (rules_have_points g R) as HP. pose proof (rules_have_ids g R) as LI.
    pose proof R as (_ & _ & _ & _ & _ & _ & _ & _ & ND).
    rewrite encode_tree, (enc_lib_spec g R LV). cbn [bind].
    destruct (roundtrip_body pf ff ff3 fh close3 H_ff H_ff3 H_fh g (libn g) (sort_keys_rec (wlib g)) R GF NS
                (step_lib g R LV HPl)) as (st & PC & BO).
    exists (glyph_tree ff ff3 fh g (libn g)).
    rewrite (parse_glif_tree pf ff ff3 fh g (libn g) R (libn_elements g)), PC. cbn [bind].
    set (g1 := st_g st) in *.
    destruct BO as (B1 & B2 & B3 & B4 & B5 & B6 & B7 & B8 & B9 & B10 & B11).
    destruct (libs_good g R LV HPl) as [GG GO]. pose proof (wlib_good g R LV HPl) as WG.
    assert (NDO : NoDup (map fst (olibs g))).
    { cbn [pv_good] in GO. apply andb_true_iff in GO as [GO _]. apply nodup_keys_spec. exact GO. }
    assert (NDW : NoDup (map fst (wlib g))).
    { cbn [pv_good] in WG. apply andb_true_iff in WG as [WG _]. apply nodup_keys_spec. exact WG. }
    set (od := sort_keys_rec (olibs g)).
    (* every object gets back its own lib, keys sorted *)
    assert (AT : forall id lib, In (id, lib) (gobjs g) -> attach od id = slib lib).
    { intros id lib Hin. unfold od. rewrite (attach_sorted _ id NDO). rewrite (attach_olibs g id lib LI HP ND Hin). reflexivity. }
    (* the glyph after the object libs are moved back *)
    cut (exists g', load_object_libs g1 = Ok g' /\
           gname g' = gname g1 /\ gwidth g' = gwidth g1 /\ gheight g' = gheight g1 /\ gcps g' = gcps g1 /\
           gnote g' = gnote g1 /\ gimage g' = gimage g1 /\
           gguides g' = map (fun a => guide_setlib a (attach od (guid a))) (gguides g1) /\
           ganchors g' = map (fun a => anchor_setlib a (attach od (aid a))) (ganchors g1) /\
           gcomps g' = map (fun a => comp_setlib a (attach od (coid a))) (gcomps g1) /\
           gcontours g' = map (contour_attach od) (gcontours g1) /\
           glib g' = sort_keys_rec (glib g)).
    { intros (g' & LD & C1 & C2 & C3 & C4 & C5 & C6 & C7 & C8 & C9 & C10 & C11). exists g'.
      split; [reflexivity|]. split; [exact LD|]. unfold rt_rel.
      rewrite C1, C2, C3, C4, C5, C6, C7, C8, C9, C10, C11, B1, B2, B3, B4, B5, B9, B10.
      repeat (split; [reflexivity|]). split; [exact B6|]. split; [|split; [|split; [|split; [|reflexivity]]]].
      - apply (Forall2_map_r_in (guide_rel close3) guide_rt _ _ _ B7).
        intros x y Hx (E1 & E2 & E3 & E4 & E5). unfold guide_rt, guide_setlib. cbn [gline guname guid gulib gcolor].
        rewrite E3, E4, keep_none_r, (AT _ _ (in_gobjs_guide g x Hx)). auto 10.
      - apply (Forall2_map_r_in (anchor_rel close3) anchor_rt _ _ _ B8).
        intros x y Hx (E1 & E2 & E3 & E4 & E5 & E6). unfold anchor_rt, anchor_setlib. cbn [ax ay aname aid alib acolor].
        rewrite E4, E5, keep_none_r, (AT _ _ (in_gobjs_anchor g x Hx)). auto 10.
      - rewrite map_map. apply map_ext_in. intros c Hc. unfold comp_setlib, comp_written, comp_rt. cbn [cbase ctrans coid colib].
        rewrite keep_none_r, (AT _ _ (in_gobjs_comp g c Hc)). reflexivity.
      - rewrite map_map. apply map_ext_in. intros c Hc. unfold contour_attach, contour_written, contour_rt. cbn [cpoints cid clib].
        rewrite keep_none_r, (AT _ _ (in_gobjs_contour g HP c Hc)). f_equal.
        rewrite map_map. apply map_ext_in. intros p Hp. unfold point_setlib, point_written, point_rt.
        cbn [px py ptyp psmooth pname pid plib]. rewrite keep_none_r, (AT _ _ (in_gobjs_point g HP c p Hc Hp)). reflexivity. }
    pose proof (valid_no_key g LV) as NK.
    destruct (wlib_cases g) as [[EO EW]|EW]; rewrite EW in B11, NDW.
    - (* no object lib: nothing to move; every attach finds nothing *)
      assert (LK : lookup objlibs_key (glib g1) = None).
      { rewrite B11. rewrite (lookup_sort_keys_rec _ _ NDW), NK. reflexivity. }
      exists g1. unfold load_object_libs. rewrite LK.
      assert (AN : forall id, attach od id = None).
      { intros [i|]; [|reflexivity]. unfold od. rewrite EO. reflexivity. }
      repeat (split; [reflexivity|]). split; [|split; [|split; [|split; [|exact B11]]]].
      + rewrite <- (map_id (gguides g1)) at 1. apply map_ext. intros x. unfold guide_setlib. rewrite AN. cbn [keep]. destruct x; reflexivity.
      + rewrite <- (map_id (ganchors g1)) at 1. apply map_ext. intros x. unfold anchor_setlib. rewrite AN. cbn [keep]. destruct x; reflexivity.
      + rewrite <- (map_id (gcomps g1)) at 1. apply map_ext. intros x. unfold comp_setlib. rewrite AN. cbn [keep]. destruct x; reflexivity.
      + rewrite <- (map_id (gcontours g1)) at 1. apply map_ext. intros x. unfold contour_attach. rewrite AN. cbn [keep].
        destruct x as [ps ci cl]. cbn [cpoints cid clib]. f_equal. rewrite <- (map_id ps) at 1. apply map_ext.
        intros p. unfold point_setlib. rewrite AN. cbn [keep]. destruct p; reflexivity.
    - assert (LK : lookup objlibs_key (glib g1) = Some (PDict od)).
      { rewrite B11. rewrite (lookup_sort_keys_rec _ _ NDW), lookup_snoc, NK, str_eqb_refl. reflexivity. }
      assert (AD : all_dicts od).
      { apply all_dicts_sorted; [exact NDO|]. intros i x Hx. exact (entries_dicts (A:=obj) fst snd (gobjs g) i x Hx). }
      assert (ND1 : NoDup (glyph_ids g1)).
      { rewrite glyph_ids_eq, B9, B10, (rel_aids _ _ B8), (rel_gids _ _ B7), written_kids, written_cids.
        rewrite <- glyph_ids_eq. exact ND. }
      rewrite (load_exact g1 od LK AD ND1). eexists. split; [reflexivity|].
      cbn [gname gwidth gheight gcps gnote gimage gguides ganchors gcomps gcontours glib].
      repeat (split; [reflexivity|]). rewrite B11. apply remove_key_sorted_snoc. exact NK.
  Qed.
End Full.
