(** Proofs for C10: the remaining hashed collections of the upconversion / validation paths are
    only queried; sorted maps are canonical. *)
Require Import Norad.Model.Base Norad.Model.Groups Norad.Model.StoreWrite.
Require Import Norad.Proofs.GroupsP Norad.Proofs.KernUpconvP Norad.Proofs.StoreWriteP.
Open Scope N_scope.

(** * the glyph-name set (NameList: a HashSet) is only asked [contains] *)
Lemma referenced_same : forall pre g gs gs' n, same_members gs gs' ->
  referenced pre g gs n = referenced pre g gs' n.
Proof. intros. unfold referenced. rewrite (memb_same_members gs gs' n H). reflexivity. Qed.

Theorem upconvert_glyphset_membership_only : forall g k gs gs',
  same_members gs gs' -> upconvert_kerning g k gs = upconvert_kerning g k gs'.
Proof.
  intros g k gs gs' H. unfold upconvert_kerning, upconvert_tables.
  assert (cands1 g k gs = cands1 g k gs') as ->.
  { unfold cands1. apply fold_left_ext. intros s e. rewrite (referenced_same K1 g gs gs' _ H). reflexivity. }
  assert (cands2 g k gs = cands2 g k gs') as ->.
  { unfold cands2. apply fold_left_ext. intros s e. apply fold_left_ext. intros s' p.
    rewrite (referenced_same K2 g gs gs' _ H). reflexivity. }
  reflexivity.
Qed.

(** * the two seen-sets of validate_groups (HashSets) are only asked [insert]'s boolean *)
Lemma scan_same : forall ms s s', same_members s s' ->
  match scan s ms, scan s' ms with
  | inl a, inl b => same_members a b
  | inr d, inr d' => d = d'
  | _, _ => False
  end.
Proof.
  induction ms as [|m ms IH]; intros s s' H; cbn [scan]; [exact H|].
  rewrite (memb_same_members s s' m H). destruct (memb m s'); [reflexivity|].
  apply IH. apply same_members_cons. exact H.
Qed.

Theorem validate_seen_membership_only : forall g s1 s1' s2 s2',
  same_members s1 s1' -> same_members s2 s2' -> validate_from s1 s2 g = validate_from s1' s2' g.
Proof.
  induction g as [|[n ms] g IH]; intros s1 s1' s2 s2' H1 H2; cbn [validate_from]; [reflexivity|].
  destruct n as [|c n']; [reflexivity|].
  destruct (starts_with K1 (c :: n')).
  - destruct (_ =? 13); [reflexivity|]. pose proof (scan_same ms s1 s1' H1) as S.
    destruct (scan s1 ms); destruct (scan s1' ms); try contradiction; [apply IH; assumption | congruence].
  - destruct (starts_with K2 (c :: n')); [|apply IH; assumption].
    destruct (_ =? 13); [reflexivity|]. pose proof (scan_same ms s2 s2' H2) as S.
    destruct (scan s2 ms); destruct (scan s2' ms); try contradiction; [apply IH; assumption | congruence].
Qed.

(** * the old-name -> new-name tables (HashMaps) are only asked [get] *)
Lemma lookup_perm : forall (V : Type) (r r' : smap V) n,
  Permutation r r' -> NoDup (keys r) -> lookup n r = lookup n r'.
Proof.
  intros V r r' n P ND.
  assert (NoDup (keys r')) as ND' by (apply (Permutation_NoDup (Permutation_map fst P)); exact ND).
  destruct (lookup n r) as [v|] eqn:L.
  - apply lookup_Some_In in L. symmetry. apply lookup_In_NoDup; [exact ND'|]. exact (Permutation_in _ P L).
  - symmetry. apply lookup_None. apply lookup_None in L. intro I. apply L.
    exact (Permutation_in _ (Permutation_sym (Permutation_map fst P)) I).
Qed.

Theorem rename_table_order_independent : forall r1 r1' r2 r2' k,
  Permutation r1 r1' -> NoDup (keys r1) -> Permutation r2 r2' -> NoDup (keys r2) ->
  rename_kerning r1 r2 k = rename_kerning r1' r2' k.
Proof.
  intros r1 r1' r2 r2' k P1 N1 P2 N2. unfold rename_kerning.
  apply fold_left_ext. intros acc e. unfold ren. rewrite (lookup_perm _ r1 r1' (fst e) P1 N1). f_equal.
  unfold rename_row. apply fold_left_ext. intros acc' p. unfold ren. rewrite (lookup_perm _ r2 r2' (fst p) P2 N2). reflexivity.
Qed.

(** * sorted maps are canonical: a BTreeMap built from the same entries in any order is the
    same list, so everything that is produced by iterating one (groups.plist, kerning.plist,
    contents.plist, the UFO 1 feature text without an order list) does not depend on the order
    in which the entries arrived. *)
Lemma str_cmp_antisym : forall a b, str_cmp b a = CompOpp (str_cmp a b).
Proof.
  induction a as [|x a IH]; destruct b as [|y b]; cbn [str_cmp CompOpp]; try reflexivity.
  rewrite (N.compare_antisym x y). destruct (N.compare x y); cbn [CompOpp]; [apply IH | reflexivity | reflexivity].
Qed.
Lemma str_cmp_lt_trans : forall a b c, str_cmp a b = Lt -> str_cmp b c = Lt -> str_cmp a c = Lt.
Proof.
  induction a as [|x a IH]; destruct b as [|y b]; destruct c as [|z c]; cbn [str_cmp]; intros H1 H2; try discriminate; try reflexivity.
  destruct (N.compare x y) eqn:C1; try discriminate; destruct (N.compare y z) eqn:C2; try discriminate.
  - apply N.compare_eq in C1, C2. subst. rewrite N.compare_refl. exact (IH _ _ H1 H2).
  - apply N.compare_eq in C1. subst. rewrite C2. reflexivity.
  - apply N.compare_eq in C2. subst. rewrite C1. reflexivity.
  - rewrite N.compare_lt_iff in C1, C2. assert (x < z) as L by lia. apply N.compare_lt_iff in L. rewrite L. reflexivity.
Qed.

Definition below {V} (k : name) (m : smap V) : Prop := forall x, In x (keys m) -> str_cmp k x = Lt.
Fixpoint sorted {V} (m : smap V) : Prop :=
  match m with [] => True | (k, _) :: r => below k r /\ sorted r end.

Lemma below_minsert : forall V (x k : name) (v : V) m,
  str_cmp x k = Lt -> below x m -> below x (minsert k v m).
Proof.
  intros V x k v m L B y I. apply keys_minsert in I. destruct I as [->|I]; [exact L | apply B; exact I].
Qed.

Lemma sorted_minsert : forall V (k : name) (v : V) m, sorted m -> sorted (minsert k v m).
Proof.
  induction m as [|[k' v'] m IH]; intro S; cbn [minsert sorted]; [split; [intros ? []|exact I]|].
  cbn [sorted] in S. destruct S as [B S]. destruct (str_cmp k k') eqn:C.
  - apply str_cmp_eq in C. subst k'. cbn [sorted]. split; assumption.
  - cbn [sorted]. split; [|split; assumption].
    intros y [<-|I]; [exact C | apply (str_cmp_lt_trans k k' y C); apply B; exact I].
  - cbn [sorted]. split; [|apply IH; exact S].
    apply below_minsert; [|exact B]. rewrite str_cmp_antisym, C. reflexivity.
Qed.

Lemma minsert_below : forall V (k : name) (v : V) m, below k m -> minsert k v m = (k, v) :: m.
Proof.
  intros V k v [|[k' v'] m] B; cbn [minsert]; [reflexivity|].
  rewrite (B k') by (left; reflexivity). reflexivity.
Qed.

Lemma below_not_key : forall V (k : name) (m : smap V), below k m -> lookup k m = None.
Proof.
  intros V k m B. apply lookup_None. intro I. apply B in I. rewrite str_cmp_refl in I. discriminate.
Qed.
Lemma lt_head_none : forall V (k k' : name) (v' : V) r, str_cmp k k' = Lt -> below k' r ->
  lookup k ((k', v') :: r) = None.
Proof.
  intros V k k' v' r L B. cbn [lookup]. destruct (str_eqb k k') eqn:Q.
  - apply str_eqb_eq in Q. subst k'. rewrite str_cmp_refl in L. discriminate.
  - apply lookup_None. intro I. apply B in I. pose proof (str_cmp_lt_trans k k' k L I) as T.
    rewrite str_cmp_refl in T. discriminate.
Qed.

(** two sorted association lists with the same lookup function are the same list *)
Lemma sorted_ext : forall V (m m' : smap V), sorted m -> sorted m' ->
  (forall x, lookup x m = lookup x m') -> m = m'.
Proof.
  induction m as [|[k v] m IH]; intros [|[k' v'] m'] S S' E.
  - reflexivity.
  - specialize (E k'). cbn [lookup] in E. rewrite str_eqb_refl in E. discriminate.
  - specialize (E k). cbn [lookup] in E. rewrite str_eqb_refl in E. discriminate.
  - cbn [sorted] in S, S'. destruct S as [B S]. destruct S' as [B' S'].
    assert (k = k') as ->.
    { destruct (str_cmp k k') eqn:C.
      - apply str_cmp_eq. exact C.
      - pose proof (E k) as Ek. rewrite (lt_head_none V k k' v' m' C B') in Ek. cbn [lookup] in Ek.
        rewrite str_eqb_refl in Ek. discriminate.
      - assert (str_cmp k' k = Lt) as C' by (rewrite str_cmp_antisym, C; reflexivity).
        pose proof (E k') as Ek. rewrite (lt_head_none V k' k v m C' B) in Ek. cbn [lookup] in Ek.
        rewrite str_eqb_refl in Ek. discriminate. }
    assert (v = v') as ->.
    { specialize (E k'). cbn [lookup] in E. rewrite str_eqb_refl in E. congruence. }
    f_equal. apply IH; [exact S | exact S' |]. intro x. specialize (E x). cbn [lookup] in E.
    destruct (str_eqb x k') eqn:Q; [|exact E]. apply str_eqb_eq in Q. subst x.
    rewrite (below_not_key V k' m B), (below_not_key V k' m' B'). reflexivity.
Qed.

Lemma minsert_comm : forall V (k1 k2 : name) (v1 v2 : V) m, sorted m -> k1 <> k2 ->
  minsert k1 v1 (minsert k2 v2 m) = minsert k2 v2 (minsert k1 v1 m).
Proof.
  intros V k1 k2 v1 v2 m S N. apply sorted_ext; try (apply sorted_minsert, sorted_minsert, S).
  intro x. destruct (str_eq_dec x k1) as [->|N1]; [|destruct (str_eq_dec x k2) as [->|N2]].
  - rewrite lookup_minsert_eq, (lookup_minsert_ne V k2 k1) by exact N. rewrite lookup_minsert_eq. reflexivity.
  - rewrite lookup_minsert_eq, (lookup_minsert_ne V k1 k2) by (intro E; apply N; symmetry; exact E).
    rewrite lookup_minsert_eq. reflexivity.
  - rewrite !lookup_minsert_ne by assumption. reflexivity.
Qed.

Definition of_list {V} (l : list (name * V)) : smap V :=
  fold_left (fun m e => minsert (fst e) (snd e) m) l [].

Lemma fold_minsert_sorted : forall V (l : list (name * V)) m, sorted m ->
  sorted (fold_left (fun m e => minsert (fst e) (snd e) m) l m).
Proof. induction l as [|e l IH]; intros m S; cbn [fold_left]; [exact S | apply IH, sorted_minsert, S]. Qed.

Theorem btreemap_canonical_gen : forall V (l l' : list (name * V)), Permutation l l' -> NoDup (keys l) ->
  forall m, sorted m ->
  fold_left (fun m e => minsert (fst e) (snd e) m) l m = fold_left (fun m e => minsert (fst e) (snd e) m) l' m.
Proof.
  induction 1 as [|x l l' P IH|x y l|l l' l'' P1 IH1 P2 IH2]; intros ND m S.
  - reflexivity.
  - cbn [fold_left]. cbn in ND. inversion ND; subst. apply IH; [assumption | apply sorted_minsert, S].
  - cbn [fold_left]. cbn in ND. inversion ND as [|? ? Hn Hd]; subst. f_equal.
    apply minsert_comm; [exact S|]. intro E. apply Hn. left. exact E.
  - rewrite IH1 by assumption. apply IH2; [|exact S].
    apply (Permutation_NoDup (Permutation_map fst P1)). exact ND.
Qed.

Theorem btreemap_canonical : forall V (l l' : list (name * V)),
  Permutation l l' -> NoDup (keys l) -> of_list l = of_list l'.
Proof. intros V l l' P ND. apply (btreemap_canonical_gen V l l' P ND []). exact I. Qed.

(** UFO 1 feature text: without an order list the blocks are concatenated in the order of the
    sorted map, whatever the order of the entries in lib.plist *)
Theorem feature_text_order_independent : forall classes (l l' : list (name * str)),
  Permutation l l' -> NoDup (keys l) ->
  feature_text classes None (Some (of_list l)) = feature_text classes None (Some (of_list l')).
Proof. intros classes l l' P ND. rewrite (btreemap_canonical _ l l' P ND). reflexivity. Qed.
