(** Proofs about the save model (Model/Save.v): C08 and C09. *)
From stdpp Require Import gmap strings.
From Norad.Model Require Import Fs Save.
From Norad.Proofs Require Import FsP.
Open Scope string_scope.
Open Scope list_scope.

Implicit Types (m : sfs) (p q t : path) (f : font_abs).

(** * Programs *)
Lemma run_prog_app pr1 pr2 m :
  run_prog (pr1 ++ pr2) m =
  match run_prog pr1 m with (Saved, m1) => run_prog pr2 m1 | r => r end.
Proof.
  revert m. induction pr1 as [|[e a] pr1 IH]; intros m; simpl; [done|].
  destruct (a m); [apply IH|done].
Qed.
Lemma run_prog_app_saved pr1 pr2 m m' :
  run_prog (pr1 ++ pr2) m = (Saved, m') →
  ∃ m1, run_prog pr1 m = (Saved, m1) ∧ run_prog pr2 m1 = (Saved, m').
Proof.
  rewrite run_prog_app. destruct (run_prog pr1 m) as [[|e] m1]; [eauto|discriminate].
Qed.

(** a property of states that every action of a program preserves survives a run, whatever the
    outcome *)
Lemma run_prog_inv (I : sfs → Prop) pr m o m' :
  Forall (λ ea, ∀ m1 m2, ea.2 m1 = Some m2 → I m1 → I m2) pr →
  run_prog pr m = (o, m') → I m → I m'.
Proof.
  revert m. induction pr as [|[e a] pr IH]; intros m Hall; simpl.
  - by intros [= _ <-].
  - inversion Hall as [|? ? Ha Hr]; subst. simpl in Ha.
    destruct (a m) as [m1|] eqn:E; [|by intros [= _ <-]].
    intros H Hi. eapply IH; eauto.
Qed.

(** * C08: refusals leave the file system alone *)
Lemma force_cell_error png dir m root kc :
  kc.2 = Error → cell_ok (force_cell png dir m root kc) = false.
Proof. destruct kc as [k c]. unfold force_cell, cell_ok. simpl. intros ->. done. Qed.
Lemma force_store_error png dir m s :
  has_error_cell s = true → store_ok (force_store png dir m s) = false.
Proof.
  unfold has_error_cell, store_ok, force_store. simpl.
  induction (st_cells s) as [|kc l IH]; cbn [existsb map forallb]; [done|].
  intros [H|H]%orb_true_iff.
  - rewrite force_cell_error; [done|]. by destruct kc as [k []].
  - rewrite IH by done. apply andb_false_r.
Qed.
Lemma force_stores_error m f : refuses RStore f = true → force_stores m f = None.
Proof.
  unfold refuses, force_stores. intros [H|H]%orb_true_iff.
  - by rewrite (force_store_error _ _ _ _ H).
  - rewrite (force_store_error _ _ _ _ H). by rewrite andb_false_r.
Qed.

Lemma refused_untouched f k t m :
  refusal_kind f = Some k → save f t m = (Failed (err_of k), m).
Proof.
  unfold refusal_kind, save, save_steps.
  destruct (refuses RVersion f) eqn:E1; [intros [= <-]; cbn [run_steps]; by rewrite E1|].
  destruct (refuses RObjLibs f) eqn:E2; [intros [= <-]; cbn [run_steps]; by rewrite E1, E2|].
  destruct (refuses RGroups f) eqn:E3; [intros [= <-]; cbn [run_steps]; by rewrite E1, E2, E3|].
  destruct (refuses RInfo f) eqn:E4; [intros [= <-]; cbn [run_steps]; by rewrite E1, E2, E3, E4|].
  destruct (refuses RStore f) eqn:E5; [|discriminate].
  intros [= <-]. cbn [run_steps]. rewrite E1, E2, E3, E4.
  by rewrite force_stores_error.
Qed.

(** a cell that is not loaded yet and cannot be loaded: refused as well, nothing touched *)
Lemma refused_untouched_unreadable f t m :
  refusal_kind f = None → force_stores m f = None → save f t m = (Failed InvalidStoreEntry, m).
Proof.
  unfold refusal_kind, save, save_steps.
  destruct (refuses RVersion f) eqn:E1; [discriminate|].
  destruct (refuses RObjLibs f) eqn:E2; [discriminate|].
  destruct (refuses RGroups f) eqn:E3; [discriminate|].
  destruct (refuses RInfo f) eqn:E4; [discriminate|].
  intros _ H. cbn [run_steps]. by rewrite E1, E2, E3, E4, H.
Qed.

(** the shape of a save that got past the checks *)
Definition write_steps : list sstep :=
  [SFile FMeta; SFile FInfo; SFile FLib; SFile FGroups; SFile FKerning; SFile FFeatures;
   SFile FLayerContents; SLayers; SData; SImages].
Definition write_prog (t : path) f : prog := concat (map (step_prog t f) write_steps).

Lemma run_steps_prog ss t f m :
  Forall (λ s, match s with SRefuse _ => False | _ => True end) ss →
  run_steps ss t f m = run_prog (concat (map (step_prog t f) ss)) m.
Proof.
  revert m. induction ss as [|s ss IH]; intros m Hall; [done|].
  inversion Hall as [|? ? Hs Hss]; subst.
  rewrite fmap_cons. simpl concat. rewrite run_prog_app.
  destruct s; try done; cbn [run_steps];
    (destruct (run_prog _ m) as [[|e] m1]; [by apply IH|done]).
Qed.

Lemma save_unfold f t m :
  save f t m =
  match refusal_kind f with
  | Some k => (Failed (err_of k), m)
  | None =>
      match force_stores m f with
      | None => (Failed InvalidStoreEntry, m)
      | Some f' => run_prog ((Cleanup, wipe_act t) :: (CreateUfoDir, create_dir t) :: write_prog t f') m
      end
  end.
Proof.
  destruct (refusal_kind f) as [k|] eqn:E.
  - by apply refused_untouched.
  - destruct (force_stores m f) as [f'|] eqn:F.
    + revert E. unfold refusal_kind, save, save_steps.
      destruct (refuses RVersion f) eqn:E1; [discriminate|].
      destruct (refuses RObjLibs f) eqn:E2; [discriminate|].
      destruct (refuses RGroups f) eqn:E3; [discriminate|].
      destruct (refuses RInfo f) eqn:E4; [discriminate|].
      intros _. remember (SWipe :: _) as rest eqn:Hrest.
      cbn [run_steps]. rewrite E1, E2, E3, E4, F. subst rest.
      rewrite run_steps_prog by (repeat constructor). done.
    + by apply refused_untouched_unreadable.
Qed.

(** validators and store forcing precede the first mutation: a save that changes anything has
    passed every check *)
Lemma checks_before_mutation f t m o m' :
  save f t m = (o, m') → m' ≠ m → refusal_kind f = None ∧ is_Some (force_stores m f).
Proof.
  rewrite save_unfold. destruct (refusal_kind f); [by intros [= _ <-]|].
  destruct (force_stores m f); [eauto|by intros [= _ <-]].
Qed.

(** * C08: saving in place keeps the lazily loaded store files *)
Definition holds (P : path) (c : content) (m : sfs) : Prop := m !! P = Some (File c).
Definition compat (P : path) (c : content) (a : action) : Prop :=
  ∀ m m', a m = Some m' → holds P c m → holds P c m'.

Lemma compat_create_dir P c q : compat P c (create_dir q).
Proof.
  intros m m' H Hh. unfold create_dir in H. destruct (exists_ m q) eqn:E; [discriminate|].
  destruct (is_dir m (parent q)); [|discriminate]. injection H as <-.
  unfold holds. rewrite lookup_insert_ne; [done|]. intros Heq. subst P.
  unfold exists_ in E. unfold holds in Hh. by rewrite Hh in E.
Qed.
Lemma compat_create_dir_all P c pre rest : compat P c (create_dir_all pre rest).
Proof.
  revert pre. induction rest as [|s r IH]; intros pre m m'; cbn [create_dir_all].
  - by intros [= <-].
  - destruct (m !! (pre ++ [s])) as [[x|]|] eqn:E; [discriminate|apply IH|].
    destruct (is_dir m pre); [|discriminate]. intros H Hh. eapply IH; [exact H|].
    unfold holds. rewrite lookup_insert_ne; [done|]. intros Heq. subst P. unfold holds in Hh. rewrite E in Hh. discriminate.
Qed.
Lemma compat_write P c q c' : (q = P → c' = c) → compat P c (write q c').
Proof.
  intros Hq m m' H%write_Some Hh. subst m'. unfold holds.
  destruct (decide (q = P)) as [->|Hne].
  - rewrite Hq by done. by rewrite lookup_insert.
  - by rewrite lookup_insert_ne.
Qed.
Lemma compat_fail P c : compat P c fail_act.
Proof. by intros m m' H. Qed.

Lemma run_prog_holds pr m m' P c :
  Forall (λ ea, compat P c ea.2) pr → run_prog pr m = (Saved, m') → holds P c m → holds P c m'.
Proof. intros Hall. apply run_prog_inv. eapply Forall_impl; [exact Hall|]. intros ea H; exact H. Qed.

Lemma run_prog_written pr m m' P c e :
  Forall (λ ea, compat P c ea.2) pr → (e, write P c) ∈ pr →
  run_prog pr m = (Saved, m') → holds P c m'.
Proof.
  intros Hall (pr1 & pr2 & ->)%elem_of_list_split Hrun.
  apply run_prog_app_saved in Hrun as (m1 & _ & Hrun). simpl in Hrun.
  destruct (write P c m1) as [m2|] eqn:W; [|discriminate].
  apply Forall_app in Hall as [_ Hall]. inversion Hall as [|? ? _ Hall2]; subst.
  eapply run_prog_holds; [exact Hall2|exact Hrun|]. by apply write_at in W.
Qed.

Lemma force_cell_idem png dir m root kc :
  force_cell png dir m root (force_cell png dir m root kc) = force_cell png dir m root kc.
Proof.
  destruct kc as [k [|c|]]; unfold force_cell; cbn [snd fst]; try done.
  destruct (read m (root ++ dir :: k)) as [c|]; [|done].
  by destruct (negb png || c_png c).
Qed.
Lemma force_cell_key png dir m root kc : (force_cell png dir m root kc).1 = kc.1.
Proof.
  destruct kc as [k [|c|]]; unfold force_cell; cbn [snd fst]; try done.
  destruct (read m (root ++ dir :: k)) as [c|]; [|done].
  by destruct (negb png || c_png c).
Qed.
Lemma force_cell_loaded png dir m root k kc :
  force_cell png dir m root (k, NotLoaded) = kc → cell_ok kc = true →
  ∃ c, kc = (k, Loaded c) ∧ m !! (root ++ dir :: k) = Some (File c).
Proof.
  unfold force_cell, read. cbn [snd fst].
  destruct (m !! (root ++ dir :: k)) as [[c|]|] eqn:E; intros <-; try done.
  destruct (negb png || c_png c); [|done]. eauto.
Qed.

Lemma forced_cells png dir m s0 s keys :
  st_cells s0 = map (λ k, (k, NotLoaded)) keys → store_evolved png dir m s0 s →
  st_cells (force_store png dir m s) =
  map (λ k, force_cell png dir m (st_root s0) (k, NotLoaded)) keys.
Proof.
  intros Hk [Hroot Hev]. unfold force_store. cbn [st_cells]. rewrite Hroot. rewrite Hk in Hev.
  clear Hk Hroot. revert Hev. generalize (st_cells s). intros l.
  revert l. induction keys as [|k keys IH]; intros l H; inversion H as [|? ? ? ? Hc Hr]; subst; [done|].
  cbn [map]. f_equal; [|by apply IH].
  destruct Hc as [->| ->]; [done|apply force_cell_idem].
Qed.

Lemma elem_of_files_below (d : path) m k :
  k ∈ files_below d m ↔ ∃ c, m !! (d ++ k) = Some (File c).
Proof.
  unfold files_below. rewrite elem_of_list_omap. split.
  - intros ([p n] & Hin & Hf). apply elem_of_map_to_list in Hin. cbn [fst snd] in Hf.
    destruct n as [c|]; [|discriminate]. destruct (decide (under d p)) as [[k' ->]|]; [|discriminate].
    injection Hf as <-. rewrite drop_app. rewrite restrict_under_lookup, decide_True in Hin by apply under_app.
    eauto.
  - intros [c Hc]. exists (d ++ k, File c). split.
    + apply elem_of_map_to_list. by rewrite restrict_under_lookup, decide_True by apply under_app.
    + cbn [fst snd]. rewrite decide_True by apply under_app. by rewrite drop_app.
Qed.

Lemma open_store_cells flat dir m root s :
  open_store flat dir m root = Some s →
  st_root s = root ∧ st_cells s = map (λ k, (k, NotLoaded)) (files_below (root ++ [dir]) m).
Proof.
  unfold open_store. destruct (negb _); [discriminate|]. destruct (_ && _); [discriminate|].
  by intros [= <-].
Qed.

Lemma app_cons_path t (d : string) k : t ++ d :: k = (t ++ [d]) ++ k.
Proof. by rewrite <- app_assoc. Qed.

Lemma data_prog_compat t P c cells m :
  (∀ k c', (k, Loaded c') ∈ cells → t ++ DATA_DIR :: k = P → c' = c) →
  Forall (λ ea, compat P c ea.2) (concat (map (data_cell_prog t) cells)).
Proof.
  intros H. apply Forall_concat, Forall_fmap, Forall_forall. intros [k cl] Hin.
  unfold data_cell_prog. cbn [fst snd]. destruct cl as [|c'|].
  - repeat constructor. apply compat_fail.
  - repeat constructor; cbn [snd]; [apply compat_create_dir_all|].
    apply compat_write. by apply H.
  - repeat constructor. apply compat_fail.
Qed.
Lemma image_prog_compat t P c cells :
  (∀ k c', (k, Loaded c') ∈ cells → t ++ IMAGES_DIR :: k = P → c' = c) →
  Forall (λ ea, compat P c ea.2) (concat (map (image_cell_prog t) cells)).
Proof.
  intros H. apply Forall_concat, Forall_fmap, Forall_forall. intros [k cl] Hin.
  unfold image_cell_prog. cbn [fst snd]. destruct cl as [|c'|].
  - repeat constructor. apply compat_fail.
  - repeat constructor; cbn [snd]. apply compat_write. by apply H.
  - repeat constructor. apply compat_fail.
Qed.

Lemma write_prog_split t f :
  write_prog t f =
  concat (map (step_prog t f) [SFile FMeta; SFile FInfo; SFile FLib; SFile FGroups; SFile FKerning;
                               SFile FFeatures; SFile FLayerContents; SLayers])
  ++ step_prog t f SData ++ step_prog t f SImages.
Proof.
  unfold write_prog, write_steps. cbn [map concat]. rewrite app_nil_r. by rewrite <- !app_assoc.
Qed.

Lemma force_stores_Some m f f' :
  force_stores m f = Some f' →
  f' = set_stores f (force_store false DATA_DIR m (fa_data f)) (force_store true IMAGES_DIR m (fa_images f))
  ∧ store_ok (force_store false DATA_DIR m (fa_data f)) = true
  ∧ store_ok (force_store true IMAGES_DIR m (fa_images f)) = true.
Proof.
  unfold force_stores. destruct (store_ok _ && store_ok _) eqn:E; [|discriminate].
  apply andb_true_iff in E as [E1 E2]. by intros [= <-].
Qed.

(** the forced cells of a store opened on [m] at [t]: one loaded cell per file, holding the
    file's content *)
Lemma forced_cells_spec png flat dir m t s0 s :
  open_store flat dir m t = Some s0 → store_evolved png dir m s0 s →
  store_ok (force_store png dir m s) = true →
  (∀ k c, (k, Loaded c) ∈ st_cells (force_store png dir m s) → m !! (t ++ dir :: k) = Some (File c)) ∧
  (∀ k c, m !! (t ++ dir :: k) = Some (File c) → (k, Loaded c) ∈ st_cells (force_store png dir m s)).
Proof.
  intros Ho Hev Hok. apply open_store_cells in Ho as [Hroot Hcells].
  pose proof (forced_cells _ _ _ _ _ _ Hcells Hev) as Hf. rewrite Hroot in Hf.
  unfold store_ok in Hok. rewrite Hf in *. rewrite forallb_forall in Hok.
  split.
  - intros k c (k0 & Heq & Hk0)%elem_of_list_fmap.
    symmetry in Heq.
    apply force_cell_loaded in Heq as (c0 & Heq' & Hm); [|done].
    injection Heq' as -> ->. exact Hm.
  - intros k c Hm.
    assert (Hk : k ∈ files_below (t ++ [dir]) m).
    { apply elem_of_files_below. exists c. by rewrite <- app_cons_path. }
    assert (Hin : force_cell png dir m t (k, NotLoaded) ∈
                  map (λ k, force_cell png dir m t (k, NotLoaded)) (files_below (t ++ [dir]) m)).
    { apply elem_of_list_fmap. eauto. }
    pose proof (Hok _ (proj1 (elem_of_list_In _ _) Hin)) as Hc.
    destruct (force_cell_loaded png dir m t k _ eq_refl Hc) as (c0 & Heq & Hm0).
    rewrite Hm in Hm0. injection Hm0 as <-. by rewrite <- Heq.
Qed.

Lemma elem_of_concat_map {A B} (g : A → list B) (l : list A) (x : B) (a : A) :
  a ∈ l → x ∈ g a → x ∈ concat (map g l).
Proof.
  intros Ha Hx. apply elem_of_list_In, in_concat. exists (g a). split.
  - apply in_map. by apply elem_of_list_In.
  - by apply elem_of_list_In.
Qed.

Lemma in_place f t m m' sd si :
  open_store false DATA_DIR m t = Some sd → open_store true IMAGES_DIR m t = Some si →
  store_evolved false DATA_DIR m sd (fa_data f) → store_evolved true IMAGES_DIR m si (fa_images f) →
  save f t m = (Saved, m') →
  ∀ p c, under (t ++ [DATA_DIR]) p ∨ under (t ++ [IMAGES_DIR]) p →
         m !! p = Some (File c) → m' !! p = Some (File c).
Proof.
  intros Hod Hoi Hed Hei. rewrite save_unfold.
  destruct (refusal_kind f); [discriminate|].
  destruct (force_stores m f) as [f'|] eqn:F; [|discriminate].
  apply force_stores_Some in F as (-> & Hokd & Hoki).
  destruct (forced_cells_spec _ _ _ _ _ _ _ Hod Hed Hokd) as [Hd1 Hd2].
  destruct (forced_cells_spec _ _ _ _ _ _ _ Hoi Hei Hoki) as [Hi1 Hi2].
  set (d := force_store false DATA_DIR m (fa_data f)) in *.
  set (i := force_store true IMAGES_DIR m (fa_images f)) in *.
  intros Hrun p c Hp Hm.
  change ((Cleanup, wipe_act t) :: (CreateUfoDir, create_dir t) :: write_prog t (set_stores f d i))
    with ([(Cleanup, wipe_act t); (CreateUfoDir, create_dir t)] ++ write_prog t (set_stores f d i)) in Hrun.
  rewrite write_prog_split, !app_assoc in Hrun.
  apply run_prog_app_saved in Hrun as (m2 & Hrun & Himg).
  apply run_prog_app_saved in Hrun as (m1 & _ & Hdat).
  cbn [step_prog] in Hdat, Himg.
  change (fa_data (set_stores f d i)) with d in Hdat.
  change (fa_images (set_stores f d i)) with i in Himg.
  destruct Hp as [[k ->]|[k ->]]; rewrite <- app_cons_path in *.
  - (* a data file *)
    assert (Hcompat_d : Forall (λ ea, compat (t ++ DATA_DIR :: k) c ea.2)
                               (concat (map (data_cell_prog t) (st_cells d)))).
    { apply data_prog_compat; [exact m|]. intros k' c' Hin Heq.
      apply app_inv_head in Heq. injection Heq as ->. apply Hd1 in Hin. congruence. }
    assert (holds (t ++ DATA_DIR :: k) c m2) as H2.
    { eapply run_prog_written; [exact Hcompat_d| |exact Hdat].
      eapply (elem_of_concat_map _ _ _ (k, Loaded c)); [by apply Hd2|].
      unfold data_cell_prog. cbn [fst snd]. apply elem_of_list_further, elem_of_list_here. }
    destruct (st_cells i) as [|kc cells] eqn:Ei.
    + injection Himg as <-. exact H2.
    + eapply run_prog_holds; [|exact Himg|exact H2].
      constructor; [apply compat_create_dir|].
      apply image_prog_compat. intros k' c' _ Heq. apply app_inv_head in Heq. discriminate.
  - (* an image file *)
    pose proof (Hi2 _ _ Hm) as Hin.
    destruct (st_cells i) as [|kc cells] eqn:Ei; [by apply elem_of_nil in Hin|].
    eapply (run_prog_written _ _ _ _ _ ImageErr); [| |exact Himg].
    + constructor; [apply compat_create_dir|].
      apply image_prog_compat. intros k' c' Hin' Heq.
      apply app_inv_head in Heq. injection Heq as ->. apply Hi1 in Hin'. congruence.
    + apply elem_of_list_further.
      eapply (elem_of_concat_map _ _ _ (k, Loaded c)); [exact Hin|].
      unfold image_cell_prog. cbn [fst snd]. apply elem_of_list_here.
Qed.

(** * C09: the saved tree is a function of the font; nothing outside the target changes *)
Definition acts_as (a : action) (es : list (path * snode)) : Prop :=
  ∀ m m', a m = Some m' → m' = apply_entries es m.

(** [prog_spec t pr es]: every action of [pr], when it succeeds, inserts a fixed list of entries
    below [t]; [es] is their concatenation (relative to [t]) *)
Definition prog_spec (t : path) (pr : prog) (es : list (path * snode)) : Prop :=
  ∃ ess, Forall2 (λ ea e1, acts_as ea.2 (map (shift t) e1)) pr ess ∧ concat ess = es.

Lemma prog_spec_nil t : prog_spec t [] [].
Proof. exists []. split; [constructor|done]. Qed.
Lemma prog_spec_cons t e a pr e1 es :
  acts_as a (map (shift t) e1) → prog_spec t pr es → prog_spec t ((e, a) :: pr) (e1 ++ es).
Proof. intros Ha (ess & Hf & <-). exists (e1 :: ess). split; [by constructor|done]. Qed.
Lemma prog_spec_single t e a e1 :
  acts_as a (map (shift t) e1) → prog_spec t [(e, a)] e1.
Proof. intros Ha. exists [e1]. split; [by repeat constructor|]. cbn. by rewrite app_nil_r. Qed.
Lemma prog_spec_app t pr1 pr2 es1 es2 :
  prog_spec t pr1 es1 → prog_spec t pr2 es2 → prog_spec t (pr1 ++ pr2) (es1 ++ es2).
Proof.
  intros (ess1 & Hf1 & <-) (ess2 & Hf2 & <-). exists (ess1 ++ ess2).
  split; [by apply Forall2_app|]. by rewrite concat_app.
Qed.
Lemma prog_spec_concat_map {A} t (g : A → prog) (h : A → list (path * snode)) (l : list A) :
  Forall (λ x, prog_spec t (g x) (h x)) l → prog_spec t (concat (map g l)) (concat (map h l)).
Proof.
  induction 1 as [|x l Hx _ IH]; [apply prog_spec_nil|].
  cbn [map concat]. by apply prog_spec_app.
Qed.

Lemma prog_spec_saved t pr es m m' :
  prog_spec t pr es → run_prog pr m = (Saved, m') → m' = apply_entries (map (shift t) es) m.
Proof.
  intros (ess & Hf & <-). revert m. induction Hf as [|[e a] e1 pr ess Ha _ IH]; intros m; simpl.
  - by intros [= <-].
  - destruct (a m) as [m1|] eqn:E; [|discriminate]. intros H%IH.
    rewrite map_app, apply_entries_app. by rewrite <- (Ha _ _ E).
Qed.
Lemma prog_spec_frame t pr es m o m' p :
  prog_spec t pr es → run_prog pr m = (o, m') → ¬ under t p → m' !! p = m !! p.
Proof.
  intros (ess & Hf & _) Hrun Hu.
  apply (run_prog_inv (λ m1, m1 !! p = m !! p) pr m o m'); [|done|done].
  clear Hrun. induction Hf as [|[e a] e1 pr ess Ha _ IH]; constructor; [|done].
  intros m1 m2 Hs Hi. cbn [snd] in *. rewrite (Ha _ _ Hs).
  rewrite (apply_entries_frame_under t); [done|apply shift_under|done].
Qed.

(** ** the individual actions *)
Lemma acts_create_dir q : acts_as (create_dir q) [(q, Dir)].
Proof. intros m m' H%create_dir_Some. by subst. Qed.
Lemma acts_write q c : acts_as (write q c) [(q, File c)].
Proof. intros m m' H%write_Some. by subst. Qed.
Lemma acts_fail es : acts_as fail_act es.
Proof. by intros m m' H. Qed.
Lemma dir_chain_shift t pre rest :
  dir_chain (t ++ pre) rest = map (shift t) (dir_chain (C := content) pre rest).
Proof.
  revert pre. induction rest as [|s r IH]; intros pre; [done|].
  cbn [dir_chain map]. unfold shift at 1. cbn [fst snd]. rewrite <- IH. by rewrite app_assoc.
Qed.
Lemma acts_create_dir_all t rest : acts_as (create_dir_all t rest) (map (shift t) (dir_chain [] rest)).
Proof.
  intros m m' H%create_dir_all_Some. rewrite <- dir_chain_shift. by rewrite app_nil_r.
Qed.
Lemma acts_at_rel1 t d k es :
  acts_as (k (t ++ [d])) es → acts_as (at_rel t [Normal d] k) es.
Proof. intros H m m'. unfold at_rel. cbn [walk]. apply H. Qed.
Lemma acts_at_rel2 t d n k es :
  acts_as (k (t ++ [d; n])) es → acts_as (at_rel t ([Normal d] ++ [Normal n]) k) es.
Proof.
  intros H m m'. unfold at_rel. cbn [walk app].
  destruct (is_dir m (t ++ [d])); [|discriminate].
  replace ((t ++ [d]) ++ [n]) with (t ++ [d; n]) by (by rewrite <- app_assoc). apply H.
Qed.

(** ** the writing steps under [paths_safe] *)
Lemma glif_prog_spec t l d g :
  la_dir l = [Normal d] → single_normal (g_path g) →
  prog_spec t (glif_prog t l g) (glif_entries d g).
Proof.
  intros Hd [n Hn]. unfold glif_prog, glif_entries. rewrite Hd, Hn.
  destruct (g_body g) as [c|].
  - apply prog_spec_single.
    apply acts_at_rel2. cbn [map rel_name]. apply acts_write.
  - apply prog_spec_single, acts_fail.
Qed.
Lemma layer_prog_spec t l : layer_safe l → prog_spec t (layer_prog t l) (layer_entries l).
Proof.
  intros [[d Hd] Hg]. unfold layer_prog, layer_steps, layer_entries. cbn [map concat].
  rewrite app_nil_r. unfold lstep_prog. rewrite Hd. cbn [rel_name].
  change (([d], Dir) :: ([d; CONTENTS_FILE], File (la_contents l))
          :: match la_info l with Some c => [([d; LAYER_INFO_FILE], File c)] | None => [] end
          ++ concat (map (glif_entries d) (la_glifs l)))
    with ([([d], Dir)] ++ [([d; CONTENTS_FILE], File (la_contents l))]
          ++ match la_info l with Some c => [([d; LAYER_INFO_FILE], File c)] | None => [] end
          ++ concat (map (glif_entries d) (la_glifs l))).
  apply prog_spec_app; [|apply prog_spec_app; [|apply prog_spec_app]].
  - apply prog_spec_single.
    apply acts_at_rel1. apply acts_create_dir.
  - apply prog_spec_single.
    apply acts_at_rel2. apply acts_write.
  - destruct (la_info l) as [c|]; [|apply prog_spec_nil].
    apply prog_spec_single.
    apply acts_at_rel2. apply acts_write.
  - apply prog_spec_concat_map. eapply Forall_impl; [exact Hg|].
    intros g Hs. by apply glif_prog_spec.
Qed.
Lemma data_cell_prog_spec t kc : prog_spec t (data_cell_prog t kc) (data_entries kc).
Proof.
  unfold data_cell_prog, data_entries. destruct kc as [k [|c|]]; cbn [fst snd].
  - apply prog_spec_single, acts_fail.
  - apply prog_spec_cons; [apply acts_create_dir_all|].
    apply prog_spec_single, acts_write.
  - apply prog_spec_single, acts_fail.
Qed.
Lemma image_cell_prog_spec t kc : prog_spec t (image_cell_prog t kc) (image_entries kc).
Proof.
  unfold image_cell_prog, image_entries. destruct kc as [k [|c|]]; cbn [fst snd].
  - apply prog_spec_single, acts_fail.
  - apply prog_spec_single, acts_write.
  - apply prog_spec_single, acts_fail.
Qed.
Lemma topfile_prog_spec t f tf : prog_spec t (step_prog t f (SFile tf)) (topfile_entries f tf).
Proof.
  unfold step_prog, topfile_entries. destruct (topfile_content f tf) as [c|]; [|apply prog_spec_nil].
  apply prog_spec_single, acts_write.
Qed.

Lemma write_prog_spec t f :
  Forall layer_safe (fa_layers f) → prog_spec t (write_prog t f) (tail (entries f)).
Proof.
  intros Hl. unfold write_prog, write_steps, entries. cbn [tail map concat].
  rewrite !app_nil_r, <- !app_assoc.
  do 7 (apply prog_spec_app; [apply topfile_prog_spec|]).
  apply prog_spec_app; [|apply prog_spec_app].
  - cbn [step_prog]. apply prog_spec_concat_map. eapply Forall_impl; [exact Hl|].
    intros l. apply layer_prog_spec.
  - cbn [step_prog]. apply prog_spec_concat_map. apply Forall_forall. intros kc _.
    apply data_cell_prog_spec.
  - cbn [step_prog]. destruct (st_cells (fa_images f)) as [|kc cells]; [apply prog_spec_nil|].
    apply (prog_spec_cons t _ _ _ [([IMAGES_DIR], Dir)]); [apply acts_create_dir|].
    apply (prog_spec_concat_map t (image_cell_prog t) image_entries (kc :: cells)).
    apply Forall_forall. intros kc' _. apply image_cell_prog_spec.
Qed.

Lemma force_stores_layers m f f' : force_stores m f = Some f' → fa_layers f' = fa_layers f.
Proof. intros (-> & _)%force_stores_Some. done. Qed.

(** a successful save is: wipe, then exactly the font's entries, inserted in writing order *)
Lemma save_saved_entries f t m m' :
  Forall layer_safe (fa_layers f) → save f t m = (Saved, m') →
  ∃ f', force_stores m f = Some f' ∧
        m' = apply_entries (map (shift t) (entries f')) (if exists_ m t then wipe t m else m).
Proof.
  intros Hs. rewrite save_unfold. destruct (refusal_kind f); [discriminate|].
  destruct (force_stores m f) as [f'|] eqn:F; [|discriminate].
  intros Hrun. exists f'. split; [done|].
  cbn [run_prog] in Hrun. unfold wipe_act in Hrun.
  assert (∃ m1, m1 = (if exists_ m t then wipe t m else m) ∧
                run_prog ((CreateUfoDir, create_dir t) :: write_prog t f') m1 = (Saved, m')) as (m1 & Hm1 & Hrun1).
  { destruct (exists_ m t).
    - unfold remove_dir_all in Hrun. destruct (is_dir m t); [|discriminate]. eauto.
    - eauto. }
  rewrite <- Hm1. clear Hrun Hm1. cbn [run_prog] in Hrun1.
  destruct (create_dir t m1) as [m2|] eqn:Ec; [|discriminate].
  apply create_dir_Some in Ec. subst m2.
  eapply prog_spec_saved in Hrun1; [|apply write_prog_spec; by rewrite (force_stores_layers _ _ _ F)].
  rewrite Hrun1. unfold entries at 2. cbn [map]. rewrite apply_entries_cons.
  unfold shift at 3. cbn [fst snd]. by rewrite app_nil_r.
Qed.

Lemma tree_function f t m m' :
  wf_fs m → Forall layer_safe (fa_layers f) → save f t m = (Saved, m') →
  ∃ f', force_stores m f = Some f' ∧ restrict_under t m' = place t (tree_of f').
Proof.
  intros Hwf Hs Hsave. destruct (save_saved_entries _ _ _ _ Hs Hsave) as (f' & F & ->).
  exists f'. split; [done|].
  assert ((if exists_ m t then wipe t m else m) = wipe t m) as ->.
  { unfold exists_. destruct (m !! t) eqn:E; [done|]. by rewrite wipe_absent. }
  rewrite restrict_under_apply_wipe by apply shift_under.
  unfold tree_of. by rewrite <- apply_entries_place, place_empty.
Qed.

(** nothing outside the target changes, whatever the outcome *)
Lemma save_frame f t m o m' p :
  Forall layer_safe (fa_layers f) → save f t m = (o, m') → ¬ under t p → m' !! p = m !! p.
Proof.
  intros Hs. rewrite save_unfold. destruct (refusal_kind f); [by intros [= _ <-]|].
  destruct (force_stores m f) as [f'|] eqn:F; [|by intros [= _ <-]].
  intros Hrun Hu.
  eapply (run_prog_inv (λ m1, m1 !! p = m !! p)); [|exact Hrun|done].
  constructor; [|constructor].
  - intros m1 m2 Hw Hi. cbn [snd] in Hw. unfold wipe_act in Hw.
    destruct (exists_ m1 t); [|by injection Hw as <-].
    by rewrite (remove_dir_all_frame _ _ _ _ Hw Hu).
  - intros m1 m2 Hc%create_dir_Some Hi. subst m2. rewrite lookup_insert_ne; [done|].
    intros ->. apply Hu, under_refl.
  - destruct (write_prog_spec t f') as (ess & Hf & _); [by rewrite (force_stores_layers _ _ _ F)|].
    clear Hrun. induction Hf as [|[e a] e1 pr ess' Ha _ IH]; constructor; [|done].
    intros m1 m2 Hsome Hi. cbn [snd] in *. rewrite (Ha _ _ Hsome).
    rewrite (apply_entries_frame_under t); [done|apply shift_under|done].
Qed.

(** two successful saves of a font whose store cells are all loaded give the same tree, wherever
    they go and whatever was there *)
Lemma forced_independent m1 m2 f :
  store_ok (fa_data f) = true → store_ok (fa_images f) = true → force_stores m1 f = force_stores m2 f.
Proof.
  assert (Hcell : ∀ png dir m root (l : list (path * cell)),
             forallb cell_ok l = true → map (force_cell png dir m root) l = l).
  { intros png dir m root l. induction l as [|[k c] l IH]; [done|]. cbn [forallb map].
    intros [H1 H2]%andb_true_iff. rewrite IH by done. f_equal.
    destruct c; try discriminate. done. }
  intros Hd Hi. unfold force_stores, force_store, store_ok in *.
  by rewrite !Hcell.
Qed.

(** * C09: optional files exist exactly when their part is non-empty *)
Lemma apply_entries_lookup_ext (es : list (path * snode)) m1 m2 p :
  m1 !! p = m2 !! p → apply_entries es m1 !! p = apply_entries es m2 !! p.
Proof.
  revert m1 m2. induction es as [|e es IH]; intros m1 m2 H; [done|].
  rewrite !apply_entries_cons. apply IH.
  destruct (decide (e.1 = p)) as [->|Hne]; [by rewrite !lookup_insert|by rewrite !lookup_insert_ne].
Qed.
Definition at_path (p : path) (es : list (path * snode)) : list (path * snode) :=
  filter (λ e, e.1 = p) es.
Lemma apply_entries_at_path (es : list (path * snode)) m p :
  apply_entries es m !! p = apply_entries (at_path p es) m !! p.
Proof.
  unfold at_path. revert m. induction es as [|e es IH]; intros m; [done|].
  destruct (decide (e.1 = p)) as [He|He].
  - rewrite filter_cons_True by done. rewrite !apply_entries_cons. apply IH.
  - rewrite filter_cons_False by done. rewrite apply_entries_cons, IH.
    apply apply_entries_lookup_ext. by rewrite lookup_insert_ne.
Qed.
Lemma at_path_app p es1 es2 : at_path p (es1 ++ es2) = at_path p es1 ++ at_path p es2.
Proof. apply filter_app. Qed.
Lemma at_path_none p es : Forall (λ e, e.1 ≠ p) es → at_path p es = [].
Proof.
  unfold at_path. induction 1 as [|e es He _ IH]; [done|]. by rewrite filter_cons_False.
Qed.
Lemma at_path_concat_none {A} p (g : A → list (path * snode)) (l : list A) :
  Forall (λ x, Forall (λ e, e.1 ≠ p) (g x)) l → at_path p (concat (map g l)) = [].
Proof.
  intros H. apply at_path_none. apply Forall_concat, Forall_fmap. exact H.
Qed.

Definition headed (d : string) (es : list (path * snode)) : Prop :=
  Forall (λ e, ∃ r, e.1 = d :: r) es.
Lemma headed_ne d p es : headed d es → (∀ r, p ≠ d :: r) → Forall (λ e, e.1 ≠ p) es.
Proof. intros H Hp. eapply Forall_impl; [exact H|]. intros e [r Hr] Heq. apply (Hp r). congruence. Qed.

Lemma dir_chain_headed d pre rest : headed d (dir_chain (C := content) (d :: pre) rest).
Proof.
  revert pre. induction rest as [|s r IH]; intros pre; [constructor|].
  cbn [dir_chain]. constructor; [by eexists|]. apply (IH (pre ++ [s])).
Qed.
Lemma data_entries_headed kc : headed DATA_DIR (data_entries kc).
Proof.
  unfold data_entries. destruct kc as [k [|c|]]; cbn [fst snd]; [constructor| |constructor].
  unfold headed. apply Forall_app. split.
  - cbn [dir_chain app]. constructor; [by eexists|]. apply (dir_chain_headed DATA_DIR []).
  - constructor; [by eexists|constructor].
Qed.
Lemma image_entries_headed kc : headed IMAGES_DIR (image_entries kc).
Proof.
  unfold image_entries. destruct kc as [k [|c|]]; cbn [fst snd]; [constructor| |constructor].
  constructor; [by eexists|constructor].
Qed.
Lemma glif_entries_headed d g : headed d (glif_entries d g).
Proof.
  unfold glif_entries. destruct (g_body g); [|constructor]. constructor; [by eexists|constructor].
Qed.
Lemma layer_entries_headed l : headed (rel_name (la_dir l)) (layer_entries l).
Proof.
  unfold layer_entries. constructor; [by eexists|]. constructor; [by eexists|].
  apply Forall_app. split.
  - destruct (la_info l); [|constructor]. constructor; [by eexists|constructor].
  - apply Forall_concat, Forall_fmap, Forall_forall. intros g _. apply glif_entries_headed.
Qed.
(** the entries of a font, split into its four parts *)
Definition tops f : list (path * snode) :=
  concat (map (topfile_entries f) [FMeta; FInfo; FLib; FGroups; FKerning; FFeatures; FLayerContents]).
Definition layers_part f : list (path * snode) := concat (map layer_entries (fa_layers f)).
Definition data_part f : list (path * snode) := concat (map data_entries (st_cells (fa_data f))).
Definition images_part f : list (path * snode) :=
  match st_cells (fa_images f) with
  | [] => []
  | cells => ([IMAGES_DIR], Dir) :: concat (map image_entries cells)
  end.
Lemma entries_parts f : entries f = ([], Dir) :: tops f ++ layers_part f ++ data_part f ++ images_part f.
Proof. done. Qed.

Lemma images_part_headed f : headed IMAGES_DIR (images_part f).
Proof.
  unfold images_part. destruct (st_cells (fa_images f)) as [|kc cells]; [constructor|].
  constructor; [by eexists|].
  apply Forall_concat, Forall_fmap, Forall_forall. intros kc' _. apply image_entries_headed.
Qed.

Lemma tree_of_lookup f p :
  p ≠ [] →
  tree_of f !! p =
  apply_entries (at_path p (tops f) ++ at_path p (layers_part f) ++ at_path p (data_part f)
                 ++ at_path p (images_part f)) ∅ !! p.
Proof.
  intros Hp. unfold tree_of. rewrite apply_entries_at_path, entries_parts. unfold at_path at 1.
  rewrite filter_cons_False by (cbn; congruence).
  fold (at_path p (tops f ++ layers_part f ++ data_part f ++ images_part f)).
  by rewrite !at_path_app.
Qed.

Lemma layers_part_not_top f name :
  Forall layer_unreserved (fa_layers f) → name ∈ top_reserved →
  at_path [name] (layers_part f) = [].
Proof.
  intros Hu Hin. apply at_path_concat_none. eapply Forall_impl; [exact Hu|].
  intros l [Hd _]. eapply headed_ne; [apply layer_entries_headed|].
  intros r [= -> _]. by apply Hd.
Qed.

Lemma topfile_name_reserved tf : topfile_name tf ∈ top_reserved.
Proof. unfold top_reserved. destruct tf; cbn; set_solver. Qed.
Lemma topfile_name_not_store tf : topfile_name tf ≠ DATA_DIR ∧ topfile_name tf ≠ IMAGES_DIR.
Proof. by destruct tf. Qed.

(** a top-level optional file is in the tree, as a file with the part's content, exactly when
    the part is non-empty *)
Lemma optional_top f tf :
  Forall layer_unreserved (fa_layers f) →
  tree_of f !! [topfile_name tf] = File <$> topfile_content f tf.
Proof.
  intros Hu. rewrite tree_of_lookup by done.
  rewrite (layers_part_not_top _ _ Hu (topfile_name_reserved tf)).
  destruct (topfile_name_not_store tf) as [Hd Hi].
  rewrite (at_path_none _ (data_part f)); cycle 1.
  { apply Forall_concat, Forall_fmap, Forall_forall. intros kc _.
    eapply headed_ne; [apply data_entries_headed|]. intros r [= H _]. by apply Hd. }
  rewrite (at_path_none _ (images_part f)); cycle 1.
  { eapply headed_ne; [apply images_part_headed|]. intros r [= H _]. by apply Hi. }
  rewrite !app_nil_r. unfold tops, topfile_entries, at_path. cbn [map concat topfile_content].
  destruct tf; cbn [topfile_content topfile_name];
    destruct (fa_info f), (fa_lib f), (fa_groups f), (fa_kerning f), (fa_features f);
    vm_compute; reflexivity.
Qed.

Lemma tops_single f : Forall (λ e, ∃ tf, e.1 = [topfile_name tf]) (tops f).
Proof.
  unfold tops. apply Forall_concat, Forall_fmap, Forall_forall. intros tf _.
  unfold compose, topfile_entries. destruct (topfile_content f tf); [|constructor].
  constructor; [by exists tf|constructor].
Qed.
Lemma tops_not_long f (a b : string) r : at_path (a :: b :: r) (tops f) = [].
Proof.
  apply at_path_none. eapply Forall_impl; [apply tops_single|]. intros e [tf ->]. done.
Qed.
Lemma tops_not_store f d : d = DATA_DIR ∨ d = IMAGES_DIR → at_path [d] (tops f) = [].
Proof.
  intros Hd. apply at_path_none. eapply Forall_impl; [apply tops_single|]. intros e [tf ->] [= H].
  destruct (topfile_name_not_store tf) as [H1 H2]. destruct Hd; congruence.
Qed.

Lemma at_path_layer_info l :
  Forall (λ g, rel_name (g_path g) ∉ layer_reserved) (la_glifs l) →
  at_path [rel_name (la_dir l); LAYER_INFO_FILE] (layer_entries l) =
  match la_info l with Some c => [([rel_name (la_dir l); LAYER_INFO_FILE], File c)] | None => [] end.
Proof.
  intros Hg. unfold layer_entries. set (d := rel_name (la_dir l)). unfold at_path.
  rewrite filter_cons_False by (cbn; congruence).
  rewrite filter_cons_False by (cbn; intros [= H]; discriminate).
  rewrite filter_app.
  match goal with |- _ ++ ?x = _ => assert (x = []) as -> end.
  { apply (at_path_none [d; LAYER_INFO_FILE]). apply Forall_concat, Forall_fmap, Forall_forall.
    intros g Hin. rewrite Forall_forall in Hg. specialize (Hg g Hin).
    unfold compose, glif_entries. destruct (g_body g); [|constructor].
    constructor; [|constructor]. cbn [fst]. intros [= H]. apply Hg. rewrite H.
    unfold layer_reserved. set_solver. }
  rewrite app_nil_r. destruct (la_info l); [|done]. by rewrite filter_cons_True.
Qed.

Lemma optional_layerinfo f l :
  names_unreserved f → l ∈ fa_layers f →
  tree_of f !! [rel_name (la_dir l); LAYER_INFO_FILE] = File <$> la_info l.
Proof.
  intros [Hu Hnd] Hin. set (d := rel_name (la_dir l)).
  rewrite tree_of_lookup by done. rewrite tops_not_long. cbn [app].
  pose proof Hu as Hu'. rewrite Forall_forall in Hu'. destruct (Hu' l Hin) as [Hd Hg].
  rewrite (at_path_none _ (data_part f)); cycle 1.
  { apply Forall_concat, Forall_fmap, Forall_forall. intros kc _.
    eapply headed_ne; [apply data_entries_headed|]. intros r [= H _]. apply Hd.
    fold d. rewrite H. unfold top_reserved. set_solver. }
  rewrite (at_path_none _ (images_part f)); cycle 1.
  { eapply headed_ne; [apply images_part_headed|]. intros r [= H _]. apply Hd.
    fold d. rewrite H. unfold top_reserved. set_solver. }
  rewrite !app_nil_r.
  apply elem_of_list_split in Hin as (l1 & l2 & Hl). unfold layers_part. rewrite Hl in *.
  rewrite fmap_app, fmap_cons in Hnd.
  apply NoDup_app in Hnd as (_ & Hn1 & Hnd). apply NoDup_cons in Hnd as [Hn2 _].
  rewrite map_app, concat_app. cbn [map concat]. rewrite !at_path_app.
  rewrite (at_path_concat_none _ layer_entries l1); cycle 1.
  { apply Forall_forall. intros l' Hl'. eapply headed_ne; [apply layer_entries_headed|].
    intros r [= H _]. apply (Hn1 (rel_name (la_dir l'))); [apply elem_of_list_fmap; by exists l'|].
    rewrite <- H. apply elem_of_list_here. }
  rewrite (at_path_concat_none _ layer_entries l2); cycle 1.
  { apply Forall_forall. intros l' Hl'. eapply headed_ne; [apply layer_entries_headed|].
    intros r [= H _]. apply Hn2. fold d. rewrite H. apply elem_of_list_fmap. by exists l'. }
  rewrite app_nil_r. cbn [app]. subst d. rewrite at_path_layer_info by done.
  destruct (la_info l); [|done]. unfold apply_entries. cbn. by rewrite lookup_insert.
Qed.

Lemma apply_entries_repeat {A} (l : list A) p (n : snode) m :
  apply_entries (map (λ _, (p, n)) l) m !! p = match l with [] => m !! p | _ => Some n end.
Proof.
  revert m. induction l as [|x l IH]; intros m; [done|].
  cbn [map]. rewrite apply_entries_cons, IH. cbn [fst snd]. destruct l; [by rewrite lookup_insert|done].
Qed.
Lemma dir_chain_longer pre rest :
  Forall (λ e, length pre < length e.1) (dir_chain (C := content) pre rest).
Proof.
  revert pre. induction rest as [|s r IH]; intros pre; [constructor|]. cbn [dir_chain].
  constructor; [cbn; rewrite app_length; cbn; lia|].
  eapply Forall_impl; [apply IH|]. intros e. rewrite app_length. cbn. lia.
Qed.

Lemma at_path_data_dir f :
  store_ok (fa_data f) = true → store_keys_ok (fa_data f) →
  at_path [DATA_DIR] (data_part f) = map (λ _, ([DATA_DIR], Dir)) (st_cells (fa_data f)).
Proof.
  unfold store_ok, store_keys_ok, data_part.
  induction (st_cells (fa_data f)) as [|[k c] cells IH]; [done|].
  cbn [forallb map concat]. intros [Hc Hok]%andb_true_iff Hk.
  inversion Hk as [|? ? Hk1 Hk2]; subst. rewrite at_path_app, IH by done.
  destruct c as [|c|]; try discriminate.
  assert (at_path [DATA_DIR] (data_entries (k, Loaded c)) = [([DATA_DIR], Dir)]) as ->; [|done].
  unfold data_entries. cbn [fst snd dir_chain app]. unfold at_path.
  rewrite filter_cons_True by done. rewrite filter_app. f_equal.
  match goal with |- ?x ++ ?y = _ => assert (x = []) as ->; [|assert (y = []) as ->; [|done]] end.
  - apply (at_path_none [DATA_DIR]). eapply Forall_impl; [apply (dir_chain_longer [DATA_DIR])|].
    intros e Hlen Heq. cbv beta in Hlen. rewrite Heq in Hlen. cbn in Hlen. lia.
  - rewrite filter_cons_False; [done|]. cbn [fst snd] in *. intros [= ->]. by apply Hk1.
Qed.

Lemma optional_data_dir f :
  Forall layer_unreserved (fa_layers f) → store_ok (fa_data f) = true → store_keys_ok (fa_data f) →
  tree_of f !! [DATA_DIR] = match st_cells (fa_data f) with [] => None | _ => Some Dir end.
Proof.
  intros Hu Hok Hk. rewrite tree_of_lookup by done.
  rewrite tops_not_store by auto. cbn [app].
  rewrite (layers_part_not_top f DATA_DIR Hu) by (unfold top_reserved; set_solver). cbn [app].
  rewrite (at_path_none _ (images_part f)); cycle 1.
  { eapply headed_ne; [apply images_part_headed|]. intros r [= H _]. }
  rewrite app_nil_r, at_path_data_dir by done. by rewrite apply_entries_repeat.
Qed.

Lemma optional_images_dir f :
  Forall layer_unreserved (fa_layers f) → store_ok (fa_images f) = true → store_keys_ok (fa_images f) →
  tree_of f !! [IMAGES_DIR] = match st_cells (fa_images f) with [] => None | _ => Some Dir end.
Proof.
  intros Hu Hok Hk. rewrite tree_of_lookup by done.
  rewrite tops_not_store by auto. cbn [app].
  rewrite (layers_part_not_top f IMAGES_DIR Hu) by (unfold top_reserved; set_solver). cbn [app].
  rewrite (at_path_none _ (data_part f)); cycle 1.
  { apply Forall_concat, Forall_fmap, Forall_forall. intros kc _.
    eapply headed_ne; [apply data_entries_headed|]. intros r [= H _]. }
  cbn [app]. unfold images_part, store_keys_ok in *.
  destruct (st_cells (fa_images f)) as [|kc cells]; [done|].
  unfold at_path. rewrite filter_cons_True by done.
  match goal with |- apply_entries (_ :: ?x) _ !! _ = _ => assert (x = []) as -> end.
  { apply (at_path_none [IMAGES_DIR]). apply Forall_concat, Forall_fmap, Forall_forall.
    intros [k c] Hin. rewrite Forall_forall in Hk. specialize (Hk _ Hin).
    unfold compose, image_entries. destruct c; cbn [fst snd]; [constructor| |constructor].
    constructor; [|constructor]. cbn [fst snd] in *. intros [= ->]. by apply Hk. }
  unfold apply_entries. cbn. by rewrite lookup_insert.
Qed.

(** [layers_safe] is decidable *)
Lemma single_normalb_spec r : single_normalb r = true ↔ single_normal r.
Proof.
  unfold single_normal. split.
  - destruct r as [|[s| | |] [|? ?]]; try discriminate. eauto.
  - intros [s ->]. done.
Qed.
Lemma layer_safeb_spec l : layer_safeb l = true ↔ layer_safe l.
Proof.
  unfold layer_safeb, layer_safe. rewrite andb_true_iff, single_normalb_spec.
  rewrite forallb_forall, Forall_forall. split; intros [H1 H2]; split; try done.
  - intros g Hg. apply single_normalb_spec, H2. by apply elem_of_list_In.
  - intros g Hg. apply single_normalb_spec, H2. by apply elem_of_list_In.
Qed.
Lemma layers_safeb_spec f : layers_safeb f = true ↔ layers_safe f.
Proof.
  unfold layers_safeb, layers_safe. rewrite forallb_forall, Forall_forall. split; intros H l Hl.
  - apply layer_safeb_spec, H. by apply elem_of_list_In.
  - apply layer_safeb_spec, H. by apply elem_of_list_In.
Qed.

(** * C08: in place, for any store history *)
(** Whatever happened to the stores before (entries accessed, inserted, removed, earlier saves
    refused or successful): if a cell of a store rooted at the target is not loaded yet, or holds
    what the file system holds, then a successful save leaves that file with that content.  Store
    keys are unique (a map). *)
Lemma force_cell_In png dir m root cells k cl :
  (k, cl) ∈ cells → force_cell png dir m root (k, cl) ∈ map (force_cell png dir m root) cells.
Proof. intros H. apply elem_of_list_fmap. eauto. Qed.
Lemma forced_key_unique png dir m root cells k c c' :
  NoDup cells.*1 → (k, c) ∈ map (force_cell png dir m root) cells →
  (k, c') ∈ map (force_cell png dir m root) cells → c = c'.
Proof.
  intros Hnd (kc1 & E1 & H1)%elem_of_list_fmap (kc2 & E2 & H2)%elem_of_list_fmap.
  assert (kc1.1 = kc2.1) as Hk.
  { pose proof (force_cell_key png dir m root kc1) as K1. pose proof (force_cell_key png dir m root kc2) as K2.
    rewrite <- E1 in K1. rewrite <- E2 in K2. cbn in K1, K2. congruence. }
  assert (kc1 = kc2) as ->; [|congruence].
  clear -Hnd H1 H2 Hk. induction cells as [|x l IH]; [by apply elem_of_nil in H1|].
  rewrite fmap_cons in Hnd. apply NoDup_cons in Hnd as [Hx Hl].
  apply elem_of_cons in H1 as [->|H1]; apply elem_of_cons in H2 as [->|H2]; try done.
  - exfalso. apply Hx. rewrite Hk. apply elem_of_list_fmap. eauto.
  - exfalso. apply Hx. rewrite <- Hk. apply elem_of_list_fmap. eauto.
  - by apply IH.
Qed.

Lemma in_place_tracked f t m m' (image : bool) k cl c :
  let s := if image then fa_images f else fa_data f in
  let dir := if image then IMAGES_DIR else DATA_DIR in
  st_root s = t → NoDup (st_cells s).*1 → (k, cl) ∈ st_cells s →
  (cl = NotLoaded ∨ cl = Loaded c) → m !! (t ++ dir :: k) = Some (File c) →
  save f t m = (Saved, m') → m' !! (t ++ dir :: k) = Some (File c).
Proof.
  intros s dir Hroot Hnd Hin Hcl Hm. rewrite save_unfold.
  destruct (refusal_kind f); [discriminate|].
  destruct (force_stores m f) as [f'|] eqn:F; [|discriminate].
  apply force_stores_Some in F as (-> & Hokd & Hoki).
  set (d := force_store false DATA_DIR m (fa_data f)) in *.
  set (i := force_store true IMAGES_DIR m (fa_images f)) in *.
  intros Hrun.
  change ((Cleanup, wipe_act t) :: (CreateUfoDir, create_dir t) :: write_prog t (set_stores f d i))
    with ([(Cleanup, wipe_act t); (CreateUfoDir, create_dir t)] ++ write_prog t (set_stores f d i)) in Hrun.
  rewrite write_prog_split, !app_assoc in Hrun.
  apply run_prog_app_saved in Hrun as (m2 & Hrun & Himg).
  apply run_prog_app_saved in Hrun as (m1 & _ & Hdat).
  cbn [step_prog] in Hdat, Himg.
  change (fa_data (set_stores f d i)) with d in Hdat.
  change (fa_images (set_stores f d i)) with i in Himg.
  (* the forced cell of [k] is loaded with [c] *)
  assert (Hforced : ∀ png dirn (st : store), st_root st = t → (k, cl) ∈ st_cells st →
            store_ok (force_store png dirn m st) = true → m !! (t ++ dirn :: k) = Some (File c) →
            (k, Loaded c) ∈ st_cells (force_store png dirn m st)).
  { intros png dirn st Hr Hi Hok Hmm. unfold force_store. cbn [st_cells]. rewrite Hr.
    pose proof (force_cell_In png dirn m t _ _ _ Hi) as Hfi.
    destruct Hcl as [->| ->].
    - unfold store_ok, force_store in Hok. cbn [st_cells] in Hok. rewrite Hr in Hok.
      rewrite forallb_forall in Hok. pose proof (Hok _ (proj1 (elem_of_list_In _ _) Hfi)) as Hc.
      destruct (force_cell_loaded png dirn m t k _ eq_refl Hc) as (c0 & Heq & Hm0).
      rewrite Hmm in Hm0. injection Hm0 as <-. by rewrite <- Heq.
    - exact Hfi. }
  destruct image; subst s dir.
  - (* an image *)
    pose proof (Hforced true IMAGES_DIR (fa_images f) Hroot Hin Hoki Hm) as Hi.
    fold i in Hi. destruct (st_cells i) as [|kc cells] eqn:Ei; [by apply elem_of_nil in Hi|].
    eapply (run_prog_written _ _ _ _ _ ImageErr); [| |exact Himg].
    + constructor; [apply compat_create_dir|].
      apply image_prog_compat. intros k' c' Hin' Heq. apply app_inv_head in Heq. injection Heq as ->.
      rewrite <- Ei in Hin', Hi. unfold i, force_store in Hin', Hi. cbn [st_cells] in Hin', Hi.
      by eapply (forced_key_unique true IMAGES_DIR m (st_root (fa_images f)) _ k (Loaded c') (Loaded c)) in Hin' as [= ->].
    + apply elem_of_list_further.
      eapply (elem_of_concat_map _ _ _ (k, Loaded c)); [exact Hi|].
      unfold image_cell_prog. cbn [fst snd]. apply elem_of_list_here.
  - (* a data file *)
    pose proof (Hforced false DATA_DIR (fa_data f) Hroot Hin Hokd Hm) as Hd.
    fold d in Hd.
    assert (Hcompat_d : Forall (λ ea, compat (t ++ DATA_DIR :: k) c ea.2)
                               (concat (map (data_cell_prog t) (st_cells d)))).
    { apply data_prog_compat; [exact m|]. intros k' c' Hin' Heq.
      apply app_inv_head in Heq. injection Heq as ->.
      unfold d, force_store in Hin', Hd. cbn [st_cells] in Hin', Hd.
      by eapply (forced_key_unique false DATA_DIR m (st_root (fa_data f)) _ k (Loaded c') (Loaded c)) in Hin' as [= ->]. }
    assert (holds (t ++ DATA_DIR :: k) c m2) as H2.
    { eapply run_prog_written; [exact Hcompat_d| |exact Hdat].
      eapply (elem_of_concat_map _ _ _ (k, Loaded c)); [exact Hd|].
      unfold data_cell_prog. cbn [fst snd]. apply elem_of_list_further, elem_of_list_here. }
    destruct (st_cells i) as [|kc cells] eqn:Ei.
    + injection Himg as <-. exact H2.
    + eapply run_prog_holds; [|exact Himg|exact H2].
      constructor; [apply compat_create_dir|].
      apply image_prog_compat. intros k' c' _ Heq. apply app_inv_head in Heq. discriminate.
Qed.
