(** Proofs about the save model (Model/Save.v): C08 and C09. *)
From stdpp Require Import gmap strings.
From Norad.Model Require Import Fs Save.
From Norad.Proofs Require Import FsP.
Open Scope string_scope.
Open Scope list_scope.

Implicit Types (m : sfs) (p q t : path) (f : font_abs).

(** * Programs *)
Lemma run_prog_app pr1 pr2 m :
  run_prog (pr1 ++ pr2) m =
  match run_prog pr1 m with (Saved, m1) => run_prog pr2 m1 | r => r end.
Proof.
  revert m. induction pr1 as [|[e a] pr1 IH]; intros m; simpl; [done|].
  destruct (a m); [apply IH|done].
Qed.
Lemma run_prog_app_saved pr1 pr2 m m' :
  run_prog (pr1 ++ pr2) m = (Saved, m') →
  ∃ m1, run_prog pr1 m = (Saved, m1) ∧ run_prog pr2 m1 = (Saved, m').
Proof.
  rewrite run_prog_app. destruct (run_prog pr1 m) as [[|e] m1]; [eauto|discriminate].
Qed.

(** a property of states that every action of a program preserves survives a run, whatever the
    outcome *)
Lemma run_prog_inv (I : sfs → Prop) pr m o m' :
  Forall (λ ea, ∀ m1 m2, ea.2 m1 = Some m2 → I m1 → I m2) pr →
  run_prog pr m = (o, m') → I m → I m'.
Proof.
  revert m. induction pr as [|[e a] pr IH]; intros m Hall; simpl.
  - by intros [= _ <-].
  - inversion Hall as [|? ? Ha Hr]; subst. simpl in Ha.
    destruct (a m) as [m1|] eqn:E; [|by intros [= _ <-]].
    intros H Hi. eapply IH; eauto.
Qed.

(** * C08: refusals leave the file system alone *)
Lemma force_cell_error png dir m root kc :
  kc.2 = Error → cell_ok (force_cell png dir m root kc) = false.
Proof. destruct kc as [k c]. unfold force_cell, cell_ok. simpl. intros ->. done. Qed.
Lemma force_store_error png dir m s :
  has_error_cell s = true → store_ok (force_store png dir m s) = false.
Proof.
  unfold has_error_cell, store_ok, force_store. simpl.
  induction (st_cells s) as [|kc l IH]; cbn [existsb map forallb]; [done|].
  intros [H|H]%orb_true_iff.
  - rewrite force_cell_error; [done|]. by destruct kc as [k []].
  - rewrite IH by done. apply andb_false_r.
Qed.
Lemma force_stores_error m f : refuses RStore f = true → force_stores m f = None.
Proof.
  unfold refuses, force_stores. intros [H|H]%orb_true_iff.
  - by rewrite (force_store_error _ _ _ _ H).
  - rewrite (force_store_error _ _ _ _ H). by rewrite andb_false_r.
Qed.

Lemma refused_untouched f k t m :
  refusal_kind f = Some k → save f t m = (Failed (err_of k), m).
Proof.
  unfold refusal_kind, save, save_steps.
  destruct (refuses RVersion f) eqn:E1; [intros [= <-]; cbn [run_steps]; by rewrite E1|].
  destruct (refuses RObjLibs f) eqn:E2; [intros [= <-]; cbn [run_steps]; by rewrite E1, E2|].
  destruct (refuses RGroups f) eqn:E3; [intros [= <-]; cbn [run_steps]; by rewrite E1, E2, E3|].
  destruct (refuses RInfo f) eqn:E4; [intros [= <-]; cbn [run_steps]; by rewrite E1, E2, E3, E4|].
  destruct (refuses RStore f) eqn:E5; [|discriminate].
  intros [= <-]. cbn [run_steps]. rewrite E1, E2, E3, E4.
  by rewrite force_stores_error.
Qed.

(** a cell that is not loaded yet and cannot be loaded: refused as well, nothing touched *)
Lemma refused_untouched_unreadable f t m :
  refusal_kind f = None → force_stores m f = None → save f t m = (Failed InvalidStoreEntry, m).
Proof.
  unfold refusal_kind, save, save_steps.
  destruct (refuses RVersion f) eqn:E1; [discriminate|].
  destruct (refuses RObjLibs f) eqn:E2; [discriminate|].
  destruct (refuses RGroups f) eqn:E3; [discriminate|].
  destruct (refuses RInfo f) eqn:E4; [discriminate|].
  intros _ H. cbn [run_steps]. by rewrite E1, E2, E3, E4, H.
Qed.

(** the shape of a save that got past the checks *)
Definition write_steps : list sstep :=
  [SFile FMeta; SFile FInfo; SFile FLib; SFile FGroups; SFile FKerning; SFile FFeatures;
   SFile FLayerContents; SLayers; SData; SImages].
Definition write_prog (t : path) f : prog := concat (map (step_prog t f) write_steps).

Lemma run_steps_prog ss t f m :
  Forall (λ s, match s with SRefuse _ => False | _ => True end) ss →
  run_steps ss t f m = run_prog (concat (map (step_prog t f) ss)) m.
Proof.
  revert m. induction ss as [|s ss IH]; intros m Hall; [done|].
  inversion Hall as [|? ? Hs Hss]; subst.
  rewrite fmap_cons. simpl concat. rewrite run_prog_app.
  destruct s; try done; cbn [run_steps];
    (destruct (run_prog _ m) as [[|e] m1]; [by apply IH|done]).
Qed.

Lemma save_unfold f t m :
  save f t m =
  match refusal_kind f with
  | Some k => (Failed (err_of k), m)
  | None =>
      match force_stores m f with
      | None => (Failed InvalidStoreEntry, m)
      | Some f' => run_prog ((Cleanup, wipe_act t) :: (CreateUfoDir, create_dir t) :: write_prog t f') m
      end
  end.
Proof.
  destruct (refusal_kind f) as [k|] eqn:E.
  - by apply refused_untouched.
  - destruct (force_stores m f) as [f'|] eqn:F.
    + revert E. unfold refusal_kind, save, save_steps.
      destruct (refuses RVersion f) eqn:E1; [discriminate|].
      destruct (refuses RObjLibs f) eqn:E2; [discriminate|].
      destruct (refuses RGroups f) eqn:E3; [discriminate|].
      destruct (refuses RInfo f) eqn:E4; [discriminate|].
      intros _. remember (SWipe :: _) as rest eqn:Hrest.
      cbn [run_steps]. rewrite E1, E2, E3, E4, F. subst rest.
      rewrite run_steps_prog by (repeat constructor). done.
    + by apply refused_untouched_unreadable.
Qed.

(** validators and store forcing precede the first mutation: a save that changes anything has
    passed every check *)
Lemma checks_before_mutation f t m o m' :
  save f t m = (o, m') → m' ≠ m → refusal_kind f = None ∧ is_Some (force_stores m f).
Proof.
  rewrite save_unfold. destruct (refusal_kind f); [by intros [= _ <-]|].
  destruct (force_stores m f); [eauto|by intros [= _ <-]].
Qed.

(** * C08: saving in place keeps the lazily loaded store files *)
Definition holds (P : path) (c : content) (m : sfs) : Prop := m !! P = Some (File c).
Definition compat (P : path) (c : content) (a : action) : Prop :=
  ∀ m m', a m = Some m' → holds P c m → holds P c m'.

Lemma compat_create_dir P c q : compat P c (create_dir q).
Proof.
  intros m m' H Hh. unfold create_dir in H. destruct (exists_ m q) eqn:E; [discriminate|].
  destruct (is_dir m (parent q)); [|discriminate]. injection H as <-.
  unfold holds. rewrite lookup_insert_ne; [done|]. intros Heq. subst P.
  unfold exists_ in E. unfold holds in Hh. by rewrite Hh in E.
Qed.
Lemma compat_create_dir_all P c pre rest : compat P c (create_dir_all pre rest).
Proof.
  revert pre. induction rest as [|s r IH]; intros pre m m'; cbn [create_dir_all].
  - by intros [= <-].
  - destruct (m !! (pre ++ [s])) as [[x|]|] eqn:E; [discriminate|apply IH|].
    destruct (is_dir m pre); [|discriminate]. intros H Hh. eapply IH; [exact H|].
    unfold holds. rewrite lookup_insert_ne; [done|]. intros Heq. subst P. unfold holds in Hh. rewrite E in Hh. discriminate.
Qed.
Lemma compat_write P c q c' : (q = P → c' = c) → compat P c (write q c').
Proof.
  intros Hq m m' H%write_Some Hh. subst m'. unfold holds.
  destruct (decide (q = P)) as [->|Hne].
  - rewrite Hq by done. by rewrite lookup_insert.
  - by rewrite lookup_insert_ne.
Qed.
Lemma compat_fail P c : compat P c fail_act.
Proof. by intros m m' H. Qed.

Lemma run_prog_holds pr m m' P c :
  Forall (λ ea, compat P c ea.2) pr → run_prog pr m = (Saved, m') → holds P c m → holds P c m'.
Proof. intros Hall. apply run_prog_inv. eapply Forall_impl; [exact Hall|]. intros ea H; exact H. Qed.

Lemma run_prog_written pr m m' P c e :
  Forall (λ ea, compat P c ea.2) pr → (e, write P c) ∈ pr →
  run_prog pr m = (Saved, m') → holds P c m'.
Proof.
  intros Hall (pr1 & pr2 & ->)%elem_of_list_split Hrun.
  apply run_prog_app_saved in Hrun as (m1 & _ & Hrun). simpl in Hrun.
  destruct (write P c m1) as [m2|] eqn:W; [|discriminate].
  apply Forall_app in Hall as [_ Hall]. inversion Hall as [|? ? _ Hall2]; subst.
  eapply run_prog_holds; [exact Hall2|exact Hrun|]. by apply write_at in W.
Qed.

Lemma force_cell_idem png dir m root kc :
  force_cell png dir m root (force_cell png dir m root kc) = force_cell png dir m root kc.
Proof.
  destruct kc as [k [|c|]]; unfold force_cell; cbn [snd fst]; try done.
  destruct (read m (root ++ dir :: k)) as [c|]; [|done].
  by destruct (negb png || c_png c).
Qed.
Lemma force_cell_key png dir m root kc : (force_cell png dir m root kc).1 = kc.1.
Proof.
  destruct kc as [k [|c|]]; unfold force_cell; cbn [snd fst]; try done.
  destruct (read m (root ++ dir :: k)) as [c|]; [|done].
  by destruct (negb png || c_png c).
Qed.
Lemma force_cell_loaded png dir m root k kc :
  force_cell png dir m root (k, NotLoaded) = kc → cell_ok kc = true →
  ∃ c, kc = (k, Loaded c) ∧ m !! (root ++ dir :: k) = Some (File c).
Proof.
  unfold force_cell, read. cbn [snd fst].
  destruct (m !! (root ++ dir :: k)) as [[c|]|] eqn:E; intros <-; try done.
  destruct (negb png || c_png c); [|done]. eauto.
Qed.

Lemma forced_cells png dir m s0 s keys :
  st_cells s0 = map (λ k, (k, NotLoaded)) keys → store_evolved png dir m s0 s →
  st_cells (force_store png dir m s) =
  map (λ k, force_cell png dir m (st_root s0) (k, NotLoaded)) keys.
Proof.
  intros Hk [Hroot Hev]. unfold force_store. cbn [st_cells]. rewrite Hroot. rewrite Hk in Hev.
  clear Hk Hroot. revert Hev. generalize (st_cells s). intros l.
  revert l. induction keys as [|k keys IH]; intros l H; inversion H as [|? ? ? ? Hc Hr]; subst; [done|].
  cbn [map]. f_equal; [|by apply IH].
  destruct Hc as [->| ->]; [done|apply force_cell_idem].
Qed.

Lemma elem_of_files_below (d : path) m k :
  k ∈ files_below d m ↔ ∃ c, m !! (d ++ k) = Some (File c).
Proof.
  unfold files_below. rewrite elem_of_list_omap. split.
  - intros ([p n] & Hin & Hf). apply elem_of_map_to_list in Hin. cbn [fst snd] in Hf.
    destruct n as [c|]; [|discriminate]. destruct (decide (under d p)) as [[k' ->]|]; [|discriminate].
    injection Hf as <-. rewrite drop_app. eauto.
  - intros [c Hc]. exists (d ++ k, File c). split; [by apply elem_of_map_to_list|].
    cbn [fst snd]. rewrite decide_True by apply under_app. by rewrite drop_app.
Qed.

Lemma open_store_cells flat dir m root s :
  open_store flat dir m root = Some s →
  st_root s = root ∧ st_cells s = map (λ k, (k, NotLoaded)) (files_below (root ++ [dir]) m).
Proof.
  unfold open_store. destruct (negb _); [discriminate|]. destruct (_ && _); [discriminate|].
  by intros [= <-].
Qed.

Lemma app_cons_path t (d : string) k : t ++ d :: k = (t ++ [d]) ++ k.
Proof. by rewrite <- app_assoc. Qed.

Lemma data_prog_compat t P c cells m :
  (∀ k c', (k, Loaded c') ∈ cells → t ++ DATA_DIR :: k = P → c' = c) →
  Forall (λ ea, compat P c ea.2) (concat (map (data_cell_prog t) cells)).
Proof.
  intros H. apply Forall_concat, Forall_fmap, Forall_forall. intros [k cl] Hin.
  unfold data_cell_prog. cbn [fst snd]. destruct cl as [|c'|].
  - repeat constructor. apply compat_fail.
  - repeat constructor; cbn [snd]; [apply compat_create_dir_all|].
    apply compat_write. by apply H.
  - repeat constructor. apply compat_fail.
Qed.
Lemma image_prog_compat t P c cells :
  (∀ k c', (k, Loaded c') ∈ cells → t ++ IMAGES_DIR :: k = P → c' = c) →
  Forall (λ ea, compat P c ea.2) (concat (map (image_cell_prog t) cells)).
Proof.
  intros H. apply Forall_concat, Forall_fmap, Forall_forall. intros [k cl] Hin.
  unfold image_cell_prog. cbn [fst snd]. destruct cl as [|c'|].
  - repeat constructor. apply compat_fail.
  - repeat constructor; cbn [snd]. apply compat_write. by apply H.
  - repeat constructor. apply compat_fail.
Qed.

Lemma write_prog_split t f :
  write_prog t f =
  concat (map (step_prog t f) [SFile FMeta; SFile FInfo; SFile FLib; SFile FGroups; SFile FKerning;
                               SFile FFeatures; SFile FLayerContents; SLayers])
  ++ step_prog t f SData ++ step_prog t f SImages.
Proof.
  unfold write_prog, write_steps. cbn [map concat]. rewrite app_nil_r. by rewrite <- !app_assoc.
Qed.

Lemma force_stores_Some m f f' :
  force_stores m f = Some f' →
  f' = set_stores f (force_store false DATA_DIR m (fa_data f)) (force_store true IMAGES_DIR m (fa_images f))
  ∧ store_ok (force_store false DATA_DIR m (fa_data f)) = true
  ∧ store_ok (force_store true IMAGES_DIR m (fa_images f)) = true.
Proof.
  unfold force_stores. destruct (store_ok _ && store_ok _) eqn:E; [|discriminate].
  apply andb_true_iff in E as [E1 E2]. by intros [= <-].
Qed.

(** the forced cells of a store opened on [m] at [t]: one loaded cell per file, holding the
    file's content *)
Lemma forced_cells_spec png flat dir m t s0 s :
  open_store flat dir m t = Some s0 → store_evolved png dir m s0 s →
  store_ok (force_store png dir m s) = true →
  (∀ k c, (k, Loaded c) ∈ st_cells (force_store png dir m s) → m !! (t ++ dir :: k) = Some (File c)) ∧
  (∀ k c, m !! (t ++ dir :: k) = Some (File c) → (k, Loaded c) ∈ st_cells (force_store png dir m s)).
Proof.
  intros Ho Hev Hok. apply open_store_cells in Ho as [Hroot Hcells].
  pose proof (forced_cells _ _ _ _ _ _ Hcells Hev) as Hf. rewrite Hroot in Hf.
  unfold store_ok in Hok. rewrite Hf in *. rewrite forallb_forall in Hok.
  split.
  - intros k c (k0 & Heq & Hk0)%elem_of_list_fmap.
    symmetry in Heq.
    apply force_cell_loaded in Heq as (c0 & Heq' & Hm); [|done].
    injection Heq' as -> ->. exact Hm.
  - intros k c Hm.
    assert (Hk : k ∈ files_below (t ++ [dir]) m).
    { apply elem_of_files_below. exists c. by rewrite <- app_cons_path. }
    assert (Hin : force_cell png dir m t (k, NotLoaded) ∈
                  map (λ k, force_cell png dir m t (k, NotLoaded)) (files_below (t ++ [dir]) m)).
    { apply elem_of_list_fmap. eauto. }
    pose proof (Hok _ (proj1 (elem_of_list_In _ _) Hin)) as Hc.
    destruct (force_cell_loaded png dir m t k _ eq_refl Hc) as (c0 & Heq & Hm0).
    rewrite Hm in Hm0. injection Hm0 as <-. by rewrite <- Heq.
Qed.

Lemma elem_of_concat_map {A B} (g : A → list B) (l : list A) (x : B) (a : A) :
  a ∈ l → x ∈ g a → x ∈ concat (map g l).
Proof.
  intros Ha Hx. apply elem_of_list_In, in_concat. exists (g a). split.
  - apply in_map. by apply elem_of_list_In.
  - by apply elem_of_list_In.
Qed.

Lemma in_place f t m m' sd si :
  open_store false DATA_DIR m t = Some sd → open_store true IMAGES_DIR m t = Some si →
  store_evolved false DATA_DIR m sd (fa_data f) → store_evolved true IMAGES_DIR m si (fa_images f) →
  save f t m = (Saved, m') →
  ∀ p c, under (t ++ [DATA_DIR]) p ∨ under (t ++ [IMAGES_DIR]) p →
         m !! p = Some (File c) → m' !! p = Some (File c).
Proof.
  intros Hod Hoi Hed Hei. rewrite save_unfold.
  destruct (refusal_kind f); [discriminate|].
  destruct (force_stores m f) as [f'|] eqn:F; [|discriminate].
  apply force_stores_Some in F as (-> & Hokd & Hoki).
  destruct (forced_cells_spec _ _ _ _ _ _ _ Hod Hed Hokd) as [Hd1 Hd2].
  destruct (forced_cells_spec _ _ _ _ _ _ _ Hoi Hei Hoki) as [Hi1 Hi2].
  set (d := force_store false DATA_DIR m (fa_data f)) in *.
  set (i := force_store true IMAGES_DIR m (fa_images f)) in *.
  intros Hrun p c Hp Hm.
  change ((Cleanup, wipe_act t) :: (CreateUfoDir, create_dir t) :: write_prog t (set_stores f d i))
    with ([(Cleanup, wipe_act t); (CreateUfoDir, create_dir t)] ++ write_prog t (set_stores f d i)) in Hrun.
  rewrite write_prog_split, !app_assoc in Hrun.
  apply run_prog_app_saved in Hrun as (m2 & Hrun & Himg).
  apply run_prog_app_saved in Hrun as (m1 & _ & Hdat).
  cbn [step_prog] in Hdat, Himg.
  change (fa_data (set_stores f d i)) with d in Hdat.
  change (fa_images (set_stores f d i)) with i in Himg.
  destruct Hp as [[k ->]|[k ->]]; rewrite <- app_cons_path in *.
  - (* a data file *)
    assert (Hcompat_d : Forall (λ ea, compat (t ++ DATA_DIR :: k) c ea.2)
                               (concat (map (data_cell_prog t) (st_cells d)))).
    { apply data_prog_compat; [exact m|]. intros k' c' Hin Heq.
      apply app_inv_head in Heq. injection Heq as ->. apply Hd1 in Hin. congruence. }
    assert (holds (t ++ DATA_DIR :: k) c m2) as H2.
    { eapply run_prog_written; [exact Hcompat_d| |exact Hdat].
      eapply (elem_of_concat_map _ _ _ (k, Loaded c)); [by apply Hd2|].
      unfold data_cell_prog. cbn [fst snd]. apply elem_of_list_further, elem_of_list_here. }
    destruct (st_cells i) as [|kc cells] eqn:Ei.
    + injection Himg as <-. exact H2.
    + eapply run_prog_holds; [|exact Himg|exact H2].
      constructor; [apply compat_create_dir|].
      apply image_prog_compat. intros k' c' _ Heq. apply app_inv_head in Heq. discriminate.
  - (* an image file *)
    pose proof (Hi2 _ _ Hm) as Hin.
    destruct (st_cells i) as [|kc cells] eqn:Ei; [by apply elem_of_nil in Hin|].
    eapply (run_prog_written _ _ _ _ _ ImageErr); [| |exact Himg].
    + constructor; [apply compat_create_dir|].
      apply image_prog_compat. intros k' c' Hin' Heq.
      apply app_inv_head in Heq. injection Heq as ->. apply Hi1 in Hin'. congruence.
    + apply elem_of_list_further.
      eapply (elem_of_concat_map _ _ _ (k, Loaded c)); [exact Hin|].
      unfold image_cell_prog. cbn [fst snd]. apply elem_of_list_here.
Qed.
