(** Proofs about make_unique_group_name and upconvert_kerning (C15). *)
Require Import Norad.Model.Base Norad.Model.Groups Norad.Proofs.GroupsP.
From Coq Require Import DecimalN FinFun.
Open Scope N_scope.

(** * the unique-name loop *)
Lemma uint_bytes_inj : forall u v, uint_bytes u = uint_bytes v -> u = v.
Proof.
  induction u as [|u IH|u IH|u IH|u IH|u IH|u IH|u IH|u IH|u IH|u IH]; destruct v; cbn [uint_bytes]; intro H;
    try discriminate; try reflexivity; injection H as H; f_equal; apply IH; exact H.
Qed.
Lemma dec_inj : forall a c, dec a = dec c -> a = c.
Proof.
  intros a c H. apply uint_bytes_inj in H.
  rewrite <- (Unsigned.of_to a), <- (Unsigned.of_to c), H. reflexivity.
Qed.

Lemma uniq_loop_some : forall fuel base c g n, uniq_loop fuel base c g = Some n ->
  exists d, c <= d /\ n = base ++ dec d /\ ~ In n (keys g) /\
            forall e, c <= e < d -> In (base ++ dec e) (keys g).
Proof.
  induction fuel as [|fuel IH]; intros base c g n H; cbn [uniq_loop] in H; [discriminate|].
  destruct (has_key (base ++ dec c) g) eqn:E.
  - apply IH in H. destruct H as (d & Hd & -> & Hn & Hall). exists d.
    split; [lia|]. split; [reflexivity|]. split; [exact Hn|].
    intros e He. destruct (N.eq_dec e c) as [->|Ne]; [apply has_key_In; exact E | apply Hall; lia].
  - injection H as <-. exists c. split; [lia|]. split; [reflexivity|].
    split; [apply has_key_false; exact E|]. intros e He. lia.
Qed.

Lemma uniq_loop_none : forall fuel base c g, uniq_loop fuel base c g = None ->
  forall i, (i < fuel)%nat -> In (base ++ dec (c + N.of_nat i)) (keys g).
Proof.
  induction fuel as [|fuel IH]; intros base c g H i Hi; [lia|]. cbn [uniq_loop] in H.
  destruct (has_key (base ++ dec c) g) eqn:E; [|discriminate].
  destruct i as [|i].
  - rewrite N.add_0_r. apply has_key_In. exact E.
  - replace (c + N.of_nat (S i)) with ((c + 1) + N.of_nat i) by lia. apply IH; [exact H | lia].
Qed.

(** pigeonhole: |g|+1 pairwise different candidates cannot all be keys of g *)
Lemma uniq_loop_terminates : forall base c (g : groups), uniq_loop (S (length g)) base c g <> None.
Proof.
  intros base c g H.
  pose proof (uniq_loop_none _ _ _ _ H) as A.
  set (f := fun i : nat => base ++ dec (c + N.of_nat i)).
  assert (NoDup (map f (seq 0 (S (length g))))) as ND.
  { apply Injective_map_NoDup; [|apply seq_NoDup].
    intros i j E. unfold f in E. apply app_inv_head in E. apply dec_inj in E. lia. }
  assert (incl (map f (seq 0 (S (length g)))) (keys g)) as IN.
  { intros x I. apply in_map_iff in I. destruct I as (i & <- & I). apply in_seq in I. apply A. lia. }
  pose proof (NoDup_incl_length ND IN) as L.
  rewrite map_length, seq_length in L. unfold keys in L. rewrite map_length in L. lia.
Qed.

Theorem make_unique_spec : forall base g, exists n, make_unique base g = Some n /\ UniqueOf base g n.
Proof.
  intros base g. unfold make_unique, make_unique_fuel, UniqueOf. fold (keys g).
  destruct (has_key base g) eqn:E.
  - destruct (uniq_loop (S (length g)) base 1 g) as [n|] eqn:U.
    + exists n. split; [reflexivity|]. apply uniq_loop_some in U. destruct U as (d & Hd & -> & Hn & Hall).
      split; [exact Hn|]. right. split; [apply has_key_In; exact E|]. exists d. auto.
    + exfalso. exact (uniq_loop_terminates _ _ _ U).
  - exists base. split; [reflexivity|]. split; [apply has_key_false; exact E | left; reflexivity].
Qed.

Lemma UniqueOf_prefix : forall pre s g n, UniqueOf (pre ++ s) g n -> starts_with pre n = true.
Proof.
  intros pre s g n (_ & [->|(_ & d & _ & -> & _)]); [apply starts_with_app | apply starts_with_app_assoc].
Qed.

(** * sorted sets *)
Lemma ins_sorted_In : forall x n s, In x (ins_sorted n s) <-> x = n \/ In x s.
Proof.
  induction s as [|y s IH]; cbn [ins_sorted In]; [intuition congruence|].
  destruct (str_ltb y n); cbn [In]; [rewrite IH|]; split; intros H; intuition congruence.
Qed.
Lemma ins_sorted_NoDup : forall n s, ~ In n s -> NoDup s -> NoDup (ins_sorted n s).
Proof.
  induction s as [|y s IH]; cbn [ins_sorted]; intros Hn ND; [constructor; [intros []|constructor]|].
  inversion ND as [|? ? Hy Hs]; subst.
  destruct (str_ltb y n).
  - constructor.
    + rewrite ins_sorted_In. intros [->|I]; [apply Hn; left; reflexivity | contradiction].
    + apply IH; [intro I; apply Hn; right; exact I | exact Hs].
  - constructor; [exact Hn | exact ND].
Qed.
Lemma sinsert_In : forall x n s, In x (sinsert n s) <-> x = n \/ In x s.
Proof.
  intros x n s. unfold sinsert. destruct (memb n s) eqn:E.
  - apply memb_In in E. split; [intro H; right; exact H | intros [->|H]; assumption].
  - apply ins_sorted_In.
Qed.
Lemma sinsert_NoDup : forall n s, NoDup s -> NoDup (sinsert n s).
Proof.
  intros n s ND. unfold sinsert. destruct (memb n s) eqn:E; [exact ND|].
  apply ins_sorted_NoDup; [apply memb_false; exact E | exact ND].
Qed.

Definition ins_if (P : name -> bool) (s : list name) (n : name) : list name :=
  if P n then sinsert n s else s.

Lemma fold_ins_In : forall P l s0 c,
  In c (fold_left (ins_if P) l s0) <-> In c s0 \/ (In c l /\ P c = true).
Proof.
  induction l as [|x l IH]; intros s0 c; cbn [fold_left In]; [tauto|].
  rewrite IH. unfold ins_if. destruct (P x) eqn:E.
  - rewrite sinsert_In. split; intros H.
    + destruct H as [[->|H]|[H1 H2]]; auto.
    + destruct H as [H|[[->|H1] H2]]; auto.
  - split; intros H.
    + destruct H as [H|[H1 H2]]; auto.
    + destruct H as [H|[[->|H1] H2]]; auto. congruence.
Qed.
Lemma fold_ins_NoDup : forall P l s0, NoDup s0 -> NoDup (fold_left (ins_if P) l s0).
Proof.
  induction l as [|x l IH]; intros s0 ND; cbn [fold_left]; [exact ND|].
  apply IH. unfold ins_if. destruct (P x); [apply sinsert_NoDup; exact ND | exact ND].
Qed.

Lemma fold_left_ext : forall (A B : Type) (f h : A -> B -> A) l a,
  (forall a b, f a b = h a b) -> fold_left f l a = fold_left h l a.
Proof. induction l as [|x l IH]; intros a E; cbn [fold_left]; [reflexivity|]. rewrite E. apply IH. exact E. Qed.
Lemma fold_left_map' : forall (A B C : Type) (F : A -> C -> A) (f : B -> C) l a,
  fold_left (fun s e => F s (f e)) l a = fold_left F (map f l) a.
Proof. induction l as [|x l IH]; intro a; cbn [fold_left map]; [reflexivity | apply IH]. Qed.
Lemma fold_left_concat : forall (A B : Type) (F : A -> B -> A) ll a,
  fold_left (fun s l => fold_left F l s) ll a = fold_left F (concat ll) a.
Proof.
  induction ll as [|l ll IH]; intro a; cbn [fold_left concat]; [reflexivity|].
  rewrite fold_left_app. apply IH.
Qed.

(** * the groups to duplicate *)
Definition P2 (n : name) : bool := negb (starts_with MMKL n) && starts_with MMKR n.
Definition seconds (k : kerning) : list name := concat (map (fun e => map fst (snd e)) k).

Lemma known1_eq : forall g, known1 g = fold_left (ins_if (starts_with MMKL)) (keys g) [].
Proof. reflexivity. Qed.
Lemma known2_eq : forall g, known2 g = fold_left (ins_if P2) (keys g) [].
Proof.
  intro g. unfold known2. apply fold_left_ext. intros s n. unfold ins_if, P2.
  destruct (starts_with MMKL n); destruct (starts_with MMKR n); reflexivity.
Qed.
Lemma cands1_eq : forall g k gs,
  cands1 g k gs = fold_left (ins_if (referenced K1 g gs)) (keys k) (known1 g).
Proof. intros. unfold cands1, keys. rewrite <- fold_left_map'. reflexivity. Qed.
Lemma cands2_eq : forall g k gs,
  cands2 g k gs = fold_left (ins_if (referenced K2 g gs)) (seconds k) (known2 g).
Proof.
  intros. unfold cands2, seconds. rewrite <- fold_left_concat, <- fold_left_map'.
  apply fold_left_ext. intros s e. rewrite <- fold_left_map'. reflexivity.
Qed.

Lemma referenced_spec : forall pre g gs n,
  referenced pre g gs n = true <-> In n (keys g) /\ ~ In n gs /\ starts_with pre n = false.
Proof.
  intros. unfold referenced. rewrite !andb_true_iff, !negb_true_iff, has_key_In, memb_false. tauto.
Qed.

Lemma seconds_spec : forall (k : kerning) c,
  In c (seconds k) <-> exists a row, In (a, row) k /\ is_key c row.
Proof.
  intros k c. unfold seconds, is_key, keys. rewrite in_concat. split.
  - intros (l & I & Ic). apply in_map_iff in I. destruct I as ([a row] & <- & I). exists a, row. auto.
  - intros (a & row & I & Ic). exists (map fst row). split; [|exact Ic].
    apply in_map_iff. exists (a, row). auto.
Qed.

Theorem cands1_spec : forall g k gs c, In c (cands1 g k gs) <-> Cand1 g k gs c.
Proof.
  intros. rewrite cands1_eq, fold_ins_In, known1_eq, fold_ins_In, referenced_spec. unfold Cand1, is_key.
  rewrite starts_with_spec. cbn [In].
  assert (starts_with K1 c = false <-> ~ side1 c) as S1.
  { rewrite <- side1_spec. destruct (starts_with K1 c); split; intro H; congruence. }
  rewrite S1. tauto.
Qed.
Theorem cands2_spec : forall g k gs c, In c (cands2 g k gs) <-> Cand2 g k gs c.
Proof.
  intros. rewrite cands2_eq, fold_ins_In, known2_eq, fold_ins_In, referenced_spec, seconds_spec.
  unfold Cand2, is_key, P2. rewrite andb_true_iff, negb_true_iff, starts_with_spec. cbn [In].
  assert (starts_with K2 c = false <-> ~ side2 c) as S2.
  { rewrite <- side2_spec. destruct (starts_with K2 c); split; intro H; congruence. }
  assert (starts_with MMKL c = false <-> ~ (exists t, c = MMKL ++ t)) as S3.
  { rewrite <- starts_with_spec. destruct (starts_with MMKL c); split; intro H; congruence. }
  rewrite S2, S3. tauto.
Qed.
Lemma cands1_NoDup : forall g k gs, NoDup (cands1 g k gs).
Proof. intros. rewrite cands1_eq, known1_eq. apply fold_ins_NoDup, fold_ins_NoDup. constructor. Qed.
Lemma cands2_NoDup : forall g k gs, NoDup (cands2 g k gs).
Proof. intros. rewrite cands2_eq, known2_eq. apply fold_ins_NoDup, fold_ins_NoDup. constructor. Qed.
Lemma cands1_keys : forall g k gs c, In c (cands1 g k gs) -> In c (keys g).
Proof. intros g k gs c H. apply cands1_spec in H. destruct H as [H _]. exact H. Qed.
Lemma cands2_keys : forall g k gs c, In c (cands2 g k gs) -> In c (keys g).
Proof. intros g k gs c H. apply cands2_spec in H. destruct H as [H _]. exact H. Qed.

(** * duplicating the groups of one side *)
Section DupSide.
Variables pre pat : str.

Definition Inv (g0 gn : groups) (r : rentab) : Prop :=
  (forall n ms, lookup n gn = Some ms <->
                lookup n g0 = Some ms \/ exists c, In (c, n) r /\ lookup c g0 = Some ms) /\
  (forall c n, In (c, n) r -> starts_with pre n = true /\ ~ In n (keys g0) /\ In c (keys g0)) /\
  NoDup (map snd r) /\ NoDup (keys r).

Lemma Inv_keys_sub : forall g0 gn r n, Inv g0 gn r -> In n (keys g0) -> In n (keys gn).
Proof.
  intros g0 gn r n (L & _) I. apply lookup_key in I. destruct I as [ms I]. apply lookup_key.
  exists ms. apply L. left. exact I.
Qed.
Lemma Inv_img_sub : forall g0 gn r c n, Inv g0 gn r -> In (c, n) r -> In n (keys gn).
Proof.
  intros g0 gn r c n (L & F & _) I. destruct (F c n I) as (_ & _ & Ic).
  apply lookup_key in Ic. destruct Ic as [ms Ic]. apply lookup_key. exists ms. apply L. right.
  exists c. split; assumption.
Qed.

Lemma dup_side_spec : forall cs g0 gn r,
  Inv g0 gn r -> (forall c, In c cs -> In c (keys g0)) -> NoDup cs ->
  (forall c, In c cs -> ~ In c (keys r)) ->
  exists gn' r', dup_side pre pat cs gn r = Ok (gn', r') /\ Inv g0 gn' r' /\
                 keys r' = rev cs ++ keys r.
Proof.
  induction cs as [|c cs IH]; intros g0 gn r I Sub ND Fr.
  - exists gn, r. cbn [dup_side rev app]. auto.
  - cbn [dup_side].
    destruct (make_unique_spec (pre ++ remove_all pat c) gn) as (nn & MU & U). rewrite MU.
    assert (In c (keys g0)) as Ic by (apply Sub; left; reflexivity).
    destruct (proj2 (lookup_key _ c g0) Ic) as [ms Lc0].
    pose proof I as (L & F & N1 & N2).
    assert (lookup c gn = Some ms) as Lc by (apply L; left; exact Lc0). rewrite Lc.
    destruct U as [Unn Ushape].
    assert (starts_with pre nn = true) as Pnn by (apply (UniqueOf_prefix pre (remove_all pat c) gn nn); split; assumption).
    fold (keys gn) in Unn.
    assert (Inv g0 (minsert nn ms gn) ((c, nn) :: r)) as I2.
    { split; [|split; [|split]].
      - intros n ms'. destruct (str_eq_dec n nn) as [->|Ne].
        + rewrite lookup_minsert_eq. split.
          * intro H. injection H as <-. right. exists c. split; [left; reflexivity | exact Lc0].
          * intros [H | (c' & [E|Ir] & Lc')].
            -- exfalso. apply Unn. apply (Inv_keys_sub g0 gn r nn I). apply lookup_key. exists ms'. exact H.
            -- injection E as <-. congruence.
            -- exfalso. apply Unn. exact (Inv_img_sub g0 gn r c' nn I Ir).
        + rewrite lookup_minsert_ne by exact Ne. rewrite L. split.
          * intros [H | (c' & Ir & Lc')]; [left; exact H | right; exists c'; split; [right; exact Ir | exact Lc']].
          * intros [H | (c' & [E|Ir] & Lc')]; [left; exact H | injection E as <- <-; contradiction | right; exists c'; split; assumption].
      - intros c' n' [E|Ir].
        + injection E as <- <-. split; [exact Pnn|]. split; [|exact Ic].
          intro H. apply Unn. exact (Inv_keys_sub g0 gn r nn I H).
        + exact (F c' n' Ir).
      - cbn [map snd]. constructor; [|exact N1]. intro H. apply in_map_iff in H.
        destruct H as ([c' n'] & E & Ir). cbn [snd] in E. subst n'.
        apply Unn. exact (Inv_img_sub g0 gn r c' nn I Ir).
      - cbn [keys map fst]. constructor; [apply Fr; left; reflexivity | exact N2]. }
    inversion ND as [|? ? Hc Hcs]; subst.
    destruct (IH g0 (minsert nn ms gn) ((c, nn) :: r) I2) as (gn' & r' & D & I' & K).
    + intros c' Ic'. apply Sub. right. exact Ic'.
    + exact Hcs.
    + intros c' Ic' [E|H]; [cbn in E; subst c'; contradiction | apply (Fr c'); [right; exact Ic' | exact H]].
    + exists gn', r'. split; [exact D|]. split; [exact I'|]. rewrite K. cbn [keys map fst rev].
      rewrite <- app_assoc. reflexivity.
Qed.
End DupSide.

Lemma Inv_init : forall pre g, Inv pre g g [].
Proof.
  intros pre g. split; [|split; [|split]].
  - intros n ms. split; [intro H; left; exact H | intros [H|(c & [] & _)]; exact H].
  - intros c n [].
  - constructor.
  - constructor.
Qed.

Theorem upconvert_tables_spec : forall g k gs,
  exists g2 r1 r2, upconvert_tables g k gs = Ok (g2, r1, r2) /\ UpconvertedGroups g k gs r1 r2 g2.
Proof.
  intros g k gs. unfold upconvert_tables.
  destruct (dup_side_spec K1 MMKL (cands1 g k gs) g g [] (Inv_init K1 g)) as (g1 & r1 & D1 & I1 & Ks1).
  { apply cands1_keys. } { apply cands1_NoDup. } { intros c _ []. }
  rewrite D1.
  destruct (dup_side_spec K2 MMKR (cands2 g k gs) g1 g1 [] (Inv_init K2 g1)) as (g2 & r2 & D2 & I2 & Ks2).
  { intros c Ic. apply (Inv_keys_sub K1 g g1 r1 c I1). exact (cands2_keys g k gs c Ic). }
  { apply cands2_NoDup. } { intros c _ []. }
  rewrite D2. exists g2, r1, r2. split; [reflexivity|].
  cbn [keys map app] in Ks1, Ks2. rewrite app_nil_r in Ks1, Ks2.
  pose proof I1 as (L1 & F1 & Nn1 & No1). pose proof I2 as (L2 & F2 & Nn2 & No2).
  assert (forall c n, In (c, n) r2 -> In c (keys g)) as R2g.
  { intros c n Ir. apply (cands2_keys g k gs). apply in_rev. rewrite <- Ks2.
    change (In (fst (c, n)) (map fst r2)). apply in_map. exact Ir. }
  unfold UpconvertedGroups. repeat match goal with |- _ /\ _ => split end.
  - intro c. rewrite Ks1, <- in_rev. apply cands1_spec.
  - intro c. rewrite Ks2, <- in_rev. apply cands2_spec.
  - exact No1.
  - exact No2.
  - apply NoDup_app_iff. split; [exact Nn1|]. split; [exact Nn2|].
    intros x Ix1 Ix2. apply in_map_iff in Ix1. destruct Ix1 as ([c1 n1] & E1 & Ir1).
    apply in_map_iff in Ix2. destruct Ix2 as ([c2 n2] & E2 & Ir2). cbn [snd] in E1, E2. subst n1 n2.
    destruct (F2 c2 x Ir2) as (_ & Hn & _). apply Hn. exact (Inv_img_sub K1 g g1 r1 c1 x I1 Ir1).
  - intros c n Ir. destruct (F1 c n Ir) as (P & Hn & _). split; [apply side1_spec; exact P | exact Hn].
  - intros c n Ir. destruct (F2 c n Ir) as (P & Hn & _). split; [apply side2_spec; exact P|].
    intro H. apply Hn. exact (Inv_keys_sub K1 g g1 r1 n I1 H).
  - intros n ms. rewrite L2. split.
    + intros [H | (c & Ir & Lc)].
      * apply L1 in H. destruct H as [H | (c & Ir & Lc)]; [left; exact H|].
        right. exists c. split; [apply in_or_app; left; exact Ir | exact Lc].
      * right. exists c. split; [apply in_or_app; right; exact Ir|].
        apply L1 in Lc. destruct Lc as [H | (c' & Ir' & _)]; [exact H|].
        exfalso. destruct (F1 c' c Ir') as (_ & Hn & _). apply Hn. exact (R2g c n Ir).
    + intros [H | (c & Ir & Lc)].
      * left. apply L1. left. exact H.
      * apply in_app_or in Ir. destruct Ir as [Ir|Ir].
        -- left. apply L1. right. exists c. split; assumption.
        -- right. exists c. split; [exact Ir|]. apply L1. left. exact Lc.
Qed.

(** * renaming the kerning *)
Lemma find_unique : forall (E : Type) (kf : E -> name) l e,
  NoDup (map kf l) -> In e l -> find (fun e' => str_eqb (kf e) (kf e')) l = Some e.
Proof.
  induction l as [|y l IH]; intros e ND I; [destruct I|]. cbn [find]. cbn [map] in ND.
  inversion ND as [|? ? Hn Hd]; subst. destruct I as [->|I].
  - rewrite str_eqb_refl. reflexivity.
  - destruct (str_eqb (kf e) (kf y)) eqn:Q.
    + apply str_eqb_eq in Q. exfalso. apply Hn. rewrite <- Q. apply in_map. exact I.
    + apply IH; assumption.
Qed.

Lemma lookup_fold_minsert : forall (E V : Type) (kf : E -> name) (vf : E -> V) l acc x,
  NoDup (map kf l) ->
  lookup x (fold_left (fun a e => minsert (kf e) (vf e) a) l acc) =
  match find (fun e => str_eqb x (kf e)) l with Some e => Some (vf e) | None => lookup x acc end.
Proof.
  induction l as [|y l IH]; intros acc x ND; cbn [fold_left find]; [reflexivity|].
  cbn [map] in ND. inversion ND as [|? ? Hn Hd]; subst. rewrite IH by exact Hd.
  destruct (str_eqb x (kf y)) eqn:Q.
  - apply str_eqb_eq in Q. subst x. destruct (find (fun e => str_eqb (kf y) (kf e)) l) as [e|] eqn:Fd.
    + apply find_some in Fd. destruct Fd as [Ie Qe]. apply str_eqb_eq in Qe. exfalso. apply Hn.
      rewrite Qe. apply in_map. exact Ie.
    + apply lookup_minsert_eq.
  - destruct (find (fun e => str_eqb x (kf e)) l); [reflexivity|].
    apply lookup_minsert_ne. apply str_eqb_neq. exact Q.
Qed.

Lemma lookup_fold_iff : forall (E V : Type) (kf : E -> name) (vf : E -> V) l x v,
  NoDup (map kf l) ->
  (lookup x (fold_left (fun a e => minsert (kf e) (vf e) a) l []) = Some v <->
   exists e, In e l /\ kf e = x /\ vf e = v).
Proof.
  intros E V kf vf l x v ND. rewrite lookup_fold_minsert by exact ND. split.
  - destruct (find (fun e => str_eqb x (kf e)) l) as [e|] eqn:Fd; [|discriminate].
    intro H. injection H as <-. apply find_some in Fd. destruct Fd as [Ie Qe]. apply str_eqb_eq in Qe.
    exists e. auto.
  - intros (e & Ie & <- & <-). rewrite (find_unique E kf l e ND Ie). reflexivity.
Qed.

Lemma no_pair_collision_spec : forall r1 r2 (k : kerning),
  no_pair_collision r1 r2 k = true <->
  NoDup (map (fun e => ren r1 (fst e)) k) /\
  (forall e, In e k -> NoDup (map (fun p => ren r2 (fst p)) (snd e))).
Proof.
  intros. unfold no_pair_collision, keys. rewrite andb_true_iff, nodupb_spec, forallb_forall, map_map.
  split; intros [H1 H2]; (split; [exact H1|]); intros e Ie; specialize (H2 e Ie).
  - apply nodupb_spec in H2. rewrite map_map in H2. exact H2.
  - apply nodupb_spec. rewrite map_map. exact H2.
Qed.

Theorem pairs_renamed : forall r1 r2 k,
  no_pair_collision r1 r2 k = true -> PairsRenamed r1 r2 k (rename_kerning r1 r2 k).
Proof.
  intros r1 r2 k NC. apply no_pair_collision_spec in NC. destruct NC as [NDk NDrows].
  assert (NoDup (keys k)) as NDkeys.
  { unfold keys. apply (NoDup_map_inv' _ _ (ren r1)). rewrite map_map. exact NDk. }
  assert (forall e, In e k -> NoDup (keys (snd e))) as NDrk.
  { intros e Ie. unfold keys. apply (NoDup_map_inv' _ _ (ren r2)). rewrite map_map. exact (NDrows e Ie). }
  assert (forall a' row', lookup a' (rename_kerning r1 r2 k) = Some row' <->
                          exists e, In e k /\ ren r1 (fst e) = a' /\ rename_row r2 (snd e) = row') as LK.
  { intros a' row'. unfold rename_kerning.
    exact (lookup_fold_iff _ _ (fun e => ren r1 (fst e)) (fun e => rename_row r2 (snd e)) k a' row' NDk). }
  assert (forall e b' v, In e k -> (lookup b' (rename_row r2 (snd e)) = Some v <->
                          exists p, In p (snd e) /\ ren r2 (fst p) = b' /\ snd p = v)) as LR.
  { intros e b' v Ie. unfold rename_row.
    exact (lookup_fold_iff _ _ (fun p => ren r2 (fst p)) (fun p => snd p) (snd e) b' v (NDrows e Ie)). }
  split.
  - intros a' b' v. unfold pair_in. split.
    + intros (row' & La & Lb). apply LK in La. destruct La as ([a row] & Ie & <- & <-).
      apply (LR (a, row) b' v Ie) in Lb. destruct Lb as ([b0 v0] & Ip & <- & <-). cbn [fst snd] in *.
      exists a, b0. split; [|auto]. exists row. split.
      * apply lookup_In_NoDup; assumption.
      * apply lookup_In_NoDup; [exact (NDrk (a, row) Ie) | exact Ip].
    + intros (a & b0 & (row & La & Lb) & -> & ->).
      apply lookup_Some_In in La. apply lookup_Some_In in Lb.
      exists (rename_row r2 row). split.
      * apply LK. exists (a, row). auto.
      * apply (LR (a, row) _ v La). exists (b0, v). auto.
  - intro a'. unfold is_key. rewrite <- lookup_key. split.
    + intros (row' & La). apply LK in La. destruct La as ([a row] & Ie & <- & _). exists a. split; [|reflexivity].
      change (In (fst (a, row)) (map fst k)). apply in_map. exact Ie.
    + intros (a & Ia & ->). apply in_map_iff in Ia. destruct Ia as ([a0 row] & E & Ie). cbn [fst] in E. subst a0.
      exists (rename_row r2 row). apply LK. exists (a, row). auto.
Qed.

(** * the conversion as a whole *)
Theorem upconvert_total : forall g k gs, exists g' k', upconvert_kerning g k gs = Ok (g', k').
Proof.
  intros g k gs. unfold upconvert_kerning.
  destruct (upconvert_tables_spec g k gs) as (g2 & r1 & r2 & T & _). rewrite T. eauto.
Qed.

Theorem upconvert_groups_meet_spec : forall g k gs g' k',
  upconvert_kerning g k gs = Ok (g', k') ->
  exists r1 r2, upconvert_tables g k gs = Ok (g', r1, r2) /\ k' = rename_kerning r1 r2 k /\
                UpconvertedGroups g k gs r1 r2 g'.
Proof.
  intros g k gs g' k' H. unfold upconvert_kerning in H.
  destruct (upconvert_tables_spec g k gs) as (g2 & r1 & r2 & T & U). rewrite T in H.
  injection H as <- <-. exists r1, r2. auto.
Qed.

Theorem upconvert_meets_spec : forall g k gs g' k',
  upconvert_kerning g k gs = Ok (g', k') -> ~ PairCollision g k gs -> Upconverted g k gs g' k'.
Proof.
  intros g k gs g' k' H NC. destruct (upconvert_groups_meet_spec g k gs g' k' H) as (r1 & r2 & T & -> & U).
  exists r1, r2. split; [exact U|]. apply pairs_renamed.
  unfold PairCollision in NC. rewrite T in NC. destruct (no_pair_collision r1 r2 k); [reflexivity | exfalso; apply NC; reflexivity].
Qed.

(** the relation depends on the name set only through the groups to duplicate *)
Lemma inclb_spec : forall l1 l2, inclb l1 l2 = true <-> incl l1 l2.
Proof.
  intros. unfold inclb, incl. rewrite forallb_forall. split; intros H c I; [apply memb_In | apply memb_In]; apply H; exact I.
Qed.
Lemma same_candsb_spec : forall g k a b, same_candsb g k a b = true <-> SameCands g k a b.
Proof.
  intros. unfold same_candsb, SameCands. rewrite !andb_true_iff, !inclb_spec. unfold incl.
  split.
  - intros (((A & B) & C) & D). split; intro c; rewrite <- ?cands1_spec, <- ?cands2_spec; split; auto.
  - intros (E1 & E2). repeat split; intros c I.
    + apply cands1_spec, E1, cands1_spec. exact I.
    + apply cands1_spec, E1, cands1_spec. exact I.
    + apply cands2_spec, E2, cands2_spec. exact I.
    + apply cands2_spec, E2, cands2_spec. exact I.
Qed.
Lemma not_ClassF21 : forall g k a b, ~ ClassF21 g k a b -> SameCands g k a b.
Proof.
  intros g k a b H. destruct (same_candsb g k a b) eqn:E; [apply same_candsb_spec; exact E|].
  exfalso. apply H. intro S. apply same_candsb_spec in S. congruence.
Qed.

Lemma Upconverted_glyphs : forall g k gs glyphs g' k',
  Upconverted g k gs g' k' -> ~ ClassF21 g k gs glyphs -> Upconverted g k glyphs g' k'.
Proof.
  intros g k gs glyphs g' k' (r1 & r2 & U & P) NF. exists r1, r2. split; [|exact P].
  apply not_ClassF21 in NF. destruct NF as [E1 E2].
  destruct U as (U1 & U2 & U3). split; [|split].
  - intro c. rewrite U1. apply E1.
  - intro c. rewrite U2. apply E2.
  - exact U3.
Qed.

(** * call sites *)
Lemma load_some_inv : forall v3 g k interned g' k',
  load_gk v3 (Some g) k interned = Ok (g', k') ->
  validate_groups g = Ok tt /\
  ((v3 = true /\ g' = g /\ k' = kern_or_empty k) \/
   (v3 = false /\ upconvert_kerning g (kern_or_empty k) interned = Ok (g', k') /\
    validate_groups g' = Ok tt)).
Proof.
  intros v3 g k interned g' k' H. unfold load_gk in H.
  destruct (validate_groups g) as [[]|e|s] eqn:V; try discriminate. split; [reflexivity|].
  destruct v3.
  - injection H as <- <-. left. auto.
  - right. destruct (upconvert_kerning g (kern_or_empty k) interned) as [[g2 k2]|e|s] eqn:U; try discriminate.
    destruct (validate_groups g2) as [[]|e|s] eqn:V2; try discriminate. injection H as <- <-. auto.
Qed.

Theorem load_only_ok : forall v3 g k interned g' k',
  load_gk v3 g k interned = Ok (g', k') -> groups_ok g' /\ (forall g0, g = Some g0 -> groups_ok g0).
Proof.
  intros v3 [g|] k interned g' k' H.
  - apply load_some_inv in H. destruct H as (V & [(_ & -> & _) | (_ & _ & V2)]).
    + apply validate_iff in V. split; [exact V | intros g0 E; injection E as <-; exact V].
    + apply validate_iff in V. apply validate_iff in V2. split; [exact V2 | intros g0 E; injection E as <-; exact V].
  - cbn in H. injection H as <- <-. split; [|intros g0 E; discriminate].
    apply validate_iff. reflexivity.
Qed.

Theorem load_v3_iff : forall g k interned,
  groups_ok g <-> load_gk true (Some g) k interned = Ok (g, kern_or_empty k).
Proof.
  intros g k interned. rewrite <- validate_iff. unfold load_gk. split.
  - intros ->. reflexivity.
  - destruct (validate_groups g) as [[]|e|s]; [reflexivity | discriminate | discriminate].
Qed.

Theorem load_no_groups : forall v3 k interned, load_gk v3 None k interned = Ok ([], kern_or_empty k).
Proof. reflexivity. Qed.

(** valid legacy groups are refused only when the converted groups are invalid *)
Theorem load_legacy_accepts : forall g k interned,
  groups_ok g ->
  exists g' k', upconvert_kerning g (kern_or_empty k) interned = Ok (g', k') /\
    ((groups_ok g' /\ load_gk false (Some g) k interned = Ok (g', k')) \/
     (~ groups_ok g' /\ exists e, load_gk false (Some g) k interned = Err (LUpconversionFailure e))).
Proof.
  intros g k interned V. apply validate_iff in V.
  destruct (upconvert_total g (kern_or_empty k) interned) as (g' & k' & U). exists g', k'. split; [exact U|].
  unfold load_gk. rewrite V, U. destruct (validate_result g') as [V2|[e V2]]; rewrite V2.
  - left. split; [apply validate_iff; exact V2 | reflexivity].
  - right. split; [intro H; apply validate_iff in H; congruence | exists e; reflexivity].
Qed.

Theorem load_refuses_invalid : forall v3 g k interned,
  ~ groups_ok g -> exists e, load_gk v3 (Some g) k interned = Err (LInvalidGroups e).
Proof.
  intros v3 g k interned H. unfold load_gk. destruct (validate_result g) as [V|[e V]].
  - exfalso. apply H. apply validate_iff. exact V.
  - rewrite V. exists e. reflexivity.
Qed.

Theorem load_no_panic : forall v3 g k interned s, load_gk v3 g k interned <> Panic s.
Proof.
  intros v3 [g|] k interned s; [|discriminate]. unfold load_gk.
  destruct (validate_result g) as [V|[e V]]; rewrite V; [|discriminate].
  destruct v3; [discriminate|].
  destruct (upconvert_total g (kern_or_empty k) interned) as (g' & k' & U). rewrite U.
  destruct (validate_result g') as [V2|[e V2]]; rewrite V2; discriminate.
Qed.

Theorem load_legacy_spec : forall g k interned glyphs g' k',
  load_gk false (Some g) k interned = Ok (g', k') ->
  ~ ClassF21 g (kern_or_empty k) interned glyphs ->
  ~ PairCollision g (kern_or_empty k) interned ->
  Upconverted g (kern_or_empty k) glyphs g' k'.
Proof.
  intros g k interned glyphs g' k' H NF NP. apply load_some_inv in H.
  destruct H as (_ & [(E & _) | (_ & U & _)]); [discriminate|].
  apply (Upconverted_glyphs g (kern_or_empty k) interned glyphs); [|exact NF].
  apply upconvert_meets_spec; assumption.
Qed.

(** * the two refutations *)
Definition nA : name := [65].   (* "A" *)
Definition nG : name := [71].   (* "G" *)
Definition nx : name := [120].
Definition ny : name := [121].
Definition na : name := [97].

(** PairCollision: group A, kerning rows A and public.kern1.A (not a group) *)
Definition pc_groups : groups := [(nA, [nx])].
Definition pc_kerning : kerning := [(nA, [(ny, 1)]); (K1 ++ nA, [(ny, 2)])].

Lemma pc_result : load_gk false (Some pc_groups) (Some pc_kerning) [] =
                  Ok ([(nA, [nx]); (K1 ++ nA, [nx])], [(K1 ++ nA, [(ny, 2)])]).
Proof. vm_compute. reflexivity. Qed.

Lemma pc_in_class : PairCollision pc_groups pc_kerning [].
Proof. vm_compute. reflexivity. Qed.

Lemma pc_not_upconverted :
  ~ Upconverted pc_groups pc_kerning [] [(nA, [nx]); (K1 ++ nA, [nx])] [(K1 ++ nA, [(ny, 2)])].
Proof.
  intros (r1 & r2 & _ & (P & _)).
  assert (pair_in pc_kerning nA ny 1) as PI.
  { exists [(ny, 1)]. split; vm_compute; reflexivity. }
  destruct (proj2 (P (ren r1 nA) (ren r2 ny) 1)) as (row & La & Lb).
  { exists nA, ny. auto. }
  cbn [lookup] in La. destruct (str_eqb (ren r1 nA) (K1 ++ nA)); [|discriminate].
  injection La as <-. cbn [lookup] in Lb. destruct (str_eqb (ren r2 ny) ny); discriminate.
Qed.

(** F21: group G used on the first side; no glyph is called G but the interner holds G *)
Definition f21_groups : groups := [(nG, [nx])].
Definition f21_kerning : kerning := [(nG, [(ny, 5)])].

Lemma f21_result : load_gk false (Some f21_groups) (Some f21_kerning) [nG; na] = Ok (f21_groups, f21_kerning).
Proof. vm_compute. reflexivity. Qed.

Lemma f21_in_class : ClassF21 f21_groups f21_kerning [nG; na] [na].
Proof.
  intros [E1 _]. assert (Cand1 f21_groups f21_kerning [na] nG) as C.
  { split; [left; reflexivity|]. right. split; [left; reflexivity|]. split.
    - intros [E|[]]. discriminate.
    - intro S. apply side1_spec in S. vm_compute in S. discriminate. }
  apply E1 in C. destruct C as [_ [[t E]|(_ & Hn & _)]]; [discriminate|]. apply Hn. left. reflexivity.
Qed.

Lemma f21_not_upconverted : ~ Upconverted f21_groups f21_kerning [na] f21_groups f21_kerning.
Proof.
  intros (r1 & r2 & (U1 & _ & _ & _ & _ & F1 & _ & L) & _).
  assert (In nG (keys r1)) as I.
  { apply U1. split; [left; reflexivity|]. right. split; [left; reflexivity|]. split.
    - intros [E|[]]. discriminate.
    - intro S. apply side1_spec in S. vm_compute in S. discriminate. }
  apply in_map_iff in I. destruct I as ([c n] & E & I). cbn [fst] in E. subst c.
  destruct (F1 nG n I) as (_ & Hn). apply Hn. unfold is_key. apply lookup_key. exists [nx].
  apply L. right. exists nG. split; [apply in_or_app; left; exact I | reflexivity].
Qed.

(** * even inside the class PairCollision nothing is invented: every pair of the result is a
    renamed pair of the input with the same value (pairs can only be lost) *)
Lemma lookup_fold_sound : forall (E V : Type) (kf : E -> name) (vf : E -> V) l acc x v,
  lookup x (fold_left (fun a e => minsert (kf e) (vf e) a) l acc) = Some v ->
  (exists e, In e l /\ kf e = x /\ vf e = v) \/ lookup x acc = Some v.
Proof.
  induction l as [|y l IH]; intros acc x v H; cbn [fold_left] in H; [right; exact H|].
  apply IH in H. destruct H as [(e & Ie & Ek & Ev) | H].
  - left. exists e. split; [right; exact Ie | auto].
  - destruct (str_eq_dec x (kf y)) as [->|Ne].
    + rewrite lookup_minsert_eq in H. injection H as <-. left. exists y. split; [left; reflexivity | auto].
    + rewrite lookup_minsert_ne in H by exact Ne. right. exact H.
Qed.

Theorem pairs_sound : forall r1 r2 k a' b' v,
  pair_in (rename_kerning r1 r2 k) a' b' v ->
  exists a b row, In (a, row) k /\ In (b, v) row /\ a' = ren r1 a /\ b' = ren r2 b.
Proof.
  intros r1 r2 k a' b' v (row' & La & Lb). unfold rename_kerning in La.
  apply (lookup_fold_sound _ _ (fun e => ren r1 (fst e)) (fun e => rename_row r2 (snd e))) in La.
  destruct La as [([a row] & Ie & <- & <-) | La]; [|discriminate]. cbn [fst snd] in *.
  unfold rename_row in Lb.
  apply (lookup_fold_sound _ _ (fun p => ren r2 (fst p)) (fun p => snd p)) in Lb.
  destruct Lb as [([b0 v0] & Ip & <- & <-) | Lb]; [|discriminate]. cbn [fst snd] in *.
  exists a, b0, row. auto.
Qed.
