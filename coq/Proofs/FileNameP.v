(** C07 — proofs about the file-name model (Model/FileName.v).  stdlib style. *)
From Coq Require Import Ascii String.
Require Import Norad.Model.Base Norad.Model.FileName.
From Coq Require Import ZifyBool ZifyN.
Open Scope N_scope.

Arguments two_digits : simpl never.
Arguments N.add : simpl never.
Arguments N.sub : simpl never.
Arguments N.div : simpl never.
Arguments N.modulo : simpl never.
Arguments N.leb : simpl never.
Arguments N.ltb : simpl never.
Arguments N.eqb : simpl never.

(** ** bytes *)
Lemma utf8_len_bounds c : 1 <= utf8_len c <= 4.
Proof. unfold utf8_len. destruct (c <? 128), (c <? 2048), (c <? 65536); lia. Qed.
Lemma blen_app a b : blen (a ++ b) = blen a + blen b.
Proof. induction a as [|c a IH]; cbn [app blen]; lia. Qed.
Lemma blen_nil_inv s : blen s = 0 -> s = [].
Proof. destruct s as [|c r]; [reflexivity|]. cbn [blen]. pose proof (utf8_len_bounds c). lia. Qed.
Lemma ds_len c : is_ds c = true -> utf8_len c = 1.
Proof. unfold is_ds, DOT, SPACE, utf8_len. intros H. destruct (c <? 128) eqn:E; lia. Qed.
Lemma uscore_len : utf8_len USCORE = 1.
Proof. reflexivity. Qed.

Lemma str_eqb_eq a : forall b, str_eqb a b = true <-> a = b.
Proof.
  unfold str_eqb. induction a as [|x a IH]; intros [|y b]; cbn [list_eqb]; split; intros H;
    try reflexivity; try discriminate.
  - apply andb_true_iff in H. destruct H as [H1 H2]. apply N.eqb_eq in H1. apply IH in H2.
    congruence.
  - inversion H; subst. apply andb_true_iff. split; [apply N.eqb_refl|apply IH; reflexivity].
Qed.
Lemma memb_In c l : memb c l = true <-> In c l.
Proof.
  unfold memb. rewrite existsb_exists. split.
  - intros [x [Hx He]]. apply N.eqb_eq in He. congruence.
  - intros H. exists c. split; [assumption|apply N.eqb_refl].
Qed.
Lemma memb_false c l : memb c l = false <-> ~ In c l.
Proof. rewrite <- memb_In. destruct (memb c l); split; intros; congruence. Qed.

(** ** clip *)
Lemma clip_len s : forall limit, blen (clip limit s) <= limit.
Proof.
  induction s as [|c r IH]; intros limit; cbn [clip blen]; [lia|].
  destruct (utf8_len c <=? limit) eqn:E; cbn [blen]; [|lia].
  specialize (IH (limit - utf8_len c)). lia.
Qed.
Lemma clip_prefix s : forall limit, exists t, s = clip limit s ++ t.
Proof.
  induction s as [|c r IH]; intros limit; cbn [clip]; [exists []; reflexivity|].
  destruct (utf8_len c <=? limit).
  - destruct (IH (limit - utf8_len c)) as [t Ht]. exists t. cbn [app]. congruence.
  - exists (c :: r). reflexivity.
Qed.
Lemma clip_id s : forall limit, blen s <= limit -> clip limit s = s.
Proof.
  induction s as [|c r IH]; intros limit H; cbn [clip]; [reflexivity|]. cbn [blen] in H.
  replace (utf8_len c <=? limit) with true by lia. f_equal. apply IH. lia.
Qed.
(** a proper clip stops less than one char (4 bytes) short of the limit *)
Lemma clip_maximal s : forall limit, clip limit s <> s -> limit < blen (clip limit s) + 4.
Proof.
  induction s as [|c r IH]; intros limit H; cbn [clip] in *; [congruence|].
  pose proof (utf8_len_bounds c) as Hc.
  destruct (utf8_len c <=? limit) eqn:E; cbn [blen]; [|lia].
  assert (Hr : clip (limit - utf8_len c) r <> r) by congruence.
  specialize (IH _ Hr). lia.
Qed.
Lemma clip_app p e : forall limit, blen p <= limit ->
  clip limit (p ++ e) = p ++ clip (limit - blen p) e.
Proof.
  induction p as [|c p IH]; intros limit H; cbn [app blen clip] in *.
  - f_equal. lia.
  - replace (utf8_len c <=? limit) with true by lia. f_equal.
    rewrite IH by lia. do 2 f_equal. lia.
Qed.
Lemma clip_cons_fits c r limit : utf8_len c <= limit ->
  clip limit (c :: r) = c :: clip (limit - utf8_len c) r.
Proof. intros H. cbn [clip]. replace (utf8_len c <=? limit) with true by lia. reflexivity. Qed.

(** ** fix_trail *)
Lemma map_uscore_len s : forallb is_ds s = true -> blen (map (fun _ => USCORE) s) = blen s.
Proof.
  induction s as [|c r IH]; cbn [forallb map blen]; [reflexivity|]. intros H.
  apply andb_true_iff in H. destruct H as [H1 H2]. rewrite (ds_len _ H1), (IH H2). reflexivity.
Qed.
Lemma fix_trail_len plen s : forall off, blen (fix_trail plen off s) = blen s.
Proof.
  induction s as [|c r IH]; intros off; [reflexivity|]. cbn [fix_trail].
  destruct ((plen <=? off) && forallb is_ds (c :: r)) eqn:E.
  - apply andb_true_iff in E. apply map_uscore_len. apply E.
  - cbn [blen]. rewrite IH. reflexivity.
Qed.
Lemma fix_trail_length plen s : forall off, length (fix_trail plen off s) = length s.
Proof.
  induction s as [|c r IH]; intros off; [reflexivity|]. cbn [fix_trail].
  destruct ((plen <=? off) && forallb is_ds (c :: r)).
  - apply map_length.
  - cbn [length]. rewrite IH. reflexivity.
Qed.
(** nothing before byte offset [plen] is touched *)
Lemma fix_trail_app plen p e : forall off, off + blen p <= plen ->
  fix_trail plen off (p ++ e) = p ++ fix_trail plen (off + blen p) e.
Proof.
  induction p as [|c p IH]; intros off H; cbn [app blen] in *.
  - f_equal. lia.
  - cbn [fix_trail]. pose proof (utf8_len_bounds c).
    replace (plen <=? off) with false by lia. cbn [andb]. f_equal.
    rewrite IH by lia. do 2 f_equal. lia.
Qed.
(** every char of the output is a char of the input or an underscore *)
Lemma fix_trail_chars (P : N -> Prop) plen s : P USCORE -> forall off,
  Forall P s -> Forall P (fix_trail plen off s).
Proof.
  intros HU. induction s as [|c r IH]; intros off H; [constructor|]. cbn [fix_trail].
  destruct ((plen <=? off) && forallb is_ds (c :: r)).
  - apply Forall_forall. intros x Hx. apply in_map_iff in Hx. destruct Hx as [_ [<- _]]. exact HU.
  - inversion H; subst. constructor; [assumption|apply IH; assumption].
Qed.
(** the head survives or becomes an underscore *)
Lemma fix_trail_head plen off c r : exists c' r',
  fix_trail plen off (c :: r) = c' :: r' /\ (c' = c \/ c' = USCORE).
Proof.
  cbn [fix_trail]. destruct ((plen <=? off) && forallb is_ds (c :: r)).
  - cbn [map]. eauto.
  - eauto.
Qed.
(** outside the prefix the result never ends in a period or a space *)
Lemma fix_trail_last plen e : forall off, plen <= off -> e <> [] ->
  exists m c, fix_trail plen off e = m ++ [c] /\ is_ds c = false.
Proof.
  induction e as [|c r IH]; intros off Hoff Hne; [congruence|]. cbn [fix_trail].
  replace (plen <=? off) with true by lia. cbn [andb].
  destruct (forallb is_ds (c :: r)) eqn:E.
  - destruct (exists_last (l := map (fun _ => USCORE) (c :: r))) as [m [x Hx]];
      [cbn [map]; congruence|].
    exists m, x. split; [assumption|].
    assert (Hin : In x (map (fun _ : N => USCORE) (c :: r))) by (rewrite Hx; apply in_or_app; right; left; reflexivity).
    apply in_map_iff in Hin. destruct Hin as [_ [<- _]]. reflexivity.
  - destruct r as [|c2 r2].
    + exists [], c. split; [reflexivity|]. cbn [forallb] in E. rewrite andb_true_r in E. exact E.
    + pose proof (utf8_len_bounds c).
      destruct (IH (off + utf8_len c)) as [m [x [Hm Hx]]]; [lia|congruence|].
      exists (c :: m), x. split; [|assumption]. cbn [app]. rewrite <- Hm. reflexivity.
Qed.

(** ** stem *)
Lemma stem_app a b : stem (a ++ b) = if has_dot a then stem a else a ++ stem b.
Proof.
  unfold has_dot, memb. induction a as [|c a IH]; cbn [app stem existsb]; [reflexivity|].
  rewrite (N.eqb_sym DOT c). destruct (c =? DOT); cbn [orb]; [reflexivity|].
  rewrite IH. destruct (existsb (N.eqb DOT) a); reflexivity.
Qed.
Lemma stem_nodot a : has_dot a = false -> stem a = a.
Proof. intros H. rewrite <- (app_nil_r a) at 1. rewrite stem_app, H. cbn [stem]. apply app_nil_r. Qed.
Lemma stem_app_suffix a suffix : (suffix = [] \/ exists t, suffix = DOT :: t) ->
  stem (a ++ suffix) = stem a.
Proof.
  intros H. rewrite stem_app. destruct (has_dot a) eqn:E; [reflexivity|].
  rewrite (stem_nodot a E). destruct H as [->|[t ->]]; cbn [stem]; [|rewrite N.eqb_refl];
    apply app_nil_r.
Qed.
Lemma stem_fix_trail plen s : forall off,
  stem (fix_trail plen off s) = stem s \/ In USCORE (stem (fix_trail plen off s)).
Proof.
  induction s as [|c r IH]; intros off; [left; reflexivity|]. cbn [fix_trail].
  destruct ((plen <=? off) && forallb is_ds (c :: r)).
  - right. cbn [map stem]. replace (USCORE =? DOT) with false by reflexivity. left. reflexivity.
  - cbn [stem]. destruct (c =? DOT); [left; reflexivity|].
    destruct (IH (off + utf8_len c)) as [H|H]; [left; congruence|right; right; assumption].
Qed.

(** ** reserved words: the three facts the argument needs, for any "reserved" test [R] *)
Definition digitb (c : N) : bool := (48 <=? c) && (c <=? 57).
Record reserved_like (R : str -> bool) : Prop := {
  rl_short : forall s, R s = true -> blen s <= 4;
  rl_nous : forall s, R s = true -> ~ In USCORE s;
  rl_digits : forall s d1 d2, digitb d1 = true -> digitb d2 = true -> R (s ++ [d1; d2]) = false;
}.

Fixpoint ends_two_digits (s : str) : bool :=
  match s with
  | [] => false
  | [_] => false
  | [d1; d2] => digitb d1 && digitb d2
  | _ :: r => ends_two_digits r
  end.
Lemma ends_two_digits_app s d1 d2 : digitb d1 = true -> digitb d2 = true ->
  ends_two_digits (s ++ [d1; d2]) = true.
Proof.
  intros H1 H2. induction s as [|c r IH]; cbn [app ends_two_digits]; [rewrite H1, H2; reflexivity|].
  destruct (r ++ [d1; d2]) as [|x [|y [|z t]]] eqn:E; try exact IH.
  all: try (destruct r; discriminate).
  all: try (destruct r as [|? [|]]; discriminate).
Qed.

Lemma is_reserved_In s : is_reserved s = true -> In s SPECIAL_RESERVED.
Proof.
  unfold is_reserved. rewrite existsb_exists. intros [w [Hw He]]. apply str_eqb_eq in He. congruence.
Qed.
Lemma reserved_table :
  forallb (fun w => (blen w <=? 4) && negb (memb USCORE w) && negb (ends_two_digits w)
                    && forallb (fun c => c <? 128) w && negb (memb DOT w))
          SPECIAL_RESERVED = true.
Proof. vm_compute. reflexivity. Qed.
Lemma reserved_facts w : In w SPECIAL_RESERVED ->
  blen w <= 4 /\ ~ In USCORE w /\ ends_two_digits w = false /\ ~ In DOT w.
Proof.
  intros H. pose proof reserved_table as T. rewrite forallb_forall in T. specialize (T w H).
  apply andb_true_iff in T. destruct T as [T T5].
  apply andb_true_iff in T. destruct T as [T T4].
  apply andb_true_iff in T. destruct T as [T T3].
  apply andb_true_iff in T. destruct T as [T1 T2].
  split; [lia|]. split; [|split].
  - apply memb_false. destruct (memb USCORE w); [discriminate|reflexivity].
  - destruct (ends_two_digits w); [discriminate|reflexivity].
  - apply memb_false. destruct (memb DOT w); [discriminate|reflexivity].
Qed.

Lemma reserved_like_cs : reserved_like is_reserved.
Proof.
  split.
  - intros s H. apply is_reserved_In, reserved_facts in H. tauto.
  - intros s H. apply is_reserved_In, reserved_facts in H. tauto.
  - intros s d1 d2 H1 H2. destruct (is_reserved (s ++ [d1; d2])) eqn:E; [|reflexivity].
    apply is_reserved_In, reserved_facts in E. rewrite ends_two_digits_app in E by assumption.
    destruct E as (_ & _ & E & _). discriminate.
Qed.

Lemma ascii_low_len c : utf8_len (ascii_low c) = utf8_len c.
Proof. unfold ascii_low, ascii_upb, utf8_len. destruct ((65 <=? c) && (c <=? 90)) eqn:E; [|reflexivity].
  replace (c + 32 <? 128) with true by lia. replace (c <? 128) with true by lia. reflexivity. Qed.
Lemma blen_map_low s : blen (map ascii_low s) = blen s.
Proof. induction s as [|c r IH]; cbn [map blen]; [reflexivity|]. rewrite ascii_low_len, IH. reflexivity. Qed.
Lemma ascii_low_fix c : ascii_upb c = false -> ascii_low c = c.
Proof. unfold ascii_low. intros ->. reflexivity. Qed.
Lemma reserved_like_ci : reserved_like is_reserved_ci.
Proof.
  unfold is_reserved_ci. split.
  - intros s H. apply is_reserved_In, reserved_facts in H. rewrite blen_map_low in H. tauto.
  - intros s H Hin. apply is_reserved_In, reserved_facts in H. destruct H as (_ & H & _).
    apply H. apply in_map_iff. exists USCORE. split; [reflexivity|assumption].
  - intros s d1 d2 H1 H2. rewrite map_app. cbn [map].
    assert (L : forall d, digitb d = true -> ascii_low d = d).
    { intros d Hd. apply ascii_low_fix. unfold digitb, ascii_upb in *. lia. }
    rewrite (L d1 H1), (L d2 H2). apply (rl_digits _ reserved_like_cs); assumption.
Qed.

Lemma two_digits_len n : n < 100 -> blen (two_digits n) = 2.
Proof.
  intros H. unfold two_digits. cbn [blen]. unfold utf8_len.
  assert (n / 10 < 10) by (apply N.div_lt_upper_bound; lia).
  assert (n mod 10 < 10) by (apply N.mod_lt; lia).
  replace (48 + n / 10 <? 128) with true by lia. replace (48 + n mod 10 <? 128) with true by lia. lia.
Qed.
Lemma two_digits_digits n : n < 100 ->
  exists d1 d2, two_digits n = [d1; d2] /\ digitb d1 = true /\ digitb d2 = true.
Proof.
  intros H. exists (48 + n / 10), (48 + n mod 10). split; [reflexivity|]. unfold digitb.
  assert (n / 10 < 10) by (apply N.div_lt_upper_bound; lia).
  assert (n mod 10 < 10) by (apply N.mod_lt; lia). lia.
Qed.
Lemma digit_facts d : digitb d = true ->
  d <> DOT /\ is_ds d = false /\ illegalb d = false /\ controlb d = false /\ utf8_len d = 1.
Proof.
  unfold digitb. intros H.
  assert (Hd : In d [48;49;50;51;52;53;54;55;56;57]).
  { assert (E : d = 48 \/ d = 49 \/ d = 50 \/ d = 51 \/ d = 52 \/ d = 53 \/ d = 54 \/ d = 55 \/ d = 56 \/ d = 57) by lia.
    cbn [In]. intuition. }
  cbn [In] in Hd. repeat (destruct Hd as [<-|Hd]; [repeat split; try reflexivity; discriminate|]).
  contradiction.
Qed.

Section U2F.
  Variable is_upper : N -> bool.
  Variable lower : str -> str.
  Notation esc1 := (esc1 is_upper).
  Notation escape := (escape is_upper).
  Notation escaped := (escaped is_upper).
  Notation reserved_fix := (reserved_fix is_upper).
  Notation base := (base is_upper).
  Notation counter_stem := (counter_stem is_upper).
  Notation try_counter := (try_counter lower).
  Notation u2f := (u2f is_upper lower).
  Notation ClippedClash := (ClippedClash is_upper lower).

  (** ** shape of the result *)
  Lemma try_counter_S f n st suffix accept :
    try_counter (S f) n st suffix accept =
    if accept (lower (st ++ two_digits n ++ suffix)) then Some (st ++ two_digits n ++ suffix)
    else try_counter f (n + 1) st suffix accept.
  Proof. reflexivity. Qed.

  Lemma try_counter_shape fuel : forall n st suffix accept r,
    try_counter fuel n st suffix accept = Some r ->
    exists k, n <= k < n + N.of_nat fuel /\ r = st ++ two_digits k ++ suffix /\
              accept (lower r) = true.
  Proof.
    induction fuel as [|f IH]; intros n st suffix accept r; [discriminate|]. rewrite try_counter_S.
    destruct (accept (lower (st ++ two_digits n ++ suffix))) eqn:E.
    - intros [= <-]. exists n. split; [lia|]. split; [reflexivity|exact E].
    - intros H. apply IH in H. destruct H as [k [Hk Hr]]. exists k. split; [lia|exact Hr].
  Qed.
  Lemma try_counter_none fuel : forall n st suffix accept,
    try_counter fuel n st suffix accept = None <->
    forall k, n <= k < n + N.of_nat fuel -> accept (lower (st ++ two_digits k ++ suffix)) = false.
  Proof.
    induction fuel as [|f IH]; intros n st suffix accept.
    - cbn [try_counter]. split; [intros _ k Hk; lia|reflexivity].
    - rewrite try_counter_S. destruct (accept (lower (st ++ two_digits n ++ suffix))) eqn:E.
      + split; [discriminate|]. intros H. rewrite H in E by lia. discriminate.
      + rewrite IH. split; intros H k Hk.
        * destruct (N.eq_dec k n) as [->|Hne]; [exact E|apply H; lia].
        * apply H. lia.
  Qed.

  (** the result is the first candidate, or stem + two digits + suffix with counter 1..99 *)
  Lemma u2f_shape name prefix suffix accept r :
    u2f name prefix suffix accept = Some r ->
    (r = base name prefix suffix ++ suffix /\ accept (lower r) = true) \/
    (accept (lower (base name prefix suffix ++ suffix)) = false /\
     exists k, 1 <= k < 100 /\ r = counter_stem name prefix suffix ++ two_digits k ++ suffix /\
               accept (lower r) = true).
  Proof.
    unfold FileName.u2f. destruct (accept (lower (base name prefix suffix ++ suffix))) eqn:E.
    - intros [= <-]. left. split; [reflexivity|exact E].
    - intros H. apply try_counter_shape in H. destruct H as [k [Hk Hr]]. right.
      split; [reflexivity|]. exists k. split; [|exact Hr].
      unfold COUNTER_FIRST, COUNTER_END in Hk. cbn in Hk. lia.
  Qed.

  Theorem u2f_accepted name prefix suffix accept r :
    u2f name prefix suffix accept = Some r -> accept (lower r) = true.
  Proof. intros H. apply u2f_shape in H. destruct H as [[_ H]|[_ [k [_ [_ H]]]]]; exact H. Qed.

  (** [None] (the documented panic) exactly when the first candidate and all 99 numbered
      candidates were rejected by the caller *)
  Theorem u2f_none_iff name prefix suffix accept :
    u2f name prefix suffix accept = None <->
    accept (lower (base name prefix suffix ++ suffix)) = false /\
    forall k, 1 <= k < 100 ->
      accept (lower (counter_stem name prefix suffix ++ two_digits k ++ suffix)) = false.
  Proof.
    unfold FileName.u2f. destruct (accept (lower (base name prefix suffix ++ suffix))) eqn:E.
    - split; [discriminate|intros [H _]; discriminate].
    - rewrite try_counter_none. unfold COUNTER_FIRST, COUNTER_END.
      replace (N.of_nat (N.to_nat (100 - 1))) with 99 by reflexivity.
      split; [intros H; split; [reflexivity|]; intros k Hk; apply H; lia
             |intros [_ H] k Hk; apply H; lia].
  Qed.

  (** ** pieces of [base] *)
  Lemma reserved_fix_cases name prefix :
    (is_reserved (stem (escaped name prefix)) = true /\
     reserved_fix name prefix = (USCORE :: escaped name prefix, blen prefix + 1)) \/
    (is_reserved (stem (escaped name prefix)) = false /\
     reserved_fix name prefix = (escaped name prefix, blen prefix)).
  Proof. unfold FileName.reserved_fix. destruct (is_reserved _); [left|right]; split; reflexivity. Qed.

  (** [base] in terms of its stages *)
  Definition clipped (name prefix suffix : str) : str :=
    let r1 := fst (reserved_fix name prefix) in
    if MAX_LEN <? blen r1 + blen suffix then clip (MAX_LEN - blen suffix) r1 else r1.
  Lemma base_unfold name prefix suffix :
    base name prefix suffix =
    if isnil suffix then fix_trail (snd (reserved_fix name prefix)) 0 (clipped name prefix suffix)
    else clipped name prefix suffix.
  Proof. unfold FileName.base, clipped. destruct (reserved_fix name prefix) as [r1 plen]. reflexivity. Qed.
  Lemma clipped_is_clip name prefix suffix :
    clipped name prefix suffix = clip (MAX_LEN - blen suffix) (fst (reserved_fix name prefix)).
  Proof.
    unfold clipped, MAX_LEN. destruct (255 <? _ + _) eqn:E; [reflexivity|].
    symmetry. apply clip_id. lia.
  Qed.
  Lemma clipped_len name prefix suffix : blen (clipped name prefix suffix) <= MAX_LEN - blen suffix.
  Proof. rewrite clipped_is_clip. apply clip_len. Qed.
  Lemma base_len name prefix suffix : blen (base name prefix suffix) <= MAX_LEN - blen suffix.
  Proof.
    rewrite base_unfold. destruct (isnil suffix); rewrite ?fix_trail_len; apply clipped_len.
  Qed.

  (** ** length *)
  Theorem u2f_len_255 name prefix suffix accept r :
    blen suffix <= MAX_LEN -> ~ ClippedClash name prefix suffix accept ->
    u2f name prefix suffix accept = Some r -> blen r <= MAX_LEN.
  Proof.
    intros Hs Hk H. apply u2f_shape in H. pose proof (base_len name prefix suffix) as Hb.
    unfold MAX_LEN in *. destruct H as [[-> _]|[Hrej [k [Hk' [-> _]]]]].
    - rewrite blen_app. lia.
    - rewrite !blen_app, two_digits_len by lia. unfold FileName.counter_stem, MAX_LEN, NUMBER_LEN.
      rewrite blen_app.
      destruct (255 <? blen (base name prefix suffix) + blen suffix - blen suffix + 2) eqn:E.
      + pose proof (clip_len (base name prefix suffix ++ suffix) (255 - blen suffix - 2)). lia.
      + destruct (N.le_gt_cases (blen (base name prefix suffix) + 2 + blen suffix) 255) as [Hle|Hgt];
          [lia|].
        exfalso. apply Hk. unfold FileName.ClippedClash, MAX_LEN, NUMBER_LEN. repeat split; [assumption|lia|lia].
  Qed.

  (** the class is exact: inside it the result is always longer than 255 bytes *)
  Theorem u2f_len_over name prefix suffix accept r :
    ClippedClash name prefix suffix accept ->
    u2f name prefix suffix accept = Some r -> MAX_LEN < blen r.
  Proof.
    intros (Hrej & Hfit & Hover) H. apply u2f_shape in H.
    destruct H as [[-> Hacc]|[_ [k [Hk' [-> _]]]]].
    - congruence.
    - rewrite !blen_app, two_digits_len by lia. unfold FileName.counter_stem.
      rewrite blen_app. unfold MAX_LEN, NUMBER_LEN in *.
      replace (255 <? blen (base name prefix suffix) + blen suffix - blen suffix + 2) with false by lia.
      lia.
  Qed.

  (** ** characters *)
  Lemma esc1_chars (P : N -> Prop) b c : P USCORE -> (illegalb c = false -> P c) -> Forall P (esc1 b c).
  Proof.
    intros HU Hc. unfold FileName.esc1. destruct (b && (c =? DOT)); [repeat constructor; exact HU|].
    destruct (illegalb c); [repeat constructor; exact HU|].
    destruct (is_upper c); repeat constructor; auto.
  Qed.
  Lemma escape_chars (P : N -> Prop) name : P USCORE -> forall b,
    Forall (fun c => illegalb c = false -> P c) name -> Forall P (escape b name).
  Proof.
    intros HU. induction name as [|c r IH]; intros b H; cbn [FileName.escape]; [constructor|].
    inversion H; subst. apply Forall_app. split; [apply esc1_chars; assumption|apply IH; assumption].
  Qed.
  Lemma Forall_prefix (P : N -> Prop) (p s t : str) : s = p ++ t -> Forall P s -> Forall P p.
  Proof. intros -> H. apply Forall_app in H. tauto. Qed.

  Lemma base_chars (P : N -> Prop) name prefix suffix :
    P USCORE -> Forall P prefix -> Forall (fun c => illegalb c = false -> P c) name ->
    Forall P (base name prefix suffix).
  Proof.
    intros HU Hp Hn.
    assert (H0 : Forall P (escaped name prefix))
      by (apply Forall_app; split; [assumption|apply escape_chars; assumption]).
    assert (H1 : Forall P (fst (reserved_fix name prefix))).
    { destruct (reserved_fix_cases name prefix) as [[_ ->]|[_ ->]]; cbn [fst]; [constructor|]; assumption. }
    assert (H2 : Forall P (clipped name prefix suffix)).
    { rewrite clipped_is_clip. destruct (clip_prefix (fst (reserved_fix name prefix)) (MAX_LEN - blen suffix)) as [t Ht].
      eapply Forall_prefix; [exact Ht|exact H1]. }
    rewrite base_unfold. destruct (isnil suffix); [apply fix_trail_chars|]; assumption.
  Qed.

  Theorem u2f_chars (P : N -> Prop) name prefix suffix accept r :
    P USCORE -> (forall d, digitb d = true -> P d) ->
    Forall P prefix -> Forall P suffix -> Forall (fun c => illegalb c = false -> P c) name ->
    u2f name prefix suffix accept = Some r -> Forall P r.
  Proof.
    intros HU HD Hp Hs Hn H. pose proof (base_chars P name prefix suffix HU Hp Hn) as Hb.
    apply u2f_shape in H. destruct H as [[-> _]|[_ [k [Hk [-> _]]]]].
    - apply Forall_app. split; assumption.
    - apply Forall_app. split; [|apply Forall_app; split; [|assumption]].
      + unfold FileName.counter_stem. destruct (MAX_LEN <? _); [|assumption].
        destruct (clip_prefix (base name prefix suffix ++ suffix) (MAX_LEN - blen suffix - NUMBER_LEN)) as [t Ht].
        eapply Forall_prefix; [exact Ht|]. apply Forall_app. split; assumption.
      + destruct (two_digits_digits k) as [d1 [d2 [-> [H1 H2]]]]; [lia|]. repeat constructor; auto.
  Qed.

  Theorem u2f_no_illegal_char name prefix suffix accept r :
    Forall (fun c => illegalb c = false) prefix -> Forall (fun c => illegalb c = false) suffix ->
    u2f name prefix suffix accept = Some r -> Forall (fun c => illegalb c = false) r.
  Proof.
    intros Hp Hs. apply u2f_chars; try assumption; [reflexivity| |].
    - intros d Hd. apply digit_facts in Hd. tauto.
    - apply Forall_forall. intros c _ Hc. exact Hc.
  Qed.

  (** with a valid name (no control characters) there are no control characters either *)
  Theorem u2f_no_control_char name prefix suffix accept r :
    Forall (fun c => controlb c = false) name ->
    Forall (fun c => controlb c = false) prefix -> Forall (fun c => controlb c = false) suffix ->
    u2f name prefix suffix accept = Some r -> Forall (fun c => controlb c = false) r.
  Proof.
    intros Hn Hp Hs. apply u2f_chars; try assumption; [reflexivity| |].
    - intros d Hd. apply digit_facts in Hd. tauto.
    - eapply Forall_impl; [|exact Hn]. cbn. auto.
  Qed.

  (** ** the first characters: prefix kept, no leading period *)
  Lemma escape_nonempty b c name : exists h t, escape b (c :: name) = h :: t /\ (b = true -> h <> DOT).
  Proof.
    cbn [FileName.escape]. unfold FileName.esc1.
    destruct (b && (c =? DOT)) eqn:E1; [exists USCORE; eexists; split; [reflexivity|discriminate]|].
    destruct (illegalb c); [exists USCORE; eexists; split; [reflexivity|discriminate]|].
    assert (Hc : b = true -> c <> DOT).
    { intros -> ->. cbn in E1. discriminate. }
    destruct (is_upper c); exists c; eexists; (split; [reflexivity|exact Hc]).
  Qed.

  (** [base] = protected part ++ rest, rest non-empty for a non-empty name, when the affixes
      leave room for at least one character *)
  Lemma base_split name prefix suffix :
    name <> [] -> blen prefix + 1 + 4 + blen suffix <= MAX_LEN ->
    exists p e, fst (reserved_fix name prefix) = p ++ escape (isnil prefix) name /\
                blen p = snd (reserved_fix name prefix) /\
                (p = prefix \/ p = USCORE :: prefix) /\ e <> [] /\
                clipped name prefix suffix = p ++ e /\
                (exists t, escape (isnil prefix) name = e ++ t).
  Proof.
    intros Hn Hl. destruct name as [|c name]; [congruence|].
    destruct (escape_nonempty (isnil prefix) c name) as [h [t [He _]]].
    assert (Hp : exists p, fst (reserved_fix (c :: name) prefix) = p ++ escape (isnil prefix) (c :: name) /\
                           blen p = snd (reserved_fix (c :: name) prefix) /\
                           (p = prefix \/ p = USCORE :: prefix)).
    { destruct (reserved_fix_cases (c :: name) prefix) as [[_ ->]|[_ ->]]; cbn [fst snd].
      - exists (USCORE :: prefix). split; [reflexivity|]. split; [cbn [blen]; rewrite uscore_len; lia|auto].
      - exists prefix. auto. }
    destruct Hp as [p [Hp1 [Hp2 Hp3]]].
    assert (Hpl : blen p <= blen prefix + 1).
    { destruct Hp3 as [->| ->]; cbn [blen]; rewrite ?uscore_len; lia. }
    exists p, (clip (MAX_LEN - blen suffix - blen p) (escape (isnil prefix) (c :: name))).
    split; [exact Hp1|]. split; [exact Hp2|]. split; [exact Hp3|]. unfold MAX_LEN in *.
    split; [|split].
    - rewrite He. pose proof (utf8_len_bounds h). rewrite clip_cons_fits by lia. discriminate.
    - rewrite clipped_is_clip, Hp1. apply clip_app. unfold MAX_LEN. lia.
    - apply clip_prefix.
  Qed.

  Theorem u2f_no_leading_period name suffix accept r :
    name <> [] -> blen suffix <= 247 ->
    u2f name [] suffix accept = Some r -> exists c t, r = c :: t /\ c <> DOT.
  Proof.
    intros Hn Hl H. destruct name as [|c name]; [congruence|].
    destruct (escape_nonempty true c name) as [h [t [He Hh]]]. specialize (Hh eq_refl).
    (* head of the first stage *)
    assert (H1 : exists h1 t1, fst (reserved_fix (c :: name) []) = h1 :: t1 /\ h1 <> DOT).
    { destruct (reserved_fix_cases (c :: name) []) as [[_ ->]|[_ ->]]; cbn [fst].
      - exists USCORE; eexists. split; [reflexivity|discriminate].
      - unfold FileName.escaped. cbn [app isnil]. rewrite He. eauto. }
    destruct H1 as [h1 [t1 [E1 Hh1]]]. pose proof (utf8_len_bounds h1) as Hb1.
    assert (H2 : exists t2, clipped (c :: name) [] suffix = h1 :: t2).
    { rewrite clipped_is_clip, E1. unfold MAX_LEN. rewrite clip_cons_fits by lia. eauto. }
    destruct H2 as [t2 E2].
    assert (H3 : exists h3 t3, base (c :: name) [] suffix = h3 :: t3 /\ h3 <> DOT /\ utf8_len h3 <= 4).
    { rewrite base_unfold, E2. destruct (isnil suffix); [|exists h1, t2; repeat split; [assumption|lia]].
      destruct (fix_trail_head (snd (reserved_fix (c :: name) [])) 0 h1 t2) as [c' [r' [-> [->| ->]]]].
      - exists h1, r'. repeat split; [assumption|lia].
      - exists USCORE, r'. repeat split; [discriminate|rewrite uscore_len; lia]. }
    destruct H3 as [h3 [t3 [E3 [Hh3 Hb3]]]].
    apply u2f_shape in H. destruct H as [[-> _]|[_ [k [_ [-> _]]]]].
    - rewrite E3. cbn [app]. eauto.
    - unfold FileName.counter_stem. rewrite E3. destruct (MAX_LEN <? _).
      + cbn [app]. unfold MAX_LEN, NUMBER_LEN. rewrite clip_cons_fits by lia. cbn [app]. eauto.
      + cbn [app]. eauto.
  Qed.

  (** the prefix is kept when its stem is not reserved (true of "glyphs.") *)
  Theorem u2f_prefix_kept name prefix suffix accept r :
    has_dot prefix = true -> is_reserved (stem prefix) = false ->
    blen prefix + blen suffix + NUMBER_LEN <= MAX_LEN ->
    u2f name prefix suffix accept = Some r -> exists m, r = prefix ++ m ++ suffix.
  Proof.
    intros Hd Hr Hl H. unfold MAX_LEN, NUMBER_LEN in Hl.
    assert (E1 : reserved_fix name prefix = (prefix ++ escape (isnil prefix) name, blen prefix)).
    { destruct (reserved_fix_cases name prefix) as [[E _]|[_ E]]; [|exact E].
      unfold FileName.escaped in E. rewrite stem_app, Hd in E. congruence. }
    assert (E2 : exists e, base name prefix suffix = prefix ++ e).
    { rewrite base_unfold, clipped_is_clip, E1. cbn [fst snd]. unfold MAX_LEN.
      rewrite clip_app by lia. destruct (isnil suffix); [|eauto].
      rewrite fix_trail_app by lia. eauto. }
    destruct E2 as [e E2].
    apply u2f_shape in H. destruct H as [[-> _]|[_ [k [_ [-> _]]]]].
    - rewrite E2, <- app_assoc. eauto.
    - unfold FileName.counter_stem. rewrite E2. destruct (MAX_LEN <? _).
      + rewrite <- app_assoc. unfold MAX_LEN, NUMBER_LEN. rewrite clip_app by lia.
        rewrite <- app_assoc. eexists. f_equal. rewrite app_assoc. reflexivity.
      + rewrite <- app_assoc. eexists. f_equal. rewrite app_assoc. reflexivity.
  Qed.

  Theorem u2f_suffix_kept name prefix suffix accept r :
    u2f name prefix suffix accept = Some r -> exists m, r = m ++ suffix.
  Proof.
    intros H. apply u2f_shape in H. destruct H as [[-> _]|[_ [k [_ [-> _]]]]]; [eauto|].
    rewrite app_assoc. eauto.
  Qed.

  (** ** the last character *)
  Theorem u2f_no_trailing_period_space name prefix suffix accept r :
    name <> [] -> suffix_ok suffix -> blen prefix + 1 + 4 + blen suffix <= MAX_LEN ->
    u2f name prefix suffix accept = Some r -> exists m c, r = m ++ [c] /\ is_ds c = false.
  Proof.
    intros Hn [Hs1 Hs2] Hl H. destruct suffix as [|s0 suffix'].
    - (* no suffix: the trailing run was replaced, or the name ends in the counter *)
      apply u2f_shape in H. destruct H as [[-> _]|[_ [k [Hk [-> _]]]]].
      + rewrite app_nil_r, base_unfold. cbn [isnil].
        destruct (base_split name prefix [] Hn Hl) as [p [e [_ [Hp [_ [He [-> _]]]]]]].
        rewrite fix_trail_app by lia.
        destruct (fix_trail_last (snd (reserved_fix name prefix)) e (0 + blen p)) as [m [c [-> Hc]]];
          [lia|assumption|].
        exists (p ++ m), c. rewrite app_assoc. auto.
      + destruct (two_digits_digits k) as [d1 [d2 [-> [H1 H2]]]]; [lia|].
        exists (counter_stem name prefix [] ++ [d1]), d2. rewrite app_nil_r, <- app_assoc.
        split; [reflexivity|]. apply digit_facts in H2. tauto.
    - (* the result ends with the suffix *)
      destruct (u2f_suffix_kept _ _ _ _ _ H) as [m ->].
      destruct (exists_last (l := s0 :: suffix')) as [m' [c Hc]]; [discriminate|].
      exists (m ++ m'), c. rewrite Hc, app_assoc. split; [reflexivity|]. eapply Hs2. exact Hc.
  Qed.

  (** ** the stem is not a reserved word — for any reserved-like test [R] whose verdict on the
      stem of the first stage is negative *)
  Section Reserved.
    Variable R : str -> bool.
    Hypothesis HR : reserved_like R.

    Lemma R_uscore s : In USCORE s -> R s = false.
    Proof. intros H. destruct (R s) eqn:E; [|reflexivity]. exfalso. eapply rl_nous; eauto. Qed.

    Lemma stem_stage_generic name prefix suffix accept r :
      (suffix = [] \/ exists t, suffix = DOT :: t) -> blen suffix <= 247 ->
      R (stem (fst (reserved_fix name prefix))) = false ->
      u2f name prefix suffix accept = Some r -> R (stem r) = false.
    Proof.
      intros Hs Hl H1 H. unfold MAX_LEN in *.
      (* clipped *)
      assert (H2 : R (stem (clipped name prefix suffix)) = false).
      { rewrite clipped_is_clip. set (r1 := fst (reserved_fix name prefix)) in *.
        destruct (list_eq_dec N.eq_dec (clip (MAX_LEN - blen suffix) r1) r1) as [->|Hne]; [exact H1|].
        destruct (clip_prefix r1 (MAX_LEN - blen suffix)) as [t Ht].
        destruct (has_dot (clip (MAX_LEN - blen suffix) r1)) eqn:Ed.
        - rewrite Ht, stem_app, Ed in H1. exact H1.
        - rewrite (stem_nodot _ Ed). apply clip_maximal in Hne. unfold MAX_LEN in *.
          destruct (R (clip (255 - blen suffix) r1)) eqn:ER; [|reflexivity].
          apply (rl_short _ HR) in ER. lia. }
      (* trailing run replaced *)
      assert (H3 : R (stem (base name prefix suffix)) = false).
      { rewrite base_unfold. destruct (isnil suffix); [|exact H2].
        destruct (stem_fix_trail (snd (reserved_fix name prefix)) (clipped name prefix suffix) 0) as [->|Hin];
          [exact H2|apply R_uscore; exact Hin]. }
      apply u2f_shape in H. destruct H as [[-> _]|[_ [k [Hk [-> _]]]]].
      - rewrite stem_app_suffix by assumption. exact H3.
      - rewrite app_assoc, stem_app_suffix by assumption.
        destruct (two_digits_digits k) as [d1 [d2 [-> [Hd1 Hd2]]]]; [lia|].
        assert (Hst : exists t, base name prefix suffix ++ suffix = counter_stem name prefix suffix ++ t).
        { unfold FileName.counter_stem. destruct (MAX_LEN <? _); [apply clip_prefix|eauto]. }
        destruct Hst as [t Ht]. rewrite stem_app.
        destruct (has_dot (counter_stem name prefix suffix)) eqn:Ed.
        + rewrite <- (stem_app_suffix (base name prefix suffix) suffix Hs), Ht, stem_app, Ed in H3.
          exact H3.
        + assert (Hdd : stem [d1; d2] = [d1; d2]).
          { apply stem_nodot. unfold has_dot, memb. cbn [existsb].
            apply digit_facts in Hd1, Hd2. destruct Hd1 as [Hd1 _], Hd2 as [Hd2 _].
            rewrite !(N.eqb_sym DOT). apply N.eqb_neq in Hd1, Hd2. rewrite Hd1, Hd2. reflexivity. }
          rewrite Hdd. apply (rl_digits _ HR); assumption.
    Qed.
  End Reserved.

  Theorem u2f_not_reserved name prefix suffix accept r :
    (suffix = [] \/ exists t, suffix = DOT :: t) -> blen suffix <= 247 ->
    u2f name prefix suffix accept = Some r -> is_reserved (stem r) = false.
  Proof.
    intros Hs Hl. apply (stem_stage_generic _ reserved_like_cs); try assumption.
    destruct (reserved_fix_cases name prefix) as [[_ ->]|[E ->]]; cbn [fst]; [|exact E].
    apply (R_uscore _ reserved_like_cs). cbn [stem]. replace (USCORE =? DOT) with false by reflexivity.
    left. reflexivity.
  Qed.

  (** case-insensitive reading (Windows compares device names ignoring case): needs that ASCII
      capitals count as upper-case and that the prefix has none *)
  Fixpoint up_us (s : str) : bool :=
    match s with
    | [] => true
    | c :: r => (if ascii_upb c then match r with u :: _ => u =? USCORE | [] => false end else true)
                && up_us r
    end.
  Lemma up_us_app a b : up_us a = true -> up_us b = true ->
    (forall m c, a = m ++ [c] -> ascii_upb c = false) -> up_us (a ++ b) = true.
  Proof.
    induction a as [|c a IH]; intros Ha Hb Hl; [exact Hb|]. cbn [app up_us] in *.
    apply andb_true_iff in Ha. destruct Ha as [Ha1 Ha2]. apply andb_true_iff. split.
    - destruct (ascii_upb c) eqn:Ec; [|reflexivity]. destruct a as [|u a']; [|exact Ha1].
      specialize (Hl [] c eq_refl). congruence.
    - apply IH; try assumption. intros m x Hm. apply (Hl (c :: m) x). rewrite Hm. reflexivity.
  Qed.
  Lemma up_us_stem s : up_us s = true -> existsb ascii_upb (stem s) = true -> In USCORE (stem s).
  Proof.
    induction s as [|c r IH]; cbn [stem up_us existsb]; [discriminate|]. intros H1 H2.
    apply andb_true_iff in H1. destruct H1 as [H1 H1'].
    destruct (c =? DOT) eqn:Ec; [discriminate|]. cbn [existsb] in H2.
    destruct (ascii_upb c) eqn:Eu.
    - destruct r as [|u r']; [discriminate|]. apply N.eqb_eq in H1. subst u. right. cbn [stem].
      replace (USCORE =? DOT) with false by reflexivity. left. reflexivity.
    - right. apply IH; assumption.
  Qed.
  Lemma map_low_id s : existsb ascii_upb s = false -> map ascii_low s = s.
  Proof.
    induction s as [|c r IH]; cbn [existsb map]; [reflexivity|]. intros H.
    apply orb_false_iff in H. destruct H as [H1 H2]. rewrite (ascii_low_fix _ H1), (IH H2). reflexivity.
  Qed.

  Lemma last_of_app (a b m : str) y : b <> [] -> a ++ b = m ++ [y] -> exists m', b = m' ++ [y].
  Proof.
    intros Hb H. destruct (exists_last Hb) as [b' [z Hz]]. subst b. rewrite app_assoc in H.
    apply app_inj_tail in H. destruct H as [_ ->]. eauto.
  Qed.

  Lemma escape_up_us name : (forall c, ascii_upb c = true -> is_upper c = true) ->
    forall b, up_us (escape b name) = true /\
              (forall m c, escape b name = m ++ [c] -> ascii_upb c = false).
  Proof.
    intros Hup. induction name as [|c r IH]; intros b; cbn [FileName.escape].
    - split; [reflexivity|]. intros [|? ?] ? ?; discriminate.
    - destruct (IH false) as [IH1 IH2].
      assert (E : (esc1 b c = [USCORE]) \/ (esc1 b c = [c; USCORE]) \/ (esc1 b c = [c] /\ ascii_upb c = false)).
      { unfold FileName.esc1. destruct (b && (c =? DOT)); [auto|]. destruct (illegalb c); [auto|].
        destruct (is_upper c) eqn:Eu; [auto|]. right; right. split; [reflexivity|].
        destruct (ascii_upb c) eqn:Ea; [|reflexivity]. rewrite (Hup c Ea) in Eu. discriminate. }
      split.
      + destruct E as [->|[->|[-> Ec]]]; cbn [app up_us].
        * replace (ascii_upb USCORE) with false by reflexivity. exact IH1.
        * replace (ascii_upb USCORE) with false by reflexivity. rewrite N.eqb_refl.
          destruct (ascii_upb c); exact IH1.
        * rewrite Ec. exact IH1.
      + intros m x Hm. destruct (escape false r) as [|y l] eqn:El.
        * rewrite app_nil_r in Hm. destruct E as [E|[E|[E Ec]]]; rewrite E in Hm.
          -- apply (app_inj_tail [] m) in Hm. destruct Hm as [_ <-]. reflexivity.
          -- apply (app_inj_tail [c] m) in Hm. destruct Hm as [_ <-]. reflexivity.
          -- apply (app_inj_tail [] m) in Hm. destruct Hm as [_ <-]. exact Ec.
        * apply last_of_app in Hm; [|discriminate]. destruct Hm as [m' Hm']. eapply IH2. exact Hm'.
  Qed.

  Theorem u2f_not_reserved_ci name prefix suffix accept r :
    (forall c, ascii_upb c = true -> is_upper c = true) -> existsb ascii_upb prefix = false ->
    (suffix = [] \/ exists t, suffix = DOT :: t) -> blen suffix <= 247 ->
    u2f name prefix suffix accept = Some r -> is_reserved_ci (stem r) = false.
  Proof.
    intros Hup Hp Hs Hl. apply (stem_stage_generic _ reserved_like_ci); try assumption.
    destruct (reserved_fix_cases name prefix) as [[_ ->]|[E ->]]; cbn [fst].
    - apply (R_uscore _ reserved_like_ci). cbn [stem]. replace (USCORE =? DOT) with false by reflexivity.
      left. reflexivity.
    - destruct (existsb ascii_upb (stem (escaped name prefix))) eqn:Eu.
      + apply (R_uscore _ reserved_like_ci). apply up_us_stem; [|exact Eu].
        unfold FileName.escaped. destruct (escape_up_us name Hup (isnil prefix)) as [H1 _].
        apply up_us_app; [|exact H1|].
        * clear -Hp. induction prefix as [|c p IH]; [reflexivity|]. cbn [existsb up_us] in *.
          apply orb_false_iff in Hp. destruct Hp as [-> Hp]. apply IH. exact Hp.
        * intros m c Hm. rewrite Hm, existsb_app in Hp. cbn [existsb] in Hp.
          apply orb_false_iff in Hp. destruct Hp as [_ Hp]. apply orb_false_iff in Hp. tauto.
      + unfold is_reserved_ci. rewrite (map_low_id _ Eu). exact E.
  Qed.

  (** ** single component *)
  Theorem u2f_single_component name prefix suffix accept r :
    name <> [] -> Forall (fun c => illegalb c = false) prefix ->
    Forall (fun c => illegalb c = false) suffix ->
    suffix_ok suffix -> blen prefix + 1 + 4 + blen suffix <= MAX_LEN ->
    (prefix = [] -> blen suffix <= 247) ->
    (prefix <> [] -> suffix = [] -> exists c, In c prefix /\ c <> DOT) ->
    (suffix <> [] -> exists c, In c suffix /\ c <> DOT) ->
    u2f name prefix suffix accept = Some r -> single_component r.
  Proof.
    intros Hn Hp Hs Hso Hl Hl2 Hpd Hsd H.
    pose proof (u2f_no_illegal_char _ _ _ _ _ Hp Hs H) as Hill. rewrite Forall_forall in Hill.
    assert (Hnd : exists c, In c r /\ c <> DOT).
    { destruct suffix as [|s0 s'].
      - destruct prefix as [|p0 p'].
        + destruct (u2f_no_leading_period _ _ _ _ Hn (Hl2 eq_refl) H) as [c [t [-> Hc]]].
          exists c. split; [left; reflexivity|exact Hc].
        + destruct (Hpd ltac:(discriminate) eq_refl) as [c [Hc1 Hc2]].
          (* the result ends in a non-period *)
          destruct (u2f_no_trailing_period_space _ _ _ _ _ Hn Hso Hl H) as [m [x [-> Hx]]].
          exists x. split; [apply in_or_app; right; left; reflexivity|].
          intros ->. discriminate.
      - destruct (Hsd ltac:(discriminate)) as [c [Hc1 Hc2]].
        destruct (u2f_suffix_kept _ _ _ _ _ H) as [m ->]. exists c. split; [apply in_or_app; right; exact Hc1|exact Hc2]. }
    destruct Hnd as [c [Hc1 Hc2]].
    repeat split.
    - intros ->. contradiction.
    - intros ->. destruct Hc1 as [<-|[]]. congruence.
    - intros ->. destruct Hc1 as [<-|[<-|[]]]; congruence.
    - intros Hin. specialize (Hill _ Hin). discriminate.
    - intros Hin. specialize (Hill _ Hin). discriminate.
  Qed.
End U2F.

Ltac nle := vm_compute; let Hx := fresh in intros Hx; discriminate Hx.

(** ** the two wrappers: every clause of the property for glif file names and layer directories *)
Section Wrappers.
  Variable is_upper : N -> bool.
  Variable lower : str -> str.

  Lemma suffix_ok_nil : suffix_ok [].
  Proof. split; [left; reflexivity|]. intros m c H. destruct m; discriminate. Qed.
  Lemma suffix_ok_glif : suffix_ok GLYPH_SUFFIX.
  Proof.
    split; [right; eexists; reflexivity|]. intros m c H.
    change GLYPH_SUFFIX with ([46;103;108;105] ++ [102]) in H. apply app_inj_tail in H.
    destruct H as [_ <-]. reflexivity.
  Qed.
  Lemma forall_of_forallb (f : N -> bool) l : forallb f l = true -> Forall (fun c => f c = true) l.
  Proof. intros H. apply Forall_forall. apply forallb_forall. exact H. Qed.
  Lemma illegal_free (l : str) : forallb (fun c => negb (illegalb c)) l = true ->
    Forall (fun c => illegalb c = false) l.
  Proof.
    intros H. apply forall_of_forallb in H. eapply Forall_impl; [|exact H]. cbv beta.
    intros c Hc. apply negb_true_iff in Hc. exact Hc.
  Qed.
  Lemma control_free (l : str) : forallb (fun c => negb (controlb c)) l = true ->
    Forall (fun c => controlb c = false) l.
  Proof.
    intros H. apply forall_of_forallb in H. eapply Forall_impl; [|exact H]. cbv beta.
    intros c Hc. apply negb_true_iff in Hc. exact Hc.
  Qed.

  Theorem glyph_file_name_spec name accept r :
    name_valid name -> glyph_file_name is_upper lower name accept = Some r ->
    portable_name r /\
    (exists c t, r = c :: t /\ c <> DOT) /\
    (exists m, r = m ++ GLYPH_SUFFIX) /\
    accept (lower r) = true /\
    (~ ClippedClash is_upper lower name GLYPH_PREFIX GLYPH_SUFFIX accept -> blen r <= MAX_LEN).
  Proof.
    intros [Hne Hctl] H. unfold glyph_file_name in H.
    assert (Hill : Forall (fun c => illegalb c = false) GLYPH_SUFFIX) by (apply illegal_free; reflexivity).
    assert (Hct : Forall (fun c => controlb c = false) GLYPH_SUFFIX) by (apply control_free; reflexivity).
    split; [|split; [|split; [|split]]].
    - split; [|split; [|split; [|split]]].
      + eapply u2f_single_component; try exact H; try assumption.
        * constructor.
        * apply suffix_ok_glif.
        * nle.
        * intros _. nle.
        * intros Hx. exfalso. apply Hx. reflexivity.
        * intros _. exists 103. split; [right; left; reflexivity|discriminate].
      + eapply u2f_no_illegal_char; try exact H; [constructor|assumption].
      + eapply u2f_no_control_char; try exact H; [assumption|constructor|assumption].
      + eapply u2f_not_reserved; try exact H; [right; eexists; reflexivity|nle].
      + eapply u2f_no_trailing_period_space; try exact H; [assumption|apply suffix_ok_glif|nle].
    - eapply u2f_no_leading_period; try exact H; [assumption|nle].
    - eapply u2f_suffix_kept; exact H.
    - eapply u2f_accepted; exact H.
    - intros Hk. eapply u2f_len_255; try exact H; [nle|exact Hk].
  Qed.

  Theorem layer_dir_name_spec name accept r :
    name_valid name -> layer_dir_name is_upper lower name accept = Some r ->
    portable_name r /\
    (exists m, r = LAYER_PREFIX ++ m /\ m <> []) /\
    accept (lower r) = true /\
    blen r <= MAX_LEN.
  Proof.
    intros [Hne Hctl] H. unfold layer_dir_name in H.
    assert (Hill : Forall (fun c => illegalb c = false) LAYER_PREFIX) by (apply illegal_free; reflexivity).
    assert (Hct : Forall (fun c => controlb c = false) LAYER_PREFIX) by (apply control_free; reflexivity).
    assert (Hlast : exists m c, r = m ++ [c] /\ is_ds c = false).
    { eapply u2f_no_trailing_period_space; try exact H; [assumption|apply suffix_ok_nil|nle]. }
    split; [|split; [|split]].
    - split; [|split; [|split; [|split]]].
      + eapply u2f_single_component; try exact H; try assumption.
        * constructor.
        * apply suffix_ok_nil.
        * nle.
        * discriminate.
        * intros _ _. exists 103. split; [left; reflexivity|discriminate].
        * intros Hx. exfalso. apply Hx. reflexivity.
      + eapply u2f_no_illegal_char; try exact H; [assumption|constructor].
      + eapply u2f_no_control_char; try exact H; [assumption|assumption|constructor].
      + eapply u2f_not_reserved; try exact H; [left; reflexivity|nle].
      + exact Hlast.
    - destruct (u2f_prefix_kept is_upper lower name LAYER_PREFIX LAYER_SUFFIX accept r) as [m Hm];
        [reflexivity|reflexivity|nle|exact H|].
      unfold LAYER_SUFFIX in Hm. rewrite app_nil_r in Hm. exists m. split; [exact Hm|].
      intros ->. rewrite app_nil_r in Hm. subst r.
      destruct Hlast as [m' [c [Hm' Hc]]].
      change LAYER_PREFIX with ([103;108;121;112;104;115] ++ [46]) in Hm'.
      apply app_inj_tail in Hm'. destruct Hm' as [_ <-]. discriminate.
    - eapply u2f_accepted; exact H.
    - eapply u2f_len_255; try exact H; [nle|].
      intros (_ & H1 & H2). unfold LAYER_SUFFIX, MAX_LEN, NUMBER_LEN in *. cbn [blen] in H2. lia.
  Qed.

  (** case-insensitive "not a device name" for both wrappers, when ASCII capitals are upper-case *)
  Theorem wrappers_not_reserved_ci name accept r :
    (forall c, ascii_upb c = true -> is_upper c = true) ->
    glyph_file_name is_upper lower name accept = Some r \/
    layer_dir_name is_upper lower name accept = Some r ->
    is_reserved_ci (stem r) = false.
  Proof.
    intros Hup [H|H].
    - eapply u2f_not_reserved_ci; try exact H; [assumption|reflexivity|right; eexists; reflexivity|nle].
    - eapply u2f_not_reserved_ci; try exact H; [assumption|reflexivity|left; reflexivity|nle].
  Qed.
End Wrappers.

(** ** F1: the pinned test's own input ("A"*300 taken, then "a_"*150) gives a 257-byte name *)
Definition f1_name : str := flat_map (fun _ => [97; 95]) (repeat tt 150).
Definition f1_taken : str := flat_map (fun _ => [97; 95]) (repeat tt 125) ++ GLYPH_SUFFIX.
Definition f1_accept (cand : str) : bool := negb (str_eqb cand f1_taken).
Definition ascii_is_upper (c : N) : bool := ascii_upb c.
Definition ascii_lower (s : str) : str := map ascii_low s.
Lemma f1_witness :
  exists r, glyph_file_name ascii_is_upper ascii_lower f1_name f1_accept = Some r /\ blen r = 257 /\
            ClippedClash ascii_is_upper ascii_lower f1_name GLYPH_PREFIX GLYPH_SUFFIX f1_accept.
Proof.
  eexists. split; [vm_compute; reflexivity|]. split; [vm_compute; reflexivity|].
  unfold ClippedClash. split; [vm_compute; reflexivity|]. split; vm_compute; [discriminate|reflexivity].
Qed.

Lemma clipped_clashb_spec is_upper lower name prefix suffix accept :
  clipped_clashb is_upper lower name prefix suffix accept = true <->
  ClippedClash is_upper lower name prefix suffix accept.
Proof.
  unfold clipped_clashb, ClippedClash. rewrite !andb_true_iff, negb_true_iff, N.leb_le, N.ltb_lt.
  tauto.
Qed.

Lemma len_full_refuted :
  ~ (forall is_upper lower name prefix suffix accept r, blen suffix <= MAX_LEN ->
       u2f is_upper lower name prefix suffix accept = Some r -> blen r <= MAX_LEN).
Proof.
  intros H. destruct f1_witness as [r [Hr [Hl _]]].
  assert (Hs : blen GLYPH_SUFFIX <= MAX_LEN) by nle.
  specialize (H ascii_is_upper ascii_lower f1_name GLYPH_PREFIX GLYPH_SUFFIX f1_accept r Hs Hr).
  rewrite Hl in H. vm_compute in H. apply H. reflexivity.
Qed.
