(** Lemmas about the glif writer model composed with the reader model: what survives
    encode-then-parse, component by component, and where exactly it does not (F3). *)
Require Import Norad.Model.GlifSpec Norad.Model.GlifDen Norad.Model.GlifEncode.
Require Import Norad.Proofs.ContourP Norad.Proofs.GlifParseP Norad.Proofs.GlifSpecP Norad.Proofs.GlifCompleteP.
Open Scope N_scope.

(* ---------- re-indentation of lib text (F3) ---------- *)
Section Reindent.
Variable o : wopts.

Lemma reindent_no_newline s : ~ In 10 s -> reindent o s = s.
Proof.
  induction s as [|c s IH]; intros H; [reflexivity|]. cbn [reindent].
  destruct (c =? 10) eqn:E.
  - apply N.eqb_eq in E. subst. exfalso. apply H. left; reflexivity.
  - rewrite IH; [reflexivity|]. intros Hin. apply H. right; exact Hin.
Qed.
Lemma reindent_width0 s : o_count o = 0%nat -> reindent o s = s.
Proof.
  intros H. induction s as [|c s IH]; [reflexivity|]. cbn [reindent]. unfold indent2. rewrite H.
  cbn [Nat.mul repeat app]. rewrite IH. destruct (c =? 10); reflexivity.
Qed.
Lemma reindent_length s : (List.length s <= List.length (reindent o s))%nat.
Proof.
  induction s as [|c s IH]; [apply le_n|]. cbn [reindent]. destruct (c =? 10); cbn [List.length].
  - rewrite app_length. lia.
  - lia.
Qed.
Lemma reindent_grows s : In 10 s -> o_count o <> 0%nat ->
  (List.length s < List.length (reindent o s))%nat.
Proof.
  intros Hin Hc. induction s as [|c s IH]; [contradiction|]. cbn [reindent].
  destruct (c =? 10) eqn:E; cbn [List.length].
  - rewrite app_length. unfold indent2. rewrite repeat_length. pose proof (reindent_length s). lia.
  - destruct Hin as [->|Hin]; [rewrite N.eqb_refl in E; discriminate|]. specialize (IH Hin). lia.
Qed.

(** lib text survives exactly when it holds no line break or the indent width is 0 *)
Theorem reindent_id_iff s : reindent o s = s <-> (~ In 10 s \/ o_count o = 0%nat).
Proof.
  split.
  - intros H. destruct (in_dec N.eq_dec 10 s) as [Hin|Hn]; [|left; exact Hn].
    destruct (Nat.eq_dec (o_count o) 0) as [Hc|Hc]; [right; exact Hc|].
    pose proof (reindent_grows s Hin Hc) as G. rewrite H in G. lia.
  - intros [H|H]; [apply reindent_no_newline|apply reindent_width0]; exact H.
Qed.
End Reindent.

(* ---------- notes ---------- *)
(** what the reader makes of the note element the writer produces *)
Lemma note_written n : note_of None (text_kids n) = if blank n then None else Some (trim n).
Proof.
  unfold note_of, note_texts, text_kids. destruct n as [|c n]; [reflexivity|].
  cbn [flat_map texts_of app filter]. destruct (blank (c :: n)); reflexivity.
Qed.
Theorem note_roundtrip_iff n :
  note_of None (text_kids n) = Some n <-> (blank n = false /\ trim n = n).
Proof.
  rewrite note_written. destruct (blank n); split.
  - discriminate.
  - intros [H _]; discriminate.
  - intros H; inversion H. split; [reflexivity|congruence].
  - intros [_ H]. rewrite H. reflexivity.
Qed.

(* ---------- code points ---------- *)
Lemma cps_insert_fresh c l : ~ In c l -> cps_insert c l = l ++ [c].
Proof.
  intros H. unfold cps_insert. destruct (existsb (N.eqb c) l) eqn:E; [|reflexivity].
  apply existsb_exists in E as (x & Hx & Ex). apply N.eqb_eq in Ex. subst. contradiction.
Qed.
(** inserting the written code points one by one rebuilds the list in order *)
Theorem codepoints_order_preserved l : NoDup l -> forall acc,
  (forall c, In c l -> ~ In c acc) -> fold_left (fun a c => cps_insert c a) l acc = acc ++ l.
Proof.
  induction 1 as [|c l Hn ND IH]; intros acc HA; cbn [fold_left]; [rewrite app_nil_r; reflexivity|].
  rewrite cps_insert_fresh by (apply HA; left; reflexivity).
  rewrite IH; [rewrite <- app_assoc; reflexivity|].
  intros x Hx Hin. apply in_app_iff in Hin as [Hin|[<-|[]]]; [apply (HA x); [right; exact Hx|exact Hin]|contradiction].
Qed.

(* ---------- colours: three decimals ---------- *)
Lemma split_on_aux_no_sep sep s : ~ In sep s -> forall cur,
  split_on_aux sep cur s = [rev cur ++ s].
Proof.
  induction s as [|c s IH]; intros H cur; cbn [split_on_aux]; [rewrite app_nil_r; reflexivity|].
  destruct (c =? sep) eqn:E; [apply N.eqb_eq in E; subst; exfalso; apply H; left; reflexivity|].
  rewrite IH by (intros Hin; apply H; right; exact Hin). cbn [rev]. rewrite <- app_assoc. reflexivity.
Qed.
Lemma split_on_aux_app sep a b : ~ In sep a -> forall cur,
  split_on_aux sep cur (a ++ sep :: b) = (rev cur ++ a) :: split_on_aux sep [] b.
Proof.
  induction a as [|c a IH]; intros H cur; cbn [app split_on_aux].
  - rewrite N.eqb_refl, app_nil_r. reflexivity.
  - destruct (c =? sep) eqn:E; [apply N.eqb_eq in E; subst; exfalso; apply H; left; reflexivity|].
    rewrite IH by (intros Hin; apply H; right; exact Hin). cbn [rev]. rewrite <- app_assoc. reflexivity.
Qed.
Lemma split_join4 sep a b c d :
  ~ In sep a -> ~ In sep b -> ~ In sep c -> ~ In sep d ->
  split_on sep (join sep [a; b; c; d]) = [a; b; c; d].
Proof.
  intros Ha Hb Hc Hd. unfold split_on. cbn [join].
  rewrite split_on_aux_app by exact Ha. rewrite split_on_aux_app by exact Hb.
  rewrite split_on_aux_app by exact Hc. rewrite split_on_aux_no_sep by exact Hd. reflexivity.
Qed.
Lemma drop_while_incl c s x : In x (drop_while c s) -> In x s.
Proof.
  induction s as [|y s IH]; cbn [drop_while]; [auto|]. destruct (y =? c); [right; auto|auto].
Qed.
Lemma trim_end_incl c s x : In x (trim_end c s) -> In x s.
Proof. unfold trim_end. intros H. apply in_rev in H. apply drop_while_incl in H. apply in_rev. exact H. Qed.

Section Codec.
  Variable pf : str -> option fl.
  Variable ff ff3 : fl -> str.
  Variable fi : Z -> str.
  Variable fh : N -> str.
  Variable o : wopts.
  (** what "equal to three decimals" means for a channel (validated on every value by the run) *)
  Variable close3 : fl -> fl -> Prop.
  (** L1: std prints finite numbers so that they read back; a channel printed with three
      decimals holds no comma and reads back within 0..1, close to the original *)
  Hypothesis H_ff : forall x, fl_finite x = true -> pf (ff x) = Some x.
  Hypothesis H_ff3 : forall x, unit_range x = true ->
    ~ In 44 (ff3 x) /\ exists y, pf (chan ff3 x) = Some y /\ unit_range y = true /\ close3 x y.

  Definition color_close (c c' : color) : Prop :=
    let '(r, g, b, a) := c in let '(r', g', b', a') := c' in
    close3 r r' /\ close3 g g' /\ close3 b b' /\ close3 a a'.

  Theorem color_roundtrip_3dp c :
    color_val_ok c = true ->
    exists c', parse_color pf (color_str ff3 c) = Some c' /\ color_val_ok c' = true /\ color_close c c'.
  Proof.
    destruct c as [[[r g] b] a]. unfold color_val_ok. intros H.
    apply andb_true_iff in H as [H Ua]. apply andb_true_iff in H as [H Ub]. apply andb_true_iff in H as [Ur Ug].
    destruct (H_ff3 r Ur) as (Nr & r' & Pr & Ur' & Cr). destruct (H_ff3 g Ug) as (Ng & g' & Pg & Ug' & Cg).
    destruct (H_ff3 b Ub) as (Nb & b' & Pb & Ub' & Cb). destruct (H_ff3 a Ua) as (Na & a' & Pa & Ua' & Ca).
    exists (r', g', b', a'). unfold parse_color, color_str.
    assert (NC : forall x, ~ In 44 (ff3 x) -> ~ In 44 (chan ff3 x)).
    { intros x Hx Hin. apply Hx. unfold chan in Hin. apply trim_end_incl in Hin. apply trim_end_incl in Hin. exact Hin. }
    rewrite split_join4 by (apply NC; assumption).
    rewrite Pr, Pg, Pb, Pa, Ur', Ug', Ub', Ua'. cbn [andb]. repeat split; auto.
  Qed.

  (* ---------- attribute codecs ---------- *)
  Definition ocolor_close (c c' : option color) : Prop :=
    match c, c' with
    | Some x, Some y => color_close x y /\ color_val_ok y = true
    | None, None => True
    | _, _ => False
    end.

  Lemma lookup_app {A} k (l1 l2 : list (str * A)) :
    lookup k (l1 ++ l2) = match lookup k l1 with Some v => Some v | None => lookup k l2 end.
  Proof.
    destruct (lookup k l1) eqn:E; [apply lookup_app_l; exact E|apply lookup_app_r; exact E].
  Qed.
  Lemma lookup_oattr key key' v :
    lookup key (oattr key' v) = if str_eqb key key' then v else None.
  Proof. destruct v; cbn [oattr lookup]; destruct (str_eqb key key'); reflexivity. Qed.
  Lemma lookup_cond_attr key b key' v :
    lookup key (cond_attr b key' v) = if b && str_eqb key key' then Some v else None.
  Proof. destruct b; cbn [cond_attr lookup andb]; [destruct (str_eqb key key')|]; reflexivity. Qed.

  (** the colour attribute the writer produces is well-formed and denotes a close colour *)
  Lemma color_attr_ok c :
    opt_ok color_val_ok c ->
    (forall v, option_map (color_str ff3) c = Some v -> color_ok pf v) /\
    ocolor_close c (match option_map (color_str ff3) c with Some v => parse_color pf v | None => None end).
  Proof.
    destruct c as [c|]; cbn [opt_ok option_map ocolor_close]; [|split; [discriminate|exact I]].
    intros H. destruct (color_roundtrip_3dp c H) as (c' & P & V & CL). rewrite P. split; [|auto].
    intros v E; inversion E; subst. apply (parse_color_ok pf) in P. apply P.
  Qed.

  Ltac key_neq := vm_compute; reflexivity.

  (** anchors *)
  Theorem anchor_roundtrip a seen :
    anchor_rules a -> fl_finite (ax a) = true -> fl_finite (ay a) = true ->
    (forall i, In i (oid (aid a)) -> ~ In i seen) ->
    exists a', parse_anchor pf 2 seen (attrs_of (enc_anchor ff ff3 a)) = Ok (a', rev (oid (aid a)) ++ seen) /\
      ax a' = ax a /\ ay a' = ay a /\ aname a' = aname a /\ aid a' = aid a /\ alib a' = None /\
      ocolor_close (acolor a) (acolor a').
  Proof.
    intros (RN & RC & RI & _) Fx Fy HF.
    set (ats := attrs_of (enc_anchor ff ff3 a)).
    destruct (color_attr_ok (acolor a) RC) as [CO CC].
    assert (Lx : lookup k_x ats = Some (ff (ax a))).
    { subst ats. unfold attrs_of, enc_anchor; cbn [as_elem]. rewrite !lookup_app, !lookup_oattr.
      replace (str_eqb k_x k_name) with false by key_neq. cbn [lookup]. rewrite str_eqb_refl. reflexivity. }
    assert (Ly : lookup k_y ats = Some (ff (ay a))).
    { subst ats. unfold attrs_of, enc_anchor; cbn [as_elem]. rewrite !lookup_app, !lookup_oattr.
      replace (str_eqb k_y k_name) with false by key_neq. cbn [lookup].
      replace (str_eqb k_y k_x) with false by key_neq. rewrite str_eqb_refl. reflexivity. }
    assert (Ln : lookup k_name ats = aname a).
    { subst ats. unfold attrs_of, enc_anchor; cbn [as_elem]. rewrite !lookup_app, !lookup_oattr, str_eqb_refl.
      destruct (aname a); [reflexivity|]. cbn [lookup].
      replace (str_eqb k_name k_x) with false by key_neq. replace (str_eqb k_name k_y) with false by key_neq.
      replace (str_eqb k_name k_color) with false by key_neq.
      replace (str_eqb k_name k_identifier) with false by key_neq.
      destruct (option_map _ _), (aid a); reflexivity. }
    assert (Lc : lookup k_color ats = option_map (color_str ff3) (acolor a)).
    { subst ats. unfold attrs_of, enc_anchor; cbn [as_elem]. rewrite !lookup_app, !lookup_oattr, str_eqb_refl.
      replace (str_eqb k_color k_name) with false by key_neq. cbn [lookup].
      replace (str_eqb k_color k_x) with false by key_neq. replace (str_eqb k_color k_y) with false by key_neq.
      destruct (option_map _ _); [reflexivity|].
      replace (str_eqb k_color k_identifier) with false by key_neq. destruct (aid a); reflexivity. }
    assert (Li : lookup k_identifier ats = aid a).
    { subst ats. unfold attrs_of, enc_anchor; cbn [as_elem]. rewrite !lookup_app, !lookup_oattr, str_eqb_refl.
      replace (str_eqb k_identifier k_name) with false by key_neq. cbn [lookup].
      replace (str_eqb k_identifier k_x) with false by key_neq.
      replace (str_eqb k_identifier k_y) with false by key_neq.
      replace (str_eqb k_identifier k_color) with false by key_neq.
      destruct (option_map _ _), (aid a); reflexivity. }
    assert (AO : attrs_ok pf 2 KAnchor ats).
    { split; [|split].
      - subst ats. unfold attrs_of, enc_anchor; cbn [as_elem].
        destruct (aname a), (option_map (color_str ff3) (acolor a)), (aid a); cbn [oattr app map fst];
          apply nodupb_spec; vm_compute; reflexivity.
      - intros key v Hin. subst ats. unfold attrs_of, enc_anchor in Hin; cbn [as_elem] in Hin.
        rewrite !in_app_iff in Hin. cbn [In] in Hin.
        destruct Hin as [Hin|[[Hin|[Hin|[]]]|[Hin|Hin]]].
        + destruct (aname a) as [n|] eqn:EN; [|contradiction]. destruct Hin as [Hin|[]]. inversion Hin; subst.
          exists AName. split; [reflexivity|exact RN].
        + inversion Hin; subst. exists ANum. split; [reflexivity|]. cbn [val_ok]. rewrite (H_ff _ Fx). discriminate.
        + inversion Hin; subst. exists ANum. split; [reflexivity|]. cbn [val_ok]. rewrite (H_ff _ Fy). discriminate.
        + destruct (option_map (color_str ff3) (acolor a)) as [cv|] eqn:EC; [|contradiction].
          destruct Hin as [Hin|[]]. inversion Hin; subst. exists AColor. split; [reflexivity|]. apply CO. reflexivity.
        + destruct (aid a) as [i|] eqn:EI; [|contradiction]. destruct Hin as [Hin|[]]. inversion Hin; subst.
          exists AIdent. split; [reflexivity|]. split; [reflexivity|exact RI].
      - intros r [<-|[<-|[]]]; apply has_key_In; unfold has_key; [change (s2l "x") with k_x; rewrite Lx|change (s2l "y") with k_y; rewrite Ly]; reflexivity. }
    assert (AI : attr_ident ats = oid (aid a)).
    { unfold attr_ident. change (s2l "identifier") with k_identifier. rewrite Li. destruct (aid a); reflexivity. }
    destruct (parse_anchor_complete pf 2 seen ats AO) as (a' & D & P).
    { rewrite AI. exact HF. }
    exists a'. rewrite P, AI. split; [reflexivity|].
    unfold anchor_den, num_at, color_at in D. rewrite Lx, Ly, Ln, Lc, Li, (H_ff _ Fx), (H_ff _ Fy) in D.
    inversion D; subst a'; cbn [ax ay aname aid alib acolor]. repeat split; auto.
  Qed.

  (* ---------- lookups in the attribute lists the writer builds ---------- *)
  Ltac keq :=
    repeat match goal with
           | |- context [str_eqb ?a ?b] =>
               let v := eval vm_compute in (str_eqb a b) in
               lazymatch v with
               | true => replace (str_eqb a b) with true by (vm_compute; reflexivity)
               | false => replace (str_eqb a b) with false by (vm_compute; reflexivity)
               end
           end.
  Ltac lk := rewrite ?lookup_app, ?lookup_oattr, ?lookup_cond_attr; cbn [lookup]; keq;
             rewrite ?andb_false_r, ?andb_true_r; cbn [lookup].
  Ltac optcases :=
    repeat match goal with
           | |- context [match ?o with Some _ => _ | None => _ end] => destruct o
           | |- context [if ?b then _ else _] => destruct b
           end; try reflexivity.

  (** what the reader gets back for a written transformation: a scale equal to 1 is not written
      and comes back as 1, zeros (of either sign) are not written and come back as +0 *)
  Definition transform_written (t : transform) : transform :=
    mkT (if fl_scale_differs (xScale t) then xScale t else f1)
        (if fl_nonzero (xyScale t) then xyScale t else f0)
        (if fl_nonzero (yxScale t) then yxScale t else f0)
        (if fl_scale_differs (yScale t) then yScale t else f1)
        (if fl_nonzero (xOffset t) then xOffset t else f0)
        (if fl_nonzero (yOffset t) then yOffset t else f0).
  Definition transform_finite (t : transform) : Prop :=
    fl_finite (xScale t) = true /\ fl_finite (xyScale t) = true /\ fl_finite (yxScale t) = true /\
    fl_finite (yScale t) = true /\ fl_finite (xOffset t) = true /\ fl_finite (yOffset t) = true.

  Definition tkeys : list str := [k_xScale; k_xyScale; k_yxScale; k_yScale; k_xOffset; k_yOffset].
  Lemma transform_attrs_other t key :
    ~ In key tkeys -> lookup key (transform_attrs ff t) = None.
  Proof.
    intros H. unfold transform_attrs. rewrite !lookup_app, !lookup_cond_attr.
    assert (E : forall k, In k tkeys -> str_eqb key k = false).
    { intros k Hk. apply str_eqb_neq. intros ->. contradiction. }
    rewrite !E by (cbn; tauto). rewrite !andb_false_r. reflexivity.
  Qed.
  Lemma transform_at_written pre post t :
    transform_finite t ->
    (forall key, In key tkeys -> lookup key pre = None) ->
    (forall key, In key tkeys -> lookup key post = None) ->
    transform_at pf (pre ++ transform_attrs ff t ++ post) = transform_written t.
  Proof.
    intros (F1 & F2 & F3 & F4 & F5 & F6) HP HQ.
    unfold transform_at, transform_written, num_or_at, num_at.
    rewrite !lookup_app, !HP by (cbn; tauto). unfold transform_attrs.
    f_equal; lk; repeat match goal with |- context [if ?b then _ else _] => destruct b end;
      rewrite ?H_ff by assumption; rewrite ?HQ by (cbn; tauto); try reflexivity.
  Qed.

  Lemma in_cond_attr key v b k x : In (key, v) (cond_attr b k x) -> key = k /\ v = x.
  Proof. destruct b; cbn [cond_attr In]; [intros [H|[]]; inversion H; auto|intros []]. Qed.
  Lemma transform_attrs_in t key v :
    transform_finite t -> In (key, v) (transform_attrs ff t) -> In key tkeys /\ pf v <> None.
  Proof.
    intros (F1 & F2 & F3 & F4 & F5 & F6). unfold transform_attrs. rewrite !in_app_iff.
    intros [H|[H|[H|[H|[H|H]]]]]; apply in_cond_attr in H as [-> ->]; rewrite H_ff by assumption;
      (split; [cbn; tauto|discriminate]).
  Qed.
  Lemma transform_keys t :
    NoDup (map fst (transform_attrs ff t)) /\ incl (map fst (transform_attrs ff t)) tkeys.
  Proof.
    unfold transform_attrs.
    destruct (fl_scale_differs (xScale t)), (fl_nonzero (xyScale t)), (fl_nonzero (yxScale t)),
      (fl_scale_differs (yScale t)), (fl_nonzero (xOffset t)), (fl_nonzero (yOffset t));
      cbn [cond_attr app map fst]; (split; [apply nodupb_spec; vm_compute; reflexivity|intros k; cbn; tauto]).
  Qed.
  Lemma tkeys_num k : In k tkeys ->
    lookup k (schema KComponent) = Some ANum /\ lookup k (schema KImage) = Some ANum.
  Proof. intros [<-|[<-|[<-|[<-|[<-|[<-|[]]]]]]]; split; reflexivity. Qed.
  Lemma not_tkey k : mem_str k tkeys = false -> ~ In k tkeys.
  Proof. intros H Hin. apply mem_str_In in Hin. congruence. Qed.

  (** components *)
  Theorem component_roundtrip c seen :
    comp_rules c -> transform_finite (ctrans c) ->
    (forall i, In i (oid (coid c)) -> ~ In i seen) ->
    parse_component pf 2 seen (attrs_of (enc_component ff c))
    = Ok (mkComp (cbase c) (transform_written (ctrans c)) (coid c) None, rev (oid (coid c)) ++ seen).
  Proof.
    intros (RB & RI & _) TF HF.
    set (ats := attrs_of (enc_component ff c)).
    assert (EA : ats = [(k_base, cbase c)] ++ transform_attrs ff (ctrans c) ++ oattr k_identifier (coid c)) by reflexivity.
    assert (Lb : lookup k_base ats = Some (cbase c)).
    { rewrite EA. cbn [app lookup]. rewrite str_eqb_refl. reflexivity. }
    assert (Li : lookup k_identifier ats = coid c).
    { rewrite EA. rewrite !lookup_app. cbn [lookup]. keq.
      rewrite (transform_attrs_other _ k_identifier) by (apply not_tkey; vm_compute; reflexivity).
      rewrite lookup_oattr, str_eqb_refl. reflexivity. }
    assert (Lt : transform_at pf ats = transform_written (ctrans c)).
    { rewrite EA. apply transform_at_written; [exact TF| |].
      - intros key Hk. cbn [lookup]. replace (str_eqb key k_base) with false; [reflexivity|].
        symmetry. apply str_eqb_neq. intros ->. revert Hk. apply not_tkey. vm_compute. reflexivity.
      - intros key Hk. rewrite lookup_oattr. replace (str_eqb key k_identifier) with false; [reflexivity|].
        symmetry. apply str_eqb_neq. intros ->. revert Hk. apply not_tkey. vm_compute. reflexivity. }
    assert (AO : attrs_ok pf 2 KComponent ats).
    { destruct (transform_keys (ctrans c)) as [TN TI]. split; [|split].
      - rewrite EA, !map_app. apply NoDup_app_intro; [repeat constructor; intros []| |].
        + apply NoDup_app_intro; [exact TN|destruct (coid c); repeat constructor; intros []|].
          intros k Hk Hi. destruct (coid c); [|contradiction]. destruct Hi as [<-|[]].
          apply TI in Hk. revert Hk. apply not_tkey. vm_compute. reflexivity.
        + intros k [<-|[]] Hi. apply in_app_iff in Hi as [Hi|Hi].
          * apply TI in Hi. revert Hi. apply not_tkey. vm_compute. reflexivity.
          * destruct (coid c); [|contradiction]. destruct Hi as [Hi|[]]. revert Hi. vm_compute. discriminate.
      - intros key v Hin. rewrite EA in Hin. rewrite !in_app_iff in Hin. destruct Hin as [[Hin|[]]|[Hin|Hin]].
        + inversion Hin; subst. exists ABase. split; [reflexivity|exact RB].
        + destruct (transform_attrs_in _ _ _ TF Hin) as [Hk Hp]. exists ANum.
          split; [apply tkeys_num; exact Hk|exact Hp].
        + destruct (coid c) as [i|] eqn:EI; [|contradiction]. destruct Hin as [Hin|[]]. inversion Hin; subst.
          exists AIdent. split; [reflexivity|]. split; [reflexivity|exact RI].
      - intros r [<-|[]]. apply has_key_In. unfold has_key. change (s2l "base") with k_base. rewrite Lb. reflexivity. }
    assert (AI : attr_ident ats = oid (coid c)).
    { unfold attr_ident. change (s2l "identifier") with k_identifier. rewrite Li. destruct (coid c); reflexivity. }
    destruct (parse_component_complete pf 2 seen ats AO) as (c' & D & P).
    { rewrite AI. exact HF. }
    rewrite P, AI. unfold component_den in D. rewrite Lb, Lt, Li in D. inversion D; subst. reflexivity.
  Qed.

  (** points *)
  Lemma ptype_str_of t : ptype_of (ptype_str t) = Some t.
  Proof. destruct t; vm_compute; reflexivity. Qed.

  Definition point_written (p : point) : point :=
    mkPoint (px p) (py p) (ptyp p) (psmooth p) (pname p) (pid p) None.

  Lemma point_attrs p :
    point_rules p -> fl_finite (px p) = true -> fl_finite (py p) = true ->
    let ats := attrs_of (enc_point ff p) in
    attrs_ok pf 2 KPoint ats /\ point_den pf ats = Some (point_written p) /\ attr_ident ats = oid (pid p).
  Proof.
    intros (RN & RI & _) Fx Fy ats.
    assert (EA : ats = oattr k_name (pname p) ++ [(k_x, ff (px p)); (k_y, ff (py p))] ++
                       (match ptyp p with Off => [] | t => [(k_type, ptype_str t)] end) ++
                       cond_attr (psmooth p) k_smooth (s2l "yes") ++ oattr k_identifier (pid p)) by reflexivity.
    assert (Lx : lookup k_x ats = Some (ff (px p))).
    { rewrite EA. lk. reflexivity. }
    assert (Ly : lookup k_y ats = Some (ff (py p))).
    { rewrite EA. lk. reflexivity. }
    assert (Ln : lookup k_name ats = pname p).
    { rewrite EA. lk. destruct (pname p); [reflexivity|]. destruct (ptyp p); cbn [lookup]; keq; optcases. }
    assert (Li : lookup k_identifier ats = pid p).
    { rewrite EA. lk. destruct (ptyp p); cbn [lookup]; keq; optcases. }
    assert (Lt : spec_pt ats = (ptyp p, psmooth p)).
    { unfold spec_pt. change (s2l "type") with k_type. change (s2l "smooth") with k_smooth. rewrite EA. f_equal.
      - lk. destruct (ptyp p) eqn:ET; cbn [lookup]; keq;
          try (change (lookup k_type [(k_type, ?v)]) with (Some v));
          cbn [lookup]; rewrite ?str_eqb_refl; rewrite ?ptype_str_of; optcases.
      - lk. destruct (ptyp p); cbn [lookup]; keq; destruct (psmooth p); cbn [andb]; optcases. }
    split; [|split].
    - split; [|split].
      + rewrite EA. destruct (pname p), (ptyp p), (psmooth p), (pid p); cbn [oattr cond_attr app map fst];
          apply nodupb_spec; vm_compute; reflexivity.
      + intros key v Hin. rewrite EA in Hin. rewrite !in_app_iff in Hin. cbn [In] in Hin.
        destruct Hin as [Hin|[[Hin|[Hin|[]]]|[Hin|[Hin|Hin]]]].
        * destruct (pname p) as [n|] eqn:EN; [|contradiction]. destruct Hin as [Hin|[]]. inversion Hin; subst.
          exists AName. split; [reflexivity|exact RN].
        * inversion Hin; subst. exists ANum. split; [reflexivity|]. cbn [val_ok]. rewrite (H_ff _ Fx). discriminate.
        * inversion Hin; subst. exists ANum. split; [reflexivity|]. cbn [val_ok]. rewrite (H_ff _ Fy). discriminate.
        * exists APType. destruct (ptyp p) eqn:ET; try contradiction; destruct Hin as [Hin|[]]; inversion Hin; subst;
            (split; [reflexivity|]); cbn [val_ok]; vm_compute; discriminate.
        * apply in_cond_attr in Hin as [-> ->]. exists ASmooth. split; [reflexivity|exact I].
        * destruct (pid p) as [i|] eqn:EI; [|contradiction]. destruct Hin as [Hin|[]]. inversion Hin; subst.
          exists AIdent. split; [reflexivity|]. split; [reflexivity|exact RI].
      + intros r [<-|[<-|[]]]; apply has_key_In; unfold has_key;
          [change (s2l "x") with k_x; rewrite Lx|change (s2l "y") with k_y; rewrite Ly]; reflexivity.
    - unfold point_den, num_at. rewrite Lx, Ly, (H_ff _ Fx), (H_ff _ Fy), Ln, Li, Lt. reflexivity.
    - unfold attr_ident. change (s2l "identifier") with k_identifier. rewrite Li. destruct (pid p); reflexivity.
  Qed.

  Lemma tview_elements l : forallb is_element l = true -> tview l = l.
  Proof.
    induction l as [|n l IH]; [reflexivity|]. cbn [forallb]. intros H. apply andb_true_iff in H as [H1 H2].
    destruct n; try discriminate; cbn [tview]; rewrite IH by exact H2; reflexivity.
  Qed.

  (** contours: a legal, non-empty contour with valid points and fresh, distinct identifiers is read
      back with every point and the identifier in place (object libs travel through the glyph lib) *)
  Theorem contour_roundtrip c seen :
    contour_rules c ->
    Forall (fun p => fl_finite (px p) = true /\ fl_finite (py p) = true) (cpoints c) ->
    NoDup (gcids c) -> (forall i, In i (gcids c) -> ~ In i seen) ->
    parse_contour pf 2 seen (attrs_of (enc_contour ff c)) (kids_of (enc_contour ff c))
    = Ok (Some (mkContour (map point_written (cpoints c)) (cid c) None), rev (gcids c) ++ seen).
  Proof.
    intros (NE & LG & PR & RI & _) FN ND HF.
    unfold enc_contour, attrs_of, kids_of; cbn [as_elem].
    set (kids := map (enc_point ff) (cpoints c)).
    assert (TV : tview kids = kids).
    { apply tview_elements. subst kids. clear. induction (cpoints c); [reflexivity|]. cbn. assumption. }
    assert (PA : forall p, In p (cpoints c) ->
                 let ats := attrs_of (enc_point ff p) in
                 attrs_ok pf 2 KPoint ats /\ point_den pf ats = Some (point_written p) /\ attr_ident ats = oid (pid p)).
    { intros p Hp. rewrite Forall_forall in PR, FN. destruct (FN p Hp). apply point_attrs; auto. }
    assert (NP : npids kids = gpids (cpoints c)).
    { subst kids. unfold npids, gpids. clear - PA. induction (cpoints c) as [|p l IH]; [reflexivity|].
      cbn [map flat_map]. rewrite (proj2 (proj2 (PA p (or_introl eq_refl)))), IH; [reflexivity|].
      intros; apply PA; right; assumption. }
    assert (AI : attr_ident (oattr k_identifier (cid c)) = oid (cid c)).
    { unfold attr_ident. change (s2l "identifier") with k_identifier. rewrite lookup_oattr, str_eqb_refl.
      destruct (cid c); reflexivity. }
    assert (SP : map (fun n => spec_pt (attrs_of n)) kids = map pt_of (cpoints c)).
    { subst kids. rewrite map_map. clear - PA. induction (cpoints c) as [|p l IH]; [reflexivity|]. cbn [map].
      rewrite IH by (intros; apply PA; right; assumption). f_equal.
      destruct (PA p (or_introl eq_refl)) as (_ & D & _). cbn zeta in D.
      set (ats := attrs_of (enc_point ff p)) in *. unfold point_den in D.
      destruct (num_at pf k_x ats), (num_at pf k_y ats); inversion D as [[E1 E2 E3 E4 E5 E6]].
      unfold pt_of. rewrite <- E3, <- E4. apply surjective_pairing. }
    destruct (parse_contour_complete pf 2 seen (oattr k_identifier (cid c)) kids) as (pts & FP & P).
    - split; [|split].
      + destruct (cid c); repeat constructor. intros [].
      + intros key v Hin. destruct (cid c) as [i|] eqn:EI; [|contradiction]. destruct Hin as [Hin|[]].
        inversion Hin; subst. exists AIdent. split; [reflexivity|]. split; [reflexivity|exact RI].
      + intros r [].
    - discriminate.
    - rewrite TV. subst kids. apply Forall_forall. intros n Hn. apply in_map_iff in Hn as (p & <- & Hp).
      exists (s2l "point"), (attrs_of (enc_point ff p)). split; [reflexivity|]. split; [reflexivity|].
      apply PA; exact Hp.
    - rewrite TV, SP. exact LG.
    - rewrite TV, AI, NP. exact ND.
    - rewrite TV, AI, NP. exact HF.
    - rewrite P, TV, AI, NP. f_equal. f_equal.
      assert (EP : pts = map point_written (cpoints c)).
      { rewrite TV in FP. subst kids. clear - FP PA. revert pts FP.
        induction (cpoints c) as [|p l IH]; intros pts FP; inversion FP as [|? q ? pts' D F2]; subst; [reflexivity|].
        cbn [map]. rewrite (proj1 (proj2 (PA p (or_introl eq_refl)))) in D. inversion D; subst.
        f_equal. apply IH; [intros; apply PA; right; assumption|exact F2]. }
      rewrite EP. destruct (cpoints c) as [|p l]; [contradiction|]. cbn [map].
      rewrite lookup_oattr, str_eqb_refl. reflexivity.
  Qed.

  (** guidelines *)
  Definition line_finite (l : line) : Prop :=
    match l with
    | LVert x => fl_finite x = true
    | LHoriz y => fl_finite y = true
    | LAngle x y d => fl_finite x = true /\ fl_finite y = true /\ fl_finite d = true
    end.
  Theorem guideline_roundtrip g seen :
    guide_rules g -> line_finite (gline g) ->
    (forall i, In i (oid (guid g)) -> ~ In i seen) ->
    exists g', parse_guideline pf 2 seen (attrs_of (enc_guideline ff ff3 g)) = Ok (g', rev (oid (guid g)) ++ seen) /\
      gline g' = gline g /\ guname g' = guname g /\ guid g' = guid g /\ gulib g' = None /\
      ocolor_close (gcolor g) (gcolor g').
  Proof.
    intros (RL & RN & RC & RI & _) FL HF.
    set (ats := attrs_of (enc_guideline ff ff3 g)).
    destruct (color_attr_ok (gcolor g) RC) as [CO CC].
    set (mid := match gline g with
                | LVert x => [(k_x, ff x)]
                | LHoriz y => [(k_y, ff y)]
                | LAngle x y d => [(k_x, ff x); (k_y, ff y); (k_angle, ff d)]
                end).
    assert (EA : ats = oattr k_name (guname g) ++ mid ++ oattr k_color (option_map (color_str ff3) (gcolor g)) ++
                       oattr k_identifier (guid g)) by reflexivity.
    assert (Ln : lookup k_name ats = guname g).
    { rewrite EA. subst mid. lk. destruct (guname g); [reflexivity|]. destruct (gline g); cbn [lookup]; keq; optcases. }
    assert (Lc : lookup k_color ats = option_map (color_str ff3) (gcolor g)).
    { rewrite EA. subst mid. lk. destruct (gline g); cbn [lookup]; keq; optcases. }
    assert (Li : lookup k_identifier ats = guid g).
    { rewrite EA. subst mid. lk. destruct (gline g); cbn [lookup]; keq; optcases. }
    assert (Lm : forall key, In key [k_x; k_y; k_angle] -> lookup key ats = lookup key mid).
    { intros key Hk. rewrite EA, !lookup_app, !lookup_oattr.
      assert (E1 : str_eqb key k_name = false) by (destruct Hk as [<-|[<-|[<-|[]]]]; vm_compute; reflexivity).
      assert (E2 : str_eqb key k_color = false) by (destruct Hk as [<-|[<-|[<-|[]]]]; vm_compute; reflexivity).
      assert (E3 : str_eqb key k_identifier = false) by (destruct Hk as [<-|[<-|[<-|[]]]]; vm_compute; reflexivity).
      rewrite E1, E2, E3. destruct (lookup key mid); reflexivity. }
    assert (AO : attrs_ok pf 2 KGuideline ats).
    { split; [|split].
      - rewrite EA. subst mid. destruct (guname g), (gline g), (option_map (color_str ff3) (gcolor g)), (guid g);
          cbn [oattr app map fst]; apply nodupb_spec; vm_compute; reflexivity.
      - intros key v Hin. rewrite EA in Hin. rewrite !in_app_iff in Hin.
        destruct Hin as [Hin|[Hin|[Hin|Hin]]].
        + destruct (guname g) as [n|] eqn:EN; [|contradiction]. destruct Hin as [Hin|[]]. inversion Hin; subst.
          exists AName. split; [reflexivity|exact RN].
        + subst mid. destruct (gline g) as [x|y|x y d]; cbn [line_finite line_rules] in *.
          * destruct Hin as [Hin|[]]. inversion Hin; subst. exists ANum. split; [reflexivity|].
            cbn [val_ok]. rewrite (H_ff _ FL). discriminate.
          * destruct Hin as [Hin|[]]. inversion Hin; subst. exists ANum. split; [reflexivity|].
            cbn [val_ok]. rewrite (H_ff _ FL). discriminate.
          * destruct FL as (F1 & F2 & F3). destruct Hin as [Hin|[Hin|[Hin|[]]]]; inversion Hin; subst.
            -- exists ANum. split; [reflexivity|]. cbn [val_ok]. rewrite (H_ff _ F1). discriminate.
            -- exists ANum. split; [reflexivity|]. cbn [val_ok]. rewrite (H_ff _ F2). discriminate.
            -- exists AAngle. split; [reflexivity|]. cbn [val_ok]. exists d. rewrite (H_ff _ F3). tauto.
        + destruct (option_map (color_str ff3) (gcolor g)) as [cv|] eqn:EC; [|contradiction].
          destruct Hin as [Hin|[]]. inversion Hin; subst. exists AColor. split; [reflexivity|]. apply CO. reflexivity.
        + destruct (guid g) as [i|] eqn:EI; [|contradiction]. destruct Hin as [Hin|[]]. inversion Hin; subst.
          exists AIdent. split; [reflexivity|]. split; [reflexivity|exact RI].
      - intros r []. }
    assert (SH : guideline_shape ats).
    { unfold guideline_shape, has_key. change (s2l "x") with k_x. change (s2l "y") with k_y.
      change (s2l "angle") with k_angle. rewrite !Lm by (cbn; tauto). subst mid.
      destruct (gline g); cbn [lookup]; keq; cbn [lookup]; tauto. }
    assert (AI : attr_ident ats = oid (guid g)).
    { unfold attr_ident. change (s2l "identifier") with k_identifier. rewrite Li. destruct (guid g); reflexivity. }
    destruct (parse_guideline_complete pf 2 seen ats AO SH) as (g' & D & P).
    { rewrite AI. exact HF. }
    exists g'. rewrite P, AI. split; [reflexivity|].
    unfold guideline_den, num_at, color_at in D. rewrite !Lm, Ln, Lc, Li in D by (cbn; tauto). subst mid.
    destruct (gline g) as [x|y|x y d]; cbn [line_finite] in FL; cbn [lookup] in D; revert D; keq; cbn [lookup];
      [rewrite (H_ff _ FL)|rewrite (H_ff _ FL)|destruct FL as (F1 & F2 & F3); rewrite (H_ff _ F1), (H_ff _ F2), (H_ff _ F3)];
      intros D; inversion D; subst g'; cbn [gline guname guid gulib gcolor]; repeat split; auto.
  Qed.

  (** images *)
  Theorem image_roundtrip i seen :
    image_rules i -> transform_finite (itrans i) ->
    exists i', parse_image pf 2 seen (attrs_of (enc_image ff ff3 i)) = Ok i' /\
      ifile i' = ifile i /\ itrans i' = transform_written (itrans i) /\ ocolor_close (icolor i) (icolor i').
  Proof.
    intros (RF & RC) TF.
    set (ats := attrs_of (enc_image ff ff3 i)).
    destruct (color_attr_ok (icolor i) RC) as [CO CC].
    assert (EA : ats = [(k_fileName, ifile i)] ++ transform_attrs ff (itrans i) ++
                       oattr k_color (option_map (color_str ff3) (icolor i))) by reflexivity.
    assert (Lf : lookup k_fileName ats = Some (ifile i)).
    { rewrite EA. cbn [app lookup]. rewrite str_eqb_refl. reflexivity. }
    assert (Lc : lookup k_color ats = option_map (color_str ff3) (icolor i)).
    { rewrite EA. rewrite !lookup_app. cbn [lookup]. keq.
      rewrite (transform_attrs_other _ k_color) by (apply not_tkey; vm_compute; reflexivity).
      rewrite lookup_oattr, str_eqb_refl. reflexivity. }
    assert (Lt : transform_at pf ats = transform_written (itrans i)).
    { rewrite EA. apply transform_at_written; [exact TF| |].
      - intros key Hk. cbn [lookup]. replace (str_eqb key k_fileName) with false; [reflexivity|].
        symmetry. apply str_eqb_neq. intros ->. revert Hk. apply not_tkey. vm_compute. reflexivity.
      - intros key Hk. rewrite lookup_oattr. replace (str_eqb key k_color) with false; [reflexivity|].
        symmetry. apply str_eqb_neq. intros ->. revert Hk. apply not_tkey. vm_compute. reflexivity. }
    assert (AO : attrs_ok pf 2 KImage ats).
    { destruct (transform_keys (itrans i)) as [TN TI]. split; [|split].
      - rewrite EA, !map_app. apply NoDup_app_intro; [repeat constructor; intros []| |].
        + apply NoDup_app_intro; [exact TN|destruct (option_map _ _); repeat constructor; intros []|].
          intros k Hk Hi. destruct (option_map (color_str ff3) (icolor i)); [|contradiction]. destruct Hi as [<-|[]].
          apply TI in Hk. revert Hk. apply not_tkey. vm_compute. reflexivity.
        + intros k [<-|[]] Hi. apply in_app_iff in Hi as [Hi|Hi].
          * apply TI in Hi. revert Hi. apply not_tkey. vm_compute. reflexivity.
          * destruct (option_map (color_str ff3) (icolor i)); [|contradiction]. destruct Hi as [Hi|[]].
            revert Hi. vm_compute. discriminate.
      - intros key v Hin. rewrite EA in Hin. rewrite !in_app_iff in Hin. destruct Hin as [[Hin|[]]|[Hin|Hin]].
        + inversion Hin; subst. exists AFile. split; [reflexivity|exact RF].
        + destruct (transform_attrs_in _ _ _ TF Hin) as [Hk Hp]. exists ANum.
          split; [apply tkeys_num; exact Hk|exact Hp].
        + destruct (option_map (color_str ff3) (icolor i)) as [cv|] eqn:EC; [|contradiction].
          destruct Hin as [Hin|[]]. inversion Hin; subst. exists AColor. split; [reflexivity|]. apply CO. reflexivity.
      - intros r [<-|[]]. apply has_key_In. unfold has_key. change (s2l "fileName") with k_fileName. rewrite Lf. reflexivity. }
    destruct (parse_image_complete pf 2 seen ats AO) as (i' & P). exists i'. split; [exact P|].
    (* what it returns: by soundness of the loop, the denotation *)
    unfold parse_image in P.
    destruct (attr_loop pf 2 KImage false seen [] ats) as [[st seen1]| |] eqn:L; cbn [bind] in P; try discriminate.
    apply loop0 in L as (F2 & _ & _ & _).
    pose proof (store_lookup pf 2 KImage ats st k_fileName F2) as HL. rewrite Lf in HL.
    destruct (lookup k_fileName st) as [x|]; [|discriminate]. destruct HL as (v & ty & La & Lty & PR).
    inversion La; subst v. vm_compute in Lty. inversion Lty; subst ty. cbn [pv_rel] in PR. subst x.
    rewrite RF in P. inversion P; subst i'. cbn [ifile itrans icolor].
    rewrite (get_color_den pf 2 KImage ats st F2 eq_refl),
            (get_transform_den pf 2 KImage ats st F2)
      by (intros key [<-|[<-|[<-|[<-|[<-|[<-|[]]]]]]]; reflexivity).
    unfold color_at. rewrite Lc, Lt. repeat split; auto.
  Qed.

  (* ---------- lib text ---------- *)
  (** a lib string (or key) is read back as its re-indented text: equal to the original exactly
      when it holds no line break or the indent width is 0 *)
  Theorem lib_string_roundtrip s :
    leaf_value pf n_string (text_kids (reindent o s)) = Some (PStr (reindent o s)).
  Proof.
    unfold leaf_value. rewrite str_eqb_refl. cbn [orb]. unfold text_kids.
    destruct (reindent o s); cbn [content]; rewrite ?app_nil_r; reflexivity.
  Qed.
  Theorem lib_string_roundtrip_iff s :
    leaf_value pf n_string (text_kids (reindent o s)) = Some (PStr s) <-> (~ In 10 s \/ o_count o = 0%nat).
  Proof.
    rewrite lib_string_roundtrip, <- reindent_id_iff. split; [intros H; inversion H; congruence|intros ->; reflexivity].
  Qed.
End Codec.


(* ---------- the options do not matter when no lib text holds a line break ---------- *)
Section Options.
  Variable ff : fl -> str.
  Variable fi : Z -> str.

  Lemma no_newline_spec s : no_newline s = true -> ~ In 10 s.
  Proof.
    unfold no_newline. intros H Hin. apply negb_true_iff in H.
    assert (existsb (N.eqb 10) s = true); [|congruence]. apply existsb_exists. exists 10. split; [exact Hin|reflexivity].
  Qed.

  Lemma pv_node_plain o1 o2 : forall v, pv_plain v = true -> pv_node ff fi o1 v = pv_node ff fi o2 v.
  Proof.
    fix IH 1. intros [s|z|x|b|b|s|l|d]; cbn [pv_plain pv_node]; intros H; try reflexivity.
    - apply no_newline_spec in H. rewrite !reindent_no_newline by exact H. reflexivity.
    - destruct l as [|v l]; [reflexivity|]. f_equal.
      revert H. generalize (v :: l). clear v l. intros l. induction l as [|v l IHl]; [reflexivity|].
      cbn [forallb map]. intros H. apply andb_true_iff in H as [H1 H2]. f_equal; [apply IH; exact H1|apply IHl; exact H2].
    - assert (A : forall d0 : dict,
                forallb (fun kx => let '(k, x) := kx in no_newline k && pv_plain x) d0 = true ->
                dict_nodes o1 (pv_node ff fi o1) d0 = dict_nodes o2 (pv_node ff fi o2) d0).
      { induction d0 as [|[k x] d0 IHd]; [reflexivity|]. cbn [forallb dict_nodes]. intros H0.
        apply andb_true_iff in H0 as [H0 H3]. apply andb_true_iff in H0 as [H1 H2].
        apply no_newline_spec in H1. rewrite !reindent_no_newline by exact H1.
        f_equal. f_equal; [apply IH; exact H2|apply IHd; exact H3]. }
      destruct d as [|kx d]; [reflexivity|]. f_equal. exact (A (kx :: d) H).
  Qed.

  Variable ff3 : fl -> str.
  Variable fh : N -> str.
  (** the write options reach the written tree only through the lib text: two option sets give
      the same tree whenever the dictionary handed to the printer holds no line break *)
  Theorem encode_options_irrelevant o1 o2 g :
    (forall lib, written_lib g = Ok lib -> pv_plain (PDict (sort_keys_rec lib)) = true) ->
    encode_glif ff ff3 fi fh o1 g = encode_glif ff ff3 fi fh o2 g.
  Proof.
    intros H. unfold encode_glif, enc_lib. destruct (written_lib g) as [lib| |]; cbn [bind]; try reflexivity.
    destruct lib as [|kv lib]; [reflexivity|]. cbn [bind].
    rewrite (pv_node_plain o1 o2 _ (H _ eq_refl)). reflexivity.
  Qed.
End Options.

(* ---------- contours without points are not written ---------- *)
Lemma filter_idem {A} (f : A -> bool) l : filter f (filter f l) = filter f l.
Proof.
  induction l as [|x l IH]; [reflexivity|]. cbn [filter]. destruct (f x) eqn:E; [|exact IH].
  cbn [filter]. rewrite E, IH. reflexivity.
Qed.
(** the writer's output does not depend on the empty contours of the glyph — for ALL glyphs *)
Theorem encode_drop_empty ff ff3 fi fh o g :
  encode_glif ff ff3 fi fh o (drop_empty g) = encode_glif ff ff3 fi fh o g.
Proof.
  unfold encode_glif, enc_lib, written_lib, dump_object_libs, enc_outline, drop_empty.
  cbn [gname gwidth gheight gcps gnote gimage gguides ganchors gcomps gcontours glib].
  rewrite !filter_idem. reflexivity.
Qed.
