(** Proofs about the font info model: [fi_validate], [fi_save], [fi_load] accept exactly the
    infos that satisfy the declarative specification [fi_spec]; [fi_specb] decides it. *)
Require Import Norad.Model.FontInfo.
From Coq Require Import Sorting.Sorted Ascii.
Open Scope N_scope.

(** ---------- helpers ---------- *)
Lemma list_eqb_eq : forall a b : list N, list_eqb N.eqb a b = true <-> a = b.
Proof.
  induction a as [|x a IH]; destruct b as [|y b]; cbn [list_eqb]; split; intros H;
    try reflexivity; try discriminate.
  - apply andb_true_iff in H. destruct H as [H1 H2]. apply N.eqb_eq in H1. apply IH in H2. congruence.
  - injection H as -> ->. rewrite N.eqb_refl. cbn [andb]. apply IH. reflexivity.
Qed.
Lemma str_eqb_eq : forall a b : str, str_eqb a b = true <-> a = b.
Proof. exact list_eqb_eq. Qed.
Lemma existsb_str_In : forall (id : str) l, existsb (str_eqb id) l = true <-> In id l.
Proof.
  intros id l. rewrite existsb_exists. split.
  - intros [x [Hx He]]. apply str_eqb_eq in He. subst. exact Hx.
  - intros H. exists id. split; [exact H|apply str_eqb_eq; reflexivity].
Qed.
Lemma existsb_N_In : forall (b : N) l, existsb (N.eqb b) l = true <-> In b l.
Proof.
  intros b l. rewrite existsb_exists. split.
  - intros [x [Hx He]]. apply N.eqb_eq in He. subst. exact Hx.
  - intros H. exists b. split; [exact H|apply N.eqb_refl].
Qed.

Lemma on_some_ok : forall A (f : A -> vres) (P : A -> Prop) (o : option A),
  (forall a, f a = Ok tt <-> P a) -> (on_some o f = Ok tt <-> opt_ok P o).
Proof.
  intros A f P [a|] H; unfold on_some, opt_ok.
  - rewrite H. split; [intros Hp b [= <-]; exact Hp|intros Hp; apply Hp; reflexivity].
  - split; [intros _ b Hb; discriminate|reflexivity].
Qed.
Lemma optb_ok : forall A (f : A -> bool) (P : A -> Prop) (o : option A),
  (forall a, f a = true <-> P a) -> (optb f o = true <-> opt_ok P o).
Proof.
  intros A f P [a|] H; unfold optb, opt_ok.
  - rewrite H. split; [intros Hp b [= <-]; exact Hp|intros Hp; apply Hp; reflexivity].
  - split; [intros _ b Hb; discriminate|reflexivity].
Qed.

(** ---------- date ---------- *)
Lemma is_digitb_spec : forall b, is_digitb b = true <-> is_digit b.
Proof.
  intros b. unfold is_digitb, is_digit. rewrite andb_true_iff, !N.leb_le. reflexivity.
Qed.
Lemma digit_char_ok : forall b, is_digit b -> date_char_ok b = true.
Proof. intros b H. unfold date_char_ok. apply is_digitb_spec in H. rewrite H. reflexivity. Qed.
Lemma date_char_ok_not_plus : forall b, date_char_ok b = true -> b <> 43.
Proof. intros b H ->. vm_compute in H. discriminate. Qed.

Lemma date_char_ascii : forall b, date_char_ok b = true -> b < 128.
Proof.
  intros b H. unfold date_char_ok, DATE_SEPS, is_digitb, SEP_SPACE, SEP_SLASH, SEP_COLON in H. cbn [existsb] in H.
  rewrite !orb_true_iff, andb_true_iff, !N.leb_le, !N.eqb_eq in H. lia.
Qed.
Lemma boundary_ascii : forall v k, forallb date_char_ok v = true -> (k <= length v)%nat -> is_boundary v k = true.
Proof.
  intros v k H Hk. unfold is_boundary. destruct (nth_error v k) as [c|] eqn:E.
  - apply nth_error_In in E. rewrite forallb_forall in H. apply H in E. apply date_char_ascii in E.
    apply negb_true_iff. apply andb_false_iff. left. apply N.leb_gt. exact E.
  - apply nth_error_None in E. apply Nat.eqb_eq. lia.
Qed.
(** once every character passed the date character test the bytes are ASCII, so the slices of
    the date rule meet no char-boundary panic *)
Lemma slice_ok : forall v a b, forallb date_char_ok v = true -> (a <= b)%nat -> (b <= length v)%nat ->
  slice v a b = Some (firstn (b - a) (skipn a v)).
Proof.
  intros v a b H Hab Hb. unfold slice.
  rewrite (boundary_ascii v a H) by lia. rewrite (boundary_ascii v b H) by lia.
  rewrite (proj2 (Nat.leb_le a b) Hab), (proj2 (Nat.leb_le b (length v)) Hb). reflexivity.
Qed.
Ltac sl HA := rewrite (slice_ok _ _ _ HA) by (cbn [length]; lia); cbn [Nat.sub firstn skipn]; reflexivity.

Fixpoint dval (acc : N) (bs : list N) : N :=
  match bs with [] => acc | b :: r => dval (acc * 10 + (b - 48)) r end.
Lemma dval_ge : forall bs acc, acc <= dval acc bs.
Proof.
  induction bs as [|b r IH]; intros acc; cbn [dval]; [lia|].
  specialize (IH (acc * 10 + (b - 48))). lia.
Qed.
Lemma pdigits_spec : forall max bs acc x, acc <= max ->
  (pdigits max acc bs = Some x <-> (Forall is_digit bs /\ x = dval acc bs /\ dval acc bs <= max)).
Proof.
  intros max. induction bs as [|b r IH]; intros acc x Hacc; cbn [pdigits dval].
  - split.
    + intros [= <-]. repeat split; [constructor|exact Hacc].
    + intros [_ [-> _]]. reflexivity.
  - destruct (is_digitb b) eqn:Hd.
    + apply is_digitb_spec in Hd.
      destruct (acc * 10 + (b - 48) <=? max) eqn:Hle.
      * apply N.leb_le in Hle. rewrite (IH _ x Hle). split.
        -- intros [HF HR]. split; [constructor; assumption|exact HR].
        -- intros [HF HR]. inversion HF; subst. split; assumption.
      * apply N.leb_gt in Hle. split; [discriminate|].
        intros [_ [_ Hb]]. pose proof (dval_ge r (acc * 10 + (b - 48))). lia.
    + split; [discriminate|]. intros [HF _]. inversion HF as [|? ? Hb]; subst.
      apply is_digitb_spec in Hb. congruence.
Qed.
Lemma parse_uint_spec : forall max a r x, a <> 43 ->
  (parse_uint max (a :: r) = Some x <->
   (Forall is_digit (a :: r) /\ x = dval 0 (a :: r) /\ dval 0 (a :: r) <= max)).
Proof.
  intros max a r x Ha. unfold parse_uint.
  destruct (a =? 43) eqn:E; [apply N.eqb_eq in E; contradiction|].
  apply pdigits_spec. lia.
Qed.

(** two-digit and four-digit fields *)
Lemma parse2 : forall max a b x, 99 <= max -> date_char_ok a = true ->
  (parse_uint max [a; b] = Some x <-> is_digit a /\ is_digit b /\ x = two a b).
Proof.
  intros max a b x Hm Ha. rewrite parse_uint_spec by (apply date_char_ok_not_plus; exact Ha).
  cbn [dval]. unfold two. split.
  - intros [HF [-> _]]. inversion HF as [|? ? H1 HF']; subst. inversion HF' as [|? ? H2 _]; subst.
    unfold is_digit in *. repeat split; lia.
  - intros [H1 [H2 ->]]. split; [repeat (constructor; [assumption|]); constructor|unfold is_digit in *; split; lia].
Qed.
Lemma parse4 : forall a b c d, date_char_ok a = true ->
  ((exists x, parse_uint U16_MAX [a; b; c; d] = Some x) <-> Forall is_digit [a; b; c; d]).
Proof.
  intros a b c d Ha. split.
  - intros [x H]. apply parse_uint_spec in H; [tauto|apply date_char_ok_not_plus; exact Ha].
  - intros HF. exists (dval 0 [a; b; c; d]).
    apply parse_uint_spec; [apply date_char_ok_not_plus; exact Ha|].
    split; [exact HF|split; [reflexivity|]].
    inversion HF as [|? ? H1 HF1]; subst. inversion HF1 as [|? ? H2 HF2]; subst.
    inversion HF2 as [|? ? H3 HF3]; subst. inversion HF3 as [|? ? H4 _]; subst.
    unfold is_digit in *. cbn [dval]. unfold U16_MAX. lia.
Qed.

Lemma dsteps_ok : forall v ss,
  dsteps_run v ss = Ok tt <-> Forall (fun s => dstep_run v s = Some true) ss.
Proof.
  intros v. induction ss as [|s r IH]; cbn [dsteps_run].
  - split; [constructor|reflexivity].
  - destruct (dstep_run v s) as [[|]|] eqn:E.
    + rewrite IH. split; [intros H; constructor; [exact E|exact H]|intros H; inversion H; assumption].
    + split; [discriminate|intros H; inversion H; congruence].
    + split; [discriminate|intros H; inversion H; congruence].
Qed.
Definition step_hi (s : dstep) : nat :=
  match s with DAny _ b _ | DSep _ b _ | DRange _ b _ _ _ | DBelow _ b _ _ => b end.
Definition step_lo (s : dstep) : nat :=
  match s with DAny a _ _ | DSep a _ _ | DRange a _ _ _ _ | DBelow a _ _ _ => a end.
Lemma dsteps_no_panic : forall v ss k, forallb date_char_ok v = true ->
  Forall (fun s => (step_lo s <= step_hi s <= length v)%nat) ss -> dsteps_run v ss <> Panic k.
Proof.
  intros v ss k HA. induction ss as [|s r IH]; intros HF; cbn [dsteps_run]; [discriminate|].
  inversion HF as [|? ? Hs HF']; subst.
  assert (Hsl : dstep_run v s <> None).
  { destruct s; cbn [dstep_run step_hi step_lo] in *; rewrite (slice_ok _ _ _ HA) by lia; cbn; discriminate. }
  destruct (dstep_run v s) as [[|]|]; [apply IH; exact HF'|discriminate|contradiction].
Qed.

Lemma dsep_ok : forall v a b c t, slice v a b = Some t ->
  (dstep_run v (DSep a b c) = Some true <-> t = [c]).
Proof.
  intros v a b c t H. cbn [dstep_run]. rewrite H. cbn [option_map].
  split; [intros [= E]; apply str_eqb_eq; exact E|intros ->; f_equal; apply str_eqb_eq; reflexivity].
Qed.
Lemma dany_ok : forall v a b max t, slice v a b = Some t ->
  (dstep_run v (DAny a b max) = Some true <-> exists x, parse_uint max t = Some x).
Proof.
  intros v a b max t H. cbn [dstep_run]. rewrite H. cbn [option_map].
  destruct (parse_uint max t) as [x|]; split; intros H1; try discriminate.
  - exists x. reflexivity.
  - reflexivity.
  - destruct H1 as [x Hx]. discriminate.
Qed.
Lemma drange_ok : forall v a b max lo hi t, slice v a b = Some t ->
  (dstep_run v (DRange a b max lo hi) = Some true <->
   exists x, parse_uint max t = Some x /\ lo <= x <= hi).
Proof.
  intros v a b max lo hi t H. cbn [dstep_run]. rewrite H. cbn [option_map].
  destruct (parse_uint max t) as [x|]; split; intros H1; try discriminate.
  - exists x. injection H1 as H1. apply andb_true_iff in H1. rewrite !N.leb_le in H1. tauto.
  - destruct H1 as [y [[= <-] Hy]]. f_equal. apply andb_true_iff. rewrite !N.leb_le. exact Hy.
  - destruct H1 as [y [Hy _]]. discriminate.
Qed.
Lemma dbelow_ok : forall v a b max lim t, slice v a b = Some t ->
  (dstep_run v (DBelow a b max lim) = Some true <-> exists x, parse_uint max t = Some x /\ x < lim).
Proof.
  intros v a b max lim t H. cbn [dstep_run]. rewrite H. cbn [option_map].
  destruct (parse_uint max t) as [x|]; split; intros H1; try discriminate.
  - exists x. injection H1 as H1. apply N.ltb_lt in H1. tauto.
  - destruct H1 as [y [[= <-] Hy]]. f_equal. apply N.ltb_lt. exact Hy.
  - destruct H1 as [y [Hy _]]. discriminate.
Qed.

Lemma u8_99 : 99 <= U8_MAX.
Proof. unfold U8_MAX. lia. Qed.

Lemma date_check_spec : forall v, date_check v = Ok tt <-> date_spec v.
Proof.
  intros v. split.
  - unfold date_check. destruct (length v =? DATE_LENGTH)%nat eqn:HL; [|discriminate]. cbn [negb].
    destruct (forallb date_char_ok v) eqn:HC; [|discriminate]. cbn [negb].
    intros HS. apply Nat.eqb_eq in HL.
    destruct v as [|b0 v]; [discriminate HL|]. destruct v as [|b1 v]; [discriminate HL|].
    destruct v as [|b2 v]; [discriminate HL|]. destruct v as [|b3 v]; [discriminate HL|].
    destruct v as [|b4 v]; [discriminate HL|]. destruct v as [|b5 v]; [discriminate HL|].
    destruct v as [|b6 v]; [discriminate HL|]. destruct v as [|b7 v]; [discriminate HL|].
    destruct v as [|b8 v]; [discriminate HL|]. destruct v as [|b9 v]; [discriminate HL|].
    destruct v as [|b10 v]; [discriminate HL|]. destruct v as [|b11 v]; [discriminate HL|].
    destruct v as [|b12 v]; [discriminate HL|]. destruct v as [|b13 v]; [discriminate HL|].
    destruct v as [|b14 v]; [discriminate HL|]. destruct v as [|b15 v]; [discriminate HL|].
    destruct v as [|b16 v]; [discriminate HL|]. destruct v as [|b17 v]; [discriminate HL|].
    destruct v as [|b18 v]; [discriminate HL|]. destruct v as [|b19 v]; [|discriminate HL]. clear HL.
    apply dsteps_ok in HS. unfold DATE_STEPS in HS. pose proof HC as HA.
    cbn [forallb] in HC. rewrite !andb_true_iff in HC.
    destruct HC as [C0 [C1 [C2 [C3 [C4 [C5 [C6 [C7 [C8 [C9 [C10 [C11 [C12 [C13 [C14 [C15 [C16 [C17 [C18 _]]]]]]]]]]]]]]]]]]].
    inversion HS as [|? ? S0 HS0]; subst; clear HS. inversion HS0 as [|? ? S1 HS1]; subst; clear HS0.
    inversion HS1 as [|? ? S2 HS2]; subst; clear HS1. inversion HS2 as [|? ? S3 HS3]; subst; clear HS2.
    inversion HS3 as [|? ? S4 HS4]; subst; clear HS3. inversion HS4 as [|? ? S5 HS5]; subst; clear HS4.
    inversion HS5 as [|? ? S6 HS6]; subst; clear HS5. inversion HS6 as [|? ? S7 HS7]; subst; clear HS6.
    inversion HS7 as [|? ? S8 HS8]; subst; clear HS7. inversion HS8 as [|? ? S9 HS9]; subst; clear HS8.
    inversion HS9 as [|? ? S10 _]; subst; clear HS9.
    eapply dany_ok in S0; [|sl HA]. apply (parse4 _ _ _ _ C0) in S0.
    eapply dsep_ok in S1; [|sl HA].
    eapply drange_ok in S2; [|sl HA]. destruct S2 as [x2 [P2 R2]].
    apply (parse2 _ _ _ _ u8_99 C5) in P2.
    eapply dsep_ok in S3; [|sl HA].
    eapply drange_ok in S4; [|sl HA]. destruct S4 as [x4 [P4 R4]].
    apply (parse2 _ _ _ _ u8_99 C8) in P4.
    eapply dsep_ok in S5; [|sl HA].
    eapply dbelow_ok in S6; [|sl HA]. destruct S6 as [x6 [P6 R6]].
    apply (parse2 _ _ _ _ u8_99 C11) in P6.
    eapply dsep_ok in S7; [|sl HA].
    eapply dbelow_ok in S8; [|sl HA]. destruct S8 as [x8 [P8 R8]].
    apply (parse2 _ _ _ _ u8_99 C14) in P8.
    eapply dsep_ok in S9; [|sl HA].
    eapply dbelow_ok in S10; [|sl HA]. destruct S10 as [x10 [P10 R10]].
    apply (parse2 _ _ _ _ u8_99 C17) in P10.
    injection S1 as ->. injection S3 as ->. injection S5 as ->. injection S7 as ->. injection S9 as ->.
    destruct P2 as [D5 [D6 ->]]. destruct P4 as [D8 [D9 ->]]. destruct P6 as [D11 [D12 ->]].
    destruct P8 as [D14 [D15 ->]]. destruct P10 as [D17 [D18 ->]].
    inversion S0 as [|? ? D0 S0a]; subst. inversion S0a as [|? ? D1 S0b]; subst.
    inversion S0b as [|? ? D2 S0c]; subst. inversion S0c as [|? ? D3 _]; subst.
    unfold date_spec. exists b0, b1, b2, b3, b5, b6, b8, b9, b11, b12, b14, b15, b17, b18.
    unfold SEP_SLASH, SEP_SPACE, SEP_COLON.
    split; [reflexivity|]. split; [repeat (constructor; [assumption|]); constructor|].
    unfold MONTH_MIN, MONTH_MAX, DAY_MIN, DAY_MAX, HOUR_LIM, MINUTE_LIM, SECOND_LIM in *.
    repeat split; lia.
  - intros (y1 & y2 & y3 & y4 & m1 & m2 & d1 & d2 & h1 & h2 & n1 & n2 & s1 & s2 & -> & HF & HM & HD & HH & HN & HS).
    inversion HF as [|? ? Dy1 F1]; subst. inversion F1 as [|? ? Dy2 F2]; subst.
    inversion F2 as [|? ? Dy3 F3]; subst. inversion F3 as [|? ? Dy4 F4]; subst.
    inversion F4 as [|? ? Dm1 F5]; subst. inversion F5 as [|? ? Dm2 F6]; subst.
    inversion F6 as [|? ? Dd1 F7]; subst. inversion F7 as [|? ? Dd2 F8]; subst.
    inversion F8 as [|? ? Dh1 F9]; subst. inversion F9 as [|? ? Dh2 F10]; subst.
    inversion F10 as [|? ? Dn1 F11]; subst. inversion F11 as [|? ? Dn2 F12]; subst.
    inversion F12 as [|? ? Ds1 F13]; subst. inversion F13 as [|? ? Ds2 _]; subst.
    assert (HA : forallb date_char_ok [y1; y2; y3; y4; 47; m1; m2; 47; d1; d2; 32; h1; h2; 58; n1; n2; 58; s1; s2] = true).
    { cbn [forallb].
      rewrite (digit_char_ok y1 Dy1), (digit_char_ok y2 Dy2), (digit_char_ok y3 Dy3), (digit_char_ok y4 Dy4), (digit_char_ok m1 Dm1), (digit_char_ok m2 Dm2), (digit_char_ok d1 Dd1), (digit_char_ok d2 Dd2), (digit_char_ok h1 Dh1), (digit_char_ok h2 Dh2), (digit_char_ok n1 Dn1), (digit_char_ok n2 Dn2), (digit_char_ok s1 Ds1), (digit_char_ok s2 Ds2).
      reflexivity. }
    unfold date_check. cbn [length Nat.eqb DATE_LENGTH negb]. rewrite HA. cbn [negb].
    apply dsteps_ok. unfold DATE_STEPS.
    unfold MONTH_MIN, MONTH_MAX, DAY_MIN, DAY_MAX, HOUR_LIM, MINUTE_LIM, SECOND_LIM, SEP_SLASH, SEP_SPACE, SEP_COLON.
    repeat apply Forall_cons; try apply Forall_nil.
    + eapply dany_ok; [sl HA|]. apply parse4; [apply digit_char_ok; assumption|].
      repeat (constructor; [assumption|]); constructor.
    + eapply dsep_ok; [sl HA|]. reflexivity.
    + eapply drange_ok; [sl HA|]. exists (two m1 m2). split; [|lia].
      apply parse2; [exact u8_99|apply digit_char_ok; assumption|tauto].
    + eapply dsep_ok; [sl HA|]. reflexivity.
    + eapply drange_ok; [sl HA|]. exists (two d1 d2). split; [|lia].
      apply parse2; [exact u8_99|apply digit_char_ok; assumption|tauto].
    + eapply dsep_ok; [sl HA|]. reflexivity.
    + eapply dbelow_ok; [sl HA|]. exists (two h1 h2). split; [|lia].
      apply parse2; [exact u8_99|apply digit_char_ok; assumption|tauto].
    + eapply dsep_ok; [sl HA|]. reflexivity.
    + eapply dbelow_ok; [sl HA|]. exists (two n1 n2). split; [|lia].
      apply parse2; [exact u8_99|apply digit_char_ok; assumption|tauto].
    + eapply dsep_ok; [sl HA|]. reflexivity.
    + eapply dbelow_ok; [sl HA|]. exists (two s1 s2). split; [|lia].
      apply parse2; [exact u8_99|apply digit_char_ok; assumption|tauto].
Qed.

Lemma date_check_no_panic : forall v k, date_check v <> Panic k.
Proof.
  intros v k. unfold date_check.
  destruct (length v =? DATE_LENGTH)%nat eqn:HL; [|discriminate]. cbn [negb].
  destruct (forallb date_char_ok v) eqn:HA; [|discriminate]. cbn [negb].
  apply dsteps_no_panic; [exact HA|]. apply Nat.eqb_eq in HL. rewrite HL. unfold DATE_STEPS, DATE_LENGTH.
  repeat apply Forall_cons; try apply Forall_nil; cbn [step_hi step_lo]; lia.
Qed.

Lemma date_specb_spec : forall v, date_specb v = true <-> date_spec v.
Proof.
  intros v. split.
  - unfold date_specb.
    destruct v as [|y1 v]; [discriminate|]. destruct v as [|y2 v]; [discriminate|].
    destruct v as [|y3 v]; [discriminate|]. destruct v as [|y4 v]; [discriminate|].
    destruct v as [|c1 v]; [discriminate|]. destruct v as [|m1 v]; [discriminate|].
    destruct v as [|m2 v]; [discriminate|]. destruct v as [|c2 v]; [discriminate|].
    destruct v as [|d1 v]; [discriminate|]. destruct v as [|d2 v]; [discriminate|].
    destruct v as [|c3 v]; [discriminate|]. destruct v as [|h1 v]; [discriminate|].
    destruct v as [|h2 v]; [discriminate|]. destruct v as [|c4 v]; [discriminate|].
    destruct v as [|n1 v]; [discriminate|]. destruct v as [|n2 v]; [discriminate|].
    destruct v as [|c5 v]; [discriminate|]. destruct v as [|s1 v]; [discriminate|].
    destruct v as [|s2 v]; [discriminate|]. destruct v as [|x v]; [|discriminate].
    cbn [forallb]. rewrite !andb_true_iff, !N.eqb_eq, !N.leb_le, !is_digitb_spec.
    intros H. decompose [and] H. subst.
    exists y1, y2, y3, y4, m1, m2, d1, d2, h1, h2, n1, n2, s1, s2.
    split; [reflexivity|]. split; [repeat (constructor; [assumption|]); constructor|].
    repeat split; assumption.
  - intros (y1 & y2 & y3 & y4 & m1 & m2 & d1 & d2 & h1 & h2 & n1 & n2 & s1 & s2 & -> & HF & HM & HD & HH & HN & HS).
    inversion HF as [|? ? Dy1 F1]; subst. inversion F1 as [|? ? Dy2 F2]; subst.
    inversion F2 as [|? ? Dy3 F3]; subst. inversion F3 as [|? ? Dy4 F4]; subst.
    inversion F4 as [|? ? Dm1 F5]; subst. inversion F5 as [|? ? Dm2 F6]; subst.
    inversion F6 as [|? ? Dd1 F7]; subst. inversion F7 as [|? ? Dd2 F8]; subst.
    inversion F8 as [|? ? Dh1 F9]; subst. inversion F9 as [|? ? Dh2 F10]; subst.
    inversion F10 as [|? ? Dn1 F11]; subst. inversion F11 as [|? ? Dn2 F12]; subst.
    inversion F12 as [|? ? Ds1 F13]; subst. inversion F13 as [|? ? Ds2 _]; subst.
    unfold date_specb. cbn [forallb].
    rewrite !andb_true_iff, !N.eqb_eq, !N.leb_le, !is_digitb_spec.
    unfold is_digit in *. repeat split; try reflexivity; lia.
Qed.

(** ---------- gasp ---------- *)
Lemma gasp_loop_spec : forall l a, gasp_loop a l = Ok tt <-> Sorted N.le (a :: l).
Proof.
  induction l as [|c r IH]; intros a; cbn [gasp_loop].
  - split; [intros _; repeat constructor|reflexivity].
  - destruct (c <? a) eqn:E.
    + apply N.ltb_lt in E. split; [discriminate|]. intros H. inversion H as [|? ? _ Hd]; subst.
      inversion Hd; subst. lia.
    + apply N.ltb_ge in E. rewrite IH. split.
      * intros H. constructor; [exact H|constructor; exact E].
      * intros H. inversion H; assumption.
Qed.
Lemma gasp_loop_no_panic : forall l a k, gasp_loop a l <> Panic k.
Proof.
  induction l as [|c r IH]; intros a k; cbn [gasp_loop]; [discriminate|].
  destruct (c <? a); [discriminate|apply IH].
Qed.
Lemma N_le_trans : Relations_1.Transitive N.le.
Proof. intros x y z. apply N.le_trans. Qed.
Lemma strongly_sorted_nth : forall l, StronglySorted N.le l <-> gasp_sorted l.
Proof.
  unfold gasp_sorted. induction l as [|x l IH].
  - split; [|constructor]. intros _ j k a b _ H. destruct j; discriminate.
  - split.
    + intros H. inversion H as [|? ? Hs Hf]; subst. intros j k a b Hjk Hj Hk.
      destruct k as [|k]; [lia|]. cbn [nth_error] in Hk. destruct j as [|j].
      * cbn [nth_error] in Hj. injection Hj as ->. rewrite Forall_forall in Hf. apply Hf.
        eapply nth_error_In. exact Hk.
      * cbn [nth_error] in Hj. pose proof (proj1 IH Hs) as Hs'. apply (Hs' j k); [lia|assumption|assumption].
    + intros H. constructor.
      * apply (proj2 IH). intros j k a b Hjk Hj Hk. apply (H (S j) (S k)); [lia|exact Hj|exact Hk].
      * apply Forall_forall. intros b Hb. apply In_nth_error in Hb. destruct Hb as [k Hk].
        apply (H O (S k)); [lia|reflexivity|exact Hk].
Qed.
Lemma gasp_check_spec : forall v, gasp_check v = Ok tt <-> gasp_sorted v.
Proof.
  intros v. rewrite <- strongly_sorted_nth. unfold gasp_check.
  destruct v as [|a [|b r]]; cbn [length Nat.ltb Nat.leb].
  - split; [constructor|reflexivity].
  - split; [repeat constructor|reflexivity].
  - rewrite gasp_loop_spec. split.
    + apply Sorted_StronglySorted. exact N_le_trans.
    + apply StronglySorted_Sorted.
Qed.
Lemma gasp_check_no_panic : forall v k, gasp_check v <> Panic k.
Proof.
  intros v k. unfold gasp_check. destruct v as [|a [|b r]]; cbn [length Nat.ltb Nat.leb]; try discriminate.
  apply gasp_loop_no_panic.
Qed.
Lemma gasp_sortedb_spec : forall v, gasp_sortedb v = true <-> gasp_sorted v.
Proof.
  intros v. rewrite <- strongly_sorted_nth. induction v as [|a r IH]; cbn [gasp_sortedb].
  - split; [constructor|reflexivity].
  - rewrite andb_true_iff, IH, forallb_forall. split.
    + intros [H1 H2]. constructor; [exact H2|]. apply Forall_forall. intros b Hb. apply N.leb_le. apply H1. exact Hb.
    + intros H. inversion H as [|? ? Hs Hf]; subst. split; [|exact Hs].
      intros b Hb. apply N.leb_le. rewrite Forall_forall in Hf. apply Hf. exact Hb.
Qed.

(** ---------- angles ---------- *)
Lemma pow2_pos : forall e, (0 <= e)%Z -> (0 < 2 ^ e)%Z.
Proof. intros e H. apply Z.pow_pos_nonneg; lia. Qed.
Lemma angle_ok_valueb : forall d, angle_ok d = fl_valueb_in_range d.
Proof.
  intros [n|n|neg m e]; try reflexivity. unfold angle_ok, fl_valueb_in_range, ANGLE_MAX.
  destruct (m =? 0) eqn:Em.
  - apply N.eqb_eq in Em. subst m. cbn [Z.of_N]. rewrite Z.mul_0_r, ?Z.mul_0_l.
    destruct (0 <=? e)%Z eqn:Ee; symmetry; apply andb_true_iff; split; apply Z.leb_le; try lia.
  - apply N.eqb_neq in Em. assert (Hm : (0 < Z.of_N m)%Z) by lia.
    destruct neg.
    + destruct (0 <=? e)%Z eqn:Ee; symmetry; apply andb_false_iff; left; apply Z.leb_gt.
      * apply Z.leb_le in Ee. assert (0 < 2 ^ e)%Z by (apply pow2_pos; lia). nia.
      * lia.
    + destruct (0 <=? e)%Z eqn:Ee.
      * apply Z.leb_le in Ee. assert (0 < 2 ^ e)%Z by (apply pow2_pos; lia).
        replace (0 <=? 1 * Z.of_N m * 2 ^ e)%Z with true by (symmetry; apply Z.leb_le; nia).
        cbn [andb]. f_equal. lia.
      * replace (0 <=? 1 * Z.of_N m)%Z with true by (symmetry; apply Z.leb_le; lia).
        cbn [andb]. f_equal. lia.
Qed.
Lemma valueb_spec : forall d, fl_valueb_in_range d = true <-> angle_spec d.
Proof.
  intros [n|n|neg m e]; unfold angle_spec, fl_valueb_in_range, fl_value.
  - split; [discriminate|intros [q [H _]]; discriminate].
  - split; [discriminate|intros [q [H _]]; discriminate].
  - set (s := (if neg then -1 else 1)%Z). destruct (0 <=? e)%Z eqn:Ee.
    + rewrite andb_true_iff, !Z.leb_le. split.
      * intros [H1 H2]. eexists. split; [reflexivity|]. unfold Qle. cbn [Qnum Qden inject_Z]. lia.
      * intros [q [[= <-] [H1 H2]]]. unfold Qle in *. cbn [Qnum Qden inject_Z] in *. lia.
    + apply Z.leb_gt in Ee. assert (Hp : (0 < 2 ^ (- e))%Z) by (apply pow2_pos; lia).
      rewrite andb_true_iff, !Z.leb_le. split.
      * intros [H1 H2]. eexists. split; [reflexivity|]. unfold Qle. cbn [Qnum Qden].
        rewrite Z2Pos.id by exact Hp. lia.
      * intros [q [[= <-] [H1 H2]]]. unfold Qle in *. cbn [Qnum Qden] in *.
        rewrite Z2Pos.id in H2 by exact Hp. lia.
Qed.
Lemma angle_ok_spec : forall d, angle_ok d = true <-> angle_spec d.
Proof. intros d. rewrite angle_ok_valueb. apply valueb_spec. Qed.
Lemma line_ok_spec : forall g, line_ok (g_line g) = true <-> guide_angle_spec g.
Proof.
  intros g. unfold guide_angle_spec, line_ok. destruct (g_line g) as [| |d].
  - split; [intros _ d H; discriminate|reflexivity].
  - split; [intros _ d H; discriminate|reflexivity].
  - rewrite angle_ok_spec. split; [intros H d' [= <-]; exact H|intros H; apply H; reflexivity].
Qed.
Lemma guide_angleb_spec : forall g, guide_angleb g = true <-> guide_angle_spec g.
Proof.
  intros g. rewrite <- line_ok_spec. unfold guide_angleb, line_ok.
  destruct (g_line g); try reflexivity. rewrite angle_ok_valueb. reflexivity.
Qed.

(** ---------- guidelines ---------- *)
Lemma guides_loop_spec : forall gs seen,
  guides_loop seen gs = Ok tt <->
  (Forall guide_angle_spec gs /\ NoDup (guide_ids gs) /\ forall id, In id (guide_ids gs) -> ~ In id seen).
Proof.
  induction gs as [|g r IH]; intros seen; cbn [guides_loop guide_ids flat_map].
  - split; [intros _; repeat split; [constructor|constructor|intros id []]|reflexivity].
  - fold (guide_ids r). destruct (line_ok (g_line g)) eqn:El; cbn [negb].
    + apply line_ok_spec in El. destruct (g_id g) as [id|] eqn:Eid; cbn [app].
      * destruct (existsb (str_eqb id) seen) eqn:Es.
        -- apply existsb_str_In in Es. split; [discriminate|]. intros [_ [_ H]].
           exfalso. apply (H id); [left; reflexivity|exact Es].
        -- assert (Hns : ~ In id seen).
           { intros Hin. apply existsb_str_In in Hin. congruence. }
           rewrite IH. split.
           ++ intros [HF [HN HS]]. split; [constructor; assumption|]. split.
              ** constructor; [|exact HN]. intros Hin. apply (HS id Hin). left. reflexivity.
              ** intros x [<-|Hx]; [exact Hns|]. intros Hin. apply (HS x Hx). right. exact Hin.
           ++ intros [HF [HN HS]]. inversion HF; subst. inversion HN as [|? ? Hni HN']; subst.
              split; [assumption|]. split; [assumption|].
              intros x Hx [<-|Hin]; [contradiction|]. apply (HS x); [right; exact Hx|exact Hin].
      * rewrite IH. split.
        -- intros [HF HR]. split; [constructor; assumption|exact HR].
        -- intros [HF HR]. inversion HF; subst. split; assumption.
    + split; [discriminate|]. intros [HF _]. inversion HF as [|? ? Hg _]; subst.
      apply line_ok_spec in Hg. congruence.
Qed.
Lemma guides_loop_no_panic : forall gs seen k, guides_loop seen gs <> Panic k.
Proof.
  induction gs as [|g r IH]; intros seen k; cbn [guides_loop]; [discriminate|].
  destruct (negb (line_ok (g_line g))); [discriminate|].
  destruct (g_id g) as [id|]; [|apply IH].
  destruct (existsb (str_eqb id) seen); [discriminate|apply IH].
Qed.
Lemma guides_check_spec : forall gs,
  guides_loop [] gs = Ok tt <-> (NoDup (guide_ids gs) /\ Forall guide_angle_spec gs).
Proof.
  intros gs. rewrite guides_loop_spec. split.
  - intros [H1 [H2 _]]. split; assumption.
  - intros [H1 H2]. split; [exact H2|]. split; [exact H1|]. intros id _ [].
Qed.
Lemma nodupb_spec : forall l, nodupb l = true <-> NoDup l.
Proof.
  induction l as [|a r IH]; cbn [nodupb].
  - split; [constructor|reflexivity].
  - rewrite andb_true_iff, negb_true_iff, IH. split.
    + intros [H1 H2]. constructor; [|exact H2]. intros Hin. apply existsb_str_In in Hin. congruence.
    + intros H. inversion H as [|? ? Hn Hr]; subst. split; [|exact Hr].
      destruct (existsb (str_eqb a) r) eqn:E; [|reflexivity]. apply existsb_str_In in E. contradiction.
Qed.

(** ---------- selection, class ---------- *)
Lemma selection_check_spec : forall v,
  existsb (contains v) BAD_BITS = false <-> selection_spec v.
Proof.
  intros v. unfold BAD_BITS, selection_spec, contains. cbn [existsb].
  rewrite !orb_false_iff. split.
  - intros [H0 [H5 [H6 _]]]. repeat split; intros Hin; apply existsb_N_In in Hin; congruence.
  - intros [H0 [H5 H6]]. repeat split;
      match goal with |- existsb ?f ?l = false =>
        destruct (existsb f l) eqn:E; [apply existsb_N_In in E; contradiction|reflexivity] end.
Qed.
Lemma selection_specb_spec : forall v, selection_specb v = true <-> selection_spec v.
Proof.
  intros v. unfold selection_specb, selection_spec. rewrite !andb_true_iff, !negb_true_iff. split.
  - intros [[H0 H5] H6]. repeat split; intros Hin; apply existsb_N_In in Hin; congruence.
  - intros [H0 [H5 H6]]. repeat split;
      match goal with |- existsb ?f ?l = false =>
        destruct (existsb f l) eqn:E; [apply existsb_N_In in E; contradiction|reflexivity] end.
Qed.

(** ---------- lists ---------- *)
Lemma even_div : forall n : nat, (n mod 2 =? 0)%nat = true <-> exists k, n = (2 * k)%nat.
Proof.
  intros n. rewrite Nat.eqb_eq. apply Nat.mod_divides. discriminate.
Qed.
Lemma list_check_pairs : forall name lim rep v,
  list_check (name, lim, rep, true) v = Ok tt <-> blues_spec lim v.
Proof.
  intros name lim rep v. unfold list_check, blues_spec. cbn [andb].
  destruct (lim <? length v)%nat eqn:E.
  - apply Nat.ltb_lt in E. split; [discriminate|]. intros [H _]. lia.
  - apply Nat.ltb_ge in E. destruct (length v mod 2 =? 0)%nat eqn:Ep; cbn [negb].
    + apply even_div in Ep. split; [intros _; split; assumption|reflexivity].
    + split; [discriminate|]. intros [_ H]. apply even_div in H. congruence.
Qed.
Lemma list_check_plain : forall name lim rep v,
  list_check (name, lim, rep, false) v = Ok tt <-> (length v <= lim)%nat.
Proof.
  intros name lim rep v. unfold list_check. cbn [andb].
  destruct (lim <? length v)%nat eqn:E.
  - apply Nat.ltb_lt in E. split; [discriminate|lia].
  - apply Nat.ltb_ge in E. split; [intros _; exact E|reflexivity].
Qed.
Lemma list_check_no_panic : forall sp v k, list_check sp v <> Panic k.
Proof.
  intros [[[name lim] rep] pairs] v k. unfold list_check.
  destruct (lim <? length v)%nat; [discriminate|]. destruct (pairs && _); discriminate.
Qed.
Lemma blues_specb_spec : forall max v, blues_specb max v = true <-> blues_spec max v.
Proof.
  intros max v. unfold blues_specb, blues_spec. rewrite andb_true_iff, Nat.leb_le, Nat.even_spec.
  reflexivity.
Qed.

(** ---------- WOFF ---------- *)
Definition item_spec (it : witem) : Prop := fst it <> 0%nat /\ snd it <> 0%nat.
Lemma items_loop_spec : forall items, items_loop items = Ok tt <-> Forall item_spec items.
Proof.
  induction items as [|[n v] r IH]; cbn [items_loop].
  - split; [constructor|reflexivity].
  - destruct ((n =? 0)%nat || (v =? 0)%nat) eqn:E.
    + split; [discriminate|]. intros H. inversion H as [|? ? [H1 H2] _]; subst. cbn [fst snd] in *.
      apply orb_true_iff in E. rewrite !Nat.eqb_eq in E. lia.
    + apply orb_false_iff in E. rewrite !Nat.eqb_neq in E. rewrite IH. split.
      * intros H. constructor; [exact E|exact H].
      * intros H. inversion H; assumption.
Qed.
Lemma items_loop_no_panic : forall items k, items_loop items <> Panic k.
Proof.
  induction items as [|[n v] r IH]; intros k; cbn [items_loop]; [discriminate|].
  destruct ((n =? 0)%nat || (v =? 0)%nat); [discriminate|apply IH].
Qed.
Definition record_spec (items : list witem) : Prop := items <> [] /\ Forall item_spec items.
Lemma wext_loop_spec : forall rs, wext_loop rs = Ok tt <-> Forall record_spec rs.
Proof.
  induction rs as [|items r IH]; cbn [wext_loop].
  - split; [constructor|reflexivity].
  - destruct items as [|it items'].
    + split; [discriminate|]. intros H. inversion H as [|? ? [Hn _] _]; subst. congruence.
    + destruct (items_loop (it :: items')) as [[]|e|s] eqn:E.
      * apply items_loop_spec in E. rewrite IH. split.
        -- intros H. constructor; [split; [discriminate|exact E]|exact H].
        -- intros H. inversion H; assumption.
      * split; [discriminate|]. intros H. inversion H as [|? ? [_ Hi] _]; subst.
        apply items_loop_spec in Hi. congruence.
      * exfalso. exact (items_loop_no_panic _ _ E).
Qed.
Lemma wext_loop_no_panic : forall rs k, wext_loop rs <> Panic k.
Proof.
  induction rs as [|items r IH]; intros k; cbn [wext_loop]; [discriminate|].
  destruct items as [|it items']; [discriminate|].
  destruct (items_loop (it :: items')) as [[]|e|s] eqn:E; [apply IH|discriminate|].
  exfalso. exact (items_loop_no_panic _ _ E).
Qed.
Lemma wext_check_spec : forall rs, wext_check rs = Ok tt <-> wext_spec rs.
Proof.
  intros rs. unfold wext_check, wext_spec. destruct rs as [|r rs'].
  - split; [discriminate|intros [H _]; congruence].
  - rewrite wext_loop_spec. split; [intros H; split; [discriminate|exact H]|intros [_ H]; exact H].
Qed.
Lemma wext_specb_spec : forall rs, wext_specb rs = true <-> wext_spec rs.
Proof.
  intros rs. unfold wext_specb, wext_spec. destruct rs as [|r rs'].
  - split; [discriminate|intros [H _]; congruence].
  - rewrite forallb_forall, Forall_forall. split.
    + intros H. split; [discriminate|]. intros items Hin. specialize (H items Hin).
      destruct items as [|it its]; [discriminate|]. split; [discriminate|].
      rewrite forallb_forall in H. apply Forall_forall. intros x Hx. specialize (H x Hx).
      apply andb_true_iff in H. rewrite !negb_true_iff, !Nat.eqb_neq in H. exact H.
    + intros [_ H] items Hin. specialize (H items Hin). destruct H as [Hn Hf].
      destruct items as [|it its]; [congruence|]. apply forallb_forall. intros x Hx.
      rewrite Forall_forall in Hf. specialize (Hf x Hx). apply andb_true_iff.
      rewrite !negb_true_iff, !Nat.eqb_neq. exact Hf.
Qed.
Lemma nonempty_check_spec : forall what n, nonempty_check what n = Ok tt <-> nonempty_spec n.
Proof.
  intros what n. unfold nonempty_check, nonempty_spec. destruct (n =? 0)%nat eqn:E.
  - apply Nat.eqb_eq in E. split; [discriminate|congruence].
  - apply Nat.eqb_neq in E. split; [intros _; exact E|reflexivity].
Qed.
Lemma nonemptyb_spec : forall n, negb (n =? 0)%nat = true <-> nonempty_spec n.
Proof. intros n. rewrite negb_true_iff, Nat.eqb_neq. reflexivity. Qed.

(** ---------- validate ---------- *)
Lemma run_rules_ok : forall rs i,
  run_rules rs i = Ok tt <-> Forall (fun r => rule_fn r i = Ok tt) rs.
Proof.
  induction rs as [|r rest IH]; intros i; cbn [run_rules].
  - split; [constructor|reflexivity].
  - destruct (rule_fn r i) as [[]|e|s] eqn:E.
    + rewrite IH. split; [intros H; constructor; [exact E|exact H]|intros H; inversion H; assumption].
    + split; [discriminate|intros H; inversion H; congruence].
    + split; [discriminate|intros H; inversion H; congruence].
Qed.

Theorem validate_iff_spec : forall i, fi_validate i = Ok tt <-> fi_spec i.
Proof.
  intros i. unfold fi_validate. rewrite run_rules_ok. unfold fi_rules, fi_spec.
  repeat rewrite Forall_cons_iff. unfold rule_fn. cbn [snd].
  unfold r_date, r_gasp, r_guides, r_selection, r_class.
  rewrite (on_some_ok _ _ _ (i_date i) date_check_spec).
  rewrite (on_some_ok _ _ _ (i_gasp i) gasp_check_spec).
  rewrite (on_some_ok _ _ _ (i_guides i) guides_check_spec).
  rewrite (on_some_ok _ _ selection_spec (i_selection i)).
  2:{ intros v. rewrite <- selection_check_spec. destruct (existsb (contains v) BAD_BITS); split; congruence. }
  rewrite (on_some_ok _ _ class_spec (i_class i)).
  2:{ intros [c s]. unfold class_spec, CLASS_MIN, CLASS_MAX, SUBCLASS_MIN, SUBCLASS_MAX. cbn [fst snd].
      destruct (((0 <=? c) && (c <=? 14)) && ((0 <=? s) && (s <=? 15))) eqn:E.
      - rewrite !andb_true_iff, !N.leb_le in E. split; [intros _; lia|reflexivity].
      - split; [discriminate|]. intros [H1 H2]. 
        assert (((0 <=? c) && (c <=? 14)) && ((0 <=? s) && (s <=? 15)) = true).
        { rewrite !andb_true_iff, !N.leb_le. lia. } congruence. }
  unfold L_BLUE, L_OBLUE, L_FBLUE, L_FOBLUE, L_STEMH, L_STEMV.
  rewrite (on_some_ok _ _ _ (i_blue i) (list_check_pairs _ _ _)).
  rewrite (on_some_ok _ _ _ (i_oblue i) (list_check_pairs _ _ _)).
  rewrite (on_some_ok _ _ _ (i_fblue i) (list_check_pairs _ _ _)).
  rewrite (on_some_ok _ _ _ (i_foblue i) (list_check_pairs _ _ _)).
  rewrite (on_some_ok _ _ _ (i_stemh i) (list_check_plain _ _ _)).
  rewrite (on_some_ok _ _ _ (i_stemv i) (list_check_plain _ _ _)).
  rewrite (on_some_ok _ _ _ (i_wext i) wext_check_spec).
  rewrite (on_some_ok _ _ _ (i_wcredits i) (nonempty_check_spec _)).
  rewrite (on_some_ok _ _ _ (i_wcopyright i) (nonempty_check_spec _)).
  rewrite (on_some_ok _ _ _ (i_wdescr i) (nonempty_check_spec _)).
  rewrite (on_some_ok _ _ _ (i_wtrade i) (nonempty_check_spec _)).
  unfold stems_spec.
  assert (HG : opt_ok (fun a => NoDup (guide_ids a) /\ Forall guide_angle_spec a) (i_guides i) <->
               opt_ok (fun gs => NoDup (guide_ids gs)) (i_guides i) /\ opt_ok (Forall guide_angle_spec) (i_guides i)).
  { unfold opt_ok. split.
    - intros H. split; intros a Ha; apply (H a Ha).
    - intros [H1 H2] a Ha. split; [apply (H1 a Ha)|apply (H2 a Ha)]. }
  rewrite HG. rewrite Forall_nil_iff. tauto.
Qed.

Theorem specb_spec : forall i, fi_specb i = true <-> fi_spec i.
Proof.
  intros i. unfold fi_specb, fi_spec. rewrite !andb_true_iff.
  rewrite (optb_ok _ _ _ (i_date i) date_specb_spec).
  rewrite (optb_ok _ _ _ (i_gasp i) gasp_sortedb_spec).
  rewrite (optb_ok _ _ (fun gs => NoDup (guide_ids gs)) (i_guides i)) by (intros gs; apply nodupb_spec).
  rewrite (optb_ok _ _ (Forall guide_angle_spec) (i_guides i)).
  2:{ intros gs. rewrite forallb_forall, Forall_forall. split; intros H g Hg; apply guide_angleb_spec; apply H; exact Hg. }
  rewrite (optb_ok _ _ _ (i_selection i) selection_specb_spec).
  rewrite (optb_ok _ _ class_spec (i_class i)).
  2:{ intros p. unfold class_spec. rewrite andb_true_iff, !N.leb_le. reflexivity. }
  rewrite (optb_ok _ _ _ (i_blue i) (blues_specb_spec 14)).
  rewrite (optb_ok _ _ _ (i_oblue i) (blues_specb_spec 10)).
  rewrite (optb_ok _ _ _ (i_fblue i) (blues_specb_spec 14)).
  rewrite (optb_ok _ _ _ (i_foblue i) (blues_specb_spec 10)).
  rewrite (optb_ok _ _ stems_spec (i_stemh i)) by (intros v; apply Nat.leb_le).
  rewrite (optb_ok _ _ stems_spec (i_stemv i)) by (intros v; apply Nat.leb_le).
  rewrite (optb_ok _ _ _ (i_wext i) wext_specb_spec).
  rewrite (optb_ok _ _ _ (i_wcredits i) nonemptyb_spec).
  rewrite (optb_ok _ _ _ (i_wcopyright i) nonemptyb_spec).
  rewrite (optb_ok _ _ _ (i_wdescr i) nonemptyb_spec).
  rewrite (optb_ok _ _ _ (i_wtrade i) nonemptyb_spec).
  tauto.
Qed.

(** ---------- no panic site of validate() is reachable ---------- *)
Lemma on_some_no_panic : forall A (f : A -> vres) (o : option A),
  (forall a k, f a <> Panic k) -> forall k, on_some o f <> Panic k.
Proof. intros A f [a|] H k; cbn [on_some]; [apply H|discriminate]. Qed.
Lemma run_rules_no_panic : forall rs i,
  Forall (fun r => forall k, rule_fn r i <> Panic k) rs -> forall k, run_rules rs i <> Panic k.
Proof.
  induction rs as [|r rest IH]; intros i HF k; cbn [run_rules]; [discriminate|].
  inversion HF as [|? ? Hr HF']; subst.
  destruct (rule_fn r i) as [[]|e|s] eqn:E; [apply IH; exact HF'|discriminate|].
  exfalso. exact (Hr s eq_refl).
Qed.
Theorem validate_no_panic : forall i k, fi_validate i <> Panic k.
Proof.
  intros i. apply run_rules_no_panic. unfold fi_rules.
  repeat (apply Forall_cons); try apply Forall_nil; unfold rule_fn; cbn [snd];
    try (apply on_some_no_panic; intros a k).
  - apply date_check_no_panic.
  - apply gasp_check_no_panic.
  - apply guides_loop_no_panic.
  - destruct (existsb (contains a) BAD_BITS); discriminate.
  - destruct a as [c s]. destruct (_ && _); discriminate.
  - apply list_check_no_panic.
  - apply list_check_no_panic.
  - apply list_check_no_panic.
  - apply list_check_no_panic.
  - apply list_check_no_panic.
  - apply list_check_no_panic.
  - unfold wext_check. destruct a; [discriminate|apply wext_loop_no_panic].
  - unfold nonempty_check. destruct (a =? 0)%nat; discriminate.
  - unfold nonempty_check. destruct (a =? 0)%nat; discriminate.
  - unfold nonempty_check. destruct (a =? 0)%nat; discriminate.
  - unfold nonempty_check. destruct (a =? 0)%nat; discriminate.
Qed.

(** the error reported is that of the first violated rule, in source order *)
Theorem first_error : forall i e,
  fi_validate i = Err e <->
  exists pre r post, fi_rules = (pre ++ r :: post)%list /\
    Forall (fun p => rule_fn p i = Ok tt) pre /\ rule_fn r i = Err e.
Proof.
  intros i e. unfold fi_validate. generalize fi_rules as rs.
  induction rs as [|r rest IH]; cbn [run_rules].
  - split; [discriminate|]. intros (pre & r & post & H & _). destruct pre; discriminate.
  - destruct (rule_fn r i) as [[]|e'|s] eqn:E.
    + rewrite IH. split.
      * intros (pre & r' & post & -> & HF & Hr). exists (r :: pre), r', post.
        split; [reflexivity|]. split; [constructor; assumption|exact Hr].
      * intros (pre & r' & post & Heq & HF & Hr). destruct pre as [|p pre].
        -- cbn [app] in Heq. injection Heq as <- <-. congruence.
        -- cbn [app] in Heq. injection Heq as <- ->. inversion HF; subst.
           exists pre, r', post. split; [reflexivity|]. split; assumption.
    + split.
      * intros [= <-]. exists [], r, rest. split; [reflexivity|]. split; [constructor|exact E].
      * intros (pre & r' & post & Heq & HF & Hr). destruct pre as [|p pre].
        -- cbn [app] in Heq. injection Heq as <- <-. congruence.
        -- cbn [app] in Heq. injection Heq as <- ->. inversion HF; subst. congruence.
    + split; [discriminate|].
      intros (pre & r' & post & Heq & HF & Hr). destruct pre as [|p pre].
      * cbn [app] in Heq. injection Heq as <- <-. congruence.
      * cbn [app] in Heq. injection Heq as <- ->. inversion HF; subst. congruence.
Qed.

(** ---------- save ---------- *)
Lemma ser_angles_spec : forall i, ser_angles_ok i = true <-> opt_ok (Forall guide_angle_spec) (i_guides i).
Proof.
  intros i. unfold ser_angles_ok, opt_ok. destruct (i_guides i) as [gs|].
  - rewrite forallb_forall. split.
    + intros H a [= <-]. apply Forall_forall. intros g Hg. apply line_ok_spec. apply H. exact Hg.
    + intros H g Hg. apply line_ok_spec. specialize (H gs eq_refl). rewrite Forall_forall in H. apply H. exact Hg.
  - split; [intros _ a H; discriminate|reflexivity].
Qed.
(** after validate() the serialiser's angle test cannot fail: save never fails late (F9 is gone) *)
Theorem save_never_late : forall i, fi_save i <> Err SSerialize.
Proof.
  intros i. unfold fi_save. destruct (fi_validate i) as [[]|e|s] eqn:E; try discriminate.
  apply validate_iff_spec in E. destruct E as (_ & _ & _ & HA & _). apply ser_angles_spec in HA.
  rewrite HA. discriminate.
Qed.
Theorem save_iff_spec : forall i, (exists j, fi_save i = Ok j) <-> fi_spec i.
Proof.
  intros i. split.
  - intros [j H]. unfold fi_save in H. destruct (fi_validate i) as [[]|e|s] eqn:E; try discriminate.
    apply validate_iff_spec. exact E.
  - intros H. exists i. unfold fi_save. rewrite (proj2 (validate_iff_spec i) H).
    destruct H as (_ & _ & _ & HA & _). apply ser_angles_spec in HA. rewrite HA. reflexivity.
Qed.
Theorem save_only_valid : forall i j, fi_save i = Ok j -> j = i /\ fi_spec j.
Proof.
  intros i j H. unfold fi_save in H. destruct (fi_validate i) as [[]|e|s] eqn:E; try discriminate.
  destruct (ser_angles_ok i); [|discriminate].
  injection H as <-. split; [reflexivity|apply validate_iff_spec; exact E].
Qed.
Theorem save_error_is_validate_error : forall i e,
  fi_save i = Err e <-> exists k, e = SInvalid k /\ fi_validate i = Err k.
Proof.
  intros i e. pose proof (save_never_late i) as HL. unfold fi_save in *.
  destruct (fi_validate i) as [[]|k|s] eqn:E.
  - destruct (ser_angles_ok i); [|congruence]. split; [discriminate|intros [k [_ H]]; discriminate].
  - split; [intros [= <-]; exists k; split; reflexivity|intros [k' [-> [= ->]]]; reflexivity].
  - split; [discriminate|intros [k' [_ H]]; discriminate].
Qed.

(** ---------- load ---------- *)
Theorem load_iff_spec : forall r,
  (exists i, fi_load r = Ok i) <-> (exists i, decode r = Some i /\ fi_spec i).
Proof.
  intros r. unfold fi_load. destruct (decode r) as [i|].
  - destruct (fi_validate i) as [[]|e|s] eqn:E.
    + split; intros _; [exists i; split; [reflexivity|apply validate_iff_spec; exact E]|exists i; reflexivity].
    + split; [intros [j H]; discriminate|]. intros [j [[= <-] H]]. apply validate_iff_spec in H. congruence.
    + split; [intros [j H]; discriminate|]. intros [j [[= <-] H]]. apply validate_iff_spec in H. congruence.
  - split; [intros [j H]; discriminate|intros [j [H _]]; discriminate].
Qed.
Theorem load_only_valid : forall r i, fi_load r = Ok i -> decode r = Some i /\ fi_spec i.
Proof.
  intros r i H. unfold fi_load in H. destruct (decode r) as [j|]; [|discriminate].
  destruct (fi_validate j) as [[]|e|s] eqn:E; try discriminate. injection H as <-.
  split; [reflexivity|apply validate_iff_spec; exact E].
Qed.
Theorem load_no_panic : forall r k, fi_load r <> Panic k.
Proof.
  intros r k. unfold fi_load. destruct (decode r) as [i|]; [|discriminate].
  destruct (fi_validate i) as [[]|e|s] eqn:E; try discriminate. exfalso. exact (validate_no_panic _ _ E).
Qed.

(** ---------- the typed deserialisers ---------- *)
Lemma uint_le_ex : forall max z, (exists n, uint_le max z = Some n) <-> is_uint max z.
Proof.
  intros max z. unfold uint_le, is_uint.
  destruct ((0 <=? z)%Z && (z <=? Z.of_N max)%Z) eqn:E.
  - apply andb_true_iff in E. rewrite !Z.leb_le in E. split; [intros _; exact E|intros _; eexists; reflexivity].
  - split; [intros [n H]; discriminate|]. intros H.
    assert ((0 <=? z)%Z && (z <=? Z.of_N max)%Z = true) by (apply andb_true_iff; rewrite !Z.leb_le; exact H).
    congruence.
Qed.
Lemma uint_le_val : forall max z n, uint_le max z = Some n -> n = Z.to_N z /\ is_uint max z.
Proof.
  intros max z n H. split; [|apply uint_le_ex; exists n; exact H].
  unfold uint_le in H. destruct (_ && _); [congruence|discriminate].
Qed.
Lemma mapM_ex : forall A B (f : A -> option B) l,
  (exists l', mapM f l = Some l') <-> Forall (fun a => exists b, f a = Some b) l.
Proof.
  intros A B f. induction l as [|a r IH]; cbn [mapM].
  - split; [constructor|intros _; eexists; reflexivity].
  - destruct (f a) as [b|] eqn:E.
    + destruct (mapM f r) as [bs|] eqn:Er.
      * split; [|intros _; eexists; reflexivity]. intros _. constructor; [exists b; exact E|].
        apply IH. exists bs. reflexivity.
      * split; [intros [l' H]; discriminate|]. intros H. inversion H as [|? ? _ Hr]; subst.
        apply IH in Hr. destruct Hr as [l' Hl]. discriminate.
    + split; [intros [l' H]; discriminate|]. intros H. inversion H as [|? ? [b Hb] _]; subst. congruence.
Qed.
Lemma mapM_length : forall A B (f : A -> option B) l l', mapM f l = Some l' -> length l' = length l.
Proof.
  intros A B f. induction l as [|a r IH]; intros l' H; cbn [mapM] in H.
  - injection H as <-. reflexivity.
  - destruct (f a) as [b|]; [|discriminate]. destruct (mapM f r) as [bs|] eqn:Er; [|discriminate].
    injection H as <-. cbn [length]. f_equal. apply IH. reflexivity.
Qed.
Lemma omap_ex : forall A B (f : A -> option B) o,
  (exists x, omap f o = Some x) <-> opt_ok (fun a => exists b, f a = Some b) o.
Proof.
  intros A B f [a|]; unfold omap, opt_ok.
  - destruct (f a) as [b|] eqn:E.
    + split; [intros _ a' [= <-]; exists b; exact E|intros _; eexists; reflexivity].
    + split; [intros [x H]; discriminate|]. intros H. destruct (H a eq_refl) as [b Hb]. congruence.
  - split; [intros _ a H; discriminate|intros _; eexists; reflexivity].
Qed.
Lemma opt_all_ok : forall A (f : A -> bool) (P : A -> Prop) (o : option A),
  (forall a, f a = true <-> P a) -> (opt_all f o = true <-> opt_ok P o).
Proof. exact optb_ok. Qed.
Lemma in_code_range_spec : forall lo hi z, in_code_range lo hi z = true <-> (lo <= z <= hi)%Z.
Proof. intros lo hi z. unfold in_code_range. rewrite andb_true_iff, !Z.leb_le. reflexivity. Qed.
Lemma panose_ok_spec : forall l,
  panose_ok l = true <-> (length l = 10%nat /\ Forall (is_uint U32_MAX) l).
Proof.
  intros l. unfold panose_ok. destruct (mapM (uint_le U32_MAX) l) as [v|] eqn:E.
  - pose proof (mapM_length _ _ _ _ _ E) as HL. rewrite Nat.eqb_eq, HL.
    assert (HF : Forall (is_uint U32_MAX) l).
    { assert (Hex : exists l', mapM (uint_le U32_MAX) l = Some l') by (exists v; exact E).
      apply mapM_ex in Hex. rewrite Forall_forall in *. intros z Hz. apply uint_le_ex. apply Hex. exact Hz. }
    tauto.
  - split; [discriminate|]. intros [_ HF].
    assert (Hex : exists l', mapM (uint_le U32_MAX) l = Some l').
    { apply mapM_ex. rewrite Forall_forall in *. intros z Hz. apply uint_le_ex. apply HF. exact Hz. }
    destruct Hex as [l' Hl]. congruence.
Qed.
Lemma gasp_of_ex : forall p,
  (exists n, gasp_of p = Some n) <-> (is_uint U32_MAX (fst p) /\ Forall (fun b => 0 <= b <= 3)%Z (snd p)).
Proof.
  intros p. unfold gasp_of. destruct (forallb (in_code_range 0 3) (snd p)) eqn:E.
  - rewrite uint_le_ex. rewrite forallb_forall in E. split; [|tauto]. intros H. split; [exact H|].
    apply Forall_forall. intros b Hb. apply in_code_range_spec. apply E. exact Hb.
  - split; [intros [n H]; discriminate|]. intros [_ HF].
    assert (forallb (in_code_range 0 3) (snd p) = true).
    { apply forallb_forall. intros b Hb. apply in_code_range_spec. rewrite Forall_forall in HF. apply HF. exact Hb. }
    congruence.
Qed.
Lemma guide_of_ex : forall g, (exists g', guide_of g = Some g') <-> rguide_shape g.
Proof.
  intros g. unfold guide_of, rguide_shape.
  destruct (rg_x g), (rg_y g), (rg_angle g) as [d|]; split; intros H;
    try (destruct H as [g' H]; discriminate);
    try (eexists; reflexivity);
    try (destruct H as [[? [? ?]]|[[? [? ?]]|[? [? [? ?]]]]]; discriminate).
  - right. right. repeat split; try reflexivity. exists d. reflexivity.
  - left. repeat split; reflexivity.
  - right. left. repeat split; reflexivity.
Qed.
Lemma class_of_ex : forall l,
  (exists p, class_of l = Some p) <-> (exists c s, l = [c; s] /\ is_uint U8_MAX c /\ is_uint U8_MAX s).
Proof.
  intros l. unfold class_of. split.
  - intros [p H]. destruct (mapM (uint_le U8_MAX) l) as [v|] eqn:E; [|discriminate].
    pose proof (mapM_length _ _ _ _ _ E) as HL.
    destruct v as [|c' [|s' [|x v']]]; try discriminate.
    destruct l as [|c [|s [|y l']]]; try discriminate. exists c, s. split; [reflexivity|].
    assert (Hex : exists l', mapM (uint_le U8_MAX) [c; s] = Some l') by (eexists; exact E).
    apply mapM_ex in Hex. inversion Hex as [|? ? Hc Hex']; subst. inversion Hex' as [|? ? Hs _]; subst.
    split; apply uint_le_ex; assumption.
  - intros (c & s & -> & Hc & Hs). apply uint_le_ex in Hc. apply uint_le_ex in Hs.
    destruct Hc as [c' Hc]. destruct Hs as [s' Hs]. cbn [mapM]. rewrite Hc, Hs. eexists. reflexivity.
Qed.

Theorem build_typed : forall r, (exists i, build r = Some i) <-> raw_typed r.
Proof.
  intros r. unfold build, raw_typed.
  destruct (r_hunknown r); [split; [intros [i H]; discriminate|intros [H _]; discriminate]|].
  rewrite <- (opt_all_ok _ _ _ (r_hpanose r) panose_ok_spec).
  rewrite <- (opt_all_ok _ _ _ (r_hwidth r) (in_code_range_spec 1 9)).
  rewrite <- (opt_all_ok _ _ _ (r_hcharset r) (in_code_range_spec 1 20)).
  rewrite <- (opt_all_ok _ fl_sign_positive (fun d => fl_sign_positive d = true) (r_hupm r)) by (intros a; reflexivity).
  assert (HU : forallb (fun z => match uint_le U32_MAX z with Some _ => true | None => false end) (r_hu32s r) = true
               <-> Forall (is_uint U32_MAX) (r_hu32s r)).
  { rewrite forallb_forall, Forall_forall. split; intros H z Hz; specialize (H z Hz).
    - apply uint_le_ex. destruct (uint_le U32_MAX z) as [n|]; [exists n; reflexivity|discriminate].
    - apply uint_le_ex in H. destruct H as [n ->]. reflexivity. }
  rewrite <- HU. clear HU.
  assert (HG : (exists x, omap (mapM gasp_of) (r_hgasp r) = Some x) <->
               opt_ok (Forall (fun p => is_uint U32_MAX (fst p) /\ Forall (fun b => 0 <= b <= 3)%Z (snd p))) (r_hgasp r)).
  { rewrite omap_ex. unfold opt_ok. split; intros H a Ha; specialize (H a Ha).
    - apply mapM_ex in H. rewrite Forall_forall in *. intros p Hp. apply gasp_of_ex. apply H. exact Hp.
    - apply mapM_ex. rewrite Forall_forall in *. intros p Hp. apply gasp_of_ex. apply H. exact Hp. }
  assert (HGu : (exists x, omap (mapM guide_of) (r_hguides r) = Some x) <-> opt_ok (Forall rguide_shape) (r_hguides r)).
  { rewrite omap_ex. unfold opt_ok. split; intros H a Ha; specialize (H a Ha).
    - apply mapM_ex in H. rewrite Forall_forall in *. intros p Hp. apply guide_of_ex. apply H. exact Hp.
    - apply mapM_ex. rewrite Forall_forall in *. intros p Hp. apply guide_of_ex. apply H. exact Hp. }
  assert (HS : (exists x, omap (mapM (uint_le U8_MAX)) (r_hselection r) = Some x) <-> opt_ok (Forall (is_uint U8_MAX)) (r_hselection r)).
  { rewrite omap_ex. unfold opt_ok. split; intros H a Ha; specialize (H a Ha).
    - apply mapM_ex in H. rewrite Forall_forall in *. intros p Hp. apply uint_le_ex. apply H. exact Hp.
    - apply mapM_ex. rewrite Forall_forall in *. intros p Hp. apply uint_le_ex. apply H. exact Hp. }
  assert (HC : (exists x, omap class_of (r_hclass r) = Some x) <->
               opt_ok (fun l => exists c s, l = [c; s] /\ is_uint U8_MAX c /\ is_uint U8_MAX s) (r_hclass r)).
  { rewrite omap_ex. unfold opt_ok. split; intros H a Ha; specialize (H a Ha); apply class_of_ex; exact H. }
  rewrite <- HG, <- HGu, <- HS, <- HC. clear HG HGu HS HC.
  destruct (opt_all panose_ok (r_hpanose r)); cbn [negb]; [|split; [intros [i H]; discriminate|intros H; decompose [and] H; discriminate]].
  destruct (opt_all (in_code_range 1 9) (r_hwidth r)); cbn [negb]; [|split; [intros [i H]; discriminate|intros H; decompose [and] H; discriminate]].
  destruct (opt_all (in_code_range 1 20) (r_hcharset r)); cbn [negb]; [|split; [intros [i H]; discriminate|intros H; decompose [and] H; discriminate]].
  destruct (forallb _ (r_hu32s r)); cbn [negb]; [|split; [intros [i H]; discriminate|intros H; decompose [and] H; discriminate]].
  destruct (opt_all fl_sign_positive (r_hupm r)); cbn [negb]; [|split; [intros [i H]; discriminate|intros H; decompose [and] H; discriminate]].
  destruct (omap (mapM gasp_of) (r_hgasp r)) as [g|].
  2:{ split; [intros [i H]; discriminate|]. intros H. decompose [and] H. destruct H6 as [x Hx]. discriminate. }
  destruct (omap (mapM guide_of) (r_hguides r)) as [gu|].
  2:{ split; [intros [i H]; discriminate|]. intros H. decompose [and] H. destruct H7 as [x Hx]. discriminate. }
  destruct (omap (mapM (uint_le U8_MAX)) (r_hselection r)) as [se|].
  2:{ split; [intros [i H]; discriminate|]. intros H. decompose [and] H. destruct H8 as [x Hx]. discriminate. }
  destruct (omap class_of (r_hclass r)) as [cl|].
  2:{ split; [intros [i H]; discriminate|]. intros H. decompose [and] H. destruct H10 as [x Hx]. discriminate. }
  split; [|intros _; eexists; reflexivity]. intros _.
  repeat split; try reflexivity; eexists; reflexivity.
Qed.

Theorem decode_spec : forall r i,
  decode r = Some i <-> (build r = Some i /\ opt_ok (Forall guide_angle_spec) (i_guides i)).
Proof.
  intros r i. unfold decode. destruct (build r) as [j|]; [|split; [discriminate|intros [H _]; discriminate]].
  assert (HA : deser_angles_ok j = true <-> opt_ok (Forall guide_angle_spec) (i_guides j)).
  { unfold deser_angles_ok. apply opt_all_ok. intros gs. rewrite forallb_forall, Forall_forall.
    split; intros H g Hg; apply line_ok_spec; apply H; exact Hg. }
  destruct (deser_angles_ok j).
  - split; [intros [= <-]; split; [reflexivity|apply HA; reflexivity]|intros [[= <-] _]; reflexivity].
  - split; [discriminate|]. intros [[= <-] H]. apply HA in H. discriminate.
Qed.

(** ---------- the file written for a value reads back as that value ---------- *)
Lemma uint_le_of_N : forall max n, n <= max -> uint_le max (Z.of_N n) = Some n.
Proof.
  intros max n H. unfold uint_le.
  replace ((0 <=? Z.of_N n)%Z && (Z.of_N n <=? Z.of_N max)%Z) with true.
  - rewrite N2Z.id. reflexivity.
  - symmetry. apply andb_true_iff. rewrite !Z.leb_le. lia.
Qed.
Lemma mapM_map_id : forall A B (f : A -> option B) (g : B -> A) (P : B -> Prop) l,
  (forall b, P b -> f (g b) = Some b) -> Forall P l -> mapM f (map g l) = Some l.
Proof.
  intros A B f g P l H. induction l as [|b r IH]; intros HF; cbn [map mapM]; [reflexivity|].
  inversion HF; subst. rewrite H by assumption. rewrite IH by assumption. reflexivity.
Qed.
Lemma guide_of_rguide_of : forall g, guide_of (rguide_of g) = Some g.
Proof. intros [[| |d] id]; reflexivity. Qed.

Theorem build_encode : forall i, info_wt i -> build (encode i) = Some i.
Proof.
  intros i (Hg & Hs & Hc). unfold build, encode.
  cbn [r_hunknown r_hpanose r_hwidth r_hcharset r_hu32s r_hupm r_hgasp r_hguides r_hselection r_hclass
       r_hdate r_hblue r_hoblue r_hfblue r_hfoblue r_hstemh r_hstemv r_hwext r_hwcredits r_hwcopyright
       r_hwdescr r_hwtrade opt_all forallb negb].
  assert (E1 : omap (mapM gasp_of) (option_map (map (fun p => (Z.of_N p, @nil Z))) (i_gasp i)) = Some (i_gasp i)).
  { destruct (i_gasp i) as [l|] eqn:E; [|reflexivity]. cbn [option_map omap].
    rewrite (mapM_map_id _ _ gasp_of (fun p => (Z.of_N p, [])) (fun p => p <= U32_MAX) l); [reflexivity| |apply Hg; reflexivity].
    intros b Hb. unfold gasp_of. cbn [fst snd forallb]. apply uint_le_of_N. exact Hb. }
  assert (E2 : omap (mapM guide_of) (option_map (map rguide_of) (i_guides i)) = Some (i_guides i)).
  { destruct (i_guides i) as [l|]; [|reflexivity]. cbn [option_map omap].
    rewrite (mapM_map_id _ _ guide_of rguide_of (fun _ => True) l); [reflexivity| |apply Forall_forall; intros; exact I].
    intros b _. apply guide_of_rguide_of. }
  assert (E3 : omap (mapM (uint_le U8_MAX)) (option_map (map Z.of_N) (i_selection i)) = Some (i_selection i)).
  { destruct (i_selection i) as [l|] eqn:E; [|reflexivity]. cbn [option_map omap].
    rewrite (mapM_map_id _ _ (uint_le U8_MAX) Z.of_N (fun b => b <= U8_MAX) l); [reflexivity| |apply Hs; reflexivity].
    intros b Hb. apply uint_le_of_N. exact Hb. }
  assert (E4 : omap class_of (option_map (fun '(c, s) => [Z.of_N c; Z.of_N s]) (i_class i)) = Some (i_class i)).
  { destruct (i_class i) as [[c s]|] eqn:E; [|reflexivity]. cbn [option_map omap].
    destruct (Hc c s eq_refl) as [H1 H2]. unfold class_of. cbn [mapM].
    rewrite (uint_le_of_N _ _ H1), (uint_le_of_N _ _ H2). reflexivity. }
  rewrite E1, E2, E3, E4. destruct i; reflexivity.
Qed.

Theorem load_encode : forall i, info_wt i -> opt_ok (Forall guide_angle_spec) (i_guides i) ->
  fi_load (encode i) =
  match fi_validate i with Ok _ => Ok i | Err e => Err (LInvalid e) | Panic s => Panic s end.
Proof.
  intros i Hwt Ha. unfold fi_load.
  assert (E : decode (encode i) = Some i) by (apply decode_spec; split; [apply build_encode; exact Hwt|exact Ha]).
  rewrite E. reflexivity.
Qed.

(** the three entry points agree on every font info (with fields in the range of their Rust types) *)
Theorem entry_points_agree : forall i, info_wt i ->
  ((fi_validate i = Ok tt <-> exists j, fi_save i = Ok j) /\
   (fi_validate i = Ok tt <-> exists j, fi_load (encode i) = Ok j)) /\
  (forall j, fi_save i = Ok j -> fi_load (encode j) = Ok i).
Proof.
  intros i Hwt. split; [split|].
  - rewrite save_iff_spec. apply validate_iff_spec.
  - rewrite load_iff_spec, validate_iff_spec. split.
    + intros H. exists i. split; [|exact H]. apply decode_spec. split; [apply build_encode; exact Hwt|].
      destruct H as (_ & _ & _ & H & _). exact H.
    + intros [j [Hd Hs]]. apply decode_spec in Hd. destruct Hd as [Hb _].
      rewrite (build_encode i Hwt) in Hb. injection Hb as <-. exact Hs.
  - intros j H. apply save_only_valid in H. destruct H as [-> Hs].
    rewrite load_encode; [|exact Hwt|destruct Hs as (_ & _ & _ & H & _); exact H].
    apply validate_iff_spec in Hs. rewrite Hs. reflexivity.
Qed.

(** every rule returns only the error kinds it is declared with (ties [fi_rules]' signatures,
    which the anchors compare with the source, to the rule functions) *)
Lemma on_some_err : forall A (f : A -> vres) (o : option A) e,
  on_some o f = Err e -> exists a, o = Some a /\ f a = Err e.
Proof. intros A f [a|] e H; cbn [on_some] in H; [exists a; split; [reflexivity|exact H]|discriminate]. Qed.
Lemma dsteps_err : forall v ss e, dsteps_run v ss = Err e -> e = EDate.
Proof.
  intros v. induction ss as [|s r IH]; intros e H; cbn [dsteps_run] in H; [discriminate|].
  destruct (dstep_run v s) as [[|]|]; [apply IH; exact H|congruence|discriminate].
Qed.
Lemma gasp_loop_err : forall l a e, gasp_loop a l = Err e -> e = EGasp.
Proof.
  induction l as [|c r IH]; intros a e H; cbn [gasp_loop] in H; [discriminate|].
  destruct (c <? a); [congruence|apply (IH _ _ H)].
Qed.
Lemma guides_loop_err : forall gs seen e, guides_loop seen gs = Err e -> e = EAngle \/ e = EDupId.
Proof.
  induction gs as [|g r IH]; intros seen e H; cbn [guides_loop] in H; [discriminate|].
  destruct (negb (line_ok (g_line g))); [left; congruence|].
  destruct (g_id g) as [id|]; [|apply (IH _ _ H)].
  destruct (existsb (str_eqb id) seen); [right; congruence|apply (IH _ _ H)].
Qed.
Lemma items_loop_err : forall items e, items_loop items = Err e -> exists w, e = EWoff w.
Proof.
  induction items as [|[n v] r IH]; intros e H; cbn [items_loop] in H; [discriminate|].
  destruct ((n =? 0)%nat || (v =? 0)%nat); [injection H as <-; eexists; reflexivity|apply IH; exact H].
Qed.
Lemma wext_loop_err : forall rs e, wext_loop rs = Err e -> exists w, e = EWoff w.
Proof.
  induction rs as [|items r IH]; intros e H; cbn [wext_loop] in H; [discriminate|].
  destruct items as [|it its]; [injection H as <-; eexists; reflexivity|].
  destruct (items_loop (it :: its)) as [[]|e'|s] eqn:E; [apply IH; exact H| |discriminate].
  injection H as <-. apply (items_loop_err _ _ E).
Qed.
Lemma list_check_err : forall sp v e, list_check sp v = Err e ->
  err_name e = "InvalidPostscriptListLength" \/ (snd sp = true /\ err_name e = "PostscriptListMustBePairs").
Proof.
  intros [[[name lim] rep] pairs] v e H. unfold list_check in H.
  destruct (lim <? length v)%nat; [left; injection H as <-; reflexivity|].
  destruct pairs; cbn [andb] in H; [|discriminate].
  destruct (negb _); [right; injection H as <-; split; reflexivity|discriminate].
Qed.
Theorem rule_errors_declared : forall i e,
  Forall (fun r : rule => rule_fn r i = Err e -> In (err_name e) (snd (rule_sig r))) fi_rules.
Proof.
  intros i e. unfold fi_rules.
  repeat (apply Forall_cons); try apply Forall_nil; unfold rule_fn, rule_sig; cbn [fst snd]; intros H;
    apply on_some_err in H; destruct H as [a [_ H]].
  - unfold date_check in H. destruct (negb _); [injection H as <-; left; reflexivity|].
    destruct (negb _); [injection H as <-; left; reflexivity|]. apply dsteps_err in H. subst. left. reflexivity.
  - unfold gasp_check in H. destruct (1 <? length a)%nat; [|discriminate]. destruct a as [|x r]; [discriminate|].
    apply gasp_loop_err in H. subst. left. reflexivity.
  - apply guides_loop_err in H. destruct H as [-> | ->]; [left|right; left]; reflexivity.
  - destruct (existsb (contains a) BAD_BITS); [injection H as <-; left; reflexivity|discriminate].
  - destruct a as [c s]. destruct (_ && _); [discriminate|injection H as <-; left; reflexivity].
  - apply list_check_err in H. destruct H as [-> | [_ ->]]; [left|right; left]; reflexivity.
  - apply list_check_err in H. destruct H as [-> | [_ ->]]; [left|right; left]; reflexivity.
  - apply list_check_err in H. destruct H as [-> | [_ ->]]; [left|right; left]; reflexivity.
  - apply list_check_err in H. destruct H as [-> | [_ ->]]; [left|right; left]; reflexivity.
  - apply list_check_err in H. destruct H as [-> | [Hp _]]; [left; reflexivity|discriminate Hp].
  - apply list_check_err in H. destruct H as [-> | [Hp _]]; [left; reflexivity|discriminate Hp].
  - unfold wext_check in H. destruct a as [|x r]; [injection H as <-; left; reflexivity|].
    apply wext_loop_err in H. destruct H as [w ->]. left. reflexivity.
  - unfold nonempty_check in H. destruct (a =? 0)%nat; [injection H as <-; left; reflexivity|discriminate].
  - unfold nonempty_check in H. destruct (a =? 0)%nat; [injection H as <-; left; reflexivity|discriminate].
  - unfold nonempty_check in H. destruct (a =? 0)%nat; [injection H as <-; left; reflexivity|discriminate].
  - unfold nonempty_check in H. destruct (a =? 0)%nat; [injection H as <-; left; reflexivity|discriminate].
Qed.

(** ---------- example values and tactics for the non-vacuity examples of Props/C13.v ---------- *)
Definition bytes_of (s : string) : list N := map N_of_ascii (list_ascii_of_string s).
Definition no_info : info :=
  {| i_date := None; i_gasp := None; i_guides := None; i_selection := None; i_class := None;
     i_blue := None; i_oblue := None; i_fblue := None; i_foblue := None; i_stemh := None;
     i_stemv := None; i_wext := None; i_wcredits := None; i_wcopyright := None; i_wdescr := None;
     i_wtrade := None |}.
Definition with_date (s : string) : info :=
  {| i_date := Some (bytes_of s); i_gasp := None; i_guides := None; i_selection := None; i_class := None;
     i_blue := None; i_oblue := None; i_fblue := None; i_foblue := None; i_stemh := None;
     i_stemv := None; i_wext := None; i_wcredits := None; i_wcopyright := None; i_wdescr := None;
     i_wtrade := None |}.
Definition with_gasp (l : list N) : info :=
  {| i_date := None; i_gasp := Some l; i_guides := None; i_selection := None; i_class := None;
     i_blue := None; i_oblue := None; i_fblue := None; i_foblue := None; i_stemh := None;
     i_stemv := None; i_wext := None; i_wcredits := None; i_wcopyright := None; i_wdescr := None;
     i_wtrade := None |}.
Definition with_guides (l : list guide) : info :=
  {| i_date := None; i_gasp := None; i_guides := Some l; i_selection := None; i_class := None;
     i_blue := None; i_oblue := None; i_fblue := None; i_foblue := None; i_stemh := None;
     i_stemv := None; i_wext := None; i_wcredits := None; i_wcopyright := None; i_wdescr := None;
     i_wtrade := None |}.
Definition with_selection (l : list N) : info :=
  {| i_date := None; i_gasp := None; i_guides := None; i_selection := Some l; i_class := None;
     i_blue := None; i_oblue := None; i_fblue := None; i_foblue := None; i_stemh := None;
     i_stemv := None; i_wext := None; i_wcredits := None; i_wcopyright := None; i_wdescr := None;
     i_wtrade := None |}.
Definition with_class (c s : N) : info :=
  {| i_date := None; i_gasp := None; i_guides := None; i_selection := None; i_class := Some (c, s);
     i_blue := None; i_oblue := None; i_fblue := None; i_foblue := None; i_stemh := None;
     i_stemv := None; i_wext := None; i_wcredits := None; i_wcopyright := None; i_wdescr := None;
     i_wtrade := None |}.
(** the six PostScript lists with the given lengths *)
Definition zeros (n : nat) : option (list Z) := Some (repeat 0%Z n).
Definition with_lists (b ob fb fob sh sv : option (list Z)) : info :=
  {| i_date := None; i_gasp := None; i_guides := None; i_selection := None; i_class := None;
     i_blue := b; i_oblue := ob; i_fblue := fb; i_foblue := fob; i_stemh := sh;
     i_stemv := sv; i_wext := None; i_wcredits := None; i_wcopyright := None; i_wdescr := None;
     i_wtrade := None |}.
Definition with_woff (ext : option (list (list witem))) (cr co de tr : option nat) : info :=
  {| i_date := None; i_gasp := None; i_guides := None; i_selection := None; i_class := None;
     i_blue := None; i_oblue := None; i_fblue := None; i_foblue := None; i_stemh := None;
     i_stemv := None; i_wext := ext; i_wcredits := cr; i_wcopyright := co; i_wdescr := de;
     i_wtrade := tr |}.
Definition angle_guide (d : fl) : guide := {| g_line := LAngle d; g_id := None |}.
Definition id_guide (s : string) : guide := {| g_line := LVert; g_id := Some (bytes_of s) |}.
(** 360.0 and its two binary64 neighbours; the smallest negative number *)
Definition f360 : fl := FFin false 6333186975989760 (-44).
Definition f360_next : fl := FFin false 6333186975989761 (-44).
Definition f360_prev : fl := FFin false 12666373951979519 (-45).
Definition f_neg_eps : fl := FFin true 1 (-1074).

Ltac spec_yes := apply specb_spec; vm_compute; reflexivity.
Ltac spec_no := let H := fresh in intros H; apply specb_spec in H; vm_compute in H; discriminate.
Ltac ex_solve :=
  repeat match goal with |- _ /\ _ => split end;
  first [ reflexivity
        | match goal with |- fi_spec _ => spec_yes end
        | match goal with |- ~ fi_spec _ => spec_no end ].
Lemma ex_load :
  fi_load (encode (with_class 14 15)) = Ok (with_class 14 15) /\
  fi_load (encode (with_class 14 16)) = Err (LInvalid EClass) /\
  fi_load (encode (with_guides [angle_guide (FFin false 400 0)])) = Err LParse /\
  info_wt (with_class 14 15).
Proof.
  split; [reflexivity|]. split; [reflexivity|]. split; [reflexivity|].
  split; [intros l H; discriminate|]. split; [intros l H; discriminate|].
  intros c s H. injection H as <- <-. split; vm_compute; discriminate.
Qed.
