(** Proofs for C10: store writes commute; membership-only sets; order-independent folds. *)
Require Import Norad.Model.Base Norad.Model.Groups Norad.Model.StoreWrite Norad.Proofs.GroupsP.
Open Scope N_scope.

Lemma path_eqb_eq : forall a b : path, path_eqb a b = true <-> a = b.
Proof.
  unfold path_eqb. induction a as [|x a IH]; destruct b as [|y b]; cbn [list_eqb]; split; intro H;
    try reflexivity; try discriminate.
  - apply andb_true_iff in H. destruct H as [H1 H2]. apply str_eqb_eq in H1. apply IH in H2. congruence.
  - injection H as -> ->. apply andb_true_iff. split; [apply str_eqb_refl | apply IH; reflexivity].
Qed.
Lemma path_eqb_refl : forall a, path_eqb a a = true.
Proof. intro. apply path_eqb_eq. reflexivity. Qed.
Lemma path_eqb_sym : forall a b, path_eqb a b = path_eqb b a.
Proof.
  intros a b. destruct (path_eqb a b) eqn:E.
  - apply path_eqb_eq in E. subst. symmetry. apply path_eqb_refl.
  - destruct (path_eqb b a) eqn:E2; [|reflexivity]. apply path_eqb_eq in E2. subst. rewrite path_eqb_refl in E. discriminate.
Qed.

Lemma is_prefix_refl : forall a, is_prefix a a = true.
Proof. induction a as [|x a IH]; cbn [is_prefix]; [reflexivity|]. rewrite str_eqb_refl. exact IH. Qed.
Lemma is_prefix_app : forall a c, is_prefix a (a ++ c) = true.
Proof. induction a as [|x a IH]; intro c; cbn [is_prefix app]; [reflexivity|]. rewrite str_eqb_refl. apply IH. Qed.

Lemma parents_aux_prefix : forall p acc a, In a (parents_aux acc p) ->
  exists u v, p = u ++ v /\ a = acc ++ u /\ u <> [] /\ v <> [].
Proof.
  induction p as [|c r IH]; intros acc a I; cbn [parents_aux] in I; [destruct I|].
  destruct r as [|c2 r2]; [destruct I|]. destruct I as [<-|I].
  - exists [c], (c2 :: r2). repeat split; discriminate.
  - apply IH in I. destruct I as (u & v & E & -> & Hu & Hv). exists (c :: u), v.
    split; [cbn; rewrite E; reflexivity|]. split; [rewrite <- app_assoc; reflexivity|]. split; [discriminate | exact Hv].
Qed.
(** a parent of p is a proper prefix of p *)
Lemma parents_prefix : forall p a, In a (parents p) -> is_prefix a p = true /\ a <> p.
Proof.
  intros p a I. apply parents_aux_prefix in I. destruct I as (u & v & -> & -> & Hu & Hv). cbn [app]. split.
  - apply is_prefix_app.
  - intro E. rewrite <- (app_nil_r u) in E at 1. apply app_inv_head in E. congruence.
Qed.

Lemma is_dir_app : forall p x d fl, is_dir p (x ++ d, fl) = existsb (path_eqb p) x || is_dir p (d, fl).
Proof. intros. unfold is_dir. cbn [fst]. apply existsb_app. Qed.

Lemma fs_equiv_refl : forall a, fs_equiv a a.
Proof. intro a. split; reflexivity. Qed.
Lemma fs_equiv_sym : forall a b, fs_equiv a b -> fs_equiv b a.
Proof. intros a b [H1 H2]. split; intro p; symmetry; auto. Qed.
Lemma fs_equiv_trans : forall a b c, fs_equiv a b -> fs_equiv b c -> fs_equiv a c.
Proof. intros a b c [H1 H2] [H3 H4]. split; intro p; [rewrite H1; apply H3 | rewrite H2; apply H4]. Qed.
Lemma orel_refl : forall a, orel a a.
Proof. intros [a|]; cbn; [apply fs_equiv_refl | exact I]. Qed.
Lemma orel_trans : forall a b c, orel a b -> orel b c -> orel a c.
Proof.
  intros [a|] [b|] [c|]; cbn; try tauto. apply fs_equiv_trans.
Qed.

Lemma is_file_equiv : forall a b p, fs_equiv a b -> is_file p a = is_file p b.
Proof. intros a b p [_ H]. unfold is_file. rewrite H. reflexivity. Qed.

(** the outcome of one write depends on the tree only up to equivalence *)
Lemma write_entry_equiv : forall a b e, fs_equiv a b -> orel (write_entry a e) (write_entry b e).
Proof.
  intros a b e Eq. unfold write_entry.
  assert (existsb (fun x => is_file x a) (parents (fst e)) = existsb (fun x => is_file x b) (parents (fst e))) as ->.
  { induction (parents (fst e)) as [|x l IH]; cbn [existsb]; [reflexivity|]. rewrite (is_file_equiv a b x Eq), IH. reflexivity. }
  destruct Eq as [Hd Hf]. rewrite (Hd (fst e)).
  destruct (existsb _ _ || is_dir (fst e) b); cbn [orel]; [exact I|].
  split; intro p.
  - destruct a as [da fa], b as [db fb]. cbn [fst snd]. rewrite !is_dir_app. f_equal. apply (Hd p).
  - cbn [snd flookup]. destruct (path_eqb p (fst e)); [reflexivity | apply Hf].
Qed.
Lemma step_equiv : forall a b e, orel a b -> orel (step a e) (step b e).
Proof. intros [a|] [b|] e H; cbn in H |- *; try tauto. apply write_entry_equiv. exact H. Qed.
Lemma fold_step_equiv : forall l a b, orel a b -> orel (fold_left step l a) (fold_left step l b).
Proof. induction l as [|e l IH]; intros a b H; cbn [fold_left]; [exact H|]. apply IH. apply step_equiv. exact H. Qed.

Definition fails (s : fs) (e : path * bytes) : bool :=
  existsb (fun a => is_file a s) (parents (fst e)) || is_dir (fst e) s.

Lemma write_entry_fails : forall s e, write_entry s e = if fails s e then None else Some (parents (fst e) ++ fst s, (fst e, snd e) :: snd s).
Proof. reflexivity. Qed.

(** writing an independent entry first does not change whether a write fails *)
Lemma fails_after : forall s e1 e2, independent e1 e2 ->
  fails (parents (fst e1) ++ fst s, (fst e1, snd e1) :: snd s) e2 = fails s e2.
Proof.
  intros s e1 e2 [I12 I21]. unfold fails. f_equal.
  - assert (forall l, (forall a, In a l -> In a (parents (fst e2))) ->
      existsb (fun a => is_file a (parents (fst e1) ++ fst s, (fst e1, snd e1) :: snd s)) l = existsb (fun a => is_file a s) l) as H.
    { induction l as [|a l IH]; intro Sub; cbn [existsb]; [reflexivity|]. rewrite IH by (intros x Hx; apply Sub; right; exact Hx).
      f_equal. unfold is_file. cbn [snd flookup].
      destruct (path_eqb a (fst e1)) eqn:Q; [|reflexivity]. apply path_eqb_eq in Q. subst a.
      destruct (parents_prefix (fst e2) (fst e1) (Sub _ (or_introl eq_refl))) as [P _]. congruence. }
    apply H. auto.
  - destruct s as [d fl]. cbn [fst snd]. rewrite is_dir_app.
    assert (existsb (path_eqb (fst e2)) (parents (fst e1)) = false) as ->; [|reflexivity].
    destruct (existsb (path_eqb (fst e2)) (parents (fst e1))) eqn:Q; [|reflexivity].
    apply existsb_exists in Q. destruct Q as (x & Ix & Qx). apply path_eqb_eq in Qx. subst x.
    destruct (parents_prefix _ _ Ix) as [P _]. congruence.
Qed.

Lemma independent_sym : forall e1 e2, independent e1 e2 -> independent e2 e1.
Proof. intros e1 e2 [A B]. split; assumption. Qed.
Lemma independent_neq : forall e1 e2, independent e1 e2 -> path_eqb (fst e1) (fst e2) = false.
Proof.
  intros e1 e2 [A _]. destruct (path_eqb (fst e1) (fst e2)) eqn:Q; [|reflexivity].
  apply path_eqb_eq in Q. rewrite Q, is_prefix_refl in A. discriminate.
Qed.

(** two adjacent writes of independent entries commute *)
Lemma write_swap : forall s e1 e2, independent e1 e2 ->
  orel (step (write_entry s e1) e2) (step (write_entry s e2) e1).
Proof.
  intros s e1 e2 Ind. rewrite !write_entry_fails.
  destruct (fails s e1) eqn:F1; destruct (fails s e2) eqn:F2; cbn [step]; rewrite ?write_entry_fails;
    rewrite ?(fails_after s e1 e2 Ind), ?(fails_after s e2 e1 (independent_sym _ _ Ind)), ?F1, ?F2; cbn [orel]; try exact I.
  pose proof (independent_neq _ _ Ind) as N12.
  split; intro p; cbn [fst snd].
  - destruct s as [d fl]. cbn [fst]. rewrite !is_dir_app, !orb_assoc. f_equal. apply orb_comm.
  - cbn [flookup]. destruct (path_eqb p (fst e2)) eqn:Q2; destruct (path_eqb p (fst e1)) eqn:Q1; try reflexivity.
    apply path_eqb_eq in Q1. apply path_eqb_eq in Q2. rewrite Q1 in Q2. rewrite Q2, path_eqb_refl in N12. discriminate.
Qed.

Lemma prefix_free_perm : forall l l', Permutation l l' -> prefix_free l -> prefix_free l'.
Proof.
  unfold prefix_free. induction 1 as [|x l l' P IH|x y l|l l' l'' P1 IH1 P2 IH2]; intro H.
  - exact H.
  - inversion H as [|? ? Hx Hl]; subst. constructor; [|apply IH; exact Hl].
    exact (Permutation_Forall P Hx).
  - inversion H as [|? ? Hy Hxl]; subst. inversion Hxl as [|? ? Hx Hl]; subst.
    inversion Hy as [|? ? Hyx Hyl]; subst.
    constructor; [constructor; [apply independent_sym; exact Hyx | exact Hx]|]. constructor; assumption.
  - apply IH2, IH1, H.
Qed.

(** the tree written by the loop does not depend on the iteration order of the store *)
Theorem store_write_commutes_gen : forall l l', Permutation l l' -> prefix_free l ->
  forall a b, orel a b -> orel (fold_left step l a) (fold_left step l' b).
Proof.
  induction 1 as [|x l l' P IH|x y l|l l' l'' P1 IH1 P2 IH2]; intros PF a b R.
  - exact R.
  - cbn [fold_left]. inversion PF; subst. apply IH; [assumption | apply step_equiv; exact R].
  - cbn [fold_left]. apply fold_step_equiv.
    inversion PF as [|? ? Hy Hxl]; subst. inversion Hy as [|? ? Hyx Hyl]; subst.
    apply (orel_trans _ (step (step b y) x)).
    + apply step_equiv, step_equiv, R.
    + destruct b as [s|]; [|exact I]. cbn [step]. exact (write_swap s y x Hyx).
  - apply (orel_trans _ (fold_left step l' a)).
    + apply IH1; [exact PF | apply orel_refl].
    + apply IH2; [exact (prefix_free_perm _ _ P1 PF) | exact R].
Qed.

Theorem store_write_commutes : forall l l' s, Permutation l l' -> prefix_free l ->
  orel (write_all l s) (write_all l' s).
Proof. intros l l' s P PF. apply (store_write_commutes_gen l l' P PF). apply orel_refl. Qed.

(** * membership-only sets, order-independent folds *)
Lemma memb_same_members : forall s s' x, same_members s s' -> memb x s = memb x s'.
Proof.
  intros s s' x H. destruct (memb x s) eqn:A; destruct (memb x s') eqn:B; try reflexivity.
  - apply memb_In, H, memb_In in A. congruence.
  - apply memb_In, H, memb_In in B. congruence.
Qed.
Lemma same_members_cons : forall s s' x, same_members s s' -> same_members (x :: s) (x :: s').
Proof. intros s s' x H y. cbn [In]. rewrite (H y). tauto. Qed.

Lemma forallb_perm : forall (A : Type) (f : A -> bool) l l', Permutation l l' -> forallb f l = forallb f l'.
Proof.
  induction 1; cbn [forallb]; try congruence.
  rewrite !andb_assoc. f_equal. apply andb_comm.
Qed.
Lemma existsb_perm : forall (A : Type) (f : A -> bool) l l', Permutation l l' -> existsb f l = existsb f l'.
Proof.
  induction 1; cbn [existsb]; try congruence.
  rewrite !orb_assoc. f_equal. apply orb_comm.
Qed.
