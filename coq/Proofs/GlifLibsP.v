(** Dictionary algebra of the glyph lib: dump_object_libs, recursive key sorting, the read-back
    of a written property list, load_object_libs. *)
Require Import Norad.Model.GlifSpec Norad.Model.GlifEncode.
Require Import Norad.Proofs.GlifParseP Norad.Proofs.GlifSpecP Norad.Proofs.GlifEncodeP Norad.Proofs.Base64P.
Open Scope N_scope.

(* ---------- association lists ---------- *)
Lemma dict_insert_fresh k v d : ~ In k (map fst d) -> dict_insert k v d = d ++ [(k, v)].
Proof.
  induction d as [|[k' v'] d IH]; intros H; [reflexivity|]. cbn [dict_insert app].
  destruct (str_eqb k k') eqn:E.
  - apply list_eqb_eq in E. subst. exfalso. apply H. left; reflexivity.
  - rewrite IH; [reflexivity|]. intros Hin. apply H. right; exact Hin.
Qed.
Lemma lookup_snoc {A} k (d : list (str * A)) k' v :
  lookup k (d ++ [(k', v)]) = match lookup k d with Some x => Some x | None => if str_eqb k k' then Some v else None end.
Proof. rewrite lookup_app. cbn [lookup]. reflexivity. Qed.
Lemma lookup_dict_insert_other k k' v d : k <> k' -> lookup k (dict_insert k' v d) = lookup k d.
Proof.
  intros N. induction d as [|[k2 v2] d IH]; cbn [dict_insert lookup].
  - destruct (str_eqb k k') eqn:E; [apply list_eqb_eq in E; contradiction|reflexivity].
  - destruct (str_eqb k' k2) eqn:E2; cbn [lookup].
    + apply list_eqb_eq in E2; subst k2. destruct (str_eqb k k') eqn:E; [apply list_eqb_eq in E; contradiction|reflexivity].
    + rewrite IH. reflexivity.
Qed.
Lemma lookup_dict_insert_same k v d : lookup k (dict_insert k v d) = Some v.
Proof.
  induction d as [|[k2 v2] d IH]; cbn [dict_insert lookup]; [rewrite str_eqb_refl; reflexivity|].
  destruct (str_eqb k k2) eqn:E; cbn [lookup]; [rewrite str_eqb_refl; reflexivity|rewrite E; exact IH].
Qed.

Lemma lookup_map_values f d k : lookup k (map_values f d) = option_map f (lookup k d).
Proof.
  unfold map_values. induction d as [|[k' x] d IH]; [reflexivity|]. cbn [map lookup].
  destruct (str_eqb k k'); [reflexivity|exact IH].
Qed.
Lemma map_values_keys f d : map fst (map_values f d) = map fst d.
Proof. unfold map_values. induction d as [|[k x] d IH]; [reflexivity|]. cbn [map fst]. rewrite IH. reflexivity. Qed.

Lemma insert_sorted_perm {A} k (v : A) l : Permutation (insert_sorted k v l) ((k, v) :: l).
Proof.
  induction l as [|[k' v'] l IH]; cbn [insert_sorted]; [apply Permutation_refl|].
  destruct (str_ltb k k'); [apply Permutation_refl|].
  eapply Permutation_trans; [apply perm_skip; exact IH|apply perm_swap].
Qed.
Lemma sort_keys_perm {A} (l : list (str * A)) : Permutation (sort_keys l) l.
Proof.
  unfold sort_keys. induction l as [|[k v] l IH]; cbn [fold_right fst snd]; [constructor|].
  eapply Permutation_trans; [apply insert_sorted_perm|apply perm_skip; exact IH].
Qed.

Lemma lookup_perm {A} k (l1 l2 : list (str * A)) :
  NoDup (map fst l1) -> Permutation l1 l2 -> lookup k l1 = lookup k l2.
Proof.
  intros ND P. assert (ND2 : NoDup (map fst l2)).
  { eapply Permutation_NoDup; [apply Permutation_map; exact P|exact ND]. }
  destruct (lookup k l1) as [v|] eqn:E.
  - apply lookup_In in E. symmetry. apply lookup_NoDup; [exact ND2|]. eapply Permutation_in; eauto.
  - symmetry. apply lookup_None. apply lookup_None in E. intros Hin. apply E.
    eapply Permutation_in; [apply Permutation_sym; apply Permutation_map; exact P|exact Hin].
Qed.

(* ---------- recursive key sorting ---------- *)
Lemma sort_keys_rec_eq d : sort_keys_rec d = sort_keys (map_values sort_keys_rec_pv d).
Proof. reflexivity. Qed.
Lemma sort_keys_rec_keys d : Permutation (map fst (sort_keys_rec d)) (map fst d).
Proof.
  rewrite sort_keys_rec_eq. eapply Permutation_trans; [apply Permutation_map; apply sort_keys_perm|].
  rewrite map_values_keys. apply Permutation_refl.
Qed.
(** sorting changes no entry: every key is still there, its value sorted in turn *)
Lemma lookup_sort_keys_rec k d :
  NoDup (map fst d) -> lookup k (sort_keys_rec d) = option_map sort_keys_rec_pv (lookup k d).
Proof.
  intros ND. rewrite sort_keys_rec_eq, <- lookup_map_values. symmetry. apply lookup_perm.
  - rewrite map_values_keys. exact ND.
  - apply Permutation_sym. apply sort_keys_perm.
Qed.

(* ---------- a written property list reads back ---------- *)
Lemma nodup_keys_spec l : nodup_keys l = true <-> NoDup l.
Proof. exact (nodupb_spec l). Qed.

Section ReadBack.
  Variable pf : str -> option fl.
  Variable ff : fl -> str.
  Variable fi : Z -> str.
  Variable o : wopts.
  (** L1: the library readers invert the library writers *)
  Hypothesis H_ff : forall x, fl_finite x = true -> pf (ff x) = Some x.
  Hypothesis H_fi : forall z, int_ok z = true -> plist_int (fi z) = Some z.

  Let W := o_count o.

  Lemma text_ok_reindent s : text_ok W s = true -> reindent o s = s.
  Proof.
    unfold text_ok. intros H. apply reindent_id_iff. apply orb_true_iff in H as [H|H].
    - right. apply Nat.eqb_eq in H. exact H.
    - left. apply no_newline_spec. exact H.
  Qed.
  Lemma content_text s : content (text_kids s) = Some s.
  Proof. destruct s; cbn [text_kids content]; rewrite ?app_nil_r; reflexivity. Qed.

  Lemma pv_node_element v : is_element (pv_node ff fi o v) = true.
  Proof. destruct v as [| | |[]| | |[]|[]]; reflexivity. Qed.
  Lemma arr_of_cons f n r :
    is_element n = true ->
    arr_of f (n :: r) = match f n, arr_of f r with Some v, Some vs => Some (v :: vs) | _, _ => None end.
  Proof. destruct n; try discriminate; reflexivity. Qed.
  Lemma dic_of_cons f n r pending acc :
    is_element n = true ->
    dic_of f (n :: r) pending acc
    = match f n with
      | None => None
      | Some v => match pending with
                  | None => match v with PStr key => dic_of f r (Some key) acc | _ => None end
                  | Some key => dic_of f r None (dict_insert key v acc)
                  end
      end.
  Proof. destruct n; try discriminate; reflexivity. Qed.

  Ltac names :=
    repeat match goal with
           | |- context [str_eqb ?a ?b] =>
               let v := eval vm_compute in (str_eqb a b) in
               lazymatch v with
               | true => replace (str_eqb a b) with true by (vm_compute; reflexivity)
               | false => replace (str_eqb a b) with false by (vm_compute; reflexivity)
               end
           end; cbn [orb andb].

  Lemma pv_of_key k : text_ok W k = true ->
    pv_of pf (Elem n_key [] (text_kids (reindent o k))) = Some (PStr k).
  Proof.
    intros H. rewrite (text_ok_reindent k H). cbn [pv_of]. names. unfold leaf_value. names.
    rewrite content_text. reflexivity.
  Qed.

  Theorem pv_read_back : forall v, pv_good W v = true -> pv_of pf (pv_node ff fi o v) = Some v.
  Proof.
    fix IH 1. intros [s|z|x|b|b|s|l|d]; cbn [pv_good pv_node]; intros H.
    - rewrite (text_ok_reindent s H). cbn [pv_of]. names. unfold leaf_value. names. rewrite content_text. reflexivity.
    - cbn [pv_of]. names. unfold leaf_value. names. cbn [content]. rewrite app_nil_r, (H_fi z H). reflexivity.
    - destruct x; try discriminate. cbn [pv_of]. names. unfold leaf_value. names. cbn [content].
      rewrite app_nil_r, H_ff by reflexivity. reflexivity.
    - destruct b; cbn [pv_of]; names; reflexivity.
    - cbn [pv_of]. names. unfold leaf_value. names. rewrite content_text. rewrite (b64_read_back b H). reflexivity.
    - cbn [pv_of]. names. unfold leaf_value. names. cbn [content]. rewrite app_nil_r, H. reflexivity.
    - destruct l as [|v l]; [cbn [pv_of]; names; reflexivity|]. cbn [pv_of]. names.
      assert (A : forall l0, forallb (pv_good W) l0 = true ->
                  arr_of (pv_of pf) (map (pv_node ff fi o) l0) = Some l0).
      { induction l0 as [|v0 l0 IHl]; [reflexivity|]. cbn [forallb map]. intros H0.
        apply andb_true_iff in H0 as [H1 H2]. rewrite arr_of_cons by apply pv_node_element.
        rewrite (IH v0 H1), (IHl H2). reflexivity. }
      rewrite (A (v :: l) H). reflexivity.
    - apply andb_true_iff in H as [HN HE].
      assert (A : forall d0 acc,
                  forallb (fun kx => let '(k, x) := kx in text_ok W k && pv_good W x) d0 = true ->
                  NoDup (map fst acc ++ map fst d0) ->
                  dic_of (pv_of pf) (dict_nodes o (pv_node ff fi o) d0) None acc = Some (acc ++ d0)).
      { induction d0 as [|[k x] d0 IHd]; intros acc H0 ND; [cbn; rewrite app_nil_r; reflexivity|].
        cbn [forallb dict_nodes] in *. apply andb_true_iff in H0 as [H0 H3]. apply andb_true_iff in H0 as [H1 H2].
        rewrite dic_of_cons by reflexivity. rewrite (pv_of_key k H1).
        rewrite dic_of_cons by apply pv_node_element. rewrite (IH x H2).
        assert (NK : ~ In k (map fst acc)).
        { cbn [map fst] in ND. intros Hin. apply NoDup_app_inv in ND as (_ & _ & ND). apply (ND k Hin). left; reflexivity. }
        rewrite dict_insert_fresh by exact NK. rewrite IHd; [rewrite <- app_assoc; reflexivity|exact H3|].
        rewrite map_app. cbn [map fst app]. rewrite <- app_assoc. exact ND. }
      destruct d as [|kx d]; [cbn [pv_of]; names; reflexivity|]. cbn [pv_of]. names.
      rewrite (A (kx :: d) [] HE); [reflexivity|]. cbn [map app]. apply nodup_keys_spec. exact HN.
  Qed.
End ReadBack.

(* ---------- dump_object_libs ---------- *)
Section Dump.
  Context {A : Type} (idof : A -> option str) (libof : A -> option dict).
  Definition entry (x : A) : dict :=
    match idof x, libof x with Some i, Some d => [(i, PDict d)] | _, _ => [] end.
  Definition entries (l : list A) : dict := flat_map entry l.
  Definition needs_id (x : A) : Prop := libof x <> None -> idof x <> None.

  Lemma entry_keys x k : In k (map fst (entry x)) -> In k (oid (idof x)).
  Proof. unfold entry. destruct (idof x), (libof x); cbn; tauto. Qed.
  Lemma entries_keys l k : In k (map fst (entries l)) -> In k (idsA idof l).
  Proof.
    unfold entries, idsA. induction l as [|x l IH]; [intros []|]. cbn [flat_map]. rewrite map_app, !in_app_iff.
    intros [H|H]; [left; apply entry_keys; exact H|right; auto].
  Qed.
  Lemma entries_nodup l : NoDup (idsA idof l) -> NoDup (map fst (entries l)).
  Proof.
    unfold entries, idsA. induction l as [|x l IH]; [constructor|]. cbn [flat_map]. intros ND.
    apply NoDup_app_inv in ND as (N1 & N2 & N3). rewrite map_app. apply NoDup_app_intro; auto.
    - unfold entry. destruct (idof x), (libof x); cbn; repeat constructor; intros [].
    - intros k Hk Hin. apply entry_keys in Hk. apply (N3 k Hk). apply (entries_keys l). exact Hin.
  Qed.

  Lemma fold_dump : forall l acc,
    Forall needs_id l -> NoDup (map fst acc ++ map fst (entries l)) ->
    fold_left (fun a x => dump1 (idof x) (libof x) a) l (Ok acc) = Ok (acc ++ entries l).
  Proof.
    induction l as [|x l IH]; intros acc HN ND; cbn [fold_left entries flat_map]; [rewrite app_nil_r; reflexivity|].
    inversion HN as [|? ? Hx HN']; subst. fold (entries l). unfold entries in ND. cbn [flat_map] in ND.
    fold (entries l) in ND. rewrite map_app in ND.
    unfold dump1, entry in *. destruct (libof x) as [d|] eqn:EL.
    - destruct (idof x) as [i|] eqn:EI; [|exfalso; apply Hx; congruence]. cbn [bind].
      cbn [map fst app] in ND. rewrite dict_insert_fresh.
      + rewrite IH; [rewrite <- app_assoc; reflexivity|exact HN'|].
        rewrite map_app. cbn [map fst]. rewrite <- app_assoc. exact ND.
      + apply NoDup_app_inv in ND as (_ & _ & N3). intros Hin. apply (N3 i Hin). left; reflexivity.
    - destruct (idof x); cbn [map app] in ND; apply IH; auto.
  Qed.

  Lemma lookup_entries_out i l : ~ In i (idsA idof l) -> lookup i (entries l) = None.
  Proof. intros H. apply lookup_None. intros Hin. apply H. apply entries_keys. exact Hin. Qed.
  Lemma lookup_entries_in x l i :
    In x l -> idof x = Some i -> NoDup (idsA idof l) -> lookup i (entries l) = option_map PDict (libof x).
  Proof.
    unfold entries, idsA. induction l as [|y l IH]; [intros []|]. cbn [flat_map]. intros Hin EI ND.
    apply NoDup_app_inv in ND as (N1 & N2 & N3). rewrite lookup_app. destruct Hin as [->|Hin].
    - unfold entry at 1. rewrite EI. destruct (libof x) as [d|]; cbn [lookup option_map].
      + rewrite str_eqb_refl. reflexivity.
      + apply (lookup_entries_out i l). intros Hi. apply (N3 i); [rewrite EI; left; reflexivity|exact Hi].
    - assert (E : lookup i (entry y) = None).
      { apply lookup_None. intros Hk. apply entry_keys in Hk. apply (N3 i Hk).
        apply in_flat_map. exists x. split; [exact Hin|rewrite EI; left; reflexivity]. }
      rewrite E. apply IH; assumption.
  Qed.
  Lemma entries_dicts l i v : lookup i (entries l) = Some v -> is_dict v.
  Proof.
    intros H. apply lookup_In in H. unfold entries in H. apply in_flat_map in H as (x & _ & H).
    unfold entry in H. destruct (idof x), (libof x); try contradiction. destruct H as [H|[]].
    inversion H; subst. eexists; reflexivity.
  Qed.
End Dump.

(** all lib-carrying positions of a glyph as (identifier, lib) pairs, in the writer's order *)
Definition obj := (option str * option dict)%type.
Definition cobjs (cs : list contour) : list obj :=
  flat_map (fun c => (cid c, clib c) :: map (fun p => (pid p, plib p)) (cpoints c)) cs.
Definition gobjs (g : glyph) : list obj :=
  map (fun a => (aid a, alib a)) (ganchors g) ++ map (fun x => (guid x, gulib x)) (gguides g) ++
  cobjs (filter has_points (gcontours g)) ++ map (fun c => (coid c, colib c)) (gcomps g).

Lemma fold_map_obj {A} (idof : A -> option str) (libof : A -> option dict) l acc :
  fold_left (fun a x => dump1 (idof x) (libof x) a) l acc
  = fold_left (fun a (x : obj) => dump1 (fst x) (snd x) a) (map (fun x => (idof x, libof x)) l) acc.
Proof. revert acc. induction l as [|x l IH]; intros acc; [reflexivity|]. cbn [fold_left map fst snd]. apply IH. Qed.

Lemma dump_as_fold g :
  dump_object_libs g = fold_left (fun a (x : obj) => dump1 (fst x) (snd x) a) (gobjs g) (Ok []).
Proof.
  unfold dump_object_libs, gobjs. rewrite !fold_left_app, <- !fold_map_obj. f_equal.
  generalize (fold_left (fun acc x => dump1 (guid x) (gulib x) acc) (gguides g)
                (fold_left (fun acc a => dump1 (aid a) (alib a) acc) (ganchors g) (Ok []))).
  induction (filter has_points (gcontours g)) as [|c cs IH]; intros acc; [reflexivity|].
  cbn [fold_left cobjs flat_map]. rewrite fold_left_app. cbn [fold_left fst snd].
  rewrite <- fold_map_obj. apply IH.
Qed.

Lemma ids_cobjs cs : idsA fst (cobjs cs) = flat_map gcids cs.
Proof.
  unfold idsA, cobjs. induction cs as [|c cs IH]; [reflexivity|]. cbn [flat_map]. rewrite flat_map_app, IH.
  f_equal. cbn [flat_map fst]. unfold gcids. f_equal. unfold gpids.
  induction (cpoints c) as [|p ps IHp]; [reflexivity|]. cbn [map flat_map fst]. rewrite IHp. reflexivity.
Qed.
Lemma ids_map_obj {A} (idof : A -> option str) (libof : A -> option dict) l :
  idsA fst (map (fun x => (idof x, libof x)) l) = idsA idof l.
Proof. unfold idsA. induction l as [|x l IH]; [reflexivity|]. cbn [map flat_map fst]. rewrite IH. reflexivity. Qed.

Lemma filter_all {A} (f : A -> bool) l : Forall (fun x => f x = true) l -> filter f l = l.
Proof. induction 1 as [|x l Hx F IH]; [reflexivity|]. cbn [filter]. rewrite Hx, IH. reflexivity. Qed.

Lemma idsA_app {A} (f : A -> option str) l1 l2 : idsA f (l1 ++ l2) = idsA f l1 ++ idsA f l2.
Proof. unfold idsA. apply flat_map_app. Qed.
Lemma ids_gobjs g :
  Forall (fun c => has_points c = true) (gcontours g) -> idsA fst (gobjs g) = glyph_ids g.
Proof.
  intros HP. unfold gobjs. rewrite (filter_all _ _ HP). rewrite !idsA_app, !ids_map_obj, ids_cobjs. reflexivity.
Qed.

Definition all_need_ids (g : glyph) : Prop := Forall (needs_id fst snd) (gobjs g).
Lemma libs_have_ids_objs g : libs_have_ids g -> all_need_ids g.
Proof.
  intros (HA & HG & HC & HK). unfold all_need_ids, gobjs. rewrite !Forall_app. repeat split.
  - apply Forall_forall. intros x Hx. apply in_map_iff in Hx as (a & <- & Ha). rewrite Forall_forall in HA. exact (HA a Ha).
  - apply Forall_forall. intros x Hx. apply in_map_iff in Hx as (a & <- & Ha). rewrite Forall_forall in HG. exact (HG a Ha).
  - apply Forall_forall. intros x Hx. unfold cobjs in Hx. apply in_flat_map in Hx as (c & Hc & Hx).
    apply filter_In in Hc as [Hc _]. rewrite Forall_forall in HC. destruct (HC c Hc) as [H1 H2].
    destruct Hx as [<-|Hx]; [exact H1|]. apply in_map_iff in Hx as (p & <- & Hp). rewrite Forall_forall in H2. exact (H2 p Hp).
  - apply Forall_forall. intros x Hx. apply in_map_iff in Hx as (a & <- & Ha). rewrite Forall_forall in HK. exact (HK a Ha).
Qed.

(** what the writer puts under [public.objectLibs] *)
Definition olibs (g : glyph) : dict := entries (A:=obj) fst snd (gobjs g).
Theorem dump_spec g :
  libs_have_ids g -> Forall (fun c => has_points c = true) (gcontours g) -> NoDup (glyph_ids g) ->
  dump_object_libs g = Ok (olibs g).
Proof.
  intros LI HP ND. rewrite dump_as_fold.
  apply (fold_dump (A:=obj) fst snd (gobjs g) []); [apply libs_have_ids_objs; exact LI|].
  cbn [map app]. apply entries_nodup. rewrite ids_gobjs by exact HP. exact ND.
Qed.

(* ---------- load_object_libs, exactly ---------- *)
Definition attach (od : dict) (id : option str) : option dict :=
  match id with
  | Some i => match lookup i od with Some (PDict d) => Some d | _ => None end
  | None => None
  end.
Definition all_dicts (od : dict) : Prop := forall i x, lookup i od = Some x -> is_dict x.

Lemma transfer_exact id ol (removed : list str) od :
  all_dicts od -> (forall i, ~ In i removed -> lookup i ol = lookup i od) ->
  (forall i, In i (oid id) -> ~ In i removed) ->
  exists ol1, transfer id ol = Ok (attach od id, ol1) /\
              (forall i, ~ In i (removed ++ oid id) -> lookup i ol1 = lookup i od).
Proof.
  intros AD HL HR. unfold transfer, attach. destruct id as [i|]; cbn [oid] in *.
  - rewrite (HL i (HR i (or_introl eq_refl))). destruct (lookup i od) as [x|] eqn:E.
    + destruct (AD i x E) as [d ->]. eexists. split; [reflexivity|]. intros j Hj.
      rewrite lookup_remove_key. destruct (str_eqb j i) eqn:EJ.
      * apply list_eqb_eq in EJ; subst. exfalso. apply Hj. apply in_app_iff. right; left; reflexivity.
      * apply HL. intros Hin. apply Hj. apply in_app_iff. left; exact Hin.
    + eexists. split; [reflexivity|]. intros j Hj. apply HL. intros Hin. apply Hj. apply in_app_iff. left; exact Hin.
  - eexists. split; [reflexivity|]. intros j Hj. apply HL. intros Hin. apply Hj. apply in_app_iff. left; exact Hin.
Qed.

Section TransferExact.
  Context {A : Type} (idof : A -> option str) (setlib : A -> option dict -> A).
  Lemma transfer_list_exact : forall l ol removed od,
    all_dicts od -> (forall i, ~ In i removed -> lookup i ol = lookup i od) ->
    NoDup (removed ++ idsA idof l) ->
    exists ol', transfer_list idof setlib l ol = Ok (map (fun x => setlib x (attach od (idof x))) l, ol') /\
                (forall i, ~ In i (removed ++ idsA idof l) -> lookup i ol' = lookup i od).
  Proof.
    induction l as [|x l IH]; intros ol removed od AD HL ND; cbn [transfer_list map].
    - exists ol. split; [reflexivity|]. unfold idsA; cbn [flat_map]. rewrite app_nil_r. exact HL.
    - unfold idsA in *. cbn [flat_map] in *.
      destruct (transfer_exact (idof x) ol removed od AD HL) as (ol1 & -> & HL1).
      { intros i Hi Hr. destruct (NoDup_app_inv _ _ ND) as (_ & _ & N3). apply (N3 i Hr). apply in_app_iff. left; exact Hi. }
      cbn [bind]. rewrite app_assoc in ND. destruct (IH ol1 _ od AD HL1 ND) as (ol' & -> & HL2).
      cbn [bind]. exists ol'. split; [reflexivity|]. rewrite app_assoc. exact HL2.
  Qed.
End TransferExact.

Definition contour_attach (od : dict) (c : contour) : contour :=
  mkContour (map (fun p => point_setlib p (attach od (pid p))) (cpoints c)) (cid c)
            (keep (attach od (cid c)) (clib c)).
Lemma transfer_contours_exact : forall l ol removed od,
  all_dicts od -> (forall i, ~ In i removed -> lookup i ol = lookup i od) ->
  NoDup (removed ++ flat_map gcids l) ->
  exists ol', transfer_contours l ol = Ok (map (contour_attach od) l, ol') /\
              (forall i, ~ In i (removed ++ flat_map gcids l) -> lookup i ol' = lookup i od).
Proof.
  induction l as [|c l IH]; intros ol removed od AD HL ND; cbn [transfer_contours map].
  - exists ol. split; [reflexivity|]. cbn [flat_map]. rewrite app_nil_r. exact HL.
  - cbn [flat_map] in *. unfold gcids at 1 in ND. unfold gcids at 1.
    destruct (transfer_exact (cid c) ol removed od AD HL) as (ol1 & -> & HL1).
    { intros i Hi Hr. destruct (NoDup_app_inv _ _ ND) as (_ & _ & N3). apply (N3 i Hr).
      apply in_app_iff. left. apply in_app_iff. left; exact Hi. }
    cbn [bind]. rewrite <- !app_assoc in ND. rewrite (app_assoc removed) in ND.
    assert (ND2 : NoDup ((removed ++ oid (cid c)) ++ idsA pid (cpoints c))).
    { rewrite (app_assoc _ _ (flat_map gcids l)) in ND. apply NoDup_app_inv in ND. apply ND. }
    destruct (transfer_list_exact pid point_setlib (cpoints c) ol1 _ od AD HL1 ND2) as (ol2 & -> & HL2).
    cbn [bind]. rewrite (app_assoc _ _ (flat_map gcids l)) in ND.
    destruct (IH ol2 _ od AD HL2 ND) as (ol3 & -> & HL3). cbn [bind].
    exists ol3. split; [reflexivity|]. intros i Hi. apply HL3. intros Hin. apply Hi. unfold idsA, gpids in *.
    rewrite !in_app_iff in *. tauto.
Qed.

Theorem load_exact g od :
  lookup objlibs_key (glib g) = Some (PDict od) -> all_dicts od -> NoDup (glyph_ids g) ->
  load_object_libs g
  = Ok (mkGlyph (gname g) (gwidth g) (gheight g) (gcps g) (gnote g) (gimage g)
          (map (fun x => guide_setlib x (attach od (guid x))) (gguides g))
          (map (fun a => anchor_setlib a (attach od (aid a))) (ganchors g))
          (map (fun c => comp_setlib c (attach od (coid c))) (gcomps g))
          (map (contour_attach od) (gcontours g))
          (remove_key objlibs_key (glib g))).
Proof.
  intros LK AD ND. unfold load_object_libs. rewrite LK. rewrite glyph_ids_eq in ND.
  set (A := gaids (ganchors g)) in *. set (G := ggids (gguides g)) in *.
  set (C := flat_map gcids (gcontours g)) in *. set (K := gkids (gcomps g)) in *.
  assert (NDa : NoDup ([] ++ A)) by (cbn [app]; apply NoDup_app_inv in ND; apply ND).
  assert (NDg : NoDup (([] ++ A) ++ G)) by (cbn [app]; rewrite app_assoc in ND; apply NoDup_app_inv in ND; apply ND).
  assert (NDc : NoDup ((([] ++ A) ++ G) ++ C)) by (cbn [app]; rewrite !app_assoc in ND; apply NoDup_app_inv in ND; apply ND).
  assert (NDk : NoDup (((([] ++ A) ++ G) ++ C) ++ K)) by (cbn [app]; rewrite !app_assoc in ND; exact ND).
  destruct (transfer_list_exact aid anchor_setlib (ganchors g) od [] od AD (fun _ _ => eq_refl) NDa) as (ol1 & -> & H1).
  cbn [bind].
  destruct (transfer_list_exact guid guide_setlib (gguides g) ol1 _ od AD H1 NDg) as (ol2 & -> & H2). cbn [bind].
  destruct (transfer_contours_exact (gcontours g) ol2 _ od AD H2 NDc) as (ol3 & -> & H3). cbn [bind].
  destruct (transfer_list_exact coid comp_setlib (gcomps g) ol3 _ od AD H3 NDk) as (ol4 & -> & H4). cbn [bind].
  reflexivity.
Qed.

(* ---------- dump then load is the identity ---------- *)
Lemma attach_olibs g id lib :
  libs_have_ids g -> Forall (fun c => has_points c = true) (gcontours g) -> NoDup (glyph_ids g) ->
  In (id, lib) (gobjs g) -> attach (olibs g) id = lib.
Proof.
  intros LI HP ND Hin. unfold attach, olibs. destruct id as [i|].
  - rewrite (lookup_entries_in (A:=obj) fst snd (Some i, lib) (gobjs g) i Hin eq_refl).
    + cbn [snd]. destruct lib; reflexivity.
    + rewrite ids_gobjs by exact HP. exact ND.
  - pose proof (libs_have_ids_objs g LI) as HN. unfold all_need_ids in HN. rewrite Forall_forall in HN.
    specialize (HN _ Hin). unfold needs_id in HN. cbn [fst snd] in HN. destruct lib; [|reflexivity].
    exfalso. apply HN; [discriminate|reflexivity].
Qed.

Lemma remove_key_snoc k v (d : dict) : lookup k d = None -> remove_key k (d ++ [(k, v)]) = d.
Proof.
  unfold remove_key. intros H. rewrite filter_app. cbn [filter fst]. rewrite str_eqb_refl. cbn [negb]. rewrite app_nil_r.
  apply lookup_None in H. induction d as [|[k' v'] d IH]; [reflexivity|]. cbn [filter fst map] in *.
  destruct (str_eqb k k') eqn:E.
  - apply list_eqb_eq in E. subst. exfalso. apply H. left; reflexivity.
  - cbn [negb]. rewrite IH; [reflexivity|]. intros Hin. apply H. right; exact Hin.
Qed.

Lemma strip_ids g : glyph_ids (strip_libs g) = glyph_ids g.
Proof.
  rewrite !glyph_ids_eq. unfold strip_libs; cbn [ganchors gguides gcontours gcomps].
  unfold gaids, ggids, gkids. rewrite !flat_map_concat_map, !map_map. cbn [aid guid coid].
  rewrite <- !flat_map_concat_map. f_equal. f_equal. f_equal.
  induction (gcontours g) as [|c cs IH]; [reflexivity|]. cbn [map flat_map]. rewrite IH. f_equal.
  unfold gcids; cbn [cid cpoints]. f_equal. unfold gpids. induction (cpoints c) as [|p ps IHp]; [reflexivity|].
  cbn [map flat_map]. rewrite IHp. reflexivity.
Qed.

Theorem object_libs_roundtrip g :
  libs_have_ids g -> Forall (fun c => has_points c = true) (gcontours g) -> NoDup (glyph_ids g) ->
  lookup objlibs_key (glib g) = None ->
  relib g = Ok g.
Proof.
  intros LI HP ND LK. unfold relib, written_lib. rewrite (dump_spec g LI HP ND). cbn [bind].
  (* every object gets back exactly its lib *)
  assert (AT : forall id lib, In (id, lib) (gobjs g) -> attach (olibs g) id = lib)
    by (intros; apply attach_olibs; assumption).
  assert (IA : forall a, In a (ganchors g) -> In (aid a, alib a) (gobjs g)).
  { intros a Ha. unfold gobjs. apply in_app_iff. left. apply in_map_iff. exists a. auto. }
  assert (IG : forall a, In a (gguides g) -> In (guid a, gulib a) (gobjs g)).
  { intros a Ha. unfold gobjs. apply in_app_iff. right. apply in_app_iff. left. apply in_map_iff. exists a. auto. }
  assert (IK : forall a, In a (gcomps g) -> In (coid a, colib a) (gobjs g)).
  { intros a Ha. unfold gobjs. rewrite !in_app_iff. right; right; right. apply in_map_iff. exists a. auto. }
  assert (IC : forall c, In c (gcontours g) -> In (cid c, clib c) (gobjs g) /\
                         forall p, In p (cpoints c) -> In (pid p, plib p) (gobjs g)).
  { intros c Hc. unfold gobjs. rewrite (filter_all _ _ HP). split.
    - rewrite !in_app_iff. right; right; left. unfold cobjs. apply in_flat_map. exists c. split; [exact Hc|left; reflexivity].
    - intros p Hp. rewrite !in_app_iff. right; right; left. unfold cobjs. apply in_flat_map. exists c.
      split; [exact Hc|right; apply in_map_iff; exists p; auto]. }
  assert (RA : map (fun a => anchor_setlib a (attach (olibs g) (aid a))) (ganchors (strip_libs g)) = ganchors g).
  { unfold strip_libs; cbn [ganchors]. rewrite map_map. rewrite <- (map_id (ganchors g)) at 2. apply map_ext_in.
    intros a Ha. unfold anchor_setlib; cbn [ax ay aname acolor aid alib]. rewrite (AT _ _ (IA a Ha)), keep_none. destruct a; reflexivity. }
  assert (RG : map (fun a => guide_setlib a (attach (olibs g) (guid a))) (gguides (strip_libs g)) = gguides g).
  { unfold strip_libs; cbn [gguides]. rewrite map_map. rewrite <- (map_id (gguides g)) at 2. apply map_ext_in.
    intros a Ha. unfold guide_setlib; cbn [gline guname gcolor guid gulib]. rewrite (AT _ _ (IG a Ha)), keep_none. destruct a; reflexivity. }
  assert (RK : map (fun a => comp_setlib a (attach (olibs g) (coid a))) (gcomps (strip_libs g)) = gcomps g).
  { unfold strip_libs; cbn [gcomps]. rewrite map_map. rewrite <- (map_id (gcomps g)) at 2. apply map_ext_in.
    intros a Ha. unfold comp_setlib; cbn [cbase ctrans coid colib]. rewrite (AT _ _ (IK a Ha)), keep_none. destruct a; reflexivity. }
  assert (RC : map (contour_attach (olibs g)) (gcontours (strip_libs g)) = gcontours g).
  { unfold strip_libs; cbn [gcontours]. rewrite map_map. rewrite <- (map_id (gcontours g)) at 2. apply map_ext_in.
    intros c Hc. destruct (IC c Hc) as [I1 I2]. unfold contour_attach; cbn [cpoints cid clib].
    rewrite (AT _ _ I1), keep_none. rewrite map_map.
    assert (EP : map (fun p => point_setlib (strip_point p) (attach (olibs g) (pid (strip_point p)))) (cpoints c) = cpoints c).
    { rewrite <- (map_id (cpoints c)) at 2. apply map_ext_in. intros p Hp.
      unfold point_setlib, strip_point; cbn [px py ptyp psmooth pname pid plib]. rewrite (AT _ _ (I2 p Hp)), keep_none. destruct p; reflexivity. }
    rewrite EP. destruct c; reflexivity. }
  destruct (olibs g) as [|e ol] eqn:EO.
  - (* no object lib at all: nothing was moved *)
    unfold load_object_libs, set_lib; cbn [glib]. rewrite LK. f_equal.
    assert (N0 : forall id, attach [] id = None) by (intros [i|]; reflexivity).
    assert (SA : ganchors (strip_libs g) = ganchors g).
    { rewrite <- RA. rewrite <- (map_id (ganchors (strip_libs g))) at 1. apply map_ext. intros a.
      rewrite N0. destruct a; reflexivity. }
    assert (SG : gguides (strip_libs g) = gguides g).
    { rewrite <- RG. rewrite <- (map_id (gguides (strip_libs g))) at 1. apply map_ext. intros a.
      rewrite N0. destruct a; reflexivity. }
    assert (SK : gcomps (strip_libs g) = gcomps g).
    { rewrite <- RK. rewrite <- (map_id (gcomps (strip_libs g))) at 1. apply map_ext. intros a.
      rewrite N0. destruct a; reflexivity. }
    assert (SC : gcontours (strip_libs g) = gcontours g).
    { rewrite <- RC. rewrite <- (map_id (gcontours (strip_libs g))) at 1. apply map_ext. intros c.
      unfold contour_attach. rewrite N0.
      assert (EP : map (fun p => point_setlib p (attach [] (pid p))) (cpoints c) = cpoints c).
      { rewrite <- (map_id (cpoints c)) at 2. apply map_ext. intros p. rewrite N0. destruct p; reflexivity. }
      rewrite EP. destruct c; reflexivity. }
    rewrite SA, SG, SK, SC. destruct g; reflexivity.
  - rewrite <- EO in *. clear EO.
    assert (LKn : ~ In objlibs_key (map fst (glib g))) by (apply lookup_None; exact LK).
    rewrite (dict_insert_fresh _ _ _ LKn).
    rewrite (load_exact _ (olibs g)).
    + unfold set_lib; cbn [gname gwidth gheight gcps gnote gimage gguides ganchors gcomps gcontours glib].
      rewrite RA, RG, RK, RC, (remove_key_snoc _ _ _ LK). unfold strip_libs; cbn. destruct g; reflexivity.
    + unfold set_lib; cbn [glib]. rewrite lookup_snoc, LK, str_eqb_refl. reflexivity.
    + intros i x. unfold olibs. apply (entries_dicts (A:=obj) fst snd).
    + assert (E : glyph_ids (set_lib (strip_libs g) (glib g ++ [(objlibs_key, PDict (olibs g))])) = glyph_ids (strip_libs g)) by reflexivity.
      rewrite E, strip_ids. exact ND.
Qed.

(* ---------- well-formed plist values: sorting keeps them, plain text makes them readable ---------- *)
Lemma forallb_perm {A} (f : A -> bool) l1 l2 : Permutation l1 l2 -> forallb f l1 = true -> forallb f l2 = true.
Proof.
  intros P H. apply forallb_forall. intros x Hx. rewrite forallb_forall in H. apply H.
  eapply Permutation_in; [apply Permutation_sym; exact P|exact Hx].
Qed.

Lemma pv_good_sorted W : forall v, pv_good W v = true -> pv_good W (sort_keys_rec_pv v) = true.
Proof.
  fix IH 1. intros [s|z|x|b|b|s|l|d]; cbn [pv_good sort_keys_rec_pv]; intros H; try exact H.
  apply andb_true_iff in H as [HN HE]. apply andb_true_iff. split.
  - apply nodup_keys_spec. eapply Permutation_NoDup.
    + apply Permutation_sym. apply Permutation_map. apply sort_keys_perm.
    + rewrite map_values_keys. apply nodup_keys_spec. exact HN.
  - eapply forallb_perm; [apply Permutation_sym; apply sort_keys_perm|].
    unfold map_values. revert HE. clear HN. induction d as [|[k x] d IHd]; [reflexivity|].
    cbn [forallb map]. intros HE. apply andb_true_iff in HE as [H1 H2]. apply andb_true_iff in H1 as [H1 H3].
    rewrite H1, (IH x H3), (IHd H2). reflexivity.
Qed.

(** induction over plist values with the nested lists *)
Section PvInd.
  Variable P : pv -> Prop.
  Hypothesis HS : forall s, P (PStr s).
  Hypothesis HI : forall z, P (PInt z).
  Hypothesis HR : forall x, P (PReal x).
  Hypothesis HB : forall b, P (PBool b).
  Hypothesis HDa : forall b, P (PData b).
  Hypothesis HDt : forall s, P (PDate s).
  Hypothesis HA : forall l, Forall P l -> P (PArr l).
  Hypothesis HD : forall d, Forall (fun kx => P (snd kx)) d -> P (PDict d).
  Fixpoint pv_ind2 (v : pv) : P v :=
    match v with
    | PStr s => HS s | PInt z => HI z | PReal x => HR x | PBool b => HB b | PData b => HDa b | PDate s => HDt s
    | PArr l => HA l ((fix go (l : list pv) : Forall P l :=
                         match l with [] => Forall_nil P | x :: r => Forall_cons x (pv_ind2 x) (go r) end) l)
    | PDict d => HD d ((fix go (d : dict) : Forall (fun kx => P (snd kx)) d :=
                          match d with
                          | [] => Forall_nil _
                          | (k, x) :: r => Forall_cons (P := fun kx => P (snd kx)) (k, x) (pv_ind2 x) (go r)
                          end) d)
    end.
End PvInd.

(** validity that does not depend on the options, and the F3 condition *)
Lemma pv_good_of_valid W : forall v,
  pv_valid v = true -> (W = 0%nat \/ pv_plain v = true) -> pv_good W v = true.
Proof.
  unfold pv_valid. intros v. induction v as [s|z|x|b|b|s|l IHl|d IHd] using pv_ind2;
    cbn [pv_good pv_plain]; intros HV HP; try exact HV.
  - unfold text_ok. destruct HP as [->|HP]; [reflexivity|]. rewrite HP. apply orb_true_r.
  - induction IHl as [|v l Hv _ IHl]; [reflexivity|]. cbn [forallb] in *.
    apply andb_true_iff in HV as [H1 H2]. apply andb_true_iff. split.
    + apply Hv; [exact H1|]. destruct HP as [HP|HP]; [left; exact HP|right]. apply andb_true_iff in HP. apply HP.
    + apply IHl; [exact H2|]. destruct HP as [HP|HP]; [left; exact HP|right]. apply andb_true_iff in HP. apply HP.
  - apply andb_true_iff in HV as [HN HE]. rewrite HN. cbn [andb]. clear HN.
    induction IHd as [|[k x] d Hx _ IHd]; [reflexivity|]. cbn [forallb snd] in *.
    apply andb_true_iff in HE as [H1 H2]. apply andb_true_iff in H1 as [_ H3].
    assert (HPk : W = 0%nat \/ (no_newline k = true /\ pv_plain x = true /\
                  forallb (fun kx => let '(k0, x0) := kx in no_newline k0 && pv_plain x0) d = true)).
    { destruct HP as [HP|HP]; [left; exact HP|right]. apply andb_true_iff in HP as [HP HP2].
      apply andb_true_iff in HP as [HP0 HP1]. auto. }
    apply andb_true_iff. split; [apply andb_true_iff; split|].
    + unfold text_ok. destruct HPk as [->|(Hk & _)]; [reflexivity|]. rewrite Hk. apply orb_true_r.
    + apply Hx; [exact H3|]. destruct HPk as [HPk|(_ & Hx' & _)]; auto.
    + apply IHd; [exact H2|]. destruct HPk as [HPk|(_ & _ & Hd)]; auto.
Qed.

Lemma ident_no_newline i : ident_valid i = true -> no_newline i = true.
Proof.
  unfold ident_valid, no_newline. intros H. apply andb_true_iff in H as [_ H]. apply negb_true_iff.
  destruct (existsb (N.eqb 10) i) eqn:E; [|reflexivity]. apply existsb_exists in E as (c & Hc & Ec).
  apply N.eqb_eq in Ec. subst c. rewrite forallb_forall in H. specialize (H 10 Hc). discriminate.
Qed.

(** a single written value between <lib> and </lib> *)
Lemma plist_single pf n v : is_element n = true -> pv_of pf n = Some v -> plist_of_nodes pf [n] = Some v.
Proof. intros HE HP. unfold plist_of_nodes. destruct n; try discriminate; cbn [plist_of_nodes_aux]; rewrite HP; reflexivity. Qed.

(* ---------- key order: sorting commutes with removing a key ---------- *)
Lemma str_ltb_irrefl a : str_ltb a a = false.
Proof. induction a as [|x a IH]; [reflexivity|]. cbn [str_ltb]. rewrite N.ltb_irrefl, N.eqb_refl, IH. reflexivity. Qed.
Lemma str_ltb_trans : forall a b c, str_ltb a b = true -> str_ltb b c = true -> str_ltb a c = true.
Proof.
  induction a as [|x a IH]; intros [|y b] [|z c] H1 H2; cbn [str_ltb] in *; try discriminate; try reflexivity.
  apply orb_true_iff in H1. apply orb_true_iff in H2. apply orb_true_iff.
  destruct H1 as [H1|H1], H2 as [H2|H2].
  - left. apply N.ltb_lt in H1. apply N.ltb_lt in H2. apply N.ltb_lt. lia.
  - apply andb_true_iff in H2 as [E _]. apply N.eqb_eq in E. subst. left; exact H1.
  - apply andb_true_iff in H1 as [E _]. apply N.eqb_eq in E. subst. left; exact H2.
  - apply andb_true_iff in H1 as [E1 L1]. apply andb_true_iff in H2 as [E2 L2].
    apply N.eqb_eq in E1. apply N.eqb_eq in E2. subst. right. rewrite N.eqb_refl. cbn [andb]. eapply IH; eauto.
Qed.
Lemma str_ltb_total : forall a b, str_ltb a b = false -> str_ltb b a = false -> a = b.
Proof.
  induction a as [|x a IH]; intros [|y b] H1 H2; cbn [str_ltb] in *; try discriminate; [reflexivity|].
  apply orb_false_iff in H1 as [L1 R1]. apply orb_false_iff in H2 as [L2 R2].
  apply N.ltb_ge in L1. apply N.ltb_ge in L2. assert (x = y) by lia. subst y.
  rewrite N.eqb_refl in R1, R2. cbn [andb] in R1, R2. f_equal. apply IH; assumption.
Qed.
Lemma str_lt_le_trans a b c : str_ltb a b = true -> str_ltb c b = false -> str_ltb a c = true.
Proof.
  intros H1 H2. destruct (str_ltb a c) eqn:E1; [reflexivity|]. destruct (str_ltb c a) eqn:E2.
  - rewrite (str_ltb_trans _ _ _ E2 H1) in H2. discriminate.
  - rewrite (str_ltb_total _ _ E1 E2) in H1. rewrite H1 in H2. discriminate.
Qed.

Fixpoint sorted {A} (l : list (str * A)) : Prop :=
  match l with
  | [] => True
  | (k, _) :: r => (forall k', In k' (map fst r) -> str_ltb k' k = false) /\ sorted r
  end.
Lemma insert_sorted_keys {A} k (v : A) l k' :
  In k' (map fst (insert_sorted k v l)) -> k' = k \/ In k' (map fst l).
Proof.
  intros H. eapply Permutation_in in H; [|apply Permutation_map; apply insert_sorted_perm].
  cbn [map fst In] in H. destruct H as [<-|H]; auto.
Qed.
Lemma insert_sorted_sorted {A} k (v : A) l : sorted l -> sorted (insert_sorted k v l).
Proof.
  induction l as [|[k1 v1] r IH]; cbn [insert_sorted sorted]; intros H.
  - split; [intros ? []|exact I].
  - destruct H as [H1 H2]. destruct (str_ltb k k1) eqn:E; cbn [sorted].
    + split; [|split; assumption]. intros k' Hk. cbn [map fst In] in Hk. destruct Hk as [<-|Hk].
      * destruct (str_ltb k1 k) eqn:E2; [|reflexivity]. pose proof (str_ltb_trans _ _ _ E E2) as C.
        rewrite str_ltb_irrefl in C. discriminate.
      * destruct (str_ltb k' k) eqn:E2; [|reflexivity]. pose proof (str_ltb_trans _ _ _ E2 E) as C.
        rewrite (H1 k' Hk) in C. discriminate.
    + split; [|apply IH; exact H2]. intros k' Hk. apply insert_sorted_keys in Hk as [->|Hk]; [exact E|apply H1; exact Hk].
Qed.
Lemma sort_keys_sorted {A} (l : list (str * A)) : sorted (sort_keys l).
Proof.
  unfold sort_keys. induction l as [|[k v] l IH]; cbn [fold_right fst snd]; [exact I|].
  apply insert_sorted_sorted. exact IH.
Qed.
Lemma insert_sorted_head {A} k (v : A) l :
  (forall k', In k' (map fst l) -> str_ltb k k' = true) -> insert_sorted k v l = (k, v) :: l.
Proof.
  destruct l as [|[k1 v1] r]; cbn [insert_sorted]; [reflexivity|]. intros H.
  rewrite (H k1) by (left; reflexivity). reflexivity.
Qed.
Lemma filter_insert_out {A} (p : str -> bool) k (v : A) l :
  p k = false -> filter (fun kv => p (fst kv)) (insert_sorted k v l) = filter (fun kv => p (fst kv)) l.
Proof.
  intros H. induction l as [|[k1 v1] r IH]; cbn [insert_sorted filter fst]; [rewrite H; reflexivity|].
  destruct (str_ltb k k1); cbn [filter fst]; [rewrite H; reflexivity|]. rewrite IH. reflexivity.
Qed.
Lemma filter_insert_in {A} (p : str -> bool) k (v : A) l :
  sorted l -> p k = true ->
  filter (fun kv => p (fst kv)) (insert_sorted k v l) = insert_sorted k v (filter (fun kv => p (fst kv)) l).
Proof.
  intros S H. induction l as [|[k1 v1] r IH]; cbn [insert_sorted filter fst]; [rewrite H; reflexivity|].
  cbn [sorted] in S. destruct S as [S1 S2]. destruct (str_ltb k k1) eqn:E; cbn [filter fst].
  - rewrite H. destruct (p k1) eqn:P1.
    + cbn [insert_sorted]. rewrite E. reflexivity.
    + symmetry. apply insert_sorted_head. intros k' Hk. apply in_map_iff in Hk as ([k2 v2] & <- & Hin).
      apply filter_In in Hin as [Hin _]. cbn [fst]. apply (str_lt_le_trans k k1 k2 E). apply S1.
      apply (in_map fst) in Hin. exact Hin.
  - destruct (p k1); cbn [insert_sorted]; [rewrite E|]; rewrite (IH S2); reflexivity.
Qed.
Lemma remove_key_sort_keys {A} k (l : list (str * A)) : remove_key k (sort_keys l) = sort_keys (remove_key k l).
Proof.
  induction l as [|[k1 v1] l IH]; [reflexivity|].
  change (sort_keys ((k1, v1) :: l)) with (insert_sorted k1 v1 (sort_keys l)).
  unfold remove_key in *. cbn [filter fst]. destruct (str_eqb k k1) eqn:E; cbn [negb].
  - rewrite (filter_insert_out (fun x => negb (str_eqb k x))) by (rewrite E; reflexivity). exact IH.
  - rewrite (filter_insert_in (fun x => negb (str_eqb k x))); [|apply sort_keys_sorted|rewrite E; reflexivity].
    change (sort_keys ((k1, v1) :: filter (fun kv => negb (str_eqb k (fst kv))) l))
      with (insert_sorted k1 v1 (sort_keys (filter (fun kv => negb (str_eqb k (fst kv))) l))).
    f_equal. exact IH.
Qed.
Lemma remove_key_map_values f k d : remove_key k (map_values f d) = map_values f (remove_key k d).
Proof.
  unfold remove_key, map_values. induction d as [|[k1 v1] d IH]; [reflexivity|]. cbn [map filter fst].
  destruct (str_eqb k k1); cbn [negb map]; rewrite IH; reflexivity.
Qed.
(** the sorted lib without the object libs is the sorted glyph lib *)
Lemma remove_key_sorted_snoc k v d :
  lookup k d = None -> remove_key k (sort_keys_rec (d ++ [(k, v)])) = sort_keys_rec d.
Proof.
  intros H. rewrite !sort_keys_rec_eq, remove_key_sort_keys, remove_key_map_values, (remove_key_snoc k v d H). reflexivity.
Qed.

(* ---------- reading the object libs back from the sorted dictionary ---------- *)
Lemma attach_sorted od id :
  NoDup (map fst od) -> attach (sort_keys_rec od) id = option_map sort_keys_rec (attach od id).
Proof.
  intros ND. unfold attach. destruct id as [i|]; [|reflexivity]. rewrite (lookup_sort_keys_rec i od ND).
  destruct (lookup i od) as [[s|z|x|b|b|s|l|d]|]; reflexivity.
Qed.
Lemma all_dicts_sorted od : NoDup (map fst od) -> all_dicts od -> all_dicts (sort_keys_rec od).
Proof.
  intros ND AD i x H. rewrite (lookup_sort_keys_rec i od ND) in H. destruct (lookup i od) as [y|] eqn:E; [|discriminate].
  injection H as <-. destruct (AD i y E) as (d & ->). eexists. reflexivity.
Qed.

(* ---------- conditions on every object lib ---------- *)
Lemma forallb_map {A B} (f : B -> bool) (h : A -> B) l : forallb f (map h l) = forallb (fun x => f (h x)) l.
Proof. induction l as [|x l IH]; [reflexivity|]. cbn [map forallb]. rewrite IH. reflexivity. Qed.
Lemma libs_all_objs P g : libs_all P g = forallb (fun x : obj => P (snd x)) (gobjs g).
Proof.
  unfold libs_all, gobjs. rewrite !forallb_app, !forallb_map. cbn [snd]. rewrite !andb_assoc. f_equal. f_equal.
  induction (filter has_points (gcontours g)) as [|c cs IH]; [reflexivity|]. cbn [forallb cobjs flat_map].
  fold (cobjs cs). rewrite forallb_app. cbn [forallb snd]. rewrite forallb_map. cbn [snd]. rewrite IH. reflexivity.
Qed.

Lemma rules_have_ids g : glyph_rules g -> libs_have_ids g.
Proof.
  intros (_ & _ & _ & _ & RG & RA & RK & RC & _). unfold libs_have_ids. repeat split.
  - eapply Forall_impl; [|exact RA]. intros a (_ & _ & _ & H). exact H.
  - eapply Forall_impl; [|exact RG]. intros a (_ & _ & _ & _ & H). exact H.
  - eapply Forall_impl; [|exact RC]. intros c (_ & _ & RP & _ & H). split; [exact H|].
    eapply Forall_impl; [|exact RP]. intros p (_ & _ & Hp). exact Hp.
  - eapply Forall_impl; [|exact RK]. intros a (_ & _ & H). exact H.
Qed.
Lemma rules_have_points g : glyph_rules g -> Forall (fun c => has_points c = true) (gcontours g).
Proof.
  intros (_ & _ & _ & _ & _ & _ & _ & RC & _). eapply Forall_impl; [|exact RC]. intros c (H & _).
  unfold has_points. destruct (cpoints c); [contradiction|reflexivity].
Qed.
Lemma rules_ident_objs g :
  glyph_rules g -> Forall (fun x : obj => opt_ok ident_valid (fst x)) (gobjs g).
Proof.
  intros R. pose proof (rules_have_points g R) as HP. destruct R as (_ & _ & _ & _ & RG & RA & RK & RC & _).
  unfold gobjs. rewrite (filter_all _ _ HP). rewrite !Forall_app. repeat split.
  - apply Forall_forall. intros x Hx. apply in_map_iff in Hx as (a & <- & Ha). rewrite Forall_forall in RA.
    destruct (RA a Ha) as (_ & _ & H & _). exact H.
  - apply Forall_forall. intros x Hx. apply in_map_iff in Hx as (a & <- & Ha). rewrite Forall_forall in RG.
    destruct (RG a Ha) as (_ & _ & _ & H & _). exact H.
  - apply Forall_forall. intros x Hx. unfold cobjs in Hx. apply in_flat_map in Hx as (c & Hc & Hx).
    rewrite Forall_forall in RC. destruct (RC c Hc) as (_ & _ & RP & H & _).
    destruct Hx as [<-|Hx]; [exact H|]. apply in_map_iff in Hx as (p & <- & Hp). rewrite Forall_forall in RP.
    destruct (RP p Hp) as (_ & Hi & _). exact Hi.
  - apply Forall_forall. intros x Hx. apply in_map_iff in Hx as (a & <- & Ha). rewrite Forall_forall in RK.
    destruct (RK a Ha) as (_ & H & _). exact H.
Qed.
