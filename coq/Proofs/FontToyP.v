(** The toy instance satisfies the laws of the signature. *)
Require Import Norad.Model.Base Norad.Model.FontRT Norad.Model.FontToy Norad.Proofs.FontRTP.
Open Scope N_scope.

Lemma orel_eq_iff {A} (a b : option A) : orel eq a b <-> a = b.
Proof. destruct a, b; simpl; split; intros H; try congruence; try tauto; try discriminate. Qed.

Lemma t_deq_refl : forall d, t_deq d d. Proof. intros d k. reflexivity. Qed.
Lemma t_deq_sym : forall a b, t_deq a b -> t_deq b a. Proof. intros a b H k. symmetry. apply H. Qed.
Lemma t_deq_trans : forall a b c, t_deq a b -> t_deq b c -> t_deq a c.
Proof. intros a b c H1 H2 k. rewrite H1. apply H2. Qed.

Lemma mkpart_ok {X} inj prj (e : X -> X -> Prop) :
  (forall x, e x x) -> (forall x y, e x y -> e y x) -> (forall x y z, e x y -> e y z -> e x z) ->
  (forall x, prj (inj x) = Some x) -> part_ok (mkpart inj prj e).
Proof.
  intros R Sy T P. constructor; simpl; auto.
  - intros o x _. exists (inj x), x. auto.
  - intros o1 o2 x c1 c2 _ H1 H2. congruence.
Qed.

Lemma alookup_del : forall k k' (d : tdict),
  alookup k (t_del k' d) = if str_eqb k k' then None else alookup k d.
Proof.
  induction d as [|[a v] d IH]; simpl.
  - destruct (str_eqb k k'); reflexivity.
  - destruct (str_eqb a k') eqn:E; simpl.
    + rewrite IH. destruct (str_eqb k k') eqn:E2; [reflexivity|].
      apply list_eqb_N_eq in E. subst a. rewrite E2. reflexivity.
    + rewrite IH. destruct (str_eqb k a) eqn:E3; [|reflexivity].
      apply list_eqb_N_eq in E3. subst a. rewrite E. reflexivity.
Qed.

Lemma nodupb_spec : forall l, nodupb l = true -> NoDup l.
Proof. intros l. apply nodupb_iff. Qed.

Definition toy_ids_ok (sg : option (list (N * option str))) : bool :=
  match sg with Some l => nodupb (some_ids (map snd l)) | None => true end.
Lemma toy_info_ok_stripped : forall i : finfo N N tdict, toy_info_ok i = toy_ids_ok (snd (stripped toy_sig i)).
Proof.
  intros [r [l|]]; unfold toy_info_ok, stripped; simpl; [|reflexivity].
  rewrite map_map. reflexivity.
Qed.

Theorem toy_ok : sig_ok toy_sig.
Proof.
  constructor; simpl;
    try (apply mkpart_ok; intros; solve [congruence | reflexivity | eauto using t_deq_refl, t_deq_sym, t_deq_trans]);
    try (intros; tauto); try (intros; reflexivity); try solve [unfold triv; intros; auto].
  - (* P_li *)
    apply mkpart_ok.
    + intros [c l]. simpl. split; [apply orel_eq_iff; reflexivity|]. destruct l; simpl; [apply t_deq_refl|exact I].
    + intros x y [H1 H2]. split; [apply orel_eq_iff; apply orel_eq_iff in H1; congruence|].
      apply (orel_sym t_deq t_deq_sym). exact H2.
    + intros x y z [H1 H2] [H3 H4]. split.
      * apply orel_eq_iff. apply orel_eq_iff in H1. apply orel_eq_iff in H3. congruence.
      * eapply (orel_trans t_deq t_deq_trans); eassumption.
    + reflexivity.
  - (* lc_wf *) intros l. split; intros _; [|exact I]. apply Forall_forall. intros; exact I.
  - (* li_wf *) intros c ol. unfold triv, wf_dict. simpl. split; intros; [split; intros; auto|exact I].
  - (* info_eq_ids *)
    intros a b ->. destruct (snd b) as [l|]; simpl; [|exact I]. apply Forall2_refl_in. reflexivity.
  - (* lib_wf *) intros d. unfold triv, wf_dict. simpl. split; intros; auto.
  - (* veq_trans *) intros; congruence.
  - (* get_del *) intros. apply alookup_del.
  - (* is_empty_get *)
    intros d. split.
    + destruct d; [reflexivity|discriminate].
    + destruct d as [|[k v] d]; [reflexivity|]. intros H. specialize (H k). simpl in H.
      rewrite str_eqb_refl in H. discriminate.
  - (* deq_get *) intros a b. unfold t_deq. split; intros H k; [apply orel_eq_iff|apply orel_eq_iff]; apply H.
  - (* as_dict_veq *) intros v w ->. destruct w; simpl; [exact I|apply t_deq_refl].
  - (* wf_as *) intros. unfold wf_dict, triv. simpl. auto.
  - (* irest_dflt_spec *) intros r. apply N.eqb_eq.
  - (* groups_empty *) intros g H. apply N.eqb_eq in H. exact H.
  - (* kerning_empty *) intros g H. apply N.eqb_eq in H. exact H.
  - (* info_ok_stripped *) intros a b H. rewrite !toy_info_ok_stripped. rewrite H. reflexivity.
  - (* set_name_eq *) intros n a b ->. reflexivity.
Qed.

(** ** the example fonts are valid; what norad's writer produces for them *)
Lemma NoDup_str2 : forall a b : str, str_eqb a b = false -> NoDup [a; b].
Proof.
  intros a b H. constructor; [|constructor; [intros []|constructor]].
  intros [E|[]]. subst. rewrite str_eqb_refl in H. discriminate.
Qed.

Ltac triv_dict := unfold wf_dict; simpl; intros; unfold triv; auto.

Theorem toy_font_valid : font_valid toy_sig toy_font.
Proof.
  unfold font_valid, toy_font. simpl.
  split; [reflexivity|]. split; [exact I|]. split; [reflexivity|]. split; [exact I|].
  split.
  { constructor; [|constructor; [|constructor]].
    - split; intros x Hx; inversion Hx; subst.
      + split; [triv_dict|eexists; reflexivity].
      + exact I.
    - split; intros x Hx; discriminate. }
  split. { repeat constructor. simpl. tauto. }
  split. { triv_dict. }
  split; [reflexivity|]. split; [reflexivity|]. split; [exact I|]. split; [exact I|].
  unfold layers_ok. simpl. split.
  { split; [reflexivity|]. repeat constructor. simpl. intros H. apply (f_equal (@List.length N)) in H. discriminate. }
  split. { apply nodupb_iff; vm_compute; reflexivity. }
  split.
  { constructor; [|constructor; [|constructor]].
    - split; [triv_dict|]. split; [intros; exact I|]. split; [exact I|].
      split; [apply nodupb_iff; vm_compute; reflexivity|].
      constructor; [split; [exact I|reflexivity]|]. constructor; [split; [exact I|reflexivity]|constructor].
    - split; [triv_dict|]. split; [intros; exact I|]. split; [exact I|]. split; constructor. }
  split; [exact I|]. split; [apply nodupb_iff; vm_compute; reflexivity|].
  constructor; [intros _; reflexivity|]. constructor; [|constructor].
  simpl. intros H. apply (f_equal (@List.length N)) in H. discriminate.
Qed.

Theorem toy_empty_valid : font_valid toy_sig toy_empty.
Proof.
  unfold font_valid, toy_empty. simpl.
  split; [reflexivity|]. split; [exact I|]. split; [reflexivity|]. split; [exact I|].
  split; [constructor|]. split; [constructor|]. split; [triv_dict; discriminate|].
  split; [reflexivity|]. split; [reflexivity|]. split; [exact I|]. split; [exact I|].
  unfold layers_ok. simpl. split; [split; [reflexivity|constructor]|].
  split; [apply nodupb_iff; vm_compute; reflexivity|].
  split.
  { constructor; [|constructor].
    split; [triv_dict; discriminate|]. split; [intros; discriminate|]. split; [exact I|]. split; constructor. }
  split; [exact I|]. split; [repeat constructor; simpl; tauto|].
  constructor; [intros _; reflexivity|constructor].
Qed.

(** ** C04: closedness of the toy parts, the orphan object-libs witness, a fixed-point example *)
Theorem toy_closed0 : sig_closed0 toy_sig.
Proof.
  constructor; simpl; try (intros c x _; exact I); try (intros; exact I).
  intros i H. apply nodupb_spec. unfold toy_info_ok in H. unfold guides_of. simpl.
  destruct (i_guides i); [exact H|reflexivity].
Qed.
Theorem toy_closed : sig_closed toy_sig.
Proof. constructor; [exact toy_closed0|intros c x _; exact I|intros; exact I]. Qed.

(** regression (1c81824): a tree with [public.objectLibs] in lib.plist and no fontinfo.plist is
    loaded WITHOUT the key, and the loaded font is saved *)
Theorem orphan_regression :
  exists f t', load toy_sig toy_orphan_tree = Ok f /\ d_get toy_sig OBJ (f_lib toy_sig f) = None /\
               save toy_sig 0 f = Ok t'.
Proof. eexists. eexists. vm_compute. repeat split; reflexivity. Qed.

(** regression (83f6c18, afd801a): duplicate layer names / directories and a glif file used twice
    are rejected by load *)
Definition toy_dup_tree (lc : list (str * str)) (contents : list (str * str)) : tree toy_sig :=
  Build_tree toy_sig
    (Some (CMeta {| m_creator := None; m_version := 3; m_minor := 0 |})) None None None None None
    (Some (CPairs lc))
    [(GLYPHS, Build_ldir toy_sig (Some (CPairs contents)) None [(s "a.glif", CGlif (s "a", 0))]);
     (s "glyphs.x", Build_ldir toy_sig (Some (CPairs [])) None [])]
    None None.
Theorem duplicates_rejected :
  load toy_sig (toy_dup_tree [(DEFAULT_LAYER_NAME, GLYPHS); (s "x", GLYPHS)] []) = Err LDuplicateLayerDirectory /\
  load toy_sig (toy_dup_tree [(s "x", GLYPHS); (s "x", s "glyphs.x")] []) = Err LDuplicateLayerName /\
  load toy_sig (toy_dup_tree [(s "x", GLYPHS); (DEFAULT_LAYER_NAME, s "glyphs.x")] []) = Err LReservedLayerName /\
  load toy_sig (toy_dup_tree [(s "x", GLYPHS)] [(s "a", s "a.glif"); (s "b", s "a.glif")]) = Err LDuplicateGlyphFile /\
  (* compared without case (f6784f0) *)
  load toy_sig (toy_dup_tree [(s "x", GLYPHS); (s "y", s "glyphs.X"); (s "z", s "glyphs.x")] []) = Err LDuplicateLayerDirectory /\
  load toy_sig (toy_dup_tree [(s "x", GLYPHS)] [(s "a", s "a.glif"); (s "b", s "A.glif")]) = Err LDuplicateGlyphFile /\
  exists f, load toy_sig (toy_dup_tree [(s "y", s "glyphs.x"); (s "x", GLYPHS)] [(s "a", s "a.glif")]) = Ok f.
Proof. repeat split; try (vm_compute; reflexivity). eexists. vm_compute. reflexivity. Qed.

Theorem fixed_point_example :
  exists t f, save toy_sig 0 toy_font = Ok t /\ load toy_sig t = Ok f /\ font_valid toy_sig f.
Proof.
  destruct (save_load_roundtrip toy_sig toy_ok 0 toy_font toy_font_valid) as (t & Hs & _ & f & Hl & _).
  exists t, f. split; [exact Hs|]. split; [exact Hl|].
  assert (Ht : save toy_sig 0 toy_font = Ok t) by exact Hs.
  vm_compute in Ht. inversion Ht; subst t; clear Ht.
  eapply (load_yields_valid toy_sig toy_ok toy_closed); [exact Hl|reflexivity|reflexivity|reflexivity].
Qed.
