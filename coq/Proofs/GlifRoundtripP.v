(** Composite encode-then-parse theorem for glyphs without libs: every other part of a valid
    glyph survives [encode_glif] followed by [parse_glif], assembled from the per-component
    codec lemmas of Proofs/GlifEncodeP.v. *)
Require Import Norad.Model.GlifSpec Norad.Model.GlifDen Norad.Model.GlifEncode.
Require Import Norad.Proofs.ContourP Norad.Proofs.GlifParseP Norad.Proofs.GlifSpecP
        Norad.Proofs.GlifCompleteP Norad.Proofs.GlifEncodeP.
Open Scope N_scope.

Section RT.
  Variable pf : str -> option fl.
  Variable ff ff3 : fl -> str.
  Variable fi : Z -> str.
  Variable fh : N -> str.
  Variable o : wopts.
  Variable close3 : fl -> fl -> Prop.
  Hypothesis H_ff : forall x, fl_finite x = true -> pf (ff x) = Some x.
  Hypothesis H_ff3 : forall x, unit_range x = true ->
    ~ In 44 (ff3 x) /\ exists y, pf (chan ff3 x) = Some y /\ unit_range y = true /\ close3 x y.
  (** L1: [format!("{:04X}")] and [u32::from_str_radix] invert on scalar values *)
  Hypothesis H_fh : forall c, is_scalar c = true -> parse_hex (fh c) = Some c.

  Lemma parse_children_app ver : forall l1 l2 st,
    parse_children pf ver st (l1 ++ l2)
    = bind (parse_children pf ver st l1) (fun st' => parse_children pf ver st' l2).
  Proof.
    induction l1 as [|n l1 IH]; intros l2 st; cbn [app parse_children bind]; [reflexivity|].
    destruct (parse_child pf ver st n); cbn [bind]; [apply IH|reflexivity|reflexivity].
  Qed.

  Definition upd_g (st : pst) (g : glyph) : pst :=
    mkPst g (st_seen st) (st_adv st) (st_lib st) (st_out st) (st_note st).
  Ltac fin st :=
    destruct st as [g ? ? ? ?]; destruct g;
    unfold set_anchors, set_guides, set_cps, set_adv, set_image, set_note, set_outline, upd_g;
    cbn [st_g st_seen st_adv st_lib st_out st_note gname gwidth gheight gcps gnote gimage gguides ganchors gcomps
         gcontours glib];
    rewrite ?rev_app_distr, <- ?app_assoc; cbn [app]; reflexivity.

  (* ---------- code points ---------- *)
  Lemma step_unicodes : forall cps st,
    Forall (fun c => is_scalar c = true) cps ->
    parse_children pf 2 st (map (fun c => Empty (s2l "unicode") [(k_hex, fh c)]) cps)
    = Ok (upd_g st (set_cps (st_g st) (fold_left (fun a c => cps_insert c a) cps (gcps (st_g st))))).
  Proof.
    induction cps as [|c cps IH]; intros st HS; cbn [map parse_children fold_left].
    - destruct st as [g ? ? ? ?]. destruct g. reflexivity.
    - inversion HS as [|? ? Hc HS']; subst.
      unfold parse_child. change (ekind_of (s2l "unicode")) with (Some KUnicode).
      unfold parse_unicode. cbn [attr_loop andb]. change (has_key k_hex []) with false.
      change (lookup k_hex (arms KUnicode)) with (Some AHex). cbn [parse_val]. rewrite (H_fh c Hc). cbn [bind app attr_loop].
      change (lookup k_hex [(k_hex, VHex c)]) with (Some (VHex c)). cbn [bind].
      rewrite IH by exact HS'. destruct st as [g ? ? ? ?]. destruct g. reflexivity.
  Qed.

  (* ---------- anchors and guidelines ---------- *)
  Definition anchor_rel (a a' : anchor) : Prop :=
    ax a' = ax a /\ ay a' = ay a /\ aname a' = aname a /\ aid a' = aid a /\ alib a' = None /\
    ocolor_close close3 (acolor a) (acolor a').
  Definition guide_rel (g g' : guideline) : Prop :=
    gline g' = gline g /\ guname g' = guname g /\ guid g' = guid g /\ gulib g' = None /\
    ocolor_close close3 (gcolor g) (gcolor g').

  Lemma step_anchors : forall l st,
    Forall anchor_rules l -> Forall (fun a => fl_finite (ax a) = true /\ fl_finite (ay a) = true) l ->
    NoDup (gaids l) -> (forall i, In i (gaids l) -> ~ In i (st_seen st)) ->
    exists l', Forall2 anchor_rel l l' /\
      parse_children pf 2 st (map (enc_anchor ff ff3) l)
      = Ok (mkPst (set_anchors (st_g st) (ganchors (st_g st) ++ l')) (rev (gaids l) ++ st_seen st)
                  (st_adv st) (st_lib st) (st_out st) (st_note st)).
  Proof.
    induction l as [|a l IH]; intros st HR HFin ND HF; cbn [map parse_children].
    - exists []. split; [constructor|]. rewrite app_nil_r. destruct st as [g ? ? ? ?]. destruct g. reflexivity.
    - inversion HR as [|? ? Ra HR']; subst. inversion HFin as [|? ? [Fx Fy] HFin']; subst.
      unfold gaids in ND, HF. cbn [flat_map] in ND, HF. apply NoDup_app_inv in ND as (ND1 & ND2 & ND3).
      destruct (anchor_roundtrip pf ff ff3 close3 H_ff H_ff3 a (st_seen st) Ra Fx Fy) as (a' & P & REL).
      { intros i Hi. apply HF. apply in_app_iff. left; exact Hi. }
      unfold parse_child. unfold enc_anchor at 1. change (ekind_of (s2l "anchor")) with (Some KAnchor). change (2 =? 1) with false. cbv iota.
      unfold enc_anchor, attrs_of in P. cbn [as_elem] in P. rewrite P. cbn [bind].
      match goal with |- context [parse_children pf 2 ?s _] => destruct (IH s HR' HFin' ND2) as (l' & F2 & E) end.
      { cbn [st_seen]. intros i Hi Hin. apply in_app_iff in Hin as [Hin|Hin].
        - apply in_rev in Hin. exact (ND3 i Hin Hi).
        - apply (HF i); [apply in_app_iff; right; exact Hi|exact Hin]. }
      exists (a' :: l'). split; [constructor; [exact REL|exact F2]|]. rewrite E.
      unfold gaids. cbn [flat_map]. fin st.
  Qed.

  Lemma step_guides : forall l st,
    Forall guide_rules l -> Forall (fun g => line_finite (gline g)) l ->
    NoDup (ggids l) -> (forall i, In i (ggids l) -> ~ In i (st_seen st)) ->
    exists l', Forall2 guide_rel l l' /\
      parse_children pf 2 st (map (enc_guideline ff ff3) l)
      = Ok (mkPst (set_guides (st_g st) (gguides (st_g st) ++ l')) (rev (ggids l) ++ st_seen st)
                  (st_adv st) (st_lib st) (st_out st) (st_note st)).
  Proof.
    induction l as [|a l IH]; intros st HR HFin ND HF; cbn [map parse_children].
    - exists []. split; [constructor|]. rewrite app_nil_r. destruct st as [g ? ? ? ?]. destruct g. reflexivity.
    - inversion HR as [|? ? Ra HR']; subst. inversion HFin as [|? ? Fl HFin']; subst.
      unfold ggids in ND, HF. cbn [flat_map] in ND, HF. apply NoDup_app_inv in ND as (ND1 & ND2 & ND3).
      destruct (guideline_roundtrip pf ff ff3 close3 H_ff H_ff3 a (st_seen st) Ra Fl) as (a' & P & REL).
      { intros i Hi. apply HF. apply in_app_iff. left; exact Hi. }
      unfold parse_child. unfold enc_guideline at 1. change (ekind_of (s2l "guideline")) with (Some KGuideline). change (2 =? 1) with false. cbv iota.
      unfold enc_guideline, attrs_of in P. cbn [as_elem] in P. rewrite P. cbn [bind].
      match goal with |- context [parse_children pf 2 ?s _] => destruct (IH s HR' HFin' ND2) as (l' & F2 & E) end.
      { cbn [st_seen]. intros i Hi Hin. apply in_app_iff in Hin as [Hin|Hin].
        - apply in_rev in Hin. exact (ND3 i Hin Hi).
        - apply (HF i); [apply in_app_iff; right; exact Hi|exact Hin]. }
      exists (a' :: l'). split; [constructor; [exact REL|exact F2]|]. rewrite E.
      unfold ggids. cbn [flat_map]. fin st.
  Qed.

  (* ---------- outline ---------- *)
  Definition contour_written (c : contour) : contour :=
    mkContour (map point_written (cpoints c)) (cid c) None.
  Definition comp_written (c : component) : component :=
    mkComp (cbase c) (transform_written (ctrans c)) (coid c) None.
  Definition contour_finite (c : contour) : Prop :=
    Forall (fun p => fl_finite (px p) = true /\ fl_finite (py p) = true) (cpoints c).

  Lemma outline_contours : forall cs seen acc ks0 rest,
    Forall contour_rules cs -> Forall contour_finite cs ->
    NoDup (flat_map gcids cs) -> (forall i, In i (flat_map gcids cs) -> ~ In i seen) ->
    parse_outline_kids pf 2 seen acc ks0 (map (enc_contour ff) cs ++ rest)
    = parse_outline_kids pf 2 (rev (flat_map gcids cs) ++ seen) (acc ++ map contour_written cs) ks0 rest.
  Proof.
    induction cs as [|c cs IH]; intros seen acc ks0 rest HR HFin ND HF; cbn [map app flat_map rev].
    - rewrite app_nil_r. reflexivity.
    - inversion HR as [|? ? Rc HR']; subst. inversion HFin as [|? ? Fc HFin']; subst.
      cbn [flat_map] in ND, HF. apply NoDup_app_inv in ND as (ND1 & ND2 & ND3).
      pose proof (contour_roundtrip pf ff H_ff c seen Rc Fc ND1) as P.
      unfold enc_contour at 1. cbn [parse_outline_kids]. change (ekind_of (s2l "contour")) with (Some KContour).
      unfold enc_contour, attrs_of, kids_of in P. cbn [as_elem] in P. rewrite P.
      2:{ intros i Hi. apply HF. apply in_app_iff. left; exact Hi. }
      cbn [bind]. rewrite IH; auto.
      + rewrite rev_app_distr, <- !app_assoc. reflexivity.
      + intros i Hi Hin. apply in_app_iff in Hin as [Hin|Hin].
        * apply in_rev in Hin. exact (ND3 i Hin Hi).
        * apply (HF i); [apply in_app_iff; right; exact Hi|exact Hin].
  Qed.

  Lemma outline_components : forall ks seen cs0 acc,
    Forall comp_rules ks -> Forall (fun c => transform_finite (ctrans c)) ks ->
    NoDup (gkids ks) -> (forall i, In i (gkids ks) -> ~ In i seen) ->
    parse_outline_kids pf 2 seen cs0 acc (map (enc_component ff) ks)
    = Ok (cs0, acc ++ map comp_written ks, rev (gkids ks) ++ seen).
  Proof.
    induction ks as [|c ks IH]; intros seen cs0 acc HR HFin ND HF; cbn [map parse_outline_kids].
    - rewrite app_nil_r. reflexivity.
    - inversion HR as [|? ? Rc HR']; subst. inversion HFin as [|? ? Fc HFin']; subst.
      unfold gkids in ND, HF. cbn [flat_map] in ND, HF. apply NoDup_app_inv in ND as (ND1 & ND2 & ND3).
      pose proof (component_roundtrip pf ff H_ff c seen Rc Fc) as P.
      unfold enc_component at 1. change (ekind_of (s2l "component")) with (Some KComponent).
      unfold enc_component, attrs_of in P. cbn [as_elem] in P. rewrite P.
      2:{ intros i Hi. apply HF. apply in_app_iff. left; exact Hi. }
      cbn [bind]. rewrite IH; auto.
      + unfold gkids. cbn [flat_map map]. rewrite rev_app_distr, <- !app_assoc. reflexivity.
      + intros i Hi Hin. apply in_app_iff in Hin as [Hin|Hin].
        * apply in_rev in Hin. exact (ND3 i Hin Hi).
        * apply (HF i); [apply in_app_iff; right; exact Hi|exact Hin].
  Qed.

  Lemma enc_kids_elements cs ks :
    forallb is_element (map (enc_contour ff) cs ++ map (enc_component ff) ks) = true.
  Proof.
    rewrite forallb_app. apply andb_true_iff. split.
    - induction cs; [reflexivity|]. cbn. assumption.
    - induction ks; [reflexivity|]. cbn. assumption.
  Qed.

  Lemma step_outline cs ks st :
    st_out st = false ->
    Forall contour_rules cs -> Forall contour_finite cs ->
    Forall comp_rules ks -> Forall (fun c => transform_finite (ctrans c)) ks ->
    NoDup (flat_map gcids cs ++ gkids ks) ->
    (forall i, In i (flat_map gcids cs ++ gkids ks) -> ~ In i (st_seen st)) ->
    parse_child pf 2 st (Elem (s2l "outline") [] (map (enc_contour ff) cs ++ map (enc_component ff) ks))
    = Ok (mkPst (set_outline (st_g st) (ganchors (st_g st)) (gcomps (st_g st) ++ map comp_written ks)
                             (gcontours (st_g st) ++ map contour_written cs))
                (rev (flat_map gcids cs ++ gkids ks) ++ st_seen st) (st_adv st) (st_lib st) true (st_note st)).
  Proof.
    intros SO HC FC HK FK ND HF. unfold parse_child. change (ekind_of (s2l "outline")) with (Some KOutline).
    rewrite SO. unfold parse_outline. rewrite (tview_elements _ (enc_kids_elements cs ks)).
    apply NoDup_app_inv in ND as (ND1 & ND2 & ND3).
    rewrite outline_contours; auto.
    2:{ intros i Hi. apply HF. apply in_app_iff. left; exact Hi. }
    rewrite outline_components; auto.
    2:{ intros i Hi Hin. apply in_app_iff in Hin as [Hin|Hin].
        - apply in_rev in Hin. exact (ND3 i Hin Hi).
        - apply (HF i); [apply in_app_iff; right; exact Hi|exact Hin]. }
    cbn [bind app]. change (2 =? 1) with false. cbv iota.
    rewrite rev_app_distr, <- !app_assoc, app_nil_r. reflexivity.
  Qed.

  (* ---------- advance, image, note ---------- *)
  Definition zero_norm (x : fl) : fl := if fl_nonzero x then x else f0.

  Lemma step_advance w h st :
    st_adv st = false -> fl_finite w = true -> fl_finite h = true ->
    parse_child pf 2 st (Empty (s2l "advance")
                           (cond_attr (fl_nonzero h) k_height (ff h) ++ cond_attr (fl_nonzero w) k_width (ff w)))
    = Ok (mkPst (set_adv (st_g st) (zero_norm w) (zero_norm h)) (st_seen st) true (st_lib st) (st_out st) (st_note st)).
  Proof.
    intros SA Fw Fh. unfold parse_child. change (ekind_of (s2l "advance")) with (Some KAdvance). rewrite SA.
    unfold parse_advance, zero_norm.
    destruct (fl_nonzero h), (fl_nonzero w); cbn [cond_attr app attr_loop andb];
      repeat (first [ change (has_key k_height []) with false | change (has_key k_width []) with false
                    | change (has_key k_width [(k_height, ?x)]) with false ]);
      change (lookup k_height (arms KAdvance)) with (Some ANum);
      change (lookup k_width (arms KAdvance)) with (Some ANum);
      cbn [parse_val]; rewrite ?(H_ff _ Fw), ?(H_ff _ Fh); cbn [bind app attr_loop has_key lookup];
      try (replace (str_eqb k_width k_height) with false by (vm_compute; reflexivity));
      cbn [lookup]; change (lookup k_width (arms KAdvance)) with (Some ANum); cbn [parse_val];
      rewrite ?(H_ff _ Fw); cbn [bind app attr_loop]; unfold num_or, get_num; cbn [lookup];
      repeat match goal with |- context [str_eqb ?a ?b] =>
               let v := eval vm_compute in (str_eqb a b) in
               lazymatch v with
               | true => replace (str_eqb a b) with true by (vm_compute; reflexivity)
               | false => replace (str_eqb a b) with false by (vm_compute; reflexivity)
               end end; cbn [lookup]; reflexivity.
  Qed.

  Definition image_rel (i i' : image) : Prop :=
    ifile i' = ifile i /\ itrans i' = transform_written (itrans i) /\ ocolor_close close3 (icolor i) (icolor i').

  Lemma step_image i st :
    gimage (st_g st) = None -> image_rules i -> transform_finite (itrans i) ->
    exists i', image_rel i i' /\
      parse_child pf 2 st (enc_image ff ff3 i) = Ok (upd_g st (set_image (st_g st) (Some i'))).
  Proof.
    intros GI RI TF. destruct (image_roundtrip pf ff ff3 close3 H_ff H_ff3 i (st_seen st) RI TF) as (i' & P & REL).
    exists i'. split; [exact REL|]. unfold parse_child, enc_image at 1.
    change (ekind_of (s2l "image")) with (Some KImage). change (2 =? 1) with false. cbv iota. rewrite GI.
    unfold enc_image, attrs_of in P. cbn [as_elem] in P. rewrite P. reflexivity.
  Qed.

  Lemma step_note n st :
    st_note st = false -> gnote (st_g st) = None -> note_survives (Some n) = true ->
    parse_child pf 2 st (Elem (s2l "note") [] (text_kids n))
    = Ok (mkPst (set_note (st_g st) (Some n)) (st_seen st) (st_adv st) (st_lib st) (st_out st) true).
  Proof.
    intros SN GN NS. unfold parse_child. change (ekind_of (s2l "note")) with (Some KNote).
    change (2 =? 1) with false. cbv iota. rewrite SN, GN. cbn [no_attrs negb].
    cbn [note_survives] in NS. apply andb_true_iff in NS as [N1 N2]. apply negb_true_iff in N1.
    apply list_eqb_eq in N2.
    assert (E : note_of None (text_kids n) = Some n) by (apply note_roundtrip_iff; auto).
    rewrite E. reflexivity.
  Qed.

  (* ---------- the whole glyph (without libs) ---------- *)
  Definition lib_free (g : glyph) : Prop :=
    glib g = [] /\ Forall (fun a => alib a = None) (ganchors g) /\ Forall (fun x => gulib x = None) (gguides g) /\
    Forall (fun c => clib c = None /\ Forall (fun p => plib p = None) (cpoints c)) (gcontours g) /\
    Forall (fun c => colib c = None) (gcomps g).
  Definition glyph_finite (g : glyph) : Prop :=
    fl_finite (gwidth g) = true /\ fl_finite (gheight g) = true /\
    match gimage g with Some i => transform_finite (itrans i) | None => True end /\
    Forall (fun x => line_finite (gline x)) (gguides g) /\
    Forall (fun a => fl_finite (ax a) = true /\ fl_finite (ay a) = true) (ganchors g) /\
    Forall (fun c => transform_finite (ctrans c)) (gcomps g) /\ Forall contour_finite (gcontours g).
  Definition oimage_rel (i i' : option image) : Prop :=
    match i, i' with Some x, Some y => image_rel x y | None, None => True | _, _ => False end.

  Lemma fold_dump_none {A} (idof : A -> option str) (libof : A -> option dict) l acc :
    Forall (fun x => libof x = None) l ->
    fold_left (fun a x => dump1 (idof x) (libof x) a) l acc = acc.
  Proof.
    revert acc. induction l as [|x l IH]; intros acc H; [reflexivity|]. inversion H as [|? ? Hx Hl]; subst.
    cbn [fold_left]. rewrite Hx. cbn [dump1]. apply IH; exact Hl.
  Qed.
  Lemma dump_lib_free g : lib_free g -> dump_object_libs g = Ok [].
  Proof.
    intros (_ & LA & LG & LC & LK). unfold dump_object_libs.
    rewrite (fold_dump_none aid alib _ _ LA), (fold_dump_none guid gulib _ _ LG).
    assert (E : forall l, Forall (fun c => clib c = None /\ Forall (fun p => plib p = None) (cpoints c)) l ->
                forall acc, fold_left (fun acc c => fold_left (fun acc p => dump1 (pid p) (plib p) acc) (cpoints c)
                                                     (dump1 (cid c) (clib c) acc)) l acc = acc).
    { induction l as [|c cs IH]; intros HL acc; [reflexivity|]. inversion HL as [|? ? [Hc Hp] LC']; subst.
      cbn [fold_left]. rewrite Hc. cbn [dump1]. rewrite (fold_dump_none pid plib _ _ Hp). apply IH; exact LC'. }
    rewrite E; [apply (fold_dump_none coid colib _ _ LK)|].
    apply Forall_forall. intros c Hc. apply filter_In in Hc as [Hc _]. rewrite Forall_forall in LC. apply LC; exact Hc.
  Qed.

  Lemma filter_has_points cs : Forall contour_rules cs -> filter has_points cs = cs.
  Proof.
    induction 1 as [|c cs (NE & _) F IH]; [reflexivity|]. cbn [filter]. unfold has_points at 1.
    destruct (cpoints c); [contradiction|]. rewrite IH. reflexivity.
  Qed.

  Lemma map_elements {A} (f : A -> node) l :
    (forall x, is_element (f x) = true) -> forallb is_element (map f l) = true.
  Proof. intros H. induction l as [|x l IH]; [reflexivity|]. cbn [map forallb]. rewrite H, IH. reflexivity. Qed.

  Lemma NoDup_app_swap {A} (l1 l2 : list A) : NoDup (l1 ++ l2) -> NoDup (l2 ++ l1).
  Proof. intros H. eapply Permutation_NoDup; [apply Permutation_app_comm|exact H]. Qed.

  Lemma ok_ex {A} (X : res A) (P : A -> Prop) :
    match X with Ok a => P a | _ => False end -> exists a, X = Ok a /\ P a.
  Proof. destruct X; [eauto|contradiction|contradiction]. Qed.

  (* ---------- the written tree and the reader's run over it, for any lib section ---------- *)
  Definition glyph_kids (g : glyph) (libn : list node) : list node :=
    map (fun c => Empty (s2l "unicode") [(k_hex, fh c)]) (gcps g) ++
    (if fl_nonzero (gwidth g) || fl_nonzero (gheight g)
     then [Empty (s2l "advance")
             (cond_attr (fl_nonzero (gheight g)) k_height (ff (gheight g)) ++
              cond_attr (fl_nonzero (gwidth g)) k_width (ff (gwidth g)))]
     else []) ++
    (match gimage g with Some i => [enc_image ff ff3 i] | None => [] end) ++
    enc_outline ff (gcontours g) (gcomps g) ++
    map (enc_anchor ff ff3) (ganchors g) ++ map (enc_guideline ff ff3) (gguides g) ++
    libn ++
    (match gnote g with Some n => [Elem (s2l "note") [] (text_kids n)] | None => [] end).
  Definition glyph_tree (g : glyph) (libn : list node) : node :=
    Elem (s2l "glyph") [(k_name, gname g); (k_format, s2l "2")] (glyph_kids g libn).
  Lemma encode_tree g :
    encode_glif ff ff3 fi fh o g = bind (enc_lib ff fi o g) (fun libn => Ok (glyph_tree g libn)).
  Proof. reflexivity. Qed.

  Definition st0 (g : glyph) : pst := mkPst (glyph_new (gname g)) [] false false false false.

  Lemma parse_glif_tree g libn :
    glyph_rules g -> forallb is_element libn = true ->
    parse_glif pf (written_doc (glyph_tree g libn))
    = bind (parse_children pf 2 (st0 g) (glyph_kids g libn)) (fun st => load_object_libs (st_g st)).
  Proof.
    intros (RN & _ & _ & _ & _ & _ & _ & RCo & _) EL.
    unfold parse_glif, written_doc, glyph_tree. cbn [tview find_root]. change (ekind_of (s2l "glyph")) with (Some KGlyph). cbn [bind].
    assert (PS : parse_start pf [(k_name, gname g); (k_format, s2l "2")] = Ok (gname g, 2)).
    { unfold parse_start. cbn [attr_loop andb]. change (has_key k_name []) with false.
      change (lookup k_name (arms KGlyph)) with (Some AName). cbn [parse_val]. rewrite RN. cbn [bind app attr_loop andb].
      replace (has_key k_format [(k_name, VName (gname g))]) with false by (vm_compute; reflexivity).
      change (lookup k_format (arms KGlyph)) with (Some AU32). cbn [parse_val].
      replace (parse_u32 (s2l "2")) with (Some 2) by (vm_compute; reflexivity). cbn [bind app attr_loop].
      unfold get_name. cbn [lookup]. rewrite str_eqb_refl.
      replace (str_eqb k_format k_name) with false by (vm_compute; reflexivity). rewrite str_eqb_refl.
      replace (str_eqb k_formatMinor k_name) with false by (vm_compute; reflexivity).
      replace (str_eqb k_formatMinor k_format) with false by (vm_compute; reflexivity). reflexivity. }
    rewrite PS. cbn [bind].
    assert (TV : tview (glyph_kids g libn) = glyph_kids g libn).
    { apply tview_elements. unfold glyph_kids. rewrite !forallb_app. repeat (apply andb_true_iff; split).
      - apply map_elements. reflexivity.
      - destruct (fl_nonzero (gwidth g) || fl_nonzero (gheight g)); reflexivity.
      - destruct (gimage g); reflexivity.
      - unfold enc_outline. rewrite (filter_has_points _ RCo). destruct (gcontours g), (gcomps g); reflexivity.
      - apply map_elements. reflexivity.
      - apply map_elements. reflexivity.
      - exact EL.
      - destruct (gnote g); reflexivity. }
    rewrite TV. reflexivity.
  Qed.

  (** the glyph the reader has assembled when it reaches </glyph>: everything but the object libs *)
  Definition body_ok (g : glyph) (d' : dict) (g1 : glyph) : Prop :=
    gname g1 = gname g /\ gwidth g1 = zero_norm (gwidth g) /\ gheight g1 = zero_norm (gheight g) /\
    gcps g1 = gcps g /\ gnote g1 = gnote g /\ oimage_rel (gimage g) (gimage g1) /\
    Forall2 guide_rel (gguides g) (gguides g1) /\ Forall2 anchor_rel (ganchors g) (ganchors g1) /\
    gcomps g1 = map comp_written (gcomps g) /\ gcontours g1 = map contour_written (gcontours g) /\
    glib g1 = d'.

  Lemma roundtrip_body g libn d' :
    glyph_rules g -> glyph_finite g -> note_survives (gnote g) = true ->
    (forall st, st_lib st = false -> glib (st_g st) = [] ->
       exists b, parse_children pf 2 st libn
                 = Ok (mkPst (set_lib (st_g st) d') (st_seen st) (st_adv st) b (st_out st) (st_note st))) ->
    exists st, parse_children pf 2 (st0 g) (glyph_kids g libn) = Ok st /\ body_ok g d' (st_g st).
  Proof.
    intros (RN & RC1 & RC2 & RI & RG & RA & RK & RCo & RID) (Fw & Fh & Fi & Fg & Fa & Fk & Fc) NS HLIB.
    apply ok_ex.
    (* identifiers: the reader meets contours, components, anchors, guidelines *)
    rewrite glyph_ids_eq in RID.
    set (A := gaids (ganchors g)) in *. set (G := ggids (gguides g)) in *.
    set (C := flat_map gcids (gcontours g)) in *. set (K := gkids (gcomps g)) in *.
    assert (NCK : NoDup (C ++ K)).
    { rewrite app_assoc in RID. apply NoDup_app_inv in RID. apply RID. }
    assert (NA : NoDup A) by (apply NoDup_app_inv in RID; apply RID).
    assert (NG : NoDup G).
    { apply NoDup_app_inv in RID as (_ & R & _). apply NoDup_app_inv in R. apply R. }
    assert (DA : forall i, In i A -> ~ In i (C ++ K)).
    { apply NoDup_app_inv in RID as (_ & _ & R). intros i Hi Hin. apply (R i Hi). apply in_app_iff. right; exact Hin. }
    assert (DG : forall i, In i G -> ~ In i A /\ ~ In i (C ++ K)).
    { intros i Hi. split.
      - apply NoDup_app_inv in RID as (_ & _ & R). intros Hin. apply (R i Hin). apply in_app_iff. left; exact Hi.
      - apply NoDup_app_inv in RID as (_ & R & _). apply NoDup_app_inv in R as (_ & _ & R). apply R; exact Hi. }
    unfold glyph_kids, st0.
    (* code points *)
    rewrite parse_children_app, step_unicodes by exact RC2.
    cbn [bind glyph_new upd_g set_cps st_g st_seen st_adv st_lib st_out st_note gcps].
    rewrite (codepoints_order_preserved _ RC1 []) by (intros ? _ []). cbn [app].
    (* advance *)
    rewrite parse_children_app.
    match goal with |- context [parse_children pf 2 ?st (if ?b then [?x] else [])] =>
      assert (EA : parse_children pf 2 st (if b then [x] else [])
                   = Ok (mkPst (set_adv (st_g st) (zero_norm (gwidth g)) (zero_norm (gheight g)))
                               (st_seen st) b (st_lib st) (st_out st) (st_note st)))
    end.
    { destruct (fl_nonzero (gwidth g) || fl_nonzero (gheight g)) eqn:EB; cbn [parse_children].
      - rewrite step_advance by (try reflexivity; assumption). reflexivity.
      - apply orb_false_iff in EB as [E1 E2]. unfold zero_norm. rewrite E1, E2. reflexivity. }
    rewrite EA. clear EA. cbn [bind st_g st_seen st_adv st_lib st_out st_note set_adv].
    (* image *)
    rewrite parse_children_app.
    match goal with |- context [parse_children pf 2 ?st (match gimage g with Some i => [?f i] | None => [] end)] =>
      set (stI := st);
      assert (EI : exists oi, oimage_rel (gimage g) oi /\
                   parse_children pf 2 stI (match gimage g with Some i => [f i] | None => [] end)
                   = Ok (upd_g stI (set_image (st_g stI) oi)))
    end.
    { destruct (gimage g) as [i|]; cbn [parse_children].
      - destruct (step_image i stI eq_refl RI Fi) as (i' & REL & ->). exists (Some i'). split; [exact REL|reflexivity].
      - exists None. split; [exact I|]. subst stI. reflexivity. }
    destruct EI as (oi & RELI & ->). subst stI. cbn [bind upd_g st_g st_seen st_adv st_lib st_out st_note set_image].
    (* outline *)
    rewrite parse_children_app.
    match goal with |- context [parse_children pf 2 ?st (enc_outline ff (gcontours g) (gcomps g))] =>
      assert (EO : exists b, parse_children pf 2 st (enc_outline ff (gcontours g) (gcomps g))
                   = Ok (mkPst (set_outline (st_g st) (ganchors (st_g st)) (map comp_written (gcomps g))
                                            (map contour_written (gcontours g)))
                               (rev (C ++ K) ++ st_seen st) (st_adv st) (st_lib st) b (st_note st)))
    end.
    { assert (S1 : enc_outline ff (gcontours g) (gcomps g)
                   = if match gcontours g, gcomps g with [], [] => true | _, _ => false end then []
                     else [Elem (s2l "outline") [] (map (enc_contour ff) (gcontours g) ++ map (enc_component ff) (gcomps g))]).
      { unfold enc_outline. rewrite (filter_has_points _ RCo). destruct (gcontours g), (gcomps g); reflexivity. }
      rewrite S1. destruct (match gcontours g, gcomps g with [], [] => true | _, _ => false end) eqn:EE.
      - destruct (gcontours g) eqn:E1, (gcomps g) eqn:E2; try discriminate. exists false. subst C K.
        reflexivity.
      - exists true. cbn [parse_children]. rewrite step_outline; auto; try reflexivity; try (intros ? _ []). }
    destruct EO as (bo & ->). cbn [bind st_g st_seen st_adv st_lib st_out st_note set_outline ganchors gguides app].
    rewrite app_nil_r.
    (* anchors *)
    rewrite parse_children_app.
    match goal with |- context [parse_children pf 2 ?st (map (enc_anchor ff ff3) _)] =>
      destruct (step_anchors (ganchors g) st RA Fa NA) as (an' & RELA & ->) end.
    { cbn [st_seen]. intros i Hi Hin. apply in_rev in Hin. exact (DA i Hi Hin). }
    cbn [bind st_g st_seen st_adv st_lib st_out st_note set_anchors ganchors gguides app].
    (* guidelines *)
    rewrite parse_children_app.
    match goal with |- context [parse_children pf 2 ?st (map (enc_guideline ff ff3) _)] =>
      destruct (step_guides (gguides g) st RG Fg NG) as (gu' & RELG & ->) end.
    { cbn [st_seen]. intros i Hi Hin. destruct (DG i Hi) as [D1 D2]. apply in_app_iff in Hin as [Hin|Hin].
      - apply in_rev in Hin. exact (D1 Hin).
      - apply in_rev in Hin. exact (D2 Hin). }
    cbn [bind st_g st_seen st_adv st_lib st_out st_note set_guides ganchors gguides app parse_children].
    (* lib *)
    rewrite parse_children_app.
    match goal with |- context [parse_children pf 2 ?st libn] =>
      destruct (HLIB st eq_refl eq_refl) as (bl & ->) end.
    cbn [bind st_g st_seen st_adv st_lib st_out st_note set_lib].
    (* note *)
    match goal with |- context [parse_children pf 2 ?st (match gnote g with Some _ => _ | None => [] end)] =>
      assert (EN : parse_children pf 2 st
                     (match gnote g with Some n => [Elem (s2l "note") [] (text_kids n)] | None => [] end)
                   = Ok (mkPst (set_note (st_g st) (gnote g)) (st_seen st) (st_adv st) (st_lib st) (st_out st)
                               (match gnote g with Some _ => true | None => false end)))
    end.
    { destruct (gnote g) as [n|] eqn:EN; cbn [parse_children].
      - rewrite step_note by (try reflexivity; exact NS). reflexivity.
      - reflexivity. }
    rewrite EN. clear EN. cbn [bind upd_g st_g set_note].
    cbv iota. unfold body_ok. cbn [st_g gname gwidth gheight gcps gnote gimage gguides ganchors gcomps gcontours glib].
    repeat split; auto.
  Qed.

  Theorem roundtrip_libfree g :
    glyph_rules g -> glyph_finite g -> lib_free g -> note_survives (gnote g) = true ->
    exists t g',
      encode_glif ff ff3 fi fh o g = Ok t /\ parse_glif pf (written_doc t) = Ok g' /\
      gname g' = gname g /\ gwidth g' = zero_norm (gwidth g) /\ gheight g' = zero_norm (gheight g) /\
      gcps g' = gcps g /\ gnote g' = gnote g /\ oimage_rel (gimage g) (gimage g') /\
      Forall2 guide_rel (gguides g) (gguides g') /\ Forall2 anchor_rel (ganchors g) (ganchors g') /\
      gcomps g' = map comp_written (gcomps g) /\ gcontours g' = map contour_written (gcontours g) /\
      glib g' = [].
  Proof.
    intros (RN & RC1 & RC2 & RI & RG & RA & RK & RCo & RID) (Fw & Fh & Fi & Fg & Fa & Fk & Fc) LF NS.
    pose proof LF as (LB & _).
    unfold encode_glif, enc_lib, written_lib. rewrite (dump_lib_free g LF), LB. cbn [bind].
    eexists.
    match goal with |- exists g', Ok ?T = Ok _ /\ _ =>
      cut (exists g', parse_glif pf (written_doc T) = Ok g' /\
             gname g' = gname g /\ gwidth g' = zero_norm (gwidth g) /\ gheight g' = zero_norm (gheight g) /\
             gcps g' = gcps g /\ gnote g' = gnote g /\ oimage_rel (gimage g) (gimage g') /\
             Forall2 guide_rel (gguides g) (gguides g') /\ Forall2 anchor_rel (ganchors g) (ganchors g') /\
             gcomps g' = map comp_written (gcomps g) /\ gcontours g' = map contour_written (gcontours g) /\
             glib g' = []);
      [intros (g' & HP & HR); exists g'; split; [reflexivity|split; [exact HP|exact HR]]|]
    end.
    apply ok_ex.
    (* identifiers: the reader meets contours, components, anchors, guidelines *)
    rewrite glyph_ids_eq in RID.
    set (A := gaids (ganchors g)) in *. set (G := ggids (gguides g)) in *.
    set (C := flat_map gcids (gcontours g)) in *. set (K := gkids (gcomps g)) in *.
    assert (NCK : NoDup (C ++ K)).
    { rewrite app_assoc in RID. apply NoDup_app_inv in RID. apply RID. }
    assert (NA : NoDup A) by (apply NoDup_app_inv in RID; apply RID).
    assert (NG : NoDup G).
    { apply NoDup_app_inv in RID as (_ & R & _). apply NoDup_app_inv in R. apply R. }
    assert (DA : forall i, In i A -> ~ In i (C ++ K)).
    { apply NoDup_app_inv in RID as (_ & _ & R). intros i Hi Hin. apply (R i Hi). apply in_app_iff. right; exact Hin. }
    assert (DG : forall i, In i G -> ~ In i A /\ ~ In i (C ++ K)).
    { intros i Hi. split.
      - apply NoDup_app_inv in RID as (_ & _ & R). intros Hin. apply (R i Hin). apply in_app_iff. left; exact Hi.
      - apply NoDup_app_inv in RID as (_ & R & _). apply NoDup_app_inv in R as (_ & _ & R). apply R; exact Hi. }
    (* the document *)
    unfold parse_glif, written_doc. cbn [tview find_root]. change (ekind_of (s2l "glyph")) with (Some KGlyph). cbn [bind].
    assert (PS : parse_start pf [(k_name, gname g); (k_format, s2l "2")] = Ok (gname g, 2)).
    { unfold parse_start. cbn [attr_loop andb]. change (has_key k_name []) with false.
      change (lookup k_name (arms KGlyph)) with (Some AName). cbn [parse_val]. rewrite RN. cbn [bind app attr_loop andb].
      replace (has_key k_format [(k_name, VName (gname g))]) with false by (vm_compute; reflexivity).
      change (lookup k_format (arms KGlyph)) with (Some AU32). cbn [parse_val].
      replace (parse_u32 (s2l "2")) with (Some 2) by (vm_compute; reflexivity). cbn [bind app attr_loop].
      unfold get_name. cbn [lookup]. rewrite str_eqb_refl.
      replace (str_eqb k_format k_name) with false by (vm_compute; reflexivity). rewrite str_eqb_refl.
      replace (str_eqb k_formatMinor k_name) with false by (vm_compute; reflexivity).
      replace (str_eqb k_formatMinor k_format) with false by (vm_compute; reflexivity). reflexivity. }
    rewrite PS. cbn [bind].
    (* the children are elements: the reader sees them as they are *)
    match goal with |- context [tview ?k] => set (kids := k) end.
    assert (TV : tview kids = kids).
    { apply tview_elements. subst kids. rewrite !forallb_app. repeat (apply andb_true_iff; split).
      - apply map_elements. reflexivity.
      - destruct (fl_nonzero (gwidth g) || fl_nonzero (gheight g)); reflexivity.
      - destruct (gimage g); reflexivity.
      - unfold enc_outline. rewrite (filter_has_points _ RCo). destruct (gcontours g), (gcomps g); reflexivity.
      - apply map_elements. reflexivity.
      - apply map_elements. reflexivity.
      - reflexivity.
      - destruct (gnote g); reflexivity. }
    rewrite TV. subst kids.
    (* code points *)
    rewrite parse_children_app, step_unicodes by exact RC2.
    cbn [bind glyph_new upd_g set_cps st_g st_seen st_adv st_lib st_out st_note gcps].
    rewrite (codepoints_order_preserved _ RC1 []) by (intros ? _ []). cbn [app].
    (* advance *)
    rewrite parse_children_app.
    match goal with |- context [parse_children pf 2 ?st (if ?b then [?x] else [])] =>
      assert (EA : parse_children pf 2 st (if b then [x] else [])
                   = Ok (mkPst (set_adv (st_g st) (zero_norm (gwidth g)) (zero_norm (gheight g)))
                               (st_seen st) b (st_lib st) (st_out st) (st_note st)))
    end.
    { destruct (fl_nonzero (gwidth g) || fl_nonzero (gheight g)) eqn:EB; cbn [parse_children].
      - rewrite step_advance by (try reflexivity; assumption). reflexivity.
      - apply orb_false_iff in EB as [E1 E2]. unfold zero_norm. rewrite E1, E2. reflexivity. }
    rewrite EA. clear EA. cbn [bind st_g st_seen st_adv st_lib st_out st_note set_adv].
    (* image *)
    rewrite parse_children_app.
    match goal with |- context [parse_children pf 2 ?st (match gimage g with Some i => [?f i] | None => [] end)] =>
      set (stI := st);
      assert (EI : exists oi, oimage_rel (gimage g) oi /\
                   parse_children pf 2 stI (match gimage g with Some i => [f i] | None => [] end)
                   = Ok (upd_g stI (set_image (st_g stI) oi)))
    end.
    { destruct (gimage g) as [i|]; cbn [parse_children].
      - destruct (step_image i stI eq_refl RI Fi) as (i' & REL & ->). exists (Some i'). split; [exact REL|reflexivity].
      - exists None. split; [exact I|]. subst stI. reflexivity. }
    destruct EI as (oi & RELI & ->). subst stI. cbn [bind upd_g st_g st_seen st_adv st_lib st_out st_note set_image].
    (* outline *)
    rewrite parse_children_app.
    match goal with |- context [parse_children pf 2 ?st (enc_outline ff (gcontours g) (gcomps g))] =>
      assert (EO : exists b, parse_children pf 2 st (enc_outline ff (gcontours g) (gcomps g))
                   = Ok (mkPst (set_outline (st_g st) (ganchors (st_g st)) (map comp_written (gcomps g))
                                            (map contour_written (gcontours g)))
                               (rev (C ++ K) ++ st_seen st) (st_adv st) (st_lib st) b (st_note st)))
    end.
    { assert (S1 : enc_outline ff (gcontours g) (gcomps g)
                   = if match gcontours g, gcomps g with [], [] => true | _, _ => false end then []
                     else [Elem (s2l "outline") [] (map (enc_contour ff) (gcontours g) ++ map (enc_component ff) (gcomps g))]).
      { unfold enc_outline. rewrite (filter_has_points _ RCo). destruct (gcontours g), (gcomps g); reflexivity. }
      rewrite S1. destruct (match gcontours g, gcomps g with [], [] => true | _, _ => false end) eqn:EE.
      - destruct (gcontours g) eqn:E1, (gcomps g) eqn:E2; try discriminate. exists false. subst C K.
        reflexivity.
      - exists true. cbn [parse_children]. rewrite step_outline; auto; try reflexivity; try (intros ? _ []). }
    destruct EO as (bo & ->). cbn [bind st_g st_seen st_adv st_lib st_out st_note set_outline ganchors gguides app].
    rewrite app_nil_r.
    (* anchors *)
    rewrite parse_children_app.
    match goal with |- context [parse_children pf 2 ?st (map (enc_anchor ff ff3) _)] =>
      destruct (step_anchors (ganchors g) st RA Fa NA) as (an' & RELA & ->) end.
    { cbn [st_seen]. intros i Hi Hin. apply in_rev in Hin. exact (DA i Hi Hin). }
    cbn [bind st_g st_seen st_adv st_lib st_out st_note set_anchors ganchors gguides app].
    (* guidelines *)
    rewrite parse_children_app.
    match goal with |- context [parse_children pf 2 ?st (map (enc_guideline ff ff3) _)] =>
      destruct (step_guides (gguides g) st RG Fg NG) as (gu' & RELG & ->) end.
    { cbn [st_seen]. intros i Hi Hin. destruct (DG i Hi) as [D1 D2]. apply in_app_iff in Hin as [Hin|Hin].
      - apply in_rev in Hin. exact (D1 Hin).
      - apply in_rev in Hin. exact (D2 Hin). }
    cbn [bind st_g st_seen st_adv st_lib st_out st_note set_guides ganchors gguides app parse_children].
    (* note *)
    match goal with |- context [parse_children pf 2 ?st (match gnote g with Some _ => _ | None => [] end)] =>
      assert (EN : parse_children pf 2 st
                     (match gnote g with Some n => [Elem (s2l "note") [] (text_kids n)] | None => [] end)
                   = Ok (mkPst (set_note (st_g st) (gnote g)) (st_seen st) (st_adv st) (st_lib st) (st_out st)
                               (match gnote g with Some _ => true | None => false end)))
    end.
    { destruct (gnote g) as [n|] eqn:EN; cbn [parse_children].
      - rewrite step_note by (try reflexivity; exact NS). reflexivity.
      - reflexivity. }
    rewrite EN. clear EN. cbn [bind upd_g st_g set_note].
    (* no lib: nothing to transfer *)
    unfold load_object_libs. cbn [glib]. change (lookup objlibs_key []) with (@None pv).
    cbv iota. cbn [gname gwidth gheight gcps gnote gimage gguides ganchors gcomps gcontours glib].
    repeat split; auto.
  Qed.
End RT.
