(** Proofs about the model of group validation and kerning upconversion (C15, C10). *)
Require Import Norad.Model.Base Norad.Model.Groups.
From Coq Require Import DecimalN FinFun Permutation.
Open Scope N_scope.

(** * byte strings *)
Lemma str_eqb_eq : forall a b : str, str_eqb a b = true <-> a = b.
Proof.
  unfold str_eqb. induction a as [|x a IH]; destruct b as [|y b]; cbn [list_eqb]; split; intro H;
    try reflexivity; try discriminate.
  - apply andb_true_iff in H. destruct H as [H1 H2]. apply N.eqb_eq in H1. apply IH in H2. congruence.
  - injection H as -> ->. apply andb_true_iff. split; [apply N.eqb_refl | apply IH; reflexivity].
Qed.
Lemma str_eqb_refl : forall a, str_eqb a a = true.
Proof. intro a. apply str_eqb_eq. reflexivity. Qed.
Lemma str_eqb_neq : forall a b : str, str_eqb a b = false <-> a <> b.
Proof.
  intros a b. split.
  - intros H E. apply str_eqb_eq in E. congruence.
  - intros H. destruct (str_eqb a b) eqn:E; [apply str_eqb_eq in E; contradiction | reflexivity].
Qed.
Lemma str_eq_dec : forall a b : str, {a = b} + {a <> b}.
Proof. intros a b. destruct (str_eqb a b) eqn:E; [left; apply str_eqb_eq; exact E | right; apply str_eqb_neq; exact E]. Qed.

Lemma str_cmp_eq : forall a b : str, str_cmp a b = Eq <-> a = b.
Proof.
  induction a as [|x a IH]; destruct b as [|y b]; cbn [str_cmp]; split; intro H;
    try reflexivity; try discriminate.
  - destruct (N.compare x y) eqn:C; try discriminate. apply N.compare_eq in C. apply IH in H. congruence.
  - injection H as -> ->. rewrite N.compare_refl. apply IH. reflexivity.
Qed.
Lemma str_cmp_refl : forall a, str_cmp a a = Eq.
Proof. intro a. apply str_cmp_eq. reflexivity. Qed.

Lemma memb_In : forall x l, memb x l = true <-> In x l.
Proof.
  induction l as [|y l IH]; cbn [memb In]; [split; [discriminate | tauto]|].
  rewrite orb_true_iff, IH, str_eqb_eq. split; intros [H|H]; auto.
Qed.
Lemma memb_false : forall x l, memb x l = false <-> ~ In x l.
Proof.
  intros x l. rewrite <- memb_In. destruct (memb x l); split; intro H; try reflexivity; try discriminate; try congruence.
Qed.

Lemma starts_with_spec : forall p s, starts_with p s = true <-> exists t, s = p ++ t.
Proof.
  induction p as [|x p IH]; intro s; cbn [starts_with].
  - split; [intros _; exists s; reflexivity | reflexivity].
  - destruct s as [|y s].
    + split; [discriminate | intros [t H]; discriminate].
    + rewrite andb_true_iff, IH, N.eqb_eq. split.
      * intros [-> [t ->]]. exists t. reflexivity.
      * intros [t H]. cbn in H. injection H as -> ->. split; [reflexivity | exists t; reflexivity].
Qed.
Lemma starts_with_app : forall p t, starts_with p (p ++ t) = true.
Proof. intros. apply starts_with_spec. exists t. reflexivity. Qed.
Lemma starts_with_app_assoc : forall p a c, starts_with p ((p ++ a) ++ c) = true.
Proof. intros. rewrite <- app_assoc. apply starts_with_app. Qed.

Lemma side1_spec : forall n, starts_with K1 n = true <-> side1 n.
Proof. intro n. apply starts_with_spec. Qed.
Lemma side2_spec : forall n, starts_with K2 n = true <-> side2 n.
Proof. intro n. apply starts_with_spec. Qed.

Lemma K1_not_K2 : forall n, starts_with K1 n = true -> starts_with K2 n = false.
Proof. intros n H. apply starts_with_spec in H. destruct H as [t ->]. reflexivity. Qed.
Lemma MMKL_not_MMKR : forall n, starts_with MMKL n = true -> starts_with MMKR n = false.
Proof. intros n H. apply starts_with_spec in H. destruct H as [t ->]. reflexivity. Qed.

Lemma prefix_len13 : forall pre n, length pre = 13%nat -> starts_with pre n = true ->
  (N.of_nat (length n) =? 13) = true <-> n = pre.
Proof.
  intros pre n L H. apply starts_with_spec in H. destruct H as [t ->]. rewrite app_length, L.
  rewrite N.eqb_eq. split.
  - intro E. assert (length t = 0%nat) as Z by lia. destruct t; [apply app_nil_r | discriminate].
  - intro E. rewrite <- (app_nil_r pre) in E at 2. apply app_inv_head in E. subst t. reflexivity.
Qed.

(** * lists *)
Lemma NoDup_app_iff : forall (A : Type) (a c : list A),
  NoDup (a ++ c) <-> NoDup a /\ NoDup c /\ (forall x, In x a -> ~ In x c).
Proof.
  induction a as [|x a IH]; intro c; cbn [app].
  - split; [intro H; repeat split; [constructor | exact H | intros ? []] | tauto].
  - split.
    + intro H. inversion H as [|? ? Hn Hd]; subst. apply IH in Hd. destruct Hd as (Ha & Hc & Hx).
      repeat split.
      * constructor; [intro I; apply Hn; apply in_or_app; left; exact I | exact Ha].
      * exact Hc.
      * intros y [->|I]; [intro I; apply Hn; apply in_or_app; right; exact I | apply Hx; exact I].
    + intros (Ha & Hc & Hx). inversion Ha as [|? ? Hn Hd]; subst. constructor.
      * intro I. apply in_app_or in I. destruct I as [I|I]; [contradiction | apply (Hx x); [left; reflexivity | exact I]].
      * apply IH. repeat split; [exact Hd | exact Hc | intros y I; apply Hx; right; exact I].
Qed.

Lemma NoDup_map_inv' : forall (A B : Type) (f : A -> B) l, NoDup (map f l) -> NoDup l.
Proof.
  induction l as [|x l IH]; cbn [map]; intro H; [constructor|].
  inversion H as [|? ? Hn Hd]; subst. constructor; [|apply IH; exact Hd].
  intro I. apply Hn. apply in_map. exact I.
Qed.

Lemma nodupb_spec : forall l, nodupb l = true <-> NoDup l.
Proof.
  induction l as [|x l IH]; cbn [nodupb]; [split; [constructor | reflexivity]|].
  rewrite andb_true_iff, negb_true_iff, memb_false, IH. split.
  - intros [H1 H2]. constructor; assumption.
  - intro H. inversion H; subst. split; assumption.
Qed.

(** * association lists *)
Lemma lookup_Some_In : forall V (k : name) (m : smap V) v, lookup k m = Some v -> In (k, v) m.
Proof.
  induction m as [|[k' v'] m IH]; cbn [lookup]; intros v H; [discriminate|].
  destruct (str_eqb k k') eqn:E.
  - apply str_eqb_eq in E. subst k'. injection H as ->. left. reflexivity.
  - right. apply IH. exact H.
Qed.
Lemma lookup_key : forall V (k : name) (m : smap V), (exists v, lookup k m = Some v) <-> In k (keys m).
Proof.
  induction m as [|[k' v'] m IH]; cbn [lookup keys map fst In].
  - split; [intros [v H]; discriminate | intros []].
  - destruct (str_eqb k k') eqn:E.
    + apply str_eqb_eq in E. subst k'. split; [intros _; left; reflexivity | intros _; exists v'; reflexivity].
    + apply str_eqb_neq in E. rewrite IH. unfold keys. split; [intro H; right; exact H | intros [H|H]; [congruence | exact H]].
Qed.
Lemma lookup_None : forall V (k : name) (m : smap V), lookup k m = None <-> ~ In k (keys m).
Proof.
  intros V k m. rewrite <- lookup_key. destruct (lookup k m) as [v|]; split; intro H; try discriminate; try reflexivity.
  - exfalso. apply H. exists v. reflexivity.
  - intros [v' H']. discriminate.
Qed.
Lemma has_key_In : forall V (k : name) (m : smap V), has_key k m = true <-> In k (keys m).
Proof.
  intros V k m. unfold has_key. rewrite <- lookup_key. destruct (lookup k m) as [v|]; split; intro H; try discriminate; try reflexivity.
  - exists v. reflexivity.
  - destruct H as [v H]. discriminate.
Qed.
Lemma has_key_false : forall V (k : name) (m : smap V), has_key k m = false <-> ~ In k (keys m).
Proof.
  intros V k m. rewrite <- has_key_In. destruct (has_key k m); split; intro H; try reflexivity; try discriminate; try congruence.
Qed.
Lemma lookup_In_NoDup : forall V (k : name) (v : V) (m : smap V),
  NoDup (keys m) -> (lookup k m = Some v <-> In (k, v) m).
Proof.
  intros V k v m ND. split; [apply lookup_Some_In|].
  induction m as [|[k' v'] m IH]; cbn [In lookup]; [intros []|].
  cbn in ND. inversion ND as [|? ? Hn Hd]; subst. intros [H|H].
  - injection H as -> ->. rewrite str_eqb_refl. reflexivity.
  - destruct (str_eqb k k') eqn:E.
    + apply str_eqb_eq in E. subst k'. exfalso. apply Hn. change (In (fst (k, v)) (map fst m)). apply in_map. exact H.
    + apply IH; assumption.
Qed.

Lemma lookup_minsert_eq : forall V (k : name) (v : V) m, lookup k (minsert k v m) = Some v.
Proof.
  induction m as [|[k' v'] m IH]; cbn [minsert lookup]; [rewrite str_eqb_refl; reflexivity|].
  destruct (str_cmp k k') eqn:C; cbn [lookup].
  - rewrite str_eqb_refl. reflexivity.
  - rewrite str_eqb_refl. reflexivity.
  - destruct (str_eqb k k') eqn:E; [apply str_eqb_eq in E; subst k'; rewrite str_cmp_refl in C; discriminate | exact IH].
Qed.
Lemma lookup_minsert_ne : forall V (k x : name) (v : V) m, x <> k -> lookup x (minsert k v m) = lookup x m.
Proof.
  induction m as [|[k' v'] m IH]; intro N; cbn [minsert lookup].
  - apply str_eqb_neq in N. rewrite N. reflexivity.
  - destruct (str_cmp k k') eqn:C; cbn [lookup].
    + apply str_cmp_eq in C. subst k'. apply str_eqb_neq in N. rewrite N. reflexivity.
    + apply str_eqb_neq in N. rewrite N. reflexivity.
    + destruct (str_eqb x k'); [reflexivity | apply IH; exact N].
Qed.
Lemma keys_minsert : forall V (k x : name) (v : V) m, In x (keys (minsert k v m)) <-> x = k \/ In x (keys m).
Proof.
  intros. rewrite <- !lookup_key. destruct (str_eq_dec x k) as [->|N].
  - rewrite lookup_minsert_eq. split; [intros _; left; reflexivity | intros _; exists v; reflexivity].
  - rewrite lookup_minsert_ne by exact N. split; [intro H; right; exact H | intros [H|H]; [contradiction | exact H]].
Qed.

(** * validate_groups <-> groups_ok *)
Lemma scan_ok : forall ms seen,
  NoDup ms -> (forall x, In x ms -> ~ In x seen) -> scan seen ms = inl (rev ms ++ seen).
Proof.
  induction ms as [|m ms IH]; intros seen ND D; cbn [scan rev app]; [reflexivity|].
  inversion ND as [|? ? Hn Hd]; subst.
  assert (memb m seen = false) as ->. { apply memb_false. apply D. left. reflexivity. }
  rewrite IH.
  - rewrite <- app_assoc. reflexivity.
  - exact Hd.
  - intros x I [E|I2]; [subst x; contradiction | apply (D x); [right; exact I | exact I2]].
Qed.
Lemma scan_inl : forall ms seen s', scan seen ms = inl s' ->
  NoDup ms /\ (forall x, In x ms -> ~ In x seen) /\ s' = rev ms ++ seen.
Proof.
  induction ms as [|m ms IH]; intros seen s' H; cbn [scan] in H.
  - injection H as <-. repeat split; [constructor | intros ? []].
  - destruct (memb m seen) eqn:E; [discriminate|]. apply memb_false in E.
    apply IH in H. destruct H as (ND & D & ->). repeat split.
    + constructor; [intro I; apply (D m I); left; reflexivity | exact ND].
    + intros x [<-|I]; [exact E | intro I2; apply (D x I); right; exact I2].
    + cbn [rev]. rewrite <- app_assoc. reflexivity.
Qed.

Lemma members_of_cons : forall pre n ms (r : groups),
  members_of pre ((n, ms) :: r) = if starts_with pre n then ms ++ members_of pre r else members_of pre r.
Proof. intros. unfold members_of. cbn [filter fst]. destruct (starts_with pre n); reflexivity. Qed.

Definition names_ok (g : groups) : Prop := forall n ms, In (n, ms) g -> n <> [] /\ n <> K1 /\ n <> K2.
Definition disj (a c : list name) : Prop := forall x, In x a -> ~ In x c.

Lemma names_ok_cons : forall n ms g, names_ok ((n, ms) :: g) <-> (n <> [] /\ n <> K1 /\ n <> K2) /\ names_ok g.
Proof.
  intros. unfold names_ok. split.
  - intro H. split; [apply (H n ms); left; reflexivity | intros n' ms' I; apply (H n' ms'); right; exact I].
  - intros [H1 H2] n' ms' [E|I]; [injection E as <- <-; exact H1 | apply (H2 _ _ I)].
Qed.

Lemma disj_rev_app : forall ms M s, disj (ms ++ M) s /\ disj ms M <-> disj ms s /\ disj M (rev ms ++ s) .
Proof.
  intros ms M s. unfold disj. split.
  - intros [H1 H2]. split.
    + intros x I. apply H1. apply in_or_app. left. exact I.
    + intros x I I2. apply in_app_or in I2. destruct I2 as [I2|I2].
      * apply in_rev in I2. apply (H2 x I2 I).
      * apply (H1 x); [apply in_or_app; right; exact I | exact I2].
  - intros [H1 H2]. split.
    + intros x I. apply in_app_or in I. destruct I as [I|I]; [apply H1; exact I|].
      intro I2. apply (H2 x I). apply in_or_app. right. exact I2.
    + intros x I I2. apply (H2 x I2). apply in_or_app. left. apply in_rev in I. exact I.
Qed.

Lemma validate_from_spec : forall g s1 s2,
  validate_from s1 s2 g = Ok tt <->
  names_ok g /\ NoDup (members_of K1 g) /\ disj (members_of K1 g) s1 /\
  NoDup (members_of K2 g) /\ disj (members_of K2 g) s2.
Proof.
  induction g as [|[n ms] g IH]; intros s1 s2.
  - cbn. split; [intros _|reflexivity].
    split; [intros ? ? []|]. split; [constructor|]. split; [intros ? []|]. split; [constructor|intros ? []].
  - rewrite names_ok_cons, !members_of_cons.
    cbn [validate_from]. destruct n as [|c n'].
    { split; [discriminate | intros [[[H _] _] _]; congruence]. }
    remember (c :: n') as n eqn:En.
    destruct (starts_with K1 n) eqn:P1.
    + rewrite (K1_not_K2 _ P1).
      destruct (N.of_nat (length n) =? 13) eqn:L.
      * apply (prefix_len13 K1 n eq_refl P1) in L. split; [discriminate | intros [[(_ & H & _) _] _]; congruence].
      * assert (n <> K1) as NK1.
        { intro E. apply (prefix_len13 K1 n eq_refl P1) in E. congruence. }
        assert (n <> K2) as NK2. { intro E. subst n. rewrite E in P1. discriminate. }
        assert (n <> []) as NE by (subst n; discriminate).
        destruct (scan s1 ms) as [s1'|d] eqn:S.
        -- apply scan_inl in S. destruct S as (ND & D & ->). rewrite IH.
           rewrite NoDup_app_iff.
           pose proof (disj_rev_app ms (members_of K1 g) s1) as DR. unfold disj in *.
           split.
           ++ intros (H1 & H2 & H3 & H4 & H5). destruct DR as [_ DR]. destruct (DR (conj D H3)) as [Da Db].
              tauto.
           ++ intros ((_ & H1) & (H2 & H3 & H3') & H4 & H5 & H6). destruct DR as [DR _].
              destruct (DR (conj H4 H3')) as [Da Db]. tauto.
        -- split; [discriminate|]. intros ((_ & H1) & H2 & H3 & _). exfalso.
           apply NoDup_app_iff in H2. destruct H2 as (NDms & _ & _).
           rewrite scan_ok in S; [discriminate | exact NDms |].
           intros x I. apply H3. apply in_or_app. left. exact I.
    + destruct (starts_with K2 n) eqn:P2.
      * destruct (N.of_nat (length n) =? 13) eqn:L.
        -- apply (prefix_len13 K2 n eq_refl P2) in L. split; [discriminate | intros [[(_ & _ & H) _] _]; congruence].
        -- assert (n <> K2) as NK2.
           { intro E. apply (prefix_len13 K2 n eq_refl P2) in E. congruence. }
           assert (n <> K1) as NK1. { intro E. subst n. rewrite E in P1. discriminate. }
           assert (n <> []) as NE by (subst n; discriminate).
           destruct (scan s2 ms) as [s2'|d] eqn:S.
           ++ apply scan_inl in S. destruct S as (ND & D & ->). rewrite IH.
              rewrite NoDup_app_iff.
              pose proof (disj_rev_app ms (members_of K2 g) s2) as DR. unfold disj in *.
              split.
              ** intros (H1 & H2 & H3 & H4 & H5). destruct DR as [_ DR]. destruct (DR (conj D H5)) as [Da Db].
                 tauto.
              ** intros ((_ & H1) & H2 & H3 & (H4 & H5 & H5') & H6). destruct DR as [DR _].
                 destruct (DR (conj H6 H5')) as [Da Db]. tauto.
           ++ split; [discriminate|]. intros ((_ & H1) & _ & _ & H2 & H3). exfalso.
              apply NoDup_app_iff in H2. destruct H2 as (NDms & _ & _).
              rewrite scan_ok in S; [discriminate | exact NDms |].
              intros x I. apply H3. apply in_or_app. left. exact I.
      * assert (n <> K1) as NK1. { intro E. subst n. rewrite E in P1. discriminate. }
        assert (n <> K2) as NK2. { intro E. subst n. rewrite E in P2. discriminate. }
        assert (n <> []) as NE by (subst n; discriminate).
        rewrite IH. tauto.
Qed.

Theorem validate_iff : forall g, validate_groups g = Ok tt <-> groups_ok g.
Proof.
  intro g. unfold validate_groups, groups_ok. rewrite validate_from_spec. fold (names_ok g).
  unfold disj. split.
  - intros (H1 & H2 & _ & H3 & _). tauto.
  - intros (H1 & H2 & H3). split; [exact H1|]. split; [exact H2|]. split; [intros ? ? []|].
    split; [exact H3 | intros ? ? []].
Qed.

Lemma validate_from_result : forall g s1 s2,
  validate_from s1 s2 g = Ok tt \/ exists e, validate_from s1 s2 g = Err e.
Proof.
  induction g as [|[n ms] g IH]; intros s1 s2; cbn [validate_from]; [left; reflexivity|].
  destruct n as [|c n']; [right; eexists; reflexivity|].
  destruct (starts_with K1 (c :: n')).
  - destruct (_ =? 13); [right; eexists; reflexivity|]. destruct (scan s1 ms); [apply IH | right; eexists; reflexivity].
  - destruct (starts_with K2 (c :: n')); [|apply IH].
    destruct (_ =? 13); [right; eexists; reflexivity|]. destruct (scan s2 ms); [apply IH | right; eexists; reflexivity].
Qed.
Lemma validate_result : forall g, validate_groups g = Ok tt \/ exists e, validate_groups g = Err e.
Proof. intro g. apply validate_from_result. Qed.

(** text form of the rule: two different first-side entries never share a glyph *)
Lemma in_members_of : forall pre (g : groups) n ms x,
  In (n, ms) g -> starts_with pre n = true -> In x ms -> In x (members_of pre g).
Proof.
  intros pre g n ms x I P Ix. unfold members_of. apply in_concat. exists ms. split; [|exact Ix].
  apply in_map_iff. exists (n, ms). split; [reflexivity|]. apply filter_In. split; [exact I | exact P].
Qed.

Lemma ok_no_shared_glyph : forall pre (g : groups),
  NoDup (members_of pre g) ->
  forall g1 n1 ms1 g2 n2 ms2 g3 x,
    g = g1 ++ (n1, ms1) :: g2 ++ (n2, ms2) :: g3 ->
    starts_with pre n1 = true -> starts_with pre n2 = true -> In x ms1 -> In x ms2 -> False.
Proof.
  intros pre g ND g1 n1 ms1 g2 n2 ms2 g3 x -> P1 P2 I1 I2.
  unfold members_of in ND. rewrite filter_app in ND. cbn [filter fst] in ND. rewrite P1 in ND.
  rewrite map_app, concat_app in ND. apply NoDup_app_iff in ND. destruct ND as (_ & ND & _).
  cbn [map concat snd] in ND. apply NoDup_app_iff in ND. destruct ND as (_ & _ & D).
  apply (D x I1). fold (members_of pre (g2 ++ (n2, ms2) :: g3)).
  apply (in_members_of pre _ n2 ms2); [apply in_or_app; right; left; reflexivity | exact P2 | exact I2].
Qed.
