(** Frame lemmas of the abstract file system (Model/Fs.v). *)
From stdpp Require Import gmap strings.
From Norad.Model Require Import Fs.

Global Instance app_path_inj (t : path) : Inj (=) (=) (app t).
Proof. intros a b H. by apply app_inv_head in H. Qed.

Section fsP.
  Context {C : Type}.
  Notation fs := (fs C).
  Notation node := (node C).
  Implicit Types (m : fs) (p q t : path) (n : node).

  Lemma under_refl t : under t t.
  Proof. by exists []; rewrite app_nil_r. Qed.
  Lemma under_app t k : under t (t ++ k).
  Proof. by exists k. Qed.
  Lemma under_trans t p q : under t p → under p q → under t q.
  Proof. unfold under. apply transitivity. Qed.

  (** ** single operations: a success is exactly an insertion *)
  Lemma create_dir_Some p m m' : create_dir p m = Some m' → m' = <[p := Dir]> m.
  Proof.
    unfold create_dir. destruct (exists_ m p); [discriminate|].
    destruct (is_dir m (parent p)); congruence.
  Qed.
  Lemma write_Some p (c : C) m m' : write p c m = Some m' → m' = <[p := File c]> m.
  Proof.
    unfold write. destruct (m !! p) as [[|]|]; try discriminate;
      destruct (is_dir m (parent p)); congruence.
  Qed.
  Lemma apply_entries_cons e (es : list (path * node)) m :
    apply_entries (e :: es) m = apply_entries es (<[e.1 := e.2]> m).
  Proof. done. Qed.
  Lemma create_dir_all_Some pre rest m m' :
    create_dir_all pre rest m = Some m' → m' = apply_entries (dir_chain pre rest) m.
  Proof.
    revert pre m. induction rest as [|s r IH]; intros pre m; cbn [create_dir_all dir_chain].
    - unfold apply_entries; simpl; congruence.
    - rewrite apply_entries_cons. cbn [fst snd].
      destruct (m !! (pre ++ [s])) as [[c|]|] eqn:E; [discriminate| |].
      + intros H. apply IH in H. rewrite H. by rewrite insert_id.
      + destruct (is_dir m pre); [|discriminate]. intros H. by apply IH in H.
  Qed.

  (** ** write changes one path *)
  Lemma write_frame p (c : C) m m' q : write p c m = Some m' → q ≠ p → m' !! q = m !! q.
  Proof. intros H%write_Some Hne. subst. by rewrite lookup_insert_ne. Qed.
  Lemma write_at p (c : C) m m' : write p c m = Some m' → m' !! p = Some (File c).
  Proof. intros H%write_Some. subst. by rewrite lookup_insert. Qed.
  Lemma create_dir_frame p m m' q : create_dir p m = Some m' → q ≠ p → m' !! q = m !! q.
  Proof. intros H%create_dir_Some Hne. subst. by rewrite lookup_insert_ne. Qed.

  (** ** remove_dir_all t changes only paths under t *)
  Lemma wipe_lookup t m p : wipe t m !! p = if decide (under t p) then None else m !! p.
  Proof.
    unfold wipe. destruct (decide (under t p)) as [Hu|Hu].
    - apply map_filter_lookup_None. right. intros x _ Hn. by apply Hn.
    - destruct (m !! p) as [x|] eqn:E.
      + apply map_filter_lookup_Some. done.
      + apply map_filter_lookup_None. by left.
  Qed.
  Lemma remove_dir_all_frame t m m' p :
    remove_dir_all t m = Some m' → ¬ under t p → m' !! p = m !! p.
  Proof.
    unfold remove_dir_all. destruct (is_dir m t); [|discriminate]. intros [= <-] Hu.
    rewrite wipe_lookup. by rewrite decide_False.
  Qed.
  Lemma remove_dir_all_gone t m m' p :
    remove_dir_all t m = Some m' → under t p → m' !! p = None.
  Proof.
    unfold remove_dir_all. destruct (is_dir m t); [|discriminate]. intros [= <-] Hu.
    rewrite wipe_lookup. by rewrite decide_True.
  Qed.
  Lemma remove_dir_all_None t m : remove_dir_all t m = None → is_dir m t = false.
  Proof. unfold remove_dir_all. by destruct (is_dir m t). Qed.

  (** ** entry lists *)
  Lemma apply_entries_app (es1 es2 : list (path * node)) m :
    apply_entries (es1 ++ es2) m = apply_entries es2 (apply_entries es1 m).
  Proof. unfold apply_entries. by rewrite foldl_app. Qed.
  Lemma apply_entries_nil m : apply_entries [] m = m.
  Proof. done. Qed.

  Lemma apply_entries_frame (es : list (path * node)) m p :
    p ∉ es.*1 → apply_entries es m !! p = m !! p.
  Proof.
    revert m. induction es as [|e es IH]; intros m Hn; [done|].
    rewrite apply_entries_cons. rewrite fmap_cons, not_elem_of_cons in Hn. destruct Hn as [H1 H2].
    rewrite IH by done. by rewrite lookup_insert_ne.
  Qed.
  Lemma apply_entries_frame_under t (es : list (path * node)) m p :
    Forall (λ e, under t e.1) es → ¬ under t p → apply_entries es m !! p = m !! p.
  Proof.
    intros Hall Hu. apply apply_entries_frame. intros Hin.
    apply elem_of_list_fmap in Hin as (e & -> & He).
    rewrite Forall_forall in Hall. by apply Hu, Hall.
  Qed.
  (** the last entry for a path decides *)
  Lemma apply_entries_last (es1 es2 : list (path * node)) m p n :
    p ∉ es2.*1 → apply_entries (es1 ++ (p, n) :: es2) m !! p = Some n.
  Proof.
    intros Hn. rewrite apply_entries_app, apply_entries_cons. simpl.
    rewrite apply_entries_frame by done. by rewrite lookup_insert.
  Qed.

  Lemma restrict_under_lookup t m p :
    restrict_under t m !! p = if decide (under t p) then m !! p else None.
  Proof.
    unfold restrict_under. destruct (decide (under t p)) as [Hu|Hu].
    - destruct (m !! p) as [x|] eqn:E.
      + by apply map_filter_lookup_Some.
      + apply map_filter_lookup_None. by left.
    - apply map_filter_lookup_None. right. intros x _ Hn. by apply Hu.
  Qed.
  Lemma restrict_under_wipe t m : restrict_under t (wipe t m) = ∅.
  Proof.
    apply map_eq. intros p. rewrite restrict_under_lookup, wipe_lookup, lookup_empty.
    by destruct (decide (under t p)).
  Qed.
  Lemma restrict_under_apply t (es : list (path * node)) m :
    Forall (λ e, under t e.1) es →
    restrict_under t (apply_entries es m) = apply_entries es (restrict_under t m).
  Proof.
    revert m. induction es as [|e es IH]; intros m Hall; [done|].
    inversion Hall as [|? ? He Hes]; subst. rewrite !apply_entries_cons, IH by done.
    f_equal. unfold restrict_under. by rewrite map_filter_insert_True.
  Qed.
  (** what a successful sequence of insertions under [t] into a wiped [t] leaves under [t] does
      not depend on what the file system held before *)
  Lemma restrict_under_apply_wipe t (es : list (path * node)) m :
    Forall (λ e, under t e.1) es →
    restrict_under t (apply_entries es (wipe t m)) = apply_entries es ∅.
  Proof. intros H. by rewrite restrict_under_apply, restrict_under_wipe. Qed.

  Lemma shift_under t (es : list (path * node)) : Forall (λ e, under t e.1) (map (shift t) es).
  Proof. apply Forall_forall. intros e (e0 & -> & _)%elem_of_list_fmap. apply under_app. Qed.

  Lemma apply_entries_place t (es : list (path * node)) (m : fs) :
    apply_entries (map (shift t) es) (place t m) = place t (apply_entries es m).
  Proof.
    revert m. induction es as [|e es IH]; intros m; [done|].
    rewrite fmap_cons, !apply_entries_cons. simpl. rewrite <- IH. f_equal.
    unfold place. symmetry. apply (kmap_insert (M1:=gmap path) (M2:=gmap path) (app t)); apply _.
  Qed.
  Lemma place_empty t : place t (∅ : fs) = ∅.
  Proof. unfold place. by rewrite kmap_empty. Qed.

  (** ** well-formed file systems have no orphans *)
  Lemma wf_ancestor m t k n : wf_fs m → m !! (t ++ k) = Some n → is_Some (m !! t).
  Proof.
    intros [_ Hwf]. revert n. induction k as [|x k IH] using rev_ind; intros n H.
    - rewrite app_nil_r in H. eauto.
    - assert (Hp : parent (t ++ k ++ [x]) = t ++ k).
      { unfold parent. rewrite app_assoc. apply removelast_last. }
      specialize (Hwf (t ++ k ++ [x]) n H). rewrite Hp in Hwf.
      eapply IH. apply Hwf. intros Hnil. destruct t, k; discriminate.
  Qed.
  Lemma wipe_absent m t : wf_fs m → m !! t = None → wipe t m = m.
  Proof.
    intros Hwf Hn. apply map_eq. intros p. rewrite wipe_lookup.
    destruct (decide (under t p)) as [[k ->]|]; [|done].
    destruct (m !! (t ++ k)) as [n|] eqn:E; [|done].
    apply wf_ancestor in E as [x Hx]; [congruence|done].
  Qed.
End fsP.
