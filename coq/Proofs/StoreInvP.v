(** Lemmas about the store model. Part 2: the key map, [validate_entry] against the
    specification, the invariant along every history, lazy reads. *)
Require Import Norad.Model.Base Norad.Model.Store Norad.Proofs.StoreP.
From Coq Require FinFun.
Open Scope N_scope.

(** the keys of a store as paths *)
Definition kp (its : items) : list path := map (fun kc => components (fst kc)) its.

Lemma existsb_false {A} (f : A -> bool) l : existsb f l = false <-> forall x, In x l -> f x = false.
Proof.
  induction l as [|a l IH]; simpl.
  - split; [intros _ x [] | reflexivity].
  - rewrite orb_false_iff, IH. split.
    + intros [H1 H2] x [E|H]; [subst; exact H1 | apply H2; exact H].
    + intros H. split; [apply H; left; reflexivity | intros x Hx; apply H; right; exact Hx].
Qed.

Lemma kp_in its q : In q (kp its) <-> exists t c, In (t, c) its /\ components t = q.
Proof.
  unfold kp. rewrite in_map_iff. split.
  - intros [[t c] [E H]]. exists t, c. split; [exact H | exact E].
  - intros [t [c [H E]]]. exists (t, c). split; [exact E | exact H].
Qed.

Lemma kp_app a b : kp (a ++ b) = kp a ++ kp b.
Proof. unfold kp. apply map_app. Qed.

Lemma has_path_spec q its : has_path q its = true <-> In q (kp its).
Proof.
  unfold has_path. rewrite existsb_exists, kp_in. split.
  - intros [[t c] [H E]]. apply path_eqb_eq in E. exists t, c. split; assumption.
  - intros [t [c [H E]]]. exists (t, c). split; [exact H | apply path_eqb_eq; exact E].
Qed.

Lemma NoDup_snoc {A} (l : list A) x : NoDup l -> ~ In x l -> NoDup (l ++ [x]).
Proof.
  induction l as [|a l IH]; intros Hnd Hx; simpl.
  - constructor; [intros [] | constructor].
  - inversion Hnd as [|? ? Ha Hl]; subst. constructor.
    + intros X. apply in_app_or in X. destruct X as [X|[X|[]]]; [contradiction|]. subst. apply Hx. left. reflexivity.
    + apply IH; [exact Hl|]. intros X. apply Hx. right. exact X.
Qed.

(** * find / put / del / set_cell *)

Lemma find_key_some raw its t c :
  find_key raw its = Some (t, c) -> In (t, c) its /\ components t = components raw.
Proof.
  induction its as [|[t' c'] r IH]; simpl; [discriminate|].
  destruct (key_eqb t' raw) eqn:E.
  - intros H. inversion H; subst. split; [left; reflexivity | apply key_eqb_spec; exact E].
  - intros H. destruct (IH H) as [H1 H2]. split; [right; exact H1 | exact H2].
Qed.

Lemma find_key_none raw its : find_key raw its = None <-> ~ In (components raw) (kp its).
Proof.
  induction its as [|[t' c'] r IH]; simpl.
  - split; [intros _ [] | reflexivity].
  - destruct (key_eqb t' raw) eqn:E.
    + apply key_eqb_spec in E. split; [discriminate | intros H; exfalso; apply H; left; exact E].
    + apply key_eqb_false in E. rewrite IH. split.
      * intros H [X|X]; [apply E; exact X | apply H; exact X].
      * intros H X. apply H. right. exact X.
Qed.

Lemma find_key_in its t c : NoDup (kp its) -> In (t, c) its -> find_key t its = Some (t, c).
Proof.
  induction its as [|[t' c'] r IH]; simpl; [intros _ []|].
  intros Hnd [E|H].
  - inversion E; subst. rewrite (proj2 (key_eqb_spec t t) eq_refl). reflexivity.
  - inversion Hnd as [|? ? Hn Hnd']; subst. destruct (key_eqb t' t) eqn:E.
    + apply key_eqb_spec in E. exfalso. apply Hn. apply kp_in. exists t, c. split; [exact H | symmetry; exact E].
    + apply IH; assumption.
Qed.

Lemma find_key_ext raw raw' its : components raw = components raw' -> find_key raw its = find_key raw' its.
Proof.
  intros E. induction its as [|[t c] r IH]; simpl; [reflexivity|].
  unfold key_eqb. rewrite E. rewrite IH. reflexivity.
Qed.

Lemma put_notin t c its : ~ In (components t) (kp its) -> put t c its = its ++ [(t, c)].
Proof.
  induction its as [|[t' c'] r IH]; simpl; [reflexivity|]. intros H.
  destruct (key_eqb t' t) eqn:E.
  - apply key_eqb_spec in E. exfalso. apply H. left. exact E.
  - rewrite IH; [reflexivity|]. intros X. apply H. right. exact X.
Qed.

Lemma put_in_kp t c its : In (components t) (kp its) -> kp (put t c its) = kp its.
Proof.
  induction its as [|[t' c'] r IH]; simpl; [intros []|]. intros H.
  destruct (key_eqb t' t) eqn:E; [reflexivity|]. simpl. f_equal. apply IH.
  destruct H as [H|H]; [|exact H]. apply key_eqb_false in E. contradiction.
Qed.

Lemma put_in t c its t' c' :
  In (t', c') (put t c its) ->
  In (t', c') its \/ (t' = t /\ c' = c) \/
  (exists c0, In (t', c0) its /\ c' = c /\ components t' = components t).
Proof.
  induction its as [|[t0 c0] r IH]; simpl.
  - intros [E|[]]. inversion E; subst. right. left. split; reflexivity.
  - destruct (key_eqb t0 t) eqn:E.
    + intros [X|X].
      * inversion X; subst. right. right. exists c0. split; [left; reflexivity|].
        split; [reflexivity | apply key_eqb_spec; exact E].
      * left. right. exact X.
    + intros [X|X].
      * left. left. exact X.
      * destruct (IH X) as [H|[H|[c1 [H1 H2]]]].
        -- left. right. exact H.
        -- right. left. exact H.
        -- right. right. exists c1. split; [right; exact H1 | exact H2].
Qed.

Lemma put_has t c its : exists t', In (t', c) (put t c its) /\ components t' = components t.
Proof.
  induction its as [|[t0 c0] r IH]; simpl.
  - exists t. split; [left; reflexivity | reflexivity].
  - destruct (key_eqb t0 t) eqn:E.
    + exists t0. split; [left; reflexivity | apply key_eqb_spec; exact E].
    + destruct IH as [t' [H1 H2]]. exists t'. split; [right; exact H1 | exact H2].
Qed.

Lemma set_cell_keys t c its : keys (set_cell t c its) = keys its.
Proof.
  unfold keys. induction its as [|[t0 c0] r IH]; simpl; [reflexivity|].
  destruct (key_eqb t0 t); simpl; [reflexivity | rewrite IH; reflexivity].
Qed.
Lemma kp_keys its : kp its = map components (keys its).
Proof. unfold kp, keys. rewrite map_map. reflexivity. Qed.
Lemma set_cell_kp t c its : kp (set_cell t c its) = kp its.
Proof. rewrite !kp_keys, set_cell_keys. reflexivity. Qed.

Lemma set_cell_in t c its t' c' :
  In (t', c') (set_cell t c its) ->
  In (t', c') its \/ (exists c0, In (t', c0) its /\ c' = c /\ components t' = components t).
Proof.
  induction its as [|[t0 c0] r IH]; simpl; [intros []|].
  destruct (key_eqb t0 t) eqn:E.
  - intros [X|X].
    + inversion X; subst. right. exists c0. split; [left; reflexivity|].
      split; [reflexivity | apply key_eqb_spec; exact E].
    + left. right. exact X.
  - intros [X|X].
    + left. left. exact X.
    + destruct (IH X) as [H|[c1 [H1 H2]]].
      * left. right. exact H.
      * right. exists c1. split; [right; exact H1 | exact H2].
Qed.

Lemma del_in raw its x : In x (del raw its) -> In x its.
Proof.
  induction its as [|[t0 c0] r IH]; simpl; [intros []|].
  destruct (key_eqb t0 raw); [intros H; right; exact H|].
  intros [H|H]; [left; exact H | right; apply IH; exact H].
Qed.
Lemma del_kp_in raw its q : In q (kp (del raw its)) -> In q (kp its).
Proof.
  intros H. apply kp_in in H. destruct H as [t [c [H E]]]. apply kp_in. exists t, c.
  split; [eapply del_in; exact H | exact E].
Qed.
Lemma del_nodup raw its : NoDup (kp its) -> NoDup (kp (del raw its)).
Proof.
  induction its as [|[t0 c0] r IH]; simpl; [intros H; exact H|].
  intros H. inversion H as [|? ? Hn Hr]; subst. destruct (key_eqb t0 raw); [exact Hr|].
  simpl. constructor; [|apply IH; exact Hr]. intros X. apply Hn. eapply del_kp_in. exact X.
Qed.
Lemma del_removes raw its : NoDup (kp its) -> ~ In (components raw) (kp (del raw its)).
Proof.
  induction its as [|[t0 c0] r IH]; simpl; [intros _ []|].
  intros H. inversion H as [|? ? Hn Hr]; subst. destruct (key_eqb t0 raw) eqn:E.
  - apply key_eqb_spec in E. simpl in E. rewrite <- E. exact Hn.
  - simpl. intros [X|X]; [apply key_eqb_false in E; contradiction | exact (IH Hr X)].
Qed.

(** * [validate_entry] accepts exactly the legal entries *)

Lemma starts_with_refl_app p b : starts_with p (p ++ b) = true.
Proof. induction p as [|x p IH]; [reflexivity|]. simpl. rewrite N.eqb_refl. exact IH. Qed.

Lemma proper_prefix_app (a p : path) :
  proper_prefix a p <-> exists c, c <> [] /\ p = a ++ c.
Proof.
  unfold proper_prefix. rewrite is_prefix_spec. split.
  - intros [[c E] Hne]. exists c. split; [|exact E]. intros X. subst c. rewrite app_nil_r in E. congruence.
  - intros [c [Hc E]]. split; [exists c; exact E|]. intros X. subst a.
    rewrite <- (app_nil_r p) in E at 1. apply app_inv_head in E. congruence.
Qed.

Lemma validate_none_iff k raw its data :
  (forall t c, In (t, c) its -> components t <> []) ->
  validate k raw its data = None <-> insert_legal k raw data its.
Proof.
  intros Hne. unfold validate, insert_legal.
  destruct raw as [|x r] eqn:Eraw.
  { simpl. split; [discriminate | intros [H _]; congruence]. }
  rewrite <- Eraw. assert (Hnil : is_nil raw = false) by (subst raw; reflexivity). rewrite Hnil.
  destruct (is_absolute raw) eqn:Eabs.
  { split; [discriminate | intros [_ [H _]]; discriminate]. }
  destruct (all_normal (components raw)) eqn:En; cbn [negb].
  2:{ split; [discriminate | intros [_ [_ [H _]]]; discriminate]. }
  set (p := components raw) in *.
  assert (Hraw : raw <> []) by (subst raw; discriminate).
  destruct k.
  - (* data *)
    destruct (existsb (fun a => has_path a its) (proper_prefixes p)) eqn:E1.
    { split; [discriminate|]. intros [_ [_ [_ H]]]. exfalso.
      apply existsb_exists in E1. destruct E1 as [a [Ha Hp]]. apply has_path_spec in Hp.
      apply kp_in in Hp. destruct Hp as [t [c [Hin Et]]]. apply proper_prefixes_spec in Ha.
      destruct Ha as [_ [c' [Hc' Ep]]]. destruct (H t c Hin) as [H1 _]. apply H1.
      apply proper_prefix_app. exists c'. rewrite Et. split; assumption. }
    destruct (existsb (fun kc => negb (path_eqb (components (fst kc)) p) && is_prefix p (components (fst kc))) its) eqn:E2.
    { split; [discriminate|]. intros [_ [_ [_ H]]]. exfalso.
      apply existsb_exists in E2. destruct E2 as [[t c] [Hin Hb]]. simpl in Hb.
      apply andb_true_iff in Hb. destruct Hb as [Hb1 Hb2]. apply negb_true_iff in Hb1.
      apply path_eqb_neq in Hb1. destruct (H t c Hin) as [_ H2]. apply H2. split; [exact Hb2 | congruence]. }
    split; [intros _ | reflexivity]. repeat split; try assumption.
    + intros [Hp Hd]. rewrite existsb_false in E1.
      assert (X : has_path (components t) its = false).
      { apply E1. apply proper_prefixes_spec. split; [eapply Hne; eassumption|].
        apply proper_prefix_app. split; assumption. }
      assert (Y : has_path (components t) its = true).
      { apply has_path_spec. apply kp_in. exists t, c. split; [assumption | reflexivity]. }
      congruence.
    + intros [Hp Hd]. rewrite existsb_false in E2. specialize (E2 (t, c) H). simpl in E2.
      rewrite Hp in E2. rewrite andb_true_r in E2. apply negb_false_iff in E2. apply path_eqb_eq in E2.
      congruence.
  - (* image *)
    destruct (2 <=? N.of_nat (length p)) eqn:E1.
    { split; [discriminate|]. intros [_ [_ [_ [H _]]]]. rewrite H in E1. discriminate. }
    destruct (starts_with PNG_SIG data) eqn:E2; cbn [negb].
    2:{ split; [discriminate | intros [_ [_ [_ [_ H]]]]; discriminate]. }
    split; [intros _ | reflexivity]. repeat split; try assumption.
    apply N.leb_gt in E1. pose proof (components_nonempty raw Hraw) as Hp. fold p in Hp.
    destruct p as [|c1 [|c2 p']]; [congruence | reflexivity|]. simpl length in E1. lia.
Qed.

Lemma existsb_map_c {A B} (f : B -> bool) (g : A -> B) l : existsb f (map g l) = existsb (fun x => f (g x)) l.
Proof. induction l as [|a l IH]; [reflexivity|]. simpl. rewrite IH. reflexivity. Qed.
Lemma existsb_ext_c {A} (f g : A -> bool) l : (forall x, f x = g x) -> existsb f l = existsb g l.
Proof. intros H. induction l as [|a l IH]; [reflexivity|]. simpl. rewrite H, IH. reflexivity. Qed.

(** [validate_entry] only looks at the keys of the store *)
Lemma validate_keys_only k raw its its' data : keys its = keys its' -> validate k raw its data = validate k raw its' data.
Proof.
  intros E. unfold validate.
  assert (Hq : forall f : str -> bool, existsb (fun kc : str * cell => f (fst kc)) its = existsb (fun kc : str * cell => f (fst kc)) its').
  { intros f. rewrite <- !(existsb_map_c f fst). fold (keys its) (keys its'). rewrite E. reflexivity. }
  assert (Hp : forall a, has_path a its = has_path a its').
  { intros a. unfold has_path. apply (Hq (fun t => path_eqb (components t) a)). }
  destruct (is_nil raw); [reflexivity|]. destruct (is_absolute raw); [reflexivity|].
  destruct (negb (all_normal (components raw))); [reflexivity|]. destruct k; [|reflexivity].
  rewrite (existsb_ext_c (fun a => has_path a its) (fun a => has_path a its') (proper_prefixes (components raw))) by (intros; apply Hp).
  rewrite (Hq (fun t => negb (path_eqb (components t) (components raw)) && is_prefix (components raw) (components t))).
  reflexivity.
Qed.

(** * The invariant along every history *)

Definition cell_fine (k : kind) (c : cell) : Prop :=
  k = KImage -> forall b, c = Loaded b -> starts_with PNG_SIG b = true.

Lemma inv_nodup k its : C16_inv k its -> NoDup (kp its).
Proof. intros [H _]. exact H. Qed.

Lemma inv_keys_nonempty k its : C16_inv k its -> forall t c, In (t, c) its -> components t <> [].
Proof.
  intros [_ [Hk _]] t c H. destruct (Hk t c H) as [H1 _]. apply components_nonempty. exact H1.
Qed.

Lemma inv_empty k : C16_inv k [].
Proof.
  unfold C16_inv. simpl. split; [constructor|]. split; [intros t c []|]. split; [intros t1 c1 t2 c2 []|].
  intros _ t c [].
Qed.

(** the new store keeps a subset of the keys; a cell is as before or harmless *)
Lemma inv_shrink k its its' :
  C16_inv k its -> NoDup (kp its') ->
  (forall t c, In (t, c) its' -> exists c0, In (t, c0) its /\ (c = c0 \/ cell_fine k c)) ->
  C16_inv k its'.
Proof.
  intros [Hnd [Hk [Hp Hi]]] Hnd' Hsub. unfold C16_inv. split; [exact Hnd'|]. split; [|split].
  - intros t c H. destruct (Hsub t c H) as [c0 [H0 _]]. eapply Hk; exact H0.
  - intros t1 c1 t2 c2 H1 H2. destruct (Hsub _ _ H1) as [c1' [H1' _]].
    destruct (Hsub _ _ H2) as [c2' [H2' _]]. eapply Hp; eassumption.
  - intros Ek t c H. destruct (Hsub t c H) as [c0 [H0 Hc]]. destruct (Hi Ek t c0 H0) as [Hl Hs].
    split; [exact Hl|]. intros b Eb. destruct Hc as [Hc|Hc]; [subst c0; apply Hs; exact Eb | apply (Hc Ek b Eb)].
Qed.

Lemma no_proper_prefix_same_length (a b : path) : length a = length b -> ~ proper_prefix a b.
Proof.
  intros Hl Hp. apply proper_prefix_app in Hp. destruct Hp as [c [Hc E]]. subst b.
  rewrite app_length in Hl. destruct c; [congruence | simpl in Hl; lia].
Qed.
Lemma proper_prefix_irrefl (a : path) : ~ proper_prefix a a.
Proof. intros [_ H]. congruence. Qed.

Lemma inv_insert k raw data its : C16_inv k its -> C16_inv k (snd (insert k raw data its)).
Proof.
  intros Hinv. unfold insert. destruct (validate k raw its data) eqn:Ev; [exact Hinv|]. simpl.
  apply validate_none_iff in Ev; [|eapply inv_keys_nonempty; eassumption].
  destruct Ev as [Hraw [Habs [Hn Hk]]].
  pose proof (components_plain raw Hn) as Hpl. pose proof (components_nonempty raw Hraw) as Hpne.
  remember (components raw) as p eqn:Ep. remember (rebuild p) as t eqn:Etx.
  assert (Et : components t = p) by (subst t; apply components_rebuild; assumption).
  destruct (rebuild_plain_text p Hpne Hpl) as [Ht1 Ht2]. rewrite <- Etx in Ht1, Ht2.
  assert (Hkt : key_ok t).
  { unfold key_ok. rewrite Et. split; [exact Ht1|]. split; [exact Ht2|]. split; [exact Hn | symmetry; exact Etx]. }
  destruct Hinv as [Hnd [Hkeys [Hpf Himg]]].
  assert (Hsub : forall t' c', In (t', c') (put t (Loaded data) its) -> (exists c0, In (t', c0) its) \/ t' = t).
  { intros t' c' H. destruct (put_in _ _ _ _ _ H) as [H1|[[H1 _]|[c0 [H1 _]]]];
      [left; eexists; exact H1 | right; exact H1 | left; eexists; exact H1]. }
  (* p against an old key *)
  assert (Hnew : forall t' c', In (t', c') its ->
                               ~ proper_prefix (components t') p /\ ~ proper_prefix p (components t')).
  { intros t' c' H. destruct k.
    - apply (Hk t' c' H).
    - destruct Hk as [Hl _]. destruct (Himg eq_refl t' c' H) as [Hl' _].
      split; apply no_proper_prefix_same_length; congruence. }
  unfold C16_inv. split; [|split; [|split]].
  - fold (kp (put t (Loaded data) its)). destruct (has_path p its) eqn:E.
    + apply has_path_spec in E. rewrite put_in_kp by (rewrite Et; exact E). exact Hnd.
    + assert (X : ~ In p (kp its)) by (intros X; apply has_path_spec in X; congruence).
      rewrite put_notin by (rewrite Et; exact X). rewrite kp_app. simpl. rewrite Et.
      apply NoDup_snoc; assumption.
  - intros t' c' H. destruct (Hsub _ _ H) as [[c0 H0]|E]; [eapply Hkeys; exact H0 | subst t'; exact Hkt].
  - intros t1 c1 t2 c2 H1 H2 Hpp.
    destruct (Hsub _ _ H1) as [[c1' H1']|E1]; destruct (Hsub _ _ H2) as [[c2' H2']|E2].
    + exact (Hpf _ _ _ _ H1' H2' Hpp).
    + subst t2. rewrite Et in Hpp. destruct (Hnew _ _ H1') as [X _]. exact (X Hpp).
    + subst t1. rewrite Et in Hpp. destruct (Hnew _ _ H2') as [_ X]. exact (X Hpp).
    + subst t1 t2. exact (proper_prefix_irrefl _ Hpp).
  - intros Ek t' c' H. subst k. destruct Hk as [Hl Hs].
    destruct (put_in _ _ _ _ _ H) as [H1|[[H1 H2]|[c0 [H1 [H2 H3]]]]].
    + apply (Himg eq_refl _ _ H1).
    + subst t' c'. rewrite Et. split; [exact Hl|]. intros b Eb. inversion Eb; subst. exact Hs.
    + destruct (Himg eq_refl _ _ H1) as [Hl' _]. split; [exact Hl'|]. intros b Eb. subst c'.
      inversion Eb; subst. exact Hs.
Qed.

Lemma inv_remove k raw its : C16_inv k its -> C16_inv k (remove raw its).
Proof.
  intros H. unfold remove. apply (inv_shrink k its); [exact H | apply del_nodup; eapply inv_nodup; exact H|].
  intros t c Hin. exists c. split; [eapply del_in; exact Hin | left; reflexivity].
Qed.

Lemma load_item_fine k d raw its :
  (forall t c, In (t, c) its -> components t <> []) -> cell_fine k (load_item k d raw its).
Proof.
  intros Hne Ek b. unfold load_item. destruct (os_read d raw) as [b'|]; [|discriminate].
  destruct (validate k raw its b') eqn:Ev; [discriminate|]. intros E. inversion E; subst b'.
  apply validate_none_iff in Ev; [|exact Hne]. subst k. destruct Ev as [_ [_ [_ [_ H]]]]. exact H.
Qed.

Lemma inv_get k d raw its : C16_inv k its -> C16_inv k (snd (get k d raw its)).
Proof.
  intros H. unfold get. destruct (find_key raw its) as [[t c]|] eqn:Ef; [|exact H].
  destruct c; simpl; try exact H.
  apply (inv_shrink k its); [exact H | rewrite set_cell_kp; eapply inv_nodup; exact H|].
  intros t' c' Hin. destruct (set_cell_in _ _ _ _ _ Hin) as [H1|[c0 [H1 [H2 _]]]].
  - exists c'. split; [exact H1 | left; reflexivity].
  - exists c0. split; [exact H1|]. right. subst c'. apply load_item_fine. eapply inv_keys_nonempty. exact H.
Qed.

Lemma inv_iter_keys k d ks : forall its, C16_inv k its -> C16_inv k (snd (iter_keys k d ks its)).
Proof.
  induction ks as [|t r IH]; intros its H; simpl; [exact H|].
  destruct (get k d t its) as [g its1] eqn:Eg. destruct (iter_keys k d r its1) as [l its2] eqn:Ei.
  simpl. replace its2 with (snd (iter_keys k d r its1)) by (rewrite Ei; reflexivity).
  apply IH. replace its1 with (snd (get k d t its)) by (rewrite Eg; reflexivity). apply inv_get. exact H.
Qed.

Lemma inv_step k its o : C16_inv k its -> C16_inv k (step k its o).
Proof.
  intros H. destruct o; simpl.
  - apply inv_insert. exact H.
  - apply inv_remove. exact H.
  - apply inv_get. exact H.
  - apply inv_empty.
  - unfold iter. apply inv_iter_keys. exact H.
  - exact H.
Qed.

Lemma inv_run k ops : forall its, C16_inv k its -> C16_inv k (run k ops its).
Proof.
  unfold run. induction ops as [|o r IH]; intros its H; simpl; [exact H|]. apply IH. apply inv_step. exact H.
Qed.

(** * A store listed from a well-formed tree *)

Definition file_paths (d : disk) : list (list str) :=
  flat_map (fun e => match snd e with DFile _ => [fst e] | _ => [] end) d.

Lemma file_keys_paths d : file_keys d = map join (file_paths d).
Proof.
  unfold file_keys, file_paths. induction d as [|[p e] r IH]; [reflexivity|]. simpl.
  rewrite map_app, <- IH. destruct e; reflexivity.
Qed.
Lemma file_paths_in d p : In p (file_paths d) -> exists b, In (p, DFile b) d.
Proof.
  unfold file_paths. intros H. apply in_flat_map in H. destruct H as [[q e] [Hin H]]. simpl in H.
  destruct e; try contradiction. destruct H as [H|[]]. subst q. exists b. exact Hin.
Qed.
Lemma file_paths_nodup d : NoDup (map fst d) -> NoDup (file_paths d).
Proof.
  unfold file_paths. induction d as [|[p e] r IH]; simpl; [constructor|].
  intros H. inversion H as [|? ? Hn Hr]; subst. destruct e; simpl; try (apply IH; exact Hr).
  constructor; [|apply IH; exact Hr]. intros X. apply (file_paths_in r) in X. destruct X as [b' X].
  apply Hn. apply in_map_iff. exists (p, DFile b'). split; [reflexivity | exact X].
Qed.

Lemma map_normal_inj (a b : list str) : map Normal a = map Normal b -> a = b.
Proof.
  revert b. induction a as [|x a IH]; intros [|y b] H; try discriminate; [reflexivity|].
  simpl in H. inversion H. f_equal. apply IH. assumption.
Qed.

Lemma is_prefix_names (a b : list str) : is_prefix (map Normal a) (map Normal b) = true -> names_prefix a b = true.
Proof.
  intros H. apply is_prefix_spec in H. destruct H as [c E].
  assert (Eb : b = a ++ names c).
  { rewrite <- (names_map_normal b), E. unfold names. rewrite map_app. fold (names (map Normal a)) (names c).
    rewrite names_map_normal. reflexivity. }
  unfold names_prefix. rewrite Eb. rewrite app_length. apply andb_true_iff. split.
  - apply Nat.leb_le. lia.
  - rewrite firstn_app, firstn_all, Nat.sub_diag. simpl. rewrite app_nil_r. apply names_eqb_refl.
Qed.

Lemma wf_file_key d p b :
  wf_disk d -> In (p, DFile b) d ->
  components (join p) = map Normal p /\ key_ok (join p).
Proof.
  intros [_ [Hn _]] Hin. destruct (Hn p _ Hin) as [Hne Hok].
  assert (E : components (join p) = map Normal p) by (apply components_join; assumption).
  split; [exact E|]. unfold key_ok. rewrite E.
  pose proof (plain_map_normal p Hok) as Hpl.
  assert (Hne' : map Normal p <> []) by (destruct p; [congruence | discriminate]).
  destruct (rebuild_plain_text _ Hne' Hpl) as [H1 H2]. rewrite rebuild_normals in H1, H2 by exact Hok.
  split; [exact H1|]. split; [exact H2|]. split; [apply plain_all_normal; exact Hpl | apply rebuild_normals; exact Hok].
Qed.

Lemma inv_listed k d ks : wf_disk d -> list_contents k d = Ok ks -> C16_inv k (map (fun t => (t, NotLoaded)) ks).
Proof.
  intros Hwf Hl.
  assert (Eks : ks = file_keys d).
  { unfold list_contents in Hl. destruct k.
    - destruct (existsb is_other d); [discriminate | congruence].
    - destruct (existsb is_subdir_entry d); [discriminate|]. destruct (existsb is_other d); [discriminate | congruence]. }
  subst ks. rewrite file_keys_paths. rewrite map_map.
  assert (Hin : forall t c, In (t, c) (map (fun p => (join p, NotLoaded)) (file_paths d)) ->
                            c = NotLoaded /\ exists p b, t = join p /\ In (p, DFile b) d).
  { intros t c H. apply in_map_iff in H. destruct H as [p [E H]]. inversion E; subst.
    split; [reflexivity|]. destruct (file_paths_in d p H) as [b Hb]. exists p, b. split; [reflexivity | exact Hb]. }
  assert (Ekp : kp (map (fun p => (join p, NotLoaded)) (file_paths d)) = map (map Normal) (file_paths d)).
  { unfold kp. rewrite map_map. simpl. apply map_ext_in. intros p Hp.
    destruct (file_paths_in d p Hp) as [b Hb]. apply (wf_file_key d p b Hwf Hb). }
  unfold C16_inv. split; [|split; [|split]].
  - fold (kp (map (fun p => (join p, NotLoaded)) (file_paths d))). rewrite Ekp.
    apply FinFun.Injective_map_NoDup; [intros a b; apply map_normal_inj|].
    apply file_paths_nodup. destruct Hwf as [H _]. exact H.
  - intros t c H. destruct (Hin t c H) as [_ [p [b [E Hb]]]]. subst t. apply (wf_file_key d p b Hwf Hb).
  - intros t1 c1 t2 c2 H1 H2 Hpp.
    destruct (Hin _ _ H1) as [_ [p1 [b1 [E1 Hb1]]]]. destruct (Hin _ _ H2) as [_ [p2 [b2 [E2 Hb2]]]]. subst t1 t2.
    destruct (wf_file_key d p1 b1 Hwf Hb1) as [X1 _]. destruct (wf_file_key d p2 b2 Hwf Hb2) as [X2 _].
    rewrite X1, X2 in Hpp. destruct Hpp as [Hp Hd]. apply is_prefix_names in Hp.
    destruct Hwf as [_ [_ Hpf]]. rewrite (Hpf _ _ _ _ Hb1 Hb2 Hp) in Hd. congruence.
  - intros Ek t c H. destruct (Hin t c H) as [Ec [p [b [E Hb]]]]. subst t c k.
    split; [|discriminate]. destruct (wf_file_key d p b Hwf Hb) as [X _]. rewrite X, map_length.
    unfold list_contents in Hl. destruct (existsb is_subdir_entry d) eqn:Es; [discriminate|].
    rewrite existsb_false in Es. specialize (Es _ Hb). unfold is_subdir_entry in Es. simpl in Es.
    destruct Hwf as [_ [Hn _]]. destruct (Hn p _ Hb) as [Hne _].
    destruct p as [|n1 [|n2 p']]; [congruence | reflexivity | discriminate].
Qed.

Lemma inv_loaded k d its : (forall x, d = Some x -> wf_disk x) -> load_store k d = Ok its -> C16_inv k its.
Proof.
  intros Hwf. unfold load_store. destruct d as [x|]; [|intros E; inversion E; apply inv_empty].
  destruct (list_contents k x) as [ks|e|s] eqn:El; try discriminate. intros E. inversion E; subst.
  apply (inv_listed k x ks); [apply Hwf; reflexivity | exact El].
Qed.

(** * Lazy reads *)

Lemma cell_of_some raw its c :
  cell_of raw its = Some c <-> exists t, find_key raw its = Some (t, c).
Proof.
  unfold cell_of. destruct (find_key raw its) as [[t c']|]; split.
  - intros E. inversion E; subst. exists t. reflexivity.
  - intros [t' E]. inversion E; subst. reflexivity.
  - discriminate.
  - intros [t' E]. discriminate.
Qed.

Lemma find_key_set_cell_same t c raw its t0 c0 :
  find_key raw its = Some (t0, c0) -> components t = components raw ->
  find_key raw (set_cell t c its) = Some (t0, c).
Proof.
  intros Hf Et. induction its as [|[t' c'] r IH]; simpl in *; [discriminate|].
  assert (Ek : key_eqb t' t = key_eqb t' raw) by (unfold key_eqb; rewrite Et; reflexivity).
  rewrite Ek. destruct (key_eqb t' raw) eqn:E.
  - inversion Hf; subst. simpl. rewrite E. reflexivity.
  - simpl. rewrite E. apply IH. exact Hf.
Qed.
Lemma find_key_set_cell_other t c raw its :
  components t <> components raw -> find_key raw (set_cell t c its) = find_key raw its.
Proof.
  intros Hne. induction its as [|[t' c'] r IH]; simpl; [reflexivity|].
  destruct (key_eqb t' t) eqn:E1; simpl.
  - destruct (key_eqb t' raw) eqn:E2; [|reflexivity].
    apply key_eqb_spec in E1. apply key_eqb_spec in E2. congruence.
  - destruct (key_eqb t' raw); [reflexivity | exact IH].
Qed.
Lemma find_key_put_other t c raw its :
  components t <> components raw -> find_key raw (put t c its) = find_key raw its.
Proof.
  intros Hne. induction its as [|[t' c'] r IH]; simpl.
  - destruct (key_eqb t raw) eqn:E; [apply key_eqb_spec in E; contradiction | reflexivity].
  - destruct (key_eqb t' t) eqn:E1; simpl.
    + destruct (key_eqb t' raw) eqn:E2; [|reflexivity].
      apply key_eqb_spec in E1. apply key_eqb_spec in E2. congruence.
    + destruct (key_eqb t' raw); [reflexivity | exact IH].
Qed.
Lemma find_key_del_other raw' raw its :
  components raw' <> components raw -> find_key raw (del raw' its) = find_key raw its.
Proof.
  intros Hne. induction its as [|[t' c'] r IH]; simpl; [reflexivity|].
  destruct (key_eqb t' raw') eqn:E1; simpl.
  - destruct (key_eqb t' raw) eqn:E2; [|reflexivity].
    apply key_eqb_spec in E1. apply key_eqb_spec in E2. congruence.
  - destruct (key_eqb t' raw); [reflexivity | exact IH].
Qed.

(** a filled cell is returned as it is, whatever the disk and the spelling *)
Lemma get_filled k d raw its c :
  cell_of raw its = Some c -> c <> NotLoaded -> get k d raw its = (Some (cell_res c), its).
Proof.
  intros H Hc. apply cell_of_some in H. destruct H as [t H]. unfold get. rewrite H.
  destruct c; [congruence | reflexivity | reflexivity].
Qed.

(** the first access fills the cell from the disk as it is at that moment *)
Lemma get_first k d raw its :
  cell_of raw its = Some NotLoaded ->
  get k d raw its = (Some (cell_res (load_item k d raw its)), snd (get k d raw its)) /\
  cell_of raw (snd (get k d raw its)) = Some (load_item k d raw its) /\
  load_item k d raw its <> NotLoaded.
Proof.
  intros H. apply cell_of_some in H. destruct H as [t H]. unfold get. rewrite H. simpl.
  split; [reflexivity|]. split.
  - apply cell_of_some. exists t. apply (find_key_set_cell_same t _ raw its t NotLoaded); [exact H|].
    apply find_key_some in H. tauto.
  - unfold load_item. destruct (os_read d raw); [destruct (validate k raw its b)|]; discriminate.
Qed.

(** no operation other than insert/remove of that key or clear changes a filled cell *)
Lemma get_keeps_filled k d raw' raw its c :
  cell_of raw its = Some c -> c <> NotLoaded -> cell_of raw (snd (get k d raw' its)) = Some c.
Proof.
  intros H Hc. unfold get. destruct (find_key raw' its) as [[t c']|] eqn:Ef; [|exact H].
  destruct c'; simpl; try exact H.
  destruct (path_eqb (components t) (components raw)) eqn:E.
  - apply path_eqb_eq in E. exfalso. destruct (find_key_some _ _ _ _ Ef) as [_ Ef'].
    assert (X : find_key raw its = Some (t, NotLoaded)).
    { rewrite (find_key_ext raw raw') by congruence. exact Ef. }
    unfold cell_of in H. rewrite X in H. congruence.
  - apply path_eqb_neq in E. unfold cell_of. rewrite find_key_set_cell_other by exact E. exact H.
Qed.
