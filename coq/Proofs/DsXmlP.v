(** Lemmas about the XML event-tree helpers of Model/DsXml.v. *)
Require Import Norad.Model.DsXml.
From Coq Require Import Lia.
Open Scope string_scope.
Open Scope list_scope.

(** * trimming *)
Lemma trim_start_id : forall s, lead_ws s = false -> trim_start s = s.
Proof. intros [|c r] H; [reflexivity|]. cbn in *. now rewrite H. Qed.

Lemma trim_end_id : forall s, trail_ws s = false -> trim_end s = s.
Proof.
  induction s as [|c r IH]; intros H; [reflexivity|].
  cbn [trim_end]. destruct r as [|c2 r2].
  - cbn in *. now rewrite H.
  - assert (Hr : trail_ws (String c2 r2) = false) by exact H.
    rewrite (IH Hr). reflexivity.
Qed.

Lemma trim_id : forall s, edge_ws s = false -> trim s = s.
Proof.
  intros s H. unfold edge_ws in H. apply orb_false_iff in H as [H1 H2].
  unfold trim. rewrite (trim_start_id _ H1). now apply trim_end_id.
Qed.

Lemma trim_end_empty_or : forall s, trim_end s = s \/ trail_ws s = true.
Proof.
  intros s. destruct (trail_ws s) eqn:E; [now right|left; now apply trim_end_id].
Qed.

(** the class is exact: [trim] changes a string iff it starts or ends with white space *)
Lemma trim_start_changes : forall s, lead_ws s = true -> trim_start s <> s.
Proof.
  intros [|c r] H; [discriminate|]. cbn in *. rewrite H.
  intros E. assert (L : String.length (trim_start r) <= String.length r).
  { clear. induction r as [|c r IH]; cbn; [lia|]. destruct (is_ws c); cbn; lia. }
  rewrite E in L. cbn in L. lia.
Qed.
Lemma trim_end_length : forall s, String.length (trim_end s) <= String.length s.
Proof.
  induction s as [|c r IH]; cbn; [lia|].
  destruct (trim_end r); [destruct (is_ws c)|]; cbn in *; lia.
Qed.
Lemma trim_end_changes : forall s, trail_ws s = true -> trim_end s <> s.
Proof.
  induction s as [|c r IH]; intros H; [discriminate|].
  cbn [trim_end]. destruct r as [|c2 r2].
  - cbn in *. rewrite H. discriminate.
  - assert (Hr : trail_ws (String c2 r2) = true) by exact H.
    specialize (IH Hr). destruct (trim_end (String c2 r2)) eqn:E.
    + destruct (is_ws c); discriminate.
    + intros E2. apply IH. congruence.
Qed.
Lemma trim_start_trail : forall s, lead_ws s = false -> trim_start s = s.
Proof. exact trim_start_id. Qed.
Lemma trim_changes : forall s, edge_ws s = true -> trim s <> s.
Proof.
  intros s H. unfold edge_ws in H. unfold trim.
  destruct (lead_ws s) eqn:L.
  - intros E. pose proof (trim_end_length (trim_start s)) as L1.
    rewrite E in L1.
    assert (L2 : String.length (trim_start s) < String.length s).
    { destruct s as [|c r]; [discriminate|]. cbn in L. cbn [trim_start]. rewrite L.
      assert (String.length (trim_start r) <= String.length r).
      { clear. induction r as [|c r IH]; cbn; [lia|]. destruct (is_ws c); cbn; lia. }
      cbn. lia. }
    lia.
  - cbn in H. rewrite (trim_start_id _ L). now apply trim_end_changes.
Qed.

Lemma kids_text_text_kids : forall s, kids_text (text_kids s) = Some (trim s).
Proof. intros [|c r]; reflexivity. Qed.

(** * list fields *)
Lemma drop_while_all {A} (f : A -> bool) : forall pre r, forallb f pre = true -> drop_while f (pre ++ r) = drop_while f r.
Proof.
  induction pre as [|x pre IH]; intros r H; [reflexivity|].
  cbn in *. apply andb_true_iff in H as [Hx Hp]. rewrite Hx. now apply IH.
Qed.
Lemma drop_while_all_nil {A} (f : A -> bool) : forall l, forallb f l = true -> drop_while f l = [].
Proof. intros l H. rewrite <- (app_nil_r l). now rewrite drop_while_all. Qed.
Lemma take_while_all {A} (f : A -> bool) : forall run r,
  forallb f run = true -> take_while f (run ++ r) = run ++ take_while f r.
Proof.
  induction run as [|x run IH]; intros r H; [reflexivity|].
  cbn in *. apply andb_true_iff in H as [Hx Hp]. rewrite Hx. f_equal. now apply IH.
Qed.
Lemma take_while_none {A} (f : A -> bool) : forall r,
  forallb (fun x => negb (f x)) r = true -> take_while f r = [].
Proof. intros [|x r] H; [reflexivity|]. cbn in *. apply andb_true_iff in H as [Hx _]. now destruct (f x). Qed.
Lemma drop_while_none {A} (f : A -> bool) : forall r,
  forallb (fun x => negb (f x)) r = true -> drop_while f r = r.
Proof. intros [|x r] H; [reflexivity|]. cbn in *. apply andb_true_iff in H as [Hx _]. now destruct (f x). Qed.
Lemma existsb_none {A} (f : A -> bool) : forall r,
  forallb (fun x => negb (f x)) r = true -> existsb f r = false.
Proof.
  induction r as [|x r IH]; intros H; [reflexivity|].
  cbn in *. apply andb_true_iff in H as [Hx Hr]. destruct (f x); [discriminate|]. now apply IH.
Qed.

Lemma field_list_skip : forall k pre r,
  forallb (not_named k) pre = true -> field_list k (pre ++ r) = field_list k r.
Proof. intros k pre r H. unfold field_list. now rewrite (drop_while_all _ pre r H). Qed.

Lemma field_list_run : forall k run rest,
  forallb (is_named k) run = true -> forallb (not_named k) rest = true ->
  field_list k (run ++ rest) = Some run.
Proof.
  intros k run rest Hr Hn. unfold field_list.
  destruct run as [|x run].
  - cbn [app]. rewrite (drop_while_all_nil _ rest Hn). reflexivity.
  - assert (Hx : not_named k x = false).
    { cbn in Hr. apply andb_true_iff in Hr as [Hx _]. unfold not_named. now rewrite Hx. }
    cbn [app drop_while]. rewrite Hx.
    change (x :: run ++ rest) with ((x :: run) ++ rest).
    rewrite (drop_while_all _ _ rest Hr), (take_while_all _ _ rest Hr).
    rewrite (drop_while_none (is_named k) rest Hn), (existsb_none _ rest Hn),
            (take_while_none _ rest Hn), app_nil_r.
    reflexivity.
Qed.

Lemma field_list_absent : forall k kids,
  forallb (not_named k) kids = true -> field_list k kids = Some [].
Proof.
  intros k kids H. rewrite <- (app_nil_l kids). now apply (field_list_run k [] kids).
Qed.

(** * option lists *)
Lemma all_opt_map {A B} (f : B -> option A) (g : A -> B) : forall l,
  (forall x, In x l -> f (g x) = Some x) -> all_opt (map f (map g l)) = Some l.
Proof.
  induction l as [|x l IH]; intros H; [reflexivity|].
  cbn. rewrite (H x (or_introl eq_refl)), IH; [reflexivity|].
  intros y Hy. apply H. now right.
Qed.

(** * blank-separated lists *)
Lemma split_sp_aux_token : forall s cur rest,
  str_exists is_space s = false ->
  split_sp_aux cur (s ++ rest)%string = split_sp_aux (rev (list_ascii_of_string s) ++ cur) rest.
Proof.
  induction s as [|c r IH]; intros cur rest H; [reflexivity|].
  cbn in H. apply orb_false_iff in H as [Hc Hr].
  cbn [append split_sp_aux]. rewrite Hc. rewrite (IH _ _ Hr).
  cbn [list_ascii_of_string rev]. now rewrite <- app_assoc.
Qed.

Lemma string_of_list_ascii_rev_rev : forall s,
  string_of_list_ascii (rev (rev (list_ascii_of_string s))) = s.
Proof. intros s. rewrite rev_involutive. apply string_of_list_ascii_of_string. Qed.

Lemma str_app_nil_r : forall s : string, (s ++ "")%string = s.
Proof. induction s as [|c r IH]; cbn; [reflexivity|now rewrite IH]. Qed.

Lemma split_join_sp : forall l, Forall token l -> split_sp (join_sp l) = l.
Proof.
  unfold split_sp. induction l as [|x l IH]; intros H; [reflexivity|].
  inversion H as [|? ? [Hne Hsp] Hl]; subst.
  destruct l as [|y l'].
  - cbn [join_sp]. rewrite <- (str_app_nil_r x) at 1.
    rewrite (split_sp_aux_token x [] "" Hsp). cbn [split_sp_aux]. rewrite app_nil_r.
    destruct (rev (list_ascii_of_string x)) eqn:E.
    + exfalso. apply Hne. apply (f_equal (@rev ascii)) in E. rewrite rev_involutive in E.
      cbn in E. destruct x; [reflexivity|discriminate].
    + rewrite <- E, string_of_list_ascii_rev_rev. reflexivity.
  - cbn [join_sp]. rewrite (split_sp_aux_token x [] _ Hsp). cbn [split_sp_aux].
    change (is_space " ") with true. cbn iota. rewrite app_nil_r.
    destruct (rev (list_ascii_of_string x)) eqn:E.
    + exfalso. apply Hne. apply (f_equal (@rev ascii)) in E. rewrite rev_involutive in E.
      cbn in E. destruct x; [reflexivity|discriminate].
    + rewrite <- E, string_of_list_ascii_rev_rev. f_equal. exact (IH Hl).
Qed.

(** * nested induction on trees *)
Section NodeInd.
  Variable P : node -> Prop.
  Hypothesis HT : forall s, P (Text s).
  Hypothesis HE : forall n a kids, Forall P kids -> P (Elem n a kids).
  Fixpoint node_ind2 (n : node) : P n :=
    match n with
    | Text s => HT s
    | Elem name a kids =>
        HE name a kids
           ((fix go (l : list node) : Forall P l :=
               match l with
               | [] => Forall_nil P
               | k :: r => Forall_cons k (node_ind2 k) (go r)
               end) kids)
    end.
End NodeInd.

(** * what a conforming reader sees *)
Lemma byte_is_eq : forall n c, byte_is n c = true -> N_of_ascii c = n.
Proof. intros n c H. now apply N.eqb_eq. Qed.
Lemma byte_is_diff : forall n m c, n <> m -> byte_is n c = true -> byte_is m c = false.
Proof.
  intros n m c D H. apply byte_is_eq in H. unfold byte_is. rewrite H. now apply N.eqb_neq.
Qed.
Lemma byte_is_ascii : forall n c, (n < 256)%N -> byte_is n c = true -> c = ascii_of_N n.
Proof. intros n c L H. apply byte_is_eq in H. rewrite <- H. now rewrite ascii_N_embedding. Qed.

Lemma norm_attr_id : forall s, has_tab_lf_cr s = false -> norm_attr s = s.
Proof.
  induction s as [|c r IH]; intros H; [reflexivity|].
  cbn in H. apply orb_false_iff in H as [Hc Hr].
  apply orb_false_iff in Hc as [Hc H13]. apply orb_false_iff in Hc as [H9 H10].
  cbn [norm_attr]. rewrite H13, H9, H10. cbn. now rewrite (IH Hr).
Qed.
Lemma norm_attr_fix : forall s, norm_attr s = s -> has_tab_lf_cr s = false.
Proof.
  induction s as [|c r IH]; intros H; [reflexivity|].
  cbn [norm_attr] in H. cbn [has_tab_lf_cr str_exists].
  destruct (byte_is 13 c) eqn:H13.
  - exfalso. apply (byte_is_ascii 13 c) in H13; [|reflexivity]. subst c.
    destruct r as [|c2 r2]; [discriminate|]. destruct (byte_is 10 c2); discriminate.
  - destruct (byte_is 9 c) eqn:H9.
    + exfalso. apply (byte_is_ascii 9 c) in H9; [|reflexivity]. subst c. discriminate.
    + destruct (byte_is 10 c) eqn:H10.
      * exfalso. apply (byte_is_ascii 10 c) in H10; [|reflexivity]. subst c. discriminate.
      * cbn in H. injection H as H. cbn. now apply IH.
Qed.
Lemma norm_text_id : forall s, has_cr s = false -> norm_text s = s.
Proof.
  induction s as [|c r IH]; intros H; [reflexivity|].
  cbn in H. apply orb_false_iff in H as [Hc Hr].
  cbn [norm_text]. rewrite Hc. now rewrite (IH Hr).
Qed.
Lemma norm_text_fix : forall s, norm_text s = s -> has_cr s = false.
Proof.
  induction s as [|c r IH]; intros H; [reflexivity|].
  cbn [norm_text] in H. cbn [has_cr str_exists].
  destruct (byte_is 13 c) eqn:H13.
  - exfalso. apply (byte_is_ascii 13 c) in H13; [|reflexivity]. subst c.
    destruct r as [|c2 r2]; [discriminate|]. destruct (byte_is 10 c2); discriminate.
  - injection H as H. cbn. now apply IH.
Qed.

Definition attr_unclean (kv : string * string) : bool :=
  xml_unrepresentable (snd kv) || has_tab_lf_cr (snd kv).

Lemma attrs_clean_map : forall attrs,
  existsb attr_unclean attrs = false ->
  existsb (fun kv => xml_unrepresentable (snd kv)) attrs = false /\
  map (fun kv => (fst kv, norm_attr (snd kv))) attrs = attrs.
Proof.
  induction attrs as [|[k v] r IH]; intros H; [split; reflexivity|].
  cbn [existsb] in H. apply orb_false_iff in H as [Hkv Hr].
  unfold attr_unclean in Hkv. cbn [snd] in Hkv. apply orb_false_iff in Hkv as [Hu Hn].
  destruct (IH Hr) as [IH1 IH2]. split.
  - cbn [existsb snd]. now rewrite Hu.
  - cbn [map fst snd]. rewrite IH2. now rewrite (norm_attr_id _ Hn).
Qed.
Lemma attrs_fix_clean : forall attrs,
  existsb (fun kv => xml_unrepresentable (snd kv)) attrs = false ->
  map (fun kv => (fst kv, norm_attr (snd kv))) attrs = attrs ->
  existsb attr_unclean attrs = false.
Proof.
  induction attrs as [|[k v] r IH]; intros H1 H2; [reflexivity|].
  cbn [existsb map fst snd] in *. apply orb_false_iff in H1 as [Hu Hr]. injection H2 as Hv Hm.
  unfold attr_unclean at 1. cbn [snd]. rewrite Hu, (norm_attr_fix _ Hv). cbn [orb]. now apply IH.
Qed.

Definition kids_unclean : list node -> bool :=
  fix go (l : list node) : bool := match l with [] => false | k :: r => node_unclean k || go r end.
Lemma node_unclean_elem : forall n a k,
  node_unclean (Elem n a k) = existsb attr_unclean a || kids_unclean k.
Proof. reflexivity. Qed.

(** a tree without the characters of the class is read back unchanged ... *)
Lemma reader_view_clean : forall t, node_unclean t = false -> reader_view t = Some t.
Proof.
  induction t as [s|name attrs kids IH] using node_ind2; intros H.
  - cbn in *. apply orb_false_iff in H as [Hu Hc]. rewrite Hu. now rewrite (norm_text_id _ Hc).
  - rewrite node_unclean_elem in H. apply orb_false_iff in H as [Ha Hk].
    destruct (attrs_clean_map _ Ha) as [A1 A2].
    cbn [reader_view]. rewrite A1, A2.
    assert (K : (fix go (l : list node) : option (list node) :=
                   match l with
                   | [] => Some []
                   | k :: r => match reader_view k, go r with
                               | Some k', Some r' => Some (k' :: r')
                               | _, _ => None
                               end
                   end) kids = Some kids).
    { induction kids as [|k r IHr]; [reflexivity|].
      inversion IH as [|? ? Pk Pr]; subst.
      cbn [kids_unclean] in Hk. apply orb_false_iff in Hk as [Hk1 Hk2].
      rewrite (Pk Hk1), (IHr Pr Hk2). reflexivity. }
    now rewrite K.
Qed.

(** ... and only such a tree is (the class is exact) *)
Lemma reader_view_fix : forall t, reader_view t = Some t -> node_unclean t = false.
Proof.
  induction t as [s|name attrs kids IH] using node_ind2; intros H.
  - cbn in *. destruct (xml_unrepresentable s); [discriminate|]. injection H as H.
    cbn. now apply norm_text_fix.
  - cbn [reader_view] in H.
    destruct (existsb (fun kv => xml_unrepresentable (snd kv)) attrs) eqn:A1; [discriminate|].
    match type of H with match ?g kids with _ => _ end = _ => destruct (g kids) as [kids'|] eqn:K end;
      [|discriminate].
    injection H as Hm Hk. subst kids'.
    rewrite node_unclean_elem, (attrs_fix_clean _ A1 Hm). cbn [orb].
    clear A1 Hm. induction kids as [|k r IHr]; [reflexivity|].
    inversion IH as [|? ? Pk Pr]; subst.
    destruct (reader_view k) as [k'|] eqn:Ek; [|discriminate].
    match type of K with match ?g with _ => _ end = _ => destruct g as [r'|] eqn:Er end; [|discriminate].
    injection K as K1 K2. subst k' r'.
    cbn [kids_unclean]. rewrite (Pk eq_refl), (IHr Pr eq_refl). reflexivity.
Qed.
