(** Proofs about Model/Interleave.v (C19). stdlib style. *)
Require Import Norad.Model.Base Norad.Model.Interleave.
From Coq Require Import Permutation.

(** * Strings: equality test and order *)
Lemma str_eqb_eq : forall a b : str, str_eqb a b = true <-> a = b.
Proof.
  unfold str_eqb. induction a as [|x a IH]; destruct b as [|y b]; cbn [list_eqb]; split; intro H;
    try reflexivity; try discriminate.
  - apply andb_true_iff in H. destruct H as [H1 H2]. apply N.eqb_eq in H1. apply IH in H2. congruence.
  - inversion H; subst. apply andb_true_iff. split; [apply N.eqb_refl | apply IH; reflexivity].
Qed.
Lemma str_eqb_refl : forall a, str_eqb a a = true.
Proof. intro a. apply str_eqb_eq. reflexivity. Qed.

Lemma str_cmp_eq : forall a b, str_cmp a b = Eq <-> a = b.
Proof.
  induction a as [|x a IH]; destruct b as [|y b]; cbn [str_cmp]; split; intro H;
    try reflexivity; try discriminate.
  - destruct (N.compare x y) eqn:E; try discriminate. apply N.compare_eq in E. apply IH in H. congruence.
  - inversion H; subst. rewrite N.compare_refl. apply IH. reflexivity.
Qed.
Lemma str_cmp_refl : forall a, str_cmp a a = Eq.
Proof. intro a. apply str_cmp_eq. reflexivity. Qed.
Lemma str_cmp_antisym : forall a b, str_cmp b a = CompOpp (str_cmp a b).
Proof.
  induction a as [|x a IH]; destruct b as [|y b]; cbn [str_cmp]; try reflexivity.
  rewrite (N.compare_antisym x y). destruct (N.compare x y); cbn [CompOpp]; auto.
Qed.
Lemma str_cmp_lt_trans : forall a b c, str_cmp a b = Lt -> str_cmp b c = Lt -> str_cmp a c = Lt.
Proof.
  induction a as [|x a IH]; destruct b as [|y b]; destruct c as [|z c]; cbn [str_cmp]; intros H1 H2;
    try reflexivity; try discriminate.
  destruct (N.compare x y) eqn:E1; try discriminate;
  destruct (N.compare y z) eqn:E2; try discriminate.
  - apply N.compare_eq in E1. apply N.compare_eq in E2. subst. rewrite N.compare_refl. eapply IH; eauto.
  - apply N.compare_eq in E1. subst. rewrite E2. reflexivity.
  - apply N.compare_eq in E2. subst. rewrite E1. reflexivity.
  - rewrite N.compare_lt_iff in E1, E2.
    assert (E3 : (x ?= z)%N = Lt) by (apply N.compare_lt_iff; lia). rewrite E3. reflexivity.
Qed.
Lemma str_cmp_gt_lt : forall a b, str_cmp a b = Gt <-> str_cmp b a = Lt.
Proof.
  intros a b. rewrite (str_cmp_antisym a b). destruct (str_cmp a b); cbn; split; congruence.
Qed.

(** * Ordered maps: inserts with different keys commute *)
Ltac oi :=
  repeat (cbn [om_insert];
          match goal with
          | H : str_cmp ?a ?b = _ |- context [str_cmp ?a ?b] => rewrite H
          | |- context [str_cmp ?a ?a] => rewrite (str_cmp_refl a)
          end);
  cbn [om_insert]; try reflexivity.

Lemma om_insert_comm : forall V (k1 k2 : str) (v1 v2 : V) (m : omap V),
  k1 <> k2 -> om_insert k1 v1 (om_insert k2 v2 m) = om_insert k2 v2 (om_insert k1 v1 m).
Proof.
  intros V k1 k2 v1 v2 m Hne.
  assert (Hne12 : str_cmp k1 k2 <> Eq) by (intro E; apply str_cmp_eq in E; auto).
  induction m as [|[k v] r IH].
  - destruct (str_cmp k1 k2) eqn:E12; [congruence| |].
    + pose proof (proj2 (str_cmp_gt_lt k2 k1) E12) as E21. oi.
    + pose proof (proj1 (str_cmp_gt_lt k1 k2) E12) as E21. oi.
  - destruct (str_cmp k2 k) eqn:E2; destruct (str_cmp k1 k) eqn:E1.
    + apply str_cmp_eq in E1. apply str_cmp_eq in E2. congruence.
    + (* k2 = k, k1 < k *) apply str_cmp_eq in E2. subst k.
      pose proof (proj2 (str_cmp_gt_lt k2 k1) E1) as E21. oi.
    + (* k2 = k, k1 > k *) apply str_cmp_eq in E2. subst k.
      pose proof (proj1 (str_cmp_gt_lt k1 k2) E1) as E21. oi.
    + (* k2 < k, k1 = k *) apply str_cmp_eq in E1. subst k.
      pose proof (proj2 (str_cmp_gt_lt k1 k2) E2) as E12. oi.
    + (* both smaller *)
      destruct (str_cmp k1 k2) eqn:E12; [congruence| |].
      * pose proof (proj2 (str_cmp_gt_lt k2 k1) E12) as E21. oi.
      * pose proof (proj1 (str_cmp_gt_lt k1 k2) E12) as E21. oi.
    + (* k2 < k < k1 *)
      assert (E21 : str_cmp k2 k1 = Lt).
      { eapply str_cmp_lt_trans; [exact E2|]. apply str_cmp_gt_lt. exact E1. }
      pose proof (proj2 (str_cmp_gt_lt k1 k2) E21) as E12. oi.
    + (* k2 > k, k1 = k *) apply str_cmp_eq in E1. subst k.
      pose proof (proj1 (str_cmp_gt_lt k2 k1) E2) as E12. oi.
    + (* k1 < k < k2 *)
      assert (E12 : str_cmp k1 k2 = Lt).
      { eapply str_cmp_lt_trans; [exact E1|]. apply str_cmp_gt_lt. exact E2. }
      pose proof (proj2 (str_cmp_gt_lt k2 k1) E12) as E21. oi.
    + (* both greater *) oi. rewrite IH. reflexivity.
Qed.

Definition fold_ins {V} (r : list (str * V)) (m : omap V) : omap V :=
  fold_left (fun acc kv => om_insert (fst kv) (snd kv) acc) r m.

Lemma fold_ins_perm : forall V (r r' : list (str * V)),
  Permutation r r' -> NoDup (map fst r) -> forall m, fold_ins r m = fold_ins r' m.
Proof.
  intros V r r' HP. induction HP as [|x l l' HP IH|x y l|l l' l'' HP1 IH1 HP2 IH2]; intros ND m.
  - reflexivity.
  - cbn. apply IH. inversion ND; assumption.
  - cbn. f_equal. apply om_insert_comm. cbn in ND. inversion ND as [|? ? Hn _]; subst.
    intro E. apply Hn. left. exact E.
  - rewrite IH1 by assumption. apply IH2.
    eapply Permutation_NoDup; [|exact ND]. apply Permutation_map. exact HP1.
Qed.

(** * Collecting results: order independence *)
Fixpoint somes {A} (l : list (option A)) : list A :=
  match l with [] => [] | Some a :: r => a :: somes r | None :: r => somes r end.
Definition all_some {A} (l : list (option A)) : bool :=
  forallb (fun o => match o with Some _ => true | None => false end) l.

Lemma collectC_spec : forall V (rs : list (option (str * V))) acc,
  collectC rs acc = if all_some rs then Some (fold_ins (somes rs) acc) else None.
Proof.
  intros V rs. induction rs as [|[[k g]|] r IH]; intro acc; cbn [collectC somes all_some forallb andb]; try reflexivity.
  rewrite IH. reflexivity.
Qed.

Lemma all_some_perm : forall A (l l' : list (option A)), Permutation l l' -> all_some l = all_some l'.
Proof.
  intros A l l' HP. unfold all_some. induction HP; cbn [forallb]; auto.
  - rewrite IHHP. reflexivity.
  - destruct x, y; reflexivity.
  - congruence.
Qed.
Lemma somes_perm : forall A (l l' : list (option A)), Permutation l l' -> Permutation (somes l) (somes l').
Proof.
  intros A l l' HP. induction HP; cbn; auto.
  - destruct x; auto.
  - destruct x, y; auto. apply perm_swap.
  - eapply Permutation_trans; eauto.
Qed.

Lemma collectC_perm : forall V (rs rs' : list (option (str * V))) acc,
  Permutation rs rs' -> NoDup (map fst (somes rs)) -> collectC rs acc = collectC rs' acc.
Proof.
  intros V rs rs' acc HP ND. rewrite !collectC_spec. rewrite (all_some_perm _ _ _ HP).
  destruct (all_some rs'); [|reflexivity]. f_equal. apply fold_ins_perm; [apply somes_perm; exact HP | exact ND].
Qed.

(** erasure commutes with insertion and collection *)
Definition erase_r (r : N + (name * glyph)) : option (str * glyphC) :=
  match r with inl _ => None | inr (k, g) => Some (content k, erase_glyph g) end.

Lemma erase_map_insert : forall k g m,
  erase_map (om_insert k g m) = om_insert k (erase_glyph g) (erase_map m).
Proof.
  intros k g m. induction m as [|[k' g'] r IH]; cbn [om_insert erase_map map fst snd]; [reflexivity|].
  destruct (str_cmp k k'); cbn [erase_map map fst snd]; try reflexivity.
  f_equal. exact IH.
Qed.

Lemma erase_collect : forall rs acc,
  erase_res (collect rs acc) = collectC (map erase_r rs) (erase_map acc).
Proof.
  induction rs as [|[e|[k g]] r IH]; intro acc; cbn [collect map erase_r collectC erase_res]; auto.
  rewrite IH. rewrite erase_map_insert. reflexivity.
Qed.

Lemma erase_task_result : forall t got,
  map content got = map content (prog_of t) -> erase_r (task_result t got) = task_spec t.
Proof.
  intros t got H. unfold task_result, task_spec. destruct (t_out t) as [p|e]; [|reflexivity].
  unfold prog_of in H. destruct got as [|k got]; [discriminate|]. cbn [map] in H. inversion H as [[Hk Hr]].
  cbn [hd tl erase_r]. unfold erase_glyph. cbn [g_name g_bases g_payload]. rewrite Hk.
  destruct got as [|i got]; destruct (t_reqs t) as [|i' rq]; cbn [map tl] in *; try discriminate; try reflexivity.
  injection Hr as _ Hr2. rewrite Hr2. reflexivity.
Qed.

(** * The sequential side *)
Lemma lookup_content : forall s c m, lookup s c = Some m -> content m = c.
Proof.
  unfold lookup. intros s c m H. apply find_some in H. destruct H as [_ H]. apply str_eqb_eq in H. exact H.
Qed.
Lemma lookup_in : forall s c m, lookup s c = Some m -> In m s.
Proof. unfold lookup. intros s c m H. apply find_some in H. tauto. Qed.
Lemma lookup_none : forall s c, lookup s c = None -> ~ In c (map content s).
Proof.
  unfold lookup. intros s c H Hin. apply in_map_iff in Hin. destruct Hin as [m [Hm Hin]].
  pose proof (find_none _ _ H m Hin) as Hf. cbn in Hf. rewrite Hm in Hf. rewrite str_eqb_refl in Hf. discriminate.
Qed.
Lemma lookup_some_in : forall s c, In c (map content s) -> exists m, lookup s c = Some m.
Proof.
  intros s c Hin. destruct (lookup s c) eqn:E; [eauto|]. apply lookup_none in E. contradiction.
Qed.

Lemma get_seq_content : forall s n, content (snd (get_seq s n)) = content n.
Proof.
  intros s n. unfold get_seq. destruct (lookup s (content n)) eqn:E; cbn [snd]; [|reflexivity].
  eapply lookup_content; eauto.
Qed.
Lemma gets_seq_content : forall ns s, map content (snd (gets_seq s ns)) = map content ns.
Proof.
  induction ns as [|n r IH]; intro s; cbn [gets_seq]; [reflexivity|].
  pose proof (get_seq_content s n) as H1. destruct (get_seq s n) as [s1 m]. cbn [snd] in H1.
  pose proof (IH s1) as H2. destruct (gets_seq s1 r) as [s2 ms]. cbn [snd map] in *. congruence.
Qed.

Lemma seq_tasks_erase : forall ts s acc,
  erase_res (snd (seq_tasks s ts acc)) = collectC (map task_spec ts) (erase_map acc).
Proof.
  induction ts as [|t r IH]; intros s acc; cbn [seq_tasks map]; [reflexivity|].
  pose proof (gets_seq_content (prog_of t) s) as Hc.
  destruct (gets_seq s (prog_of t)) as [s' got]. cbn [snd] in Hc.
  pose proof (erase_task_result t got Hc) as He.
  destruct (task_result t got) as [e|[k g]]; cbn [erase_r] in He; rewrite <- He; cbn [collectC snd erase_res].
  - reflexivity.
  - rewrite IH. rewrite erase_map_insert. reflexivity.
Qed.

Lemma seq_glyphs_spec : forall s ts, erase_res (snd (seq_glyphs s ts)) = spec_glyphs ts.
Proof. intros. unfold seq_glyphs, spec_glyphs. rewrite seq_tasks_erase. reflexivity. Qed.

(** * The machine *)
Lemma nth_error_upd : forall A (l : list A) i j x,
  nth_error (upd i x l) j =
  if Nat.eqb i j then match nth_error l i with Some _ => Some x | None => None end else nth_error l j.
Proof.
  induction l as [|y r IH]; intros i j x.
  - cbn [upd]. destruct (Nat.eqb i j); destruct i, j; reflexivity.
  - destruct i, j; cbn [upd nth_error Nat.eqb]; try reflexivity. apply IH.
Qed.
Lemma upd_length : forall A (l : list A) i x, length (upd i x l) = length l.
Proof. induction l; intros [|i] x; cbn; auto. Qed.

Lemma steps_app : forall a b st, steps (a ++ b) st = steps b (steps a st).
Proof. intros. unfold steps. apply fold_left_app. Qed.

(** shape of a step *)
Lemma step_shape : forall i st,
  step i st = st \/
  exists th s' th' c, nth_error (m_thr st) i = Some th /\ th_fin th = false /\
    tstep (m_set st) th = (s', th', c) /\
    step i st = mkM s' (upd i th' (m_thr st)) (if c then m_done st ++ [i] else m_done st).
Proof.
  intros i st. unfold step. destruct (nth_error (m_thr st) i) as [th|] eqn:E; [|left; reflexivity].
  destruct (th_fin th) eqn:F; [left; reflexivity|].
  destruct (tstep (m_set st) th) as [[s' th'] c] eqn:T. right. exists th, s', th', c. auto.
Qed.

(** ** thread-local facts about one step *)
Lemma tstep_content : forall s th s' th' c, tstep s th = (s', th', c) ->
  map content (rev (th_got th')) ++ map content (th_todo th') =
  map content (rev (th_got th)) ++ map content (th_todo th).
Proof.
  intros s th s' th' c H. unfold tstep in H. destruct (th_todo th) as [|n rest] eqn:ET.
  - inversion H; subst. reflexivity.
  - destruct (th_pc th).
    + destruct (lookup s (content n)) as [m|] eqn:EL; inversion H; subst; cbn [th_got th_todo].
      * apply lookup_content in EL. cbn [rev map]. rewrite map_app, <- app_assoc. cbn [map app]. rewrite EL. reflexivity.
      * reflexivity.
    + inversion H; subst. reflexivity.
    + inversion H; subst. cbn [th_got th_todo rev map]. rewrite map_app, <- app_assoc. reflexivity.
Qed.
Lemma tstep_fin : forall s th s' th' c, tstep s th = (s', th', c) ->
  th_fin th' = c /\ (c = true -> th_todo th' = []).
Proof.
  intros s th s' th' c H. unfold tstep in H. destruct (th_todo th) as [|n rest].
  - inversion H; subst. auto.
  - destruct (th_pc th); [destruct (lookup s (content n))| |]; inversion H; subst; cbn; split; auto; discriminate.
Qed.

Lemma hs_insert_contents : forall s n c,
  In c (map content (hs_insert s n)) <-> In c (map content s) \/ c = content n.
Proof.
  intros s n c. unfold hs_insert. destruct (lookup s (content n)) as [m|] eqn:E.
  - split; [auto|]. intros [H|H]; [exact H|]. subst c.
    pose proof (lookup_content _ _ _ E) as Hc. rewrite <- Hc. apply in_map. eapply lookup_in; eauto.
  - rewrite map_app, in_app_iff. cbn. intuition.
Qed.
Lemma NoDup_snoc : forall A (l : list A) x, NoDup l -> ~ In x l -> NoDup (l ++ [x]).
Proof.
  intros A l x H Hn. eapply Permutation_NoDup; [apply Permutation_cons_append|]. constructor; assumption.
Qed.
Lemma hs_insert_nodup : forall s n, NoDup (map content s) -> NoDup (map content (hs_insert s n)).
Proof.
  intros s n H. unfold hs_insert. destruct (lookup s (content n)) as [m|] eqn:E; [exact H|].
  rewrite map_app. cbn [map]. apply lookup_none in E.
  apply NoDup_snoc; assumption.
Qed.

Lemma tstep_set : forall s th s' th' c, tstep s th = (s', th', c) ->
  s' = s \/ exists n, In n (th_todo th) /\ s' = hs_insert s n.
Proof.
  intros s th s' th' c H. unfold tstep in H. destruct (th_todo th) as [|n rest].
  - inversion H; auto.
  - destruct (th_pc th); [destruct (lookup s (content n))| |]; inversion H; subst; auto.
    right. exists n. split; [left; reflexivity|reflexivity].
Qed.
Lemma tstep_set_nodup : forall s th s' th' c, tstep s th = (s', th', c) ->
  NoDup (map content s) -> NoDup (map content s').
Proof.
  intros s th s' th' c H ND. destruct (tstep_set _ _ _ _ _ H) as [E|[n [_ E]]]; subst s'; auto using hs_insert_nodup.
Qed.
Lemma tstep_set_mono : forall s th s' th' c x, tstep s th = (s', th', c) ->
  In x (map content s) -> In x (map content s').
Proof.
  intros s th s' th' c x H Hin. destruct (tstep_set _ _ _ _ _ H) as [E|[n [_ E]]]; subst s'; auto.
  apply hs_insert_contents. auto.
Qed.
Lemma tstep_set_from : forall s th s' th' c x, tstep s th = (s', th', c) ->
  In x (map content s') -> In x (map content s) \/ In x (map content (th_todo th)).
Proof.
  intros s th s' th' c x H Hin. destruct (tstep_set _ _ _ _ _ H) as [E|[n [Hn E]]]; subst s'; auto.
  apply hs_insert_contents in Hin. destruct Hin as [Hin|Hin]; auto. right. subst x. apply in_map. exact Hn.
Qed.
Lemma tstep_got_in_set : forall s th s' th' c, tstep s th = (s', th', c) ->
  (forall m, In m (th_got th) -> In (content m) (map content s)) ->
  (forall m, In m (th_got th') -> In (content m) (map content s')).
Proof.
  intros s th s' th' c H Hold m Hin. unfold tstep in H. destruct (th_todo th) as [|n rest].
  - inversion H; subst. auto.
  - destruct (th_pc th).
    + destruct (lookup s (content n)) as [m'|] eqn:EL; inversion H; subst; cbn [th_got] in Hin; auto.
      destruct Hin as [Hin|Hin]; auto. subst m'. apply in_map. eapply lookup_in; eauto.
    + inversion H; subst. auto.
    + inversion H; subst. cbn [th_got] in Hin. apply hs_insert_contents.
      destruct Hin as [Hin|Hin]; [right; subst; reflexivity | left; auto].
Qed.

Lemma in_contents_concat : forall (progs : list (list name)) c,
  In c (map content (concat progs)) <-> exists p, In p progs /\ In c (map content p).
Proof.
  intros progs c. rewrite in_map_iff. split.
  - intros [n [Hc Hin]]. apply in_concat in Hin. destruct Hin as [p [Hp Hn]]. exists p. split; auto.
    subst c. apply in_map. exact Hn.
  - intros [p [Hp Hin]]. apply in_map_iff in Hin. destruct Hin as [n [Hc Hn]]. exists n. split; auto.
    apply in_concat. eauto.
Qed.

Record Inv (s0 : nset) (progs : list (list name)) (st : mstate) : Prop := {
  inv_len : length (m_thr st) = length progs;
  inv_thr : forall i th p, nth_error (m_thr st) i = Some th -> nth_error progs i = Some p ->
      map content (rev (th_got th)) ++ map content (th_todo th) = map content p /\
      (th_fin th = true -> th_todo th = []);
  inv_done : forall i, In i (m_done st) <-> exists th, nth_error (m_thr st) i = Some th /\ th_fin th = true;
  inv_done_nd : NoDup (m_done st);
  inv_set_nd : NoDup (map content s0) -> NoDup (map content (m_set st));
  inv_set_sub : forall c, In c (map content (m_set st)) ->
      In c (map content s0) \/ In c (map content (concat progs));
  inv_set_sup : forall c, In c (map content s0) -> In c (map content (m_set st));
  inv_got : forall i th m, nth_error (m_thr st) i = Some th -> In m (th_got th) ->
      In (content m) (map content (m_set st)) }.

Lemma nth_error_same_len : forall A B (l : list A) (l' : list B) i a,
  length l = length l' -> nth_error l i = Some a -> exists b, nth_error l' i = Some b.
Proof.
  intros A B l l' i a HL H. destruct (nth_error l' i) as [b|] eqn:E; [eauto|].
  apply nth_error_None in E. assert (nth_error l i <> None) as Hne by congruence.
  apply nth_error_Some in Hne. lia.
Qed.

Lemma inv_init : forall s0 progs, Inv s0 progs (init s0 progs).
Proof.
  intros s0 progs. unfold init. constructor; cbn [m_thr m_set m_done].
  - apply map_length.
  - intros i th p H Hp. rewrite nth_error_map, Hp in H. cbn in H. inversion H; subst. cbn. split; [reflexivity|discriminate].
  - intro i. split; [intros []|]. intros [th [H F]]. rewrite nth_error_map in H.
    destruct (nth_error progs i); cbn in H; [|discriminate]. inversion H; subst. discriminate.
  - constructor.
  - auto.
  - auto.
  - auto.
  - intros i th m H Hin. rewrite nth_error_map in H. destruct (nth_error progs i); cbn in H; [|discriminate].
    inversion H; subst. destruct Hin.
Qed.

Lemma inv_step : forall s0 progs st i, Inv s0 progs st -> Inv s0 progs (step i st).
Proof.
  intros s0 progs st i I. destruct (step_shape i st) as [E|[th [s' [th' [c [Hth [Hf [T E]]]]]]]]; rewrite E; [exact I|].
  destruct (tstep_fin _ _ _ _ _ T) as [Hfin Htodo].
  constructor; cbn [m_thr m_set m_done].
  - rewrite upd_length. apply (inv_len _ _ _ I).
  - intros j thj p Hn Hp. rewrite nth_error_upd in Hn. destruct (Nat.eqb_spec i j) as [->|Hne].
    + rewrite Hth in Hn. inversion Hn; subst thj. split.
      * rewrite (tstep_content _ _ _ _ _ T). apply (inv_thr _ _ _ I j th p Hth Hp).
      * intro F. apply Htodo. congruence.
    + apply (inv_thr _ _ _ I j thj p Hn Hp).
  - intro j. rewrite nth_error_upd. destruct (Nat.eqb_spec i j) as [<-|Hne].
    + rewrite Hth. destruct c.
      * split; [intros _; exists th'; auto|]. intros _. apply in_or_app. right. left. reflexivity.
      * split.
        -- intro Hin. apply (inv_done _ _ _ I) in Hin. destruct Hin as [th2 [H2 F2]]. congruence.
        -- intros [th2 [H2 F2]]. inversion H2; subst. congruence.
    + assert (In j (if c then m_done st ++ [i] else m_done st) <-> In j (m_done st)) as Hd.
      { destruct c; [|tauto]. rewrite in_app_iff. cbn. intuition. }
      rewrite Hd. apply (inv_done _ _ _ I).
  - destruct c; [|apply (inv_done_nd _ _ _ I)]. apply NoDup_snoc; [apply (inv_done_nd _ _ _ I)|].
    intro Hin. apply (inv_done _ _ _ I) in Hin. destruct Hin as [th2 [H2 F2]]. congruence.
  - intro ND. eapply tstep_set_nodup; [exact T|]. apply (inv_set_nd _ _ _ I ND).
  - intros x Hin. destruct (tstep_set_from _ _ _ _ _ x T Hin) as [H|H]; [apply (inv_set_sub _ _ _ I x H)|].
    right. destruct (nth_error_same_len _ _ _ progs i th (inv_len _ _ _ I) Hth) as [p Hp].
    apply in_contents_concat. exists p. split; [eapply nth_error_In; eauto|].
    destruct (inv_thr _ _ _ I i th p Hth Hp) as [Hc _]. rewrite <- Hc. apply in_or_app. right. exact H.
  - intros x Hin. eapply tstep_set_mono; [exact T|]. apply (inv_set_sup _ _ _ I x Hin).
  - intros j thj m Hn Hin. rewrite nth_error_upd in Hn. destruct (Nat.eqb_spec i j) as [->|Hne].
    + rewrite Hth in Hn. inversion Hn; subst thj.
      eapply tstep_got_in_set; [exact T| |exact Hin]. intros m' Hm'. apply (inv_got _ _ _ I j th m' Hth Hm').
    + eapply tstep_set_mono; [exact T|]. apply (inv_got _ _ _ I j thj m Hn Hin).
Qed.

Lemma inv_steps : forall s0 progs sched st, Inv s0 progs st -> Inv s0 progs (steps sched st).
Proof.
  intros s0 progs sched. induction sched as [|i r IH]; intros st I; [exact I|].
  cbn [steps fold_left]. apply IH. apply inv_step. exact I.
Qed.

(** ** Progress: the join lets every thread finish *)
Definition mu_th (th : thread) : nat :=
  if th_fin th then 0 else
  match th_todo th with
  | [] => 1
  | _ :: rest => 1 + 3 * length rest + match th_pc th with AtLookup => 3 | AtRelease => 2 | AtInsert => 1 end
  end.
Definition mu (st : mstate) (i : nat) : nat :=
  match nth_error (m_thr st) i with Some th => mu_th th | None => 0 end.

Lemma mu_th_zero : forall th, mu_th th = 0 <-> th_fin th = true.
Proof.
  intro th. unfold mu_th. destruct (th_fin th); [tauto|]. destruct (th_todo th); split; intro H; try discriminate; lia.
Qed.

Lemma tstep_mu : forall s th s' th' c, th_fin th = false -> tstep s th = (s', th', c) -> mu_th th' < mu_th th.
Proof.
  intros s th s' th' c F H. unfold mu_th at 2. rewrite F. unfold tstep in H. destruct (th_todo th) as [|n rest].
  - inversion H; subst. cbn. lia.
  - destruct (th_pc th); [destruct (lookup s (content n))| |]; inversion H; subst; unfold mu_th; cbn [th_fin th_todo th_pc length];
      try lia; destruct rest; cbn [length]; lia.
Qed.

Lemma mu_step_self : forall i st, mu (step i st) i <= pred (mu st i).
Proof.
  intros i st. destruct (step_shape i st) as [E|[th [s' [th' [c [Hth [Hf [T E]]]]]]]]; rewrite E.
  - unfold mu. destruct (nth_error (m_thr st) i) as [th|] eqn:Hth; [|lia].
    unfold step in E. rewrite Hth in E. destruct (th_fin th) eqn:F.
    + assert (mu_th th = 0) by (apply mu_th_zero; exact F). lia.
    + destruct (tstep (m_set st) th) as [[s' th'] c] eqn:T.
      (* the step changed nothing although the thread was not finished: impossible by the measure *)
      apply (f_equal (fun s => nth_error (m_thr s) i)) in E. cbn [m_thr] in E.
      rewrite nth_error_upd, Nat.eqb_refl, Hth in E. inversion E; subst th'.
      pose proof (tstep_mu _ _ _ _ _ F T). lia.
  - unfold mu. cbn [m_thr]. rewrite nth_error_upd, Nat.eqb_refl, Hth.
    pose proof (tstep_mu _ _ _ _ _ Hf T). lia.
Qed.
Lemma mu_step_other : forall i j st, i <> j -> mu (step i st) j = mu st j.
Proof.
  intros i j st Hne. destruct (step_shape i st) as [E|[th [s' [th' [c [Hth [Hf [T E]]]]]]]]; rewrite E; [reflexivity|].
  unfold mu. cbn [m_thr]. rewrite nth_error_upd. destruct (Nat.eqb_spec i j); [contradiction|reflexivity].
Qed.
Lemma mu_step_le : forall i j st, mu (step i st) j <= mu st j.
Proof.
  intros i j st. destruct (Nat.eq_dec i j) as [->|Hne].
  - pose proof (mu_step_self j st). lia.
  - rewrite mu_step_other by assumption. lia.
Qed.
Lemma mu_steps_le : forall sched j st, mu (steps sched st) j <= mu st j.
Proof.
  induction sched as [|i r IH]; intros j st; cbn [steps fold_left]; [lia|].
  pose proof (IH j (step i st)). pose proof (mu_step_le i j st). unfold steps in *. lia.
Qed.
Lemma mu_repeat : forall k i st, mu (steps (repeat i k) st) i <= mu st i - k.
Proof.
  induction k as [|k IH]; intros i st; cbn [repeat steps fold_left]; [lia|].
  pose proof (IH i (step i st)). pose proof (mu_step_self i st). unfold steps in *. lia.
Qed.

Lemma drain_from_zero : forall ps j st,
  (forall k p, nth_error ps k = Some p -> mu st (j + k) <= 3 * length p + 1) ->
  forall k, k < length ps -> mu (steps (drain_from j ps) st) (j + k) = 0.
Proof.
  induction ps as [|p r IH]; intros j st Hb k Hk; [cbn in Hk; lia|].
  cbn [drain_from]. rewrite steps_app.
  set (st1 := steps (repeat j (3 * length p + 1)) st).
  destruct k as [|k].
  - rewrite Nat.add_0_r. pose proof (mu_steps_le (drain_from (S j) r) j st1).
    pose proof (mu_repeat (3 * length p + 1) j st). fold st1 in H0.
    pose proof (Hb 0 p eq_refl) as Hb0. rewrite Nat.add_0_r in Hb0. lia.
  - replace (j + S k) with (S j + k) by lia. apply IH; [|cbn in Hk; lia].
    intros k' p' Hp'. pose proof (Hb (S k') p' Hp') as Hb'.
    pose proof (mu_steps_le (repeat j (3 * length p + 1)) (S j + k') st). fold st1 in H.
    replace (j + S k') with (S j + k') in Hb' by lia. lia.
Qed.

Lemma mu_init : forall s progs i p, nth_error progs i = Some p -> mu (init s progs) i = 3 * length p + 1.
Proof.
  intros s progs i p H. unfold mu, init. cbn [m_thr]. rewrite nth_error_map, H. cbn [option_map].
  unfold mu_th. cbn [th_fin th_todo th_pc]. destruct p; cbn [length]; lia.
Qed.

Lemma run_all_fin : forall sched s progs i th,
  nth_error (m_thr (run sched s progs)) i = Some th -> th_fin th = true.
Proof.
  intros sched s progs i th H. unfold run in H. rewrite steps_app in H.
  set (st1 := steps sched (init s progs)) in *.
  assert (I : Inv s progs (steps (drain_sched progs) st1)) by (apply inv_steps, inv_steps, inv_init).
  assert (Hi : i < length progs).
  { rewrite <- (inv_len _ _ _ I). apply nth_error_Some. congruence. }
  apply mu_th_zero.
  pose proof (drain_from_zero progs 0 st1) as D. cbn [Nat.add] in D.
  assert (D' : mu (steps (drain_sched progs) st1) i = 0).
  { apply D; [|exact Hi]. intros k p Hp. pose proof (mu_steps_le sched k (init s progs)). fold st1 in H0.
    rewrite (mu_init s progs k p Hp) in H0. exact H0. }
  unfold mu in D'. rewrite H in D'. exact D'.
Qed.

Lemma run_inv : forall sched s progs, Inv s progs (run sched s progs).
Proof. intros. unfold run. apply inv_steps, inv_init. Qed.

Lemma run_done_perm : forall sched s progs,
  Permutation (m_done (run sched s progs)) (seq 0 (length progs)).
Proof.
  intros sched s progs. pose proof (run_inv sched s progs) as I.
  apply NoDup_Permutation; [apply (inv_done_nd _ _ _ I) | apply seq_NoDup|].
  intro i. rewrite in_seq. rewrite (inv_done _ _ _ I). rewrite <- (inv_len _ _ _ I). split.
  - intros [th [H _]]. assert (nth_error (m_thr (run sched s progs)) i <> None) as Hn by congruence.
    apply nth_error_Some in Hn. lia.
  - intros [_ Hlt]. cbn in Hlt. destruct (nth_error (m_thr (run sched s progs)) i) as [th|] eqn:E.
    + exists th. split; [reflexivity|]. eapply run_all_fin; eauto.
    + apply nth_error_None in E. lia.
Qed.

(** names handed to thread [i] by the end: one per request, with the requested contents *)
Lemma run_got_content : forall sched s progs i p,
  nth_error progs i = Some p -> map content (got_of (run sched s progs) i) = map content p.
Proof.
  intros sched s progs i p Hp. pose proof (run_inv sched s progs) as I. unfold got_of.
  destruct (nth_error (m_thr (run sched s progs)) i) as [th|] eqn:E.
  - destruct (inv_thr _ _ _ I i th p E Hp) as [Hc Hf].
    rewrite (Hf (run_all_fin _ _ _ _ _ E)) in Hc. cbn [map] in Hc. rewrite app_nil_r in Hc. exact Hc.
  - apply nth_error_None in E. rewrite (inv_len _ _ _ I) in E.
    assert (nth_error progs i <> None) as Hn by congruence. apply nth_error_Some in Hn. lia.
Qed.

(** * One layer: parallel = specification = sequential *)
Lemma map_nth_seq : forall A (l : list A) d, map (fun i => nth i l d) (seq 0 (length l)) = l.
Proof.
  intros A l d. induction l as [|x r IH]; [reflexivity|].
  cbn [length seq map nth]. f_equal. rewrite <- seq_shift, map_map. exact IH.
Qed.

Lemma spec_keys_in : forall ts k, In k (map fst (somes (map task_spec ts))) -> In k (keys_of ts).
Proof.
  induction ts as [|t r IH]; intros k H; [destruct H|]. cbn [map] in H. unfold task_spec at 1 in H.
  cbn [keys_of map]. destruct (t_out t); cbn [somes map fst] in H.
  - destruct H as [H|H]; [left; exact H | right; apply IH; exact H].
  - right. apply IH. exact H.
Qed.
Lemma spec_keys_nodup : forall ts, NoDup (keys_of ts) -> NoDup (map fst (somes (map task_spec ts))).
Proof.
  induction ts as [|t r IH]; intro ND; [constructor|]. cbn [keys_of map] in ND. inversion ND as [|? ? Hn ND']; subst.
  cbn [map]. unfold task_spec at 1. destruct (t_out t); cbn [somes map fst]; [|apply IH; exact ND'].
  constructor; [|apply IH; exact ND']. intro H. apply Hn. apply spec_keys_in. exact H.
Qed.

Definition dflt_task := mkTask ([], 0%N) None [] (TErr 0%N).

Lemma results_erase : forall sched s ts,
  let st := run sched s (map prog_of ts) in
  map erase_r (results_of st ts) = map (fun i => task_spec (nth i ts dflt_task)) (m_done st).
Proof.
  intros sched s ts st. unfold results_of. rewrite map_map. apply map_ext_in. intros i Hi.
  apply erase_task_result.
  assert (Hlt : i < length ts).
  { pose proof (run_done_perm sched s (map prog_of ts)) as HP. fold st in HP.
    apply (Permutation_in _ HP) in Hi. apply in_seq in Hi. rewrite map_length in Hi. lia. }
  apply run_got_content. rewrite nth_error_map. rewrite (nth_error_nth' ts dflt_task Hlt). reflexivity.
Qed.

Lemma par_glyphs_spec : forall sched s ts,
  NoDup (keys_of ts) -> erase_res (snd (par_glyphs sched s ts)) = spec_glyphs ts.
Proof.
  intros sched s ts ND. unfold par_glyphs. cbn [snd]. rewrite erase_collect. rewrite results_erase.
  cbn [erase_map map]. unfold spec_glyphs.
  rewrite <- (map_nth_seq _ ts dflt_task) at 2. rewrite map_map.
  symmetry. apply collectC_perm.
  - apply Permutation_map. apply Permutation_sym.
    pose proof (run_done_perm sched s (map prog_of ts)) as HP. rewrite map_length in HP. exact HP.
  - rewrite <- map_map with (g := task_spec). rewrite map_nth_seq. apply spec_keys_nodup. exact ND.
Qed.

Theorem par_glyphs_eq_seq : forall sched s ts,
  NoDup (keys_of ts) -> erase_res (snd (par_glyphs sched s ts)) = erase_res (snd (seq_glyphs s ts)).
Proof. intros. rewrite par_glyphs_spec by assumption. rewrite seq_glyphs_spec. reflexivity. Qed.

Lemma all_some_spec : forall ts, all_some (map task_spec ts) = forallb task_ok ts.
Proof.
  induction ts as [|t r IH]; [reflexivity|]. cbn [map forallb]. unfold all_some in *. cbn [forallb].
  rewrite IH. unfold task_spec, task_ok. destruct (t_out t); reflexivity.
Qed.

Lemma par_glyphs_ok_iff : forall sched s ts,
  (exists m, snd (par_glyphs sched s ts) = inr m) <-> forallb task_ok ts = true.
Proof.
  intros sched s ts.
  assert (E : erase_res (snd (par_glyphs sched s ts)) <> None <-> forallb task_ok ts = true).
  { unfold par_glyphs. cbn [snd]. rewrite erase_collect, results_erase. rewrite collectC_spec.
    rewrite (all_some_perm _ _ (map (fun i => task_spec (nth i ts dflt_task)) (seq 0 (length ts)))).
    - rewrite <- map_map with (g := task_spec). rewrite map_nth_seq. rewrite all_some_spec.
      destruct (forallb task_ok ts); split; congruence.
    - apply Permutation_map. pose proof (run_done_perm sched s (map prog_of ts)) as HP.
      rewrite map_length in HP. exact HP. }
  rewrite <- E. destruct (snd (par_glyphs sched s ts)) as [e|m]; cbn [erase_res]; split.
  - intros [m H]. discriminate.
  - congruence.
  - discriminate.
  - eauto.
Qed.
Lemma seq_glyphs_ok_iff : forall s ts,
  (exists m, snd (seq_glyphs s ts) = inr m) <-> forallb task_ok ts = true.
Proof.
  intros s ts.
  assert (E : erase_res (snd (seq_glyphs s ts)) <> None <-> forallb task_ok ts = true).
  { rewrite seq_glyphs_spec. unfold spec_glyphs. rewrite collectC_spec, all_some_spec.
    destruct (forallb task_ok ts); split; congruence. }
  rewrite <- E. destruct (snd (seq_glyphs s ts)) as [e|m]; cbn [erase_res]; split.
  - intros [m H]. discriminate.
  - congruence.
  - discriminate.
  - eauto.
Qed.

(** every name handed out at any moment has the requested content *)
Theorem intern_content : forall sched s progs i th p,
  nth_error (m_thr (steps sched (init s progs))) i = Some th -> nth_error progs i = Some p ->
  map content (rev (th_got th)) = firstn (length (th_got th)) (map content p).
Proof.
  intros sched s progs i th p H Hp.
  assert (I : Inv s progs (steps sched (init s progs))) by apply inv_steps, inv_init.
  destruct (inv_thr _ _ _ I i th p H Hp) as [Hc _]. rewrite <- Hc.
  replace (length (th_got th)) with (length (map content (rev (th_got th)))) by (rewrite map_length, rev_length; reflexivity).
  rewrite firstn_app, Nat.sub_diag, firstn_all. cbn [firstn]. rewrite app_nil_r. reflexivity.
Qed.

(** the interner after a parallel layer load *)
Theorem par_set_union : forall sched s progs,
  let st := run sched s progs in
  (NoDup (map content s) -> NoDup (map content (m_set st))) /\
  (forall c, In c (map content (m_set st)) <-> In c (map content s) \/ In c (map content (concat progs))).
Proof.
  intros sched s progs st. pose proof (run_inv sched s progs) as I. fold st in I. split; [apply (inv_set_nd _ _ _ I)|].
  intro c. split; [apply (inv_set_sub _ _ _ I)|]. intros [H|H]; [apply (inv_set_sup _ _ _ I); exact H|].
  apply in_contents_concat in H. destruct H as [p [Hp Hc]]. apply In_nth_error in Hp. destruct Hp as [i Hp].
  pose proof (run_got_content sched s progs i p Hp) as Hg. fold st in Hg. unfold got_of in Hg.
  destruct (nth_error (m_thr st) i) as [th|] eqn:E.
  - rewrite <- Hg in Hc. apply in_map_iff in Hc. destruct Hc as [m [Hm Hin]]. subst c.
    apply in_rev in Hin. apply (inv_got _ _ _ I i th m E Hin).
  - cbn in Hg. rewrite <- Hg in Hc. destruct Hc.
Qed.

(** the interner after a sequential load of the same requests *)
Lemma get_seq_set : forall s n c,
  In c (map content (fst (get_seq s n))) <-> In c (map content s) \/ c = content n.
Proof.
  intros s n c. unfold get_seq. destruct (lookup s (content n)) as [m|] eqn:E; cbn [fst].
  - split; [auto|]. intros [H|H]; [exact H|]. subst c. rewrite <- (lookup_content _ _ _ E). apply in_map. eapply lookup_in; eauto.
  - apply hs_insert_contents.
Qed.
Lemma gets_seq_set : forall ns s c,
  In c (map content (fst (gets_seq s ns))) <-> In c (map content s) \/ In c (map content ns).
Proof.
  induction ns as [|n r IH]; intros s c; cbn [gets_seq].
  - cbn. tauto.
  - pose proof (get_seq_set s n c) as H1. destruct (get_seq s n) as [s1 m]. cbn [fst] in H1.
    pose proof (IH s1 c) as H2. destruct (gets_seq s1 r) as [s2 ms]. cbn [fst map In] in *. rewrite H2, H1. intuition.
Qed.
Lemma get_seq_nodup : forall s n, NoDup (map content s) -> NoDup (map content (fst (get_seq s n))).
Proof.
  intros s n H. unfold get_seq. destruct (lookup s (content n)); cbn [fst]; auto using hs_insert_nodup.
Qed.
Lemma gets_seq_nodup : forall ns s, NoDup (map content s) -> NoDup (map content (fst (gets_seq s ns))).
Proof.
  induction ns as [|n r IH]; intros s H; cbn [gets_seq]; [exact H|].
  pose proof (get_seq_nodup s n H) as H1. destruct (get_seq s n) as [s1 m]. cbn [fst] in H1.
  pose proof (IH s1 H1) as H2. destruct (gets_seq s1 r) as [s2 ms]. exact H2.
Qed.

Lemma seq_tasks_set : forall ts s acc, forallb task_ok ts = true ->
  (NoDup (map content s) -> NoDup (map content (fst (seq_tasks s ts acc)))) /\
  forall c, In c (map content (fst (seq_tasks s ts acc))) <->
            In c (map content s) \/ In c (map content (concat (map prog_of ts))).
Proof.
  induction ts as [|t r IH]; intros s acc Hok; cbn [seq_tasks map concat].
  - cbn. split; [auto|]. intro c. tauto.
  - cbn [forallb] in Hok. apply andb_true_iff in Hok. destruct Hok as [Ht Hr].
    pose proof (gets_seq_set (prog_of t) s) as H1. pose proof (gets_seq_nodup (prog_of t) s) as N1.
    destruct (gets_seq s (prog_of t)) as [s' got]. cbn [fst] in H1, N1.
    unfold task_result. unfold task_ok in Ht. destruct (t_out t); [|discriminate].
    destruct (IH s' (om_insert (content (hd (t_key t) got))
                       {| g_name := hd (t_key t) got; g_bases := tl (tl got); g_payload := payload |} acc) Hr) as [N2 H2].
    split; [auto|]. intro c. rewrite H2, H1, map_app, in_app_iff. tauto.
Qed.

Section LowerP.
Variable lower : str -> str.
Notation files_ok := (files_ok lower).
Notation par_layer := (par_layer lower).
Notation seq_layer := (seq_layer lower).
Notation spec_layer := (spec_layer lower).
Notation layer_ok := (layer_ok lower).
Notation par_font := (par_font lower).
Notation seq_font := (seq_font lower).
Notation spec_font := (spec_font lower).

(** * The whole of [load_impl]: file-name check, then the glyphs *)
Lemma par_layer_spec : forall sched s ts,
  NoDup (keys_of ts) -> erase_res (snd (par_layer sched s ts)) = spec_layer ts.
Proof.
  intros sched s ts ND. unfold par_layer, spec_layer. destruct (files_ok [] ts); [apply par_glyphs_spec; exact ND|reflexivity].
Qed.
Lemma seq_layer_spec : forall s ts, erase_res (snd (seq_layer s ts)) = spec_layer ts.
Proof.
  intros s ts. unfold seq_layer, spec_layer. destruct (files_ok [] ts); [apply seq_glyphs_spec|reflexivity].
Qed.
Theorem par_layer_eq_seq : forall sched s ts,
  NoDup (keys_of ts) -> erase_res (snd (par_layer sched s ts)) = erase_res (snd (seq_layer s ts)).
Proof. intros. rewrite par_layer_spec by assumption. rewrite seq_layer_spec. reflexivity. Qed.
Lemma par_layer_ok_iff : forall sched s ts,
  (exists m, snd (par_layer sched s ts) = inr m) <-> layer_ok ts = true.
Proof.
  intros sched s ts. unfold par_layer, layer_ok. destruct (files_ok [] ts); cbn [andb].
  - apply par_glyphs_ok_iff.
  - cbn [snd]. split; [intros [m H]; discriminate|discriminate].
Qed.
Lemma seq_layer_ok_iff : forall s ts,
  (exists m, snd (seq_layer s ts) = inr m) <-> layer_ok ts = true.
Proof.
  intros s ts. unfold seq_layer, layer_ok. destruct (files_ok [] ts); cbn [andb].
  - apply seq_glyphs_ok_iff.
  - cbn [snd]. split; [intros [m H]; discriminate|discriminate].
Qed.

(** a layer that loads has pairwise different glif files *)
Lemma files_ok_nodup_lower : forall ts seen, files_ok seen ts = true ->
  NoDup (map (fun t => lower (file_of t)) ts) /\
  forall f, In f (map (fun t => lower (file_of t)) ts) -> ~ In f seen.
Proof.
  induction ts as [|t r IH]; intros seen H; cbn [map]; [split; [constructor|intros f []]|].
  cbn [Interleave.files_ok] in H. unfold file_of at 1 3. destruct (t_file t) as [f|]; [|discriminate].
  destruct (existsb (str_eqb (lower f)) seen) eqn:E; [discriminate|].
  destruct (IH (lower f :: seen) H) as [ND Hn].
  assert (Hf : ~ In (lower f) seen).
  { intro Hin. assert (existsb (str_eqb (lower f)) seen = true) as X; [|congruence].
    apply existsb_exists. exists (lower f). split; [exact Hin|apply str_eqb_refl]. }
  split.
  - constructor; [|exact ND]. intro Hin. apply (Hn (lower f) Hin). left. reflexivity.
  - intros g [<-|Hin]; [exact Hf|]. intro Hs. apply (Hn g Hin). right. exact Hs.
Qed.
Lemma files_ok_nodup : forall ts, files_ok [] ts = true -> NoDup (map file_of ts).
Proof.
  intros ts H. destruct (files_ok_nodup_lower ts [] H) as [ND _].
  rewrite <- (map_map file_of lower) in ND. apply NoDup_map_inv in ND. exact ND.
Qed.
Lemma loaded_layer_paths_distinct : forall sched s ts enc,
  (exists m, snd (par_layer sched s ts) = inr m) -> NoDup (map fst (save_tasks enc ts)).
Proof.
  intros sched s ts enc H. apply par_layer_ok_iff in H. unfold layer_ok in H. apply andb_true_iff in H.
  destruct H as [H _]. unfold save_tasks. rewrite map_map. cbn [fst].
  apply (files_ok_nodup ts H).
Qed.

(** * The font: layers one after the other *)
Definition layers_ok (ls : list layer_in) : Prop := forall l, In l ls -> NoDup (keys_of (snd l)).

Lemma par_font_spec : forall ls scheds s, layers_ok ls -> erase_font (snd (par_font scheds s ls)) = spec_font ls.
Proof.
  induction ls as [|[ln ts] r IH]; intros scheds s Hok; cbn [par_font spec_font]; [reflexivity|].
  pose proof (par_layer_spec (hd [] scheds) s ts (Hok (ln, ts) (or_introl eq_refl))) as H1.
  destruct (par_layer (hd [] scheds) s ts) as [s1 res]. cbn [snd] in H1. rewrite <- H1.
  destruct res as [e|m]; cbn [erase_res snd erase_font]; [reflexivity|].
  assert (Hok' : layers_ok r) by (intros l Hl; apply Hok; right; exact Hl).
  pose proof (IH (tl scheds) s1 Hok') as H2. destruct (par_font (tl scheds) s1 r) as [s2 rr]. cbn [snd] in *.
  rewrite <- H2. destruct rr; reflexivity.
Qed.
Lemma seq_font_spec : forall ls s, erase_font (snd (seq_font s ls)) = spec_font ls.
Proof.
  induction ls as [|[ln ts] r IH]; intro s; cbn [seq_font spec_font]; [reflexivity|].
  pose proof (seq_layer_spec s ts) as H1.
  destruct (seq_layer s ts) as [s1 res]. cbn [snd] in H1. rewrite <- H1.
  destruct res as [e|m]; cbn [erase_res snd erase_font]; [reflexivity|].
  pose proof (IH s1) as H2. destruct (seq_font s1 r) as [s2 rr]. cbn [snd] in *.
  rewrite <- H2. destruct rr; reflexivity.
Qed.
Theorem par_font_eq_seq : forall scheds s ls, layers_ok ls ->
  erase_font (snd (par_font scheds s ls)) = erase_font (snd (seq_font s ls)).
Proof. intros. rewrite par_font_spec by assumption. rewrite seq_font_spec. reflexivity. Qed.

(** the interner after all layers: same contents in both builds when every glif parses *)
Definition font_ok (ls : list layer_in) : bool := forallb (fun l => layer_ok (snd l)) ls.
Definition font_reqs (ls : list layer_in) : list name := concat (map (fun l => concat (map prog_of (snd l))) ls).

Lemma par_layer_set : forall sched s ts, files_ok [] ts = true ->
  (NoDup (map content s) -> NoDup (map content (fst (par_layer sched s ts)))) /\
  forall c, In c (map content (fst (par_layer sched s ts))) <->
            In c (map content s) \/ In c (map content (concat (map prog_of ts))).
Proof. intros sched s ts F. unfold par_layer. rewrite F. unfold par_glyphs. cbn [fst]. apply par_set_union. Qed.

Lemma par_font_set : forall ls scheds s, font_ok ls = true ->
  (NoDup (map content s) -> NoDup (map content (fst (par_font scheds s ls)))) /\
  forall c, In c (map content (fst (par_font scheds s ls))) <->
            In c (map content s) \/ In c (map content (font_reqs ls)).
Proof.
  induction ls as [|[ln ts] r IH]; intros scheds s Hok; cbn [par_font].
  - cbn. split; [auto|]. intro c; tauto.
  - cbn [font_ok forallb snd] in Hok. apply andb_true_iff in Hok. destruct Hok as [Ht Hr].
    assert (Hf : files_ok [] ts = true) by (unfold layer_ok in Ht; apply andb_true_iff in Ht; tauto).
    destruct (par_layer_set (hd [] scheds) s ts Hf) as [N1 H1].
    pose proof (proj2 (par_layer_ok_iff (hd [] scheds) s ts) Ht) as [m Hm].
    destruct (par_layer (hd [] scheds) s ts) as [s1 res]. cbn [fst snd] in *. subst res.
    destruct (IH (tl scheds) s1 Hr) as [N2 H2]. destruct (par_font (tl scheds) s1 r) as [s2 rr]. cbn [fst] in *.
    split; [auto|]. intro c. unfold font_reqs. cbn [map concat snd]. rewrite H2, H1, map_app, in_app_iff.
    unfold font_reqs. tauto.
Qed.
Lemma seq_font_set : forall ls s, font_ok ls = true ->
  (NoDup (map content s) -> NoDup (map content (fst (seq_font s ls)))) /\
  forall c, In c (map content (fst (seq_font s ls))) <->
            In c (map content s) \/ In c (map content (font_reqs ls)).
Proof.
  induction ls as [|[ln ts] r IH]; intros s Hok; cbn [seq_font].
  - cbn. split; [auto|]. intro c; tauto.
  - cbn [font_ok forallb snd] in Hok. apply andb_true_iff in Hok. destruct Hok as [Ht Hr].
    assert (Hf : files_ok [] ts = true /\ forallb task_ok ts = true) by (unfold layer_ok in Ht; apply andb_true_iff in Ht; tauto).
    destruct Hf as [Hf Hto].
    destruct (seq_tasks_set ts s [] Hto) as [N1 H1].
    pose proof (proj2 (seq_layer_ok_iff s ts) Ht) as [m Hm]. unfold seq_layer, seq_glyphs in *. rewrite Hf in *.
    destruct (seq_tasks s ts []) as [s1 res]. cbn [fst snd] in *. subst res.
    destruct (IH s1 Hr) as [N2 H2]. destruct (seq_font s1 r) as [s2 rr]. cbn [fst] in *.
    split; [auto|]. intro c. unfold font_reqs. cbn [map concat snd]. rewrite H2, H1, map_app, in_app_iff.
    unfold font_reqs. tauto.
Qed.

End LowerP.

(** * Saving: writes to pairwise different paths commute *)
Lemma write_all_spec : forall ws t, ok_tree (write_all ws t) = collectC (map stask_spec ws) t.
Proof.
  induction ws as [|[p [e|b]] r IH]; intro t; cbn [write_all map ok_tree]; try unfold stask_spec at 1;
    cbn [snd fst collectC]; auto.
Qed.
Lemma stask_keys_in : forall ws k, In k (map fst (somes (map stask_spec ws))) -> In k (map fst ws).
Proof.
  induction ws as [|[p [e|b]] r IH]; intros k H; [destruct H| |]; cbn [map stask_spec snd fst somes] in *.
  - right. apply IH. exact H.
  - destruct H as [H|H]; [left; exact H|right; apply IH; exact H].
Qed.
Lemma stask_keys_nodup : forall ws, NoDup (map fst ws) -> NoDup (map fst (somes (map stask_spec ws))).
Proof.
  induction ws as [|[p [e|b]] r IH]; intro ND; [constructor| |]; cbn [map fst] in ND; inversion ND as [|? ? Hn ND']; subst;
    cbn [map stask_spec snd fst somes].
  - apply IH. exact ND'.
  - constructor; [|apply IH; exact ND']. intro H. apply Hn. apply stask_keys_in. exact H.
Qed.

Definition dflt_stask : stask := ([], inl 0%N).
Lemma par_save_spec : forall sched tree ws,
  NoDup (map fst ws) -> ok_tree (par_save sched tree ws) = spec_save tree ws.
Proof.
  intros sched tree ws ND. unfold par_save, spec_save. rewrite write_all_spec. rewrite map_map.
  rewrite <- (map_nth_seq _ ws dflt_stask) at 2. rewrite map_map.
  symmetry. apply collectC_perm.
  - apply Permutation_map. apply Permutation_sym.
    pose proof (run_done_perm sched [] (map (fun _ : stask => []) ws)) as HP. rewrite map_length in HP. exact HP.
  - rewrite <- map_map with (g := stask_spec). rewrite map_nth_seq. apply stask_keys_nodup. exact ND.
Qed.
Lemma seq_save_spec : forall tree ws, ok_tree (seq_save tree ws) = spec_save tree ws.
Proof. intros. unfold seq_save, spec_save. apply write_all_spec. Qed.
Theorem par_save_eq_seq : forall sched tree ws,
  NoDup (map fst ws) -> ok_tree (par_save sched tree ws) = ok_tree (seq_save tree ws).
Proof. intros. rewrite par_save_spec by assumption. rewrite seq_save_spec. reflexivity. Qed.

Theorem par_save_font_eq_seq : forall ls scheds tree,
  (forall ws, In ws ls -> NoDup (map fst ws)) ->
  ok_tree (par_save_font scheds tree ls) = ok_tree (seq_save_font tree ls).
Proof.
  induction ls as [|ws r IH]; intros scheds tree Hok; cbn [par_save_font seq_save_font]; [reflexivity|].
  pose proof (par_save_eq_seq (hd [] scheds) tree ws (Hok ws (or_introl eq_refl))) as H1.
  destruct (par_save (hd [] scheds) tree ws) as [e|t]; destruct (seq_save tree ws) as [e'|t']; cbn [ok_tree] in H1;
    try discriminate; [reflexivity|].
  inversion H1; subst t'. apply IH. intros ws' Hin. apply Hok. right. exact Hin.
Qed.

Lemma stask_all_some : forall ws, all_some (map stask_spec ws) = forallb stask_ok ws.
Proof.
  induction ws as [|[p [e|b]] r IH]; [reflexivity| |]; cbn [map forallb]; unfold all_some in *; cbn [forallb];
    rewrite IH; reflexivity.
Qed.
Lemma par_save_ok_iff : forall sched tree ws,
  (exists t, par_save sched tree ws = inr t) <-> forallb stask_ok ws = true.
Proof.
  intros sched tree ws.
  assert (E : ok_tree (par_save sched tree ws) <> None <-> forallb stask_ok ws = true).
  { unfold par_save. rewrite write_all_spec, collectC_spec, map_map.
    rewrite (all_some_perm _ _ (map (fun i => stask_spec (nth i ws dflt_stask)) (seq 0 (length ws)))).
    - rewrite <- map_map with (g := stask_spec). rewrite map_nth_seq, stask_all_some.
      destruct (forallb stask_ok ws); split; congruence.
    - apply Permutation_map. pose proof (run_done_perm sched [] (map (fun _ : stask => []) ws)) as HP.
      rewrite map_length in HP. exact HP. }
  rewrite <- E. destruct (par_save sched tree ws) as [e|m]; cbn [ok_tree]; split.
  - intros [m H]. discriminate.
  - congruence.
  - discriminate.
  - eauto.
Qed.

(** * Saving with non-atomic writes (truncate, then write) *)
Lemma om_find_insert_eq : forall V k (v : V) m, om_find k (om_insert k v m) = Some v.
Proof.
  intros V k v m. induction m as [|[k' v'] r IH]; cbn [om_insert om_find].
  - rewrite str_eqb_refl. reflexivity.
  - destruct (str_cmp k k') eqn:E; cbn [om_find]; try (rewrite str_eqb_refl; reflexivity).
    destruct (str_eqb k k') eqn:B; [|exact IH].
    apply str_eqb_eq in B. subst. rewrite str_cmp_refl in E. discriminate.
Qed.
Lemma str_eqb_neq : forall a b, a <> b -> str_eqb a b = false.
Proof. intros a b H. destruct (str_eqb a b) eqn:B; [apply str_eqb_eq in B; contradiction|reflexivity]. Qed.
Lemma om_find_insert_neq : forall V p k (v : V) m, p <> k -> om_find p (om_insert k v m) = om_find p m.
Proof.
  intros V p k v m H. induction m as [|[k' v'] r IH]; cbn [om_insert om_find].
  - rewrite (str_eqb_neq _ _ H). reflexivity.
  - destruct (str_cmp k k') eqn:E; cbn [om_find].
    + apply str_cmp_eq in E. subst k'. rewrite (str_eqb_neq _ _ H). reflexivity.
    + rewrite (str_eqb_neq _ _ H). reflexivity.
    + destruct (str_eqb p k'); [reflexivity|exact IH].
Qed.

Definition wval (t0 : omap (list N)) (q : str) (s : wstat) (out : N + list N) : option (list N) :=
  match s, out with WTrunc, inr _ => Some [] | WDone, inr b => Some b | _, _ => om_find q t0 end.
Fixpoint expect (t0 : omap (list N)) (wss : list (stask * wstat)) (p : str) : option (list N) :=
  match wss with
  | [] => om_find p t0
  | ((q, out), s) :: r => if str_eqb p q then wval t0 p s out else expect t0 r p
  end.

Lemma expect_upd_other : forall t0 ws stat i s q out p,
  nth_error ws i = Some (q, out) -> p <> q ->
  expect t0 (combine ws (upd i s stat)) p = expect t0 (combine ws stat) p.
Proof.
  intros t0 ws. induction ws as [|[q' out'] r IH]; intros stat i s q out p Hn Hne; [destruct i; discriminate|].
  destruct stat as [|s0 sr]; [destruct i; reflexivity|]. destruct i as [|j]; cbn [upd combine expect].
  - cbn in Hn. inversion Hn; subst. rewrite (str_eqb_neq _ _ Hne). reflexivity.
  - cbn in Hn. rewrite (IH sr j s q out p Hn Hne). reflexivity.
Qed.
Lemma expect_upd_self : forall t0 ws stat i s q out,
  nth_error ws i = Some (q, out) -> NoDup (map fst ws) -> i < length stat ->
  expect t0 (combine ws (upd i s stat)) q = wval t0 q s out.
Proof.
  intros t0 ws. induction ws as [|[q' out'] r IH]; intros stat i s q out Hn ND Hlt; [destruct i; discriminate|].
  destruct stat as [|s0 sr]; [cbn in Hlt; lia|]. destruct i as [|j]; cbn [upd combine expect].
  - cbn in Hn. inversion Hn; subst. rewrite str_eqb_refl. reflexivity.
  - cbn in Hn. cbn [map fst] in ND. inversion ND as [|? ? Hnin ND']; subst.
    assert (q <> q') as Hne.
    { intro E. subst q'. apply Hnin. apply nth_error_In in Hn. apply (in_map fst) in Hn. exact Hn. }
    rewrite (str_eqb_neq _ _ Hne). apply IH; [exact Hn | exact ND' | cbn in Hlt; lia].
Qed.
Lemma upd_same : forall A (l : list A) i x, nth_error l i = Some x -> upd i x l = l.
Proof.
  induction l as [|y r IH]; intros [|i] x H; cbn in *; try discriminate.
  - inversion H. reflexivity.
  - rewrite IH by assumption. reflexivity.
Qed.
Lemma expect_self : forall t0 ws stat i s q out,
  nth_error ws i = Some (q, out) -> NoDup (map fst ws) -> nth_error stat i = Some s ->
  expect t0 (combine ws stat) q = wval t0 q s out.
Proof.
  intros t0 ws stat i s q out Hn ND Hs. rewrite <- (upd_same _ stat i s Hs) at 1.
  apply expect_upd_self; auto. apply nth_error_Some. congruence.
Qed.
Lemma expect_not_in : forall t0 ws stat p, ~ In p (map fst ws) -> expect t0 (combine ws stat) p = om_find p t0.
Proof.
  intros t0 ws. induction ws as [|[q out] r IH]; intros stat p Hn; [reflexivity|].
  destruct stat as [|s sr]; [reflexivity|]. cbn [combine expect]. cbn [map fst] in Hn.
  rewrite str_eqb_neq by (intro E; apply Hn; left; auto). apply IH. intro H. apply Hn. right. exact H.
Qed.
Lemma expect_ext : forall t0 t1 wss p, om_find p t0 = om_find p t1 -> expect t0 wss p = expect t1 wss p.
Proof.
  intros t0 t1 wss p H. induction wss as [|[[q out] s] r IH]; cbn [expect]; [exact H|].
  destruct (str_eqb p q); [|exact IH]. unfold wval. destruct s, out; auto.
Qed.
Lemma expect_all_not : forall t0 ws p, expect t0 (combine ws (repeat WNot (length ws))) p = om_find p t0.
Proof.
  intros t0 ws p. induction ws as [|[q out] r IH]; [reflexivity|]. cbn [length repeat combine expect].
  destruct (str_eqb p q); [|exact IH]. unfold wval. destruct out; reflexivity.
Qed.

Record WInv (t0 : omap (list N)) (ws : list stask) (st : wstate) : Prop := {
  wi_len : length (w_stat st) = length ws;
  wi_tree : forall p, om_find p (w_tree st) = expect t0 (combine ws (w_stat st)) p;
  wi_f1 : w_failed st = true -> forallb stask_ok ws = false;
  wi_f2 : forall i w, nth_error ws i = Some w -> stask_ok w = false ->
          nth_error (w_stat st) i = Some WDone -> w_failed st = true }.

Lemma bad_task_not_all_ok : forall ws i (w : stask), nth_error ws i = Some w -> stask_ok w = false -> forallb stask_ok ws = false.
Proof.
  intros ws i w Hn Hb. destruct (forallb stask_ok ws) eqn:E; [|reflexivity].
  rewrite forallb_forall in E. rewrite (E w (nth_error_In _ _ Hn)) in Hb. discriminate.
Qed.

Lemma winv_step : forall t0 ws i st, NoDup (map fst ws) -> WInv t0 ws st -> WInv t0 ws (wstep ws i st).
Proof.
  intros t0 ws i st ND I. unfold wstep, stask in *.
  destruct (nth_error ws i) as [[q out]|] eqn:Hw; [|exact I].
  destruct (nth_error (w_stat st) i) as [s|] eqn:Hs; [|exact I].
  assert (Hlt : i < length (w_stat st)) by (apply nth_error_Some; congruence).
  assert (Tree : forall s' tr',
             (forall p, p <> q -> om_find p tr' = om_find p (w_tree st)) ->
             om_find q tr' = wval t0 q s' out ->
             forall p, om_find p tr' = expect t0 (combine ws (upd i s' (w_stat st))) p).
  { intros s' tr' Ho Hq p. destruct (list_eq_dec N.eq_dec p q) as [->|Hne].
    - rewrite Hq. symmetry. apply expect_upd_self; auto.
    - rewrite (Ho p Hne), (wi_tree _ _ _ I p). symmetry. eapply expect_upd_other; eauto. }
  assert (Cur : om_find q (w_tree st) = wval t0 q s out).
  { rewrite (wi_tree _ _ _ I q). eapply expect_self; eauto. }
  assert (F2 : forall s' f', (s' = WDone -> stask_ok (q, out) = false -> f' = true) ->
             (w_failed st = true -> f' = true) ->
             forall j w, nth_error ws j = Some w -> stask_ok w = false ->
             nth_error (upd i s' (w_stat st)) j = Some WDone -> f' = true).
  { intros s' f' Hself Hmono j w Hj Hb Hd. rewrite nth_error_upd in Hd. destruct (Nat.eqb_spec i j) as [<-|Hne].
    - rewrite Hs in Hd. inversion Hd. rewrite Hw in Hj. inversion Hj; subst w. auto.
    - apply Hmono. eapply (wi_f2 _ _ _ I); eauto. }
  destruct s; [destruct out as [e|b]|destruct out as [e|b]|exact I]; constructor; cbn [w_stat w_tree w_failed];
    try (rewrite upd_length; apply (wi_len _ _ _ I)).
  - (* not started, encoding fails *) apply Tree; [reflexivity|]. rewrite Cur. reflexivity.
  - intros _. eapply bad_task_not_all_ok; [exact Hw|reflexivity].
  - eapply F2; auto.
  - (* truncate *) apply Tree; [intros p Hne; apply om_find_insert_neq; exact Hne|]. rewrite om_find_insert_eq. reflexivity.
  - apply (wi_f1 _ _ _ I).
  - eapply F2; [|auto]. discriminate.
  - (* unreachable: truncated but failing *) apply Tree; [reflexivity|]. rewrite Cur. reflexivity.
  - intros _. eapply bad_task_not_all_ok; [exact Hw|reflexivity].
  - eapply F2; auto.
  - (* write the bytes *) apply Tree; [intros p Hne; apply om_find_insert_neq; exact Hne|]. rewrite om_find_insert_eq. reflexivity.
  - apply (wi_f1 _ _ _ I).
  - eapply F2; [|auto]. intros _ Hb. cbn in Hb. discriminate.
Qed.
Lemma winv_steps : forall t0 ws sched st, NoDup (map fst ws) -> WInv t0 ws st -> WInv t0 ws (wsteps ws sched st).
Proof.
  intros t0 ws sched. induction sched as [|i r IH]; intros st ND I; [exact I|].
  cbn [wsteps fold_left]. apply IH; [exact ND|]. apply winv_step; assumption.
Qed.
Lemma winv_init : forall t0 ws, WInv t0 ws (mkW t0 (repeat WNot (length ws)) false).
Proof.
  intros t0 ws. constructor; cbn [w_stat w_tree w_failed].
  - apply repeat_length.
  - intro p. rewrite expect_all_not. reflexivity.
  - discriminate.
  - intros i w Hn Hb Hd. apply nth_error_In in Hd. apply repeat_spec in Hd. discriminate.
Qed.

(** progress *)
Definition wmu (st : wstate) (i : nat) : nat :=
  match nth_error (w_stat st) i with Some WNot => 2 | Some WTrunc => 1 | _ => 0 end.
Lemma wmu_step_other : forall ws i j st, i <> j -> wmu (wstep ws i st) j = wmu st j.
Proof.
  intros ws i j st Hne. unfold wstep, stask in *. destruct (nth_error ws i) as [[q out]|]; [|reflexivity].
  destruct (nth_error (w_stat st) i) as [[]|]; try reflexivity; destruct out; unfold wmu; cbn [w_stat];
    rewrite nth_error_upd; destruct (Nat.eqb_spec i j); try contradiction; reflexivity.
Qed.
Lemma wmu_step_self : forall ws i st, length (w_stat st) = length ws -> wmu (wstep ws i st) i <= pred (wmu st i).
Proof.
  intros ws i st HL. unfold wstep, stask in *. destruct (nth_error ws i) as [[q out]|] eqn:Hw.
  - destruct (nth_error (w_stat st) i) as [s|] eqn:Hs.
    + destruct s; [destruct out|destruct out|]; unfold wmu; cbn [w_stat]; rewrite ?nth_error_upd, ?Nat.eqb_refl, Hs; cbn; lia.
    + unfold wmu. rewrite Hs. lia.
  - unfold wmu. apply nth_error_None in Hw. rewrite <- HL in Hw. apply nth_error_None in Hw. rewrite Hw. lia.
Qed.
Lemma wmu_step_le : forall ws i j st, wmu (wstep ws i st) j <= wmu st j.
Proof.
  intros ws i j st. destruct (Nat.eq_dec i j) as [->|Hne]; [|rewrite wmu_step_other by assumption; lia].
  unfold wstep, stask in *. destruct (nth_error ws j) as [[q out]|]; [|lia].
  destruct (nth_error (w_stat st) j) as [s|] eqn:Hs; [|lia].
  destruct s; [destruct out|destruct out|]; unfold wmu; cbn [w_stat]; rewrite ?nth_error_upd, ?Nat.eqb_refl, Hs; cbn; lia.
Qed.
Lemma wmu_steps_le : forall ws sched j st, wmu (wsteps ws sched st) j <= wmu st j.
Proof.
  intros ws sched. induction sched as [|i r IH]; intros j st; cbn [wsteps fold_left]; [lia|].
  pose proof (IH j (wstep ws i st)). pose proof (wmu_step_le ws i j st). unfold wsteps in *. lia.
Qed.
Lemma wlen_step : forall ws i st, length (w_stat (wstep ws i st)) = length (w_stat st).
Proof.
  intros ws i st. unfold wstep, stask in *. destruct (nth_error ws i) as [[q out]|]; [|reflexivity].
  destruct (nth_error (w_stat st) i) as [[]|]; try reflexivity; destruct out; cbn [w_stat]; apply upd_length.
Qed.
Lemma wmu_le_2 : forall st i, wmu st i <= 2.
Proof. intros. unfold wmu. destruct (nth_error (w_stat st) i) as [[]|]; lia. Qed.
Lemma wdrain_zero : forall ws l st, length (w_stat st) = length ws ->
  forall i, In i l -> wmu (wsteps ws (flat_map (fun i => [i; i]) l) st) i = 0.
Proof.
  intros ws l. induction l as [|a r IH]; intros st HL i Hin; [destruct Hin|].
  cbn [flat_map app wsteps fold_left].
  set (st2 := wstep ws a (wstep ws a st)).
  assert (HL2 : length (w_stat st2) = length ws) by (unfold st2; rewrite !wlen_step; exact HL).
  destruct (Nat.eq_dec a i) as [->|Hne].
  - pose proof (wmu_steps_le ws (flat_map (fun i => [i; i]) r) i st2) as H1.
    pose proof (wmu_step_self ws i st HL) as H2.
    assert (HL1 : length (w_stat (wstep ws i st)) = length ws) by (rewrite wlen_step; exact HL).
    pose proof (wmu_step_self ws i (wstep ws i st) HL1) as H3. fold st2 in H3.
    pose proof (wmu_le_2 st i). unfold wsteps in *. lia.
  - destruct Hin as [E|Hin]; [contradiction|]. apply (IH st2 HL2 i Hin).
Qed.

Lemma all_done_repeat : forall (l : list wstat),
  (forall i, i < length l -> nth_error l i = Some WDone) -> l = repeat WDone (length l).
Proof.
  induction l as [|x r IH]; intro H; [reflexivity|]. cbn [length repeat].
  pose proof (H 0 ltac:(cbn; lia)) as H0. cbn in H0. inversion H0; subst. f_equal.
  apply IH. intros i Hi. apply (H (S i)). cbn. lia.
Qed.

Lemma write_all_expect : forall ws t, NoDup (map fst ws) -> forallb stask_ok ws = true ->
  exists t', write_all ws t = inr t' /\
             forall p, om_find p t' = expect t (combine ws (repeat WDone (length ws))) p.
Proof.
  induction ws as [|[q [e|b]] r IH]; intros t ND Hok.
  - exists t. split; reflexivity.
  - cbn in Hok. discriminate.
  - cbn [forallb] in Hok. apply andb_true_iff in Hok. destruct Hok as [_ Hr].
    cbn [map fst] in ND. inversion ND as [|? ? Hnin ND']; subst.
    destruct (IH (om_insert q b t) ND' Hr) as [t' [Hw Hf]]. exists t'. split; [exact Hw|].
    intro p. rewrite Hf. cbn [length repeat combine expect].
    destruct (list_eq_dec N.eq_dec p q) as [->|Hne].
    + rewrite str_eqb_refl. rewrite expect_not_in by exact Hnin. rewrite om_find_insert_eq. reflexivity.
    + rewrite (str_eqb_neq _ _ Hne). apply expect_ext. apply om_find_insert_neq. exact Hne.
Qed.

Theorem par_save2_equiv : forall sched tree (ws : list stask), NoDup (map fst ws) ->
  tree_equiv (ok_tree (par_save2 sched tree ws)) (ok_tree (seq_save tree ws)).
Proof.
  intros sched tree ws ND. unfold par_save2.
  set (st := wsteps ws (sched ++ wdrain (length ws)) (mkW tree (repeat WNot (length ws)) false)).
  assert (I : WInv tree ws st) by (apply winv_steps; [exact ND|apply winv_init]).
  assert (Done : forall i, i < length ws -> nth_error (w_stat st) i = Some WDone).
  { intros i Hi. unfold st. unfold wsteps. rewrite fold_left_app. fold (wsteps ws sched (mkW tree (repeat WNot (length ws)) false)).
    set (st1 := wsteps ws sched (mkW tree (repeat WNot (length ws)) false)).
    fold (wsteps ws (wdrain (length ws)) st1).
    assert (I1 : WInv tree ws st1) by (apply winv_steps; [exact ND|apply winv_init]).
    pose proof (wdrain_zero ws (seq 0 (length ws)) st1 (wi_len _ _ _ I1) i) as Z.
    assert (Hin : In i (seq 0 (length ws))) by (apply in_seq; lia). specialize (Z Hin).
    fold (wdrain (length ws)) in Z. unfold wmu in Z.
    assert (I2 : WInv tree ws (wsteps ws (wdrain (length ws)) st1)) by (apply winv_steps; assumption).
    destruct (nth_error (w_stat (wsteps ws (wdrain (length ws)) st1)) i) as [[]|] eqn:E; try discriminate; [reflexivity|].
    apply nth_error_None in E. rewrite (wi_len _ _ _ I2) in E. exfalso.
    apply (Nat.lt_irrefl i). eapply Nat.lt_le_trans; [exact Hi|exact E]. }
  destruct (forallb stask_ok ws) eqn:Hok.
  - assert (F : w_failed st = false).
    { destruct (w_failed st) eqn:E; [|reflexivity]. pose proof (wi_f1 _ _ _ I E). congruence. }
    rewrite F. destruct (write_all_expect ws tree ND Hok) as [t' [Hw Hf]]. unfold seq_save. rewrite Hw.
    cbn [ok_tree tree_equiv]. intro p. rewrite Hf, (wi_tree _ _ _ I p).
    rewrite (all_done_repeat (w_stat st)) at 1; [rewrite (wi_len _ _ _ I); reflexivity|].
    intros i Hi. apply Done. rewrite <- (wi_len _ _ _ I). exact Hi.
  - assert (Hs : ok_tree (seq_save tree ws) = None).
    { unfold seq_save. rewrite write_all_spec, collectC_spec, stask_all_some, Hok. reflexivity. }
    rewrite Hs.
    assert (F : w_failed st = true).
    { assert (exists i w, nth_error ws i = Some w /\ stask_ok w = false) as [i [w [Hn Hb]]].
      { clear -Hok. induction ws as [|w r IH]; [discriminate|]. cbn [forallb] in Hok.
        destruct (stask_ok w) eqn:E.
        - destruct (IH Hok) as [i [w' [Hn Hb]]]. exists (S i), w'. auto.
        - exists 0, w. auto. }
      apply (wi_f2 _ _ _ I i w Hn Hb). apply Done. apply nth_error_Some. congruence. }
    rewrite F. exact Logic.I.
Qed.

(** * Which failure a parallel [try_for_each] / [collect] reports
    A failure is any non-Ok outcome of a task (an [Err] value, or a panic: a failure code like any
    other here).  With several failing tasks the parallel construct reports the failure of SOME
    failing task — which one depends on the schedule; when all failing tasks fail alike (in
    particular when only one fails) the report is the same for every schedule and equals the
    sequential one.  This is what the comparison of the two builds may and may not demand. *)
Lemma write_all_err_in : forall ws t e, write_all ws t = inl e -> exists p, In (p, inl e) ws.
Proof.
  induction ws as [|[p [e'|b]] r IH]; intros t e H; cbn [write_all] in H; [discriminate| |].
  - inversion H; subst. exists p. left. reflexivity.
  - destruct (IH _ _ H) as [q Hq]. exists q. right. exact Hq.
Qed.
Lemma par_save_err_in : forall sched tree (ws : list stask) e,
  par_save sched tree ws = inl e -> exists p, In (p, inl e) ws.
Proof.
  intros sched tree ws e H. unfold par_save in H. apply write_all_err_in in H. destruct H as [p Hin].
  apply in_map_iff in Hin. destruct Hin as [i [Hi Hd]].
  pose proof (run_done_perm sched [] (map (fun _ : stask => []) ws)) as HP. rewrite map_length in HP.
  apply (Permutation_in _ HP) in Hd. apply in_seq in Hd.
  exists p. rewrite <- Hi. apply nth_In. lia.
Qed.
Lemma seq_save_err_in : forall tree (ws : list stask) e, seq_save tree ws = inl e -> exists p, In (p, inl e) ws.
Proof. intros tree ws e H. exact (write_all_err_in ws tree e H). Qed.

Theorem par_save_failure_uniform : forall sched tree (ws : list stask) e0,
  (forall p e, In (p, inl e) ws -> e = e0) -> forallb stask_ok ws = false ->
  par_save sched tree ws = inl e0 /\ seq_save tree ws = inl e0.
Proof.
  intros sched tree ws e0 Hu Hb. split.
  - destruct (par_save sched tree ws) as [e|t] eqn:E.
    + destruct (par_save_err_in _ _ _ _ E) as [p Hin]. rewrite (Hu p e Hin). reflexivity.
    + assert (forallb stask_ok ws = true) by (apply (par_save_ok_iff sched tree ws); eauto). congruence.
  - destruct (seq_save tree ws) as [e|t] eqn:E.
    + destruct (seq_save_err_in _ _ _ E) as [p Hin]. rewrite (Hu p e Hin). reflexivity.
    + pose proof (seq_save_spec tree ws) as S. rewrite E in S. cbn [ok_tree] in S.
      unfold spec_save in S. rewrite collectC_spec, stask_all_some, Hb in S. discriminate.
Qed.

(** the same for loading: the error of a failed parallel glyph load is the error of some failing task *)
Lemma collect_err_in : forall rs acc e, collect rs acc = inl e -> In (inl e) rs.
Proof.
  induction rs as [|[e'|[k g]] r IH]; intros acc e H; cbn [collect] in H; [discriminate| |].
  - inversion H; subst. left. reflexivity.
  - right. eapply IH; eauto.
Qed.
Lemma par_glyphs_err_in : forall sched s ts e,
  snd (par_glyphs sched s ts) = inl e -> exists t, In t ts /\ t_out t = TErr e.
Proof.
  intros sched s ts e H. unfold par_glyphs in H. cbn [snd] in H. apply collect_err_in in H.
  unfold results_of in H. apply in_map_iff in H. destruct H as [i [Hr Hd]].
  pose proof (run_done_perm sched s (map prog_of ts)) as HP. rewrite map_length in HP.
  apply (Permutation_in _ HP) in Hd. apply in_seq in Hd.
  exists (nth i ts dflt_task). split; [apply nth_In; lia|].
  unfold task_result in Hr. fold dflt_task in Hr. destruct (t_out (nth i ts dflt_task)); [discriminate|congruence].
Qed.
