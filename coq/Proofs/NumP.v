(** Lemmas about Model/Num.v. *)
Require Import Norad.Model.Num.
From Coq Require Import QArith Qabs.
Open Scope Z_scope.

(** ** canonical form keeps the value *)
Lemma pos_strip_spec : forall p e q e',
  pos_strip p e = (q, e') -> e <= e' /\ Zpos q * 2 ^ (e' - e) = Zpos p.
Proof.
  induction p as [p IH|p IH|]; intros e q e' H; cbn [pos_strip] in H.
  - inversion H; subst. split; [lia|]. rewrite Z.sub_diag. lia.
  - apply IH in H. destruct H as [H1 H2]. split; [lia|].
    replace (e' - e) with (Z.succ (e' - (e + 1))) by lia.
    rewrite Z.pow_succ_r by lia. lia.
  - inversion H; subst. split; [lia|]. rewrite Z.sub_diag. lia.
Qed.

Lemma norm_spec : forall m e, m <> 0 -> exists m' e',
  norm m e = Fin m' e' /\ e <= e' /\ m' * 2 ^ (e' - e) = m.
Proof.
  intros [|p|p] e Hm; [congruence| |]; cbn [norm];
    destruct (pos_strip p e) as [q e'] eqn:E; apply pos_strip_spec in E; destruct E as [E1 E2].
  - exists (Zpos q), e'. split; [reflexivity|split; [exact E1|exact E2]].
  - exists (Zneg q), e'. split; [reflexivity|split; [exact E1|]].
    rewrite <- !Pos2Z.opp_pos, Z.mul_opp_l, E2. reflexivity.
Qed.

Lemma norm_int : forall z, z <> 0 -> exists m' e',
  norm z 0 = Fin m' e' /\ 0 <= e' /\ m' * 2 ^ e' = z.
Proof.
  intros z Hz. destruct (norm_spec z 0 Hz) as (m' & e' & H1 & H2 & H3).
  exists m', e'. rewrite Z.sub_0_r in H3. auto.
Qed.

(** ** round *)
Lemma round_Z_exact : forall m e, 0 <= e -> round_Z m e = m * 2 ^ e.
Proof. intros m e H. unfold round_Z. apply Z.leb_le in H. rewrite H. reflexivity. Qed.

Lemma round_Z_opp : forall m e, round_Z (- m) e = - round_Z m e.
Proof.
  intros m e. unfold round_Z. destruct (0 <=? e); [lia|].
  rewrite Z.abs_opp, Z.sgn_opp. lia.
Qed.

(** scaled form of |round x - x| <= 1/2 *)
Lemma round_Z_half : forall m e, e < 0 ->
  2 * Z.abs (round_Z m e * 2 ^ (- e) - m) <= 2 ^ (- e).
Proof.
  intros m e He. unfold round_Z.
  destruct (0 <=? e) eqn:E; [apply Z.leb_le in E; lia|].
  set (d := 2 ^ (- e)). assert (Hd : 0 < d) by (apply Z.pow_pos_nonneg; lia).
  pose proof (Z.div_mod (Z.abs m) d ltac:(lia)) as Hdm.
  pose proof (Z.mod_pos_bound (Z.abs m) d Hd) as Hr.
  set (q := Z.abs m / d) in *. set (r := Z.abs m mod d) in *.
  destruct (d <=? 2 * r) eqn:Ec; [apply Z.leb_le in Ec|apply Z.leb_gt in Ec];
    destruct (Z.sgn_spec m) as [[Hm Hs]|[[Hm Hs]|[Hm Hs]]]; rewrite Hs; nia.
Qed.

(** ties go away from zero *)
Lemma round_Z_tie_away : forall k, 0 <= k ->
  round_Z (2 * k + 1) (-1) = k + 1 /\ round_Z (- (2 * k + 1)) (-1) = - (k + 1).
Proof.
  intros k Hk. rewrite round_Z_opp.
  assert (H : round_Z (2 * k + 1) (-1) = k + 1).
  { unfold round_Z. change (0 <=? -1) with false. change (2 ^ (- -1)) with 2. cbv iota.
    rewrite Z.abs_eq by lia. rewrite Z.sgn_pos by lia.
    assert (Hq : (2 * k + 1) / 2 = k) by (symmetry; apply Z.div_unique with 1; lia).
    assert (Hr : (2 * k + 1) mod 2 = 1) by (symmetry; apply Z.mod_unique with k; lia).
    rewrite Hq, Hr. change (2 <=? 2 * 1) with true. cbv iota. lia. }
  rewrite H. split; reflexivity.
Qed.

(** the same bound over the rationals: |round x - x| <= 1/2 for every finite x *)
Lemma f2Q_nonneg_exp : forall m e, 0 <= e -> f2Q m e = inject_Z (m * 2 ^ e).
Proof. intros m e H. unfold f2Q. apply Z.leb_le in H. rewrite H. reflexivity. Qed.

Lemma round_Q : forall m e,
  (Qabs (inject_Z (round_Z m e) - f2Q m e) <= 1 # 2)%Q.
Proof.
  intros m e. destruct (Z_le_gt_dec 0 e) as [He|He].
  - rewrite f2Q_nonneg_exp, round_Z_exact by assumption.
    setoid_replace (inject_Z (m * 2 ^ e) - inject_Z (m * 2 ^ e))%Q with 0%Q by ring.
    discriminate.
  - pose proof (round_Z_half m e ltac:(lia)) as H.
    unfold f2Q. destruct (0 <=? e) eqn:E; [apply Z.leb_le in E; lia|].
    assert (Hd : 0 < 2 ^ (- e)) by (apply Z.pow_pos_nonneg; lia).
    set (d := 2 ^ (- e)) in *.
    unfold Qminus, Qplus, Qopp, inject_Z, Qabs, Qle. cbn [Qnum Qden].
    rewrite Z2Pos.id by lia.
    rewrite Z.mul_1_r, Pos.mul_1_l, Z2Pos.id by lia.
    replace (round_Z m e * d + - m * 1) with (round_Z m e * d - m) by lia.
    lia.
Qed.

(** ** casts *)
Lemma clamp_bounds : forall lo hi z, lo <= hi -> lo <= clamp lo hi z <= hi.
Proof. intros. unfold clamp. lia. Qed.
Lemma clamp_id : forall lo hi z, lo <= z <= hi -> clamp lo hi z = z.
Proof. intros. unfold clamp. lia. Qed.

Lemma sat_cast_bounds : forall lo hi x, lo <= 0 <= hi -> lo <= sat_cast lo hi x <= hi.
Proof.
  intros lo hi x H. destruct x as [m e| |[|]|]; cbn [sat_cast]; try lia.
  apply clamp_bounds. lia.
Qed.

Lemma sat_i32_bounds : forall x, I32_MIN <= sat_i32 x <= I32_MAX.
Proof. intros. apply sat_cast_bounds. unfold I32_MIN, I32_MAX. lia. Qed.
Lemma sat_u32_bounds : forall x, 0 <= sat_u32 x <= U32_MAX.
Proof. intros. apply sat_cast_bounds. unfold U32_MAX. lia. Qed.

Lemma trunc_Z_int : forall m e, 0 <= e -> trunc_Z m e = m * 2 ^ e.
Proof. intros m e H. unfold trunc_Z. apply Z.leb_le in H. rewrite H. reflexivity. Qed.

(** casting an integral float gives the integer back (saturated) *)
Lemma sat_cast_of_int_signed : forall lo hi m z, lo <= 0 <= hi ->
  sat_cast lo hi (of_int_signed m z) = clamp lo hi z.
Proof.
  intros lo hi m z H. unfold of_int_signed.
  destruct (z =? 0) eqn:Ez.
  - apply Z.eqb_eq in Ez. subst z. destruct (m <? 0); cbn [sat_cast].
    + unfold clamp. lia.
    + rewrite trunc_Z_int by lia. unfold clamp. lia.
  - apply Z.eqb_neq in Ez. destruct (norm_int z Ez) as (m' & e' & H1 & H2 & H3).
    rewrite H1. cbn [sat_cast]. rewrite trunc_Z_int by lia. rewrite H3. reflexivity.
Qed.

Lemma sat_i32_round : forall m e,
  sat_i32 (f_round (Fin m e)) = clamp I32_MIN I32_MAX (round_Z m e).
Proof. intros. apply sat_cast_of_int_signed. unfold I32_MIN, I32_MAX. lia. Qed.

Lemma f_abs_of_int_signed : forall m z,
  f_abs (of_int_signed m z) = of_int_signed 0 (Z.abs z).
Proof.
  intros m z. unfold of_int_signed.
  destruct (z =? 0) eqn:Ez.
  - apply Z.eqb_eq in Ez. subst z. cbn. destruct (m <? 0); reflexivity.
  - apply Z.eqb_neq in Ez. assert (Z.abs z =? 0 = false) as -> by (apply Z.eqb_neq; lia).
    destruct z as [|p|p]; [congruence| |]; cbn [norm Z.abs];
      destruct (pos_strip p 0) as [q e']; reflexivity.
Qed.

Lemma sat_u32_abs_round : forall m e,
  sat_u32 (f_abs (f_round (Fin m e))) = clamp 0 U32_MAX (Z.abs (round_Z m e)).
Proof.
  intros. cbn [f_round]. rewrite f_abs_of_int_signed.
  apply sat_cast_of_int_signed. unfold U32_MAX. lia.
Qed.

(** the converted integer is within one half of the legacy value whenever the rounded value
    fits the target type *)
Lemma conv_round_i32_bound : forall m e,
  I32_MIN <= round_Z m e <= I32_MAX ->
  (Qabs (inject_Z (sat_i32 (f_round (Fin m e))) - f2Q m e) <= 1 # 2)%Q.
Proof.
  intros m e H. rewrite sat_i32_round, clamp_id by assumption. apply round_Q.
Qed.

Lemma Qabs_Zabs_le : forall a x c, (Qabs (inject_Z a - x) <= c)%Q ->
  (Qabs (inject_Z (Z.abs a) - Qabs x) <= c)%Q.
Proof.
  intros a x c H.
  assert (E : (inject_Z (Z.abs a) == Qabs (inject_Z a))%Q).
  { unfold Qabs, inject_Z. reflexivity. }
  rewrite E. eapply Qle_trans; [|exact H].
  (* | |a| - |x| | <= |a - x| *)
  apply Qabs_case; intros Hc.
  - apply Qabs_triangle_reverse.
  - setoid_replace (- (Qabs (inject_Z a) - Qabs x))%Q with (Qabs x - Qabs (inject_Z a))%Q by ring.
    setoid_replace (inject_Z a - x)%Q with (- (x - inject_Z a))%Q by ring.
    rewrite Qabs_opp. apply Qabs_triangle_reverse.
Qed.

Lemma conv_round_abs_u32_bound : forall m e,
  Z.abs (round_Z m e) <= U32_MAX ->
  (Qabs (inject_Z (sat_u32 (f_abs (f_round (Fin m e)))) - Qabs (f2Q m e)) <= 1 # 2)%Q.
Proof.
  intros m e H. rewrite sat_u32_abs_round, clamp_id by lia.
  apply Qabs_Zabs_le. apply round_Q.
Qed.

(** ** abs *)
Lemma f_abs_sign_positive : forall x, f_sign_positive (f_abs x) = true.
Proof.
  intros [m e| |n|]; cbn; try reflexivity. apply Z.leb_le. lia.
Qed.

Lemma f_abs_nonneg : forall x, x <> NaN -> f_leb (Fin 0 0) (f_abs x) = true.
Proof.
  intros [m e| |n|] H; try congruence; cbn; try reflexivity.
  assert (P : 0 <= Z.abs m * 2 ^ (e - Z.min 0 e)).
  { apply Z.mul_nonneg_nonneg; [lia|]. apply Z.pow_nonneg. lia. }
  destruct (Z.abs m * 2 ^ (e - Z.min 0 e)); try reflexivity. lia.
Qed.

Lemma f_abs_value : forall m e, (f2Q (Z.abs m) e == Qabs (f2Q m e))%Q.
Proof.
  intros m e. unfold f2Q. destruct (0 <=? e).
  - unfold Qabs, inject_Z.
    rewrite Z.abs_mul, (Z.abs_eq (2 ^ e)) by (apply Z.pow_nonneg; lia). reflexivity.
  - reflexivity.
Qed.

Lemma unsigned_abs_nonneg : forall z, 0 <= unsigned_abs z.
Proof. intros. unfold unsigned_abs. lia. Qed.
Lemma unsigned_abs_u32 : forall z, in_i32 z = true -> in_u32 (unsigned_abs z) = true.
Proof.
  intros z H. unfold in_i32, in_u32, unsigned_abs, I32_MIN, I32_MAX, U32_MAX in *.
  apply andb_true_iff in H. destruct H as [H1 H2]. apply Z.leb_le in H1, H2.
  apply andb_true_iff. split; apply Z.leb_le; lia.
Qed.

(** ** integer to float: exact below 2^53 *)
Lemma f64_of_Z_small : forall z, z <> 0 -> Z.abs z < 2 ^ 53 -> f64_of_Z z = norm z 0.
Proof.
  intros z Hz H. unfold f64_of_Z.
  assert (Z.abs z =? 0 = false) as -> by (apply Z.eqb_neq; lia).
  assert (Hl : Z.log2 (Z.abs z) < 53) by (apply Z.log2_lt_pow2; lia).
  assert (Z.log2 (Z.abs z) + 1 - 53 <=? 0 = true) as -> by (apply Z.leb_le; lia).
  reflexivity.
Qed.
