(** Proofs about the number writers (Model/FontNum.v). *)
From Coq Require Import QArith Qabs Lqa Lia ZArith.
Require Import Norad.Model.FontNum.
Open Scope Q_scope.

(** a number written as an integer is written exactly: the same value, a fortiori within 1e-9 *)
Theorem written_exact : forall (v : Q) (t : Z), written_as_integer v t -> v == inject_Z t /\ within v (inject_Z t).
Proof.
  intros v t H. split; [exact H|]. left. unfold written_as_integer in H.
  setoid_replace (v - inject_Z t) with 0 by (rewrite H; ring).
  simpl. apply Qmult_le_0_compat; [unfold TOL; discriminate|apply Qabs_nonneg].
Qed.

(** regression: the values of the former classes are no longer written as integers *)
Lemma tiny_not_integer : ~ written_as_integer (1 # 1152921504606846976) 0.
Proof. unfold written_as_integer. compute. discriminate. Qed.
Lemma near_one_not_integer : ~ written_as_integer (4503599627370497 # 4503599627370496) 1.
Proof. unfold written_as_integer. compute. discriminate. Qed.
