(** Proofs about the number classes (Model/FontNum.v). *)
From Coq Require Import QArith Qabs Lqa Lia ZArith.
Require Import Norad.Model.FontNum.
Open Scope Q_scope.

Lemma Qabs_cases : forall x, (0 <= x /\ Qabs x == x) \/ (x <= 0 /\ Qabs x == - x).
Proof.
  intros x. destruct (Qlt_le_dec x 0) as [H|H].
  - right. split; [apply Qlt_le_weak; exact H|]. apply Qabs_neg. apply Qlt_le_weak. exact H.
  - left. split; [exact H|]. apply Qabs_pos. exact H.
Qed.

Lemma int_ge_1 : forall t : Z, t <> 0%Z -> 1 <= Qabs (inject_Z t).
Proof.
  intros t H. destruct (Qabs_cases (inject_Z t)) as [[H1 H2]|[H1 H2]]; rewrite H2;
    unfold Qle in *; simpl in *; lia.
Qed.

(** a number written as an integer stays within 1e-9 relative exactly outside the class *)
Theorem written_within_iff : forall (v : Q) (t : Z),
  written_as_integer v t -> (within v (inject_Z t) <-> ~ KnownClass_flush_to_zero v t).
Proof.
  intros v t H. unfold within, KnownClass_flush_to_zero, written_as_integer in *.
  destruct (Z.eq_dec t 0) as [->|Ht].
  - change (inject_Z 0) with 0. split.
    + intros W [_ Hv]. apply Hv.
      destruct (Qabs_cases (v - 0)) as [[A1 A2]|[A1 A2]]; destruct (Qabs_cases v) as [[B1 B2]|[B1 B2]];
        destruct (Qabs_cases 0) as [[C1 C2]|[C1 C2]]; destruct W as [W|W]; rewrite A2 in W;
        try rewrite B2 in W; try rewrite C2 in W; unfold TOL in W; lra.
    + intros Hn. left. assert (Hv : v == 0).
      { destruct (Qeq_dec v 0) as [E|E]; [exact E|]. exfalso. apply Hn. split; [reflexivity|exact E]. }
      rewrite Hv. unfold TOL. compute. discriminate.
  - split; [intros _ [E _]; contradiction|]. intros _. right.
    pose proof (int_ge_1 t Ht) as H1. unfold EPS in H. unfold TOL. lra.
Qed.

(** witnesses: 2^-60 is written as 0 (outside the tolerance); 1 + 2^-52 is written as 1 (inside
    the tolerance, not the same value) *)
Lemma flush_to_zero_witness :
  written_as_integer (1 # 1152921504606846976) 0 /\ ~ within (1 # 1152921504606846976) (inject_Z 0).
Proof.
  assert (H : written_as_integer (1 # 1152921504606846976) 0) by (compute; discriminate).
  split; [exact H|]. rewrite (written_within_iff _ _ H). intros Hn. apply Hn.
  split; [reflexivity|]. compute. discriminate.
Qed.

Lemma near_integer_witness :
  let v := 4503599627370497 # 4503599627370496 in
  written_as_integer v 1 /\ within v (inject_Z 1) /\ KnownClass_near_integer_rounded v 1.
Proof.
  cbv zeta. assert (H : written_as_integer (4503599627370497 # 4503599627370496) 1) by (compute; discriminate).
  split; [exact H|]. split.
  - apply (written_within_iff _ _ H). intros [E _]. discriminate.
  - split; [discriminate|]. compute. discriminate.
Qed.
