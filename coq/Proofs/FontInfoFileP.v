(** Laws of the schema-directed plist codec (Model/FontInfoFile.v): a value of a schema whose
    writer and reader flags agree is read back from what is written for it; a schema whose flags
    disagree is not. *)
Require Import Norad.Model.GlifSpec Norad.Model.GlifEncode.
Require Import Norad.Proofs.GlifParseP Norad.Proofs.GlifLibsP.
Require Import Norad.Model.FontRT Norad.Model.FontReal Norad.Model.FontRealPlist Norad.Model.FontRealFiles
               Norad.Model.FontInfoFile.
Require Import Norad.Proofs.FontRTP Norad.Proofs.FontRealPlistP Norad.Proofs.FontRealFilesP.
Open Scope N_scope.

(** induction over schemas with the nested field lists *)
Section SchemaInd.
  Variable P : schema -> Prop.
  Hypothesis H1 : P SStr.
  Hypothesis H2 : P SBool.
  Hypothesis H3 : forall lo hi, P (SInt lo hi).
  Hypothesis H4 : forall nn, P (SNum nn).
  Hypothesis H5 : P SFloat.
  Hypothesis H6 : forall vals, P (SEnumI vals).
  Hypothesis H7 : forall vals, P (SEnumS vals).
  Hypothesis H8 : forall s, P s -> P (SList s).
  Hypothesis H9 : forall n s, P s -> P (SFix n s).
  Hypothesis H10 : forall deny fs, Forall (fun f : field => P (f_schema f)) fs -> P (SRec deny fs).
  Fixpoint schema_ind2 (s : schema) : P s :=
    match s with
    | SStr => H1 | SBool => H2 | SInt lo hi => H3 lo hi | SNum nn => H4 nn | SFloat => H5
    | SEnumI v => H6 v | SEnumS v => H7 v
    | SList s' => H8 s' (schema_ind2 s')
    | SFix n s' => H9 n s' (schema_ind2 s')
    | SRec d fs => H10 d fs ((fix go (fs : list field) : Forall (fun f : field => P (f_schema f)) fs :=
                                match fs with
                                | [] => Forall_nil _
                                | (k, fl_, s') :: r => Forall_cons (P := fun f : field => P (f_schema f)) (k, fl_, s') (schema_ind2 s') (go r)
                                end) fs)
    end.
End SchemaInd.

(** the record parts of writer, reader, typing and flag check, as functions of their own *)
Fixpoint write_fields (fs : list field) (vs : list sval) : dict :=
  match fs, vs with
  | (k, fl_, s') :: fs', v :: vs' =>
      match field_written fl_ v with
      | Some x => (k, write_s s' x) :: write_fields fs' vs'
      | None => write_fields fs' vs'
      end
  | _, _ => []
  end.
Definition read_field (d : dict) (f : field) : option sval :=
  match alookup (f_key f) d with
  | Some q => option_map (fun x => if f_opt f then VOpt (Some x) else x) (read_s (f_schema f) q)
  | None => if f_opt f then Some (VOpt None) else if f_dflt f then Some (dflt_of (f_schema f)) else None
  end.
Fixpoint read_fields (d : dict) (fs : list field) : option (list sval) :=
  match fs with
  | [] => Some []
  | f :: fs' => match read_field d f, read_fields d fs' with Some v, Some vs => Some (v :: vs) | _, _ => None end
  end.
Definition wt_field (f : field) (v : sval) : bool :=
  if f_opt f then match v with VOpt None => true | VOpt (Some x) => wt (f_schema f) x | _ => false end
  else wt (f_schema f) v.
Fixpoint wt_fields (fs : list field) (vs : list sval) : bool :=
  match fs, vs with
  | [], [] => true
  | f :: fs', v :: vs' => wt_field f v && wt_fields fs' vs'
  | _, _ => false
  end.
Definition field_ok (f : field) : bool :=
  (f_opt f || negb (f_skip f) || (f_dflt f && is_list_schema (f_schema f))) && schema_rt_ok (f_schema f).

Lemma write_rec : forall deny fs vs, write_s (SRec deny fs) (VRec vs) = PDict (write_fields fs vs).
Proof.
  intros deny fs vs. cbn [write_s]. f_equal.
Qed.
Lemma read_rec : forall deny fs d, read_s (SRec deny fs) (PDict d) =
  if deny && negb (forallb (fun kx : str * pv => mem_str (fst kx) (map (fun f : field => f_key f) fs)) d) then None
  else option_map VRec (read_fields d fs).
Proof.
  intros deny fs d. cbn [read_s]. destruct (deny && _); [reflexivity|]. f_equal.
  induction fs as [|[[k [[opt skip] dflt]] s'] fs IH]; [reflexivity|].
  cbn [read_fields]. rewrite <- IH. reflexivity.
Qed.
Lemma wt_rec : forall deny fs vs, wt (SRec deny fs) (VRec vs) = wt_fields fs vs.
Proof.
  intros deny fs vs. cbn [wt]. revert vs. induction fs as [|[[k [[opt skip] dflt]] s'] fs IH]; intros [|v vs]; try reflexivity.
  cbn [wt_fields]. rewrite <- IH. reflexivity.
Qed.
Lemma ok_rec : forall deny fs, schema_rt_ok (SRec deny fs) =
  nodup_keys (map (fun f : field => f_key f) fs) && forallb field_ok fs.
Proof.
  intros deny fs. cbn [schema_rt_ok]. f_equal.
  induction fs as [|[[k [[opt skip] dflt]] s'] fs IH]; [reflexivity|]. cbn [forallb]. rewrite <- IH. reflexivity.
Qed.

(** ** records *)
Lemma write_fields_keys : forall fs vs k, In k (map fst (write_fields fs vs)) -> In k (map (fun f : field => f_key f) fs).
Proof.
  induction fs as [|[[k0 fl_] s'] fs IH]; intros vs k H; [destruct H|].
  destruct vs as [|v vs]; [destruct H|]. cbn [write_fields] in H. cbn [map]. unfold f_key at 1. cbn [fst].
  destruct (field_written fl_ v); [destruct H as [H|H]; [left; exact H|right; eapply IH; eauto]|right; eapply IH; eauto].
Qed.
Lemma alookup_absent {V} : forall k (d : list (str * V)), ~ In k (map fst d) -> alookup k d = None.
Proof.
  induction d as [|[a x] d IH]; intros H; [reflexivity|]. simpl. destruct (str_eqb k a) eqn:E.
  - apply list_eqb_N_eq in E. subst a. exfalso. apply H. left. reflexivity.
  - apply IH. intros Hin. apply H. right. exact Hin.
Qed.

Lemma fields_rt : forall fs,
  Forall (fun f : field => schema_rt_ok (f_schema f) = true ->
                           forall x, wt (f_schema f) x = true -> read_s (f_schema f) (write_s (f_schema f) x) = Some x) fs ->
  NoDup (map (fun f : field => f_key f) fs) -> forallb field_ok fs = true ->
  forall vs, wt_fields fs vs = true ->
  forall d, (forall k, In k (map (fun f : field => f_key f) fs) -> alookup k d = alookup k (write_fields fs vs)) ->
  read_fields d fs = Some vs.
Proof.
  induction fs as [|f fs IH]; intros HF ND OK vs W d Hd.
  - destruct vs; [reflexivity|discriminate].
  - destruct vs as [|v vs]; [discriminate|]. cbn [wt_fields] in W. apply andb_true_iff in W. destruct W as [Wf W].
    inversion HF as [|? ? Hf HF']; subst. cbn [map] in ND. inversion ND as [|? ? Hn ND']; subst.
    cbn [forallb] in OK. apply andb_true_iff in OK. destruct OK as [Of OK].
    unfold field_ok in Of. apply andb_true_iff in Of. destruct Of as [Ofl Os].
    destruct f as [[k [[opt skip] dflt]] s']. unfold f_key, f_opt, f_skip, f_dflt, f_schema in *. cbn [fst snd] in *.
    cbn [read_fields].
    assert (Htail : read_fields d fs = Some vs).
    { apply IH; try assumption. intros k0 Hk0. rewrite Hd by (right; exact Hk0). cbn [write_fields].
      assert (k0 <> k) by (intros ->; contradiction).
      destruct (field_written (opt, skip, dflt) v); [|reflexivity]. cbn [alookup].
      destruct (str_eqb k0 k) eqn:E; [apply list_eqb_N_eq in E; contradiction|reflexivity]. }
    rewrite Htail.
    assert (Hhead : alookup k d = option_map (write_s s') (field_written (opt, skip, dflt) v)).
    { rewrite Hd by (left; reflexivity). cbn [write_fields]. destruct (field_written (opt, skip, dflt) v); cbn [option_map].
      - cbn [alookup]. rewrite str_eqb_refl. reflexivity.
      - apply alookup_absent. intros Hin. apply write_fields_keys in Hin. contradiction. }
    unfold read_field, f_key, f_opt, f_dflt, f_schema. cbn [fst snd]. rewrite Hhead.
    unfold wt_field, f_opt, f_schema in Wf. cbn [fst snd] in Wf. unfold field_written.
    destruct opt.
    + destruct v as [| | | | | |[x|]]; try discriminate; cbn [option_map].
      * rewrite (Hf Os x Wf). reflexivity.
      * reflexivity.
    + destruct (skip && is_empty_list v) eqn:Es; cbn [option_map].
      * apply andb_true_iff in Es. destruct Es as [E1 E2]. rewrite E1 in Ofl. cbn in Ofl.
        apply andb_true_iff in Ofl. destruct Ofl as [-> Hl]. destruct s'; try discriminate.
        destruct v as [| | | |[|]| |]; try discriminate. reflexivity.
      * rewrite (Hf Os v Wf). reflexivity.
Qed.

(** ** the round trip, by induction on the schema *)
Lemma wf_numb_spec : forall x, wf_numb x = true -> wf_num x.
Proof.
  intros [neg m e| |] H; try discriminate. unfold wf_numb in H. unfold wf_num.
  apply orb_true_iff in H. destruct H as [H|H]; [left|right; exact H].
  apply andb_true_iff in H. destruct H as [H H3]. apply andb_true_iff in H. destruct H as [H1 H2].
  apply N.eqb_eq in H1. apply Z.eqb_eq in H2. destruct neg; [discriminate|]. auto.
Qed.

Lemma omapM_map_rt {A B} (w : A -> B) (r : B -> option A) (P : A -> bool) l :
  (forall x, P x = true -> r (w x) = Some x) -> forallb P l = true -> omapM r (map w l) = Some l.
Proof.
  intros H. induction l as [|x l IH]; intros F; [reflexivity|]. cbn [forallb] in F. apply andb_true_iff in F. destruct F as [F1 F2].
  cbn [map omapM]. rewrite (H x F1). cbn [obind]. rewrite (IH F2). reflexivity.
Qed.

Theorem schema_roundtrip : forall s, schema_rt_ok s = true ->
  forall v, wt s v = true -> read_s s (write_s s v) = Some v.
Proof.
  intros s. induction s as [| |lo hi|nn| |vals|vals|s IH|n s IH|deny fs IH] using schema_ind2; intros OK v W.
  - destruct v; try discriminate. reflexivity.
  - destruct v; try discriminate. reflexivity.
  - destruct v; try discriminate. cbn [wt] in W. cbn [write_s read_s]. rewrite W. reflexivity.
  - destruct v; try discriminate. cbn [wt] in W. apply andb_true_iff in W. destruct W as [W1 W2].
    cbn [write_s read_s]. destruct (num_rt x (wf_numb_spec x W1)) as [_ R]. rewrite R.
    destruct nn; cbn [andb negb orb] in *; [rewrite W2|]; reflexivity.
  - destruct v; try discriminate. reflexivity.
  - destruct v; try discriminate. cbn [wt] in W. cbn [write_s read_s]. rewrite W. reflexivity.
  - destruct v; try discriminate. cbn [wt] in W. cbn [write_s read_s]. rewrite W. reflexivity.
  - destruct v; try discriminate. cbn [wt] in W. cbn [write_s read_s schema_rt_ok] in *.
    rewrite (omapM_map_rt (write_s s) (read_s s) (wt s) l (IH OK) W). reflexivity.
  - destruct v; try discriminate. cbn [wt] in W. apply andb_true_iff in W. destruct W as [W1 W2].
    cbn [write_s read_s schema_rt_ok] in *. rewrite map_length, W1.
    rewrite (omapM_map_rt (write_s s) (read_s s) (wt s) l (IH OK) W2). reflexivity.
  - destruct v; try discriminate. rewrite wt_rec in W. rewrite ok_rec in OK. apply andb_true_iff in OK. destruct OK as [ON OF].
    rewrite write_rec, read_rec.
    assert (Hk : forallb (fun kx : str * pv => mem_str (fst kx) (map (fun f : field => f_key f) fs)) (write_fields fs l) = true).
    { apply forallb_forall. intros [k q] Hin. apply mem_str_In. eapply write_fields_keys. apply in_map_iff. exists (k, q). eauto. }
    rewrite Hk. cbn [negb]. rewrite andb_false_r.
    rewrite (fields_rt fs IH (proj1 (nodup_keys_spec _) ON) OF l W _ (fun k _ => eq_refl)). reflexivity.
Qed.

(** ** the flags matter: an empty list left out by the writer of a field the reader requires *)
Definition bad_schema : schema := SRec false [([110], (false, true, false), SList SStr)].    (* skip, no default *)
Definition good_schema : schema := SRec false [([110], (false, true, true), SList SStr)].
Theorem skip_without_default_refuted :
  schema_rt_ok bad_schema = false /\
  wt bad_schema (VRec [VList []]) = true /\
  read_s bad_schema (write_s bad_schema (VRec [VList []])) = None /\
  schema_rt_ok good_schema = true /\
  read_s good_schema (write_s good_schema (VRec [VList []])) = Some (VRec [VList []]).
Proof. repeat split; reflexivity. Qed.

(** ** norad's FontInfo *)
Require Import Norad.Model.FontInfoSchema.
Theorem font_info_schema_ok : schema_rt_ok font_info_schema = true.
Proof. vm_compute. reflexivity. Qed.
Theorem font_info_roundtrip : forall v, wt font_info_schema v = true ->
  read_s font_info_schema (write_s font_info_schema v) = Some v.
Proof. exact (schema_roundtrip font_info_schema font_info_schema_ok). Qed.

(** ** what is written for a well-typed value is a plist value the tree-level writer represents *)
Lemma write_fields_nodup : forall fs vs, NoDup (map (fun f : field => f_key f) fs) -> NoDup (map fst (write_fields fs vs)).
Proof.
  induction fs as [|[[k fl_] s'] fs IH]; intros vs ND; [constructor|]. destruct vs as [|v vs]; [constructor|].
  cbn [map] in ND. inversion ND as [|? ? Hn ND']; subst. cbn [write_fields].
  destruct (field_written fl_ v); [|apply IH; exact ND']. cbn [map fst]. constructor; [|apply IH; exact ND'].
  intros Hin. apply write_fields_keys in Hin. contradiction.
Qed.
Lemma range_int_ok : forall lo hi z, ((- 2 ^ 63 <=? lo) && (hi <? 2 ^ 64))%Z = true ->
  ((lo <=? z) && (z <=? hi))%Z = true -> int_ok z = true.
Proof.
  intros lo hi z H1 H2. apply andb_true_iff in H1. destruct H1 as [A B]. apply andb_true_iff in H2. destruct H2 as [C D].
  apply Z.leb_le in A. apply Z.ltb_lt in B. apply Z.leb_le in C. apply Z.leb_le in D.
  unfold int_ok. apply andb_true_iff. split; [apply Z.leb_le|apply Z.ltb_lt]; lia.
Qed.

Theorem write_good : forall s, schema_rt_ok s = true -> forall v, wt s v = true -> pv_good 0 (write_s s v) = true.
Proof.
  intros s. induction s as [| |lo hi|nn| |vals|vals|s IH|n s IH|deny fs IH] using schema_ind2; intros OK v W;
    destruct v; try discriminate; cbn [wt write_s schema_rt_ok] in *.
  - reflexivity.
  - reflexivity.
  - cbn [pv_good]. eapply range_int_ok; eauto.
  - apply andb_true_iff in W. destruct W as [W1 _]. exact (proj1 (num_rt x (wf_numb_spec x W1))).
  - destruct x; try discriminate. reflexivity.
  - cbn [pv_good]. apply existsb_exists in W. destruct W as [y [Hy Ez]]. apply Z.eqb_eq in Ez. subst y.
    rewrite forallb_forall in OK. specialize (OK z Hy). exact OK.
  - reflexivity.
  - cbn [pv_good]. rewrite forallb_forall in *. intros p Hp. apply in_map_iff in Hp. destruct Hp as [x [<- Hx]]. apply IH; auto.
  - apply andb_true_iff in W. destruct W as [_ W]. cbn [pv_good]. rewrite forallb_forall in *. intros p Hp.
    apply in_map_iff in Hp. destruct Hp as [x [<- Hx]]. apply IH; auto.
  - change (pv_good 0 (write_s (SRec deny fs) (VRec l)) = true). rewrite write_rec.
    change (wt (SRec deny fs) (VRec l) = true) in W. rewrite wt_rec in W.
    change (schema_rt_ok (SRec deny fs) = true) in OK. rewrite ok_rec in OK. apply andb_true_iff in OK. destruct OK as [ON OF].
    cbn [pv_good]. apply andb_true_iff. split.
    + apply nodup_keys_spec. apply write_fields_nodup. apply nodup_keys_spec. exact ON.
    + clear ON. revert l W. induction fs as [|f fs IHfs]; intros l W; [reflexivity|].
      destruct l as [|v l]; [destruct f as [[? ?] ?]; reflexivity|].
      cbn [wt_fields] in W. apply andb_true_iff in W. destruct W as [Wf W].
      cbn [forallb] in OF. apply andb_true_iff in OF. destruct OF as [Of OF]. inversion IH as [|? ? Hf IH']; subst.
      unfold field_ok in Of. apply andb_true_iff in Of. destruct Of as [_ Os].
      destruct f as [[k [[opt skip] dflt]] s']. unfold wt_field, f_opt, f_schema in *. cbn [fst snd] in *.
      cbn [write_fields]. unfold field_written.
      destruct opt.
      * destruct v as [| | | | | |[x|]]; try discriminate; [|apply IHfs; assumption].
        cbn [forallb]. rewrite (Hf Os x Wf). cbn. apply IHfs; assumption.
      * destruct (skip && is_empty_list v); [apply IHfs; assumption|].
        cbn [forallb]. rewrite (Hf Os v Wf). cbn. apply IHfs; assumption.
Qed.

(** ** fontinfo.plist at tree level *)
Local Opaque font_info_schema.
Section InfoFile.
Variable pf : str -> option fl.
Variable ff : fl -> str.
Variable fi : Z -> str.
Hypothesis H_ff : forall x, fl_finite x = true -> pf (ff x) = Some x.
Hypothesis H_fi : forall z, int_ok z = true -> plist_int (fi z) = Some z.

Definition P_fontinfo_file (O : Type) : part node O sval :=
  plist_part pf ff fi (write_s font_info_schema) (read_s font_info_schema) (fun v => wt font_info_schema v = true).

Theorem fontinfo_file_roundtrip : forall v, wt font_info_schema v = true ->
  obind (plist_value pf (plist_tree ff fi (write_s font_info_schema v))) (read_s font_info_schema) = Some v.
Proof.
  intros v W. rewrite (tree_value pf ff fi H_ff H_fi _ (write_good _ font_info_schema_ok v W)). cbn [obind].
  apply font_info_roundtrip. exact W.
Qed.
Theorem fontinfo_file_part_ok : forall O, part_ok (P_fontinfo_file O).
Proof.
  intros O. apply plist_part_ok; try assumption. intros v W. split; [apply write_good; [exact font_info_schema_ok|exact W]|].
  apply font_info_roundtrip. exact W.
Qed.
End InfoFile.
