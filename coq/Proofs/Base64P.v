(** The base64 reader of the plist model inverts the writer (no library hypothesis needed). *)
Require Import Norad.Model.GlifEncode.
Require Import Lia ZArith.
Open Scope N_scope.

Local Ltac Zify.zify_post_hook ::= Z.to_euclidean_division_equations.

Lemma b64_char_spec n :
  n < 64 -> b64_digit (b64_char n) = Some n /\ (b64_char n =? 61) = false /\ is_ascii_ws (b64_char n) = false.
Proof.
  intros H.
  assert (A : forallb (fun n => match b64_digit (b64_char n) with Some m => m =? n | None => false end &&
                                 negb (b64_char n =? 61) && negb (is_ascii_ws (b64_char n)))
                      (map N.of_nat (seq 0 64)) = true) by (vm_compute; reflexivity).
  rewrite forallb_forall in A. specialize (A n).
  assert (I : In n (map N.of_nat (seq 0 64))).
  { apply in_map_iff. exists (N.to_nat n). split; [apply N2Nat.id|]. apply in_seq. lia. }
  specialize (A I). apply andb_true_iff in A as [A A3]. apply andb_true_iff in A as [A1 A2].
  apply negb_true_iff in A2. apply negb_true_iff in A3.
  destruct (b64_digit (b64_char n)) as [m|]; [|discriminate]. apply N.eqb_eq in A1. subst m. auto.
Qed.

Lemma pad_not_ws : is_ascii_ws 61 = false.
Proof. reflexivity. Qed.

Lemma b64_encode_no_ws : forall n b, (length b < n)%nat -> bytes_ok b = true ->
  filter (fun c => negb (is_ascii_ws c)) (b64_encode b) = b64_encode b.
Proof.
  induction n as [|n IH]; intros b HL HB; [lia|].
  destruct b as [|x [|y [|z r]]]; [reflexivity| | |]; cbn [bytes_ok forallb] in HB;
    repeat (apply andb_true_iff in HB as [?H HB]);
    repeat match goal with H : (_ <? 256) = true |- _ => apply N.ltb_lt in H end.
  - cbn [b64_encode filter]. rewrite pad_not_ws.
    destruct (b64_char_spec (x / 4) ltac:(lia)) as (_ & _ & ->).
    destruct (b64_char_spec (x mod 4 * 16) ltac:(lia)) as (_ & _ & ->). reflexivity.
  - cbn [b64_encode filter]. rewrite pad_not_ws.
    destruct (b64_char_spec (x / 4) ltac:(lia)) as (_ & _ & ->).
    destruct (b64_char_spec (x mod 4 * 16 + y / 16) ltac:(lia)) as (_ & _ & ->).
    destruct (b64_char_spec (y mod 16 * 4) ltac:(lia)) as (_ & _ & ->). reflexivity.
  - cbn [b64_encode filter].
    destruct (b64_char_spec (x / 4) ltac:(lia)) as (_ & _ & ->).
    destruct (b64_char_spec (x mod 4 * 16 + y / 16) ltac:(lia)) as (_ & _ & ->).
    destruct (b64_char_spec (y mod 16 * 4 + z / 64) ltac:(lia)) as (_ & _ & ->).
    destruct (b64_char_spec (z mod 64) ltac:(lia)) as (_ & _ & ->). cbn [negb].
    rewrite (IH r); [reflexivity| cbn [length] in HL; lia | exact HB].
Qed.

Lemma b64_decode_encode : forall f b,
  bytes_ok b = true -> (length (b64_encode b) < f)%nat -> b64_decode f (b64_encode b) = Some b.
Proof.
  induction f as [|f IH]; intros b HB HL; [lia|].
  destruct b as [|x [|y [|z r]]]; [reflexivity| | |]; cbn [bytes_ok forallb] in HB;
    repeat (apply andb_true_iff in HB as [?H HB]);
    repeat match goal with H : (_ <? 256) = true |- _ => apply N.ltb_lt in H end.
  - cbn [b64_encode length] in *. destruct f as [|f]; [lia|]. cbn [b64_decode]. unfold b64_quad.
    destruct (b64_char_spec (x / 4) ltac:(lia)) as (-> & _ & _).
    destruct (b64_char_spec (x mod 4 * 16) ltac:(lia)) as (-> & _ & _).
    rewrite N.eqb_refl. cbn [andb].
    replace (x mod 4 * 16 mod 16 =? 0) with true by (symmetry; apply N.eqb_eq; lia).
    cbn [app]. do 2 f_equal. lia.
  - cbn [b64_encode length] in *. destruct f as [|f]; [lia|]. cbn [b64_decode]. unfold b64_quad.
    destruct (b64_char_spec (x / 4) ltac:(lia)) as (-> & _ & _).
    destruct (b64_char_spec (x mod 4 * 16 + y / 16) ltac:(lia)) as (-> & _ & _).
    destruct (b64_char_spec (y mod 16 * 4) ltac:(lia)) as (-> & -> & _).
    rewrite N.eqb_refl. cbn [andb].
    replace (y mod 16 * 4 mod 4 =? 0) with true by (symmetry; apply N.eqb_eq; lia).
    cbn [app]. f_equal. f_equal; [lia|]. f_equal. lia.
  - cbn [b64_encode length] in *. cbn [b64_decode]. unfold b64_quad.
    destruct (b64_char_spec (x / 4) ltac:(lia)) as (-> & _ & _).
    destruct (b64_char_spec (x mod 4 * 16 + y / 16) ltac:(lia)) as (-> & _ & _).
    destruct (b64_char_spec (y mod 16 * 4 + z / 64) ltac:(lia)) as (-> & -> & _).
    destruct (b64_char_spec (z mod 64) ltac:(lia)) as (-> & -> & _).
    cbn [andb]. rewrite (IH r HB) by lia. cbn [app]. f_equal. f_equal; [lia|]. f_equal; [lia|]. f_equal. lia.
Qed.

Lemma b64_encode_length b : (length b <= length (b64_encode b))%nat.
Proof.
  assert (H : forall n b, (length b < n)%nat -> (length b <= length (b64_encode b))%nat).
  { induction n as [|n IH]; intros c HL; [lia|]. destruct c as [|x [|y [|z r]]]; cbn [b64_encode length] in *; try lia.
    specialize (IH r). lia. }
  apply (H (S (length b))). lia.
Qed.

(** what the <data> reader does with the writer's text: drop white space, decode *)
Theorem b64_read_back b : bytes_ok b = true ->
  let t := filter (fun c => negb (is_ascii_ws c)) (b64_encode b) in
  b64_decode (S (List.length t)) t = Some b.
Proof.
  intros HB t. unfold t. rewrite (b64_encode_no_ws (S (length b)) b) by (auto; lia).
  apply b64_decode_encode; [exact HB|lia].
Qed.
