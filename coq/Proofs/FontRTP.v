(** Proofs about the font-level model (Model/FontRT.v). *)
Require Import Norad.Model.Base Norad.Model.FontRT.
Open Scope N_scope.

(* ------------------------------------------------------------------------------------------ *)
(** * Generic lemmas *)

Lemma list_eqb_N_eq : forall a b : str, str_eqb a b = true <-> a = b.
Proof.
  unfold str_eqb. induction a as [|x a IH]; intros [|y b]; simpl; split; intros H;
    try reflexivity; try discriminate.
  - apply andb_true_iff in H. destruct H as [H1 H2]. apply N.eqb_eq in H1. apply IH in H2. congruence.
  - inversion H; subst. apply andb_true_iff. split; [apply N.eqb_refl|apply IH; reflexivity].
Qed.
Lemma str_eqb_refl : forall a, str_eqb a a = true.
Proof. intros. apply list_eqb_N_eq. reflexivity. Qed.
Lemma str_eqb_neq : forall a b, a <> b -> str_eqb a b = false.
Proof. intros a b H. destruct (str_eqb a b) eqn:E; [apply list_eqb_N_eq in E; contradiction|reflexivity]. Qed.
Lemma str_eqb_false : forall a b, str_eqb a b = false -> a <> b.
Proof. intros a b H E. subst. rewrite str_eqb_refl in H. discriminate. Qed.
Lemma str_eqb_sym : forall a b, str_eqb a b = str_eqb b a.
Proof.
  intros. destruct (str_eqb a b) eqn:E.
  - apply list_eqb_N_eq in E. subst. symmetry. apply str_eqb_refl.
  - symmetry. apply str_eqb_neq. intros H. subst. rewrite str_eqb_refl in E. discriminate.
Qed.

Lemma orel_refl {A} (R : A -> A -> Prop) : (forall x, R x x) -> forall o, orel R o o.
Proof. intros H [x|]; simpl; auto. Qed.
Lemma orel_sym {A} (R : A -> A -> Prop) : (forall x y, R x y -> R y x) -> forall a b, orel R a b -> orel R b a.
Proof. intros H [x|] [y|]; simpl; auto. Qed.
Lemma orel_trans {A} (R : A -> A -> Prop) :
  (forall x y z, R x y -> R y z -> R x z) -> forall a b c, orel R a b -> orel R b c -> orel R a c.
Proof. intros H [x|] [y|] [z|]; simpl; eauto; tauto. Qed.
Lemma orel_some_l {A} (R : A -> A -> Prop) x o : orel R (Some x) o -> exists y, o = Some y /\ R x y.
Proof. destruct o; simpl; [eauto|tauto]. Qed.
Lemma orel_none_l {A} (R : A -> A -> Prop) o : orel R None o -> o = None.
Proof. destruct o; simpl; [tauto|auto]. Qed.

Lemma alookup_in {V} k (v : V) l : NoDup (map fst l) -> In (k, v) l -> alookup k l = Some v.
Proof.
  induction l as [|[k' v'] l IH]; simpl; intros ND HI; [tauto|].
  inversion ND as [|? ? Hn ND']; subst. destruct HI as [E|HI].
  - inversion E; subst. rewrite str_eqb_refl. reflexivity.
  - rewrite str_eqb_neq; [auto|]. intros ->. apply Hn. apply (in_map fst) in HI. exact HI.
Qed.

Lemma mapM_ok_length {A B E} (f : A -> result B E) l r : mapM f l = Ok r -> List.length r = List.length l.
Proof.
  revert r. induction l as [|a l IH]; simpl; intros r H; [inversion H; reflexivity|].
  destruct (f a); simpl in H; try discriminate. destruct (mapM f l); simpl in H; try discriminate.
  inversion H; subst. simpl. f_equal. auto.
Qed.

Lemma mapM_Forall2 {A B E} (f : A -> result B E) l r :
  mapM f l = Ok r <-> Forall2 (fun a b => f a = Ok b) l r.
Proof.
  revert r. induction l as [|a l IH]; simpl; intros r; split; intros H.
  - inversion H. constructor.
  - inversion H. reflexivity.
  - destruct (f a) eqn:Ea; simpl in H; try discriminate.
    destruct (mapM f l) eqn:El; simpl in H; try discriminate. inversion H; subst.
    constructor; [assumption|]. apply IH. reflexivity.
  - inversion H as [|? b ? r' Hf Hr]; subst. rewrite Hf. simpl.
    apply IH in Hr. rewrite Hr. reflexivity.
Qed.

Lemma omapM_Forall2 {A B} (f : A -> option B) l r :
  omapM f l = Some r <-> Forall2 (fun a b => f a = Some b) l r.
Proof.
  revert r. induction l as [|a l IH]; simpl; intros r; split; intros H.
  - inversion H. constructor.
  - inversion H. reflexivity.
  - destruct (f a) eqn:Ea; simpl in H; try discriminate.
    destruct (omapM f l) eqn:El; simpl in H; try discriminate. inversion H; subst.
    constructor; [assumption|]. apply IH. reflexivity.
  - inversion H as [|? b ? r' Hf Hr]; subst. rewrite Hf. simpl.
    apply IH in Hr. rewrite Hr. reflexivity.
Qed.

Lemma Forall2_map_l {A B C} (R : B -> C -> Prop) (f : A -> B) l r :
  Forall2 R (map f l) r <-> Forall2 (fun a c => R (f a) c) l r.
Proof.
  revert r. induction l as [|a l IH]; simpl; intros r; split; intros H; inversion H; subst;
    constructor; auto; apply IH; auto.
Qed.
Lemma Forall2_map_r {A B C} (R : A -> C -> Prop) (f : B -> C) l r :
  Forall2 R l (map f r) <-> Forall2 (fun a b => R a (f b)) l r.
Proof.
  revert r. induction l as [|a l IH]; intros [|b r]; simpl; split; intros H; inversion H; subst;
    constructor; auto; apply IH; auto.
Qed.
Lemma Forall2_impl_in {A B} (R Q : A -> B -> Prop) l r :
  (forall a b, In a l -> In b r -> R a b -> Q a b) -> Forall2 R l r -> Forall2 Q l r.
Proof.
  intros H F. induction F; constructor.
  - apply H; simpl; auto.
  - apply IHF. intros; apply H; simpl; auto.
Qed.
Lemma Forall2_refl_in {A} (R : A -> A -> Prop) l : (forall a, In a l -> R a a) -> Forall2 R l l.
Proof. induction l; constructor; [apply H; simpl; auto|apply IHl; intros; apply H; simpl; auto]. Qed.
Lemma Forall2_eq {A} (l r : list A) : Forall2 eq l r <-> l = r.
Proof.
  split; [induction 1; congruence|intros ->; induction r; constructor; auto].
Qed.
Lemma Forall2_trans' {A B C} (R : A -> B -> Prop) (Q : B -> C -> Prop) (P : A -> C -> Prop) l m r :
  (forall a b c, R a b -> Q b c -> P a c) -> Forall2 R l m -> Forall2 Q m r -> Forall2 P l r.
Proof.
  intros H F. revert r. induction F; intros r G; inversion G; subst; constructor; eauto.
Qed.
Lemma Forall2_flip {A B} (R : A -> B -> Prop) l r : Forall2 R l r -> Forall2 (fun b a => R a b) r l.
Proof. induction 1; constructor; auto. Qed.

(** ** moving the default layer *)
Lemma find_idx_first {A} (p : A -> bool) a l : p a = true -> find_idx p (a :: l) = Some O.
Proof. intros H. simpl. rewrite H. reflexivity. Qed.

Lemma find_idx_insert {A} (p : A -> bool) d r k :
  p d = true -> forallb (fun x => negb (p x)) r = true ->
  exists i, find_idx p (insert_nth k d r) = Some i /\ move_to_front i (insert_nth k d r) = d :: r.
Proof.
  intros Hd. revert k. induction r as [|y r IH]; intros k Hr.
  - destruct k; simpl; rewrite Hd; exists O; split; reflexivity.
  - simpl in Hr. apply andb_true_iff in Hr. destruct Hr as [Hy Hr].
    destruct k as [|k].
    + simpl. rewrite Hd. exists O. split; reflexivity.
    + simpl. apply negb_true_iff in Hy. rewrite Hy.
      destruct (IH k Hr) as [i [Hi Hm]]. rewrite Hi. simpl. exists (S i). split; [reflexivity|].
      unfold move_to_front in *. simpl.
      destruct (nth_error (insert_nth k d r) i) eqn:En; [|].
      * injection Hm as Ha Hb. rewrite Ha, Hb. reflexivity.
      * (* impossible: find_idx returned i *)
        exfalso. clear -Hi En. revert i Hi En. generalize (insert_nth k d r) as l.
        induction l as [|a l IHl]; intros i Hi En; simpl in Hi; [discriminate|].
        destruct (p a); [inversion Hi; subst; simpl in En; discriminate|].
        destruct (find_idx p l) eqn:Ef; simpl in Hi; [|discriminate]. inversion Hi; subst.
        simpl in En. eapply IHl; eauto.
Qed.

(* ------------------------------------------------------------------------------------------ *)
(** * Feature text *)

Lemma replace_crlf_nocr_aux : forall n t, (List.length t <= n)%nat -> has_cr t = false -> replace_crlf t = t.
Proof.
  unfold has_cr. induction n as [|n IH]; intros t Hl H.
  - destruct t; [reflexivity|simpl in Hl; lia].
  - destruct t as [|c [|d r]]; try reflexivity.
    cbn [existsb] in H. apply orb_false_iff in H. destruct H as [Hc H].
    change (replace_crlf (c :: d :: r)) with
      (if (c =? CR) && (d =? LF) then LF :: replace_crlf r else c :: replace_crlf (d :: r)).
    rewrite N.eqb_sym in Hc. rewrite Hc. cbn [andb]. f_equal. apply IH; [simpl in Hl |- *; lia|exact H].
Qed.
Lemma replace_crlf_nocr : forall t, has_cr t = false -> replace_crlf t = t.
Proof. intros t. apply (replace_crlf_nocr_aux (List.length t)). lia. Qed.

Lemma features_to_write_eq : forall t, features_to_write t = replace_crlf t.
Proof.
  intros t. unfold features_to_write. destruct (has_cr t) eqn:E; [reflexivity|].
  symmetry. apply replace_crlf_nocr. exact E.
Qed.

Lemma crlf_norm_replace_aux : forall n t, (List.length t <= n)%nat -> crlf_norm (replace_crlf t) = crlf_norm t.
Proof.
  induction n as [|n IH]; intros t Hl.
  - destruct t; [reflexivity|simpl in Hl; lia].
  - destruct t as [|c [|d r]]; try reflexivity.
    change (replace_crlf (c :: d :: r)) with
      (if (c =? CR) && (d =? LF) then LF :: replace_crlf r else c :: replace_crlf (d :: r)).
    destruct ((c =? CR) && (d =? LF)) eqn:E.
    + apply andb_true_iff in E. destruct E as [Ec Ed]. apply N.eqb_eq in Ec, Ed. subst c d.
      assert (Hr : crlf_norm (replace_crlf r) = crlf_norm r) by (apply IH; simpl in Hl; lia).
      change (crlf_norm (LF :: replace_crlf r)) with
        (let r' := crlf_norm (replace_crlf r) in if (LF =? CR) && starts_lf r' then r' else LF :: r').
      change (crlf_norm (CR :: LF :: r)) with
        (let r' := crlf_norm (LF :: r) in if (CR =? CR) && starts_lf r' then r' else CR :: r').
      change (crlf_norm (LF :: r)) with
        (let r' := crlf_norm r in if (LF =? CR) && starts_lf r' then r' else LF :: r').
      cbv zeta. rewrite Hr. change (LF =? CR) with false. change (CR =? CR) with true.
      cbn [andb]. cbn [starts_lf]. change (LF =? LF) with true. reflexivity.
    + assert (Hr : crlf_norm (replace_crlf (d :: r)) = crlf_norm (d :: r)) by (apply IH; simpl in Hl |- *; lia).
      change (crlf_norm (c :: replace_crlf (d :: r))) with
        (let r' := crlf_norm (replace_crlf (d :: r)) in if (c =? CR) && starts_lf r' then r' else c :: r').
      cbv zeta. rewrite Hr. reflexivity.
Qed.

Lemma crlf_norm_replace : forall t, crlf_norm (replace_crlf t) = crlf_norm t.
Proof. intros t. apply (crlf_norm_replace_aux (List.length t)). lia. Qed.

Lemma feq_features_to_write : forall t, feq t (features_to_write t).
Proof. intros t. unfold feq. rewrite features_to_write_eq, crlf_norm_replace. reflexivity. Qed.

Lemma feq_refl : forall t, feq t t. Proof. reflexivity. Qed.
Lemma feq_sym : forall a b, feq a b -> feq b a. Proof. unfold feq; auto. Qed.
Lemma feq_trans : forall a b c, feq a b -> feq b c -> feq a c. Proof. unfold feq; congruence. Qed.

(** one application of the writer's replacement is not idempotent, the normal form is *)
Lemma replace_crlf_not_idempotent :
  replace_crlf (replace_crlf [CR; CR; LF]) <> replace_crlf [CR; CR; LF].
Proof. vm_compute. discriminate. Qed.

(* ------------------------------------------------------------------------------------------ *)
(** * Lemmas under the laws of the signature *)

Section Proofs.
Variable S : sig.
Hypothesis OK : sig_ok S.
Local Notation content := (T_content S).
Local Notation opts := (T_opts S).
Local Notation dict := (T_dict S).
Local Notation pv := (T_pv S).
Local Notation guide := (guideline (T_gbody S) (T_dict S)).
Local Notation info := (finfo (T_irest S) (T_gbody S) (T_dict S)).
Local Notation lay := (layer (T_color S) (T_dict S) (T_glyph S)).
Local Notation font := (font S).
Local Notation tree := (tree S).

(** ** dictionaries *)
Lemma deq_refl : forall d, deq S d d.
Proof. intros d. apply (deq_get S OK). intros k. apply orel_refl. apply (veq_refl S OK). Qed.
Lemma deq_sym : forall a b, deq S a b -> deq S b a.
Proof.
  intros a b H. apply (deq_get S OK). intros k. apply orel_sym; [apply (veq_sym S OK)|].
  apply (deq_get S OK). exact H.
Qed.
Lemma deq_trans : forall a b c, deq S a b -> deq S b c -> deq S a c.
Proof.
  intros a b c H1 H2. apply (deq_get S OK). intros k.
  eapply orel_trans; [apply (veq_trans S OK)| |]; apply (deq_get S OK); eassumption.
Qed.
Lemma deq_empty : forall d, d_is_empty S d = true -> deq S d (d_empty S).
Proof.
  intros d H. apply (deq_get S OK). intros k. rewrite (get_empty S OK).
  apply (is_empty_get S OK) with (k := k) in H. rewrite H. exact I.
Qed.
Lemma deq_is_empty : forall a b, deq S a b -> d_is_empty S a = true -> d_is_empty S b = true.
Proof.
  intros a b H E. apply (is_empty_get S OK). intros k.
  apply (deq_get S OK) with (k := k) in H. apply (is_empty_get S OK) with (k := k) in E.
  rewrite E in H. apply orel_none_l in H. exact H.
Qed.
Lemma wf_dict_empty : wf_dict S (d_empty S).
Proof. intros k v H. rewrite (get_empty S OK) in H. discriminate. Qed.
Lemma wf_dict_set : forall k v d, wf_key S k -> wf_pv S v -> wf_dict S d -> wf_dict S (d_set S k v d).
Proof.
  intros k v d Hk Hv Hd k' v' H. rewrite (get_set S OK) in H.
  destruct (str_eqb k' k) eqn:E.
  - apply list_eqb_N_eq in E. subst. inversion H; subst. auto.
  - apply Hd. exact H.
Qed.
Lemma wf_dict_del : forall k d, wf_dict S d -> wf_dict S (d_del S k d).
Proof.
  intros k d Hd k' v' H. rewrite (get_del S OK) in H. destruct (str_eqb k' k); [discriminate|].
  apply Hd. exact H.
Qed.

(** ** object libs of the font-info guidelines *)
Fixpoint olookup (k : str) (gs : list guide) : option dict :=
  match gs with
  | [] => None
  | g :: r => match g_id g, g_lib g with
              | Some id, Some l => if str_eqb k id then Some l else olookup k r
              | _, _ => olookup k r
              end
  end.

Lemma olookup_in_ids : forall k gs l, olookup k gs = Some l -> In k (some_ids (map g_id gs)).
Proof.
  induction gs as [|g r IH]; simpl; intros l H; [discriminate|].
  destruct (g_id g) as [id|]; simpl.
  - destruct (g_lib g).
    + destruct (str_eqb k id) eqn:E.
      * apply list_eqb_N_eq in E. left. congruence.
      * right. eauto.
    + right. eauto.
  - eauto.
Qed.

Lemma olookup_unique : forall gs g id,
  NoDup (some_ids (map g_id gs)) -> In g gs -> g_id g = Some id -> olookup id gs = g_lib g.
Proof.
  induction gs as [|g0 r IH]; simpl; intros g id ND HI Hid; [tauto|].
  destruct HI as [->|HI].
  - rewrite Hid in *. simpl in ND. inversion ND as [|? ? Hn ND']; subst.
    destruct (g_lib g) eqn:El.
    + rewrite str_eqb_refl. reflexivity.
    + destruct (olookup id r) eqn:Eo; [|reflexivity]. apply olookup_in_ids in Eo. contradiction.
  - destruct (g_id g0) as [id0|] eqn:E0; simpl in ND.
    + inversion ND as [|? ? Hn ND']; subst.
      assert (id <> id0).
      { intros ->. apply Hn. clear -HI Hid. induction r as [|x r IHr]; simpl in *; [tauto|].
        destruct HI as [->|HI]; [rewrite Hid; simpl; auto|].
        destruct (g_id x); simpl; auto. }
      destruct (g_lib g0); [rewrite str_eqb_neq by assumption|]; apply IH; auto.
    + apply IH; auto.
Qed.

Lemma dump_ok : forall gs acc,
  Forall (guide_ok S) gs -> NoDup (some_ids (map g_id gs)) ->
  exists ol, dump_object_libs S gs acc = Ok ol /\
             forall k, d_get S k ol = match olookup k gs with
                                      | Some l => Some (mk_dict S l)
                                      | None => d_get S k acc
                                      end.
Proof.
  induction gs as [|g r IH]; intros acc HF ND.
  - exists acc. split; reflexivity.
  - inversion HF as [|? ? Hg HF']; subst. simpl.
    destruct (g_lib g) as [l|] eqn:El.
    + destruct Hg as [Hg1 Hg2]. destruct (Hg1 l El) as [_ [id Hid]]. rewrite Hid.
      simpl in ND. rewrite Hid in ND. simpl in ND. inversion ND as [|? ? Hn ND']; subst.
      destruct (IH (d_set S id (mk_dict S l) acc) HF' ND') as [ol [H1 H2]].
      exists ol. split; [exact H1|]. intros k. rewrite H2.
      destruct (str_eqb k id) eqn:E.
      * apply list_eqb_N_eq in E. subst k.
        destruct (olookup id r) eqn:Eo; [apply olookup_in_ids in Eo; contradiction|].
        rewrite (get_set S OK), str_eqb_refl. reflexivity.
      * destruct (olookup k r); [reflexivity|]. rewrite (get_set S OK), E. reflexivity.
    + assert (ND' : NoDup (some_ids (map g_id r))).
      { simpl in ND. destruct (g_id g); [inversion ND; assumption|assumption]. }
      destruct (IH acc HF' ND') as [ol [H1 H2]]. exists ol. split; [exact H1|].
      intros k. rewrite H2. destruct (g_id g); reflexivity.
Qed.

Lemma spec_object_libs_dump : forall gs acc ol,
  dump_object_libs S gs acc = Ok ol <-> spec_object_libs S gs acc = Some ol.
Proof.
  induction gs as [|g r IH]; simpl; intros acc ol.
  - split; intros H; inversion H; reflexivity.
  - destruct (g_lib g); [destruct (g_id g)|]; try apply IH. split; discriminate.
Qed.

Lemma strip_bare : forall d : T_gbody S * option str, strip_g S (bare S d) = d.
Proof. intros [b i]. reflexivity. Qed.
Lemma map_strip_bare : forall l, map (strip_g S) (map (bare S) l) = l.
Proof. induction l as [|d l IH]; simpl; [reflexivity|]. rewrite strip_bare, IH. reflexivity. Qed.

Definition gl_eq (x y : guide) : Prop := g_id x = g_id y /\ orel (deq S) (g_lib x) (g_lib y).

Lemma attach_ok : forall (gd : list (T_gbody S * option str)) (orig : list guide) ol,
  Forall2 (fun d g => snd d = g_id g) gd orig ->
  Forall (guide_ok S) orig -> NoDup (some_ids (map g_id orig)) ->
  (forall g id, In g orig -> g_id g = Some id ->
                orel (veq S) (option_map (mk_dict S) (g_lib g)) (d_get S id ol)) ->
  exists r, attach_libs S gd ol = Ok r /\ map (strip_g S) r = gd /\ Forall2 gl_eq orig r.
Proof.
  intros gd orig ol F. revert ol. induction F as [|d g gd orig Hd F IH]; intros ol HF ND Hol.
  - exists []. repeat split; constructor.
  - inversion HF as [|? ? Hg HF']; subst. simpl.
    destruct (snd d) as [id|] eqn:Eid.
    + simpl in ND. rewrite <- Hd in ND. simpl in ND. inversion ND as [|? ? Hn ND']; subst.
      specialize (Hol g id (or_introl eq_refl) (eq_sym Hd)) as Hg0.
      destruct (g_lib g) as [l|] eqn:El; simpl in Hg0.
      * apply orel_some_l in Hg0. destruct Hg0 as [v [Ev Hv]]. rewrite Ev.
        apply (as_dict_veq S OK) in Hv. rewrite (as_mk S OK) in Hv.
        apply orel_some_l in Hv. destruct Hv as [l' [El' Hl']]. rewrite El'.
        destruct (IH (d_del S id ol) HF' ND') as [r [H1 [H2 H3]]].
        { intros g' id' HI Hid'. rewrite (get_del S OK).
          assert (id' <> id).
          { intros ->. apply Hn. clear -HI Hid'. induction orig as [|x r IHr]; simpl in *; [tauto|].
            destruct HI as [->|HI]; [rewrite Hid'; simpl; auto|]. destruct (g_id x); simpl; auto. }
          rewrite str_eqb_neq by assumption. apply Hol; simpl; auto. }
        rewrite H1. simpl. eexists. split; [reflexivity|]. split.
        -- simpl. rewrite H2. f_equal. destruct d as [b i]. simpl in *. subst. reflexivity.
        -- constructor; [|exact H3]. split; simpl; [congruence|]. rewrite El. exact Hl'.
      * apply (orel_none_l (veq S)) in Hg0. rewrite Hg0.
        destruct (IH ol HF' ND') as [r [H1 [H2 H3]]].
        { intros g' id' HI Hid'. apply Hol; simpl; auto. }
        rewrite H1. simpl. eexists. split; [reflexivity|]. split.
        -- simpl. rewrite H2, strip_bare. reflexivity.
        -- constructor; [|exact H3]. split; simpl; [congruence|]. rewrite El. exact I.
    + assert (ND' : NoDup (some_ids (map g_id orig))).
      { simpl in ND. rewrite <- Hd in ND. exact ND. }
      destruct (IH ol HF' ND') as [r [H1 [H2 H3]]].
      { intros g' id' HI Hid'. apply Hol; simpl; auto. }
      rewrite H1. simpl. eexists. split; [reflexivity|]. split.
      * simpl. rewrite H2, strip_bare. reflexivity.
      * constructor; [|exact H3]. split; simpl; [congruence|].
        destruct (g_lib g) as [l|] eqn:El; [|exact I].
        destruct Hg as [Hg1 _]. destruct (Hg1 l El) as [_ [id Hid]]. congruence.
Qed.


Lemma some_ids_in : forall (gs : list guide) g id, In g gs -> g_id g = Some id -> In id (some_ids (map g_id gs)).
Proof.
  induction gs as [|x r IH]; simpl; intros g id HI Hid; [tauto|].
  destruct HI as [->|HI]; [rewrite Hid; simpl; auto|]. destruct (g_id x); simpl; eauto.
Qed.

Lemma object_libs_back : forall (gso : option (list guide)) (flib ol lib0 : dict) sg,
  let gs := match gso with Some l => l | None => [] end in
  Forall (guide_ok S) gs -> NoDup (some_ids (map g_id gs)) ->
  d_get S OBJ flib = None ->
  (forall k, d_get S k ol = option_map (mk_dict S) (olookup k gs)) ->
  deq S (if d_is_empty S ol then flib else d_set S OBJ (mk_dict S ol) flib) lib0 ->
  orel (Forall2 (fun x y : T_gbody S * option str => snd x = snd y)) (option_map (map (strip_g S)) gso) sg ->
  exists gs' lib', load_object_libs S sg lib0 = Ok (gs', lib') /\ deq S flib lib' /\
                   option_map (map (strip_g S)) gs' = sg /\ orel (Forall2 gl_eq) gso gs'.
Proof.
  intros gso flib ol lib0 sg gs HF ND Hobj Hol Hdeq Hids. subst gs.
  set (gs := match gso with Some l => l | None => [] end) in *.
  assert (Hlibs : forall g id, In g gs -> g_id g = Some id -> olookup id gs = g_lib g)
    by (intros; apply olookup_unique; auto).
  unfold load_object_libs.
  destruct (d_is_empty S ol) eqn:Ee.
  - (* no guideline has a lib *)
    assert (Hn : d_get S OBJ lib0 = None).
    { apply (deq_get S OK) with (k := OBJ) in Hdeq. rewrite Hobj in Hdeq.
      apply (orel_none_l (veq S)) in Hdeq. exact Hdeq. }
    rewrite Hn. eexists. eexists. split; [reflexivity|]. split; [exact Hdeq|]. split.
    + destruct sg; simpl; [rewrite map_strip_bare|]; reflexivity.
    + destruct gso as [l|]; destruct sg as [gd|]; simpl in *; try tauto. subst gs.
      apply Forall2_map_l in Hids. apply Forall2_map_r.
      eapply Forall2_impl_in; [|exact Hids]. intros a b Ha _ Hab. simpl in Hab.
      split; simpl; [exact Hab|].
      assert (Hnone : g_lib a = None).
      { destruct (g_id a) as [id|] eqn:Eid.
        - rewrite <- (Hlibs a id Ha Eid).
          apply (is_empty_get S OK) with (k := id) in Ee. rewrite Hol in Ee.
          destruct (olookup id l); [discriminate|reflexivity].
        - destruct (g_lib a) as [x|] eqn:El; [|reflexivity].
          rewrite Forall_forall in HF. destruct (HF a Ha) as [H1 _].
          destruct (H1 x El) as [_ [id Hid]]. congruence. }
      rewrite Hnone. exact I.
  - (* the libs travel under public.objectLibs *)
    pose proof Hdeq as Hd0. apply (deq_get S OK) with (k := OBJ) in Hd0.
    rewrite (get_set S OK), str_eqb_refl in Hd0.
    apply orel_some_l in Hd0. destruct Hd0 as [v [Ev Hv]]. rewrite Ev.
    apply (as_dict_veq S OK) in Hv. rewrite (as_mk S OK) in Hv.
    apply orel_some_l in Hv. destruct Hv as [ol' [Eol' Hol']]. rewrite Eol'.
    assert (Hlib' : deq S flib (d_del S OBJ lib0)).
    { apply (deq_get S OK). intros k. rewrite (get_del S OK).
      destruct (str_eqb k OBJ) eqn:Ek.
      - apply list_eqb_N_eq in Ek. subst k. rewrite Hobj. exact I.
      - apply (deq_get S OK) with (k := k) in Hdeq. rewrite (get_set S OK), Ek in Hdeq. exact Hdeq. }
    destruct sg as [gd|].
    + destruct gso as [l|]; simpl in Hids; [|tauto]. subst gs.
      destruct (attach_ok gd l ol') as [r [H1 [H2 H3]]]; auto.
      * apply Forall2_map_l in Hids. apply Forall2_flip in Hids.
        eapply Forall2_impl_in; [|exact Hids]. intros a b _ _ Hab. simpl in Hab. congruence.
      * intros g id HI Hid. apply (deq_get S OK) with (k := id) in Hol'.
        rewrite Hol, (Hlibs g id HI Hid) in Hol'. exact Hol'.
      * rewrite H1. simpl. eexists. eexists. split; [reflexivity|]. split; [exact Hlib'|].
        split; [simpl; rewrite H2; reflexivity|exact H3].
    + exfalso. destruct gso as [l|]; simpl in Hids; [tauto|]. subst gs.
      assert (d_is_empty S ol = true); [|congruence].
      apply (is_empty_get S OK). intros k. rewrite Hol. reflexivity.
Qed.

Lemma stripped_bare : forall (si : sinfo (T_irest S) (T_gbody S)),
  stripped S {| i_rest := fst si; i_guides := option_map (map (bare S)) (snd si) |} = si.
Proof.
  intros [r [l|]]; unfold stripped; simpl; [rewrite map_strip_bare|]; reflexivity.
Qed.

Definition info_valid (i : info) : Prop :=
  info_ok S i = true /\ wf (P_info S) (stripped S i) /\
  Forall (guide_ok S) (guides_of S i) /\ NoDup (some_ids (map g_id (guides_of S i))).

Lemma fontinfo_back : forall (i : info) (flib ol lib0 : dict) c si,
  info_valid i -> d_get S OBJ flib = None ->
  (forall k, d_get S k ol = option_map (mk_dict S) (olookup k (guides_of S i))) ->
  deq S (if d_is_empty S ol then flib else d_set S OBJ (mk_dict S ol) flib) lib0 ->
  dec (P_info S) c = Some si -> peq (P_info S) (stripped S i) si ->
  exists i' lib', load_fontinfo S 3 c lib0 = Ok (i', lib') /\ info_eq S i i' /\ deq S flib lib'.
Proof.
  intros i flib ol lib0 c si [Hok [Hwf [HF ND]]] Hobj Hol Hdeq Hdec Hpeq.
  unfold load_fontinfo. change (3 =? 3) with true. cbv iota. rewrite Hdec.
  assert (Hok' : info_ok S {| i_rest := fst si; i_guides := option_map (map (bare S)) (snd si) |} = true).
  { rewrite <- Hok. symmetry. apply (info_ok_stripped S OK). rewrite stripped_bare. exact Hpeq. }
  rewrite Hok'.
  destruct (object_libs_back (i_guides i) flib ol lib0 (snd si)) as [gs' [lib' [H1 [H2 [H3 H4]]]]]; auto.
  - apply (info_eq_ids S OK) in Hpeq. exact Hpeq.
  - rewrite H1. simpl. eexists. eexists. split; [reflexivity|]. split; [|exact H2].
    split; [|exact H4]. unfold stripped at 2. simpl. rewrite H3. destruct si; exact Hpeq.
Qed.


(* ------------------------------------------------------------------------------------------ *)
(** ** parts, glyphs, layers *)

Lemma spec_opt_rt {X} (p : part content opts X) (Hp : part_ok p) o skip x :
  wf p x ->
  exists oc, spec_opt S p o skip x = Some oc /\
             match oc with
             | None => skip = true
             | Some c => exists x', dec p c = Some x' /\ peq p x x'
             end.
Proof.
  intros Hw. unfold spec_opt. destruct skip.
  - exists None. split; reflexivity.
  - destruct (rt p Hp o x Hw) as [c [x' [H1 [H2 H3]]]]. rewrite H1. exists (Some c).
    split; [reflexivity|]. eauto.
Qed.

Lemma Forall2_exists_r {A B} (Q : A -> B -> Prop) l :
  (forall a, In a l -> exists b, Q a b) -> exists r, Forall2 Q l r.
Proof.
  induction l as [|a l IH]; intros H.
  - exists []. constructor.
  - destruct (H a (or_introl eq_refl)) as [b Hb]. destruct IH as [r Hr].
    + intros; apply H; simpl; auto.
    + exists (b :: r). constructor; assumption.
Qed.
Lemma Forall2_in_l {A B} (R : A -> B -> Prop) l r a :
  Forall2 R l r -> In a l -> exists b, In b r /\ R a b.
Proof.
  induction 1; simpl; intros HI; [tauto|]. destruct HI as [->|HI]; [eauto|].
  destruct (IHForall2 HI) as [b [H1 H2]]. eauto.
Qed.
Lemma Forall2_map_fst_eq {A B C} (f : A -> C) (g : B -> C) l r :
  Forall2 (fun a b => g b = f a) l r -> map g r = map f l.
Proof. induction 1; simpl; congruence. Qed.

Definition file_of (e : str * str * T_glyph S) : str := snd (fst e).

Lemma glyphs_rt : forall o (gl : list (str * str * T_glyph S)),
  Forall (glyph_entry_ok S) gl -> NoDup (map file_of gl) ->
  exists glifs,
    omapM (fun e : str * str * T_glyph S =>
             option_map (fun gc => (snd (fst e), gc)) (enc (P_glif S) o (snd e))) gl = Some glifs /\
    forall d, ld_glifs S d = glifs ->
      exists gl', mapM (load_glyph S d) (map fst gl) = Ok gl' /\ Forall2 (glyph_entry_eq S) gl gl'.
Proof.
  intros o gl HF ND.
  destruct (Forall2_exists_r
              (fun (e : str * str * T_glyph S) (b : str * content) =>
                 fst b = file_of e /\ enc (P_glif S) o (snd e) = Some (snd b) /\
                 exists g', dec (P_glif S) (snd b) = Some g' /\ peq (P_glif S) (snd e) g') gl)
    as [glifs HG].
  { intros e He. rewrite Forall_forall in HF. destruct (HF e He) as [Hw _].
    destruct (rt _ (ok_glif S OK) o (snd e) Hw) as [c [g' [H1 [H2 H3]]]].
    exists (file_of e, c). simpl. eauto. }
  exists glifs. split.
  - apply omapM_Forall2. eapply Forall2_impl_in; [|exact HG].
    intros e b _ _ [H1 [H2 _]]. rewrite H2. simpl. destruct b; simpl in *. subst. reflexivity.
  - intros d Hd.
    assert (Hfst : map fst glifs = map file_of gl).
    { apply Forall2_map_fst_eq. eapply Forall2_impl_in; [|exact HG]. intros a b _ _ [H _]. exact H. }
    destruct (Forall2_exists_r
                (fun (e e' : str * str * T_glyph S) =>
                   load_glyph S d (fst e) = Ok e' /\ glyph_entry_eq S e e') gl) as [gl' HL].
    { intros e He. destruct (Forall2_in_l _ _ _ _ HG He) as [b [Hb [H1 [H2 [g' [H3 H4]]]]]].
      rewrite Forall_forall in HF. destruct (HF e He) as [_ Hn].
      exists (fst e, set_name S (fst (fst e)) g'). split.
      - unfold load_glyph. rewrite Hd.
        rewrite (alookup_in (snd (fst e)) (snd b) glifs).
        + rewrite H3. destruct e as [[n fl] g]; reflexivity.
        + rewrite Hfst. exact ND.
        + destruct b as [bf bc]. simpl in *. subst bf. exact Hb.
      - split; [reflexivity|]. simpl. rewrite <- (set_name_same S OK (snd e)) at 1. rewrite Hn.
        apply (set_name_eq S OK). exact H4. }
    exists gl'. split.
    + apply mapM_Forall2. apply Forall2_map_l. eapply Forall2_impl_in; [|exact HL]. intros a b _ _ [H _]. exact H.
    + eapply Forall2_impl_in; [|exact HL]. intros a b _ _ [_ H]. exact H.
Qed.

Lemma layer_rt : forall c o (l : lay),
  layer_ok S l ->
  exists d, spec_write_layer S c o l = Some (l_dir l, d) /\
            forall t : tree, alookup (l_dir l) (t_dirs S t) = Some d ->
              exists l', load_layer S t (l_name l, l_dir l) = Ok l' /\ layer_eq S l l'.
Proof.
  intros c o l [Hlib [Hcol [Hcont [ND HG]]]].
  unfold spec_write_layer.
  destruct (rt _ (ok_contents S OK) o (contents_of S l) Hcont) as [cc [cl [Hc1 [Hc2 Hc3]]]].
  apply (contents_exact S OK) in Hc3. subst cl. rewrite Hc1. simpl.
  set (skip := negb (c_layerinfo c) && is_none (l_color l) && d_is_empty S (l_lib l)).
  set (val := (l_color l, if d_is_empty S (l_lib l) && negb (c_layerlib c) then None else Some (l_lib l))).
  destruct (spec_opt_rt (P_li S) (ok_li S OK) o skip val) as [lic [Hl1 Hl2]].
  { apply (li_wf S OK). split; [exact Hcol|]. intros x Hx. unfold val in Hx. simpl in Hx.
    destruct (d_is_empty S (l_lib l) && negb (c_layerlib c)); [discriminate|]. inversion Hx; subst. exact Hlib. }
  rewrite Hl1. simpl.
  destruct (glyphs_rt o (l_glyphs l) HG ND) as [glifs [Hg1 Hg2]]. rewrite Hg1. simpl.
  eexists. split; [reflexivity|]. intros t Ht.
  unfold load_layer. simpl. rewrite Ht. simpl. rewrite Hc2.
  destruct (Hg2 (Build_ldir S (Some cc) lic glifs) eq_refl) as [gl' [Hm HF2]]. unfold contents_of. rewrite Hm. simpl.
  destruct lic as [lc|].
  - destruct Hl2 as [v [Hv1 Hv2]]. simpl. rewrite Hv1. simpl.
    eexists. split; [reflexivity|]. apply (li_eq S OK) in Hv2. destruct Hv2 as [Hcl Hlb].
    unfold val in Hcl, Hlb. simpl in Hcl, Hlb.
    split; [reflexivity|]. split; [reflexivity|]. split; [exact Hcl|]. split; [|exact HF2]. simpl.
    destruct v as [vc [vl|]]; simpl in *.
    + destruct (d_is_empty S (l_lib l) && negb (c_layerlib c)); simpl in Hlb; [tauto|exact Hlb].
    + destruct (d_is_empty S (l_lib l) && negb (c_layerlib c)) eqn:E; simpl in Hlb; [|tauto].
      apply andb_true_iff in E. destruct E as [E _]. apply deq_empty. exact E.
  - simpl. eexists. split; [reflexivity|]. unfold skip in Hl2.
    apply andb_true_iff in Hl2. destruct Hl2 as [Hl2 He]. apply andb_true_iff in Hl2. destruct Hl2 as [_ Hn].
    split; [reflexivity|]. split; [reflexivity|]. split; [|split; [|exact HF2]]; simpl.
    + destruct (l_color l); [discriminate|exact I].
    + apply deq_empty. exact He.
Qed.

Definition layer_back (t : tree) (l l' : lay) : Prop :=
  load_layer S t (l_name l, l_dir l) = Ok l' /\ layer_eq S l l'.

Lemma layers_rt : forall c o (ls : list lay),
  Forall (layer_ok S) ls -> NoDup (map l_dir ls) ->
  exists dirs, omapM (spec_write_layer S c o) ls = Some dirs /\
               forall t : tree, t_dirs S t = dirs -> exists ls', Forall2 (layer_back t) ls ls'.
Proof.
  intros c o ls HF ND.
  destruct (Forall2_exists_r
              (fun (l : lay) (b : str * ldir S) =>
                 fst b = l_dir l /\ spec_write_layer S c o l = Some b /\
                 forall t : tree, alookup (l_dir l) (t_dirs S t) = Some (snd b) ->
                   exists l', layer_back t l l') ls) as [dirs HD].
  { intros l Hl. rewrite Forall_forall in HF. destruct (layer_rt c o l (HF l Hl)) as [d [H1 H2]].
    exists (l_dir l, d). simpl. auto. }
  exists dirs. split.
  - apply omapM_Forall2. eapply Forall2_impl_in; [|exact HD]. intros a b _ _ [_ [H _]]. exact H.
  - intros t Ht.
    assert (Hfst : map fst dirs = map l_dir ls).
    { apply Forall2_map_fst_eq. eapply Forall2_impl_in; [|exact HD]. intros a b _ _ [H _]. exact H. }
    apply Forall2_exists_r. intros l Hl.
    destruct (Forall2_in_l _ _ _ _ HD Hl) as [b [Hb [H1 [_ H3]]]].
    apply H3. rewrite Ht. apply alookup_in.
    + rewrite Hfst. exact ND.
    + destruct b as [bd bl]. simpl in *. subst bd. exact Hb.
Qed.


(* ------------------------------------------------------------------------------------------ *)
(** ** font info and lib together *)

Lemma olookup_some_in : forall k (gs : list guide) l,
  olookup k gs = Some l -> exists g, In g gs /\ g_id g = Some k /\ g_lib g = Some l.
Proof.
  induction gs as [|g r IH]; simpl; intros l H; [discriminate|].
  destruct (g_id g) as [id|] eqn:Ei; [destruct (g_lib g) as [x|] eqn:El|].
  - destruct (str_eqb k id) eqn:E.
    + apply list_eqb_N_eq in E. subst. inversion H; subst. exists g. auto.
    + destruct (IH l H) as [g' [H1 H2]]. exists g'. auto.
  - destruct (IH l H) as [g' [H1 H2]]. exists g'. auto.
  - destruct (IH l H) as [g' [H1 H2]]. exists g'. auto.
Qed.

Definition lib0_of (olib : option dict) : dict := match olib with Some d => d | None => d_empty S end.
Definition lib_info_loaded (lbc ic : option content) (il : info * dict) : Prop :=
  exists olib, load_opt S (P_lib S) lbc 2 = Ok olib /\
    match ic with
    | None => Ok (info_dflt S, lib0_of olib)
    | Some c => load_fontinfo S 3 c (lib0_of olib)
    end = Ok il.

Lemma lib_info_rt : forall ci cl o (i : info) (flib : dict),
  info_valid i -> wf_dict S flib -> d_get S OBJ flib = None ->
  exists ic ol lbc,
    spec_opt S (P_info S) o (negb ci && info_is_default S i) (stripped S i) = Some ic /\
    spec_object_libs S (guides_of S i) (d_empty S) = Some ol /\
    dump_object_libs S (guides_of S i) (d_empty S) = Ok ol /\
    (let libw := if d_is_empty S ol then flib else d_set S OBJ (mk_dict S ol) flib in
     spec_opt S (P_lib S) o (negb cl && d_is_empty S libw) libw = Some lbc) /\
    (ic = None -> info_is_default S i = true) /\
    (lbc = None -> d_is_empty S (if d_is_empty S ol then flib else d_set S OBJ (mk_dict S ol) flib) = true) /\
    (forall k, d_get S k ol = option_map (mk_dict S) (olookup k (guides_of S i))) /\
    exists il, lib_info_loaded lbc ic il /\ info_eq S i (fst il) /\ deq S flib (snd il).
Proof.
  intros ci cl o i flib Hv Hwf Hobj. pose proof Hv as [Hok [Hwi [HF ND]]].
  destruct (spec_opt_rt (P_info S) (ok_info S OK) o (negb ci && info_is_default S i) (stripped S i) Hwi)
    as [ic [Hi1 Hi2]].
  destruct (dump_ok (guides_of S i) (d_empty S) HF ND) as [ol [Hd1 Hd2]].
  assert (Hol : forall k, d_get S k ol = option_map (mk_dict S) (olookup k (guides_of S i))).
  { intros k. rewrite Hd2. destruct (olookup k (guides_of S i)); [reflexivity|]. apply (get_empty S OK). }
  assert (Hwol : wf_dict S ol).
  { intros k v Hk. rewrite Hol in Hk. destruct (olookup k (guides_of S i)) as [l|] eqn:El; [|discriminate].
    inversion Hk; subst. destruct (olookup_some_in _ _ _ El) as [g [Hg1 [Hg2 Hg3]]].
    rewrite Forall_forall in HF. destruct (HF g Hg1) as [Ha Hb].
    split; [apply (Hb k Hg2)|]. apply (wf_mk S OK). apply (Ha l Hg3). }
  set (libw := if d_is_empty S ol then flib else d_set S OBJ (mk_dict S ol) flib).
  assert (Hwl : wf (P_lib S) libw).
  { apply (lib_wf S OK). unfold libw. destruct (d_is_empty S ol); [exact Hwf|].
    apply wf_dict_set; [apply (wf_obj_key S OK)|apply (wf_mk S OK); exact Hwol|exact Hwf]. }
  destruct (spec_opt_rt (P_lib S) (ok_lib S OK) o (negb cl && d_is_empty S libw) libw Hwl) as [lbc [Hl1 Hl2]].
  exists ic, ol, lbc. split; [exact Hi1|]. split; [apply spec_object_libs_dump; exact Hd1|].
  split; [exact Hd1|]. split; [exact Hl1|].
  split. { intros ->. apply andb_true_iff in Hi2. tauto. }
  split. { intros ->. apply andb_true_iff in Hl2. tauto. }
  split; [exact Hol|].
  (* what the reader gets for the lib *)
  assert (Hlib0 : exists olib, load_opt S (P_lib S) lbc 2 = Ok olib /\ deq S libw (lib0_of olib)).
  { destruct lbc as [c|].
    - destruct Hl2 as [d' [H1 H2]]. exists (Some d'). simpl. rewrite H1. split; [reflexivity|].
      apply (lib_eq S OK). exact H2.
    - exists None. split; [reflexivity|]. simpl. apply deq_empty.
      apply andb_true_iff in Hl2. tauto. }
  destruct Hlib0 as [olib [Ho1 Ho2]].
  destruct ic as [c|].
  - destruct Hi2 as [si [Hs1 Hs2]].
    destruct (fontinfo_back i flib ol (lib0_of olib) c si Hv Hobj Hol Ho2 Hs1 Hs2) as [i' [lib' [H1 [H2 H3]]]].
    exists (i', lib'). split; [|split; assumption]. exists olib. split; assumption.
  - (* fontinfo.plist is not written: the info is the default, no guideline, no object libs *)
    apply andb_true_iff in Hi2. destruct Hi2 as [_ Hdf].
    unfold info_is_default in Hdf. apply andb_true_iff in Hdf. destruct Hdf as [Hr Hg].
    apply (irest_dflt_spec S OK) in Hr.
    assert (Hgn : i_guides i = None) by (destruct (i_guides i); [discriminate|reflexivity]).
    assert (He : d_is_empty S ol = true).
    { apply (is_empty_get S OK). intros k. rewrite Hol. unfold guides_of. rewrite Hgn. reflexivity. }
    exists (info_dflt S, lib0_of olib). split; [exists olib; split; [assumption|reflexivity]|].
    simpl. split.
    + split.
      * unfold stripped. simpl. rewrite Hr, Hgn. simpl. apply (peq_refl _ (ok_info S OK)).
      * rewrite Hgn. exact I.
    + unfold libw in Ho2. rewrite He in Ho2. exact Ho2.
Qed.

(* ------------------------------------------------------------------------------------------ *)
(** ** layer set *)

Lemma Forall2_insert_nth {A B} (R : A -> B -> Prop) k a b l r :
  R a b -> Forall2 R l r -> Forall2 R (insert_nth k a l) (insert_nth k b r).
Proof.
  intros Hab F. revert k. induction F; intros [|k]; simpl; repeat constructor; auto.
Qed.
Lemma Forall_insert_nth {A} (P : A -> Prop) k a l : P a -> Forall P l -> Forall P (insert_nth k a l).
Proof.
  intros Ha F. revert k. induction F; intros [|k]; simpl; repeat constructor; auto.
Qed.

Lemma layers_loaded : forall c o (ls : list lay),
  layers_ok S ls ->
  exists lcc dirs,
    enc (P_lc S) o (lc_of S (spec_layer_order S c ls)) = Some lcc /\
    omapM (spec_write_layer S c o) ls = Some dirs /\
    forall t : tree, t_lcontents S t = Some lcc -> t_dirs S t = dirs ->
      exists ls', load_layers S t 3 = Ok ls' /\ Forall2 (layer_eq S) ls ls'.
Proof.
  intros c o ls [Hfirst [ND [HF Hwf]]].
  destruct ls as [|d r]; [tauto|]. destruct Hfirst as [Hd Hr].
  assert (Hwf' : wf (P_lc S) (lc_of S (spec_layer_order S c (d :: r)))).
  { apply (lc_wf S OK). apply (lc_wf S OK) in Hwf. unfold lc_of in *.
    rewrite Forall_map in *. unfold spec_layer_order. inversion Hwf; subst. apply Forall_insert_nth; assumption. }
  destruct (rt _ (ok_lc S OK) o _ Hwf') as [lcc [lc' [H1 [H2 H3]]]].
  apply (lc_exact S OK) in H3. subst lc'.
  destruct (layers_rt c o (d :: r) HF ND) as [dirs [Hw Hl]].
  exists lcc, dirs. split; [exact H1|]. split; [exact Hw|]. intros t Ht1 Ht2.
  destruct (Hl t Ht2) as [ls' HB]. inversion HB as [|? d' ? r' Hdb Hrb]; subst.
  unfold load_layers. rewrite Ht1, H2. simpl.
  assert (Hm : mapM (load_layer S t) (lc_of S (insert_nth (c_default_pos c) d r)) =
               Ok (insert_nth (c_default_pos c) d' r')).
  { apply mapM_Forall2. unfold lc_of. apply Forall2_map_l.
    apply Forall2_insert_nth; [exact (proj1 Hdb)|].
    eapply Forall2_impl_in; [|exact Hrb]. intros a b _ _ [H _]. exact H. }
  rewrite Hm. simpl.
  destruct (find_idx_insert (is_default_dir S) d' r' (c_default_pos c)) as [i [Hi1 Hi2]].
  - unfold is_default_dir. destruct Hdb as [_ [_ [Hdir _]]]. rewrite <- Hdir, Hd. apply str_eqb_refl.
  - apply forallb_forall. intros x Hx. apply negb_true_iff. unfold is_default_dir.
    apply Forall2_flip in Hrb. destruct (Forall2_in_l _ _ _ _ Hrb Hx) as [y [Hy [_ [_ [Hdir _]]]]].
    apply str_eqb_neq. rewrite <- Hdir. rewrite Forall_forall in Hr. apply Hr. exact Hy.
  - rewrite Hi1, Hi2. eexists. split; [reflexivity|]. constructor; [exact (proj2 Hdb)|].
    eapply Forall2_impl_in; [|exact Hrb]. intros a b _ _ [_ H]. exact H.
Qed.


(* ------------------------------------------------------------------------------------------ *)
(** ** the whole font *)

Lemma meta_to_write_v3 : forall m, m_version m = 3 ->
  meta_to_write m = {| m_creator := Some NORAD_CREATOR; m_version := 3; m_minor := m_minor m |}.
Proof.
  intros [cr v mi] Hv. simpl in Hv. subst v. unfold meta_to_write. simpl.
  destruct cr as [x|]; simpl; [|reflexivity].
  destruct (str_eqb x NORAD_CREATOR) eqn:E; [|reflexivity].
  apply list_eqb_N_eq in E. subst. reflexivity.
Qed.

Definition dflt_opt {A} (d : A) (o : option A) : A := match o with Some x => x | None => d end.

Lemma load_v3_intro : forall (t : tree) mc m olib il og ok ls,
  t_meta S t = Some mc -> dec (P_meta S) mc = Some m -> m_version m = 3 ->
  load_opt S (P_lib S) (t_lib S t) 2 = Ok olib ->
  match t_info S t with
  | None => Ok (info_dflt S, lib0_of olib)
  | Some c => load_fontinfo S 3 c (lib0_of olib)
  end = Ok il ->
  load_opt S (P_groups S) (t_groups S t) 3 = Ok og ->
  (forall g, og = Some g -> groups_ok S g = true) ->
  load_opt S (P_kerning S) (t_kerning S t) 4 = Ok ok ->
  load_layers S t 3 = Ok ls ->
  load S t = Ok {| f_meta := {| m_creator := m_creator m; m_version := 3; m_minor := m_minor m |};
                   f_info := fst il; f_lib := snd il;
                   f_groups := dflt_opt (groups_dflt S) og; f_kerning := dflt_opt (kerning_dflt S) ok;
                   f_features := dflt_opt [] (t_features S t); f_layers := ls;
                   f_data := store_loaded (t_data S t); f_images := store_loaded (t_images S t) |}.
Proof.
  intros t mc m olib il og ok ls Hm1 Hm2 Hv Hlib Hil Hg1 Hg2 Hk Hls.
  unfold load. rewrite Hm1, Hm2. cbv zeta. rewrite Hv, Hlib. cbn [bind].
  unfold lib0_of in Hil. rewrite Hil. cbn [bind]. rewrite Hg1. cbn [bind].
  assert (Hgc : match og with
                | Some g => if groups_ok S g then Ok og else Err LInvalidGroups
                | None => Ok None
                end = Ok og).
  { destruct og as [g|]; [rewrite (Hg2 g eq_refl)|]; reflexivity. }
  rewrite Hgc. cbn [bind]. rewrite Hk. cbn [bind]. rewrite Hls. cbn [bind].
  change (3 =? 3) with true. change (3 =? 1) with false. cbn [bind fst snd].
  destruct og, ok; reflexivity.
Qed.

Theorem load_spec_write : forall c o (f : font),
  font_valid S f ->
  exists t, spec_write S c o f = Some t /\ exists f', load S t = Ok f' /\ font_equiv S f f'.
Proof.
  intros c o f [Hv [Hmeta [Hiok [Hiwf [HGF [HGN [Hlwf [Hobj [Hgok [Hgwf [Hkwf Hlay]]]]]]]]]]].
  unfold spec_write.
  (* metainfo *)
  rewrite (meta_to_write_v3 _ Hv) in Hmeta.
  change (n_creator spec_names) with NORAD_CREATOR.
  destruct (rt _ (ok_meta S OK) o _ Hmeta) as [mc [m' [Hm1 [Hm2 Hm3]]]].
  apply (meta_exact S OK) in Hm3. subst m'. rewrite Hm1. cbn [obind].
  (* font info and lib *)
  destruct (lib_info_rt (c_info c) (c_lib c) o (f_info S f) (f_lib S f)) as
    [ic [ol [lbc [Hi1 [Ho1 [_ [Hl1 [_ [_ [_ [il [[olib [Hlo Hil]] [Hieq Hleq]]]]]]]]]]]]]; auto.
  { repeat split; assumption. }
  rewrite Hi1. cbn [obind]. rewrite Ho1. cbn [obind]. change SPEC_OBJ with OBJ.
  cbv zeta in Hl1. rewrite Hl1. cbn [obind].
  (* groups, kerning *)
  destruct (spec_opt_rt (P_groups S) (ok_groups S OK) o
              (negb (c_groups c) && groups_is_empty S (f_groups S f)) (f_groups S f) Hgwf) as [gc [Hg1 Hg2]].
  rewrite Hg1. cbn [obind].
  destruct (spec_opt_rt (P_kerning S) (ok_kerning S OK) o
              (negb (c_kerning c) && kerning_is_empty S (f_kerning S f)) (f_kerning S f) Hkwf) as [kc [Hk1 Hk2]].
  rewrite Hk1. cbn [obind].
  (* layers *)
  destruct (layers_loaded c o (f_layers S f) Hlay) as [lcc [dirs [Hc1 [Hc2 Hc3]]]].
  rewrite Hc1. cbn [obind]. rewrite Hc2. cbn [obind].
  eexists. split; [reflexivity|].
  match goal with |- exists f', load S ?tt = _ /\ _ => set (t := tt) end.
  destruct (Hc3 t eq_refl eq_refl) as [ls' [Hls1 Hls2]].
  assert (Hgl : exists og, load_opt S (P_groups S) gc 3 = Ok og /\
                           (forall g, og = Some g -> groups_ok S g = true) /\
                           peq (P_groups S) (f_groups S f) (dflt_opt (groups_dflt S) og)).
  { destruct gc as [x|].
    - destruct Hg2 as [g' [H1 H2]]. exists (Some g'). simpl. rewrite H1. split; [reflexivity|]. split; [|exact H2].
      intros g Hg. inversion Hg; subst. rewrite <- (groups_ok_eq S OK _ _ H2). exact Hgok.
    - exists None. split; [reflexivity|]. split; [discriminate|]. simpl.
      apply (groups_empty_spec S OK). apply andb_true_iff in Hg2. tauto. }
  destruct Hgl as [og [Hgl1 [Hgl2 Hgl3]]].
  assert (Hkl : exists ok, load_opt S (P_kerning S) kc 4 = Ok ok /\
                           peq (P_kerning S) (f_kerning S f) (dflt_opt (kerning_dflt S) ok)).
  { destruct kc as [x|].
    - destruct Hk2 as [k' [H1 H2]]. exists (Some k'). simpl. rewrite H1. split; [reflexivity|exact H2].
    - exists None. split; [reflexivity|]. simpl.
      apply (kerning_empty_spec S OK). apply andb_true_iff in Hk2. tauto. }
  destruct Hkl as [ok [Hkl1 Hkl2]].
  eexists. split.
  - eapply (load_v3_intro t mc _ olib il og ok ls'); try eassumption; try reflexivity.
  - (* equivalence *)
    unfold font_equiv. cbn [f_meta f_info f_lib f_groups f_kerning f_features f_layers f_data f_images
                             m_version m_minor].
    split; [exact Hv|]. split; [reflexivity|]. split; [exact Hieq|]. split; [exact Hleq|].
    split; [exact Hgl3|]. split; [exact Hkl2|].
    split.
    { subst t. cbn [t_features]. destruct (f_features S f) as [|x r] eqn:Ef; cbn [is_nil andb].
      - destruct (c_features c); cbn [negb dflt_opt]; [destruct (c_norm_crlf c); reflexivity|reflexivity].
      - cbn [dflt_opt]. destruct (c_norm_crlf c); [apply feq_features_to_write|apply feq_refl]. }
    split; [exact Hls2|].
    subst t. cbn [t_data t_images]. unfold spec_store, store_loaded.
    split.
    + destruct (f_data S f); cbn [is_nil andb]; [destruct (c_data c)|]; reflexivity.
    + destruct (f_images S f); cbn [is_nil andb]; [destruct (c_images c)|]; reflexivity.
Qed.


(* ------------------------------------------------------------------------------------------ *)
(** ** norad's writer is the specification writer with norad's choices *)

Lemma write_opt_spec {X} (p : part content opts X) o skip x file :
  write_opt S p o skip x file =
  match spec_opt S p o skip x with Some oc => Ok oc | None => Err (SWrite file) end.
Proof. unfold write_opt, spec_opt. destruct skip; [reflexivity|]. destruct (enc p o x); reflexivity. Qed.

Lemma save_glyphs_spec : forall o (gl : list (str * str * T_glyph S)) glifs,
  omapM (fun e : str * str * T_glyph S =>
           option_map (fun gc => (snd (fst e), gc)) (enc (P_glif S) o (snd e))) gl = Some glifs ->
  mapM (save_glyph S o) gl = Ok glifs.
Proof.
  intros o gl glifs H. apply mapM_Forall2. apply omapM_Forall2 in H.
  eapply Forall2_impl_in; [|exact H]. intros e b _ _ He. cbv beta in He. unfold save_glyph. revert He.
  destruct (enc (P_glif S) o (snd e)); simpl; intros He; [inversion He; reflexivity|discriminate].
Qed.

Lemma save_layer_spec : forall o (l : lay) b,
  spec_write_layer S norad_choices o l = Some b -> save_layer S o l = Ok b.
Proof.
  intros o l b H. unfold spec_write_layer in H. unfold save_layer.
  rewrite !write_opt_spec. unfold spec_opt at 1. cbn [c_layerinfo c_layerlib norad_choices negb andb] in H.
  destruct (enc (P_contents S) o (contents_of S l)) as [cc|]; [|discriminate]. cbn [obind option_map bind] in *.
  rewrite andb_true_r in H. unfold layerinfo_skipped, layerinfo_value.
  destruct (spec_opt S (P_li S) o (is_none (l_color l) && d_is_empty S (l_lib l))
              (l_color l, if d_is_empty S (l_lib l) then None else Some (l_lib l))) as [lic|];
    [|discriminate]. cbn [obind bind] in *.
  destruct (omapM _ (l_glyphs l)) as [glifs|] eqn:Eg; [|discriminate]. cbn [obind] in H.
  rewrite (save_glyphs_spec _ _ _ Eg). cbn [bind]. inversion H; reflexivity.
Qed.

Lemma save_layers_spec : forall o (ls : list lay) dirs,
  omapM (spec_write_layer S norad_choices o) ls = Some dirs -> mapM (save_layer S o) ls = Ok dirs.
Proof.
  intros o ls dirs H. apply mapM_Forall2. apply omapM_Forall2 in H.
  eapply Forall2_impl_in; [|exact H]. intros l b _ _ Hl. apply save_layer_spec. exact Hl.
Qed.

Theorem save_is_spec_write : forall o (f : font) t,
  font_valid S f -> spec_write S norad_choices o f = Some t -> save S o f = Ok t.
Proof.
  intros o f t [Hv [Hmeta [Hiok [Hiwf [HGF [HGN [Hlwf [Hobj [Hgok [Hgwf [Hkwf Hlay]]]]]]]]]]] H.
  unfold save. rewrite Hv. change (3 =? 3) with true. cbn [negb].
  unfold d_mem. rewrite Hobj. cbn [is_none negb]. rewrite Hgok, Hiok. cbn [negb].
  unfold spec_write in H. rewrite !write_opt_spec.
  rewrite (meta_to_write_v3 _ Hv). change (n_creator spec_names) with NORAD_CREATOR in H.
  unfold spec_opt at 1. cbn [c_info c_lib c_groups c_kerning c_features c_data c_images c_norm_crlf
                               c_default_pos norad_choices negb andb] in H.
  destruct (enc (P_meta S) o _) as [mc|]; [|discriminate]. cbn [obind option_map bind] in *.
  destruct (spec_opt S (P_info S) o (info_is_default S (f_info S f)) (stripped S (f_info S f))) as [ic|];
    [|discriminate]. cbn [obind bind] in *.
  unfold lib_to_write.
  destruct (spec_object_libs S (guides_of S (f_info S f)) (d_empty S)) as [ol|] eqn:Eol; [|discriminate].
  apply spec_object_libs_dump in Eol. rewrite Eol. cbn [obind bind] in *. change SPEC_OBJ with OBJ in H.
  rewrite write_opt_spec.
  destruct (spec_opt S (P_lib S) o _ _) as [lbc|]; [|discriminate]. cbn [obind bind] in *.
  destruct (spec_opt S (P_groups S) o _ _) as [gc|]; [|discriminate]. cbn [obind bind] in *.
  destruct (spec_opt S (P_kerning S) o _ _) as [kc|]; [|discriminate]. cbn [obind bind] in *.
  unfold spec_layer_order in H. destruct (f_layers S f) as [|d r] eqn:El; [destruct Hlay as [[] _]|].
  change (insert_nth (c_default_pos norad_choices) d r) with (d :: r) in H. unfold spec_opt.
  destruct (enc (P_lc S) o (lc_of S (d :: r))) as [lcc|]; [|discriminate]. cbn [obind option_map bind] in *.
  destruct (omapM (spec_write_layer S norad_choices o) (d :: r)) as [dirs|] eqn:Ed; [|discriminate].
  rewrite (save_layers_spec _ _ _ Ed). cbn [obind bind] in *.
  inversion H. unfold spec_store, store_to_write. rewrite !andb_true_r. reflexivity.
Qed.

(** C01: save then load, for every valid font and every option *)
Theorem save_load_roundtrip : forall o (f : font),
  font_valid S f ->
  exists t, save S o f = Ok t /\ spec_write S norad_choices o f = Some t /\
            exists f', load S t = Ok f' /\ font_equiv S f f'.
Proof.
  intros o f Hv. destruct (load_spec_write norad_choices o f Hv) as [t [H1 H2]].
  exists t. split; [apply save_is_spec_write; assumption|]. split; assumption.
Qed.

End Proofs.
