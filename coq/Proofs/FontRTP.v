(** Proofs about the font-level model (Model/FontRT.v). *)
Require Import Norad.Model.Base Norad.Model.FontRT.
Open Scope N_scope.

(* ------------------------------------------------------------------------------------------ *)
(** * Generic lemmas *)

Lemma list_eqb_N_eq : forall a b : str, str_eqb a b = true <-> a = b.
Proof.
  unfold str_eqb. induction a as [|x a IH]; intros [|y b]; simpl; split; intros H;
    try reflexivity; try discriminate.
  - apply andb_true_iff in H. destruct H as [H1 H2]. apply N.eqb_eq in H1. apply IH in H2. congruence.
  - inversion H; subst. apply andb_true_iff. split; [apply N.eqb_refl|apply IH; reflexivity].
Qed.
Lemma str_eqb_refl : forall a, str_eqb a a = true.
Proof. intros. apply list_eqb_N_eq. reflexivity. Qed.
Lemma str_eqb_neq : forall a b, a <> b -> str_eqb a b = false.
Proof. intros a b H. destruct (str_eqb a b) eqn:E; [apply list_eqb_N_eq in E; contradiction|reflexivity]. Qed.
Lemma str_eqb_false : forall a b, str_eqb a b = false -> a <> b.
Proof. intros a b H E. subst. rewrite str_eqb_refl in H. discriminate. Qed.
Lemma str_eqb_sym : forall a b, str_eqb a b = str_eqb b a.
Proof.
  intros. destruct (str_eqb a b) eqn:E.
  - apply list_eqb_N_eq in E. subst. symmetry. apply str_eqb_refl.
  - symmetry. apply str_eqb_neq. intros H. subst. rewrite str_eqb_refl in E. discriminate.
Qed.

Lemma memb_in : forall x l, memb x l = true <-> In x l.
Proof.
  intros x l. unfold memb. rewrite existsb_exists. split.
  - intros [y [Hy E]]. apply list_eqb_N_eq in E. subst. exact Hy.
  - intros H. exists x. split; [exact H|apply str_eqb_refl].
Qed.
Lemma memb_not_in : forall x l, memb x l = false <-> ~ In x l.
Proof.
  intros x l. rewrite <- memb_in. destruct (memb x l); split; intros; congruence.
Qed.
Lemma nodupb_iff : forall l, nodupb l = true <-> NoDup l.
Proof.
  induction l as [|x r IH]; simpl; split; intros H; try constructor; try reflexivity.
  - apply andb_true_iff in H. destruct H as [H1 H2]. apply negb_true_iff in H1. apply memb_not_in. exact H1.
  - apply andb_true_iff in H. apply IH. tauto.
  - inversion H; subst. apply andb_true_iff. split; [apply negb_true_iff; apply memb_not_in; assumption|apply IH; assumption].
Qed.

Lemma orel_refl {A} (R : A -> A -> Prop) : (forall x, R x x) -> forall o, orel R o o.
Proof. intros H [x|]; simpl; auto. Qed.
Lemma orel_sym {A} (R : A -> A -> Prop) : (forall x y, R x y -> R y x) -> forall a b, orel R a b -> orel R b a.
Proof. intros H [x|] [y|]; simpl; auto. Qed.
Lemma orel_trans {A} (R : A -> A -> Prop) :
  (forall x y z, R x y -> R y z -> R x z) -> forall a b c, orel R a b -> orel R b c -> orel R a c.
Proof. intros H [x|] [y|] [z|]; simpl; eauto; tauto. Qed.
Lemma orel_some_l {A} (R : A -> A -> Prop) x o : orel R (Some x) o -> exists y, o = Some y /\ R x y.
Proof. destruct o; simpl; [eauto|tauto]. Qed.
Lemma orel_none_l {A} (R : A -> A -> Prop) o : orel R None o -> o = None.
Proof. destruct o; simpl; [tauto|auto]. Qed.

Lemma alookup_in {V} k (v : V) l : NoDup (map fst l) -> In (k, v) l -> alookup k l = Some v.
Proof.
  induction l as [|[k' v'] l IH]; simpl; intros ND HI; [tauto|].
  inversion ND as [|? ? Hn ND']; subst. destruct HI as [E|HI].
  - inversion E; subst. rewrite str_eqb_refl. reflexivity.
  - rewrite str_eqb_neq; [auto|]. intros ->. apply Hn. apply (in_map fst) in HI. exact HI.
Qed.

Lemma mapM_ok_length {A B E} (f : A -> result B E) l r : mapM f l = Ok r -> List.length r = List.length l.
Proof.
  revert r. induction l as [|a l IH]; simpl; intros r H; [inversion H; reflexivity|].
  destruct (f a); simpl in H; try discriminate. destruct (mapM f l); simpl in H; try discriminate.
  inversion H; subst. simpl. f_equal. auto.
Qed.

Lemma mapM_Forall2 {A B E} (f : A -> result B E) l r :
  mapM f l = Ok r <-> Forall2 (fun a b => f a = Ok b) l r.
Proof.
  revert r. induction l as [|a l IH]; simpl; intros r; split; intros H.
  - inversion H. constructor.
  - inversion H. reflexivity.
  - destruct (f a) eqn:Ea; simpl in H; try discriminate.
    destruct (mapM f l) eqn:El; simpl in H; try discriminate. inversion H; subst.
    constructor; [assumption|]. apply IH. reflexivity.
  - inversion H as [|? b ? r' Hf Hr]; subst. rewrite Hf. simpl.
    apply IH in Hr. rewrite Hr. reflexivity.
Qed.

Lemma omapM_Forall2 {A B} (f : A -> option B) l r :
  omapM f l = Some r <-> Forall2 (fun a b => f a = Some b) l r.
Proof.
  revert r. induction l as [|a l IH]; simpl; intros r; split; intros H.
  - inversion H. constructor.
  - inversion H. reflexivity.
  - destruct (f a) eqn:Ea; simpl in H; try discriminate.
    destruct (omapM f l) eqn:El; simpl in H; try discriminate. inversion H; subst.
    constructor; [assumption|]. apply IH. reflexivity.
  - inversion H as [|? b ? r' Hf Hr]; subst. rewrite Hf. simpl.
    apply IH in Hr. rewrite Hr. reflexivity.
Qed.

Lemma Forall2_map_l {A B C} (R : B -> C -> Prop) (f : A -> B) l r :
  Forall2 R (map f l) r <-> Forall2 (fun a c => R (f a) c) l r.
Proof.
  revert r. induction l as [|a l IH]; simpl; intros r; split; intros H; inversion H; subst;
    constructor; auto; apply IH; auto.
Qed.
Lemma Forall2_map_r {A B C} (R : A -> C -> Prop) (f : B -> C) l r :
  Forall2 R l (map f r) <-> Forall2 (fun a b => R a (f b)) l r.
Proof.
  revert r. induction l as [|a l IH]; intros [|b r]; simpl; split; intros H; inversion H; subst;
    constructor; auto; apply IH; auto.
Qed.
Lemma Forall2_impl_in {A B} (R Q : A -> B -> Prop) l r :
  (forall a b, In a l -> In b r -> R a b -> Q a b) -> Forall2 R l r -> Forall2 Q l r.
Proof.
  intros H F. induction F; constructor.
  - apply H; simpl; auto.
  - apply IHF. intros; apply H; simpl; auto.
Qed.
Lemma Forall2_refl_in {A} (R : A -> A -> Prop) l : (forall a, In a l -> R a a) -> Forall2 R l l.
Proof. induction l; constructor; [apply H; simpl; auto|apply IHl; intros; apply H; simpl; auto]. Qed.
Lemma Forall2_eq {A} (l r : list A) : Forall2 eq l r <-> l = r.
Proof.
  split; [induction 1; congruence|intros ->; induction r; constructor; auto].
Qed.
Lemma Forall2_trans' {A B C} (R : A -> B -> Prop) (Q : B -> C -> Prop) (P : A -> C -> Prop) l m r :
  (forall a b c, R a b -> Q b c -> P a c) -> Forall2 R l m -> Forall2 Q m r -> Forall2 P l r.
Proof.
  intros H F. revert r. induction F; intros r G; inversion G; subst; constructor; eauto.
Qed.
Lemma Forall2_flip {A B} (R : A -> B -> Prop) l r : Forall2 R l r -> Forall2 (fun b a => R a b) r l.
Proof. induction 1; constructor; auto. Qed.

(** ** moving the default layer *)
Lemma find_idx_first {A} (p : A -> bool) a l : p a = true -> find_idx p (a :: l) = Some O.
Proof. intros H. simpl. rewrite H. reflexivity. Qed.

Lemma find_idx_insert {A} (p : A -> bool) d r k :
  p d = true -> forallb (fun x => negb (p x)) r = true ->
  exists i, find_idx p (insert_nth k d r) = Some i /\ move_to_front i (insert_nth k d r) = d :: r.
Proof.
  intros Hd. revert k. induction r as [|y r IH]; intros k Hr.
  - destruct k; simpl; rewrite Hd; exists O; split; reflexivity.
  - simpl in Hr. apply andb_true_iff in Hr. destruct Hr as [Hy Hr].
    destruct k as [|k].
    + simpl. rewrite Hd. exists O. split; reflexivity.
    + simpl. apply negb_true_iff in Hy. rewrite Hy.
      destruct (IH k Hr) as [i [Hi Hm]]. rewrite Hi. simpl. exists (S i). split; [reflexivity|].
      unfold move_to_front in *. simpl.
      destruct (nth_error (insert_nth k d r) i) eqn:En; [|].
      * injection Hm as Ha Hb. rewrite Ha, Hb. reflexivity.
      * (* impossible: find_idx returned i *)
        exfalso. clear -Hi En. revert i Hi En. generalize (insert_nth k d r) as l.
        induction l as [|a l IHl]; intros i Hi En; simpl in Hi; [discriminate|].
        destruct (p a); [inversion Hi; subst; simpl in En; discriminate|].
        destruct (find_idx p l) eqn:Ef; simpl in Hi; [|discriminate]. inversion Hi; subst.
        simpl in En. eapply IHl; eauto.
Qed.

Lemma filter_none {A} (p : A -> bool) l : forallb (fun x => negb (p x)) l = true -> filter p l = [].
Proof.
  induction l as [|a l IH]; simpl; intros H; [reflexivity|]. apply andb_true_iff in H. destruct H as [Ha H].
  apply negb_true_iff in Ha. rewrite Ha. auto.
Qed.
Lemma filter_all {A} (p : A -> bool) l : forallb p l = true -> filter p l = l.
Proof.
  induction l as [|a l IH]; simpl; intros H; [reflexivity|]. apply andb_true_iff in H. destruct H as [Ha H].
  rewrite Ha. f_equal. auto.
Qed.

Lemma find_idx_nth {A} (p : A -> bool) l i :
  find_idx p l = Some i -> exists a, nth_error l i = Some a /\ p a = true.
Proof.
  revert i. induction l as [|a l IH]; simpl; intros i H; [discriminate|].
  destruct (p a) eqn:Ea.
  - inversion H; subst. exists a. auto.
  - destruct (find_idx p l) as [i'|]; simpl in H; [|discriminate]. inversion H; subst. simpl. auto.
Qed.

(** when no other element satisfies [p], moving the first [p]-element to the front is
    "the [p]-element, then the others in order" *)
Lemma move_front_filter {A} (p : A -> bool) l i :
  find_idx p l = Some i -> forallb (fun x => negb (p x)) (remove_nth i l) = true ->
  exists d, move_to_front i l = d :: remove_nth i l /\ filter p l = [d] /\
            filter (fun x => negb (p x)) l = remove_nth i l.
Proof.
  revert i. induction l as [|a l IH]; simpl; intros i Hf Hr; [discriminate|].
  destruct (p a) eqn:Ea.
  - inversion Hf; subst i. simpl in *. exists a. unfold move_to_front. simpl.
    split; [reflexivity|]. rewrite (filter_none p l Hr). split; [reflexivity|].
    apply filter_all. exact Hr.
  - destruct (find_idx p l) as [i'|] eqn:Ei; simpl in Hf; [|discriminate]. inversion Hf; subst i.
    simpl in Hr. rewrite Ea in Hr. simpl in Hr.
    destruct (IH i' eq_refl Hr) as [d [H1 [H2 H3]]]. exists d. unfold move_to_front in *. simpl.
    destruct (find_idx_nth p l i' Ei) as [x [Hx _]]. rewrite Hx in *.
    inversion H1; subst. split; [reflexivity|]. split; [exact H2|]. rewrite H3. reflexivity.
Qed.

Lemma in_remove_nth {A} i (l : list A) x : In x (remove_nth i l) -> In x l.
Proof.
  revert i. induction l as [|b l IH]; intros i H; [destruct i; simpl in H; tauto|].
  destruct i; simpl in H |- *; [auto|]. destruct H as [->|H]; [auto|]. right. eapply IH; eauto.
Qed.
Lemma NoDup_remove_nth {A B} (f : A -> B) i l d :
  NoDup (map f l) -> nth_error l i = Some d ->
  NoDup (map f (d :: remove_nth i l)) /\ (forall x, In x (remove_nth i l) -> f x <> f d).
Proof.
  revert i. induction l as [|a l IH]; intros i ND Hn; [destruct i; discriminate|].
  simpl in ND. inversion ND as [|? ? Hna ND']; subst. destruct i as [|i]; simpl in Hn.
  - inversion Hn; subst a. simpl. split; [constructor; assumption|].
    intros x Hx E. apply Hna. rewrite <- E. apply in_map. exact Hx.
  - destruct (IH i ND' Hn) as [H1 H2]. simpl in H1. inversion H1 as [|? ? Hnd H1']; subst. simpl. split.
    + constructor.
      * simpl. intros [E|HI]; [|contradiction].
        apply Hna. rewrite E. apply in_map. eapply nth_error_In; eauto.
      * constructor; [|exact H1']. intros HI. apply Hna.
        apply in_map_iff in HI. destruct HI as [x [Ex Hx]]. rewrite <- Ex. apply in_map.
        eapply in_remove_nth; eauto.
    + intros x [->|Hx]; [|auto]. intros E. apply Hna. rewrite E. apply in_map. eapply nth_error_In; eauto.
Qed.

Lemma in_insert_nth {A} k (d : A) r x : In x (insert_nth k d r) -> x = d \/ In x r.
Proof.
  revert k. induction r as [|y r IH]; intros k H.
  - destruct k; simpl in H; destruct H as [H|[]]; auto.
  - destruct k as [|k]; simpl in H.
    + destruct H as [H|H]; auto.
    + destruct H as [H|H]; [right; left; exact H|]. destruct (IH k H) as [E|E]; [auto|right; right; exact E].
Qed.
Lemma NoDup_map_insert_nth {A B} (f : A -> B) k d r :
  NoDup (map f (d :: r)) -> NoDup (map f (insert_nth k d r)).
Proof.
  revert k. induction r as [|y r IH]; intros k H.
  - destruct k; exact H.
  - destruct k as [|k]; [exact H|]. simpl in *.
    inversion H as [|? ? Hd H']; subst. inversion H' as [|? ? Hy H'']; subst.
    constructor.
    + intros HI. apply in_map_iff in HI. destruct HI as [x [Ex Hx]].
      destruct (in_insert_nth _ _ _ _ Hx) as [->|Hr].
      * apply Hd. left. congruence.
      * apply Hy. rewrite <- Ex. apply in_map. exact Hr.
    + apply IH. constructor; [|exact H'']. intros HI. apply Hd. right. exact HI.
Qed.

(* ------------------------------------------------------------------------------------------ *)
(** * Feature text *)

Lemma replace_crlf_nocr_aux : forall n t, (List.length t <= n)%nat -> has_cr t = false -> replace_crlf t = t.
Proof.
  unfold has_cr. induction n as [|n IH]; intros t Hl H.
  - destruct t; [reflexivity|simpl in Hl; lia].
  - destruct t as [|c [|d r]]; try reflexivity.
    cbn [existsb] in H. apply orb_false_iff in H. destruct H as [Hc H].
    change (replace_crlf (c :: d :: r)) with
      (if (c =? CR) && (d =? LF) then LF :: replace_crlf r else c :: replace_crlf (d :: r)).
    rewrite N.eqb_sym in Hc. rewrite Hc. cbn [andb]. f_equal. apply IH; [simpl in Hl |- *; lia|exact H].
Qed.
Lemma replace_crlf_nocr : forall t, has_cr t = false -> replace_crlf t = t.
Proof. intros t. apply (replace_crlf_nocr_aux (List.length t)). lia. Qed.

Lemma features_to_write_eq : forall t, features_to_write t = replace_crlf t.
Proof.
  intros t. unfold features_to_write. destruct (has_cr t) eqn:E; [reflexivity|].
  symmetry. apply replace_crlf_nocr. exact E.
Qed.

Lemma crlf_norm_replace_aux : forall n t, (List.length t <= n)%nat -> crlf_norm (replace_crlf t) = crlf_norm t.
Proof.
  induction n as [|n IH]; intros t Hl.
  - destruct t; [reflexivity|simpl in Hl; lia].
  - destruct t as [|c [|d r]]; try reflexivity.
    change (replace_crlf (c :: d :: r)) with
      (if (c =? CR) && (d =? LF) then LF :: replace_crlf r else c :: replace_crlf (d :: r)).
    destruct ((c =? CR) && (d =? LF)) eqn:E.
    + apply andb_true_iff in E. destruct E as [Ec Ed]. apply N.eqb_eq in Ec, Ed. subst c d.
      assert (Hr : crlf_norm (replace_crlf r) = crlf_norm r) by (apply IH; simpl in Hl; lia).
      change (crlf_norm (LF :: replace_crlf r)) with
        (let r' := crlf_norm (replace_crlf r) in if (LF =? CR) && starts_lf r' then r' else LF :: r').
      change (crlf_norm (CR :: LF :: r)) with
        (let r' := crlf_norm (LF :: r) in if (CR =? CR) && starts_lf r' then r' else CR :: r').
      change (crlf_norm (LF :: r)) with
        (let r' := crlf_norm r in if (LF =? CR) && starts_lf r' then r' else LF :: r').
      cbv zeta. rewrite Hr. change (LF =? CR) with false. change (CR =? CR) with true.
      cbn [andb]. cbn [starts_lf]. change (LF =? LF) with true. reflexivity.
    + assert (Hr : crlf_norm (replace_crlf (d :: r)) = crlf_norm (d :: r)) by (apply IH; simpl in Hl |- *; lia).
      change (crlf_norm (c :: replace_crlf (d :: r))) with
        (let r' := crlf_norm (replace_crlf (d :: r)) in if (c =? CR) && starts_lf r' then r' else c :: r').
      cbv zeta. rewrite Hr. reflexivity.
Qed.

Lemma crlf_norm_replace : forall t, crlf_norm (replace_crlf t) = crlf_norm t.
Proof. intros t. apply (crlf_norm_replace_aux (List.length t)). lia. Qed.

Lemma feq_features_to_write : forall t, feq t (features_to_write t).
Proof. intros t. unfold feq. rewrite features_to_write_eq, crlf_norm_replace. reflexivity. Qed.

Lemma feq_refl : forall t, feq t t. Proof. reflexivity. Qed.
Lemma feq_sym : forall a b, feq a b -> feq b a. Proof. unfold feq; auto. Qed.
Lemma feq_trans : forall a b c, feq a b -> feq b c -> feq a c. Proof. unfold feq; congruence. Qed.

(** one application of the writer's replacement is not idempotent, the normal form is *)
Lemma replace_crlf_not_idempotent :
  replace_crlf (replace_crlf [CR; CR; LF]) <> replace_crlf [CR; CR; LF].
Proof. vm_compute. discriminate. Qed.

(* ------------------------------------------------------------------------------------------ *)
(** * Lemmas under the laws of the signature *)

Section Proofs.
Variable S : sig.
Hypothesis OK : sig_ok S.
Local Notation content := (T_content S).
Local Notation opts := (T_opts S).
Local Notation dict := (T_dict S).
Local Notation pv := (T_pv S).
Local Notation guide := (guideline (T_gbody S) (T_dict S)).
Local Notation info := (finfo (T_irest S) (T_gbody S) (T_dict S)).
Local Notation lay := (layer (T_color S) (T_dict S) (T_glyph S)).
Local Notation font := (font S).
Local Notation tree := (tree S).

(** the pre-filter loop of LayerContents::load accepts exactly: distinct names, distinct
    directories, public.default only in glyphs *)
Definition reserved_ok (e : str * str) : Prop := fst e = DEFAULT_LAYER_NAME -> snd e = GLYPHS.
Lemma lc_precheck_none : forall lc sn sd,
  lc_precheck S sn sd lc = None <->
  (NoDup (map fst lc) /\ (forall n, In n (map fst lc) -> ~ In n sn)) /\
  (NoDup (map (fun e => lower S (snd e)) lc) /\ (forall d, In d (map (fun e => lower S (snd e)) lc) -> ~ In d sd)) /\ Forall reserved_ok lc.
Proof.
  induction lc as [|e r IH]; intros sn sd; simpl.
  - split; [intros _|reflexivity]. repeat split; try constructor; intros ? [].
  - destruct (memb (fst e) sn) eqn:E1.
    { split; [discriminate|]. intros [[_ H] _]. apply memb_in in E1. exfalso. apply (H (fst e)); auto. }
    destruct (memb (lower S (snd e)) sd) eqn:E2.
    { split; [discriminate|]. intros [_ [[_ H] _]]. apply memb_in in E2. exfalso. apply (H (lower S (snd e))); auto. }
    apply memb_not_in in E1. apply memb_not_in in E2.
    destruct (str_eqb (fst e) DEFAULT_LAYER_NAME && negb (str_eqb (snd e) GLYPHS)) eqn:E3.
    { split; [discriminate|]. intros [_ [_ H]]. inversion H as [|? ? Hr _]; subst.
      apply andb_true_iff in E3. destruct E3 as [A B]. apply list_eqb_N_eq in A. apply negb_true_iff in B.
      apply str_eqb_false in B. exfalso. apply B. apply Hr. exact A. }
    rewrite IH. clear IH.
    assert (Hres : reserved_ok e).
    { intros A. apply andb_false_iff in E3. destruct E3 as [B|B].
      - apply str_eqb_false in B. contradiction.
      - apply negb_false_iff in B. apply list_eqb_N_eq in B. exact B. }
    split.
    + intros [[N1 D1] [[N2 D2] F]]. split; [|split].
      * split; [constructor; [intros HI; apply (D1 _ HI); left; reflexivity|exact N1]|].
        intros n [<-|HI]; [exact E1|]. intros Hn. apply (D1 n HI). right. exact Hn.
      * split; [constructor; [intros HI; apply (D2 _ HI); left; reflexivity|exact N2]|].
        intros n [<-|HI]; [exact E2|]. intros Hn. apply (D2 n HI). right. exact Hn.
      * constructor; assumption.
    + intros [[N1 D1] [[N2 D2] F]]. inversion N1; subst. inversion N2; subst. inversion F; subst.
      split; [|split].
      * split; [assumption|]. intros n HI [<-|Hn]; [contradiction|]. apply (D1 n); [right; exact HI|exact Hn].
      * split; [assumption|]. intros n HI [<-|Hn]; [contradiction|]. apply (D2 n); [right; exact HI|exact Hn].
      * assumption.
Qed.


(** ** dictionaries *)
Lemma deq_refl : forall d, deq S d d.
Proof. intros d. apply (deq_get S OK). intros k. apply orel_refl. apply (veq_refl S OK). Qed.
Lemma deq_sym : forall a b, deq S a b -> deq S b a.
Proof.
  intros a b H. apply (deq_get S OK). intros k. apply orel_sym; [apply (veq_sym S OK)|].
  apply (deq_get S OK). exact H.
Qed.
Lemma deq_trans : forall a b c, deq S a b -> deq S b c -> deq S a c.
Proof.
  intros a b c H1 H2. apply (deq_get S OK). intros k.
  eapply orel_trans; [apply (veq_trans S OK)| |]; apply (deq_get S OK); eassumption.
Qed.
Lemma deq_empty : forall d, d_is_empty S d = true -> deq S d (d_empty S).
Proof.
  intros d H. apply (deq_get S OK). intros k. rewrite (get_empty S OK).
  apply (is_empty_get S OK) with (k := k) in H. rewrite H. exact I.
Qed.
Lemma deq_is_empty : forall a b, deq S a b -> d_is_empty S a = true -> d_is_empty S b = true.
Proof.
  intros a b H E. apply (is_empty_get S OK). intros k.
  apply (deq_get S OK) with (k := k) in H. apply (is_empty_get S OK) with (k := k) in E.
  rewrite E in H. apply orel_none_l in H. exact H.
Qed.
Lemma wf_dict_empty : wf_dict S (d_empty S).
Proof. intros k v H. rewrite (get_empty S OK) in H. discriminate. Qed.
Lemma wf_dict_set : forall k v d, wf_key S k -> wf_pv S v -> wf_dict S d -> wf_dict S (d_set S k v d).
Proof.
  intros k v d Hk Hv Hd k' v' H. rewrite (get_set S OK) in H.
  destruct (str_eqb k' k) eqn:E.
  - apply list_eqb_N_eq in E. subst. inversion H; subst. auto.
  - apply Hd. exact H.
Qed.
Lemma wf_dict_del : forall k d, wf_dict S d -> wf_dict S (d_del S k d).
Proof.
  intros k d Hd k' v' H. rewrite (get_del S OK) in H. destruct (str_eqb k' k); [discriminate|].
  apply Hd. exact H.
Qed.

Lemma remove_key_absent : forall k d, d_get S k d = None -> remove_key S k d = d.
Proof. intros k d H. unfold remove_key, d_mem. rewrite H. reflexivity. Qed.
Lemma get_remove_key : forall k d, d_get S k (remove_key S k d) = None.
Proof.
  intros k d. unfold remove_key, d_mem. destruct (d_get S k d) eqn:E; simpl.
  - rewrite (get_del S OK), str_eqb_refl. reflexivity.
  - exact E.
Qed.
Lemma wf_dict_remove_key : forall k d, wf_dict S d -> wf_dict S (remove_key S k d).
Proof. intros k d H. unfold remove_key. destruct (d_mem S k d); [apply wf_dict_del|]; exact H. Qed.

(** ** object libs of the font-info guidelines *)
Fixpoint olookup (k : str) (gs : list guide) : option dict :=
  match gs with
  | [] => None
  | g :: r => match g_id g, g_lib g with
              | Some id, Some l => if str_eqb k id then Some l else olookup k r
              | _, _ => olookup k r
              end
  end.

Lemma olookup_in_ids : forall k gs l, olookup k gs = Some l -> In k (some_ids (map g_id gs)).
Proof.
  induction gs as [|g r IH]; simpl; intros l H; [discriminate|].
  destruct (g_id g) as [id|]; simpl.
  - destruct (g_lib g).
    + destruct (str_eqb k id) eqn:E.
      * apply list_eqb_N_eq in E. left. congruence.
      * right. eauto.
    + right. eauto.
  - eauto.
Qed.

Lemma olookup_unique : forall gs g id,
  NoDup (some_ids (map g_id gs)) -> In g gs -> g_id g = Some id -> olookup id gs = g_lib g.
Proof.
  induction gs as [|g0 r IH]; simpl; intros g id ND HI Hid; [tauto|].
  destruct HI as [->|HI].
  - rewrite Hid in *. simpl in ND. inversion ND as [|? ? Hn ND']; subst.
    destruct (g_lib g) eqn:El.
    + rewrite str_eqb_refl. reflexivity.
    + destruct (olookup id r) eqn:Eo; [|reflexivity]. apply olookup_in_ids in Eo. contradiction.
  - destruct (g_id g0) as [id0|] eqn:E0; simpl in ND.
    + inversion ND as [|? ? Hn ND']; subst.
      assert (id <> id0).
      { intros ->. apply Hn. clear -HI Hid. induction r as [|x r IHr]; simpl in *; [tauto|].
        destruct HI as [->|HI]; [rewrite Hid; simpl; auto|].
        destruct (g_id x); simpl; auto. }
      destruct (g_lib g0); [rewrite str_eqb_neq by assumption|]; apply IH; auto.
    + apply IH; auto.
Qed.

Lemma dump_ok : forall gs acc,
  Forall (guide_ok S) gs -> NoDup (some_ids (map g_id gs)) ->
  exists ol, dump_object_libs S gs acc = Ok ol /\
             forall k, d_get S k ol = match olookup k gs with
                                      | Some l => Some (mk_dict S l)
                                      | None => d_get S k acc
                                      end.
Proof.
  induction gs as [|g r IH]; intros acc HF ND.
  - exists acc. split; reflexivity.
  - inversion HF as [|? ? Hg HF']; subst. simpl.
    destruct (g_lib g) as [l|] eqn:El.
    + destruct Hg as [Hg1 Hg2]. destruct (Hg1 l El) as [_ [id Hid]]. rewrite Hid.
      simpl in ND. rewrite Hid in ND. simpl in ND. inversion ND as [|? ? Hn ND']; subst.
      destruct (IH (d_set S id (mk_dict S l) acc) HF' ND') as [ol [H1 H2]].
      exists ol. split; [exact H1|]. intros k. rewrite H2.
      destruct (str_eqb k id) eqn:E.
      * apply list_eqb_N_eq in E. subst k.
        destruct (olookup id r) eqn:Eo; [apply olookup_in_ids in Eo; contradiction|].
        rewrite (get_set S OK), str_eqb_refl. reflexivity.
      * destruct (olookup k r); [reflexivity|]. rewrite (get_set S OK), E. reflexivity.
    + assert (ND' : NoDup (some_ids (map g_id r))).
      { simpl in ND. destruct (g_id g); [inversion ND; assumption|assumption]. }
      destruct (IH acc HF' ND') as [ol [H1 H2]]. exists ol. split; [exact H1|].
      intros k. rewrite H2. destruct (g_id g); reflexivity.
Qed.

Lemma spec_object_libs_dump : forall gs acc ol,
  dump_object_libs S gs acc = Ok ol <-> spec_object_libs S gs acc = Some ol.
Proof.
  induction gs as [|g r IH]; simpl; intros acc ol.
  - split; intros H; inversion H; reflexivity.
  - destruct (g_lib g); [destruct (g_id g)|]; try apply IH. split; discriminate.
Qed.

Lemma strip_bare : forall d : T_gbody S * option str, strip_g S (bare S d) = d.
Proof. intros [b i]. reflexivity. Qed.
Lemma map_strip_bare : forall l, map (strip_g S) (map (bare S) l) = l.
Proof. induction l as [|d l IH]; simpl; [reflexivity|]. rewrite strip_bare, IH. reflexivity. Qed.

Definition gl_eq (x y : guide) : Prop := g_id x = g_id y /\ orel (deq S) (g_lib x) (g_lib y).

Lemma attach_ok : forall (gd : list (T_gbody S * option str)) (orig : list guide) ol,
  Forall2 (fun d g => snd d = g_id g) gd orig ->
  Forall (guide_ok S) orig -> NoDup (some_ids (map g_id orig)) ->
  (forall g id, In g orig -> g_id g = Some id ->
                orel (veq S) (option_map (mk_dict S) (g_lib g)) (d_get S id ol)) ->
  exists r, attach_libs S gd ol = Ok r /\ map (strip_g S) r = gd /\ Forall2 gl_eq orig r.
Proof.
  intros gd orig ol F. revert ol. induction F as [|d g gd orig Hd F IH]; intros ol HF ND Hol.
  - exists []. repeat split; constructor.
  - inversion HF as [|? ? Hg HF']; subst. simpl.
    destruct (snd d) as [id|] eqn:Eid.
    + simpl in ND. rewrite <- Hd in ND. simpl in ND. inversion ND as [|? ? Hn ND']; subst.
      specialize (Hol g id (or_introl eq_refl) (eq_sym Hd)) as Hg0.
      destruct (g_lib g) as [l|] eqn:El; simpl in Hg0.
      * apply orel_some_l in Hg0. destruct Hg0 as [v [Ev Hv]]. rewrite Ev.
        apply (as_dict_veq S OK) in Hv. rewrite (as_mk S OK) in Hv.
        apply orel_some_l in Hv. destruct Hv as [l' [El' Hl']]. rewrite El'.
        destruct (IH (d_del S id ol) HF' ND') as [r [H1 [H2 H3]]].
        { intros g' id' HI Hid'. rewrite (get_del S OK).
          assert (id' <> id).
          { intros ->. apply Hn. clear -HI Hid'. induction orig as [|x r IHr]; simpl in *; [tauto|].
            destruct HI as [->|HI]; [rewrite Hid'; simpl; auto|]. destruct (g_id x); simpl; auto. }
          rewrite str_eqb_neq by assumption. apply Hol; simpl; auto. }
        rewrite H1. simpl. eexists. split; [reflexivity|]. split.
        -- simpl. rewrite H2. f_equal. destruct d as [b i]. simpl in *. subst. reflexivity.
        -- constructor; [|exact H3]. split; simpl; [congruence|]. rewrite El. exact Hl'.
      * apply (orel_none_l (veq S)) in Hg0. rewrite Hg0.
        destruct (IH ol HF' ND') as [r [H1 [H2 H3]]].
        { intros g' id' HI Hid'. apply Hol; simpl; auto. }
        rewrite H1. simpl. eexists. split; [reflexivity|]. split.
        -- simpl. rewrite H2, strip_bare. reflexivity.
        -- constructor; [|exact H3]. split; simpl; [congruence|]. rewrite El. exact I.
    + assert (ND' : NoDup (some_ids (map g_id orig))).
      { simpl in ND. rewrite <- Hd in ND. exact ND. }
      destruct (IH ol HF' ND') as [r [H1 [H2 H3]]].
      { intros g' id' HI Hid'. apply Hol; simpl; auto. }
      rewrite H1. simpl. eexists. split; [reflexivity|]. split.
      * simpl. rewrite H2, strip_bare. reflexivity.
      * constructor; [|exact H3]. split; simpl; [congruence|].
        destruct (g_lib g) as [l|] eqn:El; [|exact I].
        destruct Hg as [Hg1 _]. destruct (Hg1 l El) as [_ [id Hid]]. congruence.
Qed.


Lemma some_ids_in : forall (gs : list guide) g id, In g gs -> g_id g = Some id -> In id (some_ids (map g_id gs)).
Proof.
  induction gs as [|x r IH]; simpl; intros g id HI Hid; [tauto|].
  destruct HI as [->|HI]; [rewrite Hid; simpl; auto|]. destruct (g_id x); simpl; eauto.
Qed.

Lemma object_libs_back : forall (gso : option (list guide)) (flib ol lib0 : dict) sg,
  let gs := match gso with Some l => l | None => [] end in
  Forall (guide_ok S) gs -> NoDup (some_ids (map g_id gs)) ->
  d_get S OBJ flib = None ->
  (forall k, d_get S k ol = option_map (mk_dict S) (olookup k gs)) ->
  deq S (if d_is_empty S ol then flib else d_set S OBJ (mk_dict S ol) flib) lib0 ->
  orel (Forall2 (fun x y : T_gbody S * option str => snd x = snd y)) (option_map (map (strip_g S)) gso) sg ->
  exists gs' lib', load_object_libs S sg lib0 = Ok (gs', lib') /\ deq S flib lib' /\
                   option_map (map (strip_g S)) gs' = sg /\ orel (Forall2 gl_eq) gso gs'.
Proof.
  intros gso flib ol lib0 sg gs HF ND Hobj Hol Hdeq Hids. subst gs.
  set (gs := match gso with Some l => l | None => [] end) in *.
  assert (Hlibs : forall g id, In g gs -> g_id g = Some id -> olookup id gs = g_lib g)
    by (intros; apply olookup_unique; auto).
  unfold load_object_libs.
  destruct (d_is_empty S ol) eqn:Ee.
  - (* no guideline has a lib *)
    assert (Hn : d_get S OBJ lib0 = None).
    { apply (deq_get S OK) with (k := OBJ) in Hdeq. rewrite Hobj in Hdeq.
      apply (orel_none_l (veq S)) in Hdeq. exact Hdeq. }
    rewrite Hn. eexists. eexists. split; [reflexivity|]. split; [exact Hdeq|]. split.
    + destruct sg; simpl; [rewrite map_strip_bare|]; reflexivity.
    + destruct gso as [l|]; destruct sg as [gd|]; simpl in *; try tauto. subst gs.
      apply Forall2_map_l in Hids. apply Forall2_map_r.
      eapply Forall2_impl_in; [|exact Hids]. intros a b Ha _ Hab. simpl in Hab.
      split; simpl; [exact Hab|].
      assert (Hnone : g_lib a = None).
      { destruct (g_id a) as [id|] eqn:Eid.
        - rewrite <- (Hlibs a id Ha Eid).
          apply (is_empty_get S OK) with (k := id) in Ee. rewrite Hol in Ee.
          destruct (olookup id l); [discriminate|reflexivity].
        - destruct (g_lib a) as [x|] eqn:El; [|reflexivity].
          rewrite Forall_forall in HF. destruct (HF a Ha) as [H1 _].
          destruct (H1 x El) as [_ [id Hid]]. congruence. }
      rewrite Hnone. exact I.
  - (* the libs travel under public.objectLibs *)
    pose proof Hdeq as Hd0. apply (deq_get S OK) with (k := OBJ) in Hd0.
    rewrite (get_set S OK), str_eqb_refl in Hd0.
    apply orel_some_l in Hd0. destruct Hd0 as [v [Ev Hv]]. rewrite Ev.
    apply (as_dict_veq S OK) in Hv. rewrite (as_mk S OK) in Hv.
    apply orel_some_l in Hv. destruct Hv as [ol' [Eol' Hol']]. rewrite Eol'.
    assert (Hlib' : deq S flib (d_del S OBJ lib0)).
    { apply (deq_get S OK). intros k. rewrite (get_del S OK).
      destruct (str_eqb k OBJ) eqn:Ek.
      - apply list_eqb_N_eq in Ek. subst k. rewrite Hobj. exact I.
      - apply (deq_get S OK) with (k := k) in Hdeq. rewrite (get_set S OK), Ek in Hdeq. exact Hdeq. }
    destruct sg as [gd|].
    + destruct gso as [l|]; simpl in Hids; [|tauto]. subst gs.
      destruct (attach_ok gd l ol') as [r [H1 [H2 H3]]]; auto.
      * apply Forall2_map_l in Hids. apply Forall2_flip in Hids.
        eapply Forall2_impl_in; [|exact Hids]. intros a b _ _ Hab. simpl in Hab. congruence.
      * intros g id HI Hid. apply (deq_get S OK) with (k := id) in Hol'.
        rewrite Hol, (Hlibs g id HI Hid) in Hol'. exact Hol'.
      * rewrite H1. simpl. eexists. eexists. split; [reflexivity|]. split; [exact Hlib'|].
        split; [simpl; rewrite H2; reflexivity|exact H3].
    + exfalso. destruct gso as [l|]; simpl in Hids; [tauto|]. subst gs.
      assert (d_is_empty S ol = true); [|congruence].
      apply (is_empty_get S OK). intros k. rewrite Hol. reflexivity.
Qed.

Lemma stripped_bare : forall (si : sinfo (T_irest S) (T_gbody S)),
  stripped S {| i_rest := fst si; i_guides := option_map (map (bare S)) (snd si) |} = si.
Proof.
  intros [r [l|]]; unfold stripped; simpl; [rewrite map_strip_bare|]; reflexivity.
Qed.

Definition info_valid (i : info) : Prop :=
  info_ok S i = true /\ wf (P_info S) (stripped S i) /\
  Forall (guide_ok S) (guides_of S i) /\ NoDup (some_ids (map g_id (guides_of S i))).

Lemma fontinfo_back : forall (i : info) (flib ol lib0 : dict) c si,
  info_valid i -> d_get S OBJ flib = None ->
  (forall k, d_get S k ol = option_map (mk_dict S) (olookup k (guides_of S i))) ->
  deq S (if d_is_empty S ol then flib else d_set S OBJ (mk_dict S ol) flib) lib0 ->
  dec (P_info S) c = Some si -> peq (P_info S) (stripped S i) si ->
  exists i' lib', load_fontinfo S 3 c lib0 = Ok (i', lib') /\ info_eq S i i' /\ deq S flib lib'.
Proof.
  intros i flib ol lib0 c si [Hok [Hwf [HF ND]]] Hobj Hol Hdeq Hdec Hpeq.
  unfold load_fontinfo. change (3 =? 3) with true. cbv iota. rewrite Hdec.
  assert (Hok' : info_ok S {| i_rest := fst si; i_guides := option_map (map (bare S)) (snd si) |} = true).
  { rewrite <- Hok. symmetry. apply (info_ok_stripped S OK). rewrite stripped_bare. exact Hpeq. }
  rewrite Hok'.
  destruct (object_libs_back (i_guides i) flib ol lib0 (snd si)) as [gs' [lib' [H1 [H2 [H3 H4]]]]]; auto.
  - apply (info_eq_ids S OK) in Hpeq. exact Hpeq.
  - rewrite H1. simpl. eexists. eexists. split; [reflexivity|]. split; [|exact H2].
    split; [|exact H4]. unfold stripped at 2. simpl. rewrite H3. destruct si; exact Hpeq.
Qed.


(* ------------------------------------------------------------------------------------------ *)
(** ** parts, glyphs, layers *)

Lemma spec_opt_rt {X} (p : part content opts X) (Hp : part_ok p) o skip x :
  wf p x ->
  exists oc, spec_opt S p o skip x = Some oc /\
             match oc with
             | None => skip = true
             | Some c => exists x', dec p c = Some x' /\ peq p x x'
             end.
Proof.
  intros Hw. unfold spec_opt. destruct skip.
  - exists None. split; reflexivity.
  - destruct (rt p Hp o x Hw) as [c [x' [H1 [H2 H3]]]]. rewrite H1. exists (Some c).
    split; [reflexivity|]. eauto.
Qed.

Lemma Forall2_exists_r {A B} (Q : A -> B -> Prop) l :
  (forall a, In a l -> exists b, Q a b) -> exists r, Forall2 Q l r.
Proof.
  induction l as [|a l IH]; intros H.
  - exists []. constructor.
  - destruct (H a (or_introl eq_refl)) as [b Hb]. destruct IH as [r Hr].
    + intros; apply H; simpl; auto.
    + exists (b :: r). constructor; assumption.
Qed.
Lemma Forall2_in_l {A B} (R : A -> B -> Prop) l r a :
  Forall2 R l r -> In a l -> exists b, In b r /\ R a b.
Proof.
  induction 1; simpl; intros HI; [tauto|]. destruct HI as [->|HI]; [eauto|].
  destruct (IHForall2 HI) as [b [H1 H2]]. eauto.
Qed.
Lemma Forall2_map_fst_eq {A B C} (f : A -> C) (g : B -> C) l r :
  Forall2 (fun a b => g b = f a) l r -> map g r = map f l.
Proof. induction 1; simpl; congruence. Qed.

Definition file_of (e : str * str * T_glyph S) : str := snd (fst e).

Lemma glyphs_rt : forall o (gl : list (str * str * T_glyph S)),
  Forall (glyph_entry_ok S) gl -> NoDup (map file_of gl) ->
  exists glifs,
    omapM (fun e : str * str * T_glyph S =>
             option_map (fun gc => (snd (fst e), gc)) (enc (P_glif S) o (snd e))) gl = Some glifs /\
    forall d, ld_glifs S d = glifs ->
      exists gl', mapM (load_glyph S d) (map fst gl) = Ok gl' /\ Forall2 (glyph_entry_eq S) gl gl'.
Proof.
  intros o gl HF ND.
  destruct (Forall2_exists_r
              (fun (e : str * str * T_glyph S) (b : str * content) =>
                 fst b = file_of e /\ enc (P_glif S) o (snd e) = Some (snd b) /\
                 exists g', dec (P_glif S) (snd b) = Some g' /\ peq (P_glif S) (snd e) g') gl)
    as [glifs HG].
  { intros e He. rewrite Forall_forall in HF. destruct (HF e He) as [Hw _].
    destruct (rt _ (ok_glif S OK) o (snd e) Hw) as [c [g' [H1 [H2 H3]]]].
    exists (file_of e, c). simpl. eauto. }
  exists glifs. split.
  - apply omapM_Forall2. eapply Forall2_impl_in; [|exact HG].
    intros e b _ _ [H1 [H2 _]]. rewrite H2. simpl. destruct b; simpl in *. subst. reflexivity.
  - intros d Hd.
    assert (Hfst : map fst glifs = map file_of gl).
    { apply Forall2_map_fst_eq. eapply Forall2_impl_in; [|exact HG]. intros a b _ _ [H _]. exact H. }
    destruct (Forall2_exists_r
                (fun (e e' : str * str * T_glyph S) =>
                   load_glyph S d (fst e) = Ok e' /\ glyph_entry_eq S e e') gl) as [gl' HL].
    { intros e He. destruct (Forall2_in_l _ _ _ _ HG He) as [b [Hb [H1 [H2 [g' [H3 H4]]]]]].
      rewrite Forall_forall in HF. destruct (HF e He) as [_ Hn].
      exists (fst e, set_name S (fst (fst e)) g'). split.
      - unfold load_glyph. rewrite Hd.
        rewrite (alookup_in (snd (fst e)) (snd b) glifs).
        + rewrite H3. destruct e as [[n fl] g]; reflexivity.
        + rewrite Hfst. exact ND.
        + destruct b as [bf bc]. simpl in *. subst bf. exact Hb.
      - split; [reflexivity|]. simpl. rewrite <- (set_name_same S OK (snd e)) at 1. rewrite Hn.
        apply (set_name_eq S OK). exact H4. }
    exists gl'. split.
    + apply mapM_Forall2. apply Forall2_map_l. eapply Forall2_impl_in; [|exact HL]. intros a b _ _ [H _]. exact H.
    + eapply Forall2_impl_in; [|exact HL]. intros a b _ _ [_ H]. exact H.
Qed.

Lemma layer_rt : forall c o (l : lay),
  layer_ok S l ->
  exists d, spec_write_layer S c o l = Some (l_dir l, d) /\
            forall t : tree, alookup (l_dir l) (t_dirs S t) = Some d ->
              exists l', load_layer S t (l_name l, l_dir l) = Ok l' /\ layer_eq S l l'.
Proof.
  intros c o l [Hlib [Hcol [Hcont [NDl HG]]]].
  assert (ND : NoDup (map (fun e : str * str * T_glyph S => snd (fst e)) (l_glyphs l))).
  { apply (NoDup_map_inv (lower S)). rewrite map_map. exact NDl. }
  unfold spec_write_layer.
  destruct (rt _ (ok_contents S OK) o (contents_of S l) Hcont) as [cc [cl [Hc1 [Hc2 Hc3]]]].
  apply (contents_exact S OK) in Hc3. subst cl. rewrite Hc1. simpl.
  set (skip := negb (c_layerinfo c) && is_none (l_color l) && d_is_empty S (l_lib l)).
  set (val := (l_color l, if d_is_empty S (l_lib l) && negb (c_layerlib c) then None else Some (l_lib l))).
  destruct (spec_opt_rt (P_li S) (ok_li S OK) o skip val) as [lic [Hl1 Hl2]].
  { apply (li_wf S OK). split; [exact Hcol|]. intros x Hx. unfold val in Hx. simpl in Hx.
    destruct (d_is_empty S (l_lib l) && negb (c_layerlib c)); [discriminate|]. inversion Hx; subst. exact Hlib. }
  rewrite Hl1. simpl.
  destruct (glyphs_rt o (l_glyphs l) HG ND) as [glifs [Hg1 Hg2]]. rewrite Hg1. simpl.
  eexists. split; [reflexivity|]. intros t Ht.
  unfold load_layer. simpl. rewrite Ht. simpl. rewrite Hc2.
  assert (Hnd : nodupb (map (fun e => lower S (snd e)) (contents_of S l)) = true).
  { apply nodupb_iff. unfold contents_of. rewrite map_map. exact NDl. }
  rewrite Hnd. cbn [negb].
  destruct (Hg2 (Build_ldir S (Some cc) lic glifs) eq_refl) as [gl' [Hm HF2]]. unfold contents_of. rewrite Hm. simpl.
  destruct lic as [lc|].
  - destruct Hl2 as [v [Hv1 Hv2]]. simpl. rewrite Hv1. simpl.
    eexists. split; [reflexivity|]. apply (li_eq S OK) in Hv2. destruct Hv2 as [Hcl Hlb].
    unfold val in Hcl, Hlb. simpl in Hcl, Hlb.
    split; [reflexivity|]. split; [reflexivity|]. split; [exact Hcl|]. split; [|exact HF2]. simpl.
    destruct v as [vc [vl|]]; simpl in *.
    + destruct (d_is_empty S (l_lib l) && negb (c_layerlib c)); simpl in Hlb; [tauto|exact Hlb].
    + destruct (d_is_empty S (l_lib l) && negb (c_layerlib c)) eqn:E; simpl in Hlb; [|tauto].
      apply andb_true_iff in E. destruct E as [E _]. apply deq_empty. exact E.
  - simpl. eexists. split; [reflexivity|]. unfold skip in Hl2.
    apply andb_true_iff in Hl2. destruct Hl2 as [Hl2 He]. apply andb_true_iff in Hl2. destruct Hl2 as [_ Hn].
    split; [reflexivity|]. split; [reflexivity|]. split; [|split; [|exact HF2]]; simpl.
    + destruct (l_color l); [discriminate|exact I].
    + apply deq_empty. exact He.
Qed.

Definition layer_back (t : tree) (l l' : lay) : Prop :=
  load_layer S t (l_name l, l_dir l) = Ok l' /\ layer_eq S l l'.

Lemma layers_rt : forall c o (ls : list lay),
  Forall (layer_ok S) ls -> NoDup (map l_dir ls) ->
  exists dirs, omapM (spec_write_layer S c o) ls = Some dirs /\
               forall t : tree, t_dirs S t = dirs -> exists ls', Forall2 (layer_back t) ls ls'.
Proof.
  intros c o ls HF ND.
  destruct (Forall2_exists_r
              (fun (l : lay) (b : str * ldir S) =>
                 fst b = l_dir l /\ spec_write_layer S c o l = Some b /\
                 forall t : tree, alookup (l_dir l) (t_dirs S t) = Some (snd b) ->
                   exists l', layer_back t l l') ls) as [dirs HD].
  { intros l Hl. rewrite Forall_forall in HF. destruct (layer_rt c o l (HF l Hl)) as [d [H1 H2]].
    exists (l_dir l, d). simpl. auto. }
  exists dirs. split.
  - apply omapM_Forall2. eapply Forall2_impl_in; [|exact HD]. intros a b _ _ [_ [H _]]. exact H.
  - intros t Ht.
    assert (Hfst : map fst dirs = map l_dir ls).
    { apply Forall2_map_fst_eq. eapply Forall2_impl_in; [|exact HD]. intros a b _ _ [H _]. exact H. }
    apply Forall2_exists_r. intros l Hl.
    destruct (Forall2_in_l _ _ _ _ HD Hl) as [b [Hb [H1 [_ H3]]]].
    apply H3. rewrite Ht. apply alookup_in.
    + rewrite Hfst. exact ND.
    + destruct b as [bd bl]. simpl in *. subst bd. exact Hb.
Qed.


(* ------------------------------------------------------------------------------------------ *)
(** ** font info and lib together *)

Lemma olookup_some_in : forall k (gs : list guide) l,
  olookup k gs = Some l -> exists g, In g gs /\ g_id g = Some k /\ g_lib g = Some l.
Proof.
  induction gs as [|g r IH]; simpl; intros l H; [discriminate|].
  destruct (g_id g) as [id|] eqn:Ei; [destruct (g_lib g) as [x|] eqn:El|].
  - destruct (str_eqb k id) eqn:E.
    + apply list_eqb_N_eq in E. subst. inversion H; subst. exists g. auto.
    + destruct (IH l H) as [g' [H1 H2]]. exists g'. auto.
  - destruct (IH l H) as [g' [H1 H2]]. exists g'. auto.
  - destruct (IH l H) as [g' [H1 H2]]. exists g'. auto.
Qed.

Definition lib0_of (olib : option dict) : dict := match olib with Some d => d | None => d_empty S end.
Definition lib_info_loaded (lbc ic : option content) (il : info * dict) : Prop :=
  exists olib, load_opt S (P_lib S) lbc 2 = Ok olib /\
    match ic with
    | None => Ok (info_dflt S, lib0_of olib)
    | Some c => load_fontinfo S 3 c (lib0_of olib)
    end = Ok il.

Lemma lib_info_rt : forall ci cl o (i : info) (flib : dict),
  info_valid i -> wf_dict S flib -> d_get S OBJ flib = None ->
  exists ic ol lbc,
    spec_opt S (P_info S) o (negb ci && info_is_default S i) (stripped S i) = Some ic /\
    spec_object_libs S (guides_of S i) (d_empty S) = Some ol /\
    dump_object_libs S (guides_of S i) (d_empty S) = Ok ol /\
    (let libw := if d_is_empty S ol then flib else d_set S OBJ (mk_dict S ol) flib in
     spec_opt S (P_lib S) o (negb cl && d_is_empty S libw) libw = Some lbc) /\
    (ic = None -> info_is_default S i = true) /\
    (lbc = None -> d_is_empty S (if d_is_empty S ol then flib else d_set S OBJ (mk_dict S ol) flib) = true) /\
    (forall k, d_get S k ol = option_map (mk_dict S) (olookup k (guides_of S i))) /\
    exists il, lib_info_loaded lbc ic il /\ info_eq S i (fst il) /\ deq S flib (snd il).
Proof.
  intros ci cl o i flib Hv Hwf Hobj. pose proof Hv as [Hok [Hwi [HF ND]]].
  destruct (spec_opt_rt (P_info S) (ok_info S OK) o (negb ci && info_is_default S i) (stripped S i) Hwi)
    as [ic [Hi1 Hi2]].
  destruct (dump_ok (guides_of S i) (d_empty S) HF ND) as [ol [Hd1 Hd2]].
  assert (Hol : forall k, d_get S k ol = option_map (mk_dict S) (olookup k (guides_of S i))).
  { intros k. rewrite Hd2. destruct (olookup k (guides_of S i)); [reflexivity|]. apply (get_empty S OK). }
  assert (Hwol : wf_dict S ol).
  { intros k v Hk. rewrite Hol in Hk. destruct (olookup k (guides_of S i)) as [l|] eqn:El; [|discriminate].
    inversion Hk; subst. destruct (olookup_some_in _ _ _ El) as [g [Hg1 [Hg2 Hg3]]].
    rewrite Forall_forall in HF. destruct (HF g Hg1) as [Ha Hb].
    split; [apply (Hb k Hg2)|]. apply (wf_mk S OK). apply (Ha l Hg3). }
  set (libw := if d_is_empty S ol then flib else d_set S OBJ (mk_dict S ol) flib).
  assert (Hwl : wf (P_lib S) libw).
  { apply (lib_wf S OK). unfold libw. destruct (d_is_empty S ol); [exact Hwf|].
    apply wf_dict_set; [apply (wf_obj_key S OK)|apply (wf_mk S OK); exact Hwol|exact Hwf]. }
  destruct (spec_opt_rt (P_lib S) (ok_lib S OK) o (negb cl && d_is_empty S libw) libw Hwl) as [lbc [Hl1 Hl2]].
  exists ic, ol, lbc. split; [exact Hi1|]. split; [apply spec_object_libs_dump; exact Hd1|].
  split; [exact Hd1|]. split; [exact Hl1|].
  split. { intros ->. apply andb_true_iff in Hi2. tauto. }
  split. { intros ->. apply andb_true_iff in Hl2. tauto. }
  split; [exact Hol|].
  (* what the reader gets for the lib *)
  assert (Hlib0 : exists olib, load_opt S (P_lib S) lbc 2 = Ok olib /\ deq S libw (lib0_of olib)).
  { destruct lbc as [c|].
    - destruct Hl2 as [d' [H1 H2]]. exists (Some d'). simpl. rewrite H1. split; [reflexivity|].
      apply (lib_eq S OK). exact H2.
    - exists None. split; [reflexivity|]. simpl. apply deq_empty.
      apply andb_true_iff in Hl2. tauto. }
  destruct Hlib0 as [olib [Ho1 Ho2]].
  destruct ic as [c|].
  - destruct Hi2 as [si [Hs1 Hs2]].
    destruct (fontinfo_back i flib ol (lib0_of olib) c si Hv Hobj Hol Ho2 Hs1 Hs2) as [i' [lib' [H1 [H2 H3]]]].
    exists (i', lib'). split; [|split; assumption]. exists olib. split; assumption.
  - (* fontinfo.plist is not written: the info is the default, no guideline, no object libs *)
    apply andb_true_iff in Hi2. destruct Hi2 as [_ Hdf].
    unfold info_is_default in Hdf. apply andb_true_iff in Hdf. destruct Hdf as [Hr Hg].
    apply (irest_dflt_spec S OK) in Hr.
    assert (Hgn : i_guides i = None) by (destruct (i_guides i); [discriminate|reflexivity]).
    assert (He : d_is_empty S ol = true).
    { apply (is_empty_get S OK). intros k. rewrite Hol. unfold guides_of. rewrite Hgn. reflexivity. }
    exists (info_dflt S, lib0_of olib). split; [exists olib; split; [assumption|reflexivity]|].
    simpl. split.
    + split.
      * unfold stripped. simpl. rewrite Hr, Hgn. simpl. apply (peq_refl _ (ok_info S OK)).
      * rewrite Hgn. exact I.
    + unfold libw in Ho2. rewrite He in Ho2. exact Ho2.
Qed.

(* ------------------------------------------------------------------------------------------ *)
(** ** layer set *)

Lemma Forall2_insert_nth {A B} (R : A -> B -> Prop) k a b l r :
  R a b -> Forall2 R l r -> Forall2 R (insert_nth k a l) (insert_nth k b r).
Proof.
  intros Hab F. revert k. induction F; intros [|k]; simpl; repeat constructor; auto.
Qed.
Lemma Forall_insert_nth {A} (P : A -> Prop) k a l : P a -> Forall P l -> Forall P (insert_nth k a l).
Proof.
  intros Ha F. revert k. induction F; intros [|k]; simpl; repeat constructor; auto.
Qed.

Lemma layers_loaded : forall c o (ls : list lay),
  layers_ok S ls ->
  exists lcc dirs,
    enc (P_lc S) o (lc_of S (spec_layer_order S c ls)) = Some lcc /\
    omapM (spec_write_layer S c o) ls = Some dirs /\
    forall t : tree, t_lcontents S t = Some lcc -> t_dirs S t = dirs ->
      exists ls', load_layers S t 3 = Ok ls' /\ Forall2 (layer_eq S) ls ls'.
Proof.
  intros c o ls [Hfirst [NDl [HF [Hwf [NDn Hres]]]]].
  assert (ND : NoDup (map l_dir ls)) by (apply (NoDup_map_inv (lower S)); rewrite map_map; exact NDl).
  destruct ls as [|d r]; [tauto|]. destruct Hfirst as [Hd Hr].
  assert (Hwf' : wf (P_lc S) (lc_of S (spec_layer_order S c (d :: r)))).
  { apply (lc_wf S OK). apply (lc_wf S OK) in Hwf. unfold lc_of in *.
    rewrite Forall_map in *. unfold spec_layer_order. inversion Hwf; subst. apply Forall_insert_nth; assumption. }
  destruct (rt _ (ok_lc S OK) o _ Hwf') as [lcc [lc' [H1 [H2 H3]]]].
  apply (lc_exact S OK) in H3. subst lc'.
  destruct (layers_rt c o (d :: r) HF ND) as [dirs [Hw Hl]].
  exists lcc, dirs. split; [exact H1|]. split; [exact Hw|]. intros t Ht1 Ht2.
  destruct (Hl t Ht2) as [ls' HB]. inversion HB as [|? d' ? r' Hdb Hrb]; subst.
  unfold load_layers. rewrite Ht1, H2. cbn [bind].
  assert (Hpre : lc_precheck S [] [] (lc_of S (spec_layer_order S c (d :: r))) = None).
  { apply lc_precheck_none. unfold lc_of, spec_layer_order. rewrite !map_map. cbn [fst snd].
    split; [split; [apply (NoDup_map_insert_nth l_name); exact NDn|intros ? _ []]|].
    split; [split; [apply (NoDup_map_insert_nth (fun l : lay => lower S (l_dir l))); exact NDl|intros ? _ []]|].
    rewrite Forall_map. inversion Hres; subst. apply Forall_insert_nth; assumption. }
  rewrite Hpre. unfold spec_layer_order.
  assert (Hm : mapM (load_layer S t) (lc_of S (insert_nth (c_default_pos c) d r)) =
               Ok (insert_nth (c_default_pos c) d' r')).
  { apply mapM_Forall2. unfold lc_of. apply Forall2_map_l.
    apply Forall2_insert_nth; [exact (proj1 Hdb)|].
    eapply Forall2_impl_in; [|exact Hrb]. intros a b _ _ [H _]. exact H. }
  rewrite Hm. simpl.
  destruct (find_idx_insert (is_default_dir S) d' r' (c_default_pos c)) as [i [Hi1 Hi2]].
  - unfold is_default_dir. destruct Hdb as [_ [_ [Hdir _]]]. rewrite <- Hdir, Hd. apply str_eqb_refl.
  - apply forallb_forall. intros x Hx. apply negb_true_iff. unfold is_default_dir.
    apply Forall2_flip in Hrb. destruct (Forall2_in_l _ _ _ _ Hrb Hx) as [y [Hy [_ [_ [Hdir _]]]]].
    apply str_eqb_neq. rewrite <- Hdir. rewrite Forall_forall in Hr. apply Hr. exact Hy.
  - rewrite Hi1, Hi2. eexists. split; [reflexivity|]. constructor; [exact (proj2 Hdb)|].
    eapply Forall2_impl_in; [|exact Hrb]. intros a b _ _ [_ H]. exact H.
Qed.


(* ------------------------------------------------------------------------------------------ *)
(** ** the whole font *)

Lemma meta_to_write_v3 : forall m, m_version m = 3 ->
  meta_to_write m = {| m_creator := Some NORAD_CREATOR; m_version := 3; m_minor := m_minor m |}.
Proof.
  intros [cr v mi] Hv. simpl in Hv. subst v. unfold meta_to_write. simpl.
  destruct cr as [x|]; simpl; [|reflexivity].
  destruct (str_eqb x NORAD_CREATOR) eqn:E; [|reflexivity].
  apply list_eqb_N_eq in E. subst. reflexivity.
Qed.

Definition dflt_opt {A} (d : A) (o : option A) : A := match o with Some x => x | None => d end.

Lemma load_v3_intro : forall (t : tree) mc m olib il og ok ls,
  t_meta S t = Some mc -> dec (P_meta S) mc = Some m -> m_version m = 3 ->
  load_opt S (P_lib S) (t_lib S t) 2 = Ok olib ->
  match t_info S t with
  | None => Ok (info_dflt S, lib0_of olib)
  | Some c => load_fontinfo S 3 c (lib0_of olib)
  end = Ok il ->
  load_opt S (P_groups S) (t_groups S t) 3 = Ok og ->
  (forall g, og = Some g -> groups_ok S g = true) ->
  load_opt S (P_kerning S) (t_kerning S t) 4 = Ok ok ->
  load_layers S t 3 = Ok ls ->
  load S t = Ok {| f_meta := {| m_creator := m_creator m; m_version := 3; m_minor := m_minor m |};
                   f_info := fst il; f_lib := remove_key S OBJ (snd il);
                   f_groups := dflt_opt (groups_dflt S) og; f_kerning := dflt_opt (kerning_dflt S) ok;
                   f_features := dflt_opt [] (t_features S t); f_layers := ls;
                   f_data := store_loaded (t_data S t); f_images := store_loaded (t_images S t) |}.
Proof.
  intros t mc m olib il og ok ls Hm1 Hm2 Hv Hlib Hil Hg1 Hg2 Hk Hls.
  unfold load. rewrite Hm1, Hm2. cbv zeta. rewrite Hv, Hlib. cbn [bind].
  unfold lib0_of in Hil. rewrite Hil. cbn [bind]. cbv zeta. rewrite Hg1. cbn [bind].
  assert (Hgc : match og with
                | Some g => if groups_ok S g then Ok og else Err LInvalidGroups
                | None => Ok None
                end = Ok og).
  { destruct og as [g|]; [rewrite (Hg2 g eq_refl)|]; reflexivity. }
  rewrite Hgc. cbn [bind]. rewrite Hk. cbn [bind]. rewrite Hls. cbn [bind].
  change (3 =? 3) with true. change (3 =? 1) with false. cbn [bind fst snd].
  destruct og, ok; reflexivity.
Qed.

Theorem load_spec_write : forall c o (f : font),
  font_valid S f ->
  exists t, spec_write S c o f = Some t /\ exists f', load S t = Ok f' /\ font_equiv S f f'.
Proof.
  intros c o f [Hv [Hmeta [Hiok [Hiwf [HGF [HGN [Hlwf [Hobj [Hgok [Hgwf [Hkwf Hlay]]]]]]]]]]].
  unfold spec_write.
  (* metainfo *)
  rewrite (meta_to_write_v3 _ Hv) in Hmeta.
  change (n_creator spec_names) with NORAD_CREATOR.
  destruct (rt _ (ok_meta S OK) o _ Hmeta) as [mc [m' [Hm1 [Hm2 Hm3]]]].
  apply (meta_exact S OK) in Hm3. subst m'. rewrite Hm1. cbn [obind].
  (* font info and lib *)
  destruct (lib_info_rt (c_info c) (c_lib c) o (f_info S f) (f_lib S f)) as
    [ic [ol [lbc [Hi1 [Ho1 [_ [Hl1 [_ [_ [_ [il [[olib [Hlo Hil]] [Hieq Hleq]]]]]]]]]]]]]; auto.
  { repeat split; assumption. }
  rewrite Hi1. cbn [obind]. rewrite Ho1. cbn [obind]. change SPEC_OBJ with OBJ.
  cbv zeta in Hl1. rewrite Hl1. cbn [obind].
  (* groups, kerning *)
  destruct (spec_opt_rt (P_groups S) (ok_groups S OK) o
              (negb (c_groups c) && groups_is_empty S (f_groups S f)) (f_groups S f) Hgwf) as [gc [Hg1 Hg2]].
  rewrite Hg1. cbn [obind].
  destruct (spec_opt_rt (P_kerning S) (ok_kerning S OK) o
              (negb (c_kerning c) && kerning_is_empty S (f_kerning S f)) (f_kerning S f) Hkwf) as [kc [Hk1 Hk2]].
  rewrite Hk1. cbn [obind].
  (* layers *)
  destruct (layers_loaded c o (f_layers S f) Hlay) as [lcc [dirs [Hc1 [Hc2 Hc3]]]].
  rewrite Hc1. cbn [obind]. rewrite Hc2. cbn [obind].
  eexists. split; [reflexivity|].
  match goal with |- exists f', load S ?tt = _ /\ _ => set (t := tt) end.
  destruct (Hc3 t eq_refl eq_refl) as [ls' [Hls1 Hls2]].
  assert (Hgl : exists og, load_opt S (P_groups S) gc 3 = Ok og /\
                           (forall g, og = Some g -> groups_ok S g = true) /\
                           peq (P_groups S) (f_groups S f) (dflt_opt (groups_dflt S) og)).
  { destruct gc as [x|].
    - destruct Hg2 as [g' [H1 H2]]. exists (Some g'). simpl. rewrite H1. split; [reflexivity|]. split; [|exact H2].
      intros g Hg. inversion Hg; subst. rewrite <- (groups_ok_eq S OK _ _ H2). exact Hgok.
    - exists None. split; [reflexivity|]. split; [discriminate|]. simpl.
      apply (groups_empty_spec S OK). apply andb_true_iff in Hg2. tauto. }
  destruct Hgl as [og [Hgl1 [Hgl2 Hgl3]]].
  assert (Hkl : exists ok, load_opt S (P_kerning S) kc 4 = Ok ok /\
                           peq (P_kerning S) (f_kerning S f) (dflt_opt (kerning_dflt S) ok)).
  { destruct kc as [x|].
    - destruct Hk2 as [k' [H1 H2]]. exists (Some k'). simpl. rewrite H1. split; [reflexivity|exact H2].
    - exists None. split; [reflexivity|]. simpl.
      apply (kerning_empty_spec S OK). apply andb_true_iff in Hk2. tauto. }
  destruct Hkl as [ok [Hkl1 Hkl2]].
  eexists. split.
  - eapply (load_v3_intro t mc _ olib il og ok ls'); try eassumption; try reflexivity.
  - (* equivalence *)
    unfold font_equiv. cbn [f_meta f_info f_lib f_groups f_kerning f_features f_layers f_data f_images
                             m_version m_minor].
    split; [exact Hv|]. split; [reflexivity|]. split; [exact Hieq|].
    split.
    { rewrite remove_key_absent; [exact Hleq|].
      apply (deq_get S OK) with (k := OBJ) in Hleq. rewrite Hobj in Hleq.
      apply (orel_none_l (veq S)) in Hleq. exact Hleq. }
    split; [exact Hgl3|]. split; [exact Hkl2|].
    split.
    { subst t. cbn [t_features]. destruct (f_features S f) as [|x r] eqn:Ef; cbn [is_nil andb].
      - destruct (c_features c); cbn [negb dflt_opt]; [destruct (c_norm_crlf c); reflexivity|reflexivity].
      - cbn [dflt_opt]. destruct (c_norm_crlf c); [apply feq_features_to_write|apply feq_refl]. }
    split; [exact Hls2|].
    subst t. cbn [t_data t_images]. unfold spec_store, store_loaded.
    split.
    + destruct (f_data S f); cbn [is_nil andb]; [destruct (c_data c)|]; reflexivity.
    + destruct (f_images S f); cbn [is_nil andb]; [destruct (c_images c)|]; reflexivity.
Qed.


(* ------------------------------------------------------------------------------------------ *)
(** ** norad's writer is the specification writer with norad's choices *)

Lemma write_opt_spec {X} (p : part content opts X) o skip x file :
  write_opt S p o skip x file =
  match spec_opt S p o skip x with Some oc => Ok oc | None => Err (SWrite file) end.
Proof. unfold write_opt, spec_opt. destruct skip; [reflexivity|]. destruct (enc p o x); reflexivity. Qed.

Lemma save_glyphs_spec : forall o (gl : list (str * str * T_glyph S)) glifs,
  omapM (fun e : str * str * T_glyph S =>
           option_map (fun gc => (snd (fst e), gc)) (enc (P_glif S) o (snd e))) gl = Some glifs ->
  mapM (save_glyph S o) gl = Ok glifs.
Proof.
  intros o gl glifs H. apply mapM_Forall2. apply omapM_Forall2 in H.
  eapply Forall2_impl_in; [|exact H]. intros e b _ _ He. cbv beta in He. unfold save_glyph. revert He.
  destruct (enc (P_glif S) o (snd e)); simpl; intros He; [inversion He; reflexivity|discriminate].
Qed.

Lemma save_layer_spec : forall o (l : lay) b,
  spec_write_layer S norad_choices o l = Some b -> save_layer S o l = Ok b.
Proof.
  intros o l b H. unfold spec_write_layer in H. unfold save_layer.
  rewrite !write_opt_spec. unfold spec_opt at 1. cbn [c_layerinfo c_layerlib norad_choices negb andb] in H.
  destruct (enc (P_contents S) o (contents_of S l)) as [cc|]; [|discriminate]. cbn [obind option_map bind] in *.
  rewrite andb_true_r in H. unfold layerinfo_skipped, layerinfo_value.
  destruct (spec_opt S (P_li S) o (is_none (l_color l) && d_is_empty S (l_lib l))
              (l_color l, if d_is_empty S (l_lib l) then None else Some (l_lib l))) as [lic|];
    [|discriminate]. cbn [obind bind] in *.
  destruct (omapM _ (l_glyphs l)) as [glifs|] eqn:Eg; [|discriminate]. cbn [obind] in H.
  rewrite (save_glyphs_spec _ _ _ Eg). cbn [bind]. inversion H; reflexivity.
Qed.

Lemma save_layers_spec : forall o (ls : list lay) dirs,
  omapM (spec_write_layer S norad_choices o) ls = Some dirs -> mapM (save_layer S o) ls = Ok dirs.
Proof.
  intros o ls dirs H. apply mapM_Forall2. apply omapM_Forall2 in H.
  eapply Forall2_impl_in; [|exact H]. intros l b _ _ Hl. apply save_layer_spec. exact Hl.
Qed.

Theorem save_is_spec_write : forall o (f : font) t,
  font_valid S f -> spec_write S norad_choices o f = Some t -> save S o f = Ok t.
Proof.
  intros o f t [Hv [Hmeta [Hiok [Hiwf [HGF [HGN [Hlwf [Hobj [Hgok [Hgwf [Hkwf Hlay]]]]]]]]]]] H.
  unfold save. rewrite Hv. change (3 =? 3) with true. cbn [negb].
  unfold d_mem. rewrite Hobj. cbn [is_none negb]. rewrite Hgok, Hiok. cbn [negb].
  unfold spec_write in H. rewrite !write_opt_spec.
  rewrite (meta_to_write_v3 _ Hv). change (n_creator spec_names) with NORAD_CREATOR in H.
  unfold spec_opt at 1. cbn [c_info c_lib c_groups c_kerning c_features c_data c_images c_norm_crlf
                               c_default_pos norad_choices negb andb] in H.
  destruct (enc (P_meta S) o _) as [mc|]; [|discriminate]. cbn [obind option_map bind] in *.
  destruct (spec_opt S (P_info S) o (info_is_default S (f_info S f)) (stripped S (f_info S f))) as [ic|];
    [|discriminate]. cbn [obind bind] in *.
  unfold lib_to_write.
  destruct (spec_object_libs S (guides_of S (f_info S f)) (d_empty S)) as [ol|] eqn:Eol; [|discriminate].
  apply spec_object_libs_dump in Eol. rewrite Eol. cbn [obind bind] in *. change SPEC_OBJ with OBJ in H.
  rewrite write_opt_spec.
  destruct (spec_opt S (P_lib S) o _ _) as [lbc|]; [|discriminate]. cbn [obind bind] in *.
  destruct (spec_opt S (P_groups S) o _ _) as [gc|]; [|discriminate]. cbn [obind bind] in *.
  destruct (spec_opt S (P_kerning S) o _ _) as [kc|]; [|discriminate]. cbn [obind bind] in *.
  unfold spec_layer_order in H. destruct (f_layers S f) as [|d r] eqn:El; [destruct Hlay as [[] _]|].
  change (insert_nth (c_default_pos norad_choices) d r) with (d :: r) in H. unfold spec_opt.
  destruct (enc (P_lc S) o (lc_of S (d :: r))) as [lcc|]; [|discriminate]. cbn [obind option_map bind] in *.
  destruct (omapM (spec_write_layer S norad_choices o) (d :: r)) as [dirs|] eqn:Ed; [|discriminate].
  rewrite (save_layers_spec _ _ _ Ed). cbn [obind bind] in *.
  inversion H. unfold spec_store, store_to_write. rewrite !andb_true_r. reflexivity.
Qed.

(** C01: save then load, for every valid font and every option *)
Theorem save_load_roundtrip : forall o (f : font),
  font_valid S f ->
  exists t, save S o f = Ok t /\ spec_write S norad_choices o f = Some t /\
            exists f', load S t = Ok f' /\ font_equiv S f f'.
Proof.
  intros o f Hv. destruct (load_spec_write norad_choices o f Hv) as [t [H1 H2]].
  exists t. split; [apply save_is_spec_write; assumption|]. split; assumption.
Qed.


(* ------------------------------------------------------------------------------------------ *)
(** ** what a successful load tells *)

Ltac bind_inv H :=
  repeat match type of H with
         | bind ?x _ = Ok _ =>
             let E := fresh "E" in destruct x eqn:E; cbn [bind] in H; [|discriminate H|discriminate H]
         end.

Lemma load_elim : forall (t : tree) (f : font),
  load S t = Ok f ->
  exists mc m olib il og ok ls,
    t_meta S t = Some mc /\ dec (P_meta S) mc = Some m /\
    load_opt S (P_lib S) (t_lib S t) 2 = Ok olib /\
    match t_info S t with
    | None => Ok (info_dflt S, lib0_of olib)
    | Some c => load_fontinfo S (m_version m) c (lib0_of olib)
    end = Ok il /\
    load_opt S (P_groups S) (t_groups S t) 3 = Ok og /\
    (forall g, og = Some g -> groups_ok S g = true) /\
    load_opt S (P_kerning S) (t_kerning S t) 4 = Ok ok /\
    load_layers S t (m_version m) = Ok ls /\
    f_meta S f = {| m_creator := m_creator m; m_version := 3; m_minor := m_minor m |} /\
    f_layers S f = ls /\ f_data S f = store_loaded (t_data S t) /\ f_images S f = store_loaded (t_images S t) /\
    (m_version m = 3 ->
     f_info S f = fst il /\ f_lib S f = remove_key S OBJ (snd il) /\ f_groups S f = dflt_opt (groups_dflt S) og /\
     f_kerning S f = dflt_opt (kerning_dflt S) ok /\ f_features S f = dflt_opt [] (t_features S t)).
Proof.
  intros t f H. unfold load in H.
  destruct (t_meta S t) as [mc|] eqn:Em; [|discriminate].
  destruct (dec (P_meta S) mc) as [m|] eqn:Ed; [|discriminate].
  cbv zeta in H. bind_inv H. inversion H; subst f; clear H.
  assert (Hg : a2 = a1 /\ forall g, a1 = Some g -> groups_ok S g = true).
  { destruct a1 as [g|]; [destruct (groups_ok S g) eqn:Eg|]; inversion E2; split; auto.
    - intros g' Hx. inversion Hx; subst. exact Eg.
    - discriminate. }
  destruct Hg as [-> Hg].
  exists mc, m, a, a0, a1, a3, a4. cbn [f_meta f_layers f_data f_images f_info f_lib f_groups f_kerning f_features].
  repeat (split; [solve [auto]|]).
  intros Hv3. rewrite Hv3 in E5, E6. change (3 =? 3) with true in E5. change (3 =? 1) with false in E6.
  inversion E5; inversion E6; subst. cbn [fst snd]. unfold dflt_opt. repeat split; reflexivity.
Qed.

Lemma load_version_3 : forall (t : tree) (f : font), load S t = Ok f -> m_version (f_meta S f) = 3.
Proof.
  intros t f H. destruct (load_elim t f H) as (mc & m & olib & il & og & ok & ls & _ & _ & _ & _ & _ & _ & _ & _ & Hm & _).
  rewrite Hm. reflexivity.
Qed.


(* ------------------------------------------------------------------------------------------ *)
(** ** norad's reader and the independent reader agree *)

Lemma load_opt_spec {X} (p : part content opts X) c n o d :
  load_opt S p c n = Ok o -> spec_read_opt S p c d = Some (dflt_opt d o).
Proof.
  unfold load_opt, spec_read_opt. destruct c as [c|]; [destruct (dec p c)|]; intros H; inversion H; reflexivity.
Qed.

Lemma spec_attach_del : forall (gs : list (T_gbody S * option str)) id ol,
  ~ In id (some_ids (map snd gs)) -> spec_attach S gs (d_del S id ol) = spec_attach S gs ol.
Proof.
  induction gs as [|g r IH]; simpl; intros id ol Hn; [reflexivity|].
  destruct (snd g) as [x|] eqn:Ex; simpl in Hn.
  - rewrite IH by tauto. rewrite (get_del S OK). rewrite str_eqb_neq; [reflexivity|]. intros ->. tauto.
  - rewrite IH by tauto. reflexivity.
Qed.

Lemma attach_spec : forall (gs : list (T_gbody S * option str)) ol r,
  NoDup (some_ids (map snd gs)) -> attach_libs S gs ol = Ok r -> spec_attach S gs ol = Some r.
Proof.
  induction gs as [|g gs IH]; simpl; intros ol r ND H; [inversion H; reflexivity|].
  destruct (snd g) as [id|] eqn:Eid; simpl in ND.
  - inversion ND as [|? ? Hn ND']; subst.
    destruct (d_get S id ol) as [v|] eqn:Ev.
    + destruct (as_dict S v) as [l|]; [|discriminate].
      destruct (attach_libs S gs (d_del S id ol)) as [r'| |] eqn:Er; simpl in H; try discriminate.
      apply IH in Er; [|assumption]. rewrite spec_attach_del in Er by assumption. rewrite Er. simpl.
      inversion H; reflexivity.
    + destruct (attach_libs S gs ol) as [r'| |] eqn:Er; simpl in H; try discriminate.
      rewrite (IH _ _ ND' Er). simpl. inversion H; reflexivity.
  - destruct (attach_libs S gs ol) as [r'| |] eqn:Er; simpl in H; try discriminate.
    rewrite (IH _ _ ND Er). simpl. inversion H; reflexivity.
Qed.

Lemma attach_ids : forall (gs : list (T_gbody S * option str)) ol r,
  attach_libs S gs ol = Ok r -> map g_id r = map snd gs.
Proof.
  induction gs as [|g gs IH]; simpl; intros ol r H; [inversion H; reflexivity|].
  destruct (snd g) as [id|] eqn:Eid.
  - destruct (d_get S id ol) as [v|].
    + destruct (as_dict S v) as [l|]; [|discriminate].
      destruct (attach_libs S gs (d_del S id ol)) as [r'| |] eqn:Er; simpl in H; try discriminate.
      inversion H; subst. simpl. f_equal. eauto.
    + destruct (attach_libs S gs ol) as [r'| |] eqn:Er; simpl in H; try discriminate.
      inversion H; subst. simpl. rewrite Eid. f_equal. eauto.
  - destruct (attach_libs S gs ol) as [r'| |] eqn:Er; simpl in H; try discriminate.
    inversion H; subst. simpl. rewrite Eid. f_equal. eauto.
Qed.

Lemma load_glyphs_spec : forall (d : ldir S) cl gl,
  mapM (load_glyph S d) cl = Ok gl ->
  omapM (fun ce : str * str =>
           obind (alookup (snd ce) (ld_glifs S d)) (fun gc =>
           option_map (fun g => (fst ce, snd ce, set_name S (fst ce) g)) (dec (P_glif S) gc))) cl = Some gl.
Proof.
  intros d cl gl H. apply omapM_Forall2. apply mapM_Forall2 in H.
  eapply Forall2_impl_in; [|exact H]. intros e b _ _ He. cbv beta in He. unfold load_glyph in He.
  destruct (alookup (snd e) (ld_glifs S d)) as [gc|]; [|discriminate]. simpl.
  destruct (dec (P_glif S) gc); [|discriminate]. inversion He; reflexivity.
Qed.

Lemma load_layer_spec : forall (t : tree) e (l : lay),
  load_layer S t e = Ok l -> spec_read_layer S t e = Some l.
Proof.
  intros t e l H. unfold load_layer in H. unfold spec_read_layer.
  destruct (alookup (snd e) (t_dirs S t)) as [d|]; [|discriminate]. cbn [obind].
  destruct (ld_contents S d) as [cc|]; [|discriminate]. cbn [obind].
  destruct (dec (P_contents S) cc) as [cl|]; [|discriminate]. cbn [obind].
  destruct (nodupb (map (fun e => lower S (snd e)) cl)); cbn [negb] in H; [|discriminate].
  destruct (mapM (load_glyph S d) cl) as [gl| |] eqn:Eg; simpl in H; try discriminate.
  rewrite (load_glyphs_spec _ _ _ Eg). cbn [obind].
  destruct (load_opt S (P_li S) (ld_info S d) 8) as [li| |] eqn:El; simpl in H; try discriminate.
  rewrite (load_opt_spec _ _ _ _ (None, None) El). cbn [obind]. inversion H; subst.
  destruct li as [[c [x|]]|]; reflexivity.
Qed.

Definition default_first (ls : list lay) : Prop :=
  match ls with
  | [] => False
  | d :: r => l_dir d = GLYPHS /\ Forall (fun l : lay => l_dir l <> GLYPHS) r
  end.

Lemma load_layers_spec : forall (t : tree) ls,
  load_layers S t 3 = Ok ls -> default_first ls ->
  exists lcc lc ls0, t_lcontents S t = Some lcc /\ dec (P_lc S) lcc = Some lc /\
                     omapM (spec_read_layer S t) lc = Some ls0 /\ spec_default_first S ls0 = Some ls.
Proof.
  intros t ls H Hdf. unfold load_layers in H.
  destruct (t_lcontents S t) as [lcc|] eqn:E1; [|discriminate].
  destruct (dec (P_lc S) lcc) as [lc|] eqn:E2; [|discriminate]. cbn [bind] in H.
  destruct (lc_precheck S [] [] lc); [discriminate|].
  destruct (mapM (load_layer S t) lc) as [ls0| |] eqn:Em; simpl in H; try discriminate.
  destruct (find_idx (is_default_dir S) ls0) as [i|] eqn:Ei; [|discriminate]. inversion H; subst ls.
  exists lcc, lc, ls0. split; [reflexivity|]. split; [exact E2|]. split.
  - apply omapM_Forall2. apply mapM_Forall2 in Em. eapply Forall2_impl_in; [|exact Em].
    intros a b _ _ Hab. apply load_layer_spec. exact Hab.
  - destruct (find_idx_nth _ _ _ Ei) as [d [Hd _]].
    unfold move_to_front in Hdf. rewrite Hd in Hdf. destruct Hdf as [_ Hr].
    destruct (move_front_filter (is_default_dir S) ls0 i Ei) as [d' [H1 [H2 H3]]].
    + apply forallb_forall. intros x Hx. rewrite Forall_forall in Hr. apply negb_true_iff.
      apply str_eqb_neq. apply Hr. exact Hx.
    + unfold spec_default_first. change SPEC_GLYPHS with GLYPHS.
      change (fun l : lay => str_eqb (l_dir l) GLYPHS) with (is_default_dir S).
      rewrite H2. change (fun l : lay => negb (str_eqb (l_dir l) GLYPHS)) with (fun l => negb (is_default_dir S l)).
      rewrite H3, H1. reflexivity.
Qed.

(** every format-3 tree that norad loads into a font with one default layer, no left-over
    [public.objectLibs] and distinct guideline identifiers is read by the independent reader as
    exactly the same font *)
Theorem readers_agree : forall (t : tree) (f : font) mc m,
  load S t = Ok f ->
  t_meta S t = Some mc -> dec (P_meta S) mc = Some m -> m_version m = 3 ->
  NoDup (some_ids (map g_id (guides_of S (f_info S f)))) ->
  default_first (f_layers S f) ->
  spec_read S t = Some f.
Proof.
  intros t f mc m H Hm1 Hm2 Hv HND Hdf.
  destruct (load_elim t f H) as (mc' & m' & olib & il & og & ok & ls & E1 & E2 & E3 & E4 & E5 & E6 & E7 & E8 &
                                 F1 & F2 & F3 & F4 & F5).
  rewrite Hm1 in E1. inversion E1; subst mc'. rewrite Hm2 in E2. inversion E2; subst m'.
  destruct (F5 Hv) as (G1 & G2 & G3 & G4 & G5). rewrite Hv in *.
  rewrite F2 in Hdf. destruct (load_layers_spec t ls E8 Hdf) as (lcc & lc & ls0 & L1 & L2 & L3 & L4).
  unfold spec_read. rewrite Hm1. cbn [obind]. rewrite Hm2. cbn [obind]. rewrite Hv.
  change (negb (3 =? 3)) with false. cbv iota.
  rewrite (load_opt_spec _ _ _ _ (d_empty S) E3). cbn [obind]. change (dflt_opt (d_empty S) olib) with (lib0_of olib).
  (* font info and object libs *)
  assert (Hdd : forall l, remove_key S OBJ (d_del S OBJ l) = d_del S OBJ l).
  { intros l. apply remove_key_absent. rewrite (get_del S OK), str_eqb_refl. reflexivity. }
  assert (HI : exists si gl,
             spec_read_opt S (P_info S) (t_info S t) (irest_dflt S, None) = Some si /\
             match d_get S SPEC_OBJ (lib0_of olib) with
             | None => Some (option_map (map (bare S)) (snd si), lib0_of olib)
             | Some v => match snd si with
                         | None => Some (None, d_del S SPEC_OBJ (lib0_of olib))
                         | Some gs => obind (as_dict S v) (fun ol =>
                                      option_map (fun gs' => (Some gs', d_del S SPEC_OBJ (lib0_of olib)))
                                                 (spec_attach S gs ol))
                         end
             end = Some gl /\
             fst il = {| i_rest := fst si; i_guides := fst gl |} /\ remove_key S OBJ (snd il) = snd gl).
  { change SPEC_OBJ with OBJ. destruct (t_info S t) as [c|].
    - unfold load_fontinfo in E4. change (3 =? 3) with true in E4. cbv iota in E4. simpl.
      destruct (dec (P_info S) c) as [si|]; [|discriminate].
      destruct (info_ok S _); [|discriminate].
      destruct (load_object_libs S (snd si) (lib0_of olib)) as [r| |] eqn:Er; simpl in E4; try discriminate.
      inversion E4; subst il. exists si. unfold load_object_libs in Er. cbn [fst snd].
      destruct (d_get S OBJ (lib0_of olib)) as [v|] eqn:Eg.
      + destruct (as_dict S v) as [ol|]; [|discriminate]. cbn [obind].
        destruct (snd si) as [gs|] eqn:Es.
        * destruct (attach_libs S gs ol) as [gs'| |] eqn:Ea; simpl in Er; try discriminate.
          inversion Er; subst r. rewrite (attach_spec gs ol gs'); [|  |exact Ea].
          -- simpl. eexists. split; [reflexivity|]. split; [reflexivity|]. split; [reflexivity|apply Hdd].
          -- rewrite <- (attach_ids _ _ _ Ea). rewrite G1 in HND. exact HND.
        * inversion Er; subst r. eexists. split; [reflexivity|]. split; [reflexivity|]. split; [reflexivity|apply Hdd].
      + inversion Er; subst r. eexists. split; [reflexivity|]. split; [reflexivity|]. split; [reflexivity|].
        simpl. apply remove_key_absent. exact Eg.
    - inversion E4; subst il. exists (irest_dflt S, None). cbn [fst snd spec_read_opt].
      destruct (d_get S OBJ (lib0_of olib)) as [v|] eqn:Eg.
      + eexists. split; [reflexivity|]. split; [reflexivity|]. split; [reflexivity|].
        simpl. unfold remove_key, d_mem. rewrite Eg. reflexivity.
      + eexists. split; [reflexivity|]. split; [reflexivity|]. split; [reflexivity|].
        simpl. apply remove_key_absent. exact Eg. }
  destruct HI as (si & gl & I1 & I2 & I3 & I4). rewrite I1. cbn [obind]. rewrite I2. cbn [obind].
  rewrite (load_opt_spec _ _ _ _ (groups_dflt S) E5). cbn [obind].
  rewrite (load_opt_spec _ _ _ _ (kerning_dflt S) E7). cbn [obind].
  rewrite L1. cbn [obind]. rewrite L2. cbn [obind]. rewrite L3. cbn [obind]. rewrite L4. cbn [obind].
  f_equal. destruct f as [fm fi fl fg fk ff fls fd fim]. simpl in *. subst. rewrite I3, I4.
  destruct m as [mcr mv mmi]. simpl in *. subst mv. reflexivity.
Qed.


(* ------------------------------------------------------------------------------------------ *)
(** ** consequences: the specification reader on specification-written (and norad-written) trees *)

Lemma spec_write_meta : forall c o (f : font) t,
  spec_write S c o f = Some t ->
  exists mc, t_meta S t = Some mc /\
             enc (P_meta S) o {| m_creator := Some NORAD_CREATOR; m_version := 3; m_minor := m_minor (f_meta S f) |} = Some mc.
Proof.
  intros c o f t H. unfold spec_write in H. change (n_creator spec_names) with NORAD_CREATOR in H.
  destruct (enc (P_meta S) o _) as [mc|]; [|discriminate]. cbn [obind] in H.
  repeat match type of H with
         | obind ?x _ = Some _ => destruct x; cbn [obind] in H; [|discriminate H]
         end.
  inversion H. exists mc. split; reflexivity.
Qed.

Lemma gl_eq_ids : forall (a b : list guide), Forall2 gl_eq a b -> map g_id a = map g_id b.
Proof. induction 1 as [|x y a b [H _] F IH]; simpl; congruence. Qed.

Lemma equiv_structure : forall (f f' : font),
  font_equiv S f f' ->
  d_get S OBJ (f_lib S f) = None ->
  NoDup (some_ids (map g_id (guides_of S (f_info S f)))) ->
  default_first (f_layers S f) ->
  d_get S OBJ (f_lib S f') = None /\
  NoDup (some_ids (map g_id (guides_of S (f_info S f')))) /\
  default_first (f_layers S f').
Proof.
  intros f f' (_ & _ & [_ Hg] & Hl & _ & _ & _ & Hls & _) Hobj HND Hdf. split; [|split].
  - apply (deq_get S OK) with (k := OBJ) in Hl. rewrite Hobj in Hl. apply (orel_none_l (veq S)) in Hl. exact Hl.
  - unfold guides_of in *. destruct (i_guides (f_info S f)) as [a|]; destruct (i_guides (f_info S f')) as [b|];
      simpl in Hg; try tauto.
    rewrite <- (gl_eq_ids a b Hg). exact HND.
  - destruct (f_layers S f) as [|d r]; [destruct Hdf|]. destruct Hdf as [Hd Hr].
    inversion Hls as [|? d' ? r' Hdd Hrr]; subst. simpl. split.
    + destruct Hdd as (_ & Hdir & _). congruence.
    + apply Forall2_flip in Hrr. apply Forall_forall. intros x Hx.
      destruct (Forall2_in_l _ _ _ _ Hrr Hx) as [y [Hy (_ & Hdir & _)]].
      rewrite Forall_forall in Hr. rewrite <- Hdir. apply Hr. exact Hy.
Qed.

(** the specification reader inverts every conforming writer (up to the property's equality);
    in particular it finds the font in what norad saved *)
Theorem spec_read_spec_write : forall c o (f : font),
  font_valid S f ->
  exists t, spec_write S c o f = Some t /\ exists f', spec_read S t = Some f' /\ font_equiv S f f'.
Proof.
  intros c o f Hv. destruct (load_spec_write c o f Hv) as [t [Hw [f' [Hl He]]]].
  exists t. split; [exact Hw|]. exists f'. split; [|exact He].
  destruct (spec_write_meta c o f t Hw) as [mc [Hm1 Hm2]].
  pose proof Hv as (Hver & Hmeta & _ & _ & _ & HND & _ & Hobj & _ & _ & _ & Hlay).
  rewrite (meta_to_write_v3 _ Hver) in Hmeta.
  destruct (rt _ (ok_meta S OK) o _ Hmeta) as [mc' [m' [R1 [R2 R3]]]].
  rewrite Hm2 in R1. inversion R1; subst mc'. apply (meta_exact S OK) in R3. subst m'.
  destruct (equiv_structure f f' He Hobj HND) as (A1 & A2 & A3).
  { destruct Hlay as [Hf _]. exact Hf. }
  eapply readers_agree; eauto.
Qed.


(* ------------------------------------------------------------------------------------------ *)
(** ** [font_equiv] is an equivalence; write options are irrelevant *)

Lemma Forall2_sym' {A} (R : A -> A -> Prop) l r : (forall a b, R a b -> R b a) -> Forall2 R l r -> Forall2 R r l.
Proof. intros H F. induction F; constructor; auto. Qed.

Lemma oceq_li : forall a b : option (T_color S), orel (ceq S) a b <-> peq (P_li S) (a, None) (b, None).
Proof. intros a b. rewrite (li_eq S OK). simpl. tauto. Qed.
Lemma oceq_sym : forall a b : option (T_color S), orel (ceq S) a b -> orel (ceq S) b a.
Proof. intros a b H. apply oceq_li. apply (peq_sym _ (ok_li S OK)). apply oceq_li. exact H. Qed.
Lemma oceq_trans : forall a b c : option (T_color S), orel (ceq S) a b -> orel (ceq S) b c -> orel (ceq S) a c.
Proof.
  intros a b c H1 H2. apply oceq_li. eapply (peq_trans _ (ok_li S OK)); apply oceq_li; eassumption.
Qed.

Lemma gl_eq_sym : forall a b, gl_eq a b -> gl_eq b a.
Proof. intros a b [H1 H2]. split; [congruence|]. apply (orel_sym _ deq_sym). exact H2. Qed.
Lemma gl_eq_trans : forall a b c, gl_eq a b -> gl_eq b c -> gl_eq a c.
Proof. intros a b c [H1 H2] [H3 H4]. split; [congruence|]. eapply (orel_trans _ deq_trans); eassumption. Qed.

Lemma info_eq_sym : forall a b, info_eq S a b -> info_eq S b a.
Proof.
  intros a b [H1 H2]. split; [apply (peq_sym _ (ok_info S OK)); exact H1|].
  apply (orel_sym (Forall2 gl_eq)); [|exact H2]. intros x y F. apply Forall2_sym'; [apply gl_eq_sym|exact F].
Qed.
Lemma info_eq_trans : forall a b c, info_eq S a b -> info_eq S b c -> info_eq S a c.
Proof.
  intros a b c [H1 H2] [H3 H4]. split; [eapply (peq_trans _ (ok_info S OK)); eassumption|].
  eapply (orel_trans (Forall2 gl_eq)); [|exact H2|exact H4].
  intros x y z F G. eapply Forall2_trans'; [|exact F|exact G]. apply gl_eq_trans.
Qed.

Lemma glyph_entry_eq_sym : forall a b, glyph_entry_eq S a b -> glyph_entry_eq S b a.
Proof. intros a b [H1 H2]. split; [congruence|apply (peq_sym _ (ok_glif S OK)); exact H2]. Qed.
Lemma glyph_entry_eq_trans : forall a b c, glyph_entry_eq S a b -> glyph_entry_eq S b c -> glyph_entry_eq S a c.
Proof. intros a b c [H1 H2] [H3 H4]. split; [congruence|eapply (peq_trans _ (ok_glif S OK)); eassumption]. Qed.

Lemma layer_eq_sym : forall a b, layer_eq S a b -> layer_eq S b a.
Proof.
  intros a b (H1 & H2 & H3 & H4 & H5).
  split; [congruence|]. split; [congruence|]. split; [apply oceq_sym; exact H3|].
  split; [apply deq_sym; exact H4|]. apply Forall2_sym'; [apply glyph_entry_eq_sym|exact H5].
Qed.
Lemma layer_eq_trans : forall a b c, layer_eq S a b -> layer_eq S b c -> layer_eq S a c.
Proof.
  intros a b c (H1 & H2 & H3 & H4 & H5) (G1 & G2 & G3 & G4 & G5).
  split; [congruence|]. split; [congruence|]. split; [eapply oceq_trans; eassumption|].
  split; [eapply deq_trans; eassumption|]. eapply Forall2_trans'; [apply glyph_entry_eq_trans|exact H5|exact G5].
Qed.

Theorem font_equiv_sym : forall a b, font_equiv S a b -> font_equiv S b a.
Proof.
  intros a b (H1 & H2 & H3 & H4 & H5 & H6 & H7 & H8 & H9 & H10).
  split; [congruence|]. split; [congruence|].
  split; [apply info_eq_sym; assumption|].
  split; [apply deq_sym; assumption|].
  split; [apply (peq_sym _ (ok_groups S OK)); assumption|].
  split; [apply (peq_sym _ (ok_kerning S OK)); assumption|].
  split; [apply feq_sym; assumption|].
  split; [apply Forall2_sym'; [apply layer_eq_sym|assumption]|].
  split; congruence.
Qed.
Theorem font_equiv_trans : forall a b c, font_equiv S a b -> font_equiv S b c -> font_equiv S a c.
Proof.
  intros a b c (H1 & H2 & H3 & H4 & H5 & H6 & H7 & H8 & H9 & H10) (G1 & G2 & G3 & G4 & G5 & G6 & G7 & G8 & G9 & G10).
  split; [congruence|]. split; [congruence|].
  split; [eapply info_eq_trans; eassumption|].
  split; [eapply deq_trans; eassumption|].
  split; [eapply (peq_trans _ (ok_groups S OK)); eassumption|].
  split; [eapply (peq_trans _ (ok_kerning S OK)); eassumption|].
  split; [eapply feq_trans; eassumption|].
  split; [eapply Forall2_trans'; [apply layer_eq_trans|eassumption|eassumption]|].
  split; congruence.
Qed.

Theorem options_irrelevant : forall o1 o2 (f : font),
  font_valid S f ->
  exists t1 t2 f1 f2, save S o1 f = Ok t1 /\ save S o2 f = Ok t2 /\
                      load S t1 = Ok f1 /\ load S t2 = Ok f2 /\ font_equiv S f1 f2.
Proof.
  intros o1 o2 f Hv.
  destruct (save_load_roundtrip o1 f Hv) as (t1 & S1 & _ & f1 & L1 & E1).
  destruct (save_load_roundtrip o2 f Hv) as (t2 & S2 & _ & f2 & L2 & E2).
  exists t1, t2, f1, f2. repeat (split; [assumption|]).
  eapply font_equiv_trans; [apply font_equiv_sym; exact E1|exact E2].
Qed.


(* ------------------------------------------------------------------------------------------ *)
(** ** which files exist: gating of the optional files, and the defaults of the reader *)

Lemma write_opt_none {X} (p : part content opts X) o skip x n oc :
  write_opt S p o skip x n = Ok oc -> (oc = None <-> skip = true).
Proof.
  unfold write_opt. destruct skip; intros H.
  - inversion H. tauto.
  - destruct (enc p o x); inversion H. split; discriminate.
Qed.

Lemma no_libs_iff : forall gs : list guide,
  Forall (guide_ok S) gs -> NoDup (some_ids (map g_id gs)) ->
  ((forall k, olookup k gs = None) <-> Forall (fun g : guide => g_lib g = None) gs).
Proof.
  intros gs HF ND. split.
  - intros H. apply Forall_forall. intros g Hg. destruct (g_lib g) as [l|] eqn:El; [|reflexivity].
    rewrite Forall_forall in HF. destruct (HF g Hg) as [H1 _]. destruct (H1 l El) as [_ [id Hid]].
    pose proof (olookup_unique gs g id ND Hg Hid) as Hu. rewrite H, El in Hu. discriminate.
  - intros H k. destruct (olookup k gs) as [l|] eqn:E; [|reflexivity].
    destruct (olookup_some_in _ _ _ E) as [g [Hg [_ Hl]]]. rewrite Forall_forall in H.
    rewrite (H g Hg) in Hl. discriminate.
Qed.

Definition layer_gating (l : lay) (d : str * ldir S) : Prop :=
  fst d = l_dir l /\ ld_contents S (snd d) <> None /\
  (ld_info S (snd d) = None <-> l_color l = None /\ d_is_empty S (l_lib l) = true) /\
  map fst (ld_glifs S (snd d)) = map file_of (l_glyphs l).

Lemma save_layer_gating : forall o (l : lay) d, save_layer S o l = Ok d -> layer_gating l d.
Proof.
  intros o l d H. unfold save_layer in H. bind_inv H. inversion H; subst d. clear H. unfold layer_gating. simpl.
  split; [reflexivity|]. split.
  - apply write_opt_none in E. intros ->. destruct E as [E _]. specialize (E eq_refl). discriminate.
  - split.
    + apply write_opt_none in E0. rewrite E0. unfold layerinfo_skipped. rewrite andb_true_iff.
      destruct (l_color l); simpl; split; intros [H1 H2]; try discriminate; auto.
    + apply mapM_Forall2 in E1. clear -E1. induction E1 as [|e b gl r He F IH]; [reflexivity|].
      simpl. rewrite IH. f_equal. unfold save_glyph in He.
      destruct (enc (P_glif S) o (snd e)); inversion He. reflexivity.
Qed.

Theorem gating_sound : forall o (f : font) (t : tree),
  font_valid S f -> save S o f = Ok t ->
  t_meta S t <> None /\ t_lcontents S t <> None /\
  (t_info S t = None <-> info_is_default S (f_info S f) = true) /\
  (t_lib S t = None <-> d_is_empty S (f_lib S f) = true /\
                        Forall (fun g : guide => g_lib g = None) (guides_of S (f_info S f))) /\
  (t_groups S t = None <-> groups_is_empty S (f_groups S f) = true) /\
  (t_kerning S t = None <-> kerning_is_empty S (f_kerning S f) = true) /\
  (t_features S t = None <-> f_features S f = []) /\
  (t_data S t = None <-> f_data S f = []) /\ (t_images S t = None <-> f_images S f = []) /\
  Forall2 layer_gating (f_layers S f) (t_dirs S t).
Proof.
  intros o f t Hv H. pose proof Hv as (Hver & _ & _ & _ & HGF & HGN & _ & Hobj & Hgok & _).
  unfold save in H. rewrite Hver in H. change (negb (3 =? 3)) with false in H. cbv iota in H.
  destruct (d_mem S OBJ (f_lib S f)); [discriminate|].
  destruct (negb (groups_ok S (f_groups S f))); [discriminate|].
  destruct (negb (info_ok S (f_info S f))); [discriminate|].
  bind_inv H. inversion H; subst t; clear H. simpl.
  split. { apply write_opt_none in E. intros ->. destruct E as [E _]. specialize (E eq_refl). discriminate. }
  split. { apply write_opt_none in E5. intros ->. destruct E5 as [E5 _]. specialize (E5 eq_refl). discriminate. }
  split; [apply (write_opt_none _ _ _ _ _ _ E0)|].
  split.
  { rewrite (write_opt_none _ _ _ _ _ _ E2). unfold lib_to_write in E1.
    destruct (dump_ok (guides_of S (f_info S f)) (d_empty S) HGF HGN) as [ol [Hd1 Hd2]].
    rewrite Hd1 in E1. cbn [bind] in E1. inversion E1; subst a1. clear E1.
    assert (Hol : d_is_empty S ol = true <-> Forall (fun g : guide => g_lib g = None) (guides_of S (f_info S f))).
    { rewrite <- (no_libs_iff _ HGF HGN). rewrite (is_empty_get S OK). split; intros H k; specialize (H k).
      - rewrite Hd2 in H. destruct (olookup k (guides_of S (f_info S f))); [discriminate|reflexivity].
      - rewrite Hd2, H. apply (get_empty S OK). }
    destruct (d_is_empty S ol) eqn:Ee.
    - split; [intros He; split; [exact He|apply Hol; reflexivity]|tauto].
    - split.
      + intros He. apply (is_empty_get S OK) with (k := OBJ) in He.
        rewrite (get_set S OK), str_eqb_refl in He. discriminate.
      + intros [_ Hn]. apply Hol in Hn. discriminate. }
  split; [apply (write_opt_none _ _ _ _ _ _ E3)|].
  split; [apply (write_opt_none _ _ _ _ _ _ E4)|].
  split. { destruct (f_features S f); simpl; split; intros; congruence. }
  split. { unfold store_to_write. destruct (f_data S f); simpl; split; intros; congruence. }
  split. { unfold store_to_write. destruct (f_images S f); simpl; split; intros; congruence. }
  apply mapM_Forall2 in E6. eapply Forall2_impl_in; [|exact E6]. intros l d _ _ Hl.
  apply (save_layer_gating o). exact Hl.
Qed.

Lemma in_move_to_front {A} i (l : list A) x : In x (move_to_front i l) -> In x l.
Proof.
  unfold move_to_front. destruct (nth_error l i) as [a|] eqn:E; [|auto]. intros [<-|H].
  - eapply nth_error_In; eauto.
  - clear E. revert i H. induction l as [|b l IH]; intros i H; [destruct i; simpl in H; tauto|].
    destruct i; simpl in H |- *; [auto|]. destruct H as [->|H]; [auto|]. right. eapply IH; eauto.
Qed.

Lemma load_layer_default : forall (t : tree) e (l : lay),
  load_layer S t e = Ok l ->
  l_dir l = snd e /\
  forall d, alookup (snd e) (t_dirs S t) = Some d -> ld_info S d = None ->
            l_color l = None /\ l_lib l = d_empty S.
Proof.
  intros t e l H. unfold load_layer in H.
  destruct (alookup (snd e) (t_dirs S t)) as [d|]; [|discriminate].
  destruct (ld_contents S d) as [cc|]; [|discriminate]. destruct (dec (P_contents S) cc) as [cl|]; [|discriminate].
  destruct (nodupb (map (fun e => lower S (snd e)) cl)); cbn [negb] in H; [|discriminate].
  bind_inv H. inversion H; subst l; clear H. simpl. split; [reflexivity|].
  intros d' Hd' Hn. inversion Hd'; subst d'. rewrite Hn in E0. simpl in E0. inversion E0; subst. auto.
Qed.

(** a missing optional file is read as the default value of its part *)
Theorem load_defaults : forall (t : tree) (f : font) mc m,
  load S t = Ok f -> t_meta S t = Some mc -> dec (P_meta S) mc = Some m -> m_version m = 3 ->
  (t_info S t = None -> f_info S f = info_dflt S) /\
  (t_lib S t = None -> f_lib S f = d_empty S) /\
  (t_groups S t = None -> f_groups S f = groups_dflt S) /\
  (t_kerning S t = None -> f_kerning S f = kerning_dflt S) /\
  (t_features S t = None -> f_features S f = []) /\
  (t_data S t = None -> f_data S f = []) /\ (t_images S t = None -> f_images S f = []) /\
  (forall l d, In l (f_layers S f) -> alookup (l_dir l) (t_dirs S t) = Some d -> ld_info S d = None ->
               l_color l = None /\ l_lib l = d_empty S).
Proof.
  intros t f mc m H Hm1 Hm2 Hv.
  destruct (load_elim t f H) as (mc' & m' & olib & il & og & ok & ls & E1 & E2 & E3 & E4 & E5 & E6 & E7 & E8 &
                                 F1 & F2 & F3 & F4 & F5).
  rewrite Hm1 in E1. inversion E1; subst mc'. rewrite Hm2 in E2. inversion E2; subst m'.
  destruct (F5 Hv) as (G1 & G2 & G3 & G4 & G5). rewrite Hv in *.
  split. { intros Hn. rewrite Hn in E4. inversion E4; subst il. exact G1. }
  split.
  { intros Hn. rewrite Hn in E3. simpl in E3. inversion E3; subst olib. simpl in E4. rewrite G2.
    assert (Hs : snd il = d_empty S).
    { destruct (t_info S t) as [c|]; [|inversion E4; reflexivity].
      unfold load_fontinfo in E4. change (3 =? 3) with true in E4. cbv iota in E4.
      destruct (dec (P_info S) c) as [si|]; [|discriminate]. destruct (info_ok S _); [|discriminate].
      unfold load_object_libs in E4. rewrite (get_empty S OK) in E4. simpl in E4. inversion E4; reflexivity. }
    rewrite Hs. apply remove_key_absent. apply (get_empty S OK). }
  split. { intros Hn. rewrite Hn in E5. inversion E5; subst og. exact G3. }
  split. { intros Hn. rewrite Hn in E7. inversion E7; subst ok. exact G4. }
  split. { intros Hn. rewrite Hn in G5. exact G5. }
  split. { intros Hn. rewrite F3, Hn. reflexivity. }
  split. { intros Hn. rewrite F4, Hn. reflexivity. }
  intros l d Hl Hd Hi. rewrite F2 in Hl. unfold load_layers in E8.
  bind_inv E8. destruct (lc_precheck S [] [] a); [discriminate|]. bind_inv E8.
  destruct (find_idx (is_default_dir S) a0); [|discriminate]. inversion E8 as [Hls]. rewrite <- Hls in Hl.
  apply in_move_to_front in Hl. apply mapM_Forall2 in E0. apply Forall2_flip in E0.
  destruct (Forall2_in_l _ _ _ _ E0 Hl) as [e [_ He]]. cbv beta in He.
  destruct (load_layer_default t e l He) as [Hdir Hdef]. rewrite Hdir in Hd. eapply Hdef; eauto.
Qed.


(* ------------------------------------------------------------------------------------------ *)
(** ** layer order *)

Theorem layer_order : forall c o (f : font),
  font_valid S f ->
  exists t f', spec_write S c o f = Some t /\ load S t = Ok f' /\
               map l_name (f_layers S f') = map l_name (f_layers S f) /\
               map l_dir (f_layers S f') = map l_dir (f_layers S f) /\
               default_first (f_layers S f').
Proof.
  intros c o f Hv. destruct (load_spec_write c o f Hv) as (t & Hw & f' & Hl & He).
  exists t, f'. split; [exact Hw|]. split; [exact Hl|].
  pose proof Hv as (_ & _ & _ & _ & _ & HND & _ & Hobj & _ & _ & _ & (Hdf & _)).
  destruct (equiv_structure f f' He Hobj HND Hdf) as (_ & _ & A3).
  destruct He as (_ & _ & _ & _ & _ & _ & _ & Hls & _).
  split; [|split; [|exact A3]].
  - symmetry. clear -Hls. induction Hls as [|a b l r (H & _) F IH]; simpl; congruence.
  - symmetry. clear -Hls. induction Hls as [|a b l r (_ & H & _) F IH]; simpl; congruence.
Qed.


(* ------------------------------------------------------------------------------------------ *)
(** ** what is written is format 3 *)

Theorem output_is_v3 : forall o (f : font) (t : tree),
  font_valid S f -> save S o f = Ok t ->
  exists mc m, t_meta S t = Some mc /\ dec (P_meta S) mc = Some m /\ m_version m = 3 /\
               m_creator m = Some NORAD_CREATOR /\ m_minor m = m_minor (f_meta S f).
Proof.
  intros o f t Hv Hs. destruct (save_load_roundtrip o f Hv) as (t' & S1 & W & _).
  rewrite Hs in S1. inversion S1; subst t'.
  destruct (spec_write_meta _ _ _ _ W) as [mc [Hm1 Hm2]].
  pose proof Hv as (Hver & Hmeta & _). rewrite (meta_to_write_v3 _ Hver) in Hmeta.
  destruct (rt _ (ok_meta S OK) o _ Hmeta) as [mc' [m' [R1 [R2 R3]]]].
  rewrite Hm2 in R1. inversion R1; subst mc'. apply (meta_exact S OK) in R3. subst m'.
  exists mc. eexists. split; [exact Hm1|]. split; [exact R2|]. simpl. auto.
Qed.

(** a font that cannot be saved: not format 3, or a user-supplied public.objectLibs *)
Theorem save_refuses : forall o (f : font),
  (m_version (f_meta S f) <> 3 -> save S o f = Err SDowngrade) /\
  (m_version (f_meta S f) = 3 -> d_get S OBJ (f_lib S f) <> None -> save S o f = Err SPreexistingObjectLibs).
Proof.
  intros o f. unfold save. split.
  - intros H. apply N.eqb_neq in H. rewrite H. reflexivity.
  - intros H1 H2. rewrite H1. change (negb (3 =? 3)) with false. cbv iota. unfold d_mem.
    destruct (d_get S OBJ (f_lib S f)); [reflexivity|congruence].
Qed.


(* ------------------------------------------------------------------------------------------ *)
(** ** C04: a loaded font is a valid font *)

Section ClosedAt.
Variable t : tree.
Hypothesis CA : sig_closed_at S t.

Lemma bare_guides_ok : forall gs : list (T_gbody S * option str),
  (forall g, In g gs -> forall id, snd g = Some id -> wf_key S id) ->
  Forall (guide_ok S) (map (bare S) gs).
Proof.
  intros gs H. apply Forall_forall. intros g Hg. apply in_map_iff in Hg. destruct Hg as [d [<- Hd]].
  split; simpl; [discriminate|]. intros id Hid. eapply H; eauto.
Qed.

Lemma attach_props : forall (gs : list (T_gbody S * option str)) ol r,
  attach_libs S gs ol = Ok r -> wf_dict S ol ->
  (forall g, In g gs -> forall id, snd g = Some id -> wf_key S id) ->
  map (strip_g S) r = gs /\ Forall (guide_ok S) r.
Proof.
  induction gs as [|g gs IH]; simpl; intros ol r H Hw Hids; [inversion H; split; constructor|].
  assert (Hids' : forall g0, In g0 gs -> forall id, snd g0 = Some id -> wf_key S id)
    by (intros; eapply Hids; eauto).
  assert (Hbare : guide_ok S (bare S g)).
  { split; simpl; [discriminate|]. intros id Hid. eapply Hids; eauto. }
  destruct (snd g) as [id|] eqn:Eid.
  - destruct (d_get S id ol) as [v|] eqn:Ev.
    + destruct (as_dict S v) as [l|] eqn:El; [|discriminate].
      destruct (attach_libs S gs (d_del S id ol)) as [r'| |] eqn:Er; simpl in H; try discriminate.
      inversion H; subst r. destruct (IH _ _ Er (wf_dict_del _ _ Hw) Hids') as [H1 H2].
      simpl. split.
      * rewrite H1. f_equal. destruct g; simpl in *; subst; reflexivity.
      * constructor; [|exact H2]. split; simpl.
        -- intros x Hx. inversion Hx; subst x. split; [|eauto].
           eapply (wf_as S OK); [|exact El]. apply (Hw id v Ev).
        -- intros x Hx. inversion Hx; subst x. eapply Hids; eauto.
    + destruct (attach_libs S gs ol) as [r'| |] eqn:Er; simpl in H; try discriminate.
      inversion H; subst r. destruct (IH _ _ Er Hw Hids') as [H1 H2]. simpl. rewrite H1, strip_bare.
      split; [reflexivity|constructor; assumption].
  - destruct (attach_libs S gs ol) as [r'| |] eqn:Er; simpl in H; try discriminate.
    inversion H; subst r. destruct (IH _ _ Er Hw Hids') as [H1 H2]. simpl. rewrite H1, strip_bare.
    split; [reflexivity|constructor; assumption].
Qed.

Lemma load_object_libs_props : forall sg lib0 r,
  load_object_libs S sg lib0 = Ok r -> wf_dict S lib0 ->
  (forall g, In g (dflt_list sg) -> forall id, snd g = Some id -> wf_key S id) ->
  option_map (map (strip_g S)) (fst r) = sg /\ wf_dict S (snd r) /\ d_get S OBJ (snd r) = None /\
  Forall (guide_ok S) (dflt_list (fst r)).
Proof.
  intros sg lib0 r H Hw Hids. unfold load_object_libs in H.
  destruct (d_get S OBJ lib0) as [v|] eqn:Ev.
  - destruct (as_dict S v) as [ol|] eqn:Eol; [|discriminate].
    assert (Hwol : wf_dict S ol) by (eapply (wf_as S OK); [apply (Hw OBJ v Ev)|exact Eol]).
    assert (Hdel : d_get S OBJ (d_del S OBJ lib0) = None) by (rewrite (get_del S OK), str_eqb_refl; reflexivity).
    destruct sg as [gs|].
    + destruct (attach_libs S gs ol) as [gs'| |] eqn:Ea; simpl in H; try discriminate.
      inversion H; subst r. simpl. destruct (attach_props _ _ _ Ea Hwol Hids) as [H1 H2].
      rewrite H1. split; [reflexivity|]. split; [apply wf_dict_del; exact Hw|]. split; [exact Hdel|exact H2].
    + inversion H; subst r. simpl. split; [reflexivity|]. split; [apply wf_dict_del; exact Hw|]. split; [exact Hdel|constructor].
  - inversion H; subst r. simpl. split; [|split; [exact Hw|split; [exact Ev|]]].
    + destruct sg; simpl; [rewrite map_strip_bare|]; reflexivity.
    + destruct sg as [gs|]; simpl; [apply bare_guides_ok; exact Hids|constructor].
Qed.

Lemma alookup_some_in {V} k (l : list (str * V)) v : alookup k l = Some v -> In (k, v) l.
Proof.
  induction l as [|[k' v'] l IH]; simpl; intros H; [discriminate|].
  destruct (str_eqb k k') eqn:E; [apply list_eqb_N_eq in E; inversion H; subst; auto|auto].
Qed.

Lemma load_layer_props : forall e (l : lay),
  load_layer S t e = Ok l ->
  l_name l = fst e /\ l_dir l = snd e /\ (Forall (glyph_entry_ok S) (l_glyphs l) -> layer_ok S l).
Proof.
  intros e l H. unfold load_layer in H.
  destruct (alookup (snd e) (t_dirs S t)) as [d|] eqn:Ed; [|discriminate].
  destruct (ld_contents S d) as [cc|] eqn:Ec; [|discriminate].
  destruct (dec (P_contents S) cc) as [cl|] eqn:Ecl; [|discriminate].
  destruct (nodupb (map (fun e => lower S (snd e)) cl)) eqn:End; cbn [negb] in H; [|discriminate]. apply nodupb_iff in End.
  bind_inv H. inversion H; subst l; clear H. simpl. split; [reflexivity|]. split; [reflexivity|].
  intros HGL. apply mapM_Forall2 in E.
  assert (Hfst : map fst a = cl).
  { clear -E. induction E as [|x y l r Hxy F IH]; [reflexivity|]. simpl. rewrite IH. f_equal.
    unfold load_glyph in Hxy. destruct (alookup (snd x) (ld_glifs S d)) as [gc|]; [|discriminate].
    destruct (dec (P_glif S) gc); inversion Hxy. destruct x; reflexivity. }
  unfold layer_ok. simpl.
  assert (Hli : wf_dict S match a0 with Some (_, Some l0) => l0 | _ => d_empty S end /\
                forall k, match a0 with Some v => fst v | None => None end = Some k -> wf_color S k).
  { unfold load_opt in E0. destruct (ld_info S d) as [lic|] eqn:Eli.
    - destruct (dec (P_li S) lic) as [[c ol]|] eqn:El; [|discriminate]. inversion E0; subst a0.
      apply (at_li S t CA _ _ _ _ Ed Eli) in El. apply (li_wf S OK) in El. destruct El as [H1 H2]. simpl. split.
      + destruct ol as [x|]; [apply H2; reflexivity|apply wf_dict_empty].
      + exact H1.
    - inversion E0; subst a0. split; [apply wf_dict_empty|discriminate]. }
  destruct Hli as [Hl1 Hl2]. split; [exact Hl1|]. split; [exact Hl2|].
  split. { unfold contents_of. simpl. rewrite Hfst. apply (at_contents S t CA _ _ Ecl). }
  split.
  { replace (map (fun e0 : str * str * T_glyph S => lower S (snd (fst e0))) a)
      with (map (fun e0 : str * str => lower S (snd e0)) (map fst a)) by (rewrite map_map; reflexivity).
    rewrite Hfst. exact End. }
  exact HGL.
Qed.

Lemma load_layers_props : forall ls,
  load_layers S t 3 = Ok ls -> Forall (fun l : lay => Forall (glyph_entry_ok S) (l_glyphs l)) ls -> layers_ok S ls.
Proof.
  intros ls H HGL. unfold load_layers in H.
  destruct (t_lcontents S t) as [lcc|] eqn:E1; [|discriminate].
  destruct (dec (P_lc S) lcc) as [lc|] eqn:E2; [|discriminate]. cbn [bind] in H.
  destruct (lc_precheck S [] [] lc) eqn:Epre; [discriminate|].
  apply lc_precheck_none in Epre. destruct Epre as [[NDn _] [[NDd _] Hres]].
  destruct (mapM (load_layer S t) lc) as [ls0| |] eqn:Em; simpl in H; try discriminate.
  destruct (find_idx (is_default_dir S) ls0) as [i|] eqn:Ei; [|discriminate]. inversion H; subst ls; clear H.
  apply mapM_Forall2 in Em.
  assert (Hall : Forall2 (fun e (l : lay) => l_name l = fst e /\ l_dir l = snd e /\
                                              (Forall (glyph_entry_ok S) (l_glyphs l) -> layer_ok S l)) lc ls0).
  { eapply Forall2_impl_in; [|exact Em]. intros e l _ _ He. cbv beta in He. apply (load_layer_props e l He). }
  assert (Hdirs : map l_dir ls0 = map snd lc).
  { apply Forall2_map_fst_eq. eapply Forall2_impl_in; [|exact Hall]. intros a b _ _ (_ & H & _). exact H. }
  assert (Hlcof : lc_of S ls0 = lc).
  { clear -Hall. induction Hall as [|e l lc ls0 (H1 & H2 & _) F IH]; [reflexivity|].
    unfold lc_of in *. simpl. rewrite IH, H1, H2. destruct e; reflexivity. }
  assert (NDl : NoDup (map (fun l : lay => lower S (l_dir l)) ls0)).
  { rewrite <- (map_map l_dir (lower S)), Hdirs, map_map. exact NDd. }
  assert (Hnames : map l_name ls0 = map fst lc).
  { apply Forall2_map_fst_eq. eapply Forall2_impl_in; [|exact Hall]. intros a b _ _ (H & _). exact H. }
  destruct (find_idx_nth _ _ _ Ei) as [d [Hd Hpd]].
  unfold move_to_front. rewrite Hd. unfold move_to_front in HGL. rewrite Hd in HGL.
  destruct (NoDup_remove_nth (fun l : lay => lower S (l_dir l)) i ls0 d NDl Hd) as [ND' Hothers].
  assert (Hdg : l_dir d = GLYPHS) by (apply list_eqb_N_eq; exact Hpd).
  assert (Hin : forall x, In x (d :: remove_nth i ls0) -> In x ls0).
  { intros x [<-|Hx]; [eapply nth_error_In; eauto|eapply in_remove_nth; eauto]. }
  assert (Hok0 : Forall (layer_ok S) (d :: remove_nth i ls0)).
  { apply Forall_forall. intros l Hl. pose proof (Hin l Hl) as Hl0. apply Forall2_flip in Hall.
    destruct (Forall2_in_l _ _ _ _ Hall Hl0) as [e [_ (_ & _ & H)]]. apply H.
    rewrite Forall_forall in HGL. apply HGL. exact Hl. }
  assert (NDn0 : NoDup (map l_name ls0)) by (rewrite Hnames; exact NDn).
  destruct (NoDup_remove_nth l_name i ls0 d NDn0 Hd) as [NDn' _].
  split; [split; [exact Hdg|]|split; [exact ND'|split; [|split; [|split; [exact NDn'|]]]]].
  - apply Forall_forall. intros x Hx. rewrite <- Hdg. intros E. apply (Hothers x Hx). rewrite E. reflexivity.
  - exact Hok0.
  - apply (lc_wf S OK). unfold lc_of. rewrite Forall_map. apply Forall_forall. intros x Hx.
    apply (at_lc S t CA) in E2. apply (lc_wf S OK) in E2. rewrite <- Hlcof in E2. unfold lc_of in E2.
    rewrite Forall_map in E2. rewrite Forall_forall in E2. apply E2. apply Hin. exact Hx.
  - apply Forall_forall. intros x Hx. apply Hin in Hx. apply Forall2_flip in Hall.
    destruct (Forall2_in_l _ _ _ _ Hall Hx) as [e [He (A & B & _)]]. rewrite Forall_forall in Hres.
    rewrite A, B. apply (Hres e He).
Qed.

Theorem load_yields_valid_at : forall (f : font) mc m,
  load S t = Ok f -> t_meta S t = Some mc -> dec (P_meta S) mc = Some m -> m_version m = 3 ->
  Forall (fun l : lay => Forall (glyph_entry_ok S) (l_glyphs l)) (f_layers S f) ->
  font_valid S f.
Proof.
  intros f mc m H Hm1 Hm2 Hv HGL.
  destruct (load_elim t f H) as (mc' & m' & olib & il & og & ok & ls & E1 & E2 & E3 & E4 & E5 & E6 & E7 & E8 &
                                 F1 & F2 & F3 & F4 & F5).
  rewrite Hm1 in E1. inversion E1; subst mc'. rewrite Hm2 in E2. inversion E2; subst m'.
  destruct (F5 Hv) as (G1 & G2 & G3 & G4 & G5). rewrite Hv in *.
  (* the lib as read *)
  assert (Hwl0 : wf_dict S (lib0_of olib)).
  { unfold load_opt in E3. destruct (t_lib S t) as [c|] eqn:Etl.
    - destruct (dec (P_lib S) c) as [d|] eqn:Ed; [|discriminate]. inversion E3; subst olib. simpl.
      apply (lib_wf S OK). apply (at_lib S t CA _ _ Etl Ed).
    - inversion E3; subst olib. apply wf_dict_empty. }
  (* font info and lib *)
  assert (HI : info_ok S (fst il) = true /\ wf (P_info S) (stripped S (fst il)) /\
               Forall (guide_ok S) (guides_of S (fst il)) /\ wf_dict S (snd il)).
  { destruct (t_info S t) as [c|] eqn:Ei.
    - unfold load_fontinfo in E4. change (3 =? 3) with true in E4. cbv iota in E4.
      destruct (dec (P_info S) c) as [si|] eqn:Es; [|discriminate].
      destruct (info_ok S _) eqn:Eok; [|discriminate].
      destruct (load_object_libs S (snd si) (lib0_of olib)) as [r| |] eqn:Er; simpl in E4; try discriminate.
      inversion E4; subst il. simpl.
      pose proof (at_info S t CA _ _ Es) as Hwsi.
      destruct (load_object_libs_props _ _ _ Er Hwl0 (at_info_ids_wf S t CA c si Es)) as (P1 & P2 & P3 & P4).
      assert (Hstr : stripped S {| i_rest := fst si; i_guides := fst r |} = si).
      { unfold stripped. simpl. rewrite P1. destruct si; reflexivity. }
      split. { rewrite <- Eok. apply (info_ok_stripped S OK). rewrite Hstr, stripped_bare. apply (peq_refl _ (ok_info S OK)). }
      split. { rewrite Hstr. exact Hwsi. }
      split. { unfold guides_of. simpl. exact P4. }
      exact P2.
    - inversion E4; subst il. simpl. split; [apply (info_dflt_ok S OK)|]. split; [apply (info_dflt_wf S OK)|].
      split; [constructor|exact Hwl0]. }
  destruct HI as (I1 & I2 & I3 & I4).
  unfold font_valid. rewrite F1, G1, G2, G3, G4, F2.
  split; [reflexivity|]. split. { rewrite meta_to_write_v3 by reflexivity. apply (at_meta_wf_norad S t CA mc m Hm2). }
  split; [exact I1|]. split; [exact I2|]. split; [exact I3|].
  split; [apply (at_info_ok_nodup S t CA); exact I1|]. split; [apply wf_dict_remove_key; exact I4|].
  split; [apply get_remove_key|].
  split.
  { destruct og as [g|]; simpl; [apply E6; reflexivity|apply (groups_dflt_wf S OK)]. }
  split.
  { unfold load_opt in E5. destruct (t_groups S t) as [c|].
    - destruct (dec (P_groups S) c) as [g|] eqn:Eg; [|discriminate]. inversion E5; subst og. simpl.
      apply (at_groups S t CA _ _ Eg).
    - inversion E5; subst og. simpl. apply (groups_dflt_wf S OK). }
  split.
  { unfold load_opt in E7. destruct (t_kerning S t) as [c|] eqn:Etk.
    - destruct (dec (P_kerning S) c) as [k|] eqn:Ek; [|discriminate]. inversion E7; subst ok. simpl.
      apply (at_kerning S t CA _ _ Etk Ek).
    - inversion E7; subst ok. simpl. apply (kerning_dflt_wf S OK). }
  eapply load_layers_props; eauto. rewrite <- F2. exact HGL.
Qed.

(** the fixed point for every loaded font whose glyphs are in the glif writer's domain *)
Theorem fixed_point_at : forall o (f : font) mc m,
  load S t = Ok f -> t_meta S t = Some mc -> dec (P_meta S) mc = Some m -> m_version m = 3 ->
  Forall (fun l : lay => Forall (glyph_entry_ok S) (l_glyphs l)) (f_layers S f) ->
  exists t', save S o f = Ok t' /\ exists f', load S t' = Ok f' /\ font_equiv S f f'.
Proof.
  intros o f mc m H Hm1 Hm2 Hv HGL.
  destruct (save_load_roundtrip o f (load_yields_valid_at f mc m H Hm1 Hm2 Hv HGL)) as (t' & H1 & _ & H2). eauto.
Qed.

End ClosedAt.

(** closed readers are closed at every tree *)
Section Closed.
Hypothesis CL : sig_closed0 S.

Lemma closed0_at : forall t : tree, sig_closed_at S t.
Proof.
  intros t. destruct CL. constructor; try assumption.
  - intros c x _ Hd. eauto.
  - intros c x _ Hd. eauto.
  - intros dn d c x _ _ Hd. eauto.
Qed.

Theorem load_yields_valid0 : forall (t : tree) (f : font) mc m,
  load S t = Ok f -> t_meta S t = Some mc -> dec (P_meta S) mc = Some m -> m_version m = 3 ->
  Forall (fun l : lay => Forall (glyph_entry_ok S) (l_glyphs l)) (f_layers S f) ->
  font_valid S f.
Proof. intros t. exact (load_yields_valid_at t (closed0_at t)). Qed.

(** the fixed point for every loaded font whose glyphs are in the glif writer's domain *)
Theorem fixed_point0 : forall o (t : tree) (f : font) mc m,
  load S t = Ok f -> t_meta S t = Some mc -> dec (P_meta S) mc = Some m -> m_version m = 3 ->
  Forall (fun l : lay => Forall (glyph_entry_ok S) (l_glyphs l)) (f_layers S f) ->
  exists t', save S o f = Ok t' /\ exists f', load S t' = Ok f' /\ font_equiv S f f'.
Proof. intros o t. exact (fixed_point_at t (closed0_at t) o). Qed.

End Closed.

(** ** with a closed glif reader the glyph condition holds for every loaded font *)
Section ClosedGlif.
Hypothesis CL : sig_closed S.

Lemma load_glyph_entry_ok : forall (d : ldir S) ce e, load_glyph S d ce = Ok e -> glyph_entry_ok S e.
Proof.
  intros d ce e H. unfold load_glyph in H.
  destruct (alookup (snd ce) (ld_glifs S d)) as [c|]; [|discriminate].
  destruct (dec (P_glif S) c) as [g|] eqn:Eg; [|discriminate]. inversion H; subst e. split; simpl.
  - apply (wf_set_name S CL). apply (cl_glif S CL _ _ Eg).
  - apply (name_of_set S OK).
Qed.

Lemma loaded_glyph_entries_ok : forall (t : tree) (f : font),
  load S t = Ok f -> Forall (fun l : lay => Forall (glyph_entry_ok S) (l_glyphs l)) (f_layers S f).
Proof.
  intros t f H.
  destruct (load_elim t f H) as (mc & m & olib & il & og & ok & ls & _ & _ & _ & _ & _ & _ & _ & E8 & _ & F2 & _).
  rewrite F2. unfold load_layers in E8. bind_inv E8.
  destruct (lc_precheck S [] [] a); [discriminate|]. bind_inv E8.
  destruct (find_idx (is_default_dir S) a0) as [i|]; [|discriminate]. inversion E8; subst ls.
  apply Forall_forall. intros l Hl. apply in_move_to_front in Hl.
  apply mapM_Forall2 in E0. apply Forall2_flip in E0.
  destruct (Forall2_in_l _ _ _ _ E0 Hl) as [e [_ He]]. cbv beta in He. unfold load_layer in He.
  destruct (alookup (snd e) (t_dirs S t)) as [d|]; [|discriminate].
  destruct (ld_contents S d) as [cc|]; [|discriminate].
  destruct (dec (P_contents S) cc) as [cl|]; [|discriminate].
  destruct (negb (nodupb (map (fun e0 : str * str => lower S (snd e0)) cl))); [discriminate|].
  bind_inv He. inversion He; subst l. simpl. apply mapM_Forall2 in E1.
  apply Forall_forall. intros x Hx. apply Forall2_flip in E1.
  destruct (Forall2_in_l _ _ _ _ E1 Hx) as [ce [_ Hce]]. eapply load_glyph_entry_ok; eauto.
Qed.

Theorem load_yields_valid : forall (t : tree) (f : font) mc m,
  load S t = Ok f -> t_meta S t = Some mc -> dec (P_meta S) mc = Some m -> m_version m = 3 ->
  font_valid S f.
Proof.
  intros t f mc m H Hm1 Hm2 Hv.
  exact (load_yields_valid0 (cl_base S CL) t f mc m H Hm1 Hm2 Hv (loaded_glyph_entries_ok t f H)).
Qed.

(** C04 at full strength: whatever format-3 tree norad loads, the loaded font is saved and loaded
    again as an equal font *)
Theorem fixed_point_full : forall o (t : tree) (f : font) mc m,
  load S t = Ok f -> t_meta S t = Some mc -> dec (P_meta S) mc = Some m -> m_version m = 3 ->
  exists t', save S o f = Ok t' /\ exists f', load S t' = Ok f' /\ font_equiv S f f'.
Proof.
  intros o t f mc m H Hm1 Hm2 Hv.
  destruct (save_load_roundtrip o f (load_yields_valid t f mc m H Hm1 Hm2 Hv)) as (t' & H1 & _ & H2). eauto.
Qed.

End ClosedGlif.

End Proofs.
